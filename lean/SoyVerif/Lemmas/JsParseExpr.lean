/-
  The expression parser of Spec/JsParse is the inverse of the obvious token printer on well-levelled trees.

  `tk p` prints a tree as tokens WITHOUT adding parentheses (a `PE.paren` node prints its own); `Wf p` says every
  operand stands at a level of the grammar at which the parser reads it back as that operand (both operands of a
  binary operator bind tighter than the operator: no `a + b + c` chains — the generator parenthesises); then, with
  enough fuel (the number of tokens), `assignN` reads `tk p` — followed by anything that does not continue an
  expression — as `p`.
-/
import SoyVerif.Spec.JsParse

namespace SoyVerif.Lemmas.JsParseExpr
open SoyVerif SoyVerif.Spec SoyVerif.Spec.JsParse

/-! ## tokens of a tree -/

def UnOp.tok : UnOp → Tok
  | .neg => .p b!"-"
  | .not => .p b!"!"
  | .typeof => .id b!"typeof"

def AsgOp.tok : AsgOp → Tok
  | .set => .p b!"="
  | .add => .p b!"+="

mutual
  def tk : PE → List Tok
    | .ident s => [.id s]
    | .null => [.id b!"null"]
    | .bool b => [.id (if b then b!"true" else b!"false")]
    | .num v => [.num v]
    | .str v => [.str v]
    | .obj ps => .p b!"{" :: tkProps ps
    | .paren x => .p b!"(" :: (tk x ++ [.p b!")"])
    | .member x k => tk x ++ [.p b!".", .id k]
    | .index x i => tk x ++ (.p b!"[" :: (tk i ++ [.p b!"]"]))
    | .call f as => tk f ++ (.p b!"(" :: tkArgs as)
    | .postInc x => tk x ++ [.p b!"++"]
    | .unary op x => UnOp.tok op :: tk x
    | .bin op a b => tk a ++ (.p op.sym :: tk b)
    | .cond c a b => tk c ++ (.p b!"?" :: (tk a ++ (.p b!":" :: tk b)))
    | .assign op l r => tk l ++ (AsgOp.tok op :: tk r)
  /-- the arguments and the closing parenthesis -/
  def tkArgs : PArgs → List Tok
    | .nil => [.p b!")"]
    | .cons a r => tk a ++ tkArgsTail r
  def tkArgsTail : PArgs → List Tok
    | .nil => [.p b!")"]
    | .cons a r => .p b!"," :: (tk a ++ tkArgsTail r)
  /-- the properties and the closing brace -/
  def tkProps : PProps → List Tok
    | .nil => [.p b!"}"]
    | .cons k v r => .id k :: .p b!":" :: (tk v ++ tkPropsTail r)
  def tkPropsTail : PProps → List Tok
    | .nil => [.p b!"}"]
    | .cons k v r => .p b!"," :: .id k :: .p b!":" :: (tk v ++ tkPropsTail r)
end

/-! ## levels -/

def PE.lvl : PE → Nat
  | .postInc _ => 1
  | .unary _ _ => 1
  | .bin op _ _ => op.lvl
  | .cond _ _ _ => 12
  | .assign _ _ _ => 13
  | _ => 0

mutual
  def Wf : PE → Prop
    | .ident s => isReserved s = false
    | .null => True
    | .bool _ => True
    | .num _ => True
    | .str _ => True
    | .obj ps => WfProps ps
    | .paren x => Wf x
    | .member x _ => Wf x ∧ PE.lvl x = 0
    | .index x i => Wf x ∧ PE.lvl x = 0 ∧ Wf i
    | .call f as => Wf f ∧ PE.lvl f = 0 ∧ WfArgs as
    | .postInc x => Wf x ∧ PE.lvl x = 0
    | .unary _ x => Wf x ∧ PE.lvl x ≤ 1
    | .bin op a b => Wf a ∧ Wf b ∧ PE.lvl a < op.lvl ∧ PE.lvl b < op.lvl
    | .cond c a b => Wf c ∧ PE.lvl c ≤ 11 ∧ Wf a ∧ Wf b
    | .assign _ l r => Wf l ∧ isRef l = true ∧ Wf r
  def WfArgs : PArgs → Prop
    | .nil => True
    | .cons a r => Wf a ∧ WfArgs r
  def WfProps : PProps → Prop
    | .nil => True
    | .cons _ v r => Wf v ∧ WfProps r
end

/-- the level at which a token continues an expression (none: it does not) -/
def Tok.cont : Tok → Option Nat
  | .p s =>
    match allBinOps.find? (fun op => op.sym == s) with
    | some op => some op.lvl
    | none =>
      if s = b!"." ∨ s = b!"[" ∨ s = b!"(" then some 0
      else if s = b!"++" then some 1
      else if s = b!"?" then some 12
      else if s = b!"=" ∨ s = b!"+=" then some 13
      else none
  | _ => none

/-- the next token does not continue an expression at a level ≤ k -/
def After (k : Nat) (rest : List Tok) : Prop := ∀ t r, rest = t :: r → ∀ j, Tok.cont t = some j → k < j

theorem After.mono {k k' : Nat} {rest : List Tok} (h : After k rest) (hk : k' ≤ k) : After k' rest :=
  fun t r e j hj => Nat.lt_of_le_of_lt hk (h t r e j hj)

theorem After.nil (k : Nat) : After k [] := fun _ _ e => by cases e

theorem after_cons {k : Nat} {t : Tok} {r : List Tok} (h : ∀ j, Tok.cont t = some j → k < j) : After k (t :: r) := by
  intro t' r' e j hj
  cases e
  exact h j hj

/-! ## eat -/

@[simp] theorem eat_self (s : Bytes) (r : List Tok) : eat s (.p s :: r) = some r := by simp [eat]
@[simp] theorem eatId_self (s : Bytes) (r : List Tok) : eatId s (.id s :: r) = some r := by simp [eatId]
@[simp] theorem eat_nil (s : Bytes) : eat s [] = none := rfl
@[simp] theorem eatId_nil (s : Bytes) : eatId s [] = none := rfl
@[simp] theorem eat_id (s s' : Bytes) (r : List Tok) : eat s (.id s' :: r) = none := rfl
@[simp] theorem eat_num (s : Bytes) (v : Nat) (r : List Tok) : eat s (.num v :: r) = none := rfl
@[simp] theorem eat_str (s v : Bytes) (r : List Tok) : eat s (.str v :: r) = none := rfl
@[simp] theorem eatId_p (s s' : Bytes) (r : List Tok) : eatId s (.p s' :: r) = none := rfl
@[simp] theorem eatId_num (s : Bytes) (v : Nat) (r : List Tok) : eatId s (.num v :: r) = none := rfl
@[simp] theorem eatId_str (s v : Bytes) (r : List Tok) : eatId s (.str v :: r) = none := rfl
theorem eat_ne {s s' : Bytes} (h : s' ≠ s) (r : List Tok) : eat s (.p s' :: r) = none := by simp [eat, h]
theorem eatId_ne {s s' : Bytes} (h : s' ≠ s) (r : List Tok) : eatId s (.id s' :: r) = none := by simp [eatId, h]

/-- a punctuator that continues an expression at a level ≤ k is not next -/
theorem eat_after {k j : Nat} {s : Bytes} {rest : List Tok} (h : After k rest) (hc : Tok.cont (.p s) = some j)
    (hj : j ≤ k) : eat s rest = none := by
  cases rest with
  | nil => rfl
  | cons t r =>
    cases t with
    | p s' =>
      by_cases e : s' = s
      · subst e
        have := h _ _ rfl j hc
        omega
      · exact eat_ne e r
    | id _ => rfl
    | num _ => rfl
    | str _ => rfl

theorem after_of_none {t : Tok} (h : Tok.cont t = none) (k : Nat) (r : List Tok) : After k (t :: r) :=
  after_cons (by intro j hj; rw [h] at hj; cases hj)

theorem after_of_some {t : Tok} {j : Nat} (h : Tok.cont t = some j) {k : Nat} (hk : k < j) (r : List Tok) :
    After k (t :: r) :=
  after_cons (by intro j' hj; rw [h] at hj; cases hj; exact hk)

/-! ## one nesting level -/

/-- `pa` reads every well-levelled tree of at most `m` tokens -/
def PaOk (pa : P PE) (m : Nat) : Prop :=
  ∀ q, Wf q → (tk q).length ≤ m → ∀ rest, After 13 rest → pa (tk q ++ rest) = some (q, rest)

theorem argsLoop_rt {pa : P PE} {m : Nat} (h : PaOk pa m) :
    ∀ (as : PArgs) (a : PE) (k : Nat) (rest : List Tok), Wf a → WfArgs as →
      (tk a).length + (tkArgsTail as).length ≤ m + 1 → (tkArgsTail as).length ≤ k →
      argsLoop pa k (tk a ++ (tkArgsTail as ++ rest)) = some (.cons a as, rest)
  | .nil, a, k, rest, wa, _, hm, hk => by
    cases k with
    | zero => simp [tkArgsTail] at hk
    | succ k =>
      simp only [tkArgsTail, List.length_cons, List.length_nil] at hm
      have := h a wa (by omega) (.p b!")" :: rest) (after_of_none rfl _ _)
      unfold argsLoop
      simp only [tkArgsTail, List.cons_append, List.nil_append]
      rw [this]
      simp
  | .cons a' r, a, k, rest, wa, was, hm, hk => by
    cases k with
    | zero => simp [tkArgsTail] at hk
    | succ k =>
      simp only [WfArgs] at was
      simp only [tkArgsTail, List.length_cons, List.length_append] at hm hk
      have := h a wa (by omega) (.p b!"," :: (tk a' ++ (tkArgsTail r ++ rest))) (after_of_none rfl _ _)
      have ih := argsLoop_rt h r a' k rest was.1 was.2 (by omega) (by omega)
      unfold argsLoop
      simp only [tkArgsTail, List.cons_append, List.append_assoc]
      rw [this]
      simp only [eat_ne (show (b!"," : Bytes) ≠ b!")" by decide), eat_self, ih]

/-! ### the first token of a tree -/

def headTok : PE → Tok
  | .ident s => .id s
  | .null => .id b!"null"
  | .bool b => .id (if b then b!"true" else b!"false")
  | .num v => .num v
  | .str v => .str v
  | .obj _ => .p b!"{"
  | .paren _ => .p b!"("
  | .member x _ => headTok x
  | .index x _ => headTok x
  | .call f _ => headTok f
  | .postInc x => headTok x
  | .unary op _ => UnOp.tok op
  | .bin _ a _ => headTok a
  | .cond c _ _ => headTok c
  | .assign _ l _ => headTok l

theorem tk_head? : ∀ p : PE, (tk p).head? = some (headTok p)
  | .ident _ => rfl
  | .null => rfl
  | .bool _ => rfl
  | .num _ => rfl
  | .str _ => rfl
  | .obj _ => by simp [tk, headTok]
  | .paren _ => by simp [tk, headTok]
  | .member x _ => by simp [tk, headTok, List.head?_append, tk_head? x]
  | .index x _ => by simp [tk, headTok, List.head?_append, tk_head? x]
  | .call f _ => by simp [tk, headTok, List.head?_append, tk_head? f]
  | .postInc x => by simp [tk, headTok, List.head?_append, tk_head? x]
  | .unary _ _ => by simp [tk, headTok]
  | .bin _ a _ => by simp [tk, headTok, List.head?_append, tk_head? a]
  | .cond c _ _ => by simp [tk, headTok, List.head?_append, tk_head? c]
  | .assign _ l _ => by simp [tk, headTok, List.head?_append, tk_head? l]

theorem tk_head (p : PE) : ∃ r, tk p = headTok p :: r := by
  have := tk_head? p
  cases h : tk p with
  | nil => simp [h] at this
  | cons t r => simp [h] at this; exact ⟨r, by rw [this]⟩

/-- a token a PrimaryExpression begins with -/
def PStart : Tok → Prop
  | .id s => s ≠ b!"typeof"
  | .num _ => True
  | .str _ => True
  | .p s => s = b!"(" ∨ s = b!"{"

/-- a token an expression begins with -/
def EStart : Tok → Prop
  | .p s => s = b!"(" ∨ s = b!"{" ∨ s = b!"-" ∨ s = b!"!"
  | _ => True

theorem PStart.e {t : Tok} (h : PStart t) : EStart t := by
  cases t <;> simp_all [PStart, EStart]
  rcases h with h | h <;> simp [h]

theorem headTok_pstart : ∀ p : PE, Wf p → PE.lvl p = 0 → PStart (headTok p)
  | .ident s, w, _ => by
    simp only [Wf] at w
    simp only [headTok, PStart]
    intro e; subst e; revert w; decide
  | .null, _, _ => by simp [headTok, PStart]
  | .bool b, _, _ => by cases b <;> simp [headTok, PStart]
  | .num _, _, _ => trivial
  | .str _, _, _ => trivial
  | .obj _, _, _ => by simp [headTok, PStart]
  | .paren _, _, _ => by simp [headTok, PStart]
  | .member x _, w, _ => by simp only [Wf] at w; exact headTok_pstart x w.1 w.2
  | .index x _, w, _ => by simp only [Wf] at w; exact headTok_pstart x w.1 w.2.1
  | .call f _, w, _ => by simp only [Wf] at w; exact headTok_pstart f w.1 w.2.1
  | .postInc _, _, h => by simp [PE.lvl] at h
  | .unary _ _, _, h => by simp [PE.lvl] at h
  | .bin op _ _, _, h => by cases op <;> simp [PE.lvl, BinOp.lvl] at h
  | .cond _ _ _, _, h => by simp [PE.lvl] at h
  | .assign _ _ _, _, h => by simp [PE.lvl] at h

theorem headTok_estart : ∀ p : PE, Wf p → EStart (headTok p)
  | .ident s, w => (headTok_pstart _ w rfl).e
  | .null, w => (headTok_pstart _ w rfl).e
  | .bool b, w => (headTok_pstart _ w rfl).e
  | .num _, _ => trivial
  | .str _, _ => trivial
  | .obj _, w => (headTok_pstart _ w rfl).e
  | .paren _, w => (headTok_pstart _ w rfl).e
  | .member x _, w => by simp only [Wf] at w; exact headTok_estart x w.1
  | .index x _, w => by simp only [Wf] at w; exact headTok_estart x w.1
  | .call f _, w => by simp only [Wf] at w; exact headTok_estart f w.1
  | .postInc x, w => by simp only [Wf] at w; exact headTok_estart x w.1
  | .unary op _, _ => by cases op <;> simp [headTok, UnOp.tok, EStart]
  | .bin _ a _, w => by simp only [Wf] at w; exact headTok_estart a w.1
  | .cond c _ _, w => by simp only [Wf] at w; exact headTok_estart c w.1
  | .assign _ l _, w => by simp only [Wf] at w; exact headTok_estart l w.1

theorem eat_estart {t : Tok} (h : EStart t) {s : Bytes} (h1 : s ≠ b!"(") (h2 : s ≠ b!"{") (h3 : s ≠ b!"-")
    (h4 : s ≠ b!"!") (r : List Tok) : eat s (t :: r) = none := by
  cases t with
  | p s' =>
    apply eat_ne
    rcases h with h | h | h | h <;> (subst h; first | exact Ne.symm h1 | exact Ne.symm h2 | exact Ne.symm h3 | exact Ne.symm h4)
  | id _ => rfl
  | num _ => rfl
  | str _ => rfl

theorem eat_pstart {t : Tok} (h : PStart t) {s : Bytes} (h1 : s ≠ b!"(") (h2 : s ≠ b!"{") (r : List Tok) :
    eat s (t :: r) = none := by
  cases t with
  | p s' =>
    apply eat_ne
    rcases h with h | h <;> (subst h; first | exact Ne.symm h1 | exact Ne.symm h2)
  | id _ => rfl
  | num _ => rfl
  | str _ => rfl

theorem eatId_pstart {t : Tok} (h : PStart t) (r : List Tok) : eatId b!"typeof" (t :: r) = none := by
  cases t with
  | id s => exact eatId_ne h r
  | p _ => rfl
  | num _ => rfl
  | str _ => rfl

/-- no expression begins with `s` -/
theorem eat_tk {p : PE} (w : Wf p) {s : Bytes} (h1 : s ≠ b!"(") (h2 : s ≠ b!"{") (h3 : s ≠ b!"-") (h4 : s ≠ b!"!")
    (rest : List Tok) : eat s (tk p ++ rest) = none := by
  obtain ⟨r, h⟩ := tk_head p
  rw [h]
  exact eat_estart (headTok_estart p w) h1 h2 h3 h4 _

theorem args_rt {pa : P PE} {m : Nat} (n : Nat) (h : PaOk pa m) (as : PArgs) (rest : List Tok) (w : WfArgs as)
    (hm : (tkArgs as).length ≤ m + 1) (hn : (tkArgs as).length ≤ n) :
    args n pa (tkArgs as ++ rest) = some (as, rest) := by
  cases as with
  | nil => simp [args, tkArgs]
  | cons a r =>
    simp only [WfArgs] at w
    simp only [tkArgs, List.length_append] at hm hn
    have ha := argsLoop_rt h r a n rest w.1 w.2 hm (by omega)
    unfold args
    simp only [tkArgs, List.append_assoc]
    rw [eat_tk w.1 (by decide) (by decide) (by decide) (by decide), ha]

theorem propsLoop_rt {pa : P PE} {m : Nat} (h : PaOk pa m) :
    ∀ (ps : PProps) (key : Bytes) (v : PE) (k : Nat) (rest : List Tok), Wf v → WfProps ps →
      (tk v).length + (tkPropsTail ps).length ≤ m + 1 → (tkPropsTail ps).length ≤ k →
      propsLoop pa k (.id key :: .p b!":" :: (tk v ++ (tkPropsTail ps ++ rest))) = some (.cons key v ps, rest)
  | .nil, key, v, k, rest, wv, _, hm, hk => by
    cases k with
    | zero => simp [tkPropsTail] at hk
    | succ k =>
      simp only [tkPropsTail, List.length_cons, List.length_nil] at hm
      have := h v wv (by omega) (.p b!"}" :: rest) (after_of_none rfl _ _)
      unfold propsLoop
      simp only [tkPropsTail, List.cons_append, List.nil_append, eat_self]
      rw [this]
      simp
  | .cons key' v' r, key, v, k, rest, wv, wps, hm, hk => by
    cases k with
    | zero => simp [tkPropsTail] at hk
    | succ k =>
      simp only [WfProps] at wps
      simp only [tkPropsTail, List.length_cons, List.length_append] at hm hk
      have := h v wv (by omega) (.p b!"," :: .id key' :: .p b!":" :: (tk v' ++ (tkPropsTail r ++ rest)))
        (after_of_none rfl _ _)
      have ih := propsLoop_rt h r key' v' k rest wps.1 wps.2 (by omega) (by omega)
      unfold propsLoop
      simp only [tkPropsTail, List.cons_append, List.append_assoc, eat_self]
      rw [this]
      simp only [eat_ne (show (b!"," : Bytes) ≠ b!"}" by decide), eat_self, ih]

theorem props_rt {pa : P PE} {m : Nat} (n : Nat) (h : PaOk pa m) (ps : PProps) (rest : List Tok) (w : WfProps ps)
    (hm : (tkProps ps).length ≤ m + 1) (hn : (tkProps ps).length ≤ n) :
    props n pa (tkProps ps ++ rest) = some (ps, rest) := by
  cases ps with
  | nil => simp [props, tkProps]
  | cons key v r =>
    simp only [WfProps] at w
    simp only [tkProps, List.length_append, List.length_cons] at hm hn
    have ha := propsLoop_rt h r key v n rest w.1 w.2 (by omega) (by omega)
    unfold props
    simp only [tkProps, List.cons_append, List.append_assoc, eat_id]
    rw [ha]

/-- a tree that is a PrimaryExpression -/
def IsPrim : PE → Bool
  | .ident _ | .null | .bool _ | .num _ | .str _ | .obj _ | .paren _ => true
  | _ => false

theorem primary_rt {pa : P PE} {m : Nat} (n : Nat) (h : PaOk pa m) (p : PE) (rest : List Tok) (w : Wf p)
    (hp : IsPrim p = true) (hm : (tk p).length ≤ m + 1) (hn : (tk p).length ≤ n) :
    primary n pa (tk p ++ rest) = some (p, rest) := by
  cases p with
  | ident s =>
    simp only [Wf] at w
    have h1 : s ≠ b!"null" := by intro e; subst e; revert w; decide
    have h2 : s ≠ b!"true" := by intro e; subst e; revert w; decide
    have h3 : s ≠ b!"false" := by intro e; subst e; revert w; decide
    simp [tk, primary, h1, h2, h3, w]
  | null => simp [tk, primary]
  | bool b => cases b <;> simp [tk, primary]
  | num v => simp [tk, primary]
  | str v => simp [tk, primary]
  | obj ps =>
    simp only [Wf] at w
    simp only [tk, List.length_cons] at hm hn
    have := props_rt n h ps rest w (by omega) (by omega)
    simp [tk, primary, this]
  | paren x =>
    simp only [Wf] at w
    simp only [tk, List.length_cons, List.length_append] at hm hn
    have := h x w (by simp at hm; omega) (.p b!")" :: rest) (after_of_none rfl _ _)
    simp [tk, primary, this]
  | member _ _ => simp [IsPrim] at hp
  | index _ _ => simp [IsPrim] at hp
  | call _ _ => simp [IsPrim] at hp
  | postInc _ => simp [IsPrim] at hp
  | unary _ _ => simp [IsPrim] at hp
  | bin _ _ _ => simp [IsPrim] at hp
  | cond _ _ _ => simp [IsPrim] at hp
  | assign _ _ _ => simp [IsPrim] at hp

/-- the number of `.name` / `[e]` / `(args)` behind the PrimaryExpression -/
def chain : PE → Nat
  | .member x _ => chain x + 1
  | .index x _ => chain x + 1
  | .call f _ => chain f + 1
  | _ => 0

theorem tk_pos (p : PE) : 0 < (tk p).length := by
  obtain ⟨r, h⟩ := tk_head p
  rw [h]; simp

theorem chain_lt : ∀ p : PE, chain p < (tk p).length
  | .member x _ => by have := chain_lt x; simp [chain, tk]; omega
  | .index x _ => by have := chain_lt x; simp [chain, tk]; omega
  | .call f _ => by have := chain_lt f; simp [chain, tk]; omega
  | .ident _ => tk_pos _
  | .null => tk_pos _
  | .bool _ => tk_pos _
  | .num _ => tk_pos _
  | .str _ => tk_pos _
  | .obj _ => tk_pos _
  | .paren _ => tk_pos _
  | .postInc _ => tk_pos _
  | .unary _ _ => tk_pos _
  | .bin _ _ _ => tk_pos _
  | .cond _ _ _ => tk_pos _
  | .assign _ _ _ => tk_pos _

/-- reading the tokens of a LeftHandSideExpression `p` leaves the loop with `p` read -/
theorem lhs_loop {pa : P PE} {m : Nat} (n : Nat) (h : PaOk pa m) :
    ∀ (p : PE), Wf p → PE.lvl p = 0 → (tk p).length ≤ m + 1 → (tk p).length ≤ n → ∀ (j : Nat) (rest : List Tok),
      (primary n pa (tk p ++ rest)).bind (fun xr => postLoop n pa (j + chain p) xr.1 xr.2) = postLoop n pa j p rest
  | .member x k, w, _, hm, hn, j, rest => by
    simp only [Wf] at w
    simp only [tk, List.length_append, List.length_cons, List.length_nil] at hm hn
    have ih := lhs_loop n h x w.1 w.2 (by omega) (by omega) (j + 1) (.p b!"." :: .id k :: rest)
    have e : j + chain (.member x k) = j + 1 + chain x := by simp [chain]; omega
    rw [e]
    simp only [tk, List.append_assoc, List.cons_append, List.nil_append]
    rw [ih]
    conv => lhs; unfold postLoop
    simp
  | .index x i, w, _, hm, hn, j, rest => by
    simp only [Wf] at w
    simp only [tk, List.length_append, List.length_cons, List.length_nil] at hm hn
    have ih := lhs_loop n h x w.1 w.2.1 (by omega) (by omega) (j + 1) (.p b!"[" :: (tk i ++ (.p b!"]" :: rest)))
    have hi := h i w.2.2 (by omega) (.p b!"]" :: rest) (after_of_none rfl _ _)
    have e : j + chain (.index x i) = j + 1 + chain x := by simp [chain]; omega
    rw [e]
    simp only [tk, List.append_assoc, List.cons_append, List.nil_append]
    rw [ih]
    conv => lhs; unfold postLoop
    simp only [eat_ne (show (b!"[" : Bytes) ≠ b!"." by decide), eat_self, hi]
  | .call f as, w, _, hm, hn, j, rest => by
    simp only [Wf] at w
    simp only [tk, List.length_append, List.length_cons, List.length_nil] at hm hn
    have ih := lhs_loop n h f w.1 w.2.1 (by omega) (by omega) (j + 1) (.p b!"(" :: (tkArgs as ++ rest))
    have ha := args_rt n h as rest w.2.2 (by omega) (by omega)
    have e : j + chain (.call f as) = j + 1 + chain f := by simp [chain]; omega
    rw [e]
    simp only [tk, List.append_assoc, List.cons_append, List.nil_append]
    rw [ih]
    conv => lhs; unfold postLoop
    simp only [eat_ne (show (b!"(" : Bytes) ≠ b!"." by decide), eat_ne (show (b!"(" : Bytes) ≠ b!"[" by decide),
      eat_self, ha]
  | .ident s, w, _, hm, hn, j, rest => by rw [primary_rt n h _ rest w rfl hm hn]; simp [chain]
  | .null, w, _, hm, hn, j, rest => by rw [primary_rt n h _ rest w rfl hm hn]; simp [chain]
  | .bool _, w, _, hm, hn, j, rest => by rw [primary_rt n h _ rest w rfl hm hn]; simp [chain]
  | .num _, w, _, hm, hn, j, rest => by rw [primary_rt n h _ rest w rfl hm hn]; simp [chain]
  | .str _, w, _, hm, hn, j, rest => by rw [primary_rt n h _ rest w rfl hm hn]; simp [chain]
  | .obj _, w, _, hm, hn, j, rest => by rw [primary_rt n h _ rest w rfl hm hn]; simp [chain]
  | .paren _, w, _, hm, hn, j, rest => by rw [primary_rt n h _ rest w rfl hm hn]; simp [chain]
  | .postInc _, _, hl, _, _, _, _ => by simp [PE.lvl] at hl
  | .unary _ _, _, hl, _, _, _, _ => by simp [PE.lvl] at hl
  | .bin op _ _, _, hl, _, _, _, _ => by cases op <;> simp [PE.lvl, BinOp.lvl] at hl
  | .cond _ _ _, _, hl, _, _, _, _ => by simp [PE.lvl] at hl
  | .assign _ _ _, _, hl, _, _, _, _ => by simp [PE.lvl] at hl

theorem postLoop_stop (n : Nat) (pa : P PE) (j : Nat) (x : PE) {rest : List Tok} (h : After 0 rest) :
    postLoop n pa (j + 1) x rest = some (x, rest) := by
  unfold postLoop
  rw [eat_after h (s := b!".") (j := 0) rfl (Nat.le_refl _), eat_after h (s := b!"[") (j := 0) rfl (Nat.le_refl _),
    eat_after h (s := b!"(") (j := 0) rfl (Nat.le_refl _)]

theorem lhs_rt {pa : P PE} {m : Nat} (n : Nat) (h : PaOk pa m) (p : PE) (w : Wf p) (hl : PE.lvl p = 0)
    (hm : (tk p).length ≤ m + 1) (hn : (tk p).length ≤ n) (rest : List Tok) (ha : After 0 rest) :
    lhs n pa (tk p ++ rest) = some (p, rest) := by
  have hc := chain_lt p
  have := lhs_loop n h p w hl hm hn (n - chain p) rest
  have e : n - chain p + chain p = n := by omega
  rw [e] at this
  have e0 : lhs n pa (tk p ++ rest) = (primary n pa (tk p ++ rest)).bind (fun xr => postLoop n pa n xr.1 xr.2) := by
    unfold lhs
    cases primary n pa (tk p ++ rest) <;> rfl
  rw [e0, this]
  have e2 : n - chain p = (n - chain p - 1) + 1 := by omega
  rw [e2]
  exact postLoop_stop n pa _ p ha

def isUnary : PE → Bool
  | .unary _ _ => true
  | _ => false

theorem postfix_rt {pa : P PE} {m : Nat} (n : Nat) (h : PaOk pa m) (p : PE) (w : Wf p) (hl : PE.lvl p ≤ 1)
    (hu : isUnary p = false) (hm : (tk p).length ≤ m + 1) (hn : (tk p).length ≤ n) (rest : List Tok) (ha : After 1 rest) :
    postfixE n pa (tk p ++ rest) = some (p, rest) := by
  by_cases h0 : PE.lvl p = 0
  · unfold postfixE
    rw [lhs_rt n h p w h0 hm hn rest (ha.mono (by omega))]
    simp only [eat_after ha (s := b!"++") (j := 1) rfl (Nat.le_refl _)]
  · cases p with
    | postInc x =>
      simp only [Wf] at w
      simp only [tk, List.length_append, List.length_cons, List.length_nil] at hm hn
      unfold postfixE
      simp only [tk, List.append_assoc, List.cons_append, List.nil_append]
      rw [lhs_rt n h x w.1 w.2 (by omega) (by omega) _ (after_of_some (j := 1) rfl (by omega) _)]
      simp
    | unary _ _ => simp [isUnary] at hu
    | bin op _ _ => cases op <;> simp [PE.lvl, BinOp.lvl] at hl
    | cond _ _ _ => simp [PE.lvl] at hl
    | assign _ _ _ => simp [PE.lvl] at hl
    | ident _ => simp [PE.lvl] at h0
    | null => simp [PE.lvl] at h0
    | bool _ => simp [PE.lvl] at h0
    | num _ => simp [PE.lvl] at h0
    | str _ => simp [PE.lvl] at h0
    | obj _ => simp [PE.lvl] at h0
    | paren _ => simp [PE.lvl] at h0
    | member _ _ => simp [PE.lvl] at h0
    | index _ _ => simp [PE.lvl] at h0
    | call _ _ => simp [PE.lvl] at h0

theorem headTok_postfix (p : PE) (w : Wf p) (hl : PE.lvl p ≤ 1) (hu : isUnary p = false) : PStart (headTok p) := by
  by_cases h0 : PE.lvl p = 0
  · exact headTok_pstart p w h0
  · cases p with
    | postInc x => simp only [Wf] at w; exact headTok_pstart x w.1 w.2
    | unary _ _ => simp [isUnary] at hu
    | bin op _ _ => cases op <;> simp [PE.lvl, BinOp.lvl] at hl
    | cond _ _ _ => simp [PE.lvl] at hl
    | assign _ _ _ => simp [PE.lvl] at hl
    | ident _ => simp [PE.lvl] at h0
    | null => simp [PE.lvl] at h0
    | bool _ => simp [PE.lvl] at h0
    | num _ => simp [PE.lvl] at h0
    | str _ => simp [PE.lvl] at h0
    | obj _ => simp [PE.lvl] at h0
    | paren _ => simp [PE.lvl] at h0
    | member _ _ => simp [PE.lvl] at h0
    | index _ _ => simp [PE.lvl] at h0
    | call _ _ => simp [PE.lvl] at h0

/-- the number of prefix operators in front -/
def udepth : PE → Nat
  | .unary _ x => udepth x + 1
  | _ => 0

theorem udepth_lt : ∀ p : PE, udepth p < (tk p).length
  | .unary _ x => by have := udepth_lt x; simp [udepth, tk]; omega
  | .member _ _ => tk_pos _
  | .index _ _ => tk_pos _
  | .call _ _ => tk_pos _
  | .ident _ => tk_pos _
  | .null => tk_pos _
  | .bool _ => tk_pos _
  | .num _ => tk_pos _
  | .str _ => tk_pos _
  | .obj _ => tk_pos _
  | .paren _ => tk_pos _
  | .postInc _ => tk_pos _
  | .bin _ _ _ => tk_pos _
  | .cond _ _ _ => tk_pos _
  | .assign _ _ _ => tk_pos _

theorem unary_fall {pa : P PE} (n k : Nat) {t : Tok} (ht : PStart t) (r : List Tok) :
    unary n pa (k + 1) (t :: r) = postfixE n pa (t :: r) := by
  unfold unary
  rw [eat_pstart ht (by decide) (by decide), eat_pstart ht (by decide) (by decide), eatId_pstart ht]

theorem unary_rt {pa : P PE} {m : Nat} (n : Nat) (h : PaOk pa m) :
    ∀ (p : PE), Wf p → PE.lvl p ≤ 1 → (tk p).length ≤ m + 1 → (tk p).length ≤ n → ∀ (k : Nat), udepth p < k →
      ∀ (rest : List Tok), After 1 rest → unary n pa k (tk p ++ rest) = some (p, rest)
  | .unary op x, w, _, hm, hn, k, hk, rest, ha => by
    simp only [Wf] at w
    simp only [tk, List.length_cons] at hm hn
    cases k with
    | zero => omega
    | succ k =>
      simp only [udepth] at hk
      have ih := unary_rt n h x w.1 w.2 (by omega) (by omega) k (by omega) rest ha
      unfold unary
      cases op with
      | neg => simp [tk, UnOp.tok, ih]
      | not => simp [tk, UnOp.tok, ih, eat_ne (show (b!"!" : Bytes) ≠ b!"-" by decide)]
      | typeof => simp [tk, UnOp.tok, ih]
  | .member x key, w, hl, hm, hn, k, hk, rest, ha => by
    cases k with
    | zero => omega
    | succ k =>
      obtain ⟨r, e⟩ := tk_head (.member x key)
      have hs := headTok_postfix _ w hl rfl
      have := postfix_rt n h _ w hl rfl hm hn rest ha
      rw [e] at this ⊢
      rw [List.cons_append, unary_fall n k hs]
      exact this
  | .index x i, w, hl, hm, hn, k, hk, rest, ha => by
    cases k with
    | zero => omega
    | succ k =>
      obtain ⟨r, e⟩ := tk_head (.index x i)
      have hs := headTok_postfix _ w hl rfl
      have := postfix_rt n h _ w hl rfl hm hn rest ha
      rw [e] at this ⊢
      rw [List.cons_append, unary_fall n k hs]
      exact this
  | .call f as, w, hl, hm, hn, k, hk, rest, ha => by
    cases k with
    | zero => omega
    | succ k =>
      obtain ⟨r, e⟩ := tk_head (.call f as)
      have hs := headTok_postfix _ w hl rfl
      have := postfix_rt n h _ w hl rfl hm hn rest ha
      rw [e] at this ⊢
      rw [List.cons_append, unary_fall n k hs]
      exact this
  | .postInc x, w, hl, hm, hn, k, hk, rest, ha => by
    cases k with
    | zero => omega
    | succ k =>
      obtain ⟨r, e⟩ := tk_head (.postInc x)
      have hs := headTok_postfix _ w hl rfl
      have := postfix_rt n h _ w hl rfl hm hn rest ha
      rw [e] at this ⊢
      rw [List.cons_append, unary_fall n k hs]
      exact this
  | .ident s, w, hl, hm, hn, k, hk, rest, ha => by
    cases k with
    | zero => omega
    | succ k =>
      obtain ⟨r, e⟩ := tk_head (.ident s)
      have hs := headTok_postfix _ w hl rfl
      have := postfix_rt n h _ w hl rfl hm hn rest ha
      rw [e] at this ⊢
      rw [List.cons_append, unary_fall n k hs]
      exact this
  | .null, w, hl, hm, hn, k, hk, rest, ha => by
    cases k with
    | zero => omega
    | succ k =>
      obtain ⟨r, e⟩ := tk_head .null
      have hs := headTok_postfix _ w hl rfl
      have := postfix_rt n h _ w hl rfl hm hn rest ha
      rw [e] at this ⊢
      rw [List.cons_append, unary_fall n k hs]
      exact this
  | .bool b, w, hl, hm, hn, k, hk, rest, ha => by
    cases k with
    | zero => omega
    | succ k =>
      obtain ⟨r, e⟩ := tk_head (.bool b)
      have hs := headTok_postfix _ w hl rfl
      have := postfix_rt n h _ w hl rfl hm hn rest ha
      rw [e] at this ⊢
      rw [List.cons_append, unary_fall n k hs]
      exact this
  | .num v, w, hl, hm, hn, k, hk, rest, ha => by
    cases k with
    | zero => omega
    | succ k =>
      obtain ⟨r, e⟩ := tk_head (.num v)
      have hs := headTok_postfix _ w hl rfl
      have := postfix_rt n h _ w hl rfl hm hn rest ha
      rw [e] at this ⊢
      rw [List.cons_append, unary_fall n k hs]
      exact this
  | .str v, w, hl, hm, hn, k, hk, rest, ha => by
    cases k with
    | zero => omega
    | succ k =>
      obtain ⟨r, e⟩ := tk_head (.str v)
      have hs := headTok_postfix _ w hl rfl
      have := postfix_rt n h _ w hl rfl hm hn rest ha
      rw [e] at this ⊢
      rw [List.cons_append, unary_fall n k hs]
      exact this
  | .obj ps, w, hl, hm, hn, k, hk, rest, ha => by
    cases k with
    | zero => omega
    | succ k =>
      obtain ⟨r, e⟩ := tk_head (.obj ps)
      have hs := headTok_postfix _ w hl rfl
      have := postfix_rt n h _ w hl rfl hm hn rest ha
      rw [e] at this ⊢
      rw [List.cons_append, unary_fall n k hs]
      exact this
  | .paren x, w, hl, hm, hn, k, hk, rest, ha => by
    cases k with
    | zero => omega
    | succ k =>
      obtain ⟨r, e⟩ := tk_head (.paren x)
      have hs := headTok_postfix _ w hl rfl
      have := postfix_rt n h _ w hl rfl hm hn rest ha
      rw [e] at this ⊢
      rw [List.cons_append, unary_fall n k hs]
      exact this
  | .bin op _ _, _, hl, _, _, _, _, _, _ => by cases op <;> simp [PE.lvl, BinOp.lvl] at hl
  | .cond _ _ _, _, hl, _, _, _, _, _, _ => by simp [PE.lvl] at hl
  | .assign _ _ _, _, hl, _, _, _, _, _, _ => by simp [PE.lvl] at hl

/-! ### the binary levels -/

theorem binOpAt_sym (op : BinOp) : binOpAt op.lvl op.sym = some op := by cases op <;> rfl

theorem cont_sym (op : BinOp) : Tok.cont (.p op.sym) = some op.lvl := by cases op <;> rfl

theorem binOpAt_cont {l : Nat} {s : Bytes} {op : BinOp} (h : binOpAt l s = some op) : Tok.cont (.p s) = some l := by
  unfold binOpAt at h
  have := List.find?_some h
  simp only [Bool.and_eq_true, beq_iff_eq] at this
  rw [← this.1, ← this.2]
  exact cont_sym op

theorem binLoop_stop (sub : P PE) (l k : Nat) (a : PE) {rest : List Tok} (h : After l rest) :
    binLoop sub l (k + 1) a rest = some (a, rest) := by
  unfold binLoop
  cases rest with
  | nil => rfl
  | cons t r =>
    cases t with
    | p s =>
      cases hb : binOpAt l s with
      | none => simp [hb]
      | some op =>
        have := h _ _ rfl l (binOpAt_cont hb)
        omega
    | id _ => rfl
    | num _ => rfl
    | str _ => rfl

theorem binLoop_two (sub : P PE) {l k : Nat} (hk : 2 ≤ k) (a b : PE) (op : BinOp) (hop : op.lvl = l) {r r' : List Tok}
    (hs : sub r = some (b, r')) (h : After l r') : binLoop sub l k a (.p op.sym :: r) = some (.bin op a b, r') := by
  match k, hk with
  | k + 2, _ =>
    conv => lhs; unfold binLoop
    simp only [← hop, binOpAt_sym, hs]
    exact binLoop_stop _ _ _ _ (by rw [hop]; exact h)

theorem binLevel_rt {pa : P PE} {m : Nat} (n : Nat) (h : PaOk pa m) :
    ∀ (K : Nat), K ≤ 11 → ∀ (p : PE), Wf p → PE.lvl p ≤ max K 1 → (tk p).length ≤ m + 1 → (tk p).length ≤ n →
      ∀ (rest : List Tok), After (max K 1) rest → binLevel n pa K (tk p ++ rest) = some (p, rest)
  | 0, _, p, w, hl, hm, hn, rest, ha => by
    have := udepth_lt p
    exact unary_rt n h p w (by simpa using hl) hm hn n (by omega) rest (by simpa using ha)
  | K + 1, hK, p, w, hl, hm, hn, rest, ha => by
    have hn1 : 1 ≤ n := by have := tk_pos p; omega
    by_cases hl' : PE.lvl p ≤ max K 1
    · have ih := binLevel_rt n h K (by omega) p w hl' hm hn rest (ha.mono (by omega))
      simp only [binLevel]
      rw [ih]
      obtain ⟨n', e⟩ : ∃ n', n = n' + 1 := ⟨n - 1, by omega⟩
      rw [e]
      exact binLoop_stop _ _ _ _ (ha.mono (by omega))
    · cases p with
      | bin op a b =>
        simp only [Wf] at w
        simp only [PE.lvl] at hl hl'
        have hop : op.lvl = K + 1 := by omega
        simp only [tk, List.length_append, List.length_cons] at hm hn
        have hn2 : 2 ≤ n := by have := tk_pos a; have := tk_pos b; omega
        have ia := binLevel_rt n h K (by omega) a w.1 (by omega) (by omega) (by omega) (.p op.sym :: (tk b ++ rest))
          (after_of_some (cont_sym op) (by omega) _)
        have ib := binLevel_rt n h K (by omega) b w.2.1 (by omega) (by omega) (by omega) rest (ha.mono (by omega))
        simp only [binLevel, tk, List.append_assoc, List.cons_append]
        rw [ia]
        exact binLoop_two _ hn2 a b op hop ib (ha.mono (by omega))
      | cond _ _ _ => simp only [PE.lvl] at hl; omega
      | assign _ _ _ => simp only [PE.lvl] at hl; omega
      | postInc _ => simp only [PE.lvl] at hl'; omega
      | unary _ _ => simp only [PE.lvl] at hl'; omega
      | ident _ => simp [PE.lvl] at hl'
      | null => simp [PE.lvl] at hl'
      | bool _ => simp [PE.lvl] at hl'
      | num _ => simp [PE.lvl] at hl'
      | str _ => simp [PE.lvl] at hl'
      | obj _ => simp [PE.lvl] at hl'
      | paren _ => simp [PE.lvl] at hl'
      | member _ _ => simp [PE.lvl] at hl'
      | index _ _ => simp [PE.lvl] at hl'
      | call _ _ => simp [PE.lvl] at hl'

theorem cond_rt {pa : P PE} {m : Nat} (n : Nat) (h : PaOk pa m) (p : PE) (w : Wf p) (hl : PE.lvl p ≤ 12)
    (hm : (tk p).length ≤ m + 1) (hn : (tk p).length ≤ n) (rest : List Tok) (ha : After 12 rest)
    (ha' : PE.lvl p = 12 → After 13 rest) : condE n pa (tk p ++ rest) = some (p, rest) := by
  by_cases hl' : PE.lvl p ≤ 11
  · unfold condE
    rw [binLevel_rt n h 11 (Nat.le_refl _) p w (by simpa using hl') hm hn rest (ha.mono (by simp))]
    simp only [eat_after ha (s := b!"?") (j := 12) rfl (Nat.le_refl _)]
  · cases p with
    | cond c a b =>
      simp only [Wf] at w
      simp only [tk, List.length_append, List.length_cons] at hm hn
      have ic := binLevel_rt n h 11 (Nat.le_refl _) c w.1 (by simpa using w.2.1) (by omega) (by omega)
        (.p b!"?" :: (tk a ++ (.p b!":" :: (tk b ++ rest)))) (after_of_some (j := 12) rfl (by simp) _)
      have ia := h a w.2.2.1 (by omega) (.p b!":" :: (tk b ++ rest)) (after_of_none rfl _ _)
      have ib := h b w.2.2.2 (by omega) rest (ha' rfl)
      unfold condE
      simp only [tk, List.append_assoc, List.cons_append]
      rw [ic]
      simp only [eat_self, ia, ib]
    | assign _ _ _ => simp only [PE.lvl] at hl; omega
    | bin op _ _ => cases op <;> simp [PE.lvl, BinOp.lvl] at hl'
    | postInc _ => simp [PE.lvl] at hl'
    | unary _ _ => simp [PE.lvl] at hl'
    | ident _ => simp [PE.lvl] at hl'
    | null => simp [PE.lvl] at hl'
    | bool _ => simp [PE.lvl] at hl'
    | num _ => simp [PE.lvl] at hl'
    | str _ => simp [PE.lvl] at hl'
    | obj _ => simp [PE.lvl] at hl'
    | paren _ => simp [PE.lvl] at hl'
    | member _ _ => simp [PE.lvl] at hl'
    | index _ _ => simp [PE.lvl] at hl'
    | call _ _ => simp [PE.lvl] at hl'

theorem lvl_le (p : PE) : PE.lvl p ≤ 13 := by
  cases p with
  | bin op _ _ => cases op <;> simp [PE.lvl, BinOp.lvl]
  | _ => simp [PE.lvl]

theorem isRef_lvl {p : PE} (h : isRef p = true) : PE.lvl p = 0 := by
  cases p <;> simp_all [isRef, PE.lvl]

theorem assign_rt {pa : P PE} {m : Nat} (n : Nat) (h : PaOk pa m) (p : PE) (w : Wf p)
    (hm : (tk p).length ≤ m + 1) (hn : (tk p).length ≤ n) (rest : List Tok) (ha : After 13 rest) :
    assignE n pa (tk p ++ rest) = some (p, rest) := by
  by_cases hl' : PE.lvl p ≤ 12
  · unfold assignE
    rw [cond_rt n h p w hl' hm hn rest (ha.mono (by omega)) (fun _ => ha)]
    simp only [eat_after ha (s := b!"=") (j := 13) rfl (Nat.le_refl _),
      eat_after ha (s := b!"+=") (j := 13) rfl (Nat.le_refl _)]
  · cases p with
    | assign op l r =>
      simp only [Wf] at w
      simp only [tk, List.length_append, List.length_cons] at hm hn
      have hl0 := isRef_lvl w.2.1
      have il := cond_rt n h l w.1 (by omega) (by omega) (by omega) (AsgOp.tok op :: (tk r ++ rest))
        (by cases op <;> exact after_of_some (j := 13) rfl (by omega) _) (by omega)
      have ir := h r w.2.2 (by omega) rest ha
      unfold assignE
      simp only [tk, List.append_assoc, List.cons_append]
      rw [il]
      cases op with
      | set => simp [AsgOp.tok, assignRhs, w.2.1, ir]
      | add => simp [AsgOp.tok, assignRhs, w.2.1, ir, eat_ne (show (b!"+=" : Bytes) ≠ b!"=" by decide)]
    | cond _ _ _ => simp [PE.lvl] at hl'
    | bin op _ _ => cases op <;> simp [PE.lvl, BinOp.lvl] at hl'
    | postInc _ => simp [PE.lvl] at hl'
    | unary _ _ => simp [PE.lvl] at hl'
    | ident _ => simp [PE.lvl] at hl'
    | null => simp [PE.lvl] at hl'
    | bool _ => simp [PE.lvl] at hl'
    | num _ => simp [PE.lvl] at hl'
    | str _ => simp [PE.lvl] at hl'
    | obj _ => simp [PE.lvl] at hl'
    | paren _ => simp [PE.lvl] at hl'
    | member _ _ => simp [PE.lvl] at hl'
    | index _ _ => simp [PE.lvl] at hl'
    | call _ _ => simp [PE.lvl] at hl'

/-- the parser reads the tokens of a well-levelled tree, followed by anything that does not continue an
    expression, as the tree: `fuel` and `n` at least the number of tokens -/
theorem assignN_rt (n : Nat) : ∀ (fuel : Nat), PaOk (assignN n fuel) (min fuel n)
  | 0 => by
    intro q _ hq
    have := tk_pos q
    have : (tk q).length ≤ 0 := Nat.le_trans hq (Nat.min_le_left _ _)
    omega
  | fuel + 1 => by
    intro q w hq rest ha
    have ih := assignN_rt n fuel
    have h1 : (tk q).length ≤ min fuel n + 1 := by simp only [Nat.le_min] at hq ⊢; omega
    have h2 : (tk q).length ≤ n := by simp only [Nat.le_min] at hq; omega
    show assignE n (assignN n fuel) (tk q ++ rest) = some (q, rest)
    exact assign_rt n ih q w h1 h2 rest ha

/-- … in particular the whole token list -/
theorem parseExpr_tk (p : PE) (w : Wf p) : parseExpr (tk p) = some p := by
  have := assignN_rt (tk p).length (tk p).length p w (by simp) [] (After.nil _)
  simp only [List.append_nil] at this
  simp [parseExpr, this]

end SoyVerif.Lemmas.JsParseExpr
