/-
  `range(n | a, b | a, b, s)` of the interpreter model against the specification's `rangeSpec`
  (used by the {for $i in range(…)} case of Props/C02Spec.lean): same elements, each inside int64 because
  it lies below the limit; wrong arity / non-integer arguments are errors on both sides; a non-positive
  step is an error of the model and left open by the specification.
-/
import SoyVerif.Lemmas.EvalRefine

namespace SoyVerif.Refine
open SoyVerif SoyVerif.Model SoyVerif.Model.Eval
open SoyVerif.Spec.Eval (Val Out)

theorem absL_map (f : Nat → Value) (l : List Nat) : absL (l.map f) = l.map (fun k => absV (f k)) := by
  induction l with
  | nil => rfl
  | cons x r ih => simp [absL, ih]

/-- the k-th element of a range lies below the limit, hence inside int64 -/
theorem range_elem_in (init limit step : Int) (hs : 0 < step) (k : Nat)
    (hk : k < (((limit - init) + step - 1) / step).toNat) : init + (k : Int) * step < limit := by
  have h1 : (k : Int) + 1 ≤ ((limit - init) + step - 1) / step := by omega
  have h2 := (Int.le_ediv_iff_mul_le hs).mp h1
  have : ((k : Int) + 1) * step = (k : Int) * step + step := by rw [Int.add_mul, Int.one_mul]
  omega

theorem range_core (a l s : Int64) (next : Nat) (hs : 0 < s.toInt) :
    absL (rangeItems a.toInt l.toInt s.toInt) =
      (match Spec.Eval.rangeSpec a.toInt l.toInt s.toInt with | .val (.list xs) => xs | _ => []) ∧
    (∀ x ∈ rangeItems a.toInt l.toInt s.toInt, Scalar x = true) := by
  have hs' : ¬ s.toInt ≤ 0 := by omega
  unfold rangeItems Spec.Eval.rangeSpec
  by_cases hle : l.toInt ≤ a.toInt
  · simp [hle, hs', absL]
  · simp only [hle, hs', or_self, if_false]
    refine ⟨?_, ?_⟩
    · rw [absL_map]
      apply List.map_congr_left
      intro k hk
      have hk' : k < (((l.toInt - a.toInt) + s.toInt - 1) / s.toInt).toNat := List.mem_range.mp hk
      have hlt := range_elem_in a.toInt l.toInt s.toInt hs k hk'
      have hge : a.toInt ≤ a.toInt + (k : Int) * s.toInt := by
        have : 0 ≤ (k : Int) * s.toInt := Int.mul_nonneg (Int.natCast_nonneg k) (by omega)
        omega
      simp only [absV]
      congr 1
      exact Int64.toInt_ofInt_of_le (by have := Int64.le_toInt a; omega) (by have := Int64.toInt_lt l; omega)
    · intro x hx
      obtain ⟨k, _, rfl⟩ := List.mem_map.mp hx
      rfl

abbrev RangeAgree (mvs : List Value) (next : Nat) : Prop :=
  (∀ v, Spec.Eval.applyFn Spec.Eval.nRange (absL mvs) = .val v →
      ∃ id xs n', applyFunc fRange mvs next = .ok (.list id xs) n' ∧ v = .list (absL xs) ∧ ∀ x ∈ xs, Scalar x = true) ∧
  (Spec.Eval.applyFn Spec.Eval.nRange (absL mvs) = .error → applyFunc fRange mvs next = .err)

theorem range_go (a l s : Int64) (next : Nat) :
    (∀ v, Spec.Eval.rangeSpec a.toInt l.toInt s.toInt = .val v →
      ∃ id xs n', (if s.toInt ≤ 0 then ERes.err
        else if (rangeItems a.toInt l.toInt s.toInt).isEmpty then ERes.ok (.list 0 []) next
        else ERes.ok (.list next (rangeItems a.toInt l.toInt s.toInt)) (next + 1)) = .ok (.list id xs) n' ∧
        v = .list (absL xs) ∧ ∀ x ∈ xs, Scalar x = true) ∧
    (Spec.Eval.rangeSpec a.toInt l.toInt s.toInt = .error → False) := by
  by_cases hs : s.toInt ≤ 0
  · simp [Spec.Eval.rangeSpec, hs]
  · have hs' : 0 < s.toInt := by omega
    obtain ⟨h1, h2⟩ := range_core a l s next hs'
    simp only [hs, if_false]
    refine ⟨fun v hv => ?_, fun h => ?_⟩
    · rw [hv] at h1
      have hvl : ∃ xs, v = .list xs := by
        unfold Spec.Eval.rangeSpec at hv
        simp only [hs, if_false] at hv
        split at hv <;> (simp only [Out.val.injEq] at hv; exact ⟨_, hv.symm⟩)
      obtain ⟨xs, rfl⟩ := hvl
      simp only at h1
      by_cases he : (rangeItems a.toInt l.toInt s.toInt).isEmpty = true
      · simp only [he, if_true]
        have : rangeItems a.toInt l.toInt s.toInt = [] := by simpa using he
        rw [this, absL] at h1
        exact ⟨0, [], next, rfl, by rw [← h1]; rfl, by simp⟩
      · simp only [he, Bool.false_eq_true, if_false]
        exact ⟨next, _, next + 1, rfl, by rw [h1], h2⟩
    · unfold Spec.Eval.rangeSpec at h
      simp only [hs, if_false] at h
      split at h <;> simp at h

set_option maxHeartbeats 4000000 in
theorem range_apply (mvs : List Value) (next : Nat) : RangeAgree mvs next := by
  have hz : ((0 : Int64).toInt) = 0 := Int64.toInt_zero
  have h1 : ((1 : Int64).toInt) = 1 := by decide
  rcases mvs with _ | ⟨a, _ | ⟨b, _ | ⟨c, _ | ⟨d, r⟩⟩⟩⟩
  · simp [RangeAgree, absL, Spec.Eval.applyFn, applyFunc, Spec.Eval.nRange, fRange, Spec.Eval.nIsNonnull, Spec.Eval.nLength, Spec.Eval.nKeys, Spec.Eval.nAugmentMap, Spec.Eval.nRound,
      Spec.Eval.nFloor, Spec.Eval.nCeiling, Spec.Eval.nMin, Spec.Eval.nMax, Spec.Eval.nStrContains, fIsNonnull, fLength, fKeys, fAugmentMap, fRound, fFloor, fCeiling, fMin, fMax, fStrContains]
  · cases a <;>
      simp [RangeAgree, absL, absV, Spec.Eval.applyFn, applyFunc, Spec.Eval.nRange, fRange, Spec.Eval.nIsNonnull, Spec.Eval.nLength, Spec.Eval.nKeys, Spec.Eval.nAugmentMap, Spec.Eval.nRound,
        Spec.Eval.nFloor, Spec.Eval.nCeiling, Spec.Eval.nMin, Spec.Eval.nMax, Spec.Eval.nStrContains, fIsNonnull, fLength, fKeys, fAugmentMap, fRound, fFloor, fCeiling, fMin, fMax, fStrContains]
    rename_i l
    have := range_go 0 l 1 next
    simp only [hz, h1] at this
    exact ⟨by simpa using this.1, fun h => absurd h (by simpa using this.2)⟩
  · cases a <;> cases b <;>
      simp [RangeAgree, absL, absV, Spec.Eval.applyFn, applyFunc, Spec.Eval.nRange, fRange, Spec.Eval.nIsNonnull, Spec.Eval.nLength, Spec.Eval.nKeys, Spec.Eval.nAugmentMap, Spec.Eval.nRound,
        Spec.Eval.nFloor, Spec.Eval.nCeiling, Spec.Eval.nMin, Spec.Eval.nMax, Spec.Eval.nStrContains, fIsNonnull, fLength, fKeys, fAugmentMap, fRound, fFloor, fCeiling, fMin, fMax, fStrContains]
    rename_i a l
    have := range_go a l 1 next
    simp only [h1] at this
    exact ⟨by simpa using this.1, fun h => absurd h (by simpa using this.2)⟩
  · cases a <;> cases b <;> cases c <;>
      simp [RangeAgree, absL, absV, Spec.Eval.applyFn, applyFunc, Spec.Eval.nRange, fRange, Spec.Eval.nIsNonnull, Spec.Eval.nLength, Spec.Eval.nKeys, Spec.Eval.nAugmentMap, Spec.Eval.nRound,
        Spec.Eval.nFloor, Spec.Eval.nCeiling, Spec.Eval.nMin, Spec.Eval.nMax, Spec.Eval.nStrContains, fIsNonnull, fLength, fKeys, fAugmentMap, fRound, fFloor, fCeiling, fMin, fMax, fStrContains]
    rename_i a l s
    have := range_go a l s next
    exact ⟨by simpa using this.1, fun h => absurd h (by simpa using this.2)⟩
  · simp [RangeAgree, absL, Spec.Eval.applyFn, applyFunc, Spec.Eval.nRange, fRange, Spec.Eval.nIsNonnull, Spec.Eval.nLength, Spec.Eval.nKeys, Spec.Eval.nAugmentMap, Spec.Eval.nRound,
      Spec.Eval.nFloor, Spec.Eval.nCeiling, Spec.Eval.nMin, Spec.Eval.nMax, Spec.Eval.nStrContains, fIsNonnull, fLength, fKeys, fAugmentMap, fRound, fFloor, fCeiling, fMin, fMax, fStrContains]

end SoyVerif.Refine
