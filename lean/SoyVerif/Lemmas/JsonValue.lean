/-
  `json.Marshal` on Soy values (Model/JsonMarshal.lean) against the JSON grammar of RFC 8259
  (Spec/Json.lean): number literals, then every value by recursion over its structure.
-/
import SoyVerif.Model.JsonMarshal
import SoyVerif.Lemmas.JsonString

set_option linter.unusedSimpArgs false
set_option linter.unusedVariables false

namespace SoyVerif.Lemmas.JsonValue
open SoyVerif SoyVerif.Model SoyVerif.Spec SoyVerif.Spec.Json SoyVerif.Model.JsonMarshal
open SoyVerif.Lemmas.JsonString

/-! ### number literals -/

def AllDigits (ds : Bytes) : Prop := ∀ b ∈ ds, isDigit b = true

/-- the head of `rest` does not continue a number: no digit, `.`, `e`, `E` -/
def NumEnd : Bytes → Prop
  | [] => True
  | b :: _ => isDigit b = false ∧ b ≠ 46 ∧ b ≠ 101 ∧ b ≠ 69

/-- the shape of a JSON number literal (RFC 8259 §6) -/
def JNum (lit : Bytes) : Prop :=
  ∃ sg ds frac ex, lit = sg ++ (ds ++ (frac ++ ex)) ∧ (sg = [] ∨ sg = [45]) ∧ ds ≠ [] ∧ AllDigits ds ∧
    (ds = [48] ∨ ds.head? ≠ some 48) ∧
    (frac = [] ∨ ∃ fs, frac = 46 :: fs ∧ fs ≠ [] ∧ AllDigits fs) ∧
    (ex = [] ∨ ∃ e sgn es, ex = e :: (sgn ++ es) ∧ (e = 101 ∨ e = 69) ∧ (sgn = [] ∨ sgn = [43] ∨ sgn = [45]) ∧
      es ≠ [] ∧ AllDigits es)

theorem digits_span : ∀ (ds t : Bytes), AllDigits ds → (∀ b t', t = b :: t' → isDigit b = false) →
    digits (ds ++ t) = (ds, t)
  | [], t, _, ht => by
    cases t with
    | nil => rfl
    | cons b t' => simp [digits, ht b t' rfl]
  | d :: ds, t, hd, ht => by
    have h1 : isDigit d = true := hd d (by simp)
    have ih := digits_span ds t (fun b hb => hd b (by simp [hb])) ht
    simp [digits, h1, ih]

theorem numEnd_nodigit {t : Bytes} (h : NumEnd t) : ∀ b t', t = b :: t' → isDigit b = false := by
  intro b t' e; subst e; exact h.1

theorem digit_ne {d : UInt8} (h : isDigit d = true) : d ≠ 45 ∧ d ≠ 46 ∧ d ≠ 101 ∧ d ≠ 69 ∧ d ≠ 43 := by
  simp only [isDigit, Bool.and_eq_true, decide_eq_true_eq, UInt8.le_iff_toNat_le] at h
  refine ⟨?_, ?_, ?_, ?_, ?_⟩ <;> (rintro rfl; simp at h)

theorem expPart_shape {ex rest : Bytes}
    (hx : ex = [] ∨ ∃ e sgn es, ex = e :: (sgn ++ es) ∧ (e = 101 ∨ e = 69) ∧ (sgn = [] ∨ sgn = [43] ∨ sgn = [45]) ∧
      es ≠ [] ∧ AllDigits es) (hr : NumEnd rest) : expPart (ex ++ rest) = some (ex, rest) := by
  rcases hx with rfl | ⟨e, sgn, es, rfl, he, hs, hne, hd⟩
  · cases rest with
    | nil => rfl
    | cons b t =>
      have : (b == 101 || b == 69) = false := by simp [hr.2.2.1, hr.2.2.2]
      simp [expPart, this]
  · have he' : (e == 101 || e == 69) = true := by rcases he with rfl | rfl <;> rfl
    obtain ⟨e0, es', rfl⟩ : ∃ e0 es', es = e0 :: es' := by
      cases es with
      | nil => exact absurd rfl hne
      | cons a b => exact ⟨a, b, rfl⟩
    have hn := digit_ne (hd e0 (by simp))
    have hsg : optSign (sgn ++ ((e0 :: es') ++ rest)) = (sgn, (e0 :: es') ++ rest) := by
      rcases hs with rfl | rfl | rfl
      · simp only [List.nil_append, List.cons_append]
        unfold optSign
        split
        · rename_i heq; simp only [List.cons.injEq] at heq; exact absurd heq.1 hn.2.2.2.2
        · rename_i heq; simp only [List.cons.injEq] at heq; exact absurd heq.1 hn.1
        · rfl
      · rfl
      · rfl
    have hdg := digits_span (e0 :: es') rest hd (numEnd_nodigit hr)
    simp only [List.cons_append, List.append_assoc, expPart, he', if_true]
    simp only [List.cons_append] at hsg hdg
    rw [hsg]
    simp only [hdg]
    simp

theorem fracPart_shape {frac t : Bytes} (hf : frac = [] ∨ ∃ fs, frac = 46 :: fs ∧ fs ≠ [] ∧ AllDigits fs)
    (ht : ∀ b t', t = b :: t' → isDigit b = false ∧ b ≠ 46) : fracPart (frac ++ t) = some (frac, t) := by
  rcases hf with rfl | ⟨fs, rfl, hne, hd⟩
  · cases t with
    | nil => rfl
    | cons b t' =>
      have := (ht b t' rfl).2
      simp only [List.nil_append]
      unfold fracPart
      split
      · rename_i heq; simp only [List.cons.injEq] at heq; exact absurd heq.1 this
      · rfl
  · have hdg := digits_span fs t hd (fun b t' e => (ht b t' e).1)
    have : fs.isEmpty = false := by cases fs <;> simp_all
    simp [fracPart, hdg, this]

theorem intPart_shape {ds t : Bytes} (hne : ds ≠ []) (hd : AllDigits ds) (hz : ds = [48] ∨ ds.head? ≠ some 48)
    (ht : ∀ b t', t = b :: t' → isDigit b = false) : intPart (ds ++ t) = some (ds, t) := by
  have hdg := digits_span ds t hd ht
  unfold intPart
  simp only [hdg]
  have h1 : ds.isEmpty = false := by cases ds <;> simp_all
  have h2 : (ds.head? == some 48 && decide (ds.length > 1)) = false := by
    rcases hz with rfl | hz
    · simp
    · simp [hz]
  simp [h1, h2]

/-- a literal of the number shape, followed by a byte that ends a number, is read as that literal -/
theorem number_shape {lit rest : Bytes} (h : JNum lit) (hr : NumEnd rest) : number (lit ++ rest) = some (lit, rest) := by
  obtain ⟨sg, ds, frac, ex, rfl, hsg, hne, hd, hz, hf, hx⟩ := h
  obtain ⟨d1, ds', rfl⟩ : ∃ d1 ds', ds = d1 :: ds' := by
    cases ds with
    | nil => exact absurd rfl hne
    | cons a b => exact ⟨a, b, rfl⟩
  have hn := digit_ne (hd d1 (by simp))
  -- what follows the exponent, the fraction, the integer part
  have hex := expPart_shape hx hr
  have hfr : fracPart (frac ++ (ex ++ rest)) = some (frac, ex ++ rest) := by
    apply fracPart_shape hf
    intro b t' e
    rcases hx with rfl | ⟨e0, sgn, es, rfl, he, _, _, _⟩
    · simp only [List.nil_append] at e; subst e; exact ⟨hr.1, hr.2.1⟩
    · simp only [List.cons_append, List.cons.injEq] at e
      rcases he with rfl | rfl <;> (rw [← e.1]; exact ⟨by decide, by decide⟩)
  have hin : intPart ((d1 :: ds') ++ (frac ++ (ex ++ rest))) = some (d1 :: ds', frac ++ (ex ++ rest)) := by
    apply intPart_shape (by simp) hd hz
    intro b t' e
    rcases hf with rfl | ⟨fs, rfl, _, _⟩
    · rcases hx with rfl | ⟨e0, sgn, es, rfl, he, _, _, _⟩
      · simp only [List.nil_append] at e; subst e; exact hr.1
      · simp only [List.nil_append, List.cons_append, List.cons.injEq] at e
        rcases he with rfl | rfl <;> (rw [← e.1]; decide)
    · simp only [List.cons_append, List.cons.injEq] at e
      rw [← e.1]; decide
  have hsgn : optMinus (sg ++ ((d1 :: ds') ++ (frac ++ (ex ++ rest)))) = (sg, (d1 :: ds') ++ (frac ++ (ex ++ rest))) := by
    rcases hsg with rfl | rfl
    · simp only [List.nil_append, List.cons_append]
      unfold optMinus
      split
      · rename_i heq; simp only [List.cons.injEq] at heq; exact absurd heq.1 hn.1
      · rfl
    · rfl
  unfold number
  simp only [List.append_assoc]
  rw [hsgn]
  simp only [hin, hfr, hex]

/-! ### integers: `strconv.FormatInt` -/

theorem ofNat_digit {n : Nat} (h : n < 10) : (UInt8.ofNat (48 + n)).toNat = 48 + n := by
  simp [UInt8.toNat_ofNat']; omega

theorem ofNat_isDigit {n : Nat} (h : n < 10) : isDigit (UInt8.ofNat (48 + n)) = true := by
  have := ofNat_digit h
  simp only [isDigit, Bool.and_eq_true, decide_eq_true_eq, UInt8.le_iff_toNat_le]
  constructor
  · show (48 : UInt8).toNat ≤ _; rw [this]; simp
  · show _ ≤ (57 : UInt8).toNat; rw [this]; simp; omega

theorem foldl_digits (ds : Bytes) (d : UInt8) (acc : Nat) :
    (ds ++ [d]).foldl (fun a x => a * 10 + (x.toNat - 48)) acc =
      (ds.foldl (fun a x => a * 10 + (x.toNat - 48)) acc) * 10 + (d.toNat - 48) := by
  simp [List.foldl_append]

/-- the digits `natDigitsAux` puts in front of `acc`: no leading zero, value `n` -/
theorem natDigitsAux_shape : ∀ (fuel n : Nat) (acc : Bytes), n < 2 ^ fuel →
    ∃ ds, F64.natDigitsAux (fuel + 1) n acc = ds ++ acc ∧ ds ≠ [] ∧ AllDigits ds ∧ (n = 0 → ds = [48]) ∧
      (0 < n → ds.head? ≠ some 48) ∧ digitsVal ds = n
  | fuel, n, acc, h => by
    unfold F64.natDigitsAux
    by_cases h10 : n < 10
    · simp only [h10, if_true]
      refine ⟨[UInt8.ofNat (48 + n)], rfl, by simp, ?_, ?_, ?_, ?_⟩
      · intro b hb; simp only [List.mem_singleton] at hb; subst hb; exact ofNat_isDigit h10
      · intro h0; subst h0; rfl
      · intro hpos
        simp only [List.head?_cons, ne_eq, Option.some.injEq]
        intro e
        have := ofNat_digit h10
        rw [e] at this; simp at this; omega
      · simp [digitsVal]; omega
    · simp only [h10, if_false]
      cases fuel with
      | zero => simp at h; omega
      | succ fuel =>
        have hlt : n / 10 < 2 ^ fuel := by
          have : 2 ^ (fuel + 1) = 2 * 2 ^ fuel := by rw [Nat.pow_succ]; omega
          omega
        obtain ⟨ds, hds, hne, hall, _, hpos, hval⟩ :=
          natDigitsAux_shape fuel (n / 10) (UInt8.ofNat (48 + n % 10) :: acc) hlt
        refine ⟨ds ++ [UInt8.ofNat (48 + n % 10)], by rw [hds]; simp, by simp, ?_, by omega, ?_, ?_⟩
        · intro b hb
          rcases List.mem_append.mp hb with hb | hb
          · exact hall b hb
          · simp only [List.mem_singleton] at hb; subst hb; exact ofNat_isDigit (by omega)
        · intro _
          have := hpos (by omega)
          cases ds with
          | nil => exact absurd rfl hne
          | cons a r => simpa using this
        · unfold digitsVal at hval ⊢
          rw [foldl_digits, hval, ofNat_digit (by omega)]
          omega

theorem natDigits_shape (n : Nat) :
    F64.natDigits n ≠ [] ∧ AllDigits (F64.natDigits n) ∧ (F64.natDigits n = [48] ∨ (F64.natDigits n).head? ≠ some 48) ∧
      digitsVal (F64.natDigits n) = n := by
  have hlt : n < 2 ^ (Nat.log2 n + 1) := Nat.lt_log2_self
  obtain ⟨ds, hds, hne, hall, h0, hpos, hval⟩ := natDigitsAux_shape (Nat.log2 n + 1) n [] hlt
  simp only [List.append_nil] at hds
  unfold F64.natDigits
  rw [hds]
  refine ⟨hne, hall, ?_, hval⟩
  by_cases hn : n = 0
  · exact Or.inl (h0 hn)
  · exact Or.inr (hpos (by omega))

theorem jnum_int (i : Int) : JNum (F64.intDigits i) := by
  obtain ⟨hne, hall, hz, _⟩ := natDigits_shape i.natAbs
  unfold F64.intDigits
  split
  · exact ⟨[45], _, [], [], by simp, Or.inr rfl, hne, hall, hz, Or.inl rfl, Or.inl rfl⟩
  · exact ⟨[], _, [], [], by simp, Or.inl rfl, hne, hall, hz, Or.inl rfl, Or.inl rfl⟩

/-- the integer a marshalled int denotes is the int -/
theorem numInt_intDigits (i : Int) : numInt (F64.intDigits i) = some i := by
  obtain ⟨hne, hall, _, hval⟩ := natDigits_shape i.natAbs
  have hall' : (F64.natDigits i.natAbs).all isDigit = true := List.all_eq_true.2 hall
  have hemp : (F64.natDigits i.natAbs).isEmpty = false := by
    cases h : F64.natDigits i.natAbs <;> simp_all
  unfold F64.intDigits
  split
  · rename_i hneg
    simp only [numInt, hemp, hall', Bool.not_false, Bool.and_self, if_true, hval, Option.some.injEq]
    omega
  · rename_i hneg
    obtain ⟨d1, ds', hd⟩ : ∃ d1 ds', F64.natDigits i.natAbs = d1 :: ds' := by
      cases h : F64.natDigits i.natAbs with
      | nil => exact absurd h hne
      | cons a b => exact ⟨a, b, rfl⟩
    have hn := digit_ne (hall d1 (by rw [hd]; simp))
    rw [hd] at hemp hall' hval ⊢
    unfold numInt
    split
    · rename_i heq; simp only [List.cons.injEq] at heq; exact absurd heq.1 hn.1
    · simp only [hemp, hall', Bool.not_false, Bool.and_self, if_true, hval, Option.some.injEq]
      omega

/-! ### the value parser on each kind of text -/

/-- what follows a value inside marshalled text: nothing, `,`, `]` or `}` -/
def Delim (rest : Bytes) : Prop := rest = [] ∨ ∃ b s, rest = b :: s ∧ (b = 44 ∨ b = 93 ∨ b = 125)

theorem delim_numEnd {rest : Bytes} (h : Delim rest) : NumEnd rest := by
  rcases h with rfl | ⟨b, s, rfl, hb⟩
  · trivial
  · rcases hb with rfl | rfl | rfl <;> exact ⟨by decide, by decide, by decide, by decide⟩

theorem delim_comma (s : Bytes) : Delim (44 :: s) := Or.inr ⟨44, s, rfl, Or.inl rfl⟩
theorem delim_rb (s : Bytes) : Delim (93 :: s) := Or.inr ⟨93, s, rfl, Or.inr (Or.inl rfl)⟩
theorem delim_rc (s : Bytes) : Delim (125 :: s) := Or.inr ⟨125, s, rfl, Or.inr (Or.inr rfl)⟩

/-- the text `a` is read as the value `j` whenever a delimiter follows, with any fuel ≥ `m` -/
def Parses (a : Bytes) (j : JVal) (m : Nat) : Prop :=
  ∀ rest fuel, Delim rest → m ≤ fuel → value fuel (a ++ rest) = some (j, rest)

theorem parses_mono {a : Bytes} {j : JVal} {m m' : Nat} (h : Parses a j m) (hm : m ≤ m') : Parses a j m' :=
  fun rest fuel hd hf => h rest fuel hd (Nat.le_trans hm hf)

/-- the first byte of a marshalled value: not whitespace, not a closing bracket -/
def Starts (a : Bytes) : Prop := ∃ b t, a = b :: t ∧ isWs b = false ∧ b ≠ 93 ∧ b ≠ 125 ∧ b ≠ 44

theorem skipWs_starts {b : UInt8} (t : Bytes) (h : isWs b = false) : skipWs (b :: t) = b :: t := by
  simp [skipWs, h]

theorem parses_null : Parses sNull .null 1 := by
  intro rest fuel _ hf
  obtain ⟨n, rfl⟩ : ∃ n, fuel = n + 1 := ⟨fuel - 1, by omega⟩
  simp [sNull, value, skipWs, isWs]

theorem parses_true : Parses sTrue (.bool true) 1 := by
  intro rest fuel _ hf
  obtain ⟨n, rfl⟩ : ∃ n, fuel = n + 1 := ⟨fuel - 1, by omega⟩
  simp [sTrue, value, skipWs, isWs]

theorem parses_false : Parses sFalse (.bool false) 1 := by
  intro rest fuel _ hf
  obtain ⟨n, rfl⟩ : ∃ n, fuel = n + 1 := ⟨fuel - 1, by omega⟩
  simp [sFalse, value, skipWs, isWs]

theorem parses_string (s : Bytes) : Parses (jsonString s) (.str (sanitize s)) 1 := by
  intro rest fuel _ hf
  obtain ⟨n, rfl⟩ : ∃ n, fuel = n + 1 := ⟨fuel - 1, by omega⟩
  have h := roundtrip_body rest s.length s (Nat.le_refl _)
  simp only [jsonString, List.cons_append, List.nil_append, List.append_assoc]
  simp [value, skipWs, isWs, h, sanitize]

theorem digit_cases {d : UInt8} (h : isDigit d = true) :
    d = 48 ∨ d = 49 ∨ d = 50 ∨ d = 51 ∨ d = 52 ∨ d = 53 ∨ d = 54 ∨ d = 55 ∨ d = 56 ∨ d = 57 := by
  have hdn : 48 ≤ d.toNat ∧ d.toNat ≤ 57 := by simpa [isDigit, UInt8.le_iff_toNat_le] using h
  have : d.toNat = 48 ∨ d.toNat = 49 ∨ d.toNat = 50 ∨ d.toNat = 51 ∨ d.toNat = 52 ∨ d.toNat = 53 ∨ d.toNat = 54 ∨
      d.toNat = 55 ∨ d.toNat = 56 ∨ d.toNat = 57 := by omega
  rcases this with e | e | e | e | e | e | e | e | e | e
  · exact Or.inl (UInt8.toNat_inj.1 (by simpa using e))
  · exact Or.inr (Or.inl (UInt8.toNat_inj.1 (by simpa using e)))
  · exact Or.inr (Or.inr (Or.inl (UInt8.toNat_inj.1 (by simpa using e))))
  · exact Or.inr (Or.inr (Or.inr (Or.inl (UInt8.toNat_inj.1 (by simpa using e)))))
  · exact Or.inr (Or.inr (Or.inr (Or.inr (Or.inl (UInt8.toNat_inj.1 (by simpa using e))))))
  · exact Or.inr (Or.inr (Or.inr (Or.inr (Or.inr (Or.inl (UInt8.toNat_inj.1 (by simpa using e)))))))
  · exact Or.inr (Or.inr (Or.inr (Or.inr (Or.inr (Or.inr (Or.inl (UInt8.toNat_inj.1 (by simpa using e))))))))
  · exact Or.inr (Or.inr (Or.inr (Or.inr (Or.inr (Or.inr (Or.inr (Or.inl (UInt8.toNat_inj.1 (by simpa using e)))))))))
  · exact Or.inr (Or.inr (Or.inr (Or.inr (Or.inr (Or.inr (Or.inr (Or.inr (Or.inl (UInt8.toNat_inj.1 (by simpa using e))))))))))
  · exact Or.inr (Or.inr (Or.inr (Or.inr (Or.inr (Or.inr (Or.inr (Or.inr (Or.inr (UInt8.toNat_inj.1 (by simpa using e))))))))))

/-- a text that begins with `-` or a digit is read by the number grammar -/
theorem value_number (fuel : Nat) (b : UInt8) (r : Bytes) (hb : b = 45 ∨ isDigit b = true) :
    value (fuel + 1) (b :: r) =
      match number (b :: r) with
      | some (lit, r') => some (.num lit, r')
      | none => none := by
  rcases hb with rfl | hb
  · simp [value, skipWs, isWs, isDigit]
    generalize number _ = x
    rcases x with _ | ⟨a, b⟩ <;> rfl
  · rcases digit_cases hb with rfl | rfl | rfl | rfl | rfl | rfl | rfl | rfl | rfl | rfl <;>
      (simp [value, skipWs, isWs, isDigit]
       generalize number _ = x
       rcases x with _ | ⟨a, b⟩ <;> rfl)

theorem parses_number {lit : Bytes} (h : JNum lit) : Parses lit (.num lit) 1 := by
  intro rest fuel hd hf
  obtain ⟨n, rfl⟩ : ∃ n, fuel = n + 1 := ⟨fuel - 1, by omega⟩
  have hnum := number_shape h (delim_numEnd hd)
  obtain ⟨sg, ds, frac, ex, rfl, hsg, hne, hall, _⟩ := h
  obtain ⟨d1, ds', rfl⟩ : ∃ d1 ds', ds = d1 :: ds' := by
    cases ds with
    | nil => exact absurd rfl hne
    | cons a b => exact ⟨a, b, rfl⟩
  have hd1 := hall d1 (by simp)
  rcases hsg with rfl | rfl
  · simp only [List.nil_append, List.cons_append] at hnum ⊢
    rw [value_number n d1 _ (Or.inr hd1), hnum]
  · simp only [List.cons_append, List.nil_append] at hnum ⊢
    rw [value_number n 45 _ (Or.inl rfl), hnum]

/-! ### arrays and objects, over lists of already-understood texts -/

/-- texts joined by "," -/
def joinElems : List Bytes → Bytes
  | [] => []
  | [a] => a
  | a :: b :: r => a ++ [44] ++ joinElems (b :: r)

theorem value_arr (fuel : Nat) (b : UInt8) (t : Bytes) (hws : isWs b = false) (h93 : b ≠ 93) :
    value (fuel + 1) (91 :: b :: t) =
      match elems fuel (b :: t) with
      | some (xs, r') => some (.arr xs, r')
      | none => none := by
  unfold value
  simp only [skipWs, isWs, skipWs_starts t hws]
  simp only [show ((91 : UInt8) == 32 || (91 : UInt8) == 9 || (91 : UInt8) == 10 || (91 : UInt8) == 13) = false by decide,
    Bool.false_eq_true, if_false]
  rw [skipWs_starts t hws]
  split
  · rename_i heq; simp only [List.cons.injEq] at heq; exact absurd heq.1 h93
  · generalize elems fuel (b :: t) = x
    rcases x with _ | ⟨a, c⟩ <;> rfl

theorem value_obj (fuel : Nat) (b : UInt8) (t : Bytes) (hws : isWs b = false) (h125 : b ≠ 125) :
    value (fuel + 1) (123 :: b :: t) =
      match members fuel (b :: t) with
      | some (kvs, r') => some (.obj kvs, r')
      | none => none := by
  unfold value
  simp only [skipWs, isWs, skipWs_starts t hws]
  simp only [show ((123 : UInt8) == 32 || (123 : UInt8) == 9 || (123 : UInt8) == 10 || (123 : UInt8) == 13) = false by decide,
    Bool.false_eq_true, if_false]
  rw [skipWs_starts t hws]
  split
  · rename_i heq; simp only [List.cons.injEq] at heq; exact absurd heq.1 h125
  · generalize members fuel (b :: t) = x
    rcases x with _ | ⟨a, c⟩ <;> rfl

theorem value_arr_empty (fuel : Nat) (rest : Bytes) : value (fuel + 1) (91 :: 93 :: rest) = some (.arr [], rest) := by
  simp [value, skipWs, isWs]

theorem value_obj_empty (fuel : Nat) (rest : Bytes) : value (fuel + 1) (123 :: 125 :: rest) = some (.obj [], rest) := by
  simp [value, skipWs, isWs]

/-- `value *( "," value ) "]"` over texts that are understood -/
theorem elems_ok (M : Nat) : ∀ (L : List (Bytes × JVal)), L ≠ [] → (∀ t ∈ L, Parses t.1 t.2 M) →
    ∀ (rest : Bytes) (fuel : Nat), L.length + M ≤ fuel →
    elems fuel (joinElems (L.map (·.1)) ++ 93 :: rest) = some (L.map (·.2), rest)
  | [], h, _, _, _, _ => absurd rfl h
  | [t], _, hp, rest, fuel, hf => by
    obtain ⟨f, rfl⟩ : ∃ f, fuel = f + 1 := ⟨fuel - 1, by simp at hf; omega⟩
    have hv := hp t (by simp) (93 :: rest) f (delim_rb _) (by simp at hf; omega)
    simp only [List.map_cons, List.map_nil, joinElems]
    unfold elems
    simp [hv, skipWs, isWs]
  | t :: u :: r, _, hp, rest, fuel, hf => by
    obtain ⟨f, rfl⟩ : ∃ f, fuel = f + 1 := ⟨fuel - 1, by simp at hf; omega⟩
    have ih := elems_ok M (u :: r) (by simp) (fun x hx => hp x (by simp [hx])) rest f (by simp at hf ⊢; omega)
    have hv := hp t (by simp) (44 :: (joinElems ((u :: r).map (·.1)) ++ 93 :: rest)) f (delim_comma _) (by simp at hf; omega)
    simp only [List.map_cons, joinElems, List.append_assoc, List.cons_append, List.nil_append] at hv ih ⊢
    unfold elems
    simp [hv, skipWs, isWs, ih]

/-- `"key":text` joined by "," -/
def joinPairs : List (Bytes × Bytes) → Bytes := joinMembers

/-- `member *( "," member ) "}"` over members whose values are understood; keys come back sanitised -/
theorem members_ok (M : Nat) : ∀ (L : List (Bytes × (Bytes × JVal))), L ≠ [] → (∀ t ∈ L, Parses t.2.1 t.2.2 M) →
    ∀ (rest : Bytes) (fuel : Nat), L.length + M ≤ fuel →
    members fuel (joinMembers (L.map fun t => (t.1, t.2.1)) ++ 125 :: rest) =
      some (L.map fun t => (sanitize t.1, t.2.2), rest)
  | [], h, _, _, _, _ => absurd rfl h
  | [t], _, hp, rest, fuel, hf => by
    obtain ⟨f, rfl⟩ : ∃ f, fuel = f + 1 := ⟨fuel - 1, by simp at hf; omega⟩
    have hv := hp t (by simp) (125 :: rest) f (delim_rc _) (by simp at hf; omega)
    have hk := roundtrip_body (58 :: (t.2.1 ++ 125 :: rest)) t.1.length t.1 (Nat.le_refl _)
    simp only [List.map_cons, List.map_nil, joinMembers, jsonString, List.cons_append, List.nil_append, List.append_assoc]
    unfold members
    simp [skipWs, isWs, hk, hv, sanitize]
  | t :: u :: r, _, hp, rest, fuel, hf => by
    obtain ⟨f, rfl⟩ : ∃ f, fuel = f + 1 := ⟨fuel - 1, by simp at hf; omega⟩
    have ih := members_ok M (u :: r) (by simp) (fun x hx => hp x (by simp [hx])) rest f (by simp at hf ⊢; omega)
    have hv := hp t (by simp) (44 :: (joinMembers ((u :: r).map fun t => (t.1, t.2.1)) ++ 125 :: rest)) f (delim_comma _)
      (by simp at hf; omega)
    have hk := roundtrip_body (58 :: (t.2.1 ++ 44 :: (joinMembers ((u :: r).map fun t => (t.1, t.2.1)) ++ 125 :: rest)))
      t.1.length t.1 (Nat.le_refl _)
    simp only [List.map_cons, joinMembers, jsonString, List.cons_append, List.nil_append, List.append_assoc] at hv ih hk ⊢
    unfold members
    simp [skipWs, isWs, hk, hv, sanitize, ih]

/-! ### sorting by key -/

theorem insertByKey_map {α β : Type} (f : α → β) (x : Bytes × α) : ∀ (l : List (Bytes × α)),
    insertByKey (x.1, f x.2) (l.map fun p => (p.1, f p.2)) = (insertByKey x l).map fun p => (p.1, f p.2)
  | [] => rfl
  | y :: ys => by
    simp only [List.map_cons, insertByKey]
    split
    · rfl
    · simp only [List.map_cons, insertByKey_map f x ys]

theorem sortByKey_map {α β : Type} (f : α → β) : ∀ (l : List (Bytes × α)),
    sortByKey (l.map fun p => (p.1, f p.2)) = (sortByKey l).map fun p => (p.1, f p.2)
  | [] => rfl
  | x :: xs => by
    simp only [List.map_cons, sortByKey, sortByKey_map f xs]
    exact insertByKey_map f x (sortByKey xs)

theorem mem_insertByKey {α : Type} (x : Bytes × α) : ∀ (l : List (Bytes × α)) (t : Bytes × α),
    t ∈ insertByKey x l → t = x ∨ t ∈ l
  | [], t, h => by simpa [insertByKey] using h
  | y :: ys, t, h => by
    simp only [insertByKey] at h
    split at h
    · simpa using h
    · rcases List.mem_cons.1 h with rfl | h
      · exact Or.inr (by simp)
      · rcases mem_insertByKey x ys t h with e | e
        · exact Or.inl e
        · exact Or.inr (by simp [e])

theorem mem_sortByKey {α : Type} : ∀ (l : List (Bytes × α)) (t : Bytes × α), t ∈ sortByKey l → t ∈ l
  | [], t, h => by simpa [sortByKey] using h
  | x :: xs, t, h => by
    rcases mem_insertByKey x (sortByKey xs) t h with rfl | h
    · simp
    · exact List.mem_cons_of_mem _ (mem_sortByKey xs t h)

theorem length_insertByKey {α : Type} (x : Bytes × α) : ∀ (l : List (Bytes × α)), (insertByKey x l).length = l.length + 1
  | [] => rfl
  | y :: ys => by
    simp only [insertByKey]
    split
    · simp
    · simp [length_insertByKey x ys]

theorem length_sortByKey {α : Type} : ∀ (l : List (Bytes × α)), (sortByKey l).length = l.length
  | [] => rfl
  | x :: xs => by simp [sortByKey, length_insertByKey, length_sortByKey xs]

/-- the keys come out in nondecreasing bytewise order (what `sort.Strings` / encoding/json deliver) -/
def SortedKeys {α : Type} : List (Bytes × α) → Prop
  | [] => True
  | [_] => True
  | x :: y :: r => Value.bytesLe x.1 y.1 = true ∧ SortedKeys (y :: r)

theorem bytesLe_total : ∀ (a b : Bytes), Value.bytesLe a b = false → Value.bytesLe b a = true
  | [], _, h => by simp [Value.bytesLe] at h
  | _ :: _, [], _ => by simp [Value.bytesLe]
  | a :: as, b :: bs, h => by
    unfold Value.bytesLe at h ⊢
    by_cases h1 : a < b
    · simp [h1] at h
    · by_cases h2 : b < a
      · simp [h2]
      · have : a = b := by
          apply UInt8.toNat_inj.1
          simp only [UInt8.lt_iff_toNat_lt] at h1 h2; omega
        subst this
        simp only [h1, if_false] at h ⊢
        exact bytesLe_total as bs h

theorem sorted_insertByKey {α : Type} (x : Bytes × α) : ∀ (l : List (Bytes × α)), SortedKeys l → SortedKeys (insertByKey x l)
  | [], _ => trivial
  | [y], _ => by
    simp only [insertByKey]
    split
    · rename_i h; exact ⟨h, trivial⟩
    · rename_i h; exact ⟨bytesLe_total _ _ (by simpa using h), trivial⟩
  | y :: z :: r, hs => by
    simp only [insertByKey]
    split
    · rename_i h; exact ⟨h, hs⟩
    · rename_i h
      have ih := sorted_insertByKey x (z :: r) hs.2
      simp only [insertByKey] at ih ⊢
      split
      · rename_i h2; exact ⟨bytesLe_total _ _ (by simpa using h), h2, hs.2⟩
      · rename_i h2
        simp only [h2, Bool.false_eq_true, if_false] at ih
        exact ⟨hs.1, ih⟩

theorem sorted_sortByKey {α : Type} : ∀ (l : List (Bytes × α)), SortedKeys (sortByKey l)
  | [] => trivial
  | x :: xs => sorted_insertByKey x _ (sorted_sortByKey xs)

/-! ### the JSON value a Soy value is marshalled to -/

mutual
  /-- what the marshalled text must denote: `undefined`, `null`, the nil list and the nil map are JSON
      `null`; a number keeps its literal; a string comes back with invalid bytes replaced by U+FFFD; the
      members of a map are sorted by key -/
  def toJ : Value → JVal
    | .undefined => .null
    | .null => .null
    | .bool b => .bool b
    | .int i => .num (F64.intDigits i.toInt)
    | .float f => match jsonFloat f with
      | some lit => .num lit
      | none => .null
    | .str s => .str (sanitize s)
    | .list id xs => if id == 0 then .null else .arr (toJL xs)
    | .map id kvs => if id == 0 then .null else .obj ((sortByKey (toJM kvs)).map fun p => (sanitize p.1, p.2))
  def toJL : List Value → List JVal
    | [] => []
    | x :: r => toJ x :: toJL r
  def toJM : List (Bytes × Value) → List (Bytes × JVal)
    | [] => []
    | (k, v) :: r => (k, toJ v) :: toJM r
end

mutual
  /-- the hypothesis on floats: every float of the value is finite and its text (`jsonFloat`, i.e. the
      ES6 layout of the shortest digits) has the shape of a JSON number — a statement about
      `F64.formatJS`, validated by the correspondence C16json, not proved here -/
  def FloatsOk : Value → Prop
    | .float f => ∃ lit, jsonFloat f = some lit ∧ JNum lit
    | .list id xs => id = 0 ∨ FloatsOkL xs
    | .map id kvs => id = 0 ∨ FloatsOkM kvs
    | _ => True
  def FloatsOkL : List Value → Prop
    | [] => True
    | x :: r => FloatsOk x ∧ FloatsOkL r
  def FloatsOkM : List (Bytes × Value) → Prop
    | [] => True
    | (_, v) :: r => FloatsOk v ∧ FloatsOkM r
end

mutual
  /-- fuel of the specification parser that suffices for the marshalled text of a value -/
  def need : Value → Nat
    | .list id xs => if id == 0 then 1 else xs.length + needL xs + 1
    | .map id kvs => if id == 0 then 1 else kvs.length + needM kvs + 1
    | _ => 1
  def needL : List Value → Nat
    | [] => 0
    | x :: r => max (need x) (needL r)
  def needM : List (Bytes × Value) → Nat
    | [] => 0
    | (_, v) :: r => max (need v) (needM r)
end

theorem jnum_starts {lit : Bytes} (h : JNum lit) : Starts lit := by
  obtain ⟨sg, ds, frac, ex, rfl, hsg, hne, hall, _⟩ := h
  obtain ⟨d1, ds', rfl⟩ : ∃ d1 ds', ds = d1 :: ds' := by
    cases ds with
    | nil => exact absurd rfl hne
    | cons a b => exact ⟨a, b, rfl⟩
  rcases hsg with rfl | rfl
  · refine ⟨d1, _, rfl, ?_⟩
    rcases digit_cases (hall d1 (by simp)) with rfl | rfl | rfl | rfl | rfl | rfl | rfl | rfl | rfl | rfl <;> decide
  · exact ⟨45, _, rfl, by decide⟩

/-- the first byte of marshalled text -/
theorem marshal_starts (v : Value) (out : Bytes) (h : jsonMarshal v = some out) (hf : FloatsOk v) : Starts out := by
  cases v with
  | undefined => rw [jsonMarshal] at h; cases h; exact ⟨110, _, rfl, by decide⟩
  | null => rw [jsonMarshal] at h; cases h; exact ⟨110, _, rfl, by decide⟩
  | bool b =>
    rw [jsonMarshal] at h; cases h
    cases b
    · exact ⟨102, _, rfl, by decide⟩
    · exact ⟨116, _, rfl, by decide⟩
  | int i => rw [jsonMarshal] at h; cases h; exact jnum_starts (jnum_int _)
  | float f =>
    rw [jsonMarshal] at h
    rw [FloatsOk] at hf
    obtain ⟨lit, h1, h2⟩ := hf
    rw [h] at h1; cases h1
    exact jnum_starts h2
  | str s => rw [jsonMarshal] at h; cases h; exact ⟨34, _, rfl, by decide⟩
  | list id xs =>
    rw [jsonMarshal] at h
    split at h
    · cases h; exact ⟨110, _, rfl, by decide⟩
    · split at h
      · cases h; exact ⟨91, _, rfl, by decide⟩
      · exact absurd h (by simp)
  | map id kvs =>
    rw [jsonMarshal] at h
    split at h
    · cases h; exact ⟨110, _, rfl, by decide⟩
    · split at h
      · cases h; exact ⟨123, _, rfl, by decide⟩
      · exact absurd h (by simp)

theorem le_needL : ∀ (xs : List Value) (x : Value), x ∈ xs → need x ≤ needL xs
  | [], _, h => by simp at h
  | y :: r, x, h => by
    rw [needL]
    rcases List.mem_cons.1 h with rfl | h
    · exact Nat.le_max_left _ _
    · exact Nat.le_trans (le_needL r x h) (Nat.le_max_right _ _)

theorem le_needM : ∀ (kvs : List (Bytes × Value)) (p : Bytes × Value), p ∈ kvs → need p.2 ≤ needM kvs
  | [], _, h => by simp at h
  | (k, v) :: r, p, h => by
    rw [needM]
    rcases List.mem_cons.1 h with rfl | h
    · exact Nat.le_max_left _ _
    · exact Nat.le_trans (le_needM r p h) (Nat.le_max_right _ _)

theorem starts_append {a : Bytes} (t : Bytes) (h : Starts a) : Starts (a ++ t) := by
  obtain ⟨b, r, rfl, hb⟩ := h
  exact ⟨b, r ++ t, rfl, hb⟩

theorem joinMembers_cons (p : Bytes × Bytes) (r : List (Bytes × Bytes)) :
    ∃ t, joinMembers (p :: r) = 34 :: t := by
  obtain ⟨k, a⟩ := p
  cases r with
  | nil => exact ⟨_, rfl⟩
  | cons y r => exact ⟨_, rfl⟩

/-! ### every value -/

mutual
  /-- the marshalled text of a value denotes `toJ` of the value -/
  theorem parsesV : (v : Value) → ∀ out, jsonMarshal v = some out → FloatsOk v → Parses out (toJ v) (need v)
    | .undefined, out, h, _ => by
        rw [jsonMarshal] at h; cases h; rw [toJ]; exact parses_null
    | .null, out, h, _ => by
        rw [jsonMarshal] at h; cases h; rw [toJ]; exact parses_null
    | .bool b, out, h, _ => by
        rw [jsonMarshal] at h; cases h; rw [toJ]
        cases b
        · exact parses_false
        · exact parses_true
    | .int i, out, h, _ => by
        rw [jsonMarshal] at h; cases h; rw [toJ]; exact parses_number (jnum_int _)
    | .float f, out, h, hf => by
        rw [jsonMarshal] at h
        rw [FloatsOk] at hf
        obtain ⟨lit, h1, h2⟩ := hf
        rw [h] at h1; cases h1
        rw [toJ, h]
        exact parses_number h2
    | .str s, out, h, _ => by
        rw [jsonMarshal] at h; cases h; rw [toJ]; exact parses_string s
    | .list id xs, out, h, hf => by
        rw [jsonMarshal] at h
        rw [toJ, need]
        by_cases hid : (id == 0) = true
        · simp only [hid, if_true] at h ⊢
          cases h
          exact parses_null
        · simp only [hid, if_false, Bool.false_eq_true] at h ⊢
          have hfl : FloatsOkL xs := by
            rw [FloatsOk] at hf
            rcases hf with e | e
            · subst e; simp at hid
            · exact e
          split at h
          · rename_i body hbody
            cases h
            cases xs with
            | nil =>
              rw [marshalElems] at hbody; cases hbody
              intro rest fuel _ hfu
              obtain ⟨f, rfl⟩ : ∃ f, fuel = f + 1 := ⟨fuel - 1, by omega⟩
              simp only [List.nil_append, List.cons_append, toJL]
              exact value_arr_empty f rest
            | cons x r =>
              obtain ⟨L, hLj, hb, hlen, hne, hP, hst⟩ := elemsL (x :: r) body hbody hfl (by simp)
              intro rest fuel _ hfu
              obtain ⟨f, rfl⟩ : ∃ f, fuel = f + 1 := ⟨fuel - 1, by omega⟩
              obtain ⟨b, t, hbt, hws, h93, _, _⟩ := hst
              simp only [List.cons_append, List.nil_append, List.append_assoc]
              rw [hbt, List.cons_append, value_arr f b _ hws h93, ← List.cons_append, ← hbt, hb,
                elems_ok (needL (x :: r)) L hne hP rest f (by rw [hlen]; simp at hfu ⊢; omega), hLj]
          · exact absurd h (by simp)
    | .map id kvs, out, h, hf => by
        rw [jsonMarshal] at h
        rw [toJ, need]
        by_cases hid : (id == 0) = true
        · simp only [hid, if_true] at h ⊢
          cases h
          exact parses_null
        · simp only [hid, if_false, Bool.false_eq_true] at h ⊢
          have hfm : FloatsOkM kvs := by
            rw [FloatsOk] at hf
            rcases hf with e | e
            · subst e; simp at hid
            · exact e
          split at h
          · rename_i ms hms
            cases h
            obtain ⟨T, hT1, hT2, hlen, hP⟩ := membersM kvs ms hms hfm
            intro rest fuel _ hfu
            obtain ⟨f, rfl⟩ : ∃ f, fuel = f + 1 := ⟨fuel - 1, by omega⟩
            have e1 : sortByKey ms = (sortByKey T).map fun t => (t.1, t.2.1) := by
              rw [← hT1]; exact sortByKey_map (fun (x : Bytes × JVal) => x.1) T
            have e2 : sortByKey (toJM kvs) = (sortByKey T).map fun t => (t.1, t.2.2) := by
              rw [← hT2]; exact sortByKey_map (fun (x : Bytes × JVal) => x.2) T
            simp only [List.cons_append, List.nil_append, List.append_assoc]
            rw [e1, e2]
            cases hs : sortByKey T with
            | nil =>
              simp only [List.map_nil, joinMembers, List.nil_append]
              exact value_obj_empty f rest
            | cons t0 tr =>
              have hmem : ∀ t ∈ t0 :: tr, Parses t.2.1 t.2.2 (needM kvs) := by
                intro t ht
                exact hP t (mem_sortByKey T t (by rw [hs]; exact ht))
              have hl : (t0 :: tr).length = kvs.length := by rw [← hs, length_sortByKey, hlen]
              obtain ⟨q, hq⟩ := joinMembers_cons (t0.1, t0.2.1) (tr.map fun t => (t.1, t.2.1))
              have hmo := members_ok (needM kvs) (t0 :: tr) (by simp) hmem rest f (by rw [hl]; simp at hfu ⊢; omega)
              simp only [List.map_cons] at hmo ⊢
              rw [hq] at hmo ⊢
              rw [List.cons_append, value_obj f 34 _ (by decide) (by decide), ← List.cons_append, hmo]
              simp [List.map_map]
          · exact absurd h (by simp)
  /-- the elements of a non-empty list -/
  theorem elemsL : (xs : List Value) → ∀ body, marshalElems xs = some body → FloatsOkL xs → xs ≠ [] →
      ∃ L : List (Bytes × JVal), L.map (·.2) = toJL xs ∧ body = joinElems (L.map (·.1)) ∧ L.length = xs.length ∧ L ≠ [] ∧
        (∀ t ∈ L, Parses t.1 t.2 (needL xs)) ∧ Starts body
    | [], _, _, _, hne => absurd rfl hne
    | [x], body, h, hf, _ => by
        rw [marshalElems] at h
        rw [FloatsOkL] at hf
        have hp := parsesV x body h hf.1
        refine ⟨[(body, toJ x)], by simp [toJL], by simp [joinElems], rfl, by simp, ?_, marshal_starts x body h hf.1⟩
        intro t ht
        simp only [List.mem_singleton] at ht
        subst ht
        exact parses_mono hp (by rw [needL]; exact Nat.le_max_left _ _)
    | x :: y :: r, body, h, hf, _ => by
        rw [marshalElems] at h
        rw [FloatsOkL] at hf
        split at h
        · rename_i a b ha hb
          cases h
          have hp := parsesV x a ha hf.1
          obtain ⟨L, hLj, hbj, hlen, hne, hP, _⟩ := elemsL (y :: r) b hb hf.2 (by simp)
          refine ⟨(a, toJ x) :: L, ?_, ?_, by simp [hlen], by simp, ?_, ?_⟩
          · simp [toJL, hLj]
          · obtain ⟨l0, lr, rfl⟩ : ∃ l0 lr, L = l0 :: lr := by
              cases L with
              | nil => exact absurd rfl hne
              | cons l0 lr => exact ⟨l0, lr, rfl⟩
            simp only [List.map_cons, joinElems, hbj]
          · intro t ht
            rcases List.mem_cons.1 ht with rfl | ht
            · exact parses_mono hp (by rw [needL]; exact Nat.le_max_left _ _)
            · exact parses_mono (hP t ht) (by rw [needL]; exact Nat.le_max_right _ _)
          · rw [List.append_assoc]; exact starts_append _ (marshal_starts x a ha hf.1)
        · exact absurd h (by simp)
  /-- the members of a map, in the stored order -/
  theorem membersM : (kvs : List (Bytes × Value)) → ∀ ms, marshalMembers kvs = some ms → FloatsOkM kvs →
      ∃ T : List (Bytes × (Bytes × JVal)), (T.map fun t => (t.1, t.2.1)) = ms ∧ (T.map fun t => (t.1, t.2.2)) = toJM kvs ∧
        T.length = kvs.length ∧ ∀ t ∈ T, Parses t.2.1 t.2.2 (needM kvs)
    | [], ms, h, _ => by
        rw [marshalMembers] at h; cases h
        exact ⟨[], rfl, by simp [toJM], rfl, by simp⟩
    | (k, v) :: r, ms, h, hf => by
        rw [marshalMembers] at h
        rw [FloatsOkM] at hf
        split at h
        · rename_i a ms' ha hms
          cases h
          have hp := parsesV v a ha hf.1
          obtain ⟨T, hT1, hT2, hlen, hP⟩ := membersM r ms' hms hf.2
          refine ⟨(k, (a, toJ v)) :: T, by simp [hT1], by simp [toJM, hT2], by simp [hlen], ?_⟩
          intro t ht
          rcases List.mem_cons.1 ht with rfl | ht
          · exact parses_mono hp (by rw [needM]; exact Nat.le_max_left _ _)
          · exact parses_mono (hP t ht) (by rw [needM]; exact Nat.le_max_right _ _)
        · exact absurd h (by simp)
end

/-! ### the fuel `jsonDecode` uses (length of the text + 1) suffices -/

theorem mem_insertByKey' {α : Type} (x : Bytes × α) : ∀ (l : List (Bytes × α)) (t : Bytes × α),
    (t = x ∨ t ∈ l) → t ∈ insertByKey x l
  | [], t, h => by simpa [insertByKey] using h
  | y :: ys, t, h => by
    simp only [insertByKey]
    split
    · simpa using h
    · rcases h with rfl | h
      · exact List.mem_cons_of_mem _ (mem_insertByKey' _ ys _ (Or.inl rfl))
      · rcases List.mem_cons.1 h with rfl | h
        · simp
        · exact List.mem_cons_of_mem _ (mem_insertByKey' x ys t (Or.inr h))

theorem mem_sortByKey' {α : Type} : ∀ (l : List (Bytes × α)) (t : Bytes × α), t ∈ l → t ∈ sortByKey l
  | [], t, h => by simp at h
  | x :: xs, t, h => by
    rw [sortByKey]
    apply mem_insertByKey'
    rcases List.mem_cons.1 h with rfl | h
    · exact Or.inl rfl
    · exact Or.inr (mem_sortByKey' xs t h)

theorem length_joinMembers : ∀ (L : List (Bytes × Bytes)) (p : Bytes × Bytes), p ∈ L →
    p.2.length + L.length ≤ (joinMembers L).length
  | [], _, h => by simp at h
  | [(k, a)], p, h => by
    simp only [List.mem_singleton] at h; subst h
    simp [joinMembers, jsonString]; omega
  | (k, a) :: y :: r, p, h => by
    have key : ∀ q ∈ y :: r, q.2.length + (y :: r).length ≤ (joinMembers (y :: r)).length :=
      fun q hq => length_joinMembers (y :: r) q hq
    have hy := key y (by simp)
    simp only [joinMembers, jsonString, List.length_append, List.length_cons, List.length_nil] at hy ⊢
    rcases List.mem_cons.1 h with rfl | h
    · simp only [List.length_cons] at hy ⊢; omega
    · have := key p h
      simp only [List.length_cons] at this ⊢; omega

theorem jnum_ne_nil {lit : Bytes} (h : JNum lit) : 1 ≤ lit.length := by
  obtain ⟨b, t, rfl, _⟩ := jnum_starts h
  simp

mutual
  theorem need_le : (v : Value) → ∀ out, jsonMarshal v = some out → FloatsOk v → need v ≤ out.length
    | .undefined, out, h, _ => by rw [jsonMarshal] at h; cases h; exact (by decide : 1 ≤ 4)
    | .null, out, h, _ => by rw [jsonMarshal] at h; cases h; exact (by decide : 1 ≤ 4)
    | .bool b, out, h, _ => by rw [jsonMarshal] at h; cases h; cases b <;> decide
    | .int i, out, h, _ => by rw [jsonMarshal] at h; cases h; exact jnum_ne_nil (jnum_int _)
    | .float f, out, h, hf => by
        rw [jsonMarshal] at h
        rw [FloatsOk] at hf
        obtain ⟨lit, h1, h2⟩ := hf
        rw [h] at h1; cases h1
        exact jnum_ne_nil h2
    | .str s, out, h, _ => by rw [jsonMarshal] at h; cases h; simp [jsonString, need]
    | .list id xs, out, h, hf => by
        rw [jsonMarshal] at h
        rw [need]
        by_cases hid : (id == 0) = true
        · simp only [hid, if_true] at h ⊢; cases h; decide
        · simp only [hid, if_false, Bool.false_eq_true] at h ⊢
          have hfl : FloatsOkL xs := by
            rw [FloatsOk] at hf
            rcases hf with e | e
            · subst e; simp at hid
            · exact e
          split at h
          · rename_i body hbody
            cases h
            have := needL_le xs body hbody hfl
            simp only [List.length_append, List.length_cons, List.length_nil]
            omega
          · exact absurd h (by simp)
    | .map id kvs, out, h, hf => by
        rw [jsonMarshal] at h
        rw [need]
        by_cases hid : (id == 0) = true
        · simp only [hid, if_true] at h ⊢; cases h; decide
        · simp only [hid, if_false, Bool.false_eq_true] at h ⊢
          have hfm : FloatsOkM kvs := by
            rw [FloatsOk] at hf
            rcases hf with e | e
            · subst e; simp at hid
            · exact e
          split at h
          · rename_i ms hms
            cases h
            obtain ⟨hlen, hb⟩ := needM_le kvs ms hms hfm
            simp only [List.length_append, List.length_cons, List.length_nil]
            cases kvs with
            | nil => simp [needM]
            | cons kv r =>
              -- the member with the largest need
              have : ∃ p ∈ ms, needM (kv :: r) ≤ p.2.length := hb (by simp)
              obtain ⟨p, hp, hle⟩ := this
              have h1 := length_joinMembers (sortByKey ms) p (mem_sortByKey' ms p hp)
              rw [length_sortByKey, hlen] at h1
              omega
          · exact absurd h (by simp)
  /-- `n + max need ≤ |body| + 1` -/
  theorem needL_le : (xs : List Value) → ∀ body, marshalElems xs = some body → FloatsOkL xs →
      xs.length + needL xs ≤ body.length + 1
    | [], body, h, _ => by rw [marshalElems] at h; cases h; simp [needL]
    | [x], body, h, hf => by
        rw [marshalElems] at h
        rw [FloatsOkL] at hf
        have := need_le x body h hf.1
        simp only [List.length_cons, List.length_nil, needL]
        have hm : max (need x) 0 = need x := Nat.max_eq_left (Nat.zero_le _)
        omega
    | x :: y :: r, body, h, hf => by
        rw [marshalElems] at h
        rw [FloatsOkL] at hf
        split at h
        · rename_i a b ha hb
          cases h
          have h1 := need_le x a ha hf.1
          have h2 := needL_le (y :: r) b hb hf.2
          have h3 : 1 ≤ need x := by
            cases x <;> simp [need] <;> split <;> omega
          rw [needL]
          simp only [List.length_cons, List.length_append, List.length_nil] at h2 ⊢
          rcases Nat.le_total (need x) (needL (y :: r)) with hm | hm
          · rw [Nat.max_eq_right hm]; omega
          · rw [Nat.max_eq_left hm]; omega
        · exact absurd h (by simp)
  /-- some member's text is at least as long as the largest need -/
  theorem needM_le : (kvs : List (Bytes × Value)) → ∀ ms, marshalMembers kvs = some ms → FloatsOkM kvs →
      ms.length = kvs.length ∧ (kvs ≠ [] → ∃ p ∈ ms, needM kvs ≤ p.2.length)
    | [], ms, h, _ => by rw [marshalMembers] at h; cases h; exact ⟨rfl, fun hne => absurd rfl hne⟩
    | (k, v) :: r, ms, h, hf => by
        rw [marshalMembers] at h
        rw [FloatsOkM] at hf
        split at h
        · rename_i a ms' ha hms
          cases h
          have h1 := need_le v a ha hf.1
          obtain ⟨hlen, hb⟩ := needM_le r ms' hms hf.2
          refine ⟨by simp [hlen], fun _ => ?_⟩
          rw [needM]
          rcases Nat.le_total (need v) (needM r) with hm | hm
          · rw [Nat.max_eq_right hm]
            cases r with
            | nil =>
              refine ⟨(k, a), by simp, ?_⟩
              simp only [needM] at hm ⊢; omega
            | cons kv r' =>
              obtain ⟨p, hp, hle⟩ := hb (by simp)
              exact ⟨p, by simp [hp], hle⟩
          · rw [Nat.max_eq_left hm]
            exact ⟨(k, a), by simp, h1⟩
        · exact absurd h (by simp)
end

end SoyVerif.Lemmas.JsonValue
