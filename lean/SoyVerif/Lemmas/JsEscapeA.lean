/-
  Lemmas for the proposed JavaScript string escaper (Model/JsEscape2.lean), part A:
  decoding / re-encoding of well-formed UTF-8 sequences, hex digits, and the behaviour of the
  strict evaluator Spec.jsUnescape on each kind of token the escaper writes.
-/
import SoyVerif.Model.JsEscape2
import SoyVerif.Spec.JsString
import SoyVerif.Lemmas.Utf8
import SoyVerif.Lemmas.EscapeQuery

namespace SoyVerif.Lemmas.JsEscapeA
open SoyVerif SoyVerif.Model SoyVerif.Spec SoyVerif.Lemmas.Utf8 SoyVerif.Lemmas.EscapeQuery

theorem isTail_iff (b : UInt8) : isTail b = true ↔ 128 ≤ b.toNat ∧ b.toNat ≤ 191 := by
  simp [isTail, UInt8.le_iff_toNat_le]

theorem isCont_eq_isTail (b : UInt8) : isCont b = isTail b := rfl

theorem ofNat_eq (n : Nat) (b : UInt8) (h : n = b.toNat) : UInt8.ofNat n = b := by
  subst h; simp

/-- two-byte sequences -/
theorem decode2 (b0 b1 : UInt8) (rest : Bytes) (h : wellFormedSeq [b0, b1] = true) :
    ∃ r, decodeRune (b0 :: b1 :: rest) = (r, 2) ∧ utf8Encode r = [b0, b1] ∧ 0x80 ≤ r ∧ r < 0x800 := by
  simp only [wellFormedSeq, Bool.and_eq_true, decide_eq_true_eq, UInt8.le_iff_toNat_le] at h
  obtain ⟨⟨h1, h2⟩, h3⟩ := h
  have t1 := (isTail_iff b1).1 h3
  simp at h1 h2
  have hlt : ¬ b0 < 0x80 := by simp [UInt8.lt_iff_toNat_lt]; omega
  have hr : (0xC2 ≤ b0 && b0 ≤ 0xDF) = true := by simp [UInt8.le_iff_toNat_le]; omega
  refine ⟨(b0.toNat % 32) * 64 + b1.toNat % 64, ?_, ?_, by omega, by omega⟩
  · simp [decodeRune, hlt, hr, isCont_eq_isTail, h3]
  · have a : ¬ ((b0.toNat % 32) * 64 + b1.toNat % 64 < 0x80) := by omega
    have b : (b0.toNat % 32) * 64 + b1.toNat % 64 < 0x800 := by omega
    simp only [utf8Encode, a, b, if_true, if_false]
    congr 1
    · apply ofNat_eq; omega
    · congr 1; apply ofNat_eq; omega

theorem wf3_facts (b0 b1 b2 : UInt8) (h : wellFormedSeq [b0, b1, b2] = true) :
    224 ≤ b0.toNat ∧ b0.toNat ≤ 239 ∧ 128 ≤ b1.toNat ∧ b1.toNat ≤ 191 ∧
    (b0.toNat = 224 → 160 ≤ b1.toNat) ∧ (b0.toNat = 237 → b1.toNat ≤ 159) ∧
    128 ≤ b2.toNat ∧ b2.toNat ≤ 191 := by
  simp only [wellFormedSeq, Bool.and_eq_true, Bool.or_eq_true, beq_iff_eq, decide_eq_true_eq,
    UInt8.le_iff_toNat_le] at h
  obtain ⟨h1, h2⟩ := h
  have t2 := (isTail_iff b2).1 h2
  rcases h1 with ((⟨⟨rfl, a⟩, b⟩ | ⟨⟨a, a'⟩, b⟩) | ⟨⟨rfl, a⟩, b⟩) | ⟨⟨a, a'⟩, b⟩
  · simp at a b ⊢; omega
  · have := (isTail_iff b1).1 b; simp at a a'; omega
  · simp at a b ⊢; omega
  · have := (isTail_iff b1).1 b; simp at a a'; omega

theorem toNat_eq_of (b : UInt8) (n : Nat) (hn : n < 256) : (b == UInt8.ofNat n) = decide (b.toNat = n) := by
  by_cases h : b.toNat = n
  · subst h; simp
  · have : b ≠ UInt8.ofNat n := by
      intro e; apply h; subst e; simp; omega
    simp [h, this]

theorem accept3_of (b0 b1 : UInt8) (h1 : 128 ≤ b1.toNat) (h2 : b1.toNat ≤ 191)
    (h3 : b0.toNat = 224 → 160 ≤ b1.toNat) (h4 : b0.toNat = 237 → b1.toNat ≤ 159) : accept3 b0 b1 = true := by
  unfold accept3
  have e1 := toNat_eq_of b0 224 (by decide)
  have e2 := toNat_eq_of b0 237 (by decide)
  simp only [UInt8.reduceOfNat] at e1 e2
  simp only [e1, e2, Bool.and_eq_true, decide_eq_true_eq, UInt8.le_iff_toNat_le]
  constructor
  · split <;> simp_all <;> omega
  · split <;> simp_all <;> omega

/-- three-byte sequences -/
theorem decode3 (b0 b1 b2 : UInt8) (rest : Bytes) (h : wellFormedSeq [b0, b1, b2] = true) :
    ∃ r, decodeRune (b0 :: b1 :: b2 :: rest) = (r, 3) ∧ utf8Encode r = [b0, b1, b2] ∧ 0x800 ≤ r ∧ r < 0x10000 ∧
      ¬ (0xD800 ≤ r ∧ r < 0xE000) := by
  obtain ⟨a1, a2, a3, a4, a5, a6, a7, a8⟩ := wf3_facts b0 b1 b2 h
  have hlt : ¬ b0 < 0x80 := by simp [UInt8.lt_iff_toNat_lt]; omega
  have hr2 : (0xC2 ≤ b0 && b0 ≤ 0xDF) = false := by simp [UInt8.le_iff_toNat_le]; omega
  have hr3 : (0xE0 ≤ b0 && b0 ≤ 0xEF) = true := by simp [UInt8.le_iff_toNat_le]; omega
  have hacc := accept3_of b0 b1 a3 a4 a5 a6
  have hc2 : isCont b2 = true := (isCont_iff b2).2 ⟨a7, a8⟩
  refine ⟨(b0.toNat % 16) * 4096 + (b1.toNat % 64) * 64 + b2.toNat % 64, ?_, ?_, by omega, by omega, by omega⟩
  · simp [decodeRune, hlt, hr2, hr3, hacc, hc2]
  · have a : ¬ ((b0.toNat % 16) * 4096 + (b1.toNat % 64) * 64 + b2.toNat % 64 < 0x80) := by omega
    have b : ¬ ((b0.toNat % 16) * 4096 + (b1.toNat % 64) * 64 + b2.toNat % 64 < 0x800) := by omega
    have c : (b0.toNat % 16) * 4096 + (b1.toNat % 64) * 64 + b2.toNat % 64 < 0x10000 := by omega
    simp only [utf8Encode, a, b, c, if_true, if_false]
    congr 1
    · apply ofNat_eq; omega
    · congr 1
      · apply ofNat_eq; omega
      · congr 1; apply ofNat_eq; omega

theorem wf4_facts (b0 b1 b2 b3 : UInt8) (h : wellFormedSeq [b0, b1, b2, b3] = true) :
    240 ≤ b0.toNat ∧ b0.toNat ≤ 244 ∧ 128 ≤ b1.toNat ∧ b1.toNat ≤ 191 ∧
    (b0.toNat = 240 → 144 ≤ b1.toNat) ∧ (b0.toNat = 244 → b1.toNat ≤ 143) ∧
    128 ≤ b2.toNat ∧ b2.toNat ≤ 191 ∧ 128 ≤ b3.toNat ∧ b3.toNat ≤ 191 := by
  simp only [wellFormedSeq, Bool.and_eq_true, Bool.or_eq_true, beq_iff_eq, decide_eq_true_eq,
    UInt8.le_iff_toNat_le] at h
  obtain ⟨⟨h1, h2⟩, h3⟩ := h
  have t2 := (isTail_iff b2).1 h2
  have t3 := (isTail_iff b3).1 h3
  rcases h1 with (⟨⟨rfl, a⟩, b⟩ | ⟨⟨a, a'⟩, b⟩) | ⟨⟨rfl, a⟩, b⟩
  · simp at a b ⊢; omega
  · have := (isTail_iff b1).1 b; simp at a a'; omega
  · simp at a b ⊢; omega

theorem accept4_of (b0 b1 : UInt8) (h1 : 128 ≤ b1.toNat) (h2 : b1.toNat ≤ 191)
    (h3 : b0.toNat = 240 → 144 ≤ b1.toNat) (h4 : b0.toNat = 244 → b1.toNat ≤ 143) : accept4 b0 b1 = true := by
  unfold accept4
  have e1 := toNat_eq_of b0 240 (by decide)
  have e2 := toNat_eq_of b0 244 (by decide)
  simp only [UInt8.reduceOfNat] at e1 e2
  simp only [e1, e2, Bool.and_eq_true, decide_eq_true_eq, UInt8.le_iff_toNat_le]
  constructor
  · split <;> simp_all <;> omega
  · split <;> simp_all <;> omega

/-- four-byte sequences -/
theorem decode4 (b0 b1 b2 b3 : UInt8) (rest : Bytes) (h : wellFormedSeq [b0, b1, b2, b3] = true) :
    ∃ r, decodeRune (b0 :: b1 :: b2 :: b3 :: rest) = (r, 4) ∧ utf8Encode r = [b0, b1, b2, b3] ∧
      0x10000 ≤ r ∧ r < 0x110000 := by
  obtain ⟨a1, a2, a3, a4, a5, a6, a7, a8, a9, a10⟩ := wf4_facts b0 b1 b2 b3 h
  have hlt : ¬ b0 < 0x80 := by simp [UInt8.lt_iff_toNat_lt]; omega
  have hr2 : (0xC2 ≤ b0 && b0 ≤ 0xDF) = false := by simp [UInt8.le_iff_toNat_le]; omega
  have hr3 : (0xE0 ≤ b0 && b0 ≤ 0xEF) = false := by simp [UInt8.le_iff_toNat_le]; omega
  have hr4 : (0xF0 ≤ b0 && b0 ≤ 0xF4) = true := by simp [UInt8.le_iff_toNat_le]; omega
  have hacc := accept4_of b0 b1 a3 a4 a5 a6
  have hc2 : isCont b2 = true := (isCont_iff b2).2 ⟨a7, a8⟩
  have hc3 : isCont b3 = true := (isCont_iff b3).2 ⟨a9, a10⟩
  refine ⟨(b0.toNat % 8) * 262144 + (b1.toNat % 64) * 4096 + (b2.toNat % 64) * 64 + b3.toNat % 64, ?_, ?_, by omega, by omega⟩
  · simp [decodeRune, hlt, hr2, hr3, hr4, hacc, hc2, hc3]
  · have a : ¬ ((b0.toNat % 8) * 262144 + (b1.toNat % 64) * 4096 + (b2.toNat % 64) * 64 + b3.toNat % 64 < 0x80) := by omega
    have b : ¬ ((b0.toNat % 8) * 262144 + (b1.toNat % 64) * 4096 + (b2.toNat % 64) * 64 + b3.toNat % 64 < 0x800) := by omega
    have c : ¬ ((b0.toNat % 8) * 262144 + (b1.toNat % 64) * 4096 + (b2.toNat % 64) * 64 + b3.toNat % 64 < 0x10000) := by omega
    simp only [utf8Encode, a, b, c, if_false]
    congr 1
    · apply ofNat_eq; omega
    · congr 1
      · apply ofNat_eq; omega
      · congr 1
        · apply ofNat_eq; omega
        · congr 1; apply ofNat_eq; omega

theorem hexVal_upper (n : Nat) (h : n < 16) : hexDigitVal (hexUpper n) = some n :=
  hexDigitVal_hexUpper ⟨n, h⟩

theorem hex4_hex4Upper (u : Nat) (h : u < 65536) :
    hex4 (hexUpper (u / 4096 % 16)) (hexUpper (u / 256 % 16)) (hexUpper (u / 16 % 16)) (hexUpper (u % 16)) = some u := by
  unfold hex4
  rw [hexVal_upper _ (by omega), hexVal_upper _ (by omega), hexVal_upper _ (by omega), hexVal_upper _ (by omega)]
  simp only [Option.some.injEq]
  omega

/-- the bytes of the token are consumed -/
theorem jsUnescape_skip (l rest : Bytes) : jsUnescapeGo l.length (l ++ rest) = jsUnescapeGo 0 rest := by
  induction l with
  | nil => rfl
  | cons a l ih => simpa [jsUnescapeGo] using ih

/-- `\uXXXX` of a BMP scalar value -/
theorem unesc_u4 (u : Nat) (rest : Bytes) (h : u < 65536) (hs : ¬ (0xD800 ≤ u ∧ u < 0xE000)) :
    jsUnescapeGo 0 (jsU4 u ++ rest) = (jsUnescapeGo 0 rest).map (utf8Encode u ++ ·) := by
  have hx := hex4_hex4Upper u h
  have h1 : (0xD800 ≤ u && u < 0xDC00) = false := by
    simp only [Bool.and_eq_false_iff, decide_eq_false_iff_not]; omega
  have h2 : (0xDC00 ≤ u && u < 0xE000) = false := by
    simp only [Bool.and_eq_false_iff, decide_eq_false_iff_not]; omega
  have hskip := jsUnescape_skip [117, hexUpper (u / 4096 % 16), hexUpper (u / 256 % 16), hexUpper (u / 16 % 16), hexUpper (u % 16)] rest
  simp only [List.length_cons, List.length_nil, List.cons_append, List.nil_append] at hskip
  simp only [jsU4, hex4Upper, List.cons_append, List.nil_append]
  rw [jsUnescapeGo]
  simp only [beq_self_eq_true, if_true, hx, h1, h2]
  simp [hskip]

/-- an escaped surrogate pair -/
theorem unesc_pair (hi lo : Nat) (rest : Bytes) (h1 : 0xD800 ≤ hi) (h2 : hi < 0xDC00) (h3 : 0xDC00 ≤ lo) (h4 : lo < 0xE000) :
    jsUnescapeGo 0 (jsU4 hi ++ jsU4 lo ++ rest) =
      (jsUnescapeGo 0 rest).map (utf8Encode (0x10000 + (hi - 0xD800) * 1024 + (lo - 0xDC00)) ++ ·) := by
  have hx := hex4_hex4Upper hi (by omega)
  have hy := hex4_hex4Upper lo (by omega)
  have c1 : (0xD800 ≤ hi && hi < 0xDC00) = true := by simp; omega
  have c2 : (0xDC00 ≤ lo && lo < 0xE000) = true := by simp; omega
  have hskip := jsUnescape_skip [117, hexUpper (hi / 4096 % 16), hexUpper (hi / 256 % 16), hexUpper (hi / 16 % 16), hexUpper (hi % 16),
    92, 117, hexUpper (lo / 4096 % 16), hexUpper (lo / 256 % 16), hexUpper (lo / 16 % 16), hexUpper (lo % 16)] rest
  simp only [List.length_cons, List.length_nil, List.cons_append, List.nil_append] at hskip
  simp only [jsU4, hex4Upper, List.cons_append, List.nil_append, List.append_assoc]
  rw [jsUnescapeGo]
  simp only [beq_self_eq_true, if_true, hx, hy, c1, c2]
  simp [hskip]

theorem unesc_named (c : UInt8) (rest : Bytes) (h : c = 92 ∨ c = 39 ∨ c = 34) :
    jsUnescapeGo 0 (92 :: c :: rest) = (jsUnescapeGo 0 rest).map (c :: ·) := by
  rcases h with rfl | rfl | rfl <;> simp [jsUnescapeGo]

theorem unesc_raw_ascii (b : UInt8) (rest : Bytes) (h : jsIsSpecial b = false) :
    jsUnescapeGo 0 (b :: rest) = (jsUnescapeGo 0 rest).map (b :: ·) := by
  simp only [jsIsSpecial, Bool.or_eq_false_iff, beq_eq_false_iff_ne, ne_eq, decide_eq_false_iff_not] at h
  obtain ⟨⟨⟨⟨⟨⟨⟨⟨h92, h39⟩, h34⟩, h60⟩, h62⟩, h38⟩, h61⟩, h32⟩, h80⟩ := h
  have hlt : b < 0x80 := by
    simp only [UInt8.le_iff_toNat_le, UInt8.lt_iff_toNat_lt] at h80 ⊢; simp at h80 ⊢; omega
  have hf : jsRawForbidden b = false := by
    simp [jsRawForbidden, h39, h34, h60, h62, h38, h61, h32]
  conv => lhs; unfold jsUnescapeGo
  simp [h92, hlt, hf]

theorem hi_not_ascii (b0 : UInt8) (h : 128 ≤ b0.toNat) : (b0 == 92) = false ∧ ¬ (b0 < 0x80) ∧ wellFormedSeq [b0] = false := by
  refine ⟨?_, ?_, ?_⟩
  · apply beq_false_of_ne; rintro rfl; simp at h
  · simp [UInt8.lt_iff_toNat_lt]; omega
  · simp [wellFormedSeq, UInt8.le_iff_toNat_le]; omega

theorem unesc_raw2 (b0 b1 : UInt8) (rest : Bytes) (h : wellFormedSeq [b0, b1] = true) :
    jsUnescapeGo 0 (b0 :: b1 :: rest) = (jsUnescapeGo 0 rest).map ([b0, b1] ++ ·) := by
  have h' := h
  simp only [wellFormedSeq, Bool.and_eq_true, decide_eq_true_eq, UInt8.le_iff_toNat_le] at h'
  have hb : 194 ≤ b0.toNat ∧ b0.toNat ≤ 223 := by have := h'.1; simp at this; omega
  obtain ⟨n92, nlt, nw1⟩ := hi_not_ascii b0 (by omega)
  have hlen : utf8SeqLen (b0 :: b1 :: rest) = 2 := by simp [utf8SeqLen, nw1, h]
  have hls : isLineSep (b0 :: b1 :: rest) = false := by
    have : b0 ≠ 0xE2 := by rintro rfl; simp at hb
    cases rest <;> simp [isLineSep, this]
  conv => lhs; unfold jsUnescapeGo
  simp [n92, nlt, hlen, hls, jsUnescapeGo]

theorem unesc_raw3 (b0 b1 b2 : UInt8) (rest : Bytes) (h : wellFormedSeq [b0, b1, b2] = true)
    (hn1 : [b0, b1, b2] ≠ [0xE2, 0x80, 0xA8]) (hn2 : [b0, b1, b2] ≠ [0xE2, 0x80, 0xA9]) :
    jsUnescapeGo 0 (b0 :: b1 :: b2 :: rest) = (jsUnescapeGo 0 rest).map ([b0, b1, b2] ++ ·) := by
  obtain ⟨a1, a2, _⟩ := wf3_facts b0 b1 b2 h
  obtain ⟨n92, nlt, nw1⟩ := hi_not_ascii b0 (by omega)
  have nw2 : wellFormedSeq [b0, b1] = false := by
    simp [wellFormedSeq, UInt8.le_iff_toNat_le]; omega
  have hlen : utf8SeqLen (b0 :: b1 :: b2 :: rest) = 3 := by simp [utf8SeqLen, nw1, nw2, h]
  have hls : isLineSep (b0 :: b1 :: b2 :: rest) = false := by
    simp only [isLineSep, List.take_succ_cons, List.take_zero, Bool.or_eq_false_iff, beq_eq_false_iff_ne]
    exact ⟨hn1, hn2⟩
  conv => lhs; unfold jsUnescapeGo
  simp [n92, nlt, hlen, hls, jsUnescapeGo]

theorem unesc_raw4 (b0 b1 b2 b3 : UInt8) (rest : Bytes) (h : wellFormedSeq [b0, b1, b2, b3] = true) :
    jsUnescapeGo 0 (b0 :: b1 :: b2 :: b3 :: rest) = (jsUnescapeGo 0 rest).map ([b0, b1, b2, b3] ++ ·) := by
  obtain ⟨a1, a2, _⟩ := wf4_facts b0 b1 b2 b3 h
  obtain ⟨n92, nlt, nw1⟩ := hi_not_ascii b0 (by omega)
  have nw2 : wellFormedSeq [b0, b1] = false := by
    simp [wellFormedSeq, UInt8.le_iff_toNat_le]; omega
  have ne0 : (b0 == 0xE0) = false := by apply beq_false_of_ne; rintro rfl; simp at a1
  have neD : (b0 == 0xED) = false := by apply beq_false_of_ne; rintro rfl; simp at a1
  have nw3 : wellFormedSeq [b0, b1, b2] = false := by
    simp only [wellFormedSeq, ne0, neD, Bool.false_and, Bool.false_or, Bool.or_false]
    simp [UInt8.le_iff_toNat_le]
    intro hx; exfalso; omega
  have hlen : utf8SeqLen (b0 :: b1 :: b2 :: b3 :: rest) = 4 := by simp [utf8SeqLen, nw1, nw2, nw3, h]
  have hls : isLineSep (b0 :: b1 :: b2 :: b3 :: rest) = false := by
    have : b0 ≠ 0xE2 := by rintro rfl; simp at a1
    simp [isLineSep, this]
  conv => lhs; unfold jsUnescapeGo
  simp [n92, nlt, hlen, hls, jsUnescapeGo]

end SoyVerif.Lemmas.JsEscapeA
