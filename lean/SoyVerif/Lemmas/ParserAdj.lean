/-
  The lexer-facing side of the printed tokens: which token stands in front of every `-`.

  The lexer decides between unary minus / the sign of a number and binary minus by the PREVIOUS
  token (`lexNegative`; generated table `unaryMinusAfter`).  For the printed tokens of any tree,
  preceded by the start of input (`tInvalid`):
  * every token that may begin with a unary `-` (Negate, Integer, Float) is preceded by a token of
    `beforeOperand`, and
  * every binary minus (Sub) is preceded by a token of `afterOperand` (the last token of an operand).
  `Inst/C17.lean` proves by `decide` that `beforeOperand ⊆ unaryMinusAfter` and that `afterOperand`
  is disjoint from it.
-/
import SoyVerif.Lemmas.ParserToks

set_option linter.unusedSimpArgs false
set_option linter.unusedVariables false

namespace SoyVerif.Lemmas.ParserAdj
open SoyVerif SoyVerif.Model SoyVerif.Model.Parser SoyVerif.Model.PrintTokens SoyVerif.Model.Printer
open SoyVerif.Lemmas.ParserToks

/-- token types that can stand in front of an operand in printed tokens (`tInvalid` = start of input,
    `tLeftDelim` = the `{` of a print command) -/
def beforeOperand : List ItemType :=
  [.tInvalid, .tLeftDelim, .tLeftParen, .tLeftBracket, .tQuestionKey, .tComma, .tColon, .tTernIf, .tNot, .tNegate,
   .tMul, .tDiv, .tMod, .tAdd, .tSub, .tEq, .tNotEq, .tGt, .tGte, .tLt, .tLte, .tOr, .tAnd, .tElvis]

/-- token types an operand can end with -/
def afterOperand : List ItemType :=
  [.tRightParen, .tRightBracket, .tNull, .tBool, .tInteger, .tFloat, .tString, .tIdent, .tDollarIdent,
   .tDotIdent, .tQuestionDotIdent, .tDotIndex, .tQuestionDotIndex]

def pairOK (x y : ItemType) : Bool :=
  (if y == .tNegate || y == .tInteger || y == .tFloat then beforeOperand.contains x else true) &&
  (if y == .tSub then afterOperand.contains x else true)

/-- all adjacent pairs of `x :: l` are fine -/
def chainOK : ItemType → List ItemType → Bool
  | _, [] => true
  | x, y :: r => pairOK x y && chainOK y r

def lastOf : ItemType → List ItemType → ItemType
  | x, [] => x
  | _, y :: r => lastOf y r

def typs (ts : List Tk) : List ItemType := ts.map (·.typ)

theorem chainOK_append : (x : ItemType) → (a b : List ItemType) →
    chainOK x (a ++ b) = (chainOK x a && chainOK (lastOf x a) b)
  | x, [], b => by simp [chainOK, lastOf]
  | x, y :: r, b => by simp [chainOK, lastOf, chainOK_append y r b, Bool.and_assoc]

theorem lastOf_append : (x : ItemType) → (a b : List ItemType) → lastOf x (a ++ b) = lastOf (lastOf x a) b
  | x, [], b => rfl
  | x, y :: r, b => by simp [lastOf, lastOf_append y r b]

theorem typs_append (a b : List Tk) : typs (a ++ b) = typs a ++ typs b := by simp [typs]

/-- the good outcome for a token list placed after `x` -/
def Good (x : ItemType) (l : List ItemType) : Prop := chainOK x l = true ∧ lastOf x l ∈ afterOperand

theorem good_append {x : ItemType} {a b : List ItemType} (ha : chainOK x a = true) (hb : Good (lastOf x a) b) :
    Good x (a ++ b) := by
  refine ⟨?_, ?_⟩
  · rw [chainOK_append, ha, hb.1]; rfl
  · rw [lastOf_append]; exact hb.2

/-- the binary operator tokens and the punctuation in front of operands -/
theorem before_tokOf (op : BinOp) : tokOf op ∈ beforeOperand := by cases op <;> simp [tokOf, beforeOperand]

theorem pairOK_op {l : ItemType} (h : l ∈ afterOperand) (op : BinOp) : pairOK l (tokOf op) = true := by
  have : afterOperand.contains l = true := by simpa using h
  cases op <;> simp [pairOK, tokOf, h]

section
variable (ff : UInt64 → Bytes)

/-- an operand slot of the printer after a token of `beforeOperand` -/
theorem good_wrap {a : Expr} (m : Nat) (h : ∀ x, x ∈ beforeOperand → Good x (typs (toks ff a)))
    (x : ItemType) (hx : x ∈ beforeOperand) : Good x (typs (unsp (wrapP a m (pieces ff a)))) := by
  unfold wrapP
  by_cases hlt : precedenceOf a < m
  · simp only [hlt, if_true]
    have h1 := h .tLeftParen (by simp [beforeOperand])
    have : typs (unsp ([Piece.tok tLP] ++ pieces ff a ++ [Piece.tok tRP])) =
        [.tLeftParen] ++ typs (toks ff a) ++ [.tRightParen] := by
      simp [unsp_append, unsp, typs, toks, tLP, tRP]
    rw [this]
    refine ⟨?_, ?_⟩
    · rw [chainOK_append, chainOK_append]
      simp [chainOK, pairOK, lastOf, h1.1]
    · rw [lastOf_append]; simp [lastOf, afterOperand]
  · simp only [hlt, if_false]
    exact h x hx

mutual
  theorem good_toks : (e : Expr) → ∀ x, x ∈ beforeOperand → Good x (typs (toks ff e))
    | .null _, x, hx => by simp [toks, pieces, unsp, typs, tNull, Good, chainOK, pairOK, lastOf, afterOperand]
    | .bool _ b, x, hx => by simp [toks, pieces, unsp, typs, tBool, Good, chainOK, pairOK, lastOf, afterOperand]
    | .int _ v, x, hx => by
        simp [toks, pieces, unsp, typs, Good, chainOK, pairOK, lastOf, hx]
        simp [afterOperand]
    | .float _ v, x, hx => by
        simp [toks, pieces, unsp, typs, Good, chainOK, pairOK, lastOf, hx]
        simp [afterOperand]
    | .str _ q v, x, hx => by simp [toks, pieces, unsp, typs, tString, Good, chainOK, pairOK, lastOf, afterOperand]
    | .global _ n, x, hx => by
        have hg : ∀ (segs : List Bytes) (y : ItemType), y ∈ afterOperand →
            Good y (typs (segs.map tDotIdent)) := by
          intro segs
          induction segs with
          | nil => intro y hy; exact ⟨rfl, hy⟩
          | cons s r ih =>
            intro y hy
            have := ih .tDotIdent (by simp [afterOperand])
            simp [typs, tDotIdent, Good, chainOK, pairOK, lastOf] at this ⊢
            exact this
        have := hg (splitDots n).2 .tIdent (by simp [afterOperand])
        simp only [toks, pieces, unsp_map_tok, globalToks]
        simp [typs, tIdent, Good, chainOK, pairOK, lastOf] at this ⊢
        exact this
    | .func p n args, x, hx => by
        cases args with
        | nil => simp [toks, pieces, piecesArgs, unsp, typs, tIdent, tLP, tRP, Good, chainOK, pairOK, lastOf, afterOperand]
        | cons e r =>
          have h1 := good_toks e .tLeftParen (by simp [beforeOperand])
          have h2 := good_args r (lastOf .tLeftParen (typs (toks ff e)))
          have : typs (toks ff (.func p n (.cons e r))) =
              [.tIdent, .tLeftParen] ++ typs (toks ff e) ++ typs (unsp (piecesArgs ff r false)) ++ [.tRightParen] := by
            simp [toks, pieces, piecesArgs, unsp, unsp_append, typs, tIdent, tLP, tRP]
          rw [this]
          refine ⟨?_, ?_⟩
          · simp only [chainOK_append, lastOf_append]
            simp [chainOK, pairOK, lastOf, h1.1, h2]
          · simp [lastOf_append, lastOf, afterOperand]
    | .list p items, x, hx => by
        cases items with
        | nil => simp [toks, pieces, piecesItems, unsp, typs, tLB, tRB, Good, chainOK, pairOK, lastOf, afterOperand]
        | cons e r =>
          have h1 := good_toks e .tLeftBracket (by simp [beforeOperand])
          have h2 := good_items r (lastOf .tLeftBracket (typs (toks ff e)))
          have : typs (toks ff (.list p (.cons e r))) =
              [.tLeftBracket] ++ typs (toks ff e) ++ typs (unsp (piecesItems ff r false)) ++ [.tRightBracket] := by
            simp [toks, pieces, piecesItems, unsp, unsp_append, typs, tLB, tRB]
          rw [this]
          refine ⟨?_, ?_⟩
          · simp only [chainOK_append, lastOf_append]
            simp [chainOK, pairOK, lastOf, h1.1, h2]
          · simp [lastOf_append, lastOf, afterOperand]
    | .map p items, x, hx => by
        cases items with
        | nil => simp [toks, pieces, unsp, typs, tLB, tColon, tRB, Good, chainOK, pairOK, lastOf, afterOperand]
        | cons k e r =>
          have h1 := good_toks e .tColon (by simp [beforeOperand])
          have h2 := good_entries r (lastOf .tColon (typs (toks ff e)))
          have : typs (toks ff (.map p (.cons k e r))) =
              [.tLeftBracket, .tString, .tColon] ++ typs (toks ff e) ++ typs (unsp (piecesMap ff r false)) ++ [.tRightBracket] := by
            simp [toks, pieces, piecesMap, unsp, unsp_append, typs, tLB, tRB, tString, tColon]
          rw [this]
          refine ⟨?_, ?_⟩
          · simp only [chainOK_append, lastOf_append]
            simp [chainOK, pairOK, lastOf, h1.1, h2]
          · simp [lastOf_append, lastOf, afterOperand]
    | .dataRef p k acc, x, hx => by
        have h2 := good_accs acc .tDollarIdent (by simp [afterOperand])
        have : typs (toks ff (.dataRef p k acc)) = [.tDollarIdent] ++ typs (unsp (piecesAccs ff acc)) := by
          simp [toks, pieces, unsp, unsp_append, typs]
        rw [this]
        exact good_append (by simp [chainOK, pairOK]) (by simpa [lastOf] using h2)
    | .not p a, x, hx => by
        have h1 := good_wrap ff precUnary (good_toks a) .tNot (by simp [beforeOperand])
        have : typs (toks ff (.not p a)) = [.tNot] ++ typs (unsp (wrapP a precUnary (pieces ff a))) := by
          simp [toks, pieces, unsp, unsp_append, typs, tNot]
        rw [this]
        exact good_append (by simp [chainOK, pairOK]) (by simpa [lastOf] using h1)
    | .neg p a, x, hx => by
        have hxc : beforeOperand.contains x = true := by simpa using hx
        have ih := good_toks a
        have key : ∃ l, typs (toks ff (.neg p a)) = [.tNegate] ++ l ∧ Good .tNegate l := by
          cases a <;>
            (rw [toks, pieces]
             all_goals first
               | (intro _ _ h; cases h)
               | skip)
          case int p v =>
            refine ⟨[.tLeftParen] ++ typs (toks ff (.int p v)) ++ [.tRightParen], by simp [unsp, unsp_append, typs, toks, tNeg, tLP, tRP], ?_⟩
            have h1 := ih .tLeftParen (by simp [beforeOperand])
            refine ⟨?_, ?_⟩
            · rw [chainOK_append, chainOK_append]; simp [chainOK, pairOK, lastOf, h1.1]
            · rw [lastOf_append]; simp [lastOf, afterOperand]
          case float p v =>
            refine ⟨[.tLeftParen] ++ typs (toks ff (.float p v)) ++ [.tRightParen], by simp [unsp, unsp_append, typs, toks, tNeg, tLP, tRP], ?_⟩
            have h1 := ih .tLeftParen (by simp [beforeOperand])
            refine ⟨?_, ?_⟩
            · rw [chainOK_append, chainOK_append]; simp [chainOK, pairOK, lastOf, h1.1]
            · rw [lastOf_append]; simp [lastOf, afterOperand]
          all_goals
            exact ⟨_, by simp [unsp, unsp_append, typs, tNeg], good_wrap ff precUnary ih .tNegate (by simp [beforeOperand])⟩
        obtain ⟨l, hl, hg⟩ := key
        rw [hl]
        exact good_append (by simp [chainOK, pairOK, hx]) (by simpa [lastOf] using hg)
    | .bin op p a b, x, hx => by
        have h1 := good_wrap ff (leftMin op) (good_toks a) x hx
        have h2 := good_wrap ff (rightMin op) (good_toks b) (tokOf op) (before_tokOf op)
        have : typs (toks ff (.bin op p a b)) = typs (unsp (wrapP a (leftMin op) (pieces ff a))) ++
            ([tokOf op] ++ typs (unsp (wrapP b (rightMin op) (pieces ff b)))) := by
          simp [toks, pieces, unsp, unsp_append, typs, tOp]
        rw [this]
        refine good_append h1.1 (good_append ?_ (by simpa [lastOf] using h2))
        simp [chainOK, pairOK_op h1.2 op]
    | .tern p c a b, x, hx => by
        have h1 := good_wrap ff (precElvis + 1) (good_toks c) x hx
        have h2 := good_wrap ff precElvis (good_toks a) .tTernIf (by simp [beforeOperand])
        have h3 := good_toks b .tColon (by simp [beforeOperand])
        have : typs (toks ff (.tern p c a b)) = typs (unsp (wrapP c (precElvis + 1) (pieces ff c))) ++
            ([.tTernIf] ++ (typs (unsp (wrapP a precElvis (pieces ff a))) ++ ([.tColon] ++ typs (toks ff b)))) := by
          simp [toks, pieces, unsp, unsp_append, typs, tTernIf, tColon]
        rw [this]
        refine good_append h1.1 (good_append (by simp [chainOK, pairOK]) ?_)
        refine good_append (by simpa [lastOf] using h2.1) (good_append (by simp [chainOK, pairOK]) (by simpa [lastOf] using h3))
  /-- further arguments `,e` after any token -/
  theorem good_args : (l : ExprList) → ∀ y, chainOK y (typs (unsp (piecesArgs ff l false))) = true
    | .nil, y => by simp [piecesArgs, unsp, typs, chainOK]
    | .cons e r, y => by
        have h1 := good_toks e .tComma (by simp [beforeOperand])
        have h2 := good_args r (lastOf .tComma (typs (toks ff e)))
        have : typs (unsp (piecesArgs ff (.cons e r) false)) =
            [.tComma] ++ typs (toks ff e) ++ typs (unsp (piecesArgs ff r false)) := by
          simp [toks, piecesArgs, unsp, unsp_append, typs, tComma]
        rw [this]
        simp only [chainOK_append, lastOf_append]
        simp [chainOK, pairOK, lastOf, h1.1, h2]
  theorem good_items : (l : ExprList) → ∀ y, chainOK y (typs (unsp (piecesItems ff l false))) = true
    | .nil, y => by simp [piecesItems, unsp, typs, chainOK]
    | .cons e r, y => by
        have h1 := good_toks e .tComma (by simp [beforeOperand])
        have h2 := good_items r (lastOf .tComma (typs (toks ff e)))
        have : typs (unsp (piecesItems ff (.cons e r) false)) =
            [.tComma] ++ typs (toks ff e) ++ typs (unsp (piecesItems ff r false)) := by
          simp [toks, piecesItems, unsp, unsp_append, typs, tComma]
        rw [this]
        simp only [chainOK_append, lastOf_append]
        simp [chainOK, pairOK, lastOf, h1.1, h2]
  theorem good_entries : (m : MapItems) → ∀ y, chainOK y (typs (unsp (piecesMap ff m false))) = true
    | .nil, y => by simp [piecesMap, unsp, typs, chainOK]
    | .cons k e r, y => by
        have h1 := good_toks e .tColon (by simp [beforeOperand])
        have h2 := good_entries r (lastOf .tColon (typs (toks ff e)))
        have : typs (unsp (piecesMap ff (.cons k e r) false)) =
            [.tComma, .tString, .tColon] ++ typs (toks ff e) ++ typs (unsp (piecesMap ff r false)) := by
          simp [toks, piecesMap, unsp, unsp_append, typs, tComma, tString, tColon]
        rw [this]
        simp only [chainOK_append, lastOf_append]
        simp [chainOK, pairOK, lastOf, h1.1, h2]
  theorem good_accs : (l : AccessList) → ∀ y, y ∈ afterOperand → Good y (typs (unsp (piecesAccs ff l)))
    | .nil, y, hy => by simp [piecesAccs, unsp, typs, Good, chainOK, lastOf, hy]
    | .cons a r, y, hy => by
        have h1 := good_acc a y
        have h2 := good_accs r (lastOf y (typs (unsp (piecesAcc ff a)))) h1.2
        have : typs (unsp (piecesAccs ff (.cons a r))) = typs (unsp (piecesAcc ff a)) ++ typs (unsp (piecesAccs ff r)) := by
          simp [piecesAccs, unsp_append, typs]
        rw [this]
        exact good_append h1.1 h2
  theorem good_acc : (a : Access) → ∀ y, Good y (typs (unsp (piecesAcc ff a)))
    | .key _ ns k, y => by cases ns <;> simp [piecesAcc, unsp, typs, Good, chainOK, pairOK, lastOf, afterOperand]
    | .index _ ns i, y => by cases ns <;> simp [piecesAcc, unsp, typs, Good, chainOK, pairOK, lastOf, afterOperand]
    | .expr p ns e, y => by
        cases ns with
        | true =>
          have h1 := good_toks e .tQuestionKey (by simp [beforeOperand])
          have : typs (unsp (piecesAcc ff (.expr p true e))) = [.tQuestionKey] ++ typs (toks ff e) ++ [.tRightBracket] := by
            simp [toks, piecesAcc, unsp, unsp_append, typs, tQKey, tRB]
          rw [this]
          refine ⟨?_, ?_⟩
          · simp only [chainOK_append, lastOf_append]; simp [chainOK, pairOK, lastOf, h1.1]
          · simp [lastOf_append, lastOf, afterOperand]
        | false =>
          have h1 := good_toks e .tLeftBracket (by simp [beforeOperand])
          have : typs (unsp (piecesAcc ff (.expr p false e))) = [.tLeftBracket] ++ typs (toks ff e) ++ [.tRightBracket] := by
            simp [toks, piecesAcc, unsp, unsp_append, typs, tLB, tRB]
          rw [this]
          refine ⟨?_, ?_⟩
          · simp only [chainOK_append, lastOf_append]; simp [chainOK, pairOK, lastOf, h1.1]
          · simp [lastOf_append, lastOf, afterOperand]
end

end
end SoyVerif.Lemmas.ParserAdj
