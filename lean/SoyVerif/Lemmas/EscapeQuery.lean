/-
  Lemmas about net/url.QueryEscape (Model.queryEscape) against the percent-decoding
  specification of Spec/Percent.lean.
-/
import SoyVerif.Model.Escape
import SoyVerif.Spec.Percent

namespace SoyVerif.Lemmas.EscapeQuery
open SoyVerif SoyVerif.Model SoyVerif.Spec

theorem hexDigitVal_hexUpper : ∀ n : Fin 16, hexDigitVal (hexUpper n.val) = some n.val := by decide

theorem hexUpper_safe : ∀ n : Fin 16, isUnreserved (hexUpper n.val) = true := by decide

theorem nib_hi (c : UInt8) : c.toNat / 16 < 16 := by
  have := c.toNat_lt; omega
theorem nib_lo (c : UInt8) : c.toNat % 16 < 16 := by omega

theorem byte_of_nibbles (c : UInt8) : UInt8.ofNat (c.toNat / 16 * 16 + c.toNat % 16) = c := by
  rw [Nat.div_add_mod']; simp

theorem byte_of_nibbles' (c : UInt8) : UInt8.ofNat (c.toNat / 16) * 16 + UInt8.ofNat (c.toNat % 16) = c := by
  have := byte_of_nibbles c
  simpa using this

theorem queryPiece_cases (c : UInt8) :
    (c = 32 ∧ queryPiece c = [43]) ∨
    (c ≠ 32 ∧ shouldEscapeQuery c = true ∧ queryPiece c = [37, hexUpper (c.toNat / 16), hexUpper (c.toNat % 16)]) ∨
    (c ≠ 32 ∧ shouldEscapeQuery c = false ∧ queryPiece c = [c]) := by
  by_cases h : c = 32
  · subst h; left; simp [queryPiece]
  · right
    cases hs : shouldEscapeQuery c
    · right; simp [queryPiece, h, hs]
    · left; simp [queryPiece, h, hs]

set_option maxRecDepth 8000 in
theorem unreserved_of_not_should (c : UInt8) (h : shouldEscapeQuery c = false) : isUnreserved c = true := by
  revert c
  apply Bytes.forall_byte
  decide

theorem unesc_query_piece (c : UInt8) (t : Bytes) :
    queryUnescape (queryPiece c ++ t) = (queryUnescape t).map (c :: ·) := by
  rcases queryPiece_cases c with ⟨rfl, h⟩ | ⟨_, _, h⟩ | ⟨h32, hs, h⟩ <;> rw [h]
  · cases ht : queryUnescape t <;> simp [queryUnescape, ht]
  · have h1 := hexDigitVal_hexUpper ⟨c.toNat / 16, nib_hi c⟩
    have h2 := hexDigitVal_hexUpper ⟨c.toNat % 16, nib_lo c⟩
    simp only at h1 h2
    cases ht : queryUnescape t <;> simp [queryUnescape, h1, h2, ht, byte_of_nibbles']
  · have hu := unreserved_of_not_should c hs
    have h37 : c ≠ 37 := by rintro rfl; revert hu; decide
    have h43 : c ≠ 43 := by rintro rfl; revert hu; decide
    cases ht : queryUnescape t <;> simp [queryUnescape, h37, h43, ht]

theorem urlSafe_append (a b : Bytes) : urlSafe (a ++ b) = (urlSafe a && urlSafe b) := by
  simp [urlSafe]

theorem urlSafe_piece (c : UInt8) : urlSafe (queryPiece c) = true := by
  rcases queryPiece_cases c with ⟨rfl, h⟩ | ⟨_, _, h⟩ | ⟨h32, hs, h⟩ <;> rw [h]
  · decide
  · have h1 := hexUpper_safe ⟨c.toNat / 16, nib_hi c⟩
    have h2 := hexUpper_safe ⟨c.toNat % 16, nib_lo c⟩
    simp only at h1 h2
    simp [urlSafe, h1, h2]
  · simp [urlSafe, unreserved_of_not_should c hs]

theorem queryEscape_urlSafe (s : Bytes) : urlSafe (queryEscape s) = true := by
  induction s with
  | nil => rfl
  | cons c r ih => rw [queryEscape, urlSafe_append, urlSafe_piece, ih]; rfl

theorem queryUnescape_queryEscape (s : Bytes) : queryUnescape (queryEscape s) = some s := by
  induction s with
  | nil => rfl
  | cons c r ih => rw [queryEscape, unesc_query_piece, ih]; rfl

theorem urlSafe_iff (s : Bytes) :
    urlSafe s = true ↔ ∀ b ∈ s, isUnreserved b = true ∨ b = 43 ∨ b = 37 := by
  simp [urlSafe, or_assoc]

end SoyVerif.Lemmas.EscapeQuery
