/-
  The builtin functions of the interpreter model (Model/Eval `applyFunc`) against the specification's
  (`Spec.Eval.applyFn`), on related arguments: isNonnull, length, strContains, hasData, range.
-/
import SoyVerif.Lemmas.RangeRefine

namespace SoyVerif.Refine
open SoyVerif SoyVerif.Model SoyVerif.Model.Eval
open SoyVerif.Spec.Eval (Val Out)

/-- the arity check of evalFunc on the number of evaluated arguments -/
def arityOk (name : Bytes) (len : Nat) : Bool :=
  match funcArities name with
  | some ar => ar.contains len
  | none => false

/-- a builtin on related arguments: where the specification gives a value the call passes the arity check
    and the interpreter computes the same value; where it gives an error the interpreter fails (in the arity
    check or in the function) -/
def FnAgree (name : Bytes) (mvs : List Value) (next : Nat) : Prop :=
  (∀ v, Spec.Eval.applyFn name (absL mvs) = .val v →
    arityOk name mvs.length = true ∧ ∃ mv n', applyFunc name mvs next = .ok mv n' ∧ absV mv = v) ∧
  (Spec.Eval.applyFn name (absL mvs) = .error → arityOk name mvs.length = false ∨ applyFunc name mvs next = .err)

theorem isPrefix_take : ∀ (sub l : Bytes), isPrefix sub l = (decide (sub.length ≤ l.length) && (l.take sub.length == sub))
  | [], l => by simp [isPrefix]
  | _ :: _, [] => by simp [isPrefix]
  | a :: as, b :: bs => by
    simp only [isPrefix, isPrefix_take as bs, List.length_cons, List.take_succ_cons]
    by_cases hab : a = b
    · subst hab; simp
    · have h1 : (a == b) = false := by simpa using hab
      have h2 : ¬ (b = a) := fun e => hab e.symm
      simp [h1, h2]

theorem contains_eq : ∀ (a sub : Bytes), Spec.Eval.containsB a sub = contains a sub
  | [], sub => rfl
  | b :: r, sub => by
    rw [Spec.Eval.containsB, contains, contains_eq r sub, isPrefix_take]

theorem nonnull_agree (mvs : List Value) (next : Nat) : FnAgree fIsNonnull mvs next := by
  rcases mvs with _ | ⟨a, _ | ⟨b, r⟩⟩
  · simp [FnAgree, absL, Spec.Eval.applyFn, applyFunc, arityOk, funcArities, fIsNonnull, Spec.Eval.nIsNonnull]
  · cases a <;> simp [FnAgree, absL, absV, Spec.Eval.applyFn, applyFunc, arityOk, funcArities, fIsNonnull, Spec.Eval.nIsNonnull, isNullish]
  · simp [FnAgree, absL, Spec.Eval.applyFn, applyFunc, arityOk, funcArities, fIsNonnull, Spec.Eval.nIsNonnull]

theorem hasData_agree (mvs : List Value) (next : Nat) : FnAgree fHasData mvs next := by
  rcases mvs with _ | ⟨a, r⟩ <;>
    simp [FnAgree, absL, absV, Spec.Eval.applyFn, applyFunc, arityOk, funcArities, fHasData, Spec.Eval.nHasData, Spec.Eval.nIsNonnull,
      Spec.Eval.nLength, Spec.Eval.nKeys, Spec.Eval.nAugmentMap, Spec.Eval.nRound, Spec.Eval.nFloor, Spec.Eval.nCeiling, Spec.Eval.nMin,
      Spec.Eval.nMax, Spec.Eval.nStrContains, Spec.Eval.nRange, fIsNonnull, fLength, fKeys, fAugmentMap, fRound, fFloor, fCeiling, fMin, fMax,
      fStrContains, fRange, fRandomInt]

theorem strContains_agree (mvs : List Value) (next : Nat) : FnAgree fStrContains mvs next := by
  rcases mvs with _ | ⟨a, _ | ⟨b, _ | ⟨c, r⟩⟩⟩
  · simp [FnAgree, absL, Spec.Eval.applyFn, applyFunc, arityOk, funcArities, fStrContains, Spec.Eval.nStrContains, Spec.Eval.nIsNonnull,
      Spec.Eval.nLength, Spec.Eval.nKeys, Spec.Eval.nAugmentMap, Spec.Eval.nRound, Spec.Eval.nFloor, Spec.Eval.nCeiling, Spec.Eval.nMin,
      Spec.Eval.nMax, fIsNonnull, fLength, fKeys, fAugmentMap, fRound, fFloor, fCeiling, fMin, fMax, fRandomInt]
  · cases a <;> simp [FnAgree, absL, absV, Spec.Eval.applyFn, applyFunc, arityOk, funcArities, fStrContains, Spec.Eval.nStrContains, Spec.Eval.nIsNonnull,
      Spec.Eval.nLength, Spec.Eval.nKeys, Spec.Eval.nAugmentMap, Spec.Eval.nRound, Spec.Eval.nFloor, Spec.Eval.nCeiling, Spec.Eval.nMin,
      Spec.Eval.nMax, fIsNonnull, fLength, fKeys, fAugmentMap, fRound, fFloor, fCeiling, fMin, fMax, fRandomInt]
  · cases a <;> cases b <;> simp [FnAgree, absL, absV, Spec.Eval.applyFn, applyFunc, arityOk, funcArities, fStrContains, Spec.Eval.nStrContains, Spec.Eval.nIsNonnull,
      Spec.Eval.nLength, Spec.Eval.nKeys, Spec.Eval.nAugmentMap, Spec.Eval.nRound, Spec.Eval.nFloor, Spec.Eval.nCeiling, Spec.Eval.nMin,
      Spec.Eval.nMax, fIsNonnull, fLength, fKeys, fAugmentMap, fRound, fFloor, fCeiling, fMin, fMax, fRandomInt, contains_eq]
  · simp [FnAgree, absL, Spec.Eval.applyFn, applyFunc, arityOk, funcArities, fStrContains, Spec.Eval.nStrContains, Spec.Eval.nIsNonnull,
      Spec.Eval.nLength, Spec.Eval.nKeys, Spec.Eval.nAugmentMap, Spec.Eval.nRound, Spec.Eval.nFloor, Spec.Eval.nCeiling, Spec.Eval.nMin,
      Spec.Eval.nMax, fIsNonnull, fLength, fKeys, fAugmentMap, fRound, fFloor, fCeiling, fMin, fMax, fRandomInt]

theorem length_agree (mvs : List Value) (next : Nat) : FnAgree fLength mvs next := by
  rcases mvs with _ | ⟨a, _ | ⟨b, r⟩⟩
  · simp [FnAgree, absL, Spec.Eval.applyFn, applyFunc, arityOk, funcArities, fLength, Spec.Eval.nLength, Spec.Eval.nIsNonnull, fIsNonnull]
  · cases a <;> simp [FnAgree, absL, absV, Spec.Eval.applyFn, applyFunc, arityOk, funcArities, fLength, Spec.Eval.nLength, Spec.Eval.nIsNonnull, fIsNonnull]
    rename_i id xs
    refine ⟨fun v hv => ?_, fun h => ?_⟩
    · simp only [Spec.Eval.intRes] at hv
      split at hv
      · rename_i hin
        simp only [Out.val.injEq] at hv
        rw [← hv, absL_len]
        have := (inI64_iff _).mp hin
        rw [absL_len] at this
        simp
        exact bmod_id this.1 this.2
      · simp at hv
    · simp only [Spec.Eval.intRes] at h
      split at h <;> simp at h
  · simp [FnAgree, absL, Spec.Eval.applyFn, applyFunc, arityOk, funcArities, fLength, Spec.Eval.nLength, Spec.Eval.nIsNonnull, fIsNonnull]

theorem range_arity (vs : List Val) (h : ¬ ([1, 2, 3].contains vs.length = true)) :
    Spec.Eval.applyFn Spec.Eval.nRange vs = .error := by
  rcases vs with _ | ⟨a, _ | ⟨b, _ | ⟨c, _ | ⟨d, r⟩⟩⟩⟩
  · simp [Spec.Eval.applyFn, Spec.Eval.nRange, Spec.Eval.nIsNonnull, Spec.Eval.nLength, Spec.Eval.nKeys, Spec.Eval.nAugmentMap, Spec.Eval.nRound,
      Spec.Eval.nFloor, Spec.Eval.nCeiling, Spec.Eval.nMin, Spec.Eval.nMax, Spec.Eval.nStrContains]
  · simp at h
  · simp at h
  · simp at h
  · simp [Spec.Eval.applyFn, Spec.Eval.nRange, Spec.Eval.nIsNonnull, Spec.Eval.nLength, Spec.Eval.nKeys, Spec.Eval.nAugmentMap, Spec.Eval.nRound,
      Spec.Eval.nFloor, Spec.Eval.nCeiling, Spec.Eval.nMin, Spec.Eval.nMax, Spec.Eval.nStrContains]

theorem range_agree (mvs : List Value) (next : Nat) : FnAgree fRange mvs next := by
  obtain ⟨h1, h2⟩ := range_apply mvs next
  have hn : fRange = Spec.Eval.nRange := rfl
  refine ⟨fun v hv => ?_, fun h => Or.inr (h2 (hn ▸ h))⟩
  rw [hn] at hv
  obtain ⟨id, xs, n', ha, hv', _⟩ := h1 v hv
  refine ⟨?_, .list id xs, n', ha, by rw [hv']; rfl⟩
  apply Classical.byContradiction
  intro hc
  have : ¬ ([1, 2, 3].contains (absL mvs).length = true) := by
    rw [absL_len]; simpa [arityOk, funcArities, fRange, fIsNonnull, fLength, fKeys, fAugmentMap, fRound, fFloor, fCeiling, fMin, fMax,
      fRandomInt, fStrContains] using hc
  rw [range_arity _ this] at hv
  simp at hv

/-- the builtins covered by the refinement theorem -/
def fnOk (name : Bytes) : Bool :=
  name == fIsNonnull || name == fLength || name == fStrContains || name == fHasData || name == fRange

theorem fn_agree (name : Bytes) (h : fnOk name = true) (mvs : List Value) (next : Nat) : FnAgree name mvs next := by
  simp only [fnOk, Bool.or_eq_true, beq_iff_eq] at h
  rcases h with (((rfl | rfl) | rfl) | rfl) | rfl
  · exact nonnull_agree mvs next
  · exact length_agree mvs next
  · exact strContains_agree mvs next
  · exact hasData_agree mvs next
  · exact range_agree mvs next

theorem fnOk_notLoop (name : Bytes) (h : fnOk name = true) : isLoopFunc name = false ∧ Spec.Eval.isLoopFn name = false := by
  simp only [fnOk, Bool.or_eq_true, beq_iff_eq] at h
  rcases h with (((rfl | rfl) | rfl) | rfl) | rfl <;> exact ⟨by decide, by decide⟩

theorem evalArgs_len {m : EEnv} : ∀ (args : ExprList) (n : Nat) (mvs : List Value) (n' : Nat),
    evalArgs m args n = some (mvs, n') → mvs.length = args.length
  | .nil, n, mvs, n', h => by rw [evalArgs] at h; simp at h; rw [h.1]; rfl
  | .cons e r, n, mvs, n', h => by
    rw [evalArgs] at h
    split at h
    · split at h
      · rename_i vs n2 hr
        simp only [Option.some.injEq, Prod.mk.injEq] at h
        rw [← h.1, List.length_cons, evalArgs_len r _ vs n2 hr, ExprList.length]
      · simp at h
    · simp at h

end SoyVerif.Refine
