/-
  The builtin functions of the interpreter model (Model/Eval `applyFunc`) against the specification's
  (`Spec.Eval.applyFn`), on related arguments: isNonnull, length, strContains, hasData, range.
-/
import SoyVerif.Lemmas.RangeRefine
import SoyVerif.Lemmas.F64Floor

namespace SoyVerif.Refine
open SoyVerif SoyVerif.Model SoyVerif.Model.Eval
open SoyVerif.Spec.Eval (Val Out)

/-- the arity check of evalFunc on the number of evaluated arguments -/
def arityOk (name : Bytes) (len : Nat) : Bool :=
  match funcArities name with
  | some ar => ar.contains len
  | none => false

/-- a builtin on related arguments: where the specification gives a value the call passes the arity check
    and the interpreter computes the same value; where it gives an error the interpreter fails (in the arity
    check or in the function) -/
def FnAgree (name : Bytes) (mvs : List Value) (next : Nat) : Prop :=
  (∀ v, Spec.Eval.applyFn name (absL mvs) = .val v →
    arityOk name mvs.length = true ∧ ∃ mv n', applyFunc name mvs next = .ok mv n' ∧ absV mv = v) ∧
  (Spec.Eval.applyFn name (absL mvs) = .error → arityOk name mvs.length = false ∨ applyFunc name mvs next = .err)

theorem isPrefix_take : ∀ (sub l : Bytes), isPrefix sub l = (decide (sub.length ≤ l.length) && (l.take sub.length == sub))
  | [], l => by simp [isPrefix]
  | _ :: _, [] => by simp [isPrefix]
  | a :: as, b :: bs => by
    simp only [isPrefix, isPrefix_take as bs, List.length_cons, List.take_succ_cons]
    by_cases hab : a = b
    · subst hab; simp
    · have h1 : (a == b) = false := by simpa using hab
      have h2 : ¬ (b = a) := fun e => hab e.symm
      simp [h1, h2]

theorem contains_eq : ∀ (a sub : Bytes), Spec.Eval.containsB a sub = contains a sub
  | [], sub => rfl
  | b :: r, sub => by
    rw [Spec.Eval.containsB, contains, contains_eq r sub, isPrefix_take]

theorem nonnull_agree (mvs : List Value) (next : Nat) : FnAgree fIsNonnull mvs next := by
  rcases mvs with _ | ⟨a, _ | ⟨b, r⟩⟩
  · simp [FnAgree, absL, Spec.Eval.applyFn, applyFunc, arityOk, funcArities, fIsNonnull, Spec.Eval.nIsNonnull]
  · cases a <;> simp [FnAgree, absL, absV, Spec.Eval.applyFn, applyFunc, arityOk, funcArities, fIsNonnull, Spec.Eval.nIsNonnull, isNullish]
  · simp [FnAgree, absL, Spec.Eval.applyFn, applyFunc, arityOk, funcArities, fIsNonnull, Spec.Eval.nIsNonnull]

theorem hasData_agree (mvs : List Value) (next : Nat) : FnAgree fHasData mvs next := by
  rcases mvs with _ | ⟨a, r⟩ <;>
    simp [FnAgree, absL, absV, Spec.Eval.applyFn, applyFunc, arityOk, funcArities, fHasData, Spec.Eval.nHasData, Spec.Eval.nIsNonnull,
      Spec.Eval.nLength, Spec.Eval.nKeys, Spec.Eval.nAugmentMap, Spec.Eval.nRound, Spec.Eval.nFloor, Spec.Eval.nCeiling, Spec.Eval.nMin,
      Spec.Eval.nMax, Spec.Eval.nStrContains, Spec.Eval.nRange, fIsNonnull, fLength, fKeys, fAugmentMap, fRound, fFloor, fCeiling, fMin, fMax,
      fStrContains, fRange, fRandomInt]

theorem strContains_agree (mvs : List Value) (next : Nat) : FnAgree fStrContains mvs next := by
  rcases mvs with _ | ⟨a, _ | ⟨b, _ | ⟨c, r⟩⟩⟩
  · simp [FnAgree, absL, Spec.Eval.applyFn, applyFunc, arityOk, funcArities, fStrContains, Spec.Eval.nStrContains, Spec.Eval.nIsNonnull,
      Spec.Eval.nLength, Spec.Eval.nKeys, Spec.Eval.nAugmentMap, Spec.Eval.nRound, Spec.Eval.nFloor, Spec.Eval.nCeiling, Spec.Eval.nMin,
      Spec.Eval.nMax, fIsNonnull, fLength, fKeys, fAugmentMap, fRound, fFloor, fCeiling, fMin, fMax, fRandomInt]
  · cases a <;> simp [FnAgree, absL, absV, Spec.Eval.applyFn, applyFunc, arityOk, funcArities, fStrContains, Spec.Eval.nStrContains, Spec.Eval.nIsNonnull,
      Spec.Eval.nLength, Spec.Eval.nKeys, Spec.Eval.nAugmentMap, Spec.Eval.nRound, Spec.Eval.nFloor, Spec.Eval.nCeiling, Spec.Eval.nMin,
      Spec.Eval.nMax, fIsNonnull, fLength, fKeys, fAugmentMap, fRound, fFloor, fCeiling, fMin, fMax, fRandomInt]
  · cases a <;> cases b <;> simp [FnAgree, absL, absV, Spec.Eval.applyFn, applyFunc, arityOk, funcArities, fStrContains, Spec.Eval.nStrContains, Spec.Eval.nIsNonnull,
      Spec.Eval.nLength, Spec.Eval.nKeys, Spec.Eval.nAugmentMap, Spec.Eval.nRound, Spec.Eval.nFloor, Spec.Eval.nCeiling, Spec.Eval.nMin,
      Spec.Eval.nMax, fIsNonnull, fLength, fKeys, fAugmentMap, fRound, fFloor, fCeiling, fMin, fMax, fRandomInt, contains_eq]
  · simp [FnAgree, absL, Spec.Eval.applyFn, applyFunc, arityOk, funcArities, fStrContains, Spec.Eval.nStrContains, Spec.Eval.nIsNonnull,
      Spec.Eval.nLength, Spec.Eval.nKeys, Spec.Eval.nAugmentMap, Spec.Eval.nRound, Spec.Eval.nFloor, Spec.Eval.nCeiling, Spec.Eval.nMin,
      Spec.Eval.nMax, fIsNonnull, fLength, fKeys, fAugmentMap, fRound, fFloor, fCeiling, fMin, fMax, fRandomInt]

theorem length_agree (mvs : List Value) (next : Nat) : FnAgree fLength mvs next := by
  rcases mvs with _ | ⟨a, _ | ⟨b, r⟩⟩
  · simp [FnAgree, absL, Spec.Eval.applyFn, applyFunc, arityOk, funcArities, fLength, Spec.Eval.nLength, Spec.Eval.nIsNonnull, fIsNonnull]
  · cases a <;> simp [FnAgree, absL, absV, Spec.Eval.applyFn, applyFunc, arityOk, funcArities, fLength, Spec.Eval.nLength, Spec.Eval.nIsNonnull, fIsNonnull]
    rename_i id xs
    refine ⟨fun v hv => ?_, fun h => ?_⟩
    · simp only [Spec.Eval.intRes] at hv
      split at hv
      · rename_i hin
        simp only [Out.val.injEq] at hv
        rw [← hv, absL_len]
        have := (inI64_iff _).mp hin
        rw [absL_len] at this
        simp
        exact bmod_id this.1 this.2
      · simp at hv
    · simp only [Spec.Eval.intRes] at h
      split at h <;> simp at h
  · simp [FnAgree, absL, Spec.Eval.applyFn, applyFunc, arityOk, funcArities, fLength, Spec.Eval.nLength, Spec.Eval.nIsNonnull, fIsNonnull]

theorem range_arity (vs : List Val) (h : ¬ ([1, 2, 3].contains vs.length = true)) :
    Spec.Eval.applyFn Spec.Eval.nRange vs = .error := by
  rcases vs with _ | ⟨a, _ | ⟨b, _ | ⟨c, _ | ⟨d, r⟩⟩⟩⟩
  · simp [Spec.Eval.applyFn, Spec.Eval.nRange, Spec.Eval.nIsNonnull, Spec.Eval.nLength, Spec.Eval.nKeys, Spec.Eval.nAugmentMap, Spec.Eval.nRound,
      Spec.Eval.nFloor, Spec.Eval.nCeiling, Spec.Eval.nMin, Spec.Eval.nMax, Spec.Eval.nStrContains]
  · simp at h
  · simp at h
  · simp at h
  · simp [Spec.Eval.applyFn, Spec.Eval.nRange, Spec.Eval.nIsNonnull, Spec.Eval.nLength, Spec.Eval.nKeys, Spec.Eval.nAugmentMap, Spec.Eval.nRound,
      Spec.Eval.nFloor, Spec.Eval.nCeiling, Spec.Eval.nMin, Spec.Eval.nMax, Spec.Eval.nStrContains]

theorem range_agree (mvs : List Value) (next : Nat) : FnAgree fRange mvs next := by
  obtain ⟨h1, h2⟩ := range_apply mvs next
  have hn : fRange = Spec.Eval.nRange := rfl
  refine ⟨fun v hv => ?_, fun h => Or.inr (h2 (hn ▸ h))⟩
  rw [hn] at hv
  obtain ⟨id, xs, n', ha, hv', _⟩ := h1 v hv
  refine ⟨?_, .list id xs, n', ha, by rw [hv']; rfl⟩
  apply Classical.byContradiction
  intro hc
  have : ¬ ([1, 2, 3].contains (absL mvs).length = true) := by
    rw [absL_len]; simpa [arityOk, funcArities, fRange, fIsNonnull, fLength, fKeys, fAugmentMap, fRound, fFloor, fCeiling, fMin, fMax,
      fRandomInt, fStrContains] using hc
  rw [range_arity _ this] at hv
  simp at hv

/-! ### min / max -/

theorem F64.mag_lt (x : F64) : x.mag < F64.two63 := Nat.mod_lt _ (by decide)

theorem F64.bits_eq (x : F64) : x.bits.toNat = (if x.sign then F64.two63 else 0) + x.mag := by
  have hlt : x.bits.toNat < 2 ^ 64 := x.bits.toNat_lt
  simp only [F64.sign, F64.mag, F64.two63] at *
  by_cases h : 9223372036854775808 ≤ x.bits.toNat
  · simp only [h, decide_true, if_true]; omega
  · simp only [h, decide_false, Bool.false_eq_true, if_false]; omega

/-- a value is its sign and magnitude -/
theorem F64.eq_make (x : F64) : x = F64.make x.sign x.mag := by
  cases x with
  | mk b =>
    simp only [F64.make, F64.ofNatBits]
    congr 1
    apply UInt64.toNat_inj.mp
    have := F64.bits_eq ⟨b⟩
    simp only at this
    rw [← this]
    simp

theorem F64.eq_inf (x : F64) (h : x.isInf = true) : x = F64.inf x.sign := by
  have hm : x.mag = F64.infMag := by simpa [F64.isInf] using h
  have := F64.eq_make x
  rw [hm] at this
  exact this

theorem F64.not_nan_mag (x : F64) (h : x.isNaN = false) : x.mag ≤ F64.infMag := by
  simpa [F64.isNaN] using h

theorem F64.sign_inf (s : Bool) : (F64.inf s).sign = s := by cases s <;> decide
theorem F64.mag_inf (s : Bool) : (F64.inf s).mag = F64.infMag := by cases s <;> decide

/-- `math.Min` on two non-NaN values that are not both zero is the IEEE-smaller one -/
theorem f64Min_lt (x y : F64) (hx : x.isNaN = false) (hy : y.isNaN = false) (hz : (x.isZero && y.isZero) = false) :
    f64Min x y = if F64.lt x y then x else y := by
  have mx := F64.not_nan_mag x hx
  have my := F64.not_nan_mag y hy
  unfold f64Min
  by_cases h1 : (x.isInf && x.sign) = true
  · simp only [h1, Bool.true_or, if_true]
    simp only [Bool.and_eq_true] at h1
    have ex := F64.eq_inf x h1.1
    rw [h1.2] at ex
    have kx : x.key = -(F64.infMag : Int) := by rw [ex]; decide
    by_cases hlt : F64.lt x y = true
    · simp only [hlt, if_true]; exact ex.symm
    · simp only [hlt, Bool.false_eq_true, if_false]
      -- y is -inf too
      simp only [F64.lt, hx, hy, Bool.not_false, Bool.true_and, decide_eq_true_eq, kx] at hlt
      have hys : y.sign = true := by
        apply Classical.byContradiction; intro hs
        have : y.sign = false := by simpa using hs
        simp only [F64.key, this, Bool.false_eq_true, if_false] at hlt
        have : (0 : Int) ≤ y.mag := Int.natCast_nonneg _
        have : (0 : Int) < F64.infMag := by decide
        omega
      simp only [F64.key, hys, if_true] at hlt
      have hym : y.mag = F64.infMag := by omega
      have ey := F64.eq_make y
      rw [hys, hym] at ey
      exact ey.symm
  · by_cases h2 : (y.isInf && y.sign) = true
    · simp only [h1, h2, Bool.false_or, if_true]
      simp only [Bool.and_eq_true] at h2
      have ey := F64.eq_inf y h2.1
      rw [h2.2] at ey
      have ky : y.key = -(F64.infMag : Int) := by rw [ey]; decide
      have hlt : F64.lt x y = false := by
        simp only [F64.lt, hx, hy, Bool.not_false, Bool.true_and, decide_eq_false_iff_not, ky]
        simp only [F64.key]
        split <;> omega
      simp only [hlt, Bool.false_eq_true, if_false]
      exact ey.symm
    · simp only [h1, h2, Bool.false_or, Bool.false_eq_true, if_false, hx, hy, hz]

/-- `math.Max`, likewise -/
theorem f64Max_lt (x y : F64) (hx : x.isNaN = false) (hy : y.isNaN = false) (hz : (x.isZero && y.isZero) = false) :
    f64Max x y = if F64.lt y x then x else y := by
  have mx := F64.not_nan_mag x hx
  have my := F64.not_nan_mag y hy
  unfold f64Max
  by_cases h1 : (x.isInf && !x.sign) = true
  · simp only [h1, Bool.true_or, if_true]
    simp only [Bool.and_eq_true, Bool.not_eq_true'] at h1
    have ex := F64.eq_inf x h1.1
    rw [h1.2] at ex
    have kx : x.key = (F64.infMag : Int) := by rw [ex]; decide
    by_cases hlt : F64.lt y x = true
    · simp only [hlt, if_true]; exact ex.symm
    · simp only [hlt, Bool.false_eq_true, if_false]
      simp only [F64.lt, hx, hy, Bool.not_false, Bool.true_and, decide_eq_true_eq, kx] at hlt
      have hys : y.sign = false := by
        apply Classical.byContradiction; intro hs
        have : y.sign = true := by simpa using hs
        simp only [F64.key, this, if_true] at hlt
        have : (0 : Int) ≤ y.mag := Int.natCast_nonneg _
        have : (0 : Int) < F64.infMag := by decide
        omega
      simp only [F64.key, hys, Bool.false_eq_true, if_false] at hlt
      have hym : y.mag = F64.infMag := by omega
      have ey := F64.eq_make y
      rw [hys, hym] at ey
      exact ey.symm
  · by_cases h2 : (y.isInf && !y.sign) = true
    · simp only [h1, h2, Bool.false_or, if_true]
      simp only [Bool.and_eq_true, Bool.not_eq_true'] at h2
      have ey := F64.eq_inf y h2.1
      rw [h2.2] at ey
      have ky : y.key = (F64.infMag : Int) := by rw [ey]; decide
      have hlt : F64.lt y x = false := by
        simp only [F64.lt, hx, hy, Bool.not_false, Bool.true_and, decide_eq_false_iff_not, ky]
        simp only [F64.key]
        split <;> omega
      simp only [hlt, Bool.false_eq_true, if_false]
      exact ey.symm
    · simp only [h1, h2, Bool.false_or, Bool.false_eq_true, if_false, hx, hy, hz]

theorem minF (x y : F64) :
    (∀ v, (if (x.isNaN = true ∨ y.isNaN = true) ∨ x.isZero = true ∧ y.isZero = true then (Out.unspec : Out Val)
        else Out.val (Val.float (if F64.lt x y = true then x else y))) = .val v → Val.float (f64Min x y) = v) ∧
    ¬ ((if (x.isNaN = true ∨ y.isNaN = true) ∨ x.isZero = true ∧ y.isZero = true then (Out.unspec : Out Val)
        else Out.val (Val.float (if F64.lt x y = true then x else y))) = .error) := by
  by_cases h : (x.isNaN = true ∨ y.isNaN = true) ∨ x.isZero = true ∧ y.isZero = true
  · simp [h]
  · simp only [h, if_false]
    have h : (x.isNaN = false ∧ y.isNaN = false) ∧ (x.isZero && y.isZero) = false := by
      simp only [not_or, Bool.not_eq_true, not_and] at h
      refine ⟨h.1, ?_⟩
      cases hx : x.isZero <;> simp [hx] at h ⊢
      exact h.2
    refine ⟨fun v hv => ?_, fun hv => by simp at hv⟩
    simp only [Out.val.injEq] at hv
    rw [f64Min_lt x y h.1.1 h.1.2 h.2]; exact hv

theorem maxF (x y : F64) :
    (∀ v, (if (x.isNaN = true ∨ y.isNaN = true) ∨ x.isZero = true ∧ y.isZero = true then (Out.unspec : Out Val)
        else Out.val (Val.float (if F64.lt y x = true then x else y))) = .val v → Val.float (f64Max x y) = v) ∧
    ¬ ((if (x.isNaN = true ∨ y.isNaN = true) ∨ x.isZero = true ∧ y.isZero = true then (Out.unspec : Out Val)
        else Out.val (Val.float (if F64.lt y x = true then x else y))) = .error) := by
  by_cases h : (x.isNaN = true ∨ y.isNaN = true) ∨ x.isZero = true ∧ y.isZero = true
  · simp [h]
  · simp only [h, if_false]
    have h : (x.isNaN = false ∧ y.isNaN = false) ∧ (x.isZero && y.isZero) = false := by
      simp only [not_or, Bool.not_eq_true, not_and] at h
      refine ⟨h.1, ?_⟩
      cases hx : x.isZero <;> simp [hx] at h ⊢
      exact h.2
    refine ⟨fun v hv => ?_, fun hv => by simp at hv⟩
    simp only [Out.val.injEq] at hv
    rw [f64Max_lt x y h.1.1 h.1.2 h.2]; exact hv

theorem min_agree (mvs : List Value) (next : Nat) : FnAgree fMin mvs next := by
  rcases mvs with _ | ⟨a, _ | ⟨b, _ | ⟨c, r⟩⟩⟩
  · simp [FnAgree, absL, Spec.Eval.applyFn, applyFunc, arityOk, funcArities, fMin, Spec.Eval.nMin, Spec.Eval.nMax, Spec.Eval.nIsNonnull,
      Spec.Eval.nLength, Spec.Eval.nKeys, Spec.Eval.nAugmentMap, Spec.Eval.nRound, Spec.Eval.nFloor, Spec.Eval.nCeiling,
      fIsNonnull, fLength, fKeys, fAugmentMap, fRound, fFloor, fCeiling]
  · cases a <;> simp [FnAgree, absL, absV, Spec.Eval.applyFn, applyFunc, arityOk, funcArities, fMin, Spec.Eval.nMin, Spec.Eval.nMax, Spec.Eval.nIsNonnull,
      Spec.Eval.nLength, Spec.Eval.nKeys, Spec.Eval.nAugmentMap, Spec.Eval.nRound, Spec.Eval.nFloor, Spec.Eval.nCeiling,
      fIsNonnull, fLength, fKeys, fAugmentMap, fRound, fFloor, fCeiling]
  · cases a <;> cases b <;> simp [FnAgree, absL, absV, Spec.Eval.applyFn, applyFunc, arityOk, funcArities, fMin, Spec.Eval.nMin, Spec.Eval.nMax, Spec.Eval.nIsNonnull,
      Spec.Eval.nLength, Spec.Eval.nKeys, Spec.Eval.nAugmentMap, Spec.Eval.nRound, Spec.Eval.nFloor, Spec.Eval.nCeiling,
      fIsNonnull, fLength, fKeys, fAugmentMap, fRound, fFloor, fCeiling, Spec.Eval.toF, toFloat, F64.ofInt64]
    all_goals first
      | exact minF _ _
      | (rename_i x y
         by_cases h : x < y
         · have : x.toInt < y.toInt := Int64.lt_iff_toInt_lt.mp h
           simp [h, this, absV]
         · have : ¬ x.toInt < y.toInt := fun h' => h (Int64.lt_iff_toInt_lt.mpr h')
           simp [h, this, absV])
  · simp [FnAgree, absL, Spec.Eval.applyFn, applyFunc, arityOk, funcArities, fMin, Spec.Eval.nMin, Spec.Eval.nMax, Spec.Eval.nIsNonnull,
      Spec.Eval.nLength, Spec.Eval.nKeys, Spec.Eval.nAugmentMap, Spec.Eval.nRound, Spec.Eval.nFloor, Spec.Eval.nCeiling,
      fIsNonnull, fLength, fKeys, fAugmentMap, fRound, fFloor, fCeiling]

theorem max_agree (mvs : List Value) (next : Nat) : FnAgree fMax mvs next := by
  rcases mvs with _ | ⟨a, _ | ⟨b, _ | ⟨c, r⟩⟩⟩
  · simp [FnAgree, absL, Spec.Eval.applyFn, applyFunc, arityOk, funcArities, fMax, fMin, Spec.Eval.nMin, Spec.Eval.nMax, Spec.Eval.nIsNonnull,
      Spec.Eval.nLength, Spec.Eval.nKeys, Spec.Eval.nAugmentMap, Spec.Eval.nRound, Spec.Eval.nFloor, Spec.Eval.nCeiling,
      fIsNonnull, fLength, fKeys, fAugmentMap, fRound, fFloor, fCeiling]
  · cases a <;> simp [FnAgree, absL, absV, Spec.Eval.applyFn, applyFunc, arityOk, funcArities, fMax, fMin, Spec.Eval.nMin, Spec.Eval.nMax, Spec.Eval.nIsNonnull,
      Spec.Eval.nLength, Spec.Eval.nKeys, Spec.Eval.nAugmentMap, Spec.Eval.nRound, Spec.Eval.nFloor, Spec.Eval.nCeiling,
      fIsNonnull, fLength, fKeys, fAugmentMap, fRound, fFloor, fCeiling]
  · cases a <;> cases b <;> simp [FnAgree, absL, absV, Spec.Eval.applyFn, applyFunc, arityOk, funcArities, fMax, fMin, Spec.Eval.nMin, Spec.Eval.nMax, Spec.Eval.nIsNonnull,
      Spec.Eval.nLength, Spec.Eval.nKeys, Spec.Eval.nAugmentMap, Spec.Eval.nRound, Spec.Eval.nFloor, Spec.Eval.nCeiling,
      fIsNonnull, fLength, fKeys, fAugmentMap, fRound, fFloor, fCeiling, Spec.Eval.toF, toFloat, F64.ofInt64]
    all_goals first
      | exact maxF _ _
      | (rename_i x y
         by_cases h : y < x
         · have : y.toInt < x.toInt := Int64.lt_iff_toInt_lt.mp h
           simp [h, this, absV]
         · have : ¬ y.toInt < x.toInt := fun h' => h (Int64.lt_iff_toInt_lt.mpr h')
           simp [h, this, absV])
  · simp [FnAgree, absL, Spec.Eval.applyFn, applyFunc, arityOk, funcArities, fMax, fMin, Spec.Eval.nMin, Spec.Eval.nMax, Spec.Eval.nIsNonnull,
      Spec.Eval.nLength, Spec.Eval.nKeys, Spec.Eval.nAugmentMap, Spec.Eval.nRound, Spec.Eval.nFloor, Spec.Eval.nCeiling,
      fIsNonnull, fLength, fKeys, fAugmentMap, fRound, fFloor, fCeiling]

/-! ### keys / augmentMap -/

theorem bytesLe_eq : ∀ (a b : Bytes), Spec.Eval.bytesLe a b = Value.bytesLe a b
  | [], _ => by simp [Spec.Eval.bytesLe, Value.bytesLe]
  | _ :: _, [] => by simp [Spec.Eval.bytesLe, Value.bytesLe]
  | a :: as, b :: bs => by simp only [Spec.Eval.bytesLe, Value.bytesLe, bytesLe_eq as bs]

theorem insertByKey_fst (k : Bytes) : ∀ (l : List (Bytes × Unit)),
    (Spec.Eval.insertByKey (k, ()) l).map (·.1) = Value.insertSorted k (l.map (·.1))
  | [] => rfl
  | y :: ys => by
    simp only [Spec.Eval.insertByKey, Value.insertSorted, List.map_cons, bytesLe_eq]
    split
    · rfl
    · simp only [List.map_cons, insertByKey_fst k ys]

theorem sortByKey_fst : ∀ (l : List Bytes), (Spec.Eval.sortByKey (l.map fun k => (k, ()))).map (·.1) = Value.sortStrings l
  | [] => rfl
  | x :: xs => by
    simp only [List.map_cons, Spec.Eval.sortByKey, Value.sortStrings]
    rw [insertByKey_fst, sortByKey_fst xs]

theorem absK_keys : ∀ (kvs : List (Bytes × Value)), (absK kvs).map (·.1) = kvs.map (·.1)
  | [] => rfl
  | (k, v) :: r => by simp [absK, absK_keys r]

theorem absL_strs : ∀ (l : List Bytes), absL (l.map Value.str) = l.map Val.str
  | [] => rfl
  | x :: r => by simp [absL, absV, absL_strs r]

/-- the keys of a map, sorted, on both sides -/
theorem keys_val (kvs : List (Bytes × Value)) :
    absL ((Value.sortStrings (kvs.map fun kv => kv.1)).map Value.str) =
      (Spec.Eval.sortByKey ((absK kvs).map fun kv => (kv.1, ()))).map fun kv => Val.str kv.1 := by
  rw [absL_strs, ← sortByKey_fst]
  have : ((absK kvs).map fun kv => (kv.1, ())) = (kvs.map fun kv => kv.1).map fun k => (k, ()) := by
    rw [← absK_keys kvs]; simp
  rw [this]
  simp

theorem keys_agree (mvs : List Value) (next : Nat) : FnAgree fKeys mvs next := by
  rcases mvs with _ | ⟨a, _ | ⟨b, r⟩⟩
  · simp [FnAgree, absL, Spec.Eval.applyFn, applyFunc, arityOk, funcArities, fKeys, Spec.Eval.nKeys, Spec.Eval.nIsNonnull, Spec.Eval.nLength,
      fIsNonnull, fLength]
  · cases a <;> simp [FnAgree, absL, absV, Spec.Eval.applyFn, applyFunc, arityOk, funcArities, fKeys, Spec.Eval.nKeys, Spec.Eval.nIsNonnull, Spec.Eval.nLength,
      fIsNonnull, fLength]
    rename_i id kvs
    by_cases he : kvs.isEmpty = true
    · have : kvs = [] := by simpa using he
      subst this
      exact ⟨.list 0 [], ⟨next, by simp⟩, by simp [absV, absL, absK, Spec.Eval.sortByKey]⟩
    · have he' : ¬ kvs = [] := by simpa using he
      refine ⟨.list next ((Value.sortStrings (kvs.map fun kv => kv.1)).map Value.str), ⟨next + 1, by simp only [he', if_false]⟩, ?_⟩
      rw [absV, keys_val]
  · simp [FnAgree, absL, Spec.Eval.applyFn, applyFunc, arityOk, funcArities, fKeys, Spec.Eval.nKeys, Spec.Eval.nIsNonnull, Spec.Eval.nLength,
      fIsNonnull, fLength]

theorem absK_insert : ∀ (kvs : List (Bytes × Value)) (k : Bytes) (v : Value),
    absK (Value.insert kvs k v) = Spec.Eval.insertB (absK kvs) k (absV v)
  | [], k, v => rfl
  | (k', v') :: r, k, v => by
    simp only [Value.insert, absK, Spec.Eval.insertB]
    split
    · rfl
    · simp only [absK, absK_insert r k v]

theorem absK_foldl : ∀ (m : List (Bytes × Value)) (acc : List (Bytes × Value)),
    absK (m.foldl (fun a kv => Value.insert a kv.1 kv.2) acc) =
      (absK m).foldl (fun a kv => Spec.Eval.insertB a kv.1 kv.2) (absK acc)
  | [], acc => rfl
  | (k, v) :: r, acc => by
    simp only [List.foldl_cons, absK]
    rw [absK_foldl r, absK_insert]

theorem augment_agree (mvs : List Value) (next : Nat) : FnAgree fAugmentMap mvs next := by
  rcases mvs with _ | ⟨a, _ | ⟨b, _ | ⟨c, r⟩⟩⟩
  · simp [FnAgree, absL, Spec.Eval.applyFn, applyFunc, arityOk, funcArities, fAugmentMap, Spec.Eval.nAugmentMap, Spec.Eval.nKeys, Spec.Eval.nIsNonnull,
      Spec.Eval.nLength, fIsNonnull, fLength, fKeys]
  · cases a <;> simp [FnAgree, absL, absV, Spec.Eval.applyFn, applyFunc, arityOk, funcArities, fAugmentMap, Spec.Eval.nAugmentMap, Spec.Eval.nKeys, Spec.Eval.nIsNonnull,
      Spec.Eval.nLength, fIsNonnull, fLength, fKeys]
  · cases a <;> cases b <;> simp [FnAgree, absL, absV, Spec.Eval.applyFn, applyFunc, arityOk, funcArities, fAugmentMap, Spec.Eval.nAugmentMap, Spec.Eval.nKeys, Spec.Eval.nIsNonnull,
      Spec.Eval.nLength, fIsNonnull, fLength, fKeys]
    rename_i i1 m1 i2 m2
    simp only [augment, Spec.Eval.augmentSpec]
    rw [absK_foldl, absK_foldl]
    rfl
  · simp [FnAgree, absL, Spec.Eval.applyFn, applyFunc, arityOk, funcArities, fAugmentMap, Spec.Eval.nAugmentMap, Spec.Eval.nKeys, Spec.Eval.nIsNonnull,
      Spec.Eval.nLength, fIsNonnull, fLength, fKeys]

/-! ### floor / ceiling: `int64(math.Floor(x))` is the exact floor of the value (Lemmas/F64Floor.lean) -/

theorem floor_agree (mvs : List Value) (next : Nat) : FnAgree fFloor mvs next := by
  rcases mvs with _ | ⟨a, _ | ⟨b, r⟩⟩
  · simp [FnAgree, absL, absV, Spec.Eval.applyFn, applyFunc, arityOk, funcArities, Spec.Eval.nIsNonnull, Spec.Eval.nLength, Spec.Eval.nKeys, Spec.Eval.nAugmentMap, Spec.Eval.nRound, Spec.Eval.nFloor, Spec.Eval.nCeiling, Spec.Eval.nMin, Spec.Eval.nMax, Spec.Eval.nStrContains, Spec.Eval.nRange, Spec.Eval.nHasData, fIsNonnull, fLength, fKeys, fAugmentMap, fRound, fFloor, fCeiling, fMin, fMax, fStrContains, fRange, fRandomInt, fHasData, toFloat, Spec.Eval.floorSpec]
  · cases a <;> simp [FnAgree, absL, absV, Spec.Eval.applyFn, applyFunc, arityOk, funcArities, Spec.Eval.nIsNonnull, Spec.Eval.nLength, Spec.Eval.nKeys, Spec.Eval.nAugmentMap, Spec.Eval.nRound, Spec.Eval.nFloor, Spec.Eval.nCeiling, Spec.Eval.nMin, Spec.Eval.nMax, Spec.Eval.nStrContains, Spec.Eval.nRange, Spec.Eval.nHasData, fIsNonnull, fLength, fKeys, fAugmentMap, fRound, fFloor, fCeiling, fMin, fMax, fStrContains, fRange, fRandomInt, fHasData, toFloat, Spec.Eval.floorSpec]
    rename_i f
    by_cases hn : f.isNaN = true
    · simp [hn]
    by_cases hi : f.isInf = true
    · simp [hi]
    have hn' : f.isNaN = false := by simpa using hn
    have hi' : f.isInf = false := by simpa using hi
    have hc : ¬ (f.isNaN = true ∨ f.isInf = true) := by simp [hn', hi']
    rw [if_neg hc]
    obtain ⟨t1, t2, t3⟩ := F64.floor_trunc f hn' hi'
    refine ⟨fun v hv => ?_, fun h => ?_⟩
    · simp only [Spec.Eval.intRes] at hv
      split at hv
      · rename_i hin
        simp only [Out.val.injEq] at hv
        rw [← hv]
        have hr := (inI64_iff _).mp hin
        have e : (2 : Int) ^ 63 = 9223372036854775808 := by decide
        rw [e] at hr
        congr 1
        refine F64.toInt64Trunc_of _ _ t1 t2 ?_ hr.1 hr.2
        rw [t3]
      · simp at hv
    · simp only [Spec.Eval.intRes] at h
      split at h <;> simp at h
  · simp [FnAgree, absL, absV, Spec.Eval.applyFn, applyFunc, arityOk, funcArities, Spec.Eval.nIsNonnull, Spec.Eval.nLength, Spec.Eval.nKeys, Spec.Eval.nAugmentMap, Spec.Eval.nRound, Spec.Eval.nFloor, Spec.Eval.nCeiling, Spec.Eval.nMin, Spec.Eval.nMax, Spec.Eval.nStrContains, Spec.Eval.nRange, Spec.Eval.nHasData, fIsNonnull, fLength, fKeys, fAugmentMap, fRound, fFloor, fCeiling, fMin, fMax, fStrContains, fRange, fRandomInt, fHasData, toFloat, Spec.Eval.floorSpec]

theorem ceiling_agree (mvs : List Value) (next : Nat) : FnAgree fCeiling mvs next := by
  rcases mvs with _ | ⟨a, _ | ⟨b, r⟩⟩
  · simp [FnAgree, absL, absV, Spec.Eval.applyFn, applyFunc, arityOk, funcArities, Spec.Eval.nIsNonnull, Spec.Eval.nLength, Spec.Eval.nKeys, Spec.Eval.nAugmentMap, Spec.Eval.nRound, Spec.Eval.nFloor, Spec.Eval.nCeiling, Spec.Eval.nMin, Spec.Eval.nMax, Spec.Eval.nStrContains, Spec.Eval.nRange, Spec.Eval.nHasData, fIsNonnull, fLength, fKeys, fAugmentMap, fRound, fFloor, fCeiling, fMin, fMax, fStrContains, fRange, fRandomInt, fHasData, toFloat, Spec.Eval.floorSpec]
  · cases a <;> simp [FnAgree, absL, absV, Spec.Eval.applyFn, applyFunc, arityOk, funcArities, Spec.Eval.nIsNonnull, Spec.Eval.nLength, Spec.Eval.nKeys, Spec.Eval.nAugmentMap, Spec.Eval.nRound, Spec.Eval.nFloor, Spec.Eval.nCeiling, Spec.Eval.nMin, Spec.Eval.nMax, Spec.Eval.nStrContains, Spec.Eval.nRange, Spec.Eval.nHasData, fIsNonnull, fLength, fKeys, fAugmentMap, fRound, fFloor, fCeiling, fMin, fMax, fStrContains, fRange, fRandomInt, fHasData, toFloat, Spec.Eval.floorSpec]
    rename_i f
    by_cases hn : f.isNaN = true
    · simp [hn]
    by_cases hi : f.isInf = true
    · simp [hi]
    have hn' : f.isNaN = false := by simpa using hn
    have hi' : f.isInf = false := by simpa using hi
    have hc : ¬ (f.isNaN = true ∨ f.isInf = true) := by simp [hn', hi']
    rw [if_neg hc]
    have hce : -((-(Spec.Eval.ratOf f).1) / ((Spec.Eval.ratOf f).2 : Int)) =
        (if (Spec.Eval.ratOf f).fst % ↑(Spec.Eval.ratOf f).snd = 0 then (Spec.Eval.ratOf f).fst / ↑(Spec.Eval.ratOf f).snd
         else (Spec.Eval.ratOf f).fst / ↑(Spec.Eval.ratOf f).snd + 1) := by
      rw [F64.ceil_ediv _ _ (F64.ratOf_den_pos f)]
      simp only [beq_iff_eq]
    rw [← hce]
    obtain ⟨t1, t2, t3⟩ := F64.ceil_trunc f hn' hi'
    refine ⟨fun v hv => ?_, fun h => ?_⟩
    · simp only [Spec.Eval.intRes] at hv
      split at hv
      · rename_i hin
        simp only [Out.val.injEq] at hv
        rw [← hv]
        have hr := (inI64_iff _).mp hin
        have e : (2 : Int) ^ 63 = 9223372036854775808 := by decide
        rw [e] at hr
        congr 1
        refine F64.toInt64Trunc_of _ _ t1 t2 ?_ hr.1 hr.2
        rw [t3]
      · simp at hv
    · simp only [Spec.Eval.intRes] at h
      split at h <;> simp at h
  · simp [FnAgree, absL, absV, Spec.Eval.applyFn, applyFunc, arityOk, funcArities, Spec.Eval.nIsNonnull, Spec.Eval.nLength, Spec.Eval.nKeys, Spec.Eval.nAugmentMap, Spec.Eval.nRound, Spec.Eval.nFloor, Spec.Eval.nCeiling, Spec.Eval.nMin, Spec.Eval.nMax, Spec.Eval.nStrContains, Spec.Eval.nRange, Spec.Eval.nHasData, fIsNonnull, fLength, fKeys, fAugmentMap, fRound, fFloor, fCeiling, fMin, fMax, fStrContains, fRange, fRandomInt, fHasData, toFloat, Spec.Eval.floorSpec]


/-- the builtins covered by the refinement theorem -/
def fnOk (name : Bytes) : Bool :=
  name == fIsNonnull || name == fLength || name == fStrContains || name == fHasData || name == fRange ||
  name == fMin || name == fMax || name == fKeys || name == fAugmentMap || name == fFloor || name == fCeiling

theorem fn_agree (name : Bytes) (h : fnOk name = true) (mvs : List Value) (next : Nat) : FnAgree name mvs next := by
  simp only [fnOk, Bool.or_eq_true, beq_iff_eq] at h
  rcases h with (((((((((rfl | rfl) | rfl) | rfl) | rfl) | rfl) | rfl) | rfl) | rfl) | rfl) | rfl
  · exact nonnull_agree mvs next
  · exact length_agree mvs next
  · exact strContains_agree mvs next
  · exact hasData_agree mvs next
  · exact range_agree mvs next
  · exact min_agree mvs next
  · exact max_agree mvs next
  · exact keys_agree mvs next
  · exact augment_agree mvs next
  · exact floor_agree mvs next
  · exact ceiling_agree mvs next

theorem fnOk_notLoop (name : Bytes) (h : fnOk name = true) : isLoopFunc name = false ∧ Spec.Eval.isLoopFn name = false := by
  simp only [fnOk, Bool.or_eq_true, beq_iff_eq] at h
  rcases h with (((((((((rfl | rfl) | rfl) | rfl) | rfl) | rfl) | rfl) | rfl) | rfl) | rfl) | rfl <;> exact ⟨by decide, by decide⟩

theorem evalArgs_len {m : EEnv} : ∀ (args : ExprList) (n : Nat) (mvs : List Value) (n' : Nat),
    evalArgs m args n = some (mvs, n') → mvs.length = args.length
  | .nil, n, mvs, n', h => by rw [evalArgs] at h; simp at h; rw [h.1]; rfl
  | .cons e r, n, mvs, n', h => by
    rw [evalArgs] at h
    split at h
    · split at h
      · rename_i vs n2 hr
        simp only [Option.some.injEq, Prod.mk.injEq] at h
        rw [← h.1, List.length_cons, evalArgs_len r _ vs n2 hr, ExprList.length]
      · simp at h
    · simp at h

end SoyVerif.Refine
