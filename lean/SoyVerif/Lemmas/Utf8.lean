/-
  Facts about Model.decodeRune (utf8.DecodeRune): an ASCII byte decodes to itself; a decode
  starting at a byte ≥ 0x80 yields a rune ≥ 128 and steps only over continuation bytes.
-/
import SoyVerif.Model.Escape

namespace SoyVerif.Lemmas.Utf8
open SoyVerif SoyVerif.Model

theorem decodeRune_ascii (b : UInt8) (r : Bytes) (h : b < 0x80) : decodeRune (b :: r) = (b.toNat, 1) := by
  simp [decodeRune, h]

theorem isCont_iff (b : UInt8) : isCont b = true ↔ 128 ≤ b.toNat ∧ b.toNat ≤ 191 := by
  simp [isCont, UInt8.le_iff_toNat_le]

theorem accept3_spec (b0 b1 : UInt8) (h : accept3 b0 b1 = true) :
    128 ≤ b1.toNat ∧ b1.toNat ≤ 191 ∧ (b0.toNat = 224 → 160 ≤ b1.toNat) := by
  unfold accept3 at h
  simp only [Bool.and_eq_true, decide_eq_true_eq, UInt8.le_iff_toNat_le] at h
  obtain ⟨hlo, hhi⟩ := h
  refine ⟨?_, ?_, ?_⟩
  · split at hlo <;> simp at hlo <;> omega
  · split at hhi <;> simp at hhi <;> omega
  · intro e
    have : b0 = 224 := UInt8.toNat_inj.1 (by simpa using e)
    subst this; simp at hlo; omega

theorem accept4_spec (b0 b1 : UInt8) (h : accept4 b0 b1 = true) :
    128 ≤ b1.toNat ∧ b1.toNat ≤ 191 ∧ (b0.toNat = 240 → 144 ≤ b1.toNat) := by
  unfold accept4 at h
  simp only [Bool.and_eq_true, decide_eq_true_eq, UInt8.le_iff_toNat_le] at h
  obtain ⟨hlo, hhi⟩ := h
  refine ⟨?_, ?_, ?_⟩
  · split at hlo <;> simp at hlo <;> omega
  · split at hhi <;> simp at hhi <;> omega
  · intro e
    have : b0 = 240 := UInt8.toNat_inj.1 (by simpa using e)
    subst this; simp at hlo; omega

theorem decodeRune_high (b : UInt8) (r : Bytes) (h : ¬ b < 0x80) :
    128 ≤ (decodeRune (b :: r)).1 ∧ 1 ≤ (decodeRune (b :: r)).2 ∧
    (r.take ((decodeRune (b :: r)).2 - 1)).all isCont = true := by
  have hb := b.toNat_lt
  unfold decodeRune
  simp only [h, if_false]
  by_cases h2 : (0xC2 ≤ b && b ≤ 0xDF) = true
  · simp only [h2, if_true]
    simp only [Bool.and_eq_true, decide_eq_true_eq, UInt8.le_iff_toNat_le] at h2
    cases r with
    | nil => simp [runeError]
    | cons b1 t =>
      by_cases hc : isCont b1 = true
      · have := (isCont_iff b1).1 hc
        simp only [hc, if_true]
        refine ⟨?_, by simp, by simp [hc]⟩
        simp at h2 ⊢
        omega
      · simp [hc, runeError]
  · simp only [h2]
    by_cases h3 : (0xE0 ≤ b && b ≤ 0xEF) = true
    · simp only [h3, if_true]
      simp only [Bool.and_eq_true, decide_eq_true_eq, UInt8.le_iff_toNat_le] at h3
      match r with
      | [] => simp [runeError]
      | [_] => simp [runeError]
      | b1 :: b2 :: t =>
        by_cases hc : (accept3 b b1 && isCont b2) = true
        · simp only [hc, if_true]
          simp only [Bool.and_eq_true] at hc
          have a := accept3_spec b b1 hc.1
          have c2 := (isCont_iff b2).1 hc.2
          have hc1 : isCont b1 = true := (isCont_iff b1).2 ⟨a.1, a.2.1⟩
          refine ⟨?_, by simp, by simp [hc1, hc.2]⟩
          simp at h3 ⊢
          omega
        · simp [hc, runeError]
    · simp only [h3]
      by_cases h4 : (0xF0 ≤ b && b ≤ 0xF4) = true
      · simp only [h4, if_true]
        simp only [Bool.and_eq_true, decide_eq_true_eq, UInt8.le_iff_toNat_le] at h4
        match r with
        | [] => simp [runeError]
        | [_] => simp [runeError]
        | [_, _] => simp [runeError]
        | b1 :: b2 :: b3 :: t =>
          by_cases hc : (accept4 b b1 && isCont b2 && isCont b3) = true
          · simp only [hc, if_true]
            simp only [Bool.and_eq_true] at hc
            have a := accept4_spec b b1 hc.1.1
            have hc1 : isCont b1 = true := (isCont_iff b1).2 ⟨a.1, a.2.1⟩
            refine ⟨?_, by simp, by simp [hc1, hc.1.2, hc.2]⟩
            simp at h4 ⊢
            omega
          · simp [hc, runeError]
      · simp [h4, runeError]

end SoyVerif.Lemmas.Utf8
