/-
  Positions of the nodes of a parsed expression: `EP S e` says that every node of `e` (access
  nodes of data references included) is positioned at an `S`-token, i.e. carries the position
  of a token the parser was given.  The specifications of Lemmas/ParserExprSafe.lean carry it
  as a post-condition on the tree each function returns.
-/
import SoyVerif.Lemmas.ParserSafe
import SoyVerif.Model.FileParser

namespace SoyVerif.Lemmas.ParserSafe
open SoyVerif SoyVerif.Model SoyVerif.Model.Parser

mutual
  /-- every node of the expression is positioned at an `S`-token -/
  def EP (S : Item → Prop) : Expr → Prop
    | .null p | .bool p _ | .int p _ | .float p _ | .str p _ _ | .global p _ => PosOK S p
    | .func p _ args => PosOK S p ∧ EPs S args
    | .list p items => PosOK S p ∧ EPs S items
    | .map p items => PosOK S p ∧ EPm S items
    | .dataRef p _ acc => PosOK S p ∧ EPa S acc
    | .not p a => PosOK S p ∧ EP S a
    | .neg p a => PosOK S p ∧ EP S a
    | .bin _ p a b => PosOK S p ∧ EP S a ∧ EP S b
    | .tern p c a b => PosOK S p ∧ EP S c ∧ EP S a ∧ EP S b
  def EPs (S : Item → Prop) : ExprList → Prop
    | .nil => True
    | .cons e r => EP S e ∧ EPs S r
  def EPm (S : Item → Prop) : MapItems → Prop
    | .nil => True
    | .cons _ e r => EP S e ∧ EPm S r
  def EPa (S : Item → Prop) : AccessList → Prop
    | .nil => True
    | .cons (.key p _ _) r => PosOK S p ∧ EPa S r
    | .cons (.index p _ _) r => PosOK S p ∧ EPa S r
    | .cons (.expr p _ e) r => PosOK S p ∧ EP S e ∧ EPa S r
end

/-- the position of the root node -/
theorem EP.pos {S : Item → Prop} {e : Expr} (h : EP S e) : PosOK S e.pos := by
  cases e <;> simp only [EP] at h <;> first | exact h | exact h.1

theorem EPm.set {S : Item → Prop} : ∀ (m : MapItems) (k : Bytes) (e : Expr), EPm S m → EP S e → EPm S (m.set k e)
  | .nil, k, e, _, he => by simp only [MapItems.set, EPm]; exact ⟨he, trivial⟩
  | .cons k' e' r, k, e, hm, he => by
    simp only [EPm] at hm
    unfold MapItems.set
    split
    · simp only [EPm]; exact ⟨he, hm.2⟩
    · split
      · simp only [EPm]; exact ⟨he, hm.1, hm.2⟩
      · simp only [EPm]; exact ⟨hm.1, EPm.set r k e hm.2 he⟩

theorem posOK_of {S : Item → Prop} {it : Item} (h : S it) : PosOK S it.pos := ⟨it, h, rfl⟩

/-- a larger token set -/
theorem PosOK.mono {S T : Item → Prop} (h : ∀ it, S it → T it) {p : Nat} (hp : PosOK S p) : PosOK T p := by
  obtain ⟨it, hs, he⟩ := hp
  exact ⟨it, h it hs, he⟩

open SoyVerif.Model.FileParser in
mutual
  /-- `setPos(node, p)`: every node of the moved tree is positioned at `p` -/
  theorem EP_reposition {S : Item → Prop} {p : Nat} (hp : PosOK S p) : ∀ e : Expr, EP S (reposition p e)
    | .null _ | .bool _ _ | .int _ _ | .float _ _ | .str _ _ _ | .global _ _ => by simp only [reposition, EP]; exact hp
    | .func _ _ args => by simp only [reposition, EP]; exact ⟨hp, EPs_reposition hp args⟩
    | .list _ items => by simp only [reposition, EP]; exact ⟨hp, EPs_reposition hp items⟩
    | .map _ items => by simp only [reposition, EP]; exact ⟨hp, EPm_reposition hp items⟩
    | .dataRef _ _ acc => by simp only [reposition, EP]; exact ⟨hp, EPa_reposition hp acc⟩
    | .not _ a => by simp only [reposition, EP]; exact ⟨hp, EP_reposition hp a⟩
    | .neg _ a => by simp only [reposition, EP]; exact ⟨hp, EP_reposition hp a⟩
    | .bin _ _ a b => by simp only [reposition, EP]; exact ⟨hp, EP_reposition hp a, EP_reposition hp b⟩
    | .tern _ c a b => by
      simp only [reposition, EP]; exact ⟨hp, EP_reposition hp c, EP_reposition hp a, EP_reposition hp b⟩
  theorem EPs_reposition {S : Item → Prop} {p : Nat} (hp : PosOK S p) : ∀ l : ExprList, EPs S (repositionList p l)
    | .nil => by simp only [repositionList, EPs]
    | .cons e r => by simp only [repositionList, EPs]; exact ⟨EP_reposition hp e, EPs_reposition hp r⟩
  theorem EPm_reposition {S : Item → Prop} {p : Nat} (hp : PosOK S p) : ∀ m : MapItems, EPm S (repositionMap p m)
    | .nil => by simp only [repositionMap, EPm]
    | .cons _ e r => by simp only [repositionMap, EPm]; exact ⟨EP_reposition hp e, EPm_reposition hp r⟩
  theorem EPa_reposition {S : Item → Prop} {p : Nat} (hp : PosOK S p) : ∀ a : AccessList, EPa S (repositionAcc p a)
    | .nil => by simp only [repositionAcc, EPa]
    | .cons (.key _ _ _) r => by simp only [repositionAcc, EPa]; exact ⟨hp, EPa_reposition hp r⟩
    | .cons (.index _ _ _) r => by simp only [repositionAcc, EPa]; exact ⟨hp, EPa_reposition hp r⟩
    | .cons (.expr _ _ e) r => by
      simp only [repositionAcc, EPa]; exact ⟨hp, EP_reposition hp e, EPa_reposition hp r⟩
end

/-- the position `errorf` reports is that of a token of the state -/
theorem errPos_ok {S : Item → Prop} {st : PState} (hpc : st.peekCount ≤ 2) (ht : TokS S st) :
    ∃ p, errPos st = .ok p ∧ PosOK S p := by
  obtain ⟨h0, h1, _⟩ := ht
  unfold errPos
  by_cases hp0 : st.peekCount = 0
  · simp [hp0]; exact ⟨_, h0, rfl⟩
  · by_cases hp1 : st.peekCount = 1
    · simp [hp1]; exact ⟨_, h0, rfl⟩
    · have hp2 : st.peekCount = 2 := by omega
      simp [hp2]; exact ⟨_, h1, rfl⟩

end SoyVerif.Lemmas.ParserSafe
