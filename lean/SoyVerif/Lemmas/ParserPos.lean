/-
  Positions of the nodes of a parsed expression: `EP S e` says that every node of `e` (access
  nodes of data references included) is positioned at an `S`-token, i.e. carries the position
  of a token the parser was given.  The specifications of Lemmas/ParserExprSafe.lean carry it
  as a post-condition on the tree each function returns.
-/
import SoyVerif.Lemmas.ParserSafe
import SoyVerif.Model.FileParser

namespace SoyVerif.Lemmas.ParserSafe
open SoyVerif SoyVerif.Model SoyVerif.Model.Parser

mutual
  /-- every node of the expression is positioned at an `S`-token -/
  def EP (S : Item → Prop) : Expr → Prop
    | .null p | .bool p _ | .int p _ | .float p _ | .str p _ _ | .global p _ => PosOK S p
    | .func p _ args => PosOK S p ∧ EPs S args
    | .list p items => PosOK S p ∧ EPs S items
    | .map p items => PosOK S p ∧ EPm S items
    | .dataRef p _ acc => PosOK S p ∧ EPa S acc
    | .not p a => PosOK S p ∧ EP S a
    | .neg p a => PosOK S p ∧ EP S a
    | .bin _ p a b => PosOK S p ∧ EP S a ∧ EP S b
    | .tern p c a b => PosOK S p ∧ EP S c ∧ EP S a ∧ EP S b
  def EPs (S : Item → Prop) : ExprList → Prop
    | .nil => True
    | .cons e r => EP S e ∧ EPs S r
  def EPm (S : Item → Prop) : MapItems → Prop
    | .nil => True
    | .cons _ e r => EP S e ∧ EPm S r
  def EPa (S : Item → Prop) : AccessList → Prop
    | .nil => True
    | .cons (.key p _ _) r => PosOK S p ∧ EPa S r
    | .cons (.index p _ _) r => PosOK S p ∧ EPa S r
    | .cons (.expr p _ e) r => PosOK S p ∧ EP S e ∧ EPa S r
end

/-- the position of the root node -/
theorem EP.pos {S : Item → Prop} {e : Expr} (h : EP S e) : PosOK S e.pos := by
  cases e <;> simp only [EP] at h <;> first | exact h | exact h.1

theorem EPm.set {S : Item → Prop} : ∀ (m : MapItems) (k : Bytes) (e : Expr), EPm S m → EP S e → EPm S (m.set k e)
  | .nil, k, e, _, he => by simp only [MapItems.set, EPm]; exact ⟨he, trivial⟩
  | .cons k' e' r, k, e, hm, he => by
    simp only [EPm] at hm
    unfold MapItems.set
    split
    · simp only [EPm]; exact ⟨he, hm.2⟩
    · split
      · simp only [EPm]; exact ⟨he, hm.1, hm.2⟩
      · simp only [EPm]; exact ⟨hm.1, EPm.set r k e hm.2 he⟩

theorem posOK_of {S : Item → Prop} {it : Item} (h : S it) : PosOK S it.pos := ⟨it, h, rfl⟩

/-- a larger token set -/
theorem PosOK.mono {S T : Item → Prop} (h : ∀ it, S it → T it) {p : Nat} (hp : PosOK S p) : PosOK T p := by
  obtain ⟨it, hs, he⟩ := hp
  exact ⟨it, h it hs, he⟩

open SoyVerif.Model.FileParser in
mutual
  /-- `setPos(node, p)`: every node of the moved tree is positioned at `p` -/
  theorem EP_reposition {S : Item → Prop} {p : Nat} (hp : PosOK S p) : ∀ e : Expr, EP S (reposition p e)
    | .null _ | .bool _ _ | .int _ _ | .float _ _ | .str _ _ _ | .global _ _ => by simp only [reposition, EP]; exact hp
    | .func _ _ args => by simp only [reposition, EP]; exact ⟨hp, EPs_reposition hp args⟩
    | .list _ items => by simp only [reposition, EP]; exact ⟨hp, EPs_reposition hp items⟩
    | .map _ items => by simp only [reposition, EP]; exact ⟨hp, EPm_reposition hp items⟩
    | .dataRef _ _ acc => by simp only [reposition, EP]; exact ⟨hp, EPa_reposition hp acc⟩
    | .not _ a => by simp only [reposition, EP]; exact ⟨hp, EP_reposition hp a⟩
    | .neg _ a => by simp only [reposition, EP]; exact ⟨hp, EP_reposition hp a⟩
    | .bin _ _ a b => by simp only [reposition, EP]; exact ⟨hp, EP_reposition hp a, EP_reposition hp b⟩
    | .tern _ c a b => by
      simp only [reposition, EP]; exact ⟨hp, EP_reposition hp c, EP_reposition hp a, EP_reposition hp b⟩
  theorem EPs_reposition {S : Item → Prop} {p : Nat} (hp : PosOK S p) : ∀ l : ExprList, EPs S (repositionList p l)
    | .nil => by simp only [repositionList, EPs]
    | .cons e r => by simp only [repositionList, EPs]; exact ⟨EP_reposition hp e, EPs_reposition hp r⟩
  theorem EPm_reposition {S : Item → Prop} {p : Nat} (hp : PosOK S p) : ∀ m : MapItems, EPm S (repositionMap p m)
    | .nil => by simp only [repositionMap, EPm]
    | .cons _ e r => by simp only [repositionMap, EPm]; exact ⟨EP_reposition hp e, EPm_reposition hp r⟩
  theorem EPa_reposition {S : Item → Prop} {p : Nat} (hp : PosOK S p) : ∀ a : AccessList, EPa S (repositionAcc p a)
    | .nil => by simp only [repositionAcc, EPa]
    | .cons (.key _ _ _) r => by simp only [repositionAcc, EPa]; exact ⟨hp, EPa_reposition hp r⟩
    | .cons (.index _ _ _) r => by simp only [repositionAcc, EPa]; exact ⟨hp, EPa_reposition hp r⟩
    | .cons (.expr _ _ e) r => by
      simp only [repositionAcc, EPa]; exact ⟨hp, EP_reposition hp e, EPa_reposition hp r⟩
end

/-! ### trees of the file parser -/

def EPo (S : Item → Prop) : Option Expr → Prop
  | none => True
  | some e => EP S e

def EPl (S : Item → Prop) (l : List Expr) : Prop := ∀ e ∈ l, EP S e

def DirsP (S : Item → Prop) (ds : List Directive) : Prop := ∀ d ∈ ds, PosOK S d.pos ∧ EPl S d.args

open SoyVerif.Model.FileParser in
mutual
  /-- every node of the tree — command nodes, list nodes, the expressions below them — is
      positioned at an `S`-token -/
  def NP (S : Item → Prop) : Node → Prop
    | .rawText p _ => PosOK S p
    | .print p a ds => PosOK S p ∧ EP S a ∧ DirsP S ds
    | .msg p _ _ body => PosOK S p ∧ NP S body
    | .css p e _ => PosOK S p ∧ EPo S e
    | .debugger p => PosOK S p
    | .log p b => PosOK S p ∧ NP S b
    | .ifc p conds => PosOK S p ∧ NPL S conds
    | .ifCond p c b => PosOK S p ∧ EPo S c ∧ NP S b
    | .forc p _ l b ie => PosOK S p ∧ EP S l ∧ NP S b ∧ NPL S ie
    | .switch p v cs => PosOK S p ∧ EP S v ∧ NPL S cs
    | .switchCase p vs b => PosOK S p ∧ EPl S vs ∧ NP S b
    | .call p _ _ d ps => PosOK S p ∧ EPo S d ∧ NPL S ps
    | .paramValue p _ e => PosOK S p ∧ EP S e
    | .paramContent p _ b => PosOK S p ∧ NP S b
    | .letValue p _ e => PosOK S p ∧ EP S e
    | .letContent p _ b => PosOK S p ∧ NP S b
    | .headerParam p _ _ _ _ d => PosOK S p ∧ EPo S d
    | .nspace p _ _ => PosOK S p
    | .template p _ b _ _ => PosOK S p ∧ NP S b
    | .soyDoc p _ => PosOK S p
    | .list p ns => PosOK S p ∧ NPL S ns
    | .plural p v cs d => PosOK S p ∧ EP S v ∧ NPL S cs ∧ NP S d
    | .pluralCase p _ b => PosOK S p ∧ NP S b
    | .placeholder p b => PosOK S p ∧ NP S b
    | .htmlTag p _ => PosOK S p
  def NPL (S : Item → Prop) : NodeList → Prop
    | .nil => True
    | .cons n r => NP S n ∧ NPL S r
end

open SoyVerif.Model.FileParser in
theorem NP.pos {S : Item → Prop} {n : Node} (h : NP S n) : PosOK S n.pos := by
  cases n <;> simp only [NP] at h <;> first | exact h | exact h.1

open SoyVerif.Model.FileParser in
theorem NPL_append {S : Item → Prop} : ∀ (a b : NodeList), NPL S a → NPL S b → NPL S (a.append b)
  | .nil, b, _, hb => by simpa [NodeList.append] using hb
  | .cons n r, b, ha, hb => by
    simp only [NPL] at ha
    simp only [NodeList.append, NPL]
    exact ⟨ha.1, NPL_append r b ha.2 hb⟩

open SoyVerif.Model.FileParser in
theorem NPL_nil {S : Item → Prop} : NPL S .nil := by simp only [NPL]

theorem EPl_nil {S : Item → Prop} : EPl S [] := fun _ h => absurd h (by simp)
theorem EPl_append {S : Item → Prop} {a b : List Expr} (ha : EPl S a) (hb : EPl S b) : EPl S (a ++ b) := by
  intro e he
  rcases List.mem_append.mp he with h | h
  · exact ha e h
  · exact hb e h
theorem EPl_single {S : Item → Prop} {e : Expr} (h : EP S e) : EPl S [e] := by
  intro x hx; simp only [List.mem_singleton] at hx; rw [hx]; exact h
theorem DirsP_nil {S : Item → Prop} : DirsP S [] := fun _ h => absurd h (by simp)
theorem DirsP_append {S : Item → Prop} {a b : List Directive} (ha : DirsP S a) (hb : DirsP S b) : DirsP S (a ++ b) := by
  intro e he
  rcases List.mem_append.mp he with h | h
  · exact ha e h
  · exact hb e h

open SoyVerif.Model.FileParser in
theorem NPL_ite {S : Item → Prop} {c : Prop} [Decidable c] {a b : NodeList} (ha : NPL S a) (hb : NPL S b) :
    NPL S (if c then a else b) := by
  split
  · exact ha
  · exact hb

open SoyVerif.Model.FileParser in
/-- the pieces `parseMsgRawText` cuts a text into keep the text's position -/
theorem NPL_parseMsgRawText {S : Item → Prop} {pos : Nat} (hp : PosOK S pos) :
    ∀ (fuel : Nat) (txt : Bytes), NPL S (parseMsgRawText fuel pos txt)
  | 0, _ => by simp only [parseMsgRawText, NPL]
  | fuel + 1, txt => by
    have hpiece : ∀ start stop : Nat, NPL S
        (((if start > 0 then NodeList.cons (.rawText pos (txt.take start)) .nil else .nil).append
          (if stop > start then NodeList.cons (.placeholder pos (.htmlTag pos ((txt.drop start).take (stop - start)))) .nil
           else .nil)).append (parseMsgRawText fuel pos (txt.drop stop))) := by
      intro start stop
      apply NPL_append
      · apply NPL_append
        · exact NPL_ite (by simp only [NPL, NP]; exact ⟨hp, trivial⟩) (by simp only [NPL])
        · exact NPL_ite (by simp only [NPL, NP]; exact ⟨⟨hp, hp⟩, trivial⟩) (by simp only [NPL])
      · exact NPL_parseMsgRawText hp fuel _
    unfold parseMsgRawText
    split
    · simp only [NPL]
    · cases findHtmlTag txt 0 with
      | none => exact hpiece _ _
      | some p => exact hpiece p.1 p.2

open SoyVerif.Model.FileParser in
mutual
  /-- `placeholderize` keeps every node at a token: placeholders take the position of the node
      they wrap -/
  theorem NP_placeholderize {S : Item → Prop} : ∀ (n n' : Node), placeholderize n = some n' → NP S n → NP S n'
    | .list pos nodes, n', h, hn => by
      simp only [placeholderize, Option.map_eq_some_iff] at h
      obtain ⟨r, hr, rfl⟩ := h
      simp only [NP] at hn ⊢
      exact ⟨hn.1, NPL_phChildren nodes r hr hn.2⟩
    | .rawText .., _, h, _ | .print .., _, h, _ | .msg .., _, h, _ | .css .., _, h, _ | .debugger .., _, h, _
    | .log .., _, h, _ | .ifc .., _, h, _ | .ifCond .., _, h, _ | .forc .., _, h, _ | .switch .., _, h, _
    | .switchCase .., _, h, _ | .call .., _, h, _ | .paramValue .., _, h, _ | .paramContent .., _, h, _
    | .letValue .., _, h, _ | .letContent .., _, h, _ | .headerParam .., _, h, _ | .nspace .., _, h, _
    | .template .., _, h, _ | .soyDoc .., _, h, _ | .plural .., _, h, _ | .pluralCase .., _, h, _
    | .placeholder .., _, h, _ | .htmlTag .., _, h, _ => by simp [placeholderize] at h
  theorem NPL_phChildren {S : Item → Prop} : ∀ (ns r : NodeList), phChildren ns = some r → NPL S ns → NPL S r
    | .nil, r, h, _ => by simp only [phChildren, Option.some.injEq] at h; subst h; simp only [NPL]
    | .cons c rest, r, h, hn => by
      simp only [NPL] at hn
      unfold phChildren at h
      split at h
      · rename_i pos text
        simp only [Option.map_eq_some_iff] at h
        obtain ⟨r', hr', rfl⟩ := h
        have hc := hn.1
        simp only [NP] at hc
        exact NPL_append _ _ (NPL_parseMsgRawText hc _ _) (NPL_phChildren rest r' hr' hn.2)
      · rename_i pos value cases dflt
        split at h
        · rename_i cs d r' hcs hd hr'
          simp only [Option.some.injEq] at h
          subst h
          have hc := hn.1
          simp only [NP] at hc
          simp only [NPL, NP]
          exact ⟨⟨hc.1, hc.2.1, NPL_phCases cases cs hcs hc.2.2.1, NP_placeholderize dflt d hd hc.2.2.2⟩,
            NPL_phChildren rest r' hr' hn.2⟩
        · exact absurd h (by simp)
      · simp only [Option.map_eq_some_iff] at h
        obtain ⟨r', hr', rfl⟩ := h
        simp only [NPL, NP]
        exact ⟨⟨hn.1.pos, hn.1⟩, NPL_phChildren rest r' hr' hn.2⟩
  theorem NPL_phCases {S : Item → Prop} : ∀ (cs r : NodeList), phCases cs = some r → NPL S cs → NPL S r
    | .nil, r, h, _ => by simp only [phCases, Option.some.injEq] at h; subst h; simp only [NPL]
    | .cons c rest, r, h, hn => by
      simp only [NPL] at hn
      unfold phCases at h
      split at h
      · rename_i pos v body
        split at h
        · rename_i b r' hb hr'
          simp only [Option.some.injEq] at h
          subst h
          have hc := hn.1
          simp only [NP] at hc
          simp only [NPL, NP]
          exact ⟨⟨hc.1, NP_placeholderize body b hb hc.2⟩, NPL_phCases rest r' hr' hn.2⟩
        · exact absurd h (by simp)
      · exact absurd h (by simp)
end

/-- a position the parser may report an error at: that of an `S`-token — a valid one on a
    lexer-shaped stream -/
def VPos (EL : Lvl) (S : Item → Prop) (p : Nat) : Prop := ErrOK EL S p

theorem vpos_of {EL : Lvl} {S : Item → Prop} {it : Item} (hs : S it) (hv : EL.lex → valid it) : VPos EL S it.pos :=
  ⟨⟨it, hs, Or.inl rfl⟩, fun hl => ⟨it, hs, hv hl, Or.inl rfl⟩⟩

open SoyVerif.Model.FileParser in
/-- the case nodes of a switch stand at positions an error may be reported at -/
def casesV (EL : Lvl) (S : Item → Prop) : NodeList → Prop
  | .nil => True
  | .cons c r => VPos EL S c.pos ∧ casesV EL S r

open SoyVerif.Model.FileParser in
theorem casesV_append {EL : Lvl} {S : Item → Prop} : ∀ (a b : NodeList), casesV EL S a → casesV EL S b →
    casesV EL S (a.append b)
  | .nil, b, _, hb => by simpa [NodeList.append] using hb
  | .cons n r, b, ha, hb => by
    simp only [casesV] at ha
    simp only [NodeList.append, casesV]
    exact ⟨ha.1, casesV_append r b ha.2 hb⟩

/-- position goals: unfold the predicates and close the leaves from the context -/
macro "np" : tactic => `(tactic|
  (simp only [NP, NPL, EPo]
   repeat' (first
     | exact trivial
     | assumption
     | exact posOK_of (by assumption)
     | exact And.right (by assumption)
     | exact NP.pos (by assumption)
     | exact EP.pos (by assumption)
     | constructor)))

/-- the position `errorf` reports is that of a token of the state -/
theorem errPos_ok {S : Item → Prop} {st : PState} (hpc : st.peekCount ≤ 2) (ht : TokS S st) :
    ∃ p, errPos st = .ok p ∧ PosOK S p := by
  obtain ⟨h0, h1, _⟩ := ht
  unfold errPos
  by_cases hp0 : st.peekCount = 0
  · simp [hp0]; exact ⟨_, h0, rfl⟩
  · by_cases hp1 : st.peekCount = 1
    · simp [hp1]; exact ⟨_, h0, rfl⟩
    · have hp2 : st.peekCount = 2 := by omega
      simp [hp2]; exact ⟨_, h1, rfl⟩

end SoyVerif.Lemmas.ParserSafe
