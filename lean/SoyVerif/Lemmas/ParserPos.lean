/-
  Positions of the nodes of a parsed expression: `EP S e` says that every node of `e` (access
  nodes of data references included) is positioned at an `S`-token, i.e. carries the position
  of a token the parser was given.  The specifications of Lemmas/ParserExprSafe.lean carry it
  as a post-condition on the tree each function returns.
-/
import SoyVerif.Lemmas.ParserSafe

namespace SoyVerif.Lemmas.ParserSafe
open SoyVerif SoyVerif.Model SoyVerif.Model.Parser

mutual
  /-- every node of the expression is positioned at an `S`-token -/
  def EP (S : Item → Prop) : Expr → Prop
    | .null p | .bool p _ | .int p _ | .float p _ | .str p _ _ | .global p _ => PosOK S p
    | .func p _ args => PosOK S p ∧ EPs S args
    | .list p items => PosOK S p ∧ EPs S items
    | .map p items => PosOK S p ∧ EPm S items
    | .dataRef p _ acc => PosOK S p ∧ EPa S acc
    | .not p a => PosOK S p ∧ EP S a
    | .neg p a => PosOK S p ∧ EP S a
    | .bin _ p a b => PosOK S p ∧ EP S a ∧ EP S b
    | .tern p c a b => PosOK S p ∧ EP S c ∧ EP S a ∧ EP S b
  def EPs (S : Item → Prop) : ExprList → Prop
    | .nil => True
    | .cons e r => EP S e ∧ EPs S r
  def EPm (S : Item → Prop) : MapItems → Prop
    | .nil => True
    | .cons _ e r => EP S e ∧ EPm S r
  def EPa (S : Item → Prop) : AccessList → Prop
    | .nil => True
    | .cons (.key p _ _) r => PosOK S p ∧ EPa S r
    | .cons (.index p _ _) r => PosOK S p ∧ EPa S r
    | .cons (.expr p _ e) r => PosOK S p ∧ EP S e ∧ EPa S r
end

/-- the position of the root node -/
theorem EP.pos {S : Item → Prop} {e : Expr} (h : EP S e) : PosOK S e.pos := by
  cases e <;> simp only [EP] at h <;> first | exact h | exact h.1

theorem EPm.set {S : Item → Prop} : ∀ (m : MapItems) (k : Bytes) (e : Expr), EPm S m → EP S e → EPm S (m.set k e)
  | .nil, k, e, _, he => by simp only [MapItems.set, EPm]; exact ⟨he, trivial⟩
  | .cons k' e' r, k, e, hm, he => by
    simp only [EPm] at hm
    unfold MapItems.set
    split
    · simp only [EPm]; exact ⟨he, hm.2⟩
    · split
      · simp only [EPm]; exact ⟨he, hm.1, hm.2⟩
      · simp only [EPm]; exact ⟨hm.1, EPm.set r k e hm.2 he⟩

theorem posOK_of {S : Item → Prop} {it : Item} (h : S it) : PosOK S it.pos := ⟨it, h, rfl⟩

/-- a larger token set -/
theorem PosOK.mono {S T : Item → Prop} (h : ∀ it, S it → T it) {p : Nat} (hp : PosOK S p) : PosOK T p := by
  obtain ⟨it, hs, he⟩ := hp
  exact ⟨it, h it hs, he⟩

end SoyVerif.Lemmas.ParserSafe
