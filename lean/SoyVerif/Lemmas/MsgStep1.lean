/-
  Step 1 of `setPlaceholderNames` (representative nodes): the invariant of the node-queue
  loop.  `done` = the nodes processed so far.
-/
import SoyVerif.Lemmas.MsgMap

namespace SoyVerif.Model.Msg

/-- the node ids held by `baseNameToRepNodes` -/
def repIds (reps : List (Bytes × List QNode)) : List Nat := reps.flatMap (fun e => e.2.map (·.id))

structure Inv1 (done : List QNode) (s : Step1) : Prop where
  /-- base names are distinct map keys -/
  keys : (s.reps.map Prod.fst).Nodup
  /-- every processed node is exactly once either a representative or a key of `equivNodeToRepNodes` -/
  ids : (repIds s.reps ++ s.equiv.map Prod.fst).Perm (done.map (·.id))
  /-- equivalent nodes point to representatives -/
  rep : ∀ e ∈ s.equiv, e.2 ∈ repIds s.reps
  /-- representatives are filed under their base name -/
  base : ∀ e ∈ s.reps, ∀ n ∈ e.2, n.base = e.1 ∧ n ∈ done
  /-- representatives of one base name have pairwise different source text -/
  srcs : ∀ e ∈ s.reps, (e.2.map (·.src)).Nodup
  /-- every processed node has a representative with the same base name and source text -/
  cover : ∀ n ∈ done, ∃ e ∈ s.reps, ∃ r ∈ e.2, r.base = n.base ∧ r.src = n.src ∧
            (r = n ∨ (n.id, r.id) ∈ s.equiv)

theorem repIds_append (a b : List (Bytes × List QNode)) : repIds (a ++ b) = repIds a ++ repIds b := by
  simp [repIds]

theorem repIds_cons (e : Bytes × List QNode) (b : List (Bytes × List QNode)) :
    repIds (e :: b) = e.2.map (·.id) ++ repIds b := by
  simp [repIds]

@[simp] theorem repIds_nil : repIds [] = [] := rfl

theorem mem_repIds {reps : List (Bytes × List QNode)} {e : Bytes × List QNode} {n : QNode}
    (he : e ∈ reps) (hn : n ∈ e.2) : n.id ∈ repIds reps := by
  simp only [repIds, List.mem_flatMap, List.mem_map]
  exact ⟨e, he, n, hn, rfl⟩

theorem inv1_init : Inv1 [] {} := by
  refine ⟨by simp, by simp [repIds], ?_, ?_, ?_, ?_⟩ <;> simp

theorem inv1_step {done : List QNode} {s : Step1} {node : QNode}
    (h : Inv1 done s) (hid : node.id ∉ done.map (·.id)) :
    Inv1 (done ++ [node]) (step1Node s node) := by
  have hfreshE : node.id ∉ s.equiv.map Prod.fst := fun hm =>
    hid (h.ids.mem_iff.mp (List.mem_append_right _ hm))
  unfold step1Node
  split
  case h_1 hk =>
    -- a new base name
    have hnk := not_mem_of_lookup_none hk
    simp only [mapSet_fresh hnk]
    refine ⟨?_, ?_, ?_, ?_, ?_, ?_⟩
    · simp only [List.map_append, List.map_cons, List.map_nil]
      rw [List.nodup_append]
      refine ⟨h.keys, by simp, ?_⟩
      intro a ha b hb
      simp only [List.mem_singleton] at hb
      subst hb
      exact fun e => hnk (e ▸ ha)
    · have := h.ids
      rw [List.perm_iff_count] at this ⊢
      intro a
      have := this a
      simp only [repIds_append, repIds_cons, repIds_nil, List.map_cons, List.map_nil,
        List.map_append, List.count_append, List.append_nil] at this ⊢
      omega
    · intro e he
      rw [repIds_append]
      exact List.mem_append_left _ (h.rep e he)
    · intro e he n hn
      rcases List.mem_append.mp he with he | he
      · obtain ⟨h1, h2⟩ := h.base e he n hn
        exact ⟨h1, List.mem_append_left _ h2⟩
      · simp only [List.mem_singleton] at he
        subst he
        simp only [List.mem_singleton] at hn
        subst hn
        exact ⟨rfl, by simp⟩
    · intro e he
      rcases List.mem_append.mp he with he | he
      · exact h.srcs e he
      · simp only [List.mem_singleton] at he
        subst he
        simp
    · intro n hn
      rcases List.mem_append.mp hn with hn | hn
      · obtain ⟨e, he, r, hr, h1, h2, h3⟩ := h.cover n hn
        exact ⟨e, List.mem_append_left _ he, r, hr, h1, h2, h3⟩
      · simp only [List.mem_singleton] at hn
        subst hn
        exact ⟨(n.base, [n]), by simp, n, by simp, rfl, rfl, Or.inl rfl⟩
  case h_2 nodes hk =>
    obtain ⟨l₁, l₂, hsplit, hl₁⟩ := lookup_split hk
    have hkeys := h.keys
    rw [hsplit] at hkeys
    simp only [List.map_append, List.map_cons] at hkeys
    have hl₂ : node.base ∉ l₂.map Prod.fst := by
      have := (List.nodup_append.mp hkeys).2.1
      exact (List.nodup_cons.mp this).1
    have hmemE : (node.base, nodes) ∈ s.reps := by rw [hsplit]; simp
    split
    case h_1 other hf =>
      -- an equivalent node
      have hother : other ∈ nodes := List.mem_of_find?_eq_some hf
      have hsrc : other.src = node.src := by simpa using List.find?_some hf
      simp only [mapSet_fresh hfreshE]
      refine ⟨h.keys, ?_, ?_, ?_, h.srcs, ?_⟩
      · have := h.ids
        rw [List.perm_iff_count] at this ⊢
        intro a
        have := this a
        simp only [List.map_append, List.map_cons, List.map_nil, List.count_append] at this ⊢
        omega
      · intro e he
        rcases List.mem_append.mp he with he | he
        · exact h.rep e he
        · simp only [List.mem_singleton] at he
          subst he
          exact mem_repIds hmemE hother
      · intro e he n hn
        obtain ⟨h1, h2⟩ := h.base e he n hn
        exact ⟨h1, List.mem_append_left _ h2⟩
      · intro n hn
        rcases List.mem_append.mp hn with hn | hn
        · obtain ⟨e, he, r, hr, h1, h2, h3⟩ := h.cover n hn
          refine ⟨e, he, r, hr, h1, h2, ?_⟩
          rcases h3 with h3 | h3
          · exact Or.inl h3
          · exact Or.inr (List.mem_append_left _ h3)
        · simp only [List.mem_singleton] at hn
          subst hn
          exact ⟨(n.base, nodes), hmemE, other, hother, (h.base _ hmemE other hother).1, hsrc,
            Or.inr (by simp)⟩
    case h_2 hf =>
      -- a new representative under an existing base name
      have hnew : node.src ∉ nodes.map (·.src) := by
        intro hm
        obtain ⟨x, hx, hxs⟩ := List.mem_map.mp hm
        have := List.find?_eq_none.mp hf x hx
        simp [hxs] at this
      have hset : mapSet s.reps node.base (nodes ++ [node]) = l₁ ++ (node.base, nodes ++ [node]) :: l₂ := by
        rw [hsplit]; exact mapSet_present hl₁ hl₂
      simp only [hset]
      have hmem' : ∀ e, e ∈ l₁ ++ (node.base, nodes ++ [node]) :: l₂ →
          e ∈ s.reps ∨ e = (node.base, nodes ++ [node]) := by
        intro e he
        rw [hsplit]
        simp only [List.mem_append, List.mem_cons] at he ⊢
        rcases he with he | he | he
        · exact Or.inl (Or.inl he)
        · exact Or.inr he
        · exact Or.inl (Or.inr (Or.inr he))
      have hmemOld : ∀ e, e ∈ s.reps → e = (node.base, nodes) ∨ e ∈ l₁ ++ (node.base, nodes ++ [node]) :: l₂ := by
        intro e he
        rw [hsplit] at he
        simp only [List.mem_append, List.mem_cons] at he ⊢
        rcases he with he | he | he
        · exact Or.inr (Or.inl he)
        · exact Or.inl he
        · exact Or.inr (Or.inr (Or.inr he))
      have hcount : ∀ a, List.count a (repIds (l₁ ++ (node.base, nodes ++ [node]) :: l₂)) =
          List.count a (repIds s.reps) + List.count a [node.id] := by
        intro a
        rw [hsplit]
        simp only [repIds_append, repIds_cons, List.map_append, List.map_cons, List.map_nil, List.count_append]
        omega
      refine ⟨?_, ?_, ?_, ?_, ?_, ?_⟩
      · have := h.keys
        rw [hsplit] at this
        simpa using this
      · have := h.ids
        rw [List.perm_iff_count] at this ⊢
        intro a
        have := this a
        simp only [List.map_append, List.map_cons, List.map_nil, List.count_append, hcount] at this ⊢
        omega
      · intro e he
        have := h.rep e he
        rw [← List.count_pos_iff] at this ⊢
        rw [hcount]; omega
      · intro e he n hn
        rcases hmem' e he with he | he
        · obtain ⟨h1, h2⟩ := h.base e he n hn
          exact ⟨h1, List.mem_append_left _ h2⟩
        · subst he
          rcases List.mem_append.mp hn with hn | hn
          · obtain ⟨h1, h2⟩ := h.base _ hmemE n hn
            exact ⟨h1, List.mem_append_left _ h2⟩
          · simp only [List.mem_singleton] at hn
            subst hn
            exact ⟨rfl, by simp⟩
      · intro e he
        rcases hmem' e he with he | he
        · exact h.srcs e he
        · subst he
          simp only [List.map_append, List.map_cons, List.map_nil]
          rw [List.nodup_append]
          refine ⟨h.srcs _ hmemE, by simp, ?_⟩
          intro a ha b hb
          simp only [List.mem_singleton] at hb
          subst hb
          exact fun e => hnew (e ▸ ha)
      · intro n hn
        rcases List.mem_append.mp hn with hn | hn
        · obtain ⟨e, he, r, hr, h1, h2, h3⟩ := h.cover n hn
          rcases hmemOld e he with he' | he'
          · subst he'
            exact ⟨(node.base, nodes ++ [node]), by simp, r, List.mem_append_left _ hr, h1, h2, h3⟩
          · exact ⟨e, he', r, hr, h1, h2, h3⟩
        · simp only [List.mem_singleton] at hn
          subst hn
          exact ⟨(n.base, nodes ++ [n]), by simp, n, by simp, rfl, rfl, Or.inl rfl⟩

theorem inv1_foldl : ∀ (q done : List QNode) (s : Step1), Inv1 done s →
    ((done ++ q).map (·.id)).Nodup → Inv1 (done ++ q) (q.foldl step1Node s)
  | [], done, s, h, _ => by simpa using h
  | node :: q, done, s, h, nd => by
    have hid : node.id ∉ done.map (·.id) := by
      simp only [List.map_append, List.map_cons] at nd
      intro hm
      exact (List.nodup_append.mp nd).2.2 _ hm node.id (by simp) rfl
    have := inv1_foldl q (done ++ [node]) (step1Node s node) (inv1_step h hid) (by simpa using nd)
    simpa using this

/-- The invariant holds after the node-queue loop. -/
theorem inv1_step1 (q : List QNode) (nd : (q.map (·.id)).Nodup) : Inv1 q (step1 q) := by
  have := inv1_foldl q [] {} inv1_init (by simpa using nd)
  simpa [step1] using this

end SoyVerif.Model.Msg
