/-
  Lemmas about the lexer model (Model/Lexer.lean): every primitive and every state
  function, started in a state with `0 ≤ start ≤ pos ≤ |input|`, returns (no PANIC),
  keeps that invariant, and makes progress in the measure used by `Props/C05.lean`.

  Style: `Sat x Q` = "the Option computation `x` returns some value satisfying `Q`";
  each primitive has a rule `prim_sat : preconditions → (∀ result, facts → Q result) → Sat (prim …) Q`,
  and a state function is verified by walking through its body with these rules.
-/
import SoyVerif.Model.Lexer

namespace SoyVerif.Model.Lex
open SoyVerif SoyVerif.Model

def Sat {α : Type} (x : Option α) (Q : α → Prop) : Prop := ∃ a, x = some a ∧ Q a

theorem Sat.ret {α : Type} {a : α} {Q : α → Prop} (h : Q a) : Sat (pure a : Option α) Q := ⟨a, rfl, h⟩
theorem Sat.ofSome {α : Type} {a : α} {Q : α → Prop} (h : Q a) : Sat (some a) Q := ⟨a, rfl, h⟩

theorem Sat.bind {α β : Type} {x : Option α} {f : α → Option β} {Q : β → Prop}
    (h : Sat x (fun a => Sat (f a) Q)) : Sat (x >>= f) Q := by
  obtain ⟨a, ha, b, hb, hq⟩ := h
  subst ha
  exact ⟨b, by simpa using hb, hq⟩

theorem Sat.mono {α : Type} {x : Option α} {P Q : α → Prop} (h : Sat x P) (hpq : ∀ a, P a → Q a) : Sat x Q := by
  obtain ⟨a, ha, hp⟩ := h
  exact ⟨a, ha, hpq a hp⟩

/-- `match x with | none => none | some a => f a` is a bind -/
theorem Sat.matchSome {α β : Type} {x : Option α} {f : α → Option β} {Q : β → Prop}
    (h : Sat x (fun a => Sat (f a) Q)) :
    Sat (match x with | none => none | some a => f a) Q := by
  obtain ⟨a, rfl, hq⟩ := h
  exact hq

/-! ## Primitives -/

theorem byteAt_lt (a : Array UInt8) (i : Nat) : byteAt a i < 256 := by
  unfold byteAt; exact UInt8.toNat_lt _

theorem acceptLo_spec (s0 : Nat) :
    128 ≤ acceptLo s0 ∧ (s0 = 224 → acceptLo s0 = 160) ∧ (s0 = 240 → acceptLo s0 = 144) := by
  unfold acceptLo
  refine ⟨?_, ?_, ?_⟩
  · split
    · omega
    · split <;> omega
  · intro h; simp [h]
  · intro h; simp [h]

theorem acceptHi_le (s0 : Nat) : acceptHi s0 ≤ 191 := by
  unfold acceptHi
  split
  · omega
  · split <;> omega

/-- a decoded rune below 0x80 has width 1 (multi-byte sequences decode to ≥ 0x80: overlong
    forms are rejected) -/
theorem decodeRune_ascii (a : Array UInt8) (i : Nat) :
    (decodeRune a i).2 = 1 ∨ 128 ≤ (decodeRune a i).1 := by
  have b1 := byteAt_lt a (i + 1)
  have lo := acceptLo_spec (byteAt a i)
  have hi := acceptHi_le (byteAt a i)
  unfold decodeRune
  simp only [runeError]
  split
  · exact Or.inl rfl
  split
  · exact Or.inl rfl
  split
  · split
    · exact Or.inl rfl
    split
    · exact Or.inl rfl
    · right; simp only; omega
  split
  · split
    · exact Or.inl rfl
    split
    · exact Or.inl rfl
    split
    · exact Or.inl rfl
    · right; simp only
      by_cases h224 : byteAt a i = 224
      · have := lo.2.1 h224; omega
      · omega
  split
  · split
    · exact Or.inl rfl
    split
    · exact Or.inl rfl
    split
    · exact Or.inl rfl
    split
    · exact Or.inl rfl
    · right; simp only
      by_cases h240 : byteAt a i = 240
      · have := lo.2.2 h240; omega
      · omega
  · exact Or.inl rfl


/-- a decoded rune below 0x80 is the byte at that place -/
theorem decodeRune_small (a : Array UInt8) (i : Nat) :
    (decodeRune a i).1 < 128 → (decodeRune a i).1 = byteAt a i := by
  have b1 := byteAt_lt a (i + 1)
  have lo := acceptLo_spec (byteAt a i)
  have hi := acceptHi_le (byteAt a i)
  unfold decodeRune
  simp only [runeError]
  split
  · (intro h; first | rfl | (simp only at h; omega))
  split
  · (intro h; first | rfl | (simp only at h; omega))
  split
  · split
    · (intro h; first | rfl | (simp only at h; omega))
    split
    · (intro h; first | rfl | (simp only at h; omega))
    · intro h; simp only at h; omega
  split
  · split
    · (intro h; first | rfl | (simp only at h; omega))
    split
    · (intro h; first | rfl | (simp only at h; omega))
    split
    · (intro h; first | rfl | (simp only at h; omega))
    · intro h; simp only at h
      by_cases h224 : byteAt a i = 224
      · have := lo.2.1 h224; omega
      · omega
  split
  · split
    · (intro h; first | rfl | (simp only at h; omega))
    split
    · (intro h; first | rfl | (simp only at h; omega))
    split
    · (intro h; first | rfl | (simp only at h; omega))
    split
    · (intro h; first | rfl | (simp only at h; omega))
    · intro h; simp only at h
      by_cases h240 : byteAt a i = 240
      · have := lo.2.2 h240; omega
      · omega
  · (intro h; first | rfl | (simp only at h; omega))



/-! ### items whose value the parser slices -/

/-- `tok.val[1:]` is taken of these -/
def sliced1 (t : ItemType) : Bool := t == .tDollarIdent || t == .tDotIdent || t == .tDotIndex
/-- `tok.val[2:]` is taken of these -/
def sliced2 (t : ItemType) : Bool := t == .tQuestionDotIdent || t == .tQuestionDotIndex

/-- the types of the items that end a stream (EOF, Error), and that of the zero item -/
def notEnd (t : ItemType) : Bool := t != .tEOF && t != .tError && t != .tInvalid

/-- the value of a token is the piece of the input that ENDS at the token's position -/
def sliceOK (input : Array UInt8) (it : Item) : Bool :=
  decide (it.val = (input.extract (it.pos - it.val.length) it.pos).toList)

def itemOK (it : Item) : Bool :=
  (!sliced1 it.typ || decide (1 ≤ it.val.length)) && (!sliced2 it.typ || decide (2 ≤ it.val.length)) &&
    notEnd it.typ

/-- number of items sent so far whose value is too short for the parser's slices, or that are
    EOF items (the EOF item is only ever the very last one), or whose value is not the piece of
    the input in front of their position -/
def Lexer.bad (l : Lexer) : Nat := (l.items.toList.filter (fun it => !(itemOK it && sliceOK l.input it))).length

/-- number of items sent so far (the invariant `Good` bounds it by twice the start of the pending
    token: every token but a few is non-empty, and the empty ones stand behind enough input) -/
def Lexer.cnt (l : Lexer) : Int := l.items.size

/-- total length of the values of the items sent so far (the invariant `Good` bounds it by the start of
    the pending token: the tokens are disjoint pieces of the input) -/
def Lexer.tot (l : Lexer) : Int := ((l.items.toList.map (·.val.length)).sum : Nat)

/-- the same count over all items but the last -/
def Lexer.badInit (l : Lexer) : Nat :=
  (l.items.toList.dropLast.filter (fun it => !(itemOK it && sliceOK l.input it))).length

/-- 1 unless `tagStart` is at a `{` of the input (or still 0): where `errorfAt(l.tagStart, …)`
    reports an unclosed tag -/
def Lexer.tagBad (l : Lexer) : Nat :=
  if l.tagStart = 0 ∨ byteAt l.input l.tagStart.toNat = 123 then 0 else 1

/-- emitting a token of type `t` with `n` bytes is fine -/
def emitOK (t : ItemType) (n : Int) : Prop :=
  (sliced1 t = true → 1 ≤ n) ∧ (sliced2 t = true → 2 ≤ n) ∧ notEnd t = true

theorem emitOK_mono {t : ItemType} {a b : Int} (h : emitOK t a) (hab : a ≤ b) : emitOK t b :=
  ⟨fun h1 => by have := h.1 h1; omega, fun h2 => by have := h.2.1 h2; omega, h.2.2⟩

theorem emitOK_safe {t : ItemType} {n : Int} (h1 : sliced1 t = false) (h2 : sliced2 t = false)
    (h3 : notEnd t = true := by decide) : emitOK t n :=
  ⟨fun h => by rw [h1] at h; exact absurd h (by simp), fun h => by rw [h2] at h; exact absurd h (by simp), h3⟩

@[simp] theorem backup_pos (l : Lexer) : l.backup.pos = l.pos - l.width := rfl
@[simp] theorem backup_start (l : Lexer) : l.backup.start = l.start := rfl
@[simp] theorem backup_len (l : Lexer) : l.backup.len = l.len := rfl
@[simp] theorem backup_width (l : Lexer) : l.backup.width = l.width := rfl
@[simp] theorem ignore_pos (l : Lexer) : l.ignore.pos = l.pos := rfl
@[simp] theorem ignore_start (l : Lexer) : l.ignore.start = l.pos := rfl
@[simp] theorem ignore_len (l : Lexer) : l.ignore.len = l.len := rfl
@[simp] theorem ignore_width (l : Lexer) : l.ignore.width = l.width := rfl
@[simp] theorem addPos_pos (l : Lexer) (d : Int) : (l.addPos d).pos = l.pos + d := rfl
@[simp] theorem addPos_start (l : Lexer) (d : Int) : (l.addPos d).start = l.start := rfl
@[simp] theorem addPos_len (l : Lexer) (d : Int) : (l.addPos d).len = l.len := rfl
@[simp] theorem addPos_width (l : Lexer) (d : Int) : (l.addPos d).width = l.width := rfl
@[simp] theorem backup_mp (l : Lexer) : l.backup.mp = l.mp := rfl
@[simp] theorem ignore_mp (l : Lexer) : l.ignore.mp = l.mp := rfl
@[simp] theorem addPos_mp (l : Lexer) (d : Int) : (l.addPos d).mp = l.mp := rfl
@[simp] theorem backup_bad (l : Lexer) : l.backup.bad = l.bad := rfl
@[simp] theorem ignore_bad (l : Lexer) : l.ignore.bad = l.bad := rfl
@[simp] theorem addPos_bad (l : Lexer) (d : Int) : (l.addPos d).bad = l.bad := rfl
@[simp] theorem backup_tot (l : Lexer) : l.backup.tot = l.tot := rfl
@[simp] theorem ignore_tot (l : Lexer) : l.ignore.tot = l.tot := rfl
@[simp] theorem addPos_tot (l : Lexer) (d : Int) : (l.addPos d).tot = l.tot := rfl
@[simp] theorem backup_cnt (l : Lexer) : l.backup.cnt = l.cnt := rfl
@[simp] theorem ignore_cnt (l : Lexer) : l.ignore.cnt = l.cnt := rfl
@[simp] theorem addPos_cnt (l : Lexer) (d : Int) : (l.addPos d).cnt = l.cnt := rfl
@[simp] theorem backup_input (l : Lexer) : l.backup.input = l.input := rfl
@[simp] theorem ignore_input (l : Lexer) : l.ignore.input = l.input := rfl
@[simp] theorem addPos_input (l : Lexer) (d : Int) : (l.addPos d).input = l.input := rfl
@[simp] theorem backup_tagBad (l : Lexer) : l.backup.tagBad = l.tagBad := rfl
@[simp] theorem ignore_tagBad (l : Lexer) : l.ignore.tagBad = l.tagBad := rfl
@[simp] theorem addPos_tagBad (l : Lexer) (d : Int) : (l.addPos d).tagBad = l.tagBad := rfl
@[simp] theorem backup_items (l : Lexer) : l.backup.items = l.items := rfl
@[simp] theorem ignore_items (l : Lexer) : l.ignore.items = l.items := rfl
@[simp] theorem addPos_items (l : Lexer) (d : Int) : (l.addPos d).items = l.items := rfl
@[simp] theorem backup_tagStart (l : Lexer) : l.backup.tagStart = l.tagStart := rfl
@[simp] theorem ignore_tagStart (l : Lexer) : l.ignore.tagStart = l.tagStart := rfl
@[simp] theorem addPos_tagStart (l : Lexer) (d : Int) : (l.addPos d).tagStart = l.tagStart := rfl

theorem mp_push (l : Lexer) (it : Item) (li : Item) (st : Int) :
    Lexer.mp { l with lastEmit := li, items := l.items.push it, start := st } = max l.mp it.pos := by
  simp [Lexer.mp]

theorem mp_push' (l : Lexer) (it : Item) :
    Lexer.mp { l with items := l.items.push it } = max l.mp it.pos := by
  simp [Lexer.mp]

theorem bad_push (l : Lexer) (it : Item) (li : Item) (st : Int) (h : itemOK it = true)
    (hs : sliceOK l.input it = true) :
    Lexer.bad { l with lastEmit := li, items := l.items.push it, start := st } = l.bad := by
  simp [Lexer.bad, List.filter_append, h, hs]

theorem bad_push' (l : Lexer) (it : Item) (h : itemOK it = true) (hs : sliceOK l.input it = true) :
    Lexer.bad { l with items := l.items.push it } = l.bad := by
  simp [Lexer.bad, List.filter_append, h, hs]

theorem badInit_push' (l : Lexer) (it : Item) :
    Lexer.badInit { l with items := l.items.push it } = l.bad := by
  simp [Lexer.badInit, Lexer.bad]

theorem badInit_push (l : Lexer) (it : Item) (li : Item) (st : Int) :
    Lexer.badInit { l with lastEmit := li, items := l.items.push it, start := st } = l.bad := by
  simp [Lexer.badInit, Lexer.bad]

/-- the effect of one `next` on the position: nothing at eof, one rune forward otherwise -/
def NextFacts (l : Lexer) (r : Int) (l' : Lexer) : Prop :=
  (l.len ≤ l.pos ∧ r = -1 ∧ l'.pos = l.pos ∧ l'.width = 0) ∨
  (l.pos < l.len ∧ 0 ≤ r ∧ 1 ≤ l'.width ∧ l'.pos = l.pos + l'.width ∧ l'.pos ≤ l.len ∧
    (128 ≤ r ∨ l'.width = 1))

theorem next_sat {l : Lexer} {Q : Int × Lexer → Prop} (h0 : 0 ≤ l.pos)
    (hq : ∀ r l', (l'.len = l.len ∧ l'.mp = l.mp ∧ l'.tagStart = l.tagStart ∧ (l'.bad = l.bad ∧ l'.cnt = l.cnt ∧ l'.tot = l.tot) ∧ l'.tagBad = l.tagBad ∧ l'.input = l.input) → l'.start = l.start → NextFacts l r l' → Q (r, l')) :
    Sat l.next Q := by
  unfold Lexer.next
  split
  · exact ⟨_, rfl, hq _ _ ⟨rfl, rfl, rfl, ⟨rfl, rfl, rfl⟩, rfl, rfl⟩ rfl (Or.inl ⟨by assumption, rfl, rfl, rfl⟩)⟩
  · rename_i h1
    rw [if_neg (by omega)]
    simp only [Lexer.len] at h1
    have hlt : l.pos.toNat < l.input.size := by omega
    have hw := decodeRune_width l.input l.pos.toNat hlt
    have ha := decodeRune_ascii l.input l.pos.toNat
    refine ⟨_, rfl, hq _ _ ⟨rfl, rfl, rfl, ⟨rfl, rfl, rfl⟩, rfl, rfl⟩ rfl (Or.inr ⟨?_, ?_, ?_, ?_, ?_, ?_⟩)⟩
    · simp only [Lexer.len]; omega
    · exact Int.natCast_nonneg _
    · show (1 : Int) ≤ ((decodeRune l.input l.pos.toNat).2 : Int); omega
    · rfl
    · show l.pos + ((decodeRune l.input l.pos.toNat).2 : Int) ≤ (l.input.size : Int); omega
    · show (128 : Int) ≤ (((decodeRune l.input l.pos.toNat).1 : Nat) : Int) ∨
          (((decodeRune l.input l.pos.toNat).2 : Nat) : Int) = 1
      omega

/-- a rune below 0x80 that `next` returns is the byte at the position it was read from -/
theorem next_content {l l' : Lexer} {r : Int} (h : l.next = some (r, l')) (hr0 : 0 ≤ r) (hr : r < 128) :
    (byteAt l.input l.pos.toNat : Int) = r := by
  unfold Lexer.next at h
  split at h
  · simp only [Option.some.injEq, Prod.mk.injEq] at h
    have := h.1; simp only [eof] at this; omega
  · split at h
    · exact absurd h (by simp)
    · simp only [Option.some.injEq, Prod.mk.injEq] at h
      have h1 := h.1
      have := decodeRune_small l.input l.pos.toNat (by omega)
      omega

/-- `next_sat` with the content of the rune read -/
theorem next_sat_c {l : Lexer} {Q : Int × Lexer → Prop} (h0 : 0 ≤ l.pos)
    (hq : ∀ r l', (l'.len = l.len ∧ l'.mp = l.mp ∧ l'.tagStart = l.tagStart ∧ (l'.bad = l.bad ∧ l'.cnt = l.cnt ∧ l'.tot = l.tot) ∧ l'.tagBad = l.tagBad ∧ l'.input = l.input) → l'.start = l.start → NextFacts l r l' →
      (0 ≤ r → r < 128 → (byteAt l.input l.pos.toNat : Int) = r) → Q (r, l')) :
    Sat l.next Q := by
  obtain ⟨⟨r, l'⟩, hn, hl, hs, hf⟩ := next_sat (Q := fun x => (x.2.len = l.len ∧ x.2.mp = l.mp ∧ x.2.tagStart = l.tagStart ∧ (x.2.bad = l.bad ∧ x.2.cnt = l.cnt ∧ x.2.tot = l.tot) ∧ x.2.tagBad = l.tagBad ∧ x.2.input = l.input) ∧ x.2.start = l.start ∧ NextFacts l x.1 x.2) h0
    (fun _ _ a b c => ⟨a, b, c⟩)
  exact ⟨_, hn, hq r l' hl hs hf (fun a b => next_content hn a b)⟩

theorem next_isSome {l : Lexer} (h0 : 0 ≤ l.pos) : ∃ r l', l.next = some (r, l') := by
  obtain ⟨⟨r, l'⟩, h, _⟩ := next_sat (Q := fun _ => True) h0 (fun _ _ _ _ _ => trivial)
  exact ⟨r, l', h⟩

theorem peek_sat {l : Lexer} {Q : Int × Lexer → Prop} (h0 : 0 ≤ l.pos)
    (hq : ∀ r l', (l'.len = l.len ∧ l'.mp = l.mp ∧ l'.tagStart = l.tagStart ∧ (l'.bad = l.bad ∧ l'.cnt = l.cnt ∧ l'.tot = l.tot) ∧ l'.tagBad = l.tagBad ∧ l'.input = l.input) → l'.start = l.start → l'.pos = l.pos →
      ((l.len ≤ l.pos ∧ r = -1 ∧ l'.width = 0) ∨
       (l.pos < l.len ∧ 0 ≤ r ∧ 1 ≤ l'.width ∧ l.pos + l'.width ≤ l.len ∧ (128 ≤ r ∨ l'.width = 1))) →
      Q (r, l')) :
    Sat l.peek Q := by
  unfold Lexer.peek
  apply Sat.bind
  apply next_sat h0
  intro r l' hl hs hf
  apply Sat.ret
  apply hq r l'.backup (by simpa using hl) (by simp [hs])
  · unfold NextFacts at hf
    simp only [backup_pos]; omega
  · unfold NextFacts at hf
    simp only [backup_width]
    rcases hf with hf | hf
    · left; omega
    · right; omega

theorem emit_sat {l : Lexer} {t : ItemType} {Q : Lexer → Prop}
    (h0 : 0 ≤ l.start) (h1 : l.start ≤ l.pos) (h2 : l.pos ≤ l.len) (hok : emitOK t (l.pos - l.start))
    (hq : ∀ l', (l'.len = l.len ∧ l.mp ≤ l'.mp ∧ ((l'.mp : Int) = l.mp ∨ (l'.mp : Int) = l.pos) ∧ l'.tagStart = l.tagStart ∧ (l'.bad = l.bad ∧ l'.cnt = l.cnt + 1 ∧ l'.tot = l.tot + (l.pos - l.start)) ∧ l'.tagBad = l.tagBad ∧ l'.input = l.input) →
      l'.pos = l.pos → l'.start = l.pos → l'.width = l.width → Q l') :
    Sat (l.emit t) Q := by
  unfold Lexer.emit
  simp only [if_neg (show ¬ l.pos > l.len by omega)]
  unfold sliceOf
  simp only [Lexer.len] at h2
  rw [if_pos ⟨h0, h1, h2⟩]
  refine ⟨_, rfl, hq _ ⟨rfl, ?_, ?_, rfl, ⟨?_, by simp [Lexer.cnt], by simp [Lexer.tot]; omega⟩, rfl, rfl⟩ rfl rfl rfl⟩
  · simp only [mp_push]; omega
  · simp only [mp_push]; omega
  · apply bad_push
    rotate_left
    · simp only [sliceOK, decide_eq_true_eq, Array.length_toList, Array.size_extract]
      congr 2 <;> omega
    simp only [itemOK, Array.length_toList, Array.size_extract, Bool.and_eq_true, Bool.or_eq_true,
      Bool.not_eq_true', decide_eq_true_eq]
    refine ⟨⟨?_, ?_⟩, by simpa using hok.2.2⟩
    · by_cases hs1 : sliced1 t = true
      · right; have := hok.1 hs1; omega
      · left; simpa using hs1
    · by_cases hs2 : sliced2 t = true
      · right; have := hok.2.1 hs2; omega
      · left; simpa using hs2

/-- `l.emit(itemEOF)`: the one emit after which the scan ends -/
theorem emit_eof_ex {l : Lexer} (h0 : 0 ≤ l.start) (h1 : l.start ≤ l.pos) (h2 : l.pos ≤ l.len) :
    ∃ l', l.emit .tEOF = some l' ∧ (l.mp ≤ l'.mp ∧ ((l'.mp : Int) = l.mp ∨ (l'.mp : Int) = l.pos)) ∧
      (l'.badInit = l.bad ∧ l'.cnt = l.cnt + 1 ∧ l'.tot = l.tot + (l.pos - l.start)) ∧ (∃ it, l'.items.back? = some it ∧ it.typ = .tEOF) ∧ l'.input = l.input := by
  unfold Lexer.emit
  simp only [if_neg (show ¬ l.pos > l.len by omega)]
  unfold sliceOf
  simp only [Lexer.len] at h2
  rw [if_pos ⟨h0, h1, h2⟩]
  refine ⟨_, rfl, ⟨?_, ?_⟩, ⟨badInit_push _ _ _ _, by simp [Lexer.cnt], by simp [Lexer.tot]; omega⟩,
    ⟨{ typ := .tEOF, pos := l.pos.toNat, val := (l.input.extract l.start.toNat l.pos.toNat).toList }, by simp, rfl⟩, rfl⟩
  · simp only [mp_push]; omega
  · simp only [mp_push]; omega

/-- the facts `scanWhile` establishes about the lexer it returns -/
def ScanFacts (l : Lexer) (r : Int) (l' : Lexer) : Prop :=
  l.pos ≤ l'.pos - l'.width ∧
  ((r = -1 ∧ l'.width = 0 ∧ l'.pos = l.len) ∨
   (0 ≤ r ∧ 1 ≤ l'.width ∧ (128 ≤ r ∨ l'.width = 1) ∧ l'.pos ≤ l.len))

theorem scanWhile_sat (p : Int → Bool) (hp : p eof = false) (l : Lexer) {Q : Int × Lexer → Prop}
    (h0 : 0 ≤ l.pos) (h1 : l.pos ≤ l.len)
    (hq : ∀ r l', (l'.len = l.len ∧ l'.mp = l.mp ∧ l'.tagStart = l.tagStart ∧ (l'.bad = l.bad ∧ l'.cnt = l.cnt ∧ l'.tot = l.tot) ∧ l'.tagBad = l.tagBad ∧ l'.input = l.input) → l'.start = l.start → p r = false → ScanFacts l r l' → Q (r, l')) :
    Sat (scanWhile p hp l) Q := by
  induction l using scanWhile.induct p hp with
  | case1 l hn =>
    obtain ⟨r, l', h⟩ := next_isSome h0
    rw [hn] at h; exact absurd h (by simp)
  | case2 l r0 l0 hn hr ih =>
    unfold scanWhile
    split
    · rename_i heq; rw [hn] at heq; exact absurd heq (by simp)
    · rename_i r1 l1 heq
      rw [hn] at heq
      simp only [Option.some.injEq, Prod.mk.injEq] at heq
      obtain ⟨rfl, rfl⟩ := heq
      simp only [hr, dite_true]
      obtain ⟨_, hn', hl, hs, hf⟩ := next_sat (Q := fun x => (x.2.len = l.len ∧ x.2.mp = l.mp ∧ x.2.tagStart = l.tagStart ∧ (x.2.bad = l.bad ∧ x.2.cnt = l.cnt ∧ x.2.tot = l.tot) ∧ x.2.tagBad = l.tagBad ∧ x.2.input = l.input) ∧ x.2.start = l.start ∧ NextFacts l x.1 x.2) h0
        (fun _ _ a b c => ⟨a, b, c⟩)
      rw [hn] at hn'
      simp only [Option.some.injEq] at hn'
      subst hn'
      simp only at hl hs hf
      have hne : r0 ≠ -1 := by
        intro e; rw [e] at hr; simp only [eof] at hp; rw [hp] at hr; exact absurd hr (by simp)
      unfold NextFacts at hf
      apply ih (by omega) (by omega)
      intro r l' hl' hs' hpr hsf
      apply hq r l' ⟨hl'.1.trans hl.1, hl'.2.1.trans hl.2.1, hl'.2.2.1.trans hl.2.2.1, ⟨hl'.2.2.2.1.1.trans hl.2.2.2.1.1, hl'.2.2.2.1.2.1.trans hl.2.2.2.1.2.1, hl'.2.2.2.1.2.2.trans hl.2.2.2.1.2.2⟩, hl'.2.2.2.2.1.trans hl.2.2.2.2.1, hl'.2.2.2.2.2.trans hl.2.2.2.2.2⟩ (hs'.trans hs) hpr
      unfold ScanFacts at hsf ⊢
      rw [hl.1] at hsf
      omega
  | case3 l r0 l0 hn hr =>
    unfold scanWhile
    split
    · rename_i heq; rw [hn] at heq; exact absurd heq (by simp)
    · rename_i r1 l1 heq
      rw [hn] at heq
      simp only [Option.some.injEq, Prod.mk.injEq] at heq
      obtain ⟨rfl, rfl⟩ := heq
      simp only [hr, dite_false]
      obtain ⟨_, hn', hl, hs, hf⟩ := next_sat (Q := fun x => (x.2.len = l.len ∧ x.2.mp = l.mp ∧ x.2.tagStart = l.tagStart ∧ (x.2.bad = l.bad ∧ x.2.cnt = l.cnt ∧ x.2.tot = l.tot) ∧ x.2.tagBad = l.tagBad ∧ x.2.input = l.input) ∧ x.2.start = l.start ∧ NextFacts l x.1 x.2) h0
        (fun _ _ a b c => ⟨a, b, c⟩)
      rw [hn] at hn'
      simp only [Option.some.injEq] at hn'
      subst hn'
      simp only at hl hs hf
      refine ⟨_, rfl, hq _ _ hl hs (by simpa using hr) ?_⟩
      unfold NextFacts at hf
      unfold ScanFacts
      omega


theorem accept_sat {l : Lexer} {valid : List Int} {Q : Bool × Lexer → Prop} (h0 : 0 ≤ l.pos) (h1 : l.pos ≤ l.len)
    (hq : ∀ b l', (l'.len = l.len ∧ l'.mp = l.mp ∧ l'.tagStart = l.tagStart ∧ (l'.bad = l.bad ∧ l'.cnt = l.cnt ∧ l'.tot = l.tot) ∧ l'.tagBad = l.tagBad ∧ l'.input = l.input) → l'.start = l.start → l.pos ≤ l'.pos →
      l'.pos ≤ l.len → (b = true → l.pos < l'.pos) → Q (b, l')) :
    Sat (accept l valid) Q := by
  unfold accept
  apply Sat.bind
  apply next_sat h0
  intro r l' hl hs hf
  unfold NextFacts at hf
  simp only
  split
  · rename_i hi
    apply Sat.ret
    have hr : 0 ≤ r := by
      simp only [indexRune, Bool.and_eq_true, decide_eq_true_eq] at hi; exact hi.1
    apply hq true l' hl hs <;> omega
  · apply Sat.ret
    apply hq false l'.backup (by simpa using hl) (by simp [hs]) <;> simp only [backup_pos] <;>
      first | omega | (intro h; cases h)

theorem acceptRun_sat {l : Lexer} {valid : List Int} {Q : Bool × Lexer → Prop} (h0 : 0 ≤ l.pos) (h1 : l.pos ≤ l.len)
    (hq : ∀ b l', (l'.len = l.len ∧ l'.mp = l.mp ∧ l'.tagStart = l.tagStart ∧ (l'.bad = l.bad ∧ l'.cnt = l.cnt ∧ l'.tot = l.tot) ∧ l'.tagBad = l.tagBad ∧ l'.input = l.input) → l'.start = l.start → l.pos ≤ l'.pos →
      l'.pos ≤ l.len → (b = true → l.pos < l'.pos) → Q (b, l')) :
    Sat (acceptRun l valid) Q := by
  unfold acceptRun
  apply Sat.bind
  apply scanWhile_sat _ _ _ h0 h1
  intro r l' hl hs _ hf
  unfold ScanFacts at hf
  apply Sat.ret
  apply hq _ l'.backup (by simpa using hl) (by simp [hs])
  · simp only [backup_pos]; omega
  · simp only [backup_pos]; omega
  · simp only [backup_pos]; intro h; have h := of_decide_eq_true h; omega

theorem skipSpace_sat {l : Lexer} {Q : Lexer → Prop} (h0 : 0 ≤ l.pos) (h1 : l.pos ≤ l.len)
    (hq : ∀ l', (l'.len = l.len ∧ l'.mp = l.mp ∧ l'.tagStart = l.tagStart ∧ (l'.bad = l.bad ∧ l'.cnt = l.cnt ∧ l'.tot = l.tot) ∧ l'.tagBad = l.tagBad ∧ l'.input = l.input) → l'.start = l'.pos → l.pos ≤ l'.pos →
      l'.pos ≤ l.len → Q l') :
    Sat (skipSpace l) Q := by
  unfold skipSpace
  apply Sat.bind
  apply scanWhile_sat _ _ _ h0 h1
  intro r l' hl hs _ hf
  unfold ScanFacts at hf
  apply Sat.ret
  apply hq l'.backup.ignore (by simpa using hl) (by simp)
  · simp only [ignore_pos, backup_pos]; omega
  · simp only [ignore_pos, backup_pos]; omega

theorem badDoubleClose_sat {l : Lexer} {Q : Bool × Lexer → Prop} (h0 : 0 ≤ l.pos) (h1 : l.pos ≤ l.len)
    (hq : ∀ b l', (l'.len = l.len ∧ l'.mp = l.mp ∧ l'.tagStart = l.tagStart ∧ (l'.bad = l.bad ∧ l'.cnt = l.cnt ∧ l'.tot = l.tot) ∧ l'.tagBad = l.tagBad ∧ l'.input = l.input) → l'.start = l.start → l.pos ≤ l'.pos →
      l'.pos ≤ l.len → Q (b, l')) :
    Sat (badDoubleClose l) Q := by
  unfold badDoubleClose
  split
  · apply Sat.bind
    apply next_sat h0
    intro r l' hl hs hf
    unfold NextFacts at hf
    apply Sat.ret
    apply hq _ l' hl hs <;> omega
  · apply Sat.ret
    apply hq _ l ⟨rfl, rfl, rfl, ⟨rfl, rfl, rfl⟩, rfl, rfl⟩ rfl <;> omega

/-- `maybeEmitText(l, k)` for `0 ≤ k`, on a lexer whose pending text `[start, pos-k)` is inside the input -/
theorem maybeEmitText_sat {l : Lexer} {k : Int} {Q : Lexer → Prop}
    (hs0 : 0 ≤ l.start) (hk : 0 ≤ k) (hp : l.pos - k ≤ l.len)
    (hq : ∀ l', (l'.len = l.len ∧ l.mp ≤ l'.mp ∧ ((l'.mp : Int) = l.mp ∨ (l'.mp : Int) = l.pos - k) ∧ l'.tagStart = l.tagStart ∧ (l'.bad = l.bad ∧ l'.cnt + l.start ≤ l.cnt + l'.start ∧ l'.tot + l.start ≤ l.tot + l'.start) ∧ l'.tagBad = l.tagBad ∧ l'.input = l.input) →
      l'.pos = l.pos → l'.width = l.width →
      ((l'.start = l.start ∧ l.pos - k ≤ l.start) ∨ (l.start < l.pos - k ∧ l'.start = l.pos - k)) → Q l') :
    Sat (maybeEmitText l k) Q := by
  unfold maybeEmitText
  split
  · rename_i hgt
    unfold sliceOf
    simp only [Lexer.len] at hp
    rw [if_pos ⟨hs0, by omega, hp⟩]
    simp only
    have key : Sat (if allSpaceWithNewline (l.input.extract l.start.toNat (l.pos - k).toNat).toList = true
        then some (l.addPos (-k)).ignore else (l.addPos (-k)).emit ItemType.tText)
        (fun l2 => Q (l2.addPos k)) := by
      split
      · apply Sat.ofSome
        apply hq _ (by simp; omega) (by simp only [addPos_pos, ignore_pos]; omega) (by simp)
        right; simp only [addPos_start, addPos_pos, ignore_start, ignore_pos]; omega
      · apply emit_sat (by simpa using hs0) (by simp only [addPos_pos, addPos_start]; omega)
          (by simp only [addPos_pos, addPos_len]; simp only [Lexer.len]; omega) (emitOK_safe rfl rfl)
        intro l' hl hp' hs' hw
        simp only [addPos_pos, addPos_len, addPos_width] at hl hp' hs' hw
        simp only [addPos_mp, addPos_tagStart, addPos_bad, addPos_tagBad, addPos_input, addPos_cnt, addPos_tot, addPos_start] at hl
        apply hq _ (by simp only [addPos_len, addPos_mp, addPos_tagStart, addPos_bad, addPos_tagBad, addPos_input, addPos_cnt, addPos_tot, addPos_start]; exact ⟨by omega, by omega, by omega, by omega, by omega, by omega, hl.2.2.2.2.2.2⟩) (by simp only [addPos_pos, hp']; omega) (by simp [hw])
        right; simp only [addPos_start, hs']; omega
    obtain ⟨a, ha, hqa⟩ := key
    rw [ha]
    exact ⟨_, rfl, hqa⟩
  · apply Sat.ofSome
    exact hq l ⟨rfl, Nat.le_refl _, Or.inl rfl, rfl, ⟨rfl, Int.le_refl _, Int.le_refl _⟩, rfl, rfl⟩ rfl rfl (Or.inl ⟨rfl, by omega⟩)

/-! ## The invariant and the progress measure -/

/-- invariant at state boundaries: the pending token `[start, pos)` lies inside the input -/
def Good (n : Int) (l : Lexer) : Prop :=
  (l.len = n ∧ (l.mp : Int) ≤ n ∧ 0 ≤ l.tagStart ∧ l.tagStart ≤ n ∧ (l.bad = 0 ∧ l.cnt ≤ 2 * l.start ∧ l.tot ≤ l.start) ∧ l.tagBad = 0) ∧ 0 ≤ l.start ∧ l.start ≤ l.pos ∧ l.pos ≤ n

/-- what else holds on entry to a state: the tag states begin with nothing pending
    (`start = pos`), `lexLeftDelim` stands at the `{` that `lexText` saw, and `lexString q` has
    just read its opening quote `q` -/
def Extra (s : St) (l : Lexer) : Prop :=
  match s with
  | .leftDelim => l.start = l.pos ∧ byteAt l.input l.pos.toNat = 123
  | .beginTag => l.start = l.pos
  | .insideTag => l.start = l.pos
  | .ident => l.start = l.pos ∧ l.pos < l.len
  | .rightDelim => l.start < l.pos
  | .rightDelimEnd => l.start < l.pos
  | .str q => l.start + 1 = l.pos ∧ (byteAt l.input l.start.toNat : Int) = q ∧ (q = 34 ∨ q = 39)
  | _ => True

/-- rank of a state while input remains (`pos < n`): states that may hand over to another
    state without consuming input rank above the states they hand over to -/
def rankA : St → Nat
  | .rightDelim => 6 | .rightDelimEnd => 6 | .text => 5 | .leftDelim => 4 | .beginTag => 3
  | .insideTag => 2 | .ident => 1 | .number => 1
  | .headerParam => 0 | .css => 0 | .literal => 0 | .str _ => 0

/-- rank of a state at the end of the input (`pos = n`) -/
def rankB : St → Nat
  | .rightDelim => 6 | .rightDelimEnd => 6 | .text => 5 | .leftDelim => 4 | .beginTag => 3
  | .ident => 2 | .number => 2
  | .insideTag => 1 | .headerParam => 0 | .css => 0 | .literal => 0 | .str _ => 0

/-- the measure that every state transition decreases -/
def phi (n : Int) (s : St) (l : Lexer) : Nat :=
  if l.pos < n then 7 * (n - l.pos).toNat + rankA s else rankB s

theorem rankA_le (s : St) : rankA s ≤ 6 := by cases s <;> simp [rankA]
theorem rankB_le (s : St) : rankB s ≤ 6 := by cases s <;> simp [rankB]

theorem phi_lt_of_adv {n : Int} {s s' : St} {l l' : Lexer} (h : l.pos < l'.pos) (hn : l'.pos ≤ n) :
    phi n s' l' < phi n s l := by
  have a := rankA_le s'
  have b := rankB_le s'
  unfold phi
  rw [if_pos (show l.pos < n by omega)]
  split <;> omega

theorem phi_lt_of_same {n : Int} {s s' : St} {l l' : Lexer} (h : l'.pos = l.pos)
    (ha : l.pos < n → rankA s' < rankA s) (hb : ¬ l.pos < n → rankB s' < rankB s) :
    phi n s' l' < phi n s l := by
  unfold phi
  rw [h]
  split
  · rename_i hlt; have := ha hlt; omega
  · rename_i hge; exact hb hge

/-- the last item sent is the EOF item or an Error item -/
def EndsOK (l : Lexer) : Prop := ∃ it, l.items.back? = some it ∧ (it.typ = .tEOF ∨ it.typ = .tError)

/-- an Error item of `errorfAt` stands where the construct it complains about begins: an
    unclosed tag or literal at the `{` of the tag (position 0 for an expression, which has
    no delimiter), a string at its opening quote, a block comment at `/*`, a soydoc comment
    at `/**` -/
def ErrItemOK (input : Array UInt8) (it : Item) : Prop :=
  (it.val = [clsTag] ∨ it.val = [clsLiteral] → it.pos = 0 ∨ byteAt input it.pos = 123) ∧
  (it.val = [clsString] → byteAt input it.pos = 34 ∨ byteAt input it.pos = 39) ∧
  (it.val = [clsComment] → byteAt input it.pos = 47 ∧ byteAt input (it.pos + 1) = 42) ∧
  (it.val = [clsSoyDoc] → byteAt input it.pos = 47 ∧ byteAt input (it.pos + 1) = 42 ∧ byteAt input (it.pos + 2) = 42) ∧
  (it.val = [clsName] → byteAt input it.pos = 46 ∨ byteAt input it.pos = 63)

/-- the last item, if it is an Error item, is positioned as `ErrItemOK` says -/
def ErrAt (l : Lexer) : Prop := ∀ it, l.items.back? = some it → it.typ = .tError → ErrItemOK l.input it

theorem ErrItemOK.nil (input : Array UInt8) (p : Nat) : ErrItemOK input ⟨.tError, p, []⟩ :=
  ⟨fun h => by rcases h with h | h <;> simp at h, fun h => by simp at h, fun h => by simp at h, fun h => by simp at h,
    fun h => by simp at h⟩

/-- an unclosed tag / literal is reported at `tagStart` -/
theorem tag_err {l : Lexer} {cls : UInt8} (ht : l.tagBad = 0) (h0 : 0 ≤ l.tagStart)
    (hc : cls = clsTag ∨ cls = clsLiteral) : ErrItemOK l.input ⟨.tError, l.tagStart.toNat, [cls]⟩ := by
  unfold Lexer.tagBad at ht
  have hor : l.tagStart = 0 ∨ byteAt l.input l.tagStart.toNat = 123 := by
    by_cases h : l.tagStart = 0 ∨ byteAt l.input l.tagStart.toNat = 123
    · exact h
    · rw [if_neg h] at ht; exact absurd ht (by decide)
  refine ⟨fun _ => ?_, fun h => ?_, fun h => ?_, fun h => ?_, fun h => ?_⟩
  · rcases hor with h | h
    · left; show l.tagStart.toNat = 0; omega
    · right; exact h
  all_goals (rcases hc with rfl | rfl <;> simp [clsTag, clsLiteral, clsString, clsComment, clsSoyDoc, clsName] at h)

/-- "expected double closing braces in tag" (class 6): no claim about the bytes at the position -/
theorem braces_err {input : Array UInt8} {p : Nat} : ErrItemOK input ⟨.tError, p, [clsBraces]⟩ :=
  ⟨fun h => by rcases h with h | h <;> simp [clsTag, clsLiteral, clsBraces] at h,
   fun h => by simp [clsBraces, clsString] at h, fun h => by simp [clsComment, clsBraces] at h,
   fun h => by simp [clsSoyDoc, clsBraces] at h, fun h => by simp [clsName, clsBraces] at h⟩

/-- a bad name after `.` / `?.` is reported at the `.` / the `?` -/
theorem name_err {input : Array UInt8} {p : Nat} (h : byteAt input p = 46 ∨ byteAt input p = 63) :
    ErrItemOK input ⟨.tError, p, [clsName]⟩ :=
  ⟨fun h => by rcases h with h | h <;> simp [clsTag, clsLiteral, clsName] at h, fun h => by simp [clsName, clsString] at h,
   fun h => by simp [clsComment, clsName] at h, fun h => by simp [clsSoyDoc, clsName] at h, fun _ => h⟩

theorem str_err {input : Array UInt8} {p : Nat} (h : byteAt input p = 34 ∨ byteAt input p = 39) :
    ErrItemOK input ⟨.tError, p, [clsString]⟩ :=
  ⟨fun h => by rcases h with h | h <;> simp [clsTag, clsLiteral, clsString] at h, fun _ => h,
   fun h => by simp [clsComment, clsString] at h, fun h => by simp [clsSoyDoc, clsString] at h,
   fun h => by simp [clsName, clsString] at h⟩

theorem cmt_err {input : Array UInt8} {p : Nat} (h : byteAt input p = 47 ∧ byteAt input (p + 1) = 42) :
    ErrItemOK input ⟨.tError, p, [clsComment]⟩ :=
  ⟨fun h => by rcases h with h | h <;> simp [clsTag, clsLiteral, clsComment] at h,
   fun h => by simp [clsComment, clsString] at h, fun _ => h, fun h => by simp [clsSoyDoc, clsComment] at h,
   fun h => by simp [clsName, clsComment] at h⟩

theorem doc_err {input : Array UInt8} {p : Nat}
    (h : byteAt input p = 47 ∧ byteAt input (p + 1) = 42 ∧ byteAt input (p + 2) = 42) :
    ErrItemOK input ⟨.tError, p, [clsSoyDoc]⟩ :=
  ⟨fun h => by rcases h with h | h <;> simp [clsTag, clsLiteral, clsSoyDoc] at h,
   fun h => by simp [clsSoyDoc, clsString] at h, fun h => by simp [clsSoyDoc, clsComment] at h, fun _ => h,
   fun h => by simp [clsSoyDoc, clsName] at h⟩

/-- what a state function must deliver: it returns (no panic); if it hands over to a next
    state, the invariant holds again and the measure went down; if it ends the scan (nil
    state), the last item it sent is EOF or Error -/
def Post (n : Int) (s : St) (l : Lexer) (res : Option St × Lexer) : Prop :=
  (∀ s', res.1 = some s' → (Good n res.2 ∧ Extra s' res.2) ∧ phi n s' res.2 < phi n s l) ∧
  (res.1 = none → EndsOK res.2 ∧ ((res.2.mp : Int) ≤ n ∧ res.2.cnt ≤ 2 * n + 1 ∧ res.2.tot ≤ n + 1) ∧ res.2.badInit = 0 ∧ ErrAt res.2) ∧
  res.2.input = l.input

theorem errorf_sat {n : Int} {s : St} {l0 l : Lexer} (h : l.pos ≤ n ∧ (l.mp : Int) ≤ n ∧ (l.bad = 0 ∧ l.cnt ≤ 2 * n ∧ l.tot ≤ n)) (hi : l.input = l0.input) :
    Sat (errorf l) (Post n s l0) := by
  refine ⟨_, rfl, fun _ h => absurd h (by simp), fun _ => ⟨⟨{ typ := .tError, pos := l.pos.toNat, val := [] }, by simp, Or.inr rfl⟩, ?_, ?_, ?_⟩, hi⟩
  · refine ⟨by simp only [mp_push']; omega, ?_⟩
    have := h.2.2.2
    simp only [Lexer.cnt, Lexer.tot, Array.size_push, Array.toList_push, List.map_append, List.sum_append, List.map_cons,
      List.map_nil, List.sum_cons, List.sum_nil, List.length_nil, List.length_cons] at this ⊢
    omega
  · rw [badInit_push']; exact h.2.2.1
  · intro it hb _
    simp only [Array.back?_push, Option.some.injEq] at hb
    subst hb
    exact ErrItemOK.nil _ _

theorem errorfAt_sat {n : Int} {s : St} {l0 l : Lexer} {pos : Int} {cls : UInt8} (h : pos ≤ n ∧ (l.mp : Int) ≤ n ∧ (l.bad = 0 ∧ l.cnt ≤ 2 * n ∧ l.tot ≤ n))
    (hi : l.input = l0.input) (he : ErrItemOK l.input ⟨.tError, pos.toNat, [cls]⟩) :
    Sat (errorfAt l pos cls) (Post n s l0) := by
  refine ⟨_, rfl, fun _ h => absurd h (by simp), fun _ => ⟨⟨{ typ := .tError, pos := pos.toNat, val := [cls] }, by simp, Or.inr rfl⟩, ?_, ?_, ?_⟩, hi⟩
  · refine ⟨by simp only [mp_push']; omega, ?_⟩
    have := h.2.2.2
    simp only [Lexer.cnt, Lexer.tot, Array.size_push, Array.toList_push, List.map_append, List.sum_append, List.map_cons,
      List.map_nil, List.sum_cons, List.sum_nil, List.length_nil, List.length_cons] at this ⊢
    omega
  · rw [badInit_push']; exact h.2.2.1
  · intro it hb _
    simp only [Array.back?_push, Option.some.injEq] at hb
    subst hb
    exact he

theorem emit_items {l l' : Lexer} {t : ItemType} (h : l.emit t = some l') :
    ∃ it, l'.items.back? = some it ∧ it.typ = t := by
  unfold Lexer.emit at h
  simp only at h
  split at h
  · exact absurd h (by simp)
  · simp only [Option.some.injEq] at h
    subst h
    rename_i v _
    exact ⟨{ typ := t, pos := (if l.pos > l.len then { l with pos := l.len } else l).pos.toNat, val := v },
      by simp, rfl⟩


/-- linear arithmetic over lexer positions, after normalising the record projections -/
macro "lx" : tactic => `(tactic|
  first
  | omega
  | ((try simp only [backup_pos, backup_start, backup_width, backup_input, ignore_pos, ignore_start,
      ignore_width, ignore_input, addPos_pos, addPos_start, addPos_width, addPos_input, backup_items, ignore_items,
      addPos_items, backup_tagStart, ignore_tagStart, addPos_tagStart, backup_tagBad, ignore_tagBad, addPos_tagBad, backup_cnt, ignore_cnt, addPos_cnt, backup_tot, ignore_tot, addPos_tot, Lexer.len, Lexer.mp, Lexer.bad, Lexer.cnt, Lexer.tot, eof] at *) <;>
    omega))

theorem Post.of {n : Int} {s s' : St} {l l' : Lexer}
    (hn : l'.len = n ∧ (l'.mp : Int) ≤ n ∧ 0 ≤ l'.tagStart ∧ l'.tagStart ≤ n ∧ (l'.bad = 0 ∧ l'.cnt ≤ 2 * l'.start ∧ l'.tot ≤ l'.start) ∧ l'.tagBad = 0) (h0 : 0 ≤ l'.start)
    (h1 : l'.start ≤ l'.pos) (h2 : l'.pos ≤ n) (hle : l.pos ≤ l'.pos)
    (ha : l'.pos = l.pos → l.pos < n → rankA s' < rankA s)
    (hb : l'.pos = l.pos → ¬ l.pos < n → rankB s' < rankB s) (hx : Extra s' l') (hi : l'.input = l.input) :
    Post n s l (some s', l') := by
  refine ⟨?_, fun h => absurd h (by simp), hi⟩
  intro s'' hs
  simp only [Option.some.injEq] at hs
  subst hs
  refine ⟨⟨⟨hn, h0, h1, h2⟩, hx⟩, ?_⟩
  by_cases h : l'.pos = l.pos
  · exact phi_lt_of_same h (ha h) (hb h)
  · exact phi_lt_of_adv (by simp only at h ⊢; omega) h2

theorem Post.nil {n : Int} {s : St} {l l' : Lexer} (h : EndsOK l') (hm : ((l'.mp : Int) ≤ n ∧ l'.cnt ≤ 2 * n + 1 ∧ l'.tot ≤ n + 1) ∧ l'.badInit = 0)
    (he : ErrAt l') (hi : l'.input = l.input) : Post n s l (none, l') :=
  ⟨fun _ h => absurd h (by simp), fun _ => ⟨h, hm.1, hm.2, he⟩, hi⟩

theorem lookup_snd_mem {α : Type} [BEq α] (k : α) : ∀ (l : List (α × ItemType)) (v : ItemType),
    l.lookup k = some v → v ∈ l.map (·.2) := by
  intro l
  induction l with
  | nil => intro v h; simp [List.lookup] at h
  | cons p r ih =>
    intro v h
    obtain ⟨k', v'⟩ := p
    simp only [List.lookup] at h
    split at h
    · simp only [Option.some.injEq] at h; subst h; simp
    · have := ih v h; simp only [List.map_cons, List.mem_cons]; exact Or.inr this

theorem symbols_vals_safe : ∀ t ∈ Gen.symbols.map (·.2), sliced1 t = false ∧ sliced2 t = false ∧ notEnd t = true := by decide
theorem builtins_vals_safe : ∀ t ∈ Gen.builtinIdents.map (·.2), sliced1 t = false ∧ sliced2 t = false ∧ notEnd t = true := by decide

theorem symbols_lookup_ok {k : Bytes} {t : ItemType} {n : Int} (h : Gen.symbols.lookup k = some t) : emitOK t n := by
  have := symbols_vals_safe t (lookup_snd_mem k _ t h)
  exact emitOK_safe this.1 this.2.1 this.2.2

theorem symbols_getD_ok (r : Int) (n : Int)
    (h : r = 42 ∨ r = 47 ∨ r = 37 ∨ r = 43 ∨ r = 58 ∨ r = 40 ∨ r = 41) :
    emitOK ((Gen.symbols.lookup [r.toNat.toUInt8]).getD .tInvalid) n := by
  rcases h with rfl | rfl | rfl | rfl | rfl | rfl | rfl <;>
    exact emitOK_safe (by decide) (by decide) (by decide)

theorem builtins_lookup_ok {k : Bytes} {t : ItemType} {n : Int} (h : Gen.builtinIdents.lookup k = some t) : emitOK t n := by
  have := builtins_vals_safe t (lookup_snd_mem k _ t h)
  exact emitOK_safe this.1 this.2.1 this.2.2

/-- the emitted token type is not one the parser slices, or long enough -/
macro "eok" : tactic => `(tactic|
  first | exact emitOK_safe rfl rfl | (apply symbols_getD_ok; assumption) | (apply symbols_lookup_ok; assumption)
        | (apply builtins_lookup_ok; assumption) | assumption)

/-- `let (r, l) ← l.next` -/
macro "nx" r:ident l:ident hl:ident hs:ident hf:ident : tactic => `(tactic|
  (apply Sat.bind; apply next_sat (by lx); intro $r $l $hl $hs $hf; unfold NextFacts at $hf:ident; dsimp only))

/-- `let l ← l.emit t` -/
macro "em" l:ident hl:ident hp:ident hs:ident hw:ident : tactic => `(tactic|
  (apply emit_sat (by lx) (by lx) (by lx) (by eok);
   intro $l $hl $hp $hs $hw))

/-- `l'.input = l.input` from the frame facts in the context -/
macro "inq" : tactic => `(tactic|
  first | rfl | assumption | (simp only [backup_input, ignore_input, addPos_input, *]))

/-- the entry condition `Extra s' l'` of the next state, when it is trivial or linear arithmetic -/
macro "exq" : tactic => `(tactic|
  first | trivial | (simp only [Extra]; first | trivial | lx))

/-- `pure (some s', l')` at the end of a state function -/
macro "fin" : tactic => `(tactic|
  (apply Sat.ret; apply Post.of (by lx) (by lx) (by lx) (by lx) (by lx)
    (by first | (intro _ _; decide) | (intro _ _; lx))
    (by first | (intro _ _; decide) | (intro _ _; lx)) (by exq) (by inq)))

theorem sliceOf_sat {s : Array UInt8} {a b : Int} {Q : Bytes → Prop}
    (h0 : 0 ≤ a) (h1 : a ≤ b) (h2 : b ≤ s.size)
    (hq : ∀ v : Bytes, (v.length : Int) = b - a → Q v) : Sat (sliceOf s a b) Q := by
  unfold sliceOf
  rw [if_pos ⟨h0, h1, h2⟩]
  refine ⟨_, rfl, hq _ ?_⟩
  simp only [Array.length_toList, Array.size_extract]
  omega

theorem indexOf_sat {s : Array UInt8} {i : Int} {Q : UInt8 → Prop}
    (h0 : 0 ≤ i) (h1 : i < s.size) (hq : ∀ b, Q b) : Sat (indexOf s i) Q := by
  unfold indexOf
  rw [if_pos ⟨h0, h1⟩]
  exact ⟨_, rfl, hq _⟩

theorem hasPrefixAt_sat {s : Array UInt8} {pos : Int} {pre : Bytes} {Q : Bool → Prop}
    (h0 : 0 ≤ pos) (h1 : pos ≤ s.size)
    (hq : ∀ b : Bool, (b = true → pos + pre.length ≤ s.size) → Q b) : Sat (hasPrefixAt s pos pre) Q := by
  cases h : hasPrefixAt s pos pre with
  | none =>
    unfold hasPrefixAt at h
    rw [if_pos ⟨h0, h1⟩] at h
    exact absurd h (by simp)
  | some b =>
    refine ⟨b, rfl, hq b ?_⟩
    intro hb
    subst hb
    exact (hasPrefixAt_true h).2

theorem stringsIndex_le (needle : Bytes) : ∀ (hay : Bytes) (i : Nat),
    stringsIndex needle hay = some i → i + needle.length ≤ hay.length := by
  intro hay
  induction hay with
  | nil => intro i h; simp [stringsIndex] at h
  | cons b t ih =>
    intro i h
    unfold stringsIndex at h
    split at h
    · rename_i hp
      simp only [Option.some.injEq] at h
      subst h
      have := List.IsPrefix.length_le (List.isPrefixOf_iff_prefix.mp hp)
      omega
    · simp only [Option.map_eq_some_iff] at h
      obtain ⟨j, hj, rfl⟩ := h
      have := ih j hj
      simp only [List.length_cons]
      omega

theorem emitInside_sat {n : Int} {s : St} {l0 l : Lexer} {t : ItemType}
    (hn : l.len = n ∧ (l.mp : Int) ≤ n ∧ 0 ≤ l.tagStart ∧ l.tagStart ≤ n ∧ (l.bad = 0 ∧ l.cnt ≤ 2 * l.start ∧ l.tot ≤ l.start) ∧ l.tagBad = 0) (h0 : 0 ≤ l.start) (h1 : l.start < l.pos) (h2 : l.pos ≤ n) (hadv : l0.pos < l.pos)
    (hok : emitOK t (l.pos - l.start)) (hi0 : l.input = l0.input) :
    Sat (emitInside l t) (Post n s l0) := by
  unfold emitInside
  apply Sat.bind
  em l1 hl1 hp1 hs1 hw1
  fin

/-! ## State functions -/

theorem byteAt_pos_lt {a : Array UInt8} {i : Nat} (h : byteAt a i ≠ 0) : i < a.size := by
  by_cases hi : i < a.size
  · exact hi
  · exfalso; apply h
    simp [byteAt, Array.getD, hi]

theorem lexLeftDelim_ok {n : Int} {l : Lexer} (hg : Good n l) (hx : Extra .leftDelim l) :
    Sat (lexLeftDelim l) (Post n .leftDelim l) := by
  obtain ⟨hn, hs0, hsp, hpn⟩ := hg
  have hlt : l.pos < l.len := by
    have := byteAt_pos_lt (a := l.input) (i := l.pos.toNat) (by rw [hx.2]; decide)
    simp only [Lexer.len]; omega
  unfold lexLeftDelim
  -- `l.tagStart = l.start`: lexText has seen the `{` that stands here
  have ht0 : ({ l with tagStart := l.start } : Lexer).tagBad = 0 := by
    simp only [Extra] at hx
    unfold Lexer.tagBad
    simp only
    rw [if_pos (Or.inr (by rw [hx.1]; exact hx.2))]
  nx r1 l1 hl1 hs1 hf1
  nx r2 l2 hl2 hs2 hf2
  apply Sat.bind
  split
  · have ht2 : ({ l2 with doubleDelim := true } : Lexer).tagBad = l2.tagBad := rfl
    em l3 hl3 hp3 hs3 hw3
    fin
  · have ht2 : ({ l2.backup with doubleDelim := false } : Lexer).tagBad = l2.tagBad := rfl
    em l3 hl3 hp3 hs3 hw3
    fin

theorem lexRightDelim_ok {n : Int} {l : Lexer} (hg : Good n l) (hx : Extra .rightDelim l) :
    Sat (lexRightDelim l) (Post n .rightDelim l) := by
  obtain ⟨hn, hs0, hsp, hpn⟩ := hg
  simp only [Extra] at hx
  unfold lexRightDelim
  apply Sat.bind
  apply badDoubleClose_sat (by lx) (by lx)
  intro b l1 hl1 hs1 hp1 hle1
  dsimp only
  split
  · first | exact errorf_sat (by lx) (by inq) | exact errorfAt_sat (by lx) (by inq) braces_err
  · apply Sat.bind
    em l2 hl2 hp2 hs2 hw2
    fin

theorem lexRightDelimEnd_ok {n : Int} {l : Lexer} (hg : Good n l) (hx : Extra .rightDelimEnd l) :
    Sat (lexRightDelimEnd l) (Post n .rightDelimEnd l) := by
  obtain ⟨hn, hs0, hsp, hpn⟩ := hg
  simp only [Extra] at hx
  unfold lexRightDelimEnd
  nx r1 l1 hl1 hs1 hf1
  apply Sat.bind
  apply badDoubleClose_sat (by lx) (by lx)
  intro b l2 hl2 hs2 hp2 hle2
  dsimp only
  split
  · first | exact errorf_sat (by lx) (by inq) | exact errorfAt_sat (by lx) (by inq) braces_err
  · apply Sat.bind
    em l3 hl3 hp3 hs3 hw3
    fin

theorem lexBeginTag_ok {n : Int} {l : Lexer} (hg : Good n l) (hx : Extra .beginTag l) :
    Sat (lexBeginTag l) (Post n .beginTag l) := by
  obtain ⟨hn, hs0, hsp, hpn⟩ := hg
  simp only [Extra] at hx
  unfold lexBeginTag
  apply Sat.bind
  apply peek_sat (by lx)
  intro r l1 hl1 hs1 hp1 hf1
  dsimp only
  split
  · fin
  · fin

end SoyVerif.Model.Lex
