/-
  Round-trip steps for the primaries with structure: data references (all access forms),
  globals with dotted names, function calls, list literals and map literals
  (continuation of Lemmas/ParserRound.lean).
-/
import SoyVerif.Lemmas.ParserRound

set_option linter.unusedSimpArgs false
set_option linter.unusedVariables false

namespace SoyVerif.Lemmas.ParserRound
open SoyVerif SoyVerif.Model SoyVerif.Model.Parser SoyVerif.Model.PrintTokens SoyVerif.Model.Printer
open SoyVerif.Lemmas.ParserBasic

theorem tail1_cons (a : UInt8) (r : Bytes) : tail1 (a :: r) = pure r := rfl

theorem tk_eq {it : Item} {t : Tk} (h1 : it.typ = t.typ) (h2 : it.val = t.val) : it.tk = t := by
  cases t; cases it; simp_all [Item.tk]

/-- closing brackets, the comma and the end of input may follow any expression — the end of input
    being `tEOF` in a file and the Error item "unclosed tag" of `lexInsideTag` in `parse.Expr`
    (expression mode: the lexer starts inside a "tag" that never closes) -/
def isTerm (t : ItemType) : Prop := t = .tRightParen ∨ t = .tRightBracket ∨ t = .tComma ∨ t = .tEOF ∨ t = .tError

section
variable (pf : Bytes → Option UInt64) (T : TableOK)
include T

theorem okAfter_term {t : ItemType} (ht : isTerm t) (e : Expr) : okAfter e t := by
  have hb : isBinaryOp t = false := by
    rw [isBinaryOp_eq T]; rcases ht with rfl | rfl | rfl | rfl | rfl <;> rfl
  exact ⟨by rcases ht with rfl | rfl | rfl | rfl | rfl <;> simp [noAccess],
    edgeOk_of_stop hb (by rcases ht with rfl | rfl | rfl | rfl | rfl <;> simp)⟩

theorem stops_term {t : ItemType} (ht : isTerm t) (p : Nat) : Stops p t := by
  have hb : isBinaryOp t = false := by
    rw [isBinaryOp_eq T]; rcases ht with rfl | rfl | rfl | rfl | rfl <;> rfl
  exact ⟨Or.inl hb, fun _ => by rcases ht with rfl | rfl | rfl | rfl | rfl <;> simp⟩

/-- an expression slot at level 0 in front of a terminator: the direct form of `AStmt` -/
theorem slot0 {e : Expr} (hA : AStmt pf e) {te : List Tk} {h : Tk} {rest : List Tk} {F : Nat} {st : PState}
    (hS : Slot 0 e (Renders pf e) te) (ht : isTerm h.typ) (hst : At st (te ++ h :: rest)) (hF : 1 + 8 * te.length ≤ F) :
    ∃ r st2, parseExpr pf F 0 st = .ok (r, st2) ∧ erase r = erase e ∧ At1 st2 (h :: rest) :=
  hA 0 te h rest 0 1 F (Post e (h :: rest)) st hS (Nat.zero_le _) (fun _ => okAfter_term T ht e)
    (cont_stop pf (stops_term T ht 0)) hst hF

/-! ### data references -/

def AccA : Access → Prop
  | .expr _ _ e => AStmt pf e
  | _ => True

def AllAcc : AccessList → Prop
  | .nil => True
  | .cons a r => AccA pf a ∧ AllAcc r

theorem accs_ok : (l : AccessList) → AllAcc pf l →
    ∀ (ts : List Tk) (h : Tk) (rest : List Tk) (F : Nat) (st : PState),
      RendersAccs pf l ts → noAccess h.typ → At st (ts ++ h :: rest) → 8 * ts.length + 1 ≤ F →
      ∃ l' st2, parseDataRef pf F st = .ok (l', st2) ∧ eraseAL l' = eraseAL l ∧ At1 st2 (h :: rest)
  | .nil, _, ts, h, rest, F, st, hR, hna, hst, hF => by
    rw [RendersAccs] at hR; subst hR
    obtain ⟨F', rfl⟩ : ∃ F', F = F' + 1 := ⟨F - 1, by omega⟩
    have hst' : At st (h :: rest) := by simpa using hst
    obtain ⟨it, st1, hn, ht, hv, hj⟩ := next_at hst'
    obtain ⟨st2, hb, h2⟩ := backup_just hj
    rw [tk_eq ht hv] at h2
    refine ⟨.nil, st2, ?_, rfl, h2⟩
    unfold parseDataRef
    rw [bind_ok hn]
    obtain ⟨n1, n2, n3, n4, n5, n6, n7⟩ := hna
    rw [← ht] at n1 n2 n3 n4 n5 n6
    generalize it.typ = ty at n1 n2 n3 n4 n5 n6
    cases ty <;> first | contradiction | (dsimp only; rw [bind_ok hb]; rfl)
  | .cons a r, hall, ts, h, rest, F, st, hR, hna, hst, hF => by
    rw [RendersAccs] at hR; obtain ⟨ta, tr, hRa, hRr, rfl⟩ := hR
    obtain ⟨F', rfl⟩ : ∃ F', F = F' + 1 := ⟨F - 1, by omega⟩
    have ih := accs_ok r hall.2
    cases a with
    | key pos ns k =>
      rw [RendersAcc] at hRa; subst hRa
      simp at hF
      cases ns with
      | true =>
        have hst' : At st (⟨.tQuestionDotIdent, 63 :: 46 :: k⟩ :: (tr ++ h :: rest)) := by simpa using hst
        obtain ⟨it, st1, hn, ht, hv, hj⟩ := next_at hst'
        have ht' : it.typ = .tQuestionDotIdent := ht
        have hv' : it.val = 63 :: 46 :: k := hv
        obtain ⟨l', st2, h2, he, h2a⟩ := ih tr h rest F' st1 hRr hna hj.at (by omega)
        refine ⟨.cons (.key it.pos true k) l', st2, ?_, by simp [eraseAL, eraseA, he], h2a⟩
        unfold parseDataRef
        rw [bind_ok hn]
        simp only [ht', hv', tail1_cons, pure_bind]
        rw [bind_ok h2]; rfl
      | false =>
        have hst' : At st (⟨.tDotIdent, 46 :: k⟩ :: (tr ++ h :: rest)) := by simpa using hst
        obtain ⟨it, st1, hn, ht, hv, hj⟩ := next_at hst'
        have ht' : it.typ = .tDotIdent := ht
        have hv' : it.val = 46 :: k := hv
        obtain ⟨l', st2, h2, he, h2a⟩ := ih tr h rest F' st1 hRr hna hj.at (by omega)
        refine ⟨.cons (.key it.pos false k) l', st2, ?_, by simp [eraseAL, eraseA, he], h2a⟩
        unfold parseDataRef
        rw [bind_ok hn]
        simp only [ht', hv', tail1_cons, pure_bind]
        rw [bind_ok h2]; rfl
    | index pos ns i =>
      rw [RendersAcc] at hRa; obtain ⟨d, hd, rfl⟩ := hRa
      simp at hF
      cases ns with
      | true =>
        have hst' : At st (⟨.tQuestionDotIndex, 63 :: 46 :: d⟩ :: (tr ++ h :: rest)) := by simpa using hst
        obtain ⟨it, st1, hn, ht, hv, hj⟩ := next_at hst'
        have ht' : it.typ = .tQuestionDotIndex := ht
        have hv' : it.val = 63 :: 46 :: d := hv
        obtain ⟨l', st2, h2, he, h2a⟩ := ih tr h rest F' st1 hRr hna hj.at (by omega)
        refine ⟨.cons (.index it.pos true i) l', st2, ?_, by simp [eraseAL, eraseA, he], h2a⟩
        unfold parseDataRef
        rw [bind_ok hn]
        simp only [ht', hv', tail1_cons, pure_bind, hd]
        rw [bind_ok h2]; rfl
      | false =>
        have hst' : At st (⟨.tDotIndex, 46 :: d⟩ :: (tr ++ h :: rest)) := by simpa using hst
        obtain ⟨it, st1, hn, ht, hv, hj⟩ := next_at hst'
        have ht' : it.typ = .tDotIndex := ht
        have hv' : it.val = 46 :: d := hv
        obtain ⟨l', st2, h2, he, h2a⟩ := ih tr h rest F' st1 hRr hna hj.at (by omega)
        refine ⟨.cons (.index it.pos false i) l', st2, ?_, by simp [eraseAL, eraseA, he], h2a⟩
        unfold parseDataRef
        rw [bind_ok hn]
        simp only [ht', hv', tail1_cons, pure_bind, hd]
        rw [bind_ok h2]; rfl
    | expr pos ns e =>
      rw [RendersAcc] at hRa; obtain ⟨te, hS, rfl⟩ := hRa
      have hA : AStmt pf e := hall.1
      simp at hF
      cases ns with
      | true =>
        have hst' : At st (tQKey :: (te ++ tRB :: (tr ++ h :: rest))) := by simpa using hst
        obtain ⟨it, st1, hn, ht, hv, hj⟩ := next_at hst'
        have ht' : it.typ = .tQuestionKey := ht
        obtain ⟨re, st2, h2, hee, h2a⟩ := slot0 pf T hA hS (h := tRB) (Or.inr (Or.inl rfl)) hj.at (F := F') (by omega)
        obtain ⟨it3, st3, h3, _, _, hj3⟩ := expect_at h2a.at
        obtain ⟨l', st4, h4, he, h4a⟩ := ih tr h rest F' st3 hRr hna hj3.at (by omega)
        refine ⟨.cons (.expr it.pos true re) l', st4, ?_, by simp [eraseAL, eraseA, he, hee], h4a⟩
        unfold parseDataRef
        rw [bind_ok hn]
        simp only [ht']
        rw [bind_ok h2]
        have h3' : expect ItemType.tRightBracket st2 = .ok (it3, st3) := h3
        rw [bind_ok h3', bind_ok h4]; rfl
      | false =>
        have hst' : At st (tLB :: (te ++ tRB :: (tr ++ h :: rest))) := by simpa using hst
        obtain ⟨it, st1, hn, ht, hv, hj⟩ := next_at hst'
        have ht' : it.typ = .tLeftBracket := ht
        obtain ⟨re, st2, h2, hee, h2a⟩ := slot0 pf T hA hS (h := tRB) (Or.inr (Or.inl rfl)) hj.at (F := F') (by omega)
        obtain ⟨it3, st3, h3, _, _, hj3⟩ := expect_at h2a.at
        obtain ⟨l', st4, h4, he, h4a⟩ := ih tr h rest F' st3 hRr hna hj3.at (by omega)
        refine ⟨.cons (.expr it.pos false re) l', st4, ?_, by simp [eraseAL, eraseA, he, hee], h4a⟩
        unfold parseDataRef
        rw [bind_ok hn]
        simp only [ht']
        rw [bind_ok h2]
        have h3' : expect ItemType.tRightBracket st2 = .ok (it3, st3) := h3
        rw [bind_ok h3', bind_ok h4]; rfl

theorem ft_dataRef (p : Nat) (k : Bytes) {acc : AccessList} (hall : AllAcc pf acc) : FTStmt pf (.dataRef p k acc) := by
  intro ts h rest F st hR hok hst hF
  rw [Renders] at hR; obtain ⟨ta, hRa, rfl⟩ := hR
  simp at hF
  obtain ⟨F', rfl⟩ : ∃ F', F = F' + 1 := ⟨F - 1, by omega⟩
  obtain ⟨F'', rfl⟩ : ∃ F'', F' = F'' + 1 := ⟨F' - 1, by omega⟩
  have hst' : At st (⟨.tDollarIdent, 36 :: k⟩ :: (ta ++ h :: rest)) := by simpa using hst
  obtain ⟨it, st1, ht, hv, hj, heq⟩ := ft_value pf T (F := F'' + 1) hst' rfl rfl rfl
  have ht' : it.typ = .tDollarIdent := ht
  have hv' : it.val = 36 :: k := hv
  obtain ⟨l', st2, h2, he, h2a⟩ := accs_ok pf T acc hall ta h rest F'' st1 hRa hok.1 hj.at (by omega)
  refine ⟨.dataRef it.pos k l', st2, ?_, by simp [erase, he], h2a.at⟩
  rw [heq]; unfold newValueNode
  simp only [ht', hv', tail1_cons, pure_bind]
  rw [bind_ok h2]; rfl


/-! ### globals -/

omit T in
theorem global_loop (pos : Nat) (h : Tk) (rest : List Tk) (hna : noAccess h.typ) :
    ∀ (segs : List Bytes) (name : Bytes) (nxt : Item) (ts' : List Tk) (st : PState) (F : Nat),
      Just st nxt ts' → nxt.tk :: ts' = segs.map tDotIdent ++ h :: rest → segs.length + 1 ≤ F →
      ∃ st2, newGlobalNode pf F pos name nxt st = .ok (.global pos (name ++ segs.flatten), st2) ∧ At1 st2 (h :: rest) := by
  intro segs
  induction segs with
  | nil =>
    intro name nxt ts' st F hj heq hF
    obtain ⟨F', rfl⟩ : ∃ F', F = F' + 1 := ⟨F - 1, by omega⟩
    simp at heq
    obtain ⟨st2, hb, h2⟩ := backup_just hj
    rw [heq.1, heq.2] at h2
    refine ⟨st2, ?_, h2⟩
    unfold newGlobalNode
    have hty : (nxt.typ == ItemType.tDotIdent) = false := by
      have : nxt.typ = h.typ := by rw [← heq.1]; rfl
      rw [this]; simp [hna.1]
    simp only [hty, Bool.false_eq_true, if_false]
    rw [bind_ok hb]; simp; rfl
  | cons s segs ih =>
    intro name nxt ts' st F hj heq hF
    obtain ⟨F', rfl⟩ : ∃ F', F = F' + 1 := ⟨F - 1, by omega⟩
    simp at heq
    obtain ⟨t, ts'', hts⟩ : ∃ t ts'', segs.map tDotIdent ++ h :: rest = t :: ts'' := by
      cases segs with
      | nil => exact ⟨h, rest, rfl⟩
      | cons s2 segs2 => exact ⟨tDotIdent s2, segs2.map tDotIdent ++ h :: rest, rfl⟩
    have hat : At st (t :: ts'') := by rw [← hts, ← heq.2]; exact hj.at
    obtain ⟨n2, st1, hn, ht, hv, hj1⟩ := next_at hat
    obtain ⟨st2, h2, h2a⟩ := ih (name ++ s) n2 ts'' st1 F' hj1 (by rw [tk_eq ht hv, hts]) (by simp at hF; omega)
    refine ⟨st2, ?_, h2a⟩
    unfold newGlobalNode
    have hty : nxt.typ = ItemType.tDotIdent := by
      have : nxt.typ = (tDotIdent s).typ := by rw [← heq.1]; rfl
      exact this
    have hval : nxt.val = s := by
      have : nxt.val = (tDotIdent s).val := by rw [← heq.1]; rfl
      exact this
    simp only [hty, beq_self_eq_true, if_true]
    rw [bind_ok hn, hval, h2]
    simp

theorem ft_global (p : Nat) (n : Bytes) : FTStmt pf (.global p n) := by
  intro ts h rest F st hR hok hst hF
  rw [Renders] at hR; obtain ⟨n0, segs, rfl, rfl⟩ := hR
  simp at hF
  obtain ⟨F', rfl⟩ : ∃ F', F = F' + 1 := ⟨F - 1, by omega⟩
  obtain ⟨F'', rfl⟩ : ∃ F'', F' = F'' + 1 := ⟨F' - 1, by omega⟩
  have hst' : At st (tIdent n0 :: (segs.map tDotIdent ++ h :: rest)) := by simpa using hst
  obtain ⟨it, st1, ht, hv, hj, heq⟩ := ft_value pf T (F := F'' + 1) hst' rfl rfl rfl
  have ht' : it.typ = .tIdent := ht
  have hv' : it.val = n0 := hv
  obtain ⟨t, ts'', hts⟩ : ∃ t ts'', segs.map tDotIdent ++ h :: rest = t :: ts'' := by
    cases segs with
    | nil => exact ⟨h, rest, rfl⟩
    | cons s2 segs2 => exact ⟨tDotIdent s2, segs2.map tDotIdent ++ h :: rest, rfl⟩
  have hat : At st1 (t :: ts'') := by rw [← hts]; exact hj.at
  obtain ⟨nxt, st2, hn, hnt, hnv, hj2⟩ := next_at hat
  have hnlp : (nxt.typ != ItemType.tLeftParen) = true := by
    rw [hnt]
    cases segs with
    | nil => simp at hts; rw [← hts.1]; simp [hok.1.2.2.2.2.2.2]
    | cons s2 segs2 => simp at hts; rw [← hts.1]; simp [tDotIdent]
  obtain ⟨st3, h3, h3a⟩ := global_loop pf it.pos h rest hok.1 segs n0 nxt ts'' st2 F'' hj2
    (by rw [tk_eq hnt hnv, hts]) (by omega)
  refine ⟨.global it.pos (n0 ++ segs.flatten), st3, ?_, rfl, h3a.at⟩
  rw [heq]; unfold newValueNode
  simp only [ht', hv']
  rw [bind_ok hn]
  simp only [hnlp, if_true]
  exact h3

/-! ### argument lists and list items -/

def AllA : ExprList → Prop
  | .nil => True
  | .cons e r => AStmt pf e ∧ AllA r

theorem args_ok : (r : ExprList) → AllA pf r →
    ∀ (e : Expr) (te tr rest : List Tk) (F : Nat) (st : PState),
      AStmt pf e → Slot 0 e (Renders pf e) te → RendersSeq pf r tr → At st (te ++ tr ++ tRP :: rest) →
      8 * (te.length + tr.length) + 2 ≤ F →
      ∃ l' st2, parseFuncArgs pf F st = .ok (l', st2) ∧ eraseL l' = eraseL (.cons e r) ∧ At st2 rest
  | .nil, _, e, te, tr, rest, F, st, hA, hS, hR, hst, hF => by
    rw [RendersSeq] at hR; subst hR
    obtain ⟨F', rfl⟩ : ∃ F', F = F' + 1 := ⟨F - 1, by omega⟩
    have hst' : At st (te ++ tRP :: rest) := by simpa using hst
    obtain ⟨re, st2, h2, hee, h2a⟩ := slot0 pf T hA hS (h := tRP) (Or.inl rfl) hst' (F := F') (by simp at hF; omega)
    obtain ⟨it, st3, hn, ht, _, hj⟩ := next_at h2a.at
    have ht' : it.typ = .tRightParen := ht
    refine ⟨.cons re .nil, st3, ?_, by simp [eraseL, hee], hj.at⟩
    unfold parseFuncArgs
    rw [bind_ok h2, bind_ok hn]
    simp [ht']; rfl
  | .cons e2 r2, hall, e, te, tr, rest, F, st, hA, hS, hR, hst, hF => by
    rw [RendersSeq] at hR; obtain ⟨te2, tr2, hS2, hR2, rfl⟩ := hR
    obtain ⟨F', rfl⟩ : ∃ F', F = F' + 1 := ⟨F - 1, by omega⟩
    simp at hF
    have hst' : At st (te ++ tComma :: (te2 ++ tr2 ++ tRP :: rest)) := by simpa using hst
    obtain ⟨re, st2, h2, hee, h2a⟩ := slot0 pf T hA hS (h := tComma) (Or.inr (Or.inr (Or.inl rfl))) hst' (F := F') (by omega)
    obtain ⟨it, st3, hn, ht, _, hj⟩ := next_at h2a.at
    have ht' : it.typ = .tComma := ht
    obtain ⟨l', st4, h4, he, h4a⟩ := args_ok r2 hall.2 e2 te2 tr2 rest F' st3 hall.1 hS2 hR2 hj.at (by omega)
    refine ⟨.cons re l', st4, ?_, by simp [eraseL] at he ⊢; simp [hee, he], h4a⟩
    unfold parseFuncArgs
    rw [bind_ok h2, bind_ok hn]
    simp only [ht', beq_self_eq_true, if_true]
    rw [bind_ok h4]; rfl

theorem items_ok : (r : ExprList) → AllA pf r →
    ∀ (e : Expr) (te tr rest : List Tk) (F : Nat) (st : PState),
      AStmt pf e → Slot 0 e (Renders pf e) te → RendersSeq pf r tr → At st (te ++ tr ++ tRB :: rest) →
      8 * (te.length + tr.length) + 2 ≤ F →
      ∃ l' st2, parseListItems pf F st = .ok (l', st2) ∧ eraseL l' = eraseL (.cons e r) ∧ At st2 rest
  | .nil, _, e, te, tr, rest, F, st, hA, hS, hR, hst, hF => by
    rw [RendersSeq] at hR; subst hR
    obtain ⟨F', rfl⟩ : ∃ F', F = F' + 1 := ⟨F - 1, by omega⟩
    have hst' : At st (te ++ tRB :: rest) := by simpa using hst
    obtain ⟨t0, te', hte, hstart⟩ := slot_head pf hS
    have hst0 : At st (t0 :: (te' ++ tRB :: rest)) := by rw [hte] at hst'; simpa using hst'
    obtain ⟨pk, st0, hpk, hpt, _, hpa⟩ := peek_at hst0
    have hc0 : (pk.typ == ItemType.tRightBracket) = false := by rw [hpt]; simp [hstart.2.2]
    have hst0' : At st0 (te ++ tRB :: rest) := by rw [hte]; simpa using hpa.at
    obtain ⟨re, st2, h2, hee, h2a⟩ := slot0 pf T hA hS (h := tRB) (Or.inr (Or.inl rfl)) hst0' (F := F') (by simp at hF; omega)
    obtain ⟨it, st3, hn, ht, _, hj⟩ := next_at h2a.at
    have ht' : it.typ = .tRightBracket := ht
    refine ⟨.cons re .nil, st3, ?_, by simp [eraseL, hee], hj.at⟩
    unfold parseListItems
    rw [bind_ok hpk]
    simp only [hc0, Bool.false_eq_true, if_false]
    rw [bind_ok h2, bind_ok hn]
    simp [ht']; rfl
  | .cons e2 r2, hall, e, te, tr, rest, F, st, hA, hS, hR, hst, hF => by
    rw [RendersSeq] at hR; obtain ⟨te2, tr2, hS2, hR2, rfl⟩ := hR
    obtain ⟨F', rfl⟩ : ∃ F', F = F' + 1 := ⟨F - 1, by omega⟩
    simp at hF
    have hst' : At st (te ++ tComma :: (te2 ++ tr2 ++ tRB :: rest)) := by simpa using hst
    obtain ⟨t0, te', hte, hstart⟩ := slot_head pf hS
    have hst0 : At st (t0 :: (te' ++ tComma :: (te2 ++ tr2 ++ tRB :: rest))) := by rw [hte] at hst'; simpa using hst'
    obtain ⟨pk, st0, hpk, hpt, _, hpa⟩ := peek_at hst0
    have hc0 : (pk.typ == ItemType.tRightBracket) = false := by rw [hpt]; simp [hstart.2.2]
    have hst0' : At st0 (te ++ tComma :: (te2 ++ tr2 ++ tRB :: rest)) := by rw [hte]; simpa using hpa.at
    obtain ⟨re, st2, h2, hee, h2a⟩ := slot0 pf T hA hS (h := tComma) (Or.inr (Or.inr (Or.inl rfl))) hst0' (F := F') (by omega)
    obtain ⟨it, st3, hn, ht, _, hj⟩ := next_at h2a.at
    have ht' : it.typ = .tComma := ht
    obtain ⟨l', st4, h4, he, h4a⟩ := items_ok r2 hall.2 e2 te2 tr2 rest F' st3 hall.1 hS2 hR2 hj.at (by omega)
    refine ⟨.cons re l', st4, ?_, by simp [eraseL] at he ⊢; simp [hee, he], h4a⟩
    unfold parseListItems
    rw [bind_ok hpk]
    simp only [hc0, Bool.false_eq_true, if_false]
    rw [bind_ok h2, bind_ok hn]
    have c1 : (ItemType.tComma == ItemType.tRightBracket) = false := rfl
    have c2 : (ItemType.tComma != ItemType.tComma) = false := rfl
    simp only [ht', c1, c2, Bool.false_eq_true, if_false]
    rw [bind_ok h4]; rfl

theorem ft_func (p : Nat) (n : Bytes) {args : ExprList} (hall : AllA pf args) : FTStmt pf (.func p n args) := by
  intro ts h rest F st hR hok hst hF
  cases args with
  | nil =>
    rw [Renders] at hR; subst hR
    simp at hF
    obtain ⟨F', rfl⟩ : ∃ F', F = F' + 1 := ⟨F - 1, by omega⟩
    obtain ⟨F'', rfl⟩ : ∃ F'', F' = F'' + 1 := ⟨F' - 1, by omega⟩
    obtain ⟨F3, rfl⟩ : ∃ F3, F'' = F3 + 1 := ⟨F'' - 1, by omega⟩
    have hst' : At st (tIdent n :: tLP :: tRP :: h :: rest) := by simpa using hst
    obtain ⟨it, st1, ht, hv, hj, heq⟩ := ft_value pf T (F := F3 + 1 + 1) hst' rfl rfl rfl
    have ht' : it.typ = .tIdent := ht
    have hv' : it.val = n := hv
    obtain ⟨nxt, st2, hn, hnt, _, hj2⟩ := next_at hj.at
    have hnt' : nxt.typ = .tLeftParen := hnt
    obtain ⟨pk, st3, hp, hpt, _, h3a⟩ := peek_at hj2.at
    have hpt' : pk.typ = .tRightParen := hpt
    obtain ⟨it4, st4, h4, _, _, hj4⟩ := next_at h3a.at
    refine ⟨.func it.pos n .nil, st4, ?_, rfl, hj4.at⟩
    rw [heq]; unfold newValueNode
    simp only [ht']
    rw [bind_ok hn]
    simp only [hnt', bne_self_eq_false, Bool.false_eq_true, if_false]
    unfold newFunctionNode
    rw [bind_ok hp]
    simp only [hpt', beq_self_eq_true, if_true]
    rw [bind_ok h4, hv']; rfl
  | cons e r =>
    rw [Renders] at hR; obtain ⟨te, tr, hS, hRr, rfl⟩ := hR
    simp at hF
    obtain ⟨F', rfl⟩ : ∃ F', F = F' + 1 := ⟨F - 1, by omega⟩
    obtain ⟨F'', rfl⟩ : ∃ F'', F' = F'' + 1 := ⟨F' - 1, by omega⟩
    obtain ⟨F3, rfl⟩ : ∃ F3, F'' = F3 + 1 := ⟨F'' - 1, by omega⟩
    have hst' : At st (tIdent n :: tLP :: (te ++ tr ++ tRP :: h :: rest)) := by simpa using hst
    obtain ⟨it, st1, ht, hv, hj, heq⟩ := ft_value pf T (F := F3 + 1 + 1) hst' rfl rfl rfl
    have ht' : it.typ = .tIdent := ht
    have hv' : it.val = n := hv
    obtain ⟨nxt, st2, hn, hnt, _, hj2⟩ := next_at hj.at
    have hnt' : nxt.typ = .tLeftParen := hnt
    obtain ⟨t, te', rfl, hstart⟩ := slot_head pf hS
    have hat2 : At st2 (t :: (te' ++ tr ++ tRP :: h :: rest)) := by simpa using hj2.at
    obtain ⟨pk, st3, hp, hpt, _, h3a⟩ := peek_at hat2
    have hpne : (pk.typ == ItemType.tRightParen) = false := by rw [hpt]; simp [hstart.1]
    obtain ⟨l', st4, h4, he, h4a⟩ := args_ok pf T r hall.2 e (t :: te') tr (h :: rest) F3 st3 hall.1 hS hRr
      (by simpa using h3a.at) (by simp at hF ⊢; omega)
    refine ⟨.func it.pos n l', st4, ?_, by simp [erase, he], h4a⟩
    rw [heq]; unfold newValueNode
    simp only [ht']
    rw [bind_ok hn]
    simp only [hnt', bne_self_eq_false, Bool.false_eq_true, if_false]
    unfold newFunctionNode
    rw [bind_ok hp]
    simp only [hpne, Bool.false_eq_true, if_false]
    rw [bind_ok h4, hv']; rfl


/-! ### list literals -/

theorem ft_list (p : Nat) {items : ExprList} (hall : AllA pf items) : FTStmt pf (.list p items) := by
  intro ts h rest F st hR hok hst hF
  cases items with
  | nil =>
    rw [Renders] at hR; subst hR
    simp at hF
    obtain ⟨F', rfl⟩ : ∃ F', F = F' + 1 := ⟨F - 1, by omega⟩
    obtain ⟨F'', rfl⟩ : ∃ F'', F' = F'' + 1 := ⟨F' - 1, by omega⟩
    obtain ⟨F3, rfl⟩ : ∃ F3, F'' = F3 + 1 := ⟨F'' - 1, by omega⟩
    have hst' : At st (tLB :: tRB :: h :: rest) := by simpa using hst
    obtain ⟨it, st1, ht, hv, hj, heq⟩ := ft_value pf T (F := F3 + 1 + 1) hst' rfl rfl rfl
    have ht' : it.typ = .tLeftBracket := ht
    obtain ⟨t1, st2, hn, hnt, _, hj2⟩ := next_at hj.at
    have hnt' : t1.typ = .tRightBracket := hnt
    refine ⟨.list it.pos .nil, st2, ?_, rfl, hj2.at⟩
    rw [heq]; unfold newValueNode
    simp only [ht']
    unfold parseListOrMap
    rw [bind_ok hn]
    have c1 : (ItemType.tRightBracket == ItemType.tColon) = false := rfl
    simp only [hnt', c1, Bool.false_eq_true, if_false, beq_self_eq_true, if_true]
    rfl
  | cons e r =>
    rw [Renders] at hR; obtain ⟨te, tr, hS, hRr, rfl⟩ := hR
    simp at hF
    obtain ⟨F', rfl⟩ : ∃ F', F = F' + 1 := ⟨F - 1, by omega⟩
    obtain ⟨F'', rfl⟩ : ∃ F'', F' = F'' + 1 := ⟨F' - 1, by omega⟩
    obtain ⟨F3, rfl⟩ : ∃ F3, F'' = F3 + 1 := ⟨F'' - 1, by omega⟩
    have hst' : At st (tLB :: (te ++ tr ++ tRB :: h :: rest)) := by simpa using hst
    obtain ⟨it, st1, ht, hv, hj, heq⟩ := ft_value pf T (F := F3 + 1 + 1) hst' rfl rfl rfl
    have ht' : it.typ = .tLeftBracket := ht
    obtain ⟨t, te', hte, hstart⟩ := slot_head pf hS
    have hat1 : At st1 (t :: (te' ++ tr ++ tRB :: h :: rest)) := by rw [hte] at hj; simpa using hj.at
    obtain ⟨t1, st2, hn, hnt, hnv, hj2⟩ := next_at hat1
    obtain ⟨st3, hb, h3a⟩ := backup_just hj2
    rw [tk_eq hnt hnv] at h3a
    have c1 : (t1.typ == ItemType.tColon) = false := by rw [hnt]; simp [hstart.2.1]
    have c2 : (t1.typ == ItemType.tRightBracket) = false := by rw [hnt]; simp [hstart.2.2]
    have hat3 : At st3 (te ++ (tr ++ tRB :: h :: rest)) := by rw [hte]; simpa using h3a.at
    cases r with
    | nil =>
      rw [RendersSeq] at hRr; subst hRr
      obtain ⟨re, st4, h4, hee, h4a⟩ := slot0 pf T hall.1 hS (h := tRB) (Or.inr (Or.inl rfl)) (by simpa using hat3) (F := F3) (by simp at hF; omega)
      obtain ⟨tok, st5, h5, h5t, _, hj5⟩ := next_at h4a.at
      have h5t' : tok.typ = .tRightBracket := h5t
      refine ⟨.list it.pos (.cons re .nil), st5, ?_, by simp [erase, eraseL, hee], hj5.at⟩
      rw [heq]; unfold newValueNode
      simp only [ht']
      unfold parseListOrMap
      rw [bind_ok hn]
      simp only [c1, c2, Bool.false_eq_true, if_false]
      rw [bind_ok hb, bind_ok h4, bind_ok h5]
      have d1 : (ItemType.tRightBracket == ItemType.tColon) = false := rfl
      have d2 : (ItemType.tRightBracket == ItemType.tComma) = false := rfl
      simp only [h5t', d1, d2, Bool.false_eq_true, if_false, beq_self_eq_true, if_true]
      rfl
    | cons e2 r2 =>
      rw [RendersSeq] at hRr; obtain ⟨te2, tr2, hS2, hR2, rfl⟩ := hRr
      simp at hF
      obtain ⟨re, st4, h4, hee, h4a⟩ := slot0 pf T hall.1 hS (h := tComma) (rest := te2 ++ tr2 ++ tRB :: h :: rest)
        (Or.inr (Or.inr (Or.inl rfl))) (by simpa using hat3) (F := F3) (by omega)
      obtain ⟨tok, st5, h5, h5t, _, hj5⟩ := next_at h4a.at
      have h5t' : tok.typ = .tComma := h5t
      obtain ⟨l', st6, h6, he, h6a⟩ := items_ok pf T r2 hall.2.2 e2 te2 tr2 (h :: rest) F3 st5 hall.2.1 hS2 hR2 hj5.at (by omega)
      refine ⟨.list it.pos (.cons re l'), st6, ?_, by simp [erase, eraseL] at he ⊢; simp [hee, he], h6a⟩
      rw [heq]; unfold newValueNode
      simp only [ht']
      unfold parseListOrMap
      rw [bind_ok hn]
      simp only [c1, c2, Bool.false_eq_true, if_false]
      rw [bind_ok hb, bind_ok h4, bind_ok h5]
      have d1 : (ItemType.tComma == ItemType.tColon) = false := rfl
      simp only [h5t', d1, Bool.false_eq_true, if_false, beq_self_eq_true, if_true]
      rw [bind_ok h6]; rfl

end

/-! ### maps as sorted association lists -/

theorem lt_irrefl : (a : Bytes) → Bytes.lt a a = false
  | [] => rfl
  | x :: r => by simp [Bytes.lt, lt_irrefl r]

theorem lt_asymm : (a b : Bytes) → Bytes.lt a b = true → Bytes.lt b a = false
  | [], [], h => by simp [Bytes.lt] at h
  | [], _ :: _, _ => rfl
  | _ :: _, [], h => by simp [Bytes.lt] at h
  | x :: r, y :: s, h => by
    simp [Bytes.lt] at h ⊢
    rcases h with h | ⟨rfl, h⟩
    · refine ⟨?_, fun hxy => ?_⟩
      · rw [UInt8.lt_iff_toNat_lt] at h; rw [UInt8.le_iff_toNat_le]; omega
      · subst hxy; rw [UInt8.lt_iff_toNat_lt] at h; omega
    · exact ⟨UInt8.le_refl _, fun _ => lt_asymm r s h⟩

def mapApp : MapItems → MapItems → MapItems
  | .nil, m => m
  | .cons k v r, m => .cons k v (mapApp r m)

def setAll : MapItems → MapItems → MapItems
  | m, .nil => m
  | m, .cons k v r => setAll (m.set k v) r

theorem eraseM_set : (m : MapItems) → (k : Bytes) → (v : Expr) → eraseM (m.set k v) = (eraseM m).set k (erase v)
  | .nil, k, v => rfl
  | .cons k' v' r, k, v => by
    simp only [MapItems.set, eraseM]
    split
    · simp [eraseM]
    · split
      · simp [eraseM]
      · simp [eraseM, eraseM_set r k v]

theorem keysOf_eraseM : (m : MapItems) → keysOf (eraseM m) = keysOf m
  | .nil => rfl
  | .cons k v r => by simp [eraseM, keysOf, keysOf_eraseM r]

theorem sortedKeys_eraseM : (m : MapItems) → SortedKeys m → SortedKeys (eraseM m)
  | .nil, _ => trivial
  | .cons k v r, h => by
    simp only [eraseM, SortedKeys]
    exact ⟨by rw [keysOf_eraseM]; exact h.1, sortedKeys_eraseM r h.2⟩

theorem keysOf_mapApp : (a b : MapItems) → keysOf (mapApp a b) = keysOf a ++ keysOf b
  | .nil, b => rfl
  | .cons k v r, b => by simp [mapApp, keysOf, keysOf_mapApp r b]

theorem mapApp_assoc : (a b c : MapItems) → mapApp (mapApp a b) c = mapApp a (mapApp b c)
  | .nil, b, c => rfl
  | .cons k v r, b, c => by simp [mapApp, mapApp_assoc r b c]

theorem mapApp_nil : (a : MapItems) → mapApp a .nil = a
  | .nil => rfl
  | .cons k v r => by simp [mapApp, mapApp_nil r]

theorem set_last : (acc : MapItems) → (k : Bytes) → (v : Expr) → (∀ a ∈ keysOf acc, Bytes.lt a k = true) →
    acc.set k v = mapApp acc (.cons k v .nil)
  | .nil, k, v, _ => rfl
  | .cons k' v' r, k, v, h => by
    have hk : Bytes.lt k' k = true := h k' (by simp [keysOf])
    have h1 : (k == k') = false := by
      cases hkk : (k == k') with
      | false => rfl
      | true =>
        have : k = k' := by simpa using hkk
        subst this; rw [lt_irrefl] at hk; exact absurd hk (by simp)
    have h2 : Bytes.lt k k' = false := lt_asymm k' k hk
    simp only [MapItems.set, h1, h2, Bool.false_eq_true, if_false, mapApp]
    rw [set_last r k v (fun a ha => h a (by simp [keysOf, ha]))]

theorem setAll_sorted : (m acc : MapItems) → SortedKeys m → (∀ a ∈ keysOf acc, ∀ b ∈ keysOf m, Bytes.lt a b = true) →
    setAll acc m = mapApp acc m
  | .nil, acc, _, _ => by
    simp [setAll, mapApp_nil]
  | .cons k v r, acc, hs, hlt => by
    simp only [setAll]
    rw [set_last acc k v (fun a ha => hlt a ha k (by simp [keysOf]))]
    rw [setAll_sorted r _ hs.2]
    · rw [mapApp_assoc]; rfl
    · intro a ha b hb
      rw [keysOf_mapApp] at ha
      simp [keysOf] at ha
      rcases ha with ha | rfl
      · exact hlt a ha b (by simp [keysOf, hb])
      · exact hs.1 b hb


section
variable (pf : Bytes → Option UInt64) (T : TableOK)
include T

def AllM : MapItems → Prop
  | .nil => True
  | .cons _ e r => AStmt pf e ∧ AllM r

theorem entries_ok : (r : MapItems) → AllM pf r →
    ∀ (key : Bytes) (e : Expr) (te tr rest : List Tk) (acc : MapItems) (F : Nat) (st : PState),
      AStmt pf e → Slot 0 e (Renders pf e) te → RendersEntries pf r tr → At st (te ++ tr ++ tRB :: rest) →
      8 * (te.length + tr.length) + 2 ≤ F →
      ∃ m' st2, parseMapItems pf F key acc st = .ok (m', st2) ∧
        eraseM m' = setAll ((eraseM acc).set key (erase e)) (eraseM r) ∧ At st2 rest
  | .nil, _, key, e, te, tr, rest, acc, F, st, hA, hS, hR, hst, hF => by
    rw [RendersEntries] at hR; subst hR
    obtain ⟨F', rfl⟩ : ∃ F', F = F' + 1 := ⟨F - 1, by omega⟩
    have hst' : At st (te ++ tRB :: rest) := by simpa using hst
    obtain ⟨re, st2, h2, hee, h2a⟩ := slot0 pf T hA hS (h := tRB) (Or.inr (Or.inl rfl)) hst' (F := F') (by simp at hF; omega)
    obtain ⟨it, st3, hn, ht, _, hj⟩ := next_at h2a.at
    have ht' : it.typ = .tRightBracket := ht
    refine ⟨acc.set key re, st3, ?_, by simp [eraseM, setAll, eraseM_set, hee], hj.at⟩
    unfold parseMapItems
    rw [bind_ok h2, bind_ok hn]
    simp only [ht', beq_self_eq_true, if_true]
    rfl
  | .cons k2 e2 r2, hall, key, e, te, tr, rest, acc, F, st, hA, hS, hR, hst, hF => by
    rw [RendersEntries] at hR; obtain ⟨q2, te2, tr2, hq2, hS2, hR2, rfl⟩ := hR
    obtain ⟨F', rfl⟩ : ∃ F', F = F' + 1 := ⟨F - 1, by omega⟩
    simp at hF
    have hst' : At st (te ++ tComma :: (tString q2 :: tColon :: (te2 ++ tr2 ++ tRB :: rest))) := by simpa using hst
    obtain ⟨re, st2, h2, hee, h2a⟩ := slot0 pf T hA hS (h := tComma) (Or.inr (Or.inr (Or.inl rfl))) hst' (F := F') (by omega)
    obtain ⟨it, st3, hn, ht, _, hj⟩ := next_at h2a.at
    have ht' : it.typ = .tComma := ht
    obtain ⟨pk, st3', hpk, hpt, _, hpa⟩ := peek_at hj.at
    have hc0 : (pk.typ == ItemType.tRightBracket) = false := by rw [hpt]; rfl
    obtain ⟨tok, st4, h4, _, h4v, hj4⟩ := expect_at hpa.at
    have h4v' : tok.val = q2 := h4v
    obtain ⟨_, st5, h5, _, _, hj5⟩ := expect_at hj4.at
    obtain ⟨m', st6, h6, he, h6a⟩ := entries_ok r2 hall.2 k2 e2 te2 tr2 rest (acc.set key re) F' st5 hall.1 hS2 hR2 hj5.at (by omega)
    refine ⟨m', st6, ?_, by rw [he]; simp [eraseM, setAll, eraseM_set, hee], h6a⟩
    unfold parseMapItems
    rw [bind_ok h2, bind_ok hn]
    have c1 : (ItemType.tComma == ItemType.tRightBracket) = false := rfl
    have c2 : (ItemType.tComma != ItemType.tComma) = false := rfl
    simp only [ht', c1, c2, Bool.false_eq_true, if_false]
    rw [bind_ok hpk]
    simp only [hc0, Bool.false_eq_true, if_false]
    have h4' : expect ItemType.tString st3' = .ok (tok, st4) := h4
    rw [bind_ok h4']
    simp only [h4v', hq2]
    have h5' : expect ItemType.tColon st4 = .ok (_, st5) := h5
    rw [bind_ok h5']
    exact h6

omit T in
theorem erase_str_inv {r : Expr} {q k : Bytes} (h : erase r = erase (.str 0 q k)) : ∃ p, r = .str p q k := by
  cases r <;> simp [erase] at h
  case str p q' k' => exact ⟨p, by rw [h.1, h.2]⟩

theorem ft_map (p : Nat) {items : MapItems} (hall : AllM pf items) : FTStmt pf (.map p items) := by
  intro ts h rest F st hR hok hst hF
  cases items with
  | nil =>
    rw [Renders] at hR; subst hR
    simp at hF
    obtain ⟨F', rfl⟩ : ∃ F', F = F' + 1 := ⟨F - 1, by omega⟩
    obtain ⟨F'', rfl⟩ : ∃ F'', F' = F'' + 1 := ⟨F' - 1, by omega⟩
    obtain ⟨F3, rfl⟩ : ∃ F3, F'' = F3 + 1 := ⟨F'' - 1, by omega⟩
    have hst' : At st (tLB :: tColon :: tRB :: h :: rest) := by simpa using hst
    obtain ⟨it, st1, ht, hv, hj, heq⟩ := ft_value pf T (F := F3 + 1 + 1) hst' rfl rfl rfl
    have ht' : it.typ = .tLeftBracket := ht
    obtain ⟨t1, st2, hn, hnt, _, hj2⟩ := next_at hj.at
    have hnt' : t1.typ = .tColon := hnt
    obtain ⟨_, st3, h3, _, _, hj3⟩ := expect_at hj2.at
    refine ⟨.map it.pos .nil, st3, ?_, rfl, hj3.at⟩
    rw [heq]; unfold newValueNode
    simp only [ht']
    unfold parseListOrMap
    rw [bind_ok hn]
    simp only [hnt', beq_self_eq_true, if_true]
    have h3' : expect ItemType.tRightBracket st2 = .ok (_, st3) := h3
    rw [bind_ok h3']
    rfl
  | cons k e r =>
    rw [Renders] at hR; obtain ⟨q, te, tr, hq, hS, hRr, hsorted, rfl⟩ := hR
    simp at hF
    obtain ⟨F', rfl⟩ : ∃ F', F = F' + 1 := ⟨F - 1, by omega⟩
    obtain ⟨F'', rfl⟩ : ∃ F'', F' = F'' + 1 := ⟨F' - 1, by omega⟩
    obtain ⟨F3, rfl⟩ : ∃ F3, F'' = F3 + 1 := ⟨F'' - 1, by omega⟩
    have hst' : At st (tLB :: tString q :: tColon :: (te ++ tr ++ tRB :: h :: rest)) := by simpa using hst
    obtain ⟨it, st1, ht, hv, hj, heq⟩ := ft_value pf T (F := F3 + 1 + 1) hst' rfl rfl rfl
    have ht' : it.typ = .tLeftBracket := ht
    obtain ⟨t1, st2, hn, hnt, hnv, hj2⟩ := next_at hj.at
    obtain ⟨st3, hb, h3a⟩ := backup_just hj2
    rw [tk_eq hnt hnv] at h3a
    have c1 : (t1.typ == ItemType.tColon) = false := by rw [hnt]; rfl
    have c2 : (t1.typ == ItemType.tRightBracket) = false := by rw [hnt]; rfl
    -- the first key: a string literal parsed as an expression
    obtain ⟨r1, st4, h4, he1, h4a⟩ := B_of_FT pf (ft_str pf T 0 q k) [tString q] tColon (te ++ tr ++ tRB :: h :: rest) 0 1 F3
      (Post (.str 0 q k) (tColon :: (te ++ tr ++ tRB :: h :: rest))) st3 (by rw [Renders]; exact ⟨rfl, hq⟩) (Nat.zero_le _)
      ⟨by simp [noAccess, tColon], trivial⟩ (cont_stop pf (stops_colon T 0)) (by simpa using h3a.at) (by simp; omega)
    obtain ⟨p1, rfl⟩ := erase_str_inv he1
    obtain ⟨tok, st5, h5, h5t, _, hj5⟩ := next_at h4a.at
    have h5t' : tok.typ = .tColon := h5t
    obtain ⟨m', st6, h6, he, h6a⟩ := entries_ok pf T r hall.2 k e te tr (h :: rest) .nil F3 st5 hall.1 hS hRr hj5.at (by omega)
    refine ⟨.map it.pos m', st6, ?_, ?_, h6a⟩
    · rw [heq]; unfold newValueNode
      simp only [ht']
      unfold parseListOrMap
      rw [bind_ok hn]
      simp only [c1, c2, Bool.false_eq_true, if_false]
      rw [bind_ok hb, bind_ok h4, bind_ok h5]
      simp only [h5t', beq_self_eq_true, if_true]
      rw [bind_ok h6]; rfl
    · simp only [erase]
      rw [he]
      have : (eraseM MapItems.nil).set k (erase e) = .cons k (erase e) .nil := rfl
      rw [this, setAll_sorted (eraseM r) _]
      · rfl
      · have := hsorted.2
        exact sortedKeys_eraseM r this
      · intro a ha b hb
        simp [keysOf] at ha; subst ha
        rw [keysOf_eraseM] at hb
        exact hsorted.1 b hb
end
end SoyVerif.Lemmas.ParserRound
