/-
  Steps 2–4 of `setPlaceholderNames`: whatever the map iteration orders, the result is the
  canonical assignment `canonNames` computed from the step-1 maps alone.
-/
import SoyVerif.Lemmas.MsgSuffix
import SoyVerif.Lemmas.MsgStep1

namespace SoyVerif.Model.Msg

/-! ### the canonical (order-free) assignment -/

/-- suffixed names for the representatives of one base name, in list order -/
def suffixPairs (keys : List Bytes) (base : Bytes) : List QNode → Nat → List (Bytes × Nat)
  | [], _ => []
  | n :: ns, next =>
    let k := findSuffix keys base (keys.length + 1) next
    (suffixed base k, n.id) :: suffixPairs keys base ns (k + 1)

/-- the `nameToRepNodes` entries contributed by one base name -/
def pairsOf (keys : List Bytes) (e : Bytes × List QNode) : List (Bytes × Nat) :=
  match e.2 with
  | [n] => [(e.1, n.id)]
  | ns => suffixPairs keys e.1 ns 1

def canonPairs (reps : List (Bytes × List QNode)) : List (Bytes × Nat) :=
  reps.flatMap (pairsOf (reps.map Prod.fst))

def swap (e : Bytes × Nat) : Nat × Bytes := (e.2, e.1)

/-- canonical `nodeToName` -/
def canonNodeToName (s : Step1) : List (Nat × Bytes) :=
  let a := (canonPairs s.reps).map swap
  a ++ s.equiv.map (fun e => (e.1, (a.lookup e.2).getD []))

/-- canonical names of the queue nodes -/
def canonNames (n : Nat) (s : Step1) : List Bytes :=
  (List.range n).map fun i => ((canonNodeToName s).lookup i).getD []

/-! ### the names of one base name -/

theorem suffixPairs_snd (keys : List Bytes) (base : Bytes) :
    ∀ ns next, (suffixPairs keys base ns next).map Prod.snd = ns.map (·.id)
  | [], _ => rfl
  | n :: ns, next => by simp [suffixPairs, suffixPairs_snd keys base ns]

theorem pairsOf_snd (keys : List Bytes) (e : Bytes × List QNode) :
    (pairsOf keys e).map Prod.snd = e.2.map (·.id) := by
  unfold pairsOf
  split
  · next h => simp [h]
  · exact suffixPairs_snd keys e.1 e.2 1

theorem canonPairs_snd (keys : List Bytes) (es : List (Bytes × List QNode)) :
    (es.flatMap (pairsOf keys)).map Prod.snd = repIds es := by
  induction es with
  | nil => rfl
  | cons e es ih => simp [repIds_cons, pairsOf_snd, ih]

theorem suffixPairs_fst_spec (keys : List Bytes) (base : Bytes) :
    ∀ ns next x, x ∈ (suffixPairs keys base ns next).map Prod.fst →
      ∃ k, next ≤ k ∧ x = suffixed base k ∧ x ∉ keys
  | [], _, x, h => by simp [suffixPairs] at h
  | n :: ns, next, x, h => by
    simp only [suffixPairs, List.map_cons, List.mem_cons] at h
    rcases h with h | h
    · exact ⟨_, findSuffix_ge keys base _ next, h, h ▸ findSuffix_free keys base next⟩
    · obtain ⟨k, hk, h1, h2⟩ := suffixPairs_fst_spec keys base ns _ x h
      exact ⟨k, Nat.le_trans (Nat.le_succ_of_le (findSuffix_ge keys base _ next)) hk, h1, h2⟩

theorem suffixPairs_fst_nodup (keys : List Bytes) (base : Bytes) :
    ∀ ns next, ((suffixPairs keys base ns next).map Prod.fst).Nodup
  | [], _ => by simp [suffixPairs]
  | n :: ns, next => by
    simp only [suffixPairs, List.map_cons, List.nodup_cons]
    refine ⟨?_, suffixPairs_fst_nodup keys base ns _⟩
    intro hm
    obtain ⟨k, hk, h1, _⟩ := suffixPairs_fst_spec keys base ns _ _ hm
    have := (suffixed_inj h1).2
    omega

theorem pairsOf_fst_spec (keys : List Bytes) (e : Bytes × List QNode) (x : Bytes)
    (h : x ∈ (pairsOf keys e).map Prod.fst) :
    x = e.1 ∨ ∃ k, x = suffixed e.1 k ∧ x ∉ keys := by
  unfold pairsOf at h
  split at h
  · simp at h; exact Or.inl h
  · obtain ⟨k, _, h1, h2⟩ := suffixPairs_fst_spec keys e.1 e.2 1 x h
    exact Or.inr ⟨k, h1, h2⟩

theorem pairsOf_fst_nodup (keys : List Bytes) (e : Bytes × List QNode) :
    ((pairsOf keys e).map Prod.fst).Nodup := by
  unfold pairsOf
  split
  · simp
  · exact suffixPairs_fst_nodup keys e.1 e.2 1

/-- Names assigned under different base names never collide: a suffixed name is not a base
    name, and `base_N` determines `base`. -/
theorem names_disjoint (keys : List Bytes) (e e' : Bytes × List QNode)
    (he : e.1 ∈ keys) (he' : e'.1 ∈ keys) (hne : e.1 ≠ e'.1) (x : Bytes)
    (hx : x ∈ (pairsOf keys e).map Prod.fst) (hx' : x ∈ (pairsOf keys e').map Prod.fst) : False := by
  rcases pairsOf_fst_spec keys e x hx with h | ⟨k, h, hk⟩
  · rcases pairsOf_fst_spec keys e' x hx' with h' | ⟨k', _, hk'⟩
    · exact hne (h ▸ h')
    · exact hk' (h ▸ he)
  · rcases pairsOf_fst_spec keys e' x hx' with h' | ⟨k', h', _⟩
    · exact hk (h' ▸ he')
    · exact hne (suffixed_inj (h ▸ h')).1

theorem flatMap_names_nodup (keys : List Bytes) :
    ∀ es : List (Bytes × List QNode), (es.map Prod.fst).Nodup → (∀ e ∈ es, e.1 ∈ keys) →
      ((es.flatMap (pairsOf keys)).map Prod.fst).Nodup
  | [], _, _ => by simp
  | e :: es, nd, hk => by
    simp only [List.map_cons, List.nodup_cons] at nd
    simp only [List.flatMap_cons, List.map_append]
    rw [List.nodup_append]
    refine ⟨pairsOf_fst_nodup keys e, flatMap_names_nodup keys es nd.2 (fun e he => hk e (by simp [he])), ?_⟩
    intro a ha b hb hab
    subst hab
    simp only [List.map_flatMap, List.mem_flatMap] at hb
    obtain ⟨e', he', hb⟩ := hb
    refine names_disjoint keys e e' (hk e (by simp)) (hk e' (by simp [he'])) ?_ a ha hb
    intro heq
    exact nd.1 (heq ▸ List.mem_map_of_mem he')

/-- names in the canonical `nameToRepNodes` are pairwise distinct -/
theorem canonPairs_names_nodup (reps : List (Bytes × List QNode)) (nd : (reps.map Prod.fst).Nodup) :
    ((canonPairs reps).map Prod.fst).Nodup :=
  flatMap_names_nodup _ reps nd (fun _ he => List.mem_map_of_mem he)

/-! ### step 2 -/

theorem assignSuffixes_eq (keys : List Bytes) (base : Bytes) :
    ∀ ns next (m : List (Bytes × Nat)),
      (m.map Prod.fst ++ (suffixPairs keys base ns next).map Prod.fst).Nodup →
      assignSuffixes keys base ns next m = m ++ suffixPairs keys base ns next
  | [], _, m, _ => by simp [assignSuffixes, suffixPairs]
  | n :: ns, next, m, nd => by
    simp only [suffixPairs, List.map_cons] at nd
    have hk : suffixed base (findSuffix keys base (keys.length + 1) next) ∉ m.map Prod.fst := by
      intro hm
      exact (List.nodup_append.mp nd).2.2 _ hm _ (by simp) rfl
    simp only [assignSuffixes, suffixPairs, mapSet_fresh hk]
    rw [assignSuffixes_eq keys base ns _ _ (by simpa [List.append_assoc] using nd)]
    simp

theorem step2Entry_eq (keys : List Bytes) (m : List (Bytes × Nat)) (e : Bytes × List QNode)
    (nd : (m.map Prod.fst ++ (pairsOf keys e).map Prod.fst).Nodup) :
    step2Entry keys m e = m ++ pairsOf keys e := by
  unfold step2Entry
  unfold pairsOf at nd ⊢
  split
  · next n h =>
    simp only [h] at nd ⊢
    have hk : e.1 ∉ m.map Prod.fst := by
      intro hm
      exact (List.nodup_append.mp nd).2.2 _ hm _ (by simp) rfl
    exact mapSet_fresh hk
  · next h =>
    split at nd
    · next n h' => exact absurd h' (h n)
    · exact assignSuffixes_eq keys e.1 e.2 1 m nd

theorem step2_foldl_eq (keys : List Bytes) :
    ∀ (es : List (Bytes × List QNode)) (m : List (Bytes × Nat)),
      (m.map Prod.fst ++ (es.flatMap (pairsOf keys)).map Prod.fst).Nodup →
      es.foldl (step2Entry keys) m = m ++ es.flatMap (pairsOf keys)
  | [], m, _ => by simp
  | e :: es, m, nd => by
    simp only [List.flatMap_cons, List.map_append] at nd
    have nd1 : (m.map Prod.fst ++ (pairsOf keys e).map Prod.fst).Nodup := by
      rw [← List.append_assoc] at nd
      exact (List.nodup_append.mp nd).1
    simp only [List.foldl_cons, step2Entry_eq keys m e nd1]
    rw [step2_foldl_eq keys es _ (by simpa [List.append_assoc] using nd)]
    simp

/-- Step 2 yields, for any iteration order, the per-base-name blocks in that order. -/
theorem step2_eq (o : Orders) (ho : o.Valid) (reps : List (Bytes × List QNode))
    (nd : (reps.map Prod.fst).Nodup) :
    step2 o reps = (o.reps reps).flatMap (pairsOf (reps.map Prod.fst)) ∧
    (step2 o reps).Perm (canonPairs reps) := by
  have hp : ((o.reps reps).flatMap (pairsOf (reps.map Prod.fst))).Perm (canonPairs reps) :=
    List.Perm.flatMap_right _ (ho.reps reps)
  have hnd : (((o.reps reps).flatMap (pairsOf (reps.map Prod.fst))).map Prod.fst).Nodup :=
    (hp.map Prod.fst).nodup_iff.mpr (canonPairs_names_nodup reps nd)
  have : step2 o reps = (o.reps reps).flatMap (pairsOf (reps.map Prod.fst)) := by
    unfold step2
    rw [step2_foldl_eq _ _ [] (by simpa using hnd)]
    simp
  exact ⟨this, this ▸ hp⟩

end SoyVerif.Model.Msg

namespace SoyVerif.Model.Msg

/-! ### step 3 -/

theorem map_swap_fst (l : List (Bytes × Nat)) : (l.map swap).map Prod.fst = l.map Prod.snd := by
  simp [swap, List.map_map, Function.comp_def]

/-- second loop of step 3: every equivalent node receives the name of its representative,
    read from the map under construction — which never differs from the first-loop map
    on a representative, because representatives are not keys of `equivNodeToRepNodes`. -/
theorem step3_equiv_foldl (m₀ : List (Nat × Bytes)) (K : List Nat) :
    ∀ (es : List (Nat × Nat)) (extra : List (Nat × Bytes)),
      (∀ k ∈ extra.map Prod.fst, k ∈ K) → (∀ e ∈ es, e.1 ∈ K ∧ e.2 ∉ K) →
      ((m₀ ++ extra).map Prod.fst ++ es.map Prod.fst).Nodup →
      es.foldl (fun m e => mapSet m e.1 ((m.lookup e.2).getD [])) (m₀ ++ extra) =
        m₀ ++ extra ++ es.map (fun e => (e.1, (m₀.lookup e.2).getD []))
  | [], extra, _, _, _ => by simp
  | e :: es, extra, hex, hes, nd => by
    have he := hes e (by simp)
    have hfresh : e.1 ∉ (m₀ ++ extra).map Prod.fst := by
      intro hm
      simp only [List.map_cons] at nd
      exact (List.nodup_append.mp nd).2.2 _ hm e.1 (by simp) rfl
    have hlook : (m₀ ++ extra).lookup e.2 = m₀.lookup e.2 :=
      lookup_append_left_of_not_mem (fun hm => he.2 (hex _ hm))
    simp only [List.foldl_cons, hlook, mapSet_fresh hfresh]
    rw [List.append_assoc]
    rw [step3_equiv_foldl m₀ K es (extra ++ [(e.1, (m₀.lookup e.2).getD [])])]
    · simp
    · intro k hk
      simp only [List.map_append, List.map_cons, List.map_nil, List.mem_append, List.mem_singleton] at hk
      rcases hk with hk | hk
      · exact hex k hk
      · exact hk ▸ he.1
    · intro e' he'
      exact hes e' (by simp [he'])
    · simp only [List.map_cons] at nd
      simpa [List.append_assoc] using nd

theorem canonNodeToName_keys (s : Step1) :
    (canonNodeToName s).map Prod.fst = repIds s.reps ++ s.equiv.map Prod.fst := by
  unfold canonNodeToName
  rw [List.map_append, map_swap_fst, canonPairs, canonPairs_snd, List.map_map]
  rfl

/-- Step 3 yields, for any iteration orders, a permutation of the canonical `nodeToName`. -/
theorem step3_perm (o : Orders) (ho : o.Valid) {done : List QNode} {s : Step1} (inv : Inv1 done s)
    (nd : (done.map (·.id)).Nodup) (N : List (Bytes × Nat)) (hN : N.Perm (canonPairs s.reps)) :
    (step3 o N s.equiv).Perm (canonNodeToName s) ∧ ((canonNodeToName s).map Prod.fst).Nodup := by
  have hkeysNd : (repIds s.reps ++ s.equiv.map Prod.fst).Nodup := inv.ids.nodup_iff.mpr nd
  have hcanonNd : ((canonNodeToName s).map Prod.fst).Nodup := by
    rw [canonNodeToName_keys]; exact hkeysNd
  refine ⟨?_, hcanonNd⟩
  -- first loop
  have hpa : ((o.names N).map swap).Perm ((canonPairs s.reps).map swap) :=
    ((ho.names N).trans hN).map swap
  have hakeys : ((canonPairs s.reps).map swap).map Prod.fst = repIds s.reps := by
    rw [map_swap_fst, canonPairs, canonPairs_snd]
  have haNd : (((canonPairs s.reps).map swap).map Prod.fst).Nodup := by
    rw [hakeys]; exact (List.nodup_append.mp hkeysNd).1
  have haoNd : (((o.names N).map swap).map Prod.fst).Nodup := (hpa.map Prod.fst).nodup_iff.mpr haNd
  have hfirst : (o.names N).foldl (fun m e => mapSet m e.2 e.1) ([] : List (Nat × Bytes))
      = (o.names N).map swap := by
    have := foldl_mapSet_fresh swap (o.names N) ([] : List (Nat × Bytes))
      (by simpa [map_swap_fst, swap, List.map_map, Function.comp_def] using haoNd)
    simpa [swap] using this
  -- second loop
  have hpe : (o.equiv s.equiv).Perm s.equiv := ho.equiv s.equiv
  have hsecond := step3_equiv_foldl ((o.names N).map swap) (s.equiv.map Prod.fst) (o.equiv s.equiv) []
    (by simp)
    (by
      intro e he
      have he' : e ∈ s.equiv := hpe.mem_iff.mp he
      refine ⟨List.mem_map_of_mem he', ?_⟩
      intro hm
      exact (List.nodup_append.mp hkeysNd).2.2 _ (inv.rep e he') _ hm rfl)
    (by
      have h1 : (((o.names N).map swap).map Prod.fst ++ (o.equiv s.equiv).map Prod.fst).Perm
          (repIds s.reps ++ s.equiv.map Prod.fst) := by
        refine List.Perm.append ?_ (hpe.map Prod.fst)
        rw [← hakeys]; exact hpa.map Prod.fst
      simpa using h1.nodup_iff.mpr hkeysNd)
  unfold step3
  simp only [hfirst]
  simp only [List.append_nil] at hsecond
  rw [hsecond]
  unfold canonNodeToName
  refine List.Perm.append hpa ?_
  have hg : ∀ e : Nat × Nat, (((o.names N).map swap).lookup e.2).getD [] =
      (((canonPairs s.reps).map swap).lookup e.2).getD [] := by
    intro e
    rw [lookup_perm hpa haoNd]
  simp only [hg]
  exact hpe.map _

/-! ### step 4 and the whole function -/

theorem step4_eq (o : Orders) (ho : o.Valid) (n : Nat) (M C : List (Nat × Bytes))
    (hp : M.Perm C) (hnd : (C.map Prod.fst).Nodup) :
    step4 o n M = (List.range n).map fun i => (C.lookup i).getD [] := by
  have hp' : (o.nodes M).Perm C := (ho.nodes M).trans hp
  have hnd' : ((o.nodes M).map Prod.fst).Nodup := (hp'.map Prod.fst).nodup_iff.mpr hnd
  apply List.ext_getElem?
  intro i
  unfold step4
  rw [foldl_set_getElem? _ _ i hnd', lookup_perm hp' hnd']
  by_cases hi : i < n
  · simp [hi]
  · simp [hi]

/-- `setPlaceholderNames` computes the canonical assignment, whatever the iteration orders. -/
theorem setNamesQ_eq_canon (o : Orders) (ho : o.Valid) (q : List QNode) (nd : (q.map (·.id)).Nodup) :
    setNamesQ o q = canonNames q.length (step1 q) := by
  have inv := inv1_step1 q nd
  have h2 := step2_eq o ho (step1 q).reps inv.keys
  have h3 := step3_perm o ho inv nd (step2 o (step1 q).reps) h2.2
  unfold setNamesQ canonNames
  exact step4_eq o ho q.length _ _ h3.1 h3.2

end SoyVerif.Model.Msg
