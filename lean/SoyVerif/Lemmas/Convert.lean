/- The conversion model meets its specification on JSON-like inputs: it never panics there and the
   result has the shape of the input (mutual structural recursion over the nested `GoVal`). -/
import SoyVerif.Lemmas.Value
import SoyVerif.Spec.Convert

namespace SoyVerif.Convert
open SoyVerif SoyVerif.Spec

theorem listId_ne_zero (len n : Nat) (h : 0 < n) : listId len n ≠ 0 := by
  unfold listId
  split <;> omega

/-- on a JSON-like pointer the top-level checks of `NewWith` do not fire -/
theorem convM_ptr_jsonLike (lc : Bool) (key : Bytes → Bytes) (g : GoVal) (n : Nat)
    (h : JsonLike key g = true) : convM lc (.ptr g) n = convK lc g n := by
  cases g <;> simp [JsonLike] at h <;> simp [convM, convK]

mutual
theorem shapeM (lc : Bool) : ∀ (g : GoVal) (n : Nat), 0 < n → JsonLike (fieldKey lc) g = true →
    ∃ v n', convM lc g n = some (v, n') ∧ Shape (fieldKey lc) g v ∧ n ≤ n'
  | .nil, n, _, _ => ⟨.null, n, by simp [convM], .nil, Nat.le_refl _⟩
  | .iface g, n, hn, h => by
    have h' : JsonLike (fieldKey lc) g = true := by simpa [JsonLike] using h
    obtain ⟨v, n', e, s, l⟩ := shapeM lc g n hn h'
    exact ⟨v, n', by simpa [convM] using e, .iface s, l⟩
  | .ptr g, n, hn, h => by
    have h' : JsonLike (fieldKey lc) g = true := by simpa [JsonLike] using h
    obtain ⟨v, n', e, s, l⟩ := shapeK lc g n hn h'
    exact ⟨v, n', by rw [convM_ptr_jsonLike lc _ g n h']; exact e, .ptr s, l⟩
  | .bool b, n, hn, h => by
    obtain ⟨v, n', e, s, l⟩ := shapeK lc (.bool b) n hn h
    exact ⟨v, n', by simpa [convM] using e, s, l⟩
  | .int k i, n, hn, h => by
    obtain ⟨v, n', e, s, l⟩ := shapeK lc (.int k i) n hn h
    exact ⟨v, n', by simpa [convM] using e, s, l⟩
  | .uint k u, n, hn, h => by
    obtain ⟨v, n', e, s, l⟩ := shapeK lc (.uint k u) n hn h
    exact ⟨v, n', by simpa [convM] using e, s, l⟩
  | .float32 f, n, hn, h => by
    obtain ⟨v, n', e, s, l⟩ := shapeK lc (.float32 f) n hn h
    exact ⟨v, n', by simpa [convM] using e, s, l⟩
  | .float64 f, n, hn, h => by
    obtain ⟨v, n', e, s, l⟩ := shapeK lc (.float64 f) n hn h
    exact ⟨v, n', by simpa [convM] using e, s, l⟩
  | .string b, n, hn, h => by
    obtain ⟨v, n', e, s, l⟩ := shapeK lc (.string b) n hn h
    exact ⟨v, n', by simpa [convM] using e, s, l⟩
  | .time b, n, hn, h => by
    obtain ⟨v, n', e, s, l⟩ := shapeK lc (.time b) n hn h
    exact ⟨v, n', by simpa [convM] using e, s, l⟩
  | .nilSlice, n, hn, h => by
    obtain ⟨v, n', e, s, l⟩ := shapeK lc .nilSlice n hn h
    exact ⟨v, n', by simpa [convM] using e, s, l⟩
  | .nilMap, n, hn, h => by
    obtain ⟨v, n', e, s, l⟩ := shapeK lc .nilMap n hn h
    exact ⟨v, n', by simpa [convM] using e, s, l⟩
  | .nilPtr, n, hn, h => by
    obtain ⟨v, n', e, s, l⟩ := shapeK lc .nilPtr n hn h
    exact ⟨v, n', by simpa [convM] using e, s, l⟩
  | .slice xs, n, hn, h => by
    obtain ⟨v, n', e, s, l⟩ := shapeK lc (.slice xs) n hn h
    exact ⟨v, n', by simpa [convM] using e, s, l⟩
  | .strMap kvs, n, hn, h => by
    obtain ⟨v, n', e, s, l⟩ := shapeK lc (.strMap kvs) n hn h
    exact ⟨v, n', by simpa [convM] using e, s, l⟩
  | .struct fs, n, hn, h => by
    obtain ⟨v, n', e, s, l⟩ := shapeK lc (.struct fs) n hn h
    exact ⟨v, n', by simpa [convM] using e, s, l⟩
  | .keyedMap _, _, _, h => by simp [JsonLike] at h
  | .value _, _, _, h => by simp [JsonLike] at h
  | .marshaler _ _ _, _, _, h => by simp [JsonLike] at h
  | .nilMarshalerPtr, _, _, h => by simp [JsonLike] at h
  | .unsupported, _, _, h => by simp [JsonLike] at h
theorem shapeK (lc : Bool) : ∀ (g : GoVal) (n : Nat), 0 < n → JsonLike (fieldKey lc) g = true →
    ∃ v n', convK lc g n = some (v, n') ∧ Shape (fieldKey lc) g v ∧ n ≤ n'
  | .nil, n, _, _ => ⟨.null, n, by simp [convK], .nil, Nat.le_refl _⟩
  | .nilPtr, n, _, _ => ⟨.null, n, by simp [convK], .nilPtr, Nat.le_refl _⟩
  | .bool b, n, _, _ => ⟨.bool b, n, by simp [convK], .bool b, Nat.le_refl _⟩
  | .int k i, n, _, _ => ⟨.int i, n, by simp [convK], .int k i, Nat.le_refl _⟩
  | .uint k u, n, _, _ => ⟨.int u.toInt64, n, by simp [convK], .uint k u, Nat.le_refl _⟩
  | .float32 f, n, _, _ => ⟨.float f, n, by simp [convK], .float32 f, Nat.le_refl _⟩
  | .float64 f, n, _, _ => ⟨.float f, n, by simp [convK], .float64 f, Nat.le_refl _⟩
  | .string b, n, _, _ => ⟨.str b, n, by simp [convK], .string b, Nat.le_refl _⟩
  | .time b, n, _, _ => ⟨.str b, n, by simp [convK], .time b, Nat.le_refl _⟩
  | .nilSlice, n, _, _ => ⟨.list 0 [], n, by simp [convK], .nilSlice, Nat.le_refl _⟩
  | .nilMap, n, hn, _ => ⟨.map n [], n + 1, by simp [convK], .nilMap (by omega), by omega⟩
  | .iface g, n, hn, h => by
    have h' : JsonLike (fieldKey lc) g = true := by simpa [JsonLike] using h
    obtain ⟨v, n', e, s, l⟩ := shapeK lc g n hn h'
    exact ⟨v, n', by simpa [convK] using e, .iface s, l⟩
  | .ptr g, n, hn, h => by
    have h' : JsonLike (fieldKey lc) g = true := by simpa [JsonLike] using h
    obtain ⟨v, n', e, s, l⟩ := shapeK lc g n hn h'
    exact ⟨v, n', by simpa [convK] using e, .ptr s, l⟩
  | .slice xs, n, hn, h => by
    have h' : JsonLikeList (fieldKey lc) xs = true := by simpa [JsonLike] using h
    obtain ⟨vs, n', e, s, l⟩ := shapeList lc xs (n + 1) (by omega) h'
    exact ⟨.list (listId vs.length n) vs, n', by simp [convK, e], .slice (listId_ne_zero _ _ hn) s, by omega⟩
  | .strMap kvs, n, hn, h => by
    have h' : JsonLikeKvs (fieldKey lc) (([] : List (Bytes × Value)).map Prod.fst) kvs = true := by
      simpa [JsonLike] using h
    obtain ⟨m, n', e, s, l⟩ := shapeKvs lc kvs [] (n + 1) (by omega) h'
    exact ⟨.map n m, n', by simp [convK, e], .strMap (by omega) s, by omega⟩
  | .struct fs, n, hn, h => by
    have h' : JsonLikeFields (fieldKey lc) (([] : List (Bytes × Value)).map Prod.fst) fs = true := by
      simpa [JsonLike] using h
    obtain ⟨m, n', e, s, l⟩ := shapeFields lc fs [] (n + 1) (by omega) h'
    exact ⟨.map n m, n', by simp [convK, e], .struct (by omega) s, by omega⟩
  | .keyedMap _, _, _, h => by simp [JsonLike] at h
  | .value _, _, _, h => by simp [JsonLike] at h
  | .marshaler _ _ _, _, _, h => by simp [JsonLike] at h
  | .nilMarshalerPtr, _, _, h => by simp [JsonLike] at h
  | .unsupported, _, _, h => by simp [JsonLike] at h
theorem shapeList (lc : Bool) : ∀ (xs : List GoVal) (n : Nat), 0 < n → JsonLikeList (fieldKey lc) xs = true →
    ∃ vs n', convList lc xs n = some (vs, n') ∧ ShapeList (fieldKey lc) xs vs ∧ n ≤ n'
  | [], n, _, _ => ⟨[], n, by simp [convList], .nil, Nat.le_refl _⟩
  | x :: xs, n, hn, h => by
    have h' : JsonLike (fieldKey lc) x = true ∧ JsonLikeList (fieldKey lc) xs = true := by
      simpa [JsonLikeList] using h
    obtain ⟨v, n1, e1, s1, l1⟩ := shapeM lc x n hn h'.1
    obtain ⟨vs, n2, e2, s2, l2⟩ := shapeList lc xs n1 (by omega) h'.2
    exact ⟨v :: vs, n2, by simp [convList, e1, e2], .cons s1 s2, by omega⟩
theorem shapeKvs (lc : Bool) : ∀ (kvs : List (Bytes × GoVal)) (acc : List (Bytes × Value)) (n : Nat), 0 < n →
    JsonLikeKvs (fieldKey lc) (acc.map Prod.fst) kvs = true →
    ∃ m n', convKvs lc kvs acc n = some (acc ++ m, n') ∧ ShapeKvs (fieldKey lc) kvs m ∧ n ≤ n'
  | [], acc, n, _, _ => ⟨[], n, by simp [convKvs], .nil, Nat.le_refl _⟩
  | (k, x) :: r, acc, n, hn, h => by
    have h' : (k ∉ acc.map Prod.fst ∧ JsonLike (fieldKey lc) x = true) ∧
        JsonLikeKvs (fieldKey lc) (acc.map Prod.fst ++ [k]) r = true := by
      simpa [JsonLikeKvs] using h
    obtain ⟨v, n1, e1, s1, l1⟩ := shapeM lc x n hn h'.1.2
    have hi : Value.insert acc k v = acc ++ [(k, v)] := Value.insert_of_not_mem acc k v h'.1.1
    have h2 : JsonLikeKvs (fieldKey lc) ((acc ++ [(k, v)]).map Prod.fst) r = true := by
      simpa using h'.2
    obtain ⟨m, n2, e2, s2, l2⟩ := shapeKvs lc r (acc ++ [(k, v)]) n1 (by omega) h2
    refine ⟨(k, v) :: m, n2, ?_, .cons s1 s2, by omega⟩
    simp [convKvs, e1, hi, e2]
theorem shapeFields (lc : Bool) : ∀ (fs : List (Bytes × Bool × GoVal)) (acc : List (Bytes × Value)) (n : Nat), 0 < n →
    JsonLikeFields (fieldKey lc) (acc.map Prod.fst) fs = true →
    ∃ m n', convFields lc fs acc n = some (acc ++ m, n') ∧ ShapeFields (fieldKey lc) fs m ∧ n ≤ n'
  | [], acc, n, _, _ => ⟨[], n, by simp [convFields], .nil, Nat.le_refl _⟩
  | (name, false, x) :: r, acc, n, hn, h => by
    have h' : JsonLikeFields (fieldKey lc) (acc.map Prod.fst) r = true := by simpa [JsonLikeFields] using h
    obtain ⟨m, n2, e2, s2, l2⟩ := shapeFields lc r acc n hn h'
    exact ⟨m, n2, by simp [convFields, e2], .skip s2, l2⟩
  | (name, true, x) :: r, acc, n, hn, h => by
    have h' : (fieldKey lc name ∉ acc.map Prod.fst ∧ JsonLike (fieldKey lc) x = true) ∧
        JsonLikeFields (fieldKey lc) (acc.map Prod.fst ++ [fieldKey lc name]) r = true := by
      simpa [JsonLikeFields] using h
    obtain ⟨v, n1, e1, s1, l1⟩ := shapeM lc x n hn h'.1.2
    have hi : Value.insert acc (fieldKey lc name) v = acc ++ [(fieldKey lc name, v)] :=
      Value.insert_of_not_mem acc _ v h'.1.1
    have h2 : JsonLikeFields (fieldKey lc) ((acc ++ [(fieldKey lc name, v)]).map Prod.fst) r = true := by
      simpa using h'.2
    obtain ⟨m, n2, e2, s2, l2⟩ := shapeFields lc r (acc ++ [(fieldKey lc name, v)]) n1 (by omega) h2
    refine ⟨(fieldKey lc name, v) :: m, n2, ?_, .field s1 s2, by omega⟩
    simp [convFields, e1, hi, e2]
end


/-! ### scalars -/

/-- `Int(v.Uint())` keeps the number exactly when it is below 2^63 -/
theorem uint_guard (u : UInt64) (h : u.toNat < 2 ^ 63) : u.toInt64.toInt = (u.toNat : Int) := by
  have : u.toInt64.toInt = u.toBitVec.toInt := rfl
  rw [this, BitVec.toInt_eq_toNat_cond]
  have h3 : u.toBitVec.toNat = u.toNat := rfl
  rw [h3]
  split <;> omega

theorem lower_ascii (c : UInt8) (h : c < 128) : encodeRune (toLower c.toNat) = [if 65 ≤ c ∧ c ≤ 90 then c + 32 else c] := by
  have hc : c.toNat < 128 := by simpa [UInt8.lt_iff_toNat_lt] using h
  unfold toLower
  simp only [hc, if_true]
  by_cases hu : 65 ≤ c.toNat ∧ c.toNat ≤ 90
  · have : 65 ≤ c ∧ c ≤ 90 := by simpa [UInt8.le_iff_toNat_le] using hu
    have h2 : c.toNat + 32 < 128 := by omega
    simp only [hu, this, and_self, if_true, encodeRune, h2]
    congr 1
  · have : ¬ (65 ≤ c ∧ c ≤ 90) := by simpa [UInt8.le_iff_toNat_le] using hu
    simp only [hu, this, if_false, encodeRune, hc, if_true]
    congr 1
    apply UInt8.toNat_inj.mp
    simp

end SoyVerif.Convert
