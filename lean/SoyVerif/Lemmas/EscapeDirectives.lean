/-
  Lemmas about the escape decision of evalPrint (Model/Directives.lean): a chain without
  cancelling directives leaves the `escapeHtml` flag alone.
-/
import SoyVerif.Model.Directives

namespace SoyVerif.Lemmas.EscapeDirectives
open SoyVerif SoyVerif.Model SoyVerif.Model.Directives

/-- every directive of the chain that exists in the table has CancelAutoescape = false -/
def noCancel (tbl : Table) (calls : List DirCall) : Bool :=
  calls.all fun c => match lookup tbl c.1 with
    | some e => !e.cancel
    | none => true

/-- the value the directive chain produces (the print's `result`), forgetting the flag -/
def chainValue (tbl : Table) (calls : List DirCall) (v : Bytes) : Res Bytes :=
  match runChain tbl calls v true with
  | .ok (r, _) => .ok r
  | .err => .err
  | .panic => .panic
  | .unmodelled => .unmodelled

theorem runChain_noCancel (tbl : Table) (calls : List DirCall) :
    noCancel tbl calls = true → ∀ (v : Bytes) (esc : Bool) (r : Bytes) (e : Bool),
      runChain tbl calls v esc = .ok (r, e) → e = esc := by
  induction calls with
  | nil =>
    intro _ v esc r e h
    simp [runChain] at h
    exact h.2.symm
  | cons c cs ih =>
    intro hnc v esc r e h
    obtain ⟨name, args⟩ := c
    simp only [noCancel, List.all_cons, Bool.and_eq_true] at hnc
    unfold runChain at h
    cases hl : lookup tbl name with
    | none => simp [hl] at h
    | some d =>
      simp only [hl] at h hnc
      split at h
      · simp at h
      · cases ha : applyImpl d.impl v args with
        | ok v' =>
          simp only [ha] at h
          have hc : d.cancel = false := by simpa using hnc.1
          rw [hc] at h
          exact ih hnc.2 v' esc r e (by simpa using h)
        | err => simp [ha] at h
        | panic => simp [ha] at h
        | unmodelled => simp [ha] at h

/-- the value computed does not depend on the flag -/
theorem runChain_value (tbl : Table) (calls : List DirCall) :
    ∀ (v : Bytes) (esc esc' : Bool) (r : Bytes) (e : Bool),
      runChain tbl calls v esc = .ok (r, e) → ∃ e', runChain tbl calls v esc' = .ok (r, e') := by
  induction calls with
  | nil =>
    intro v esc esc' r e h
    simp [runChain] at h
    exact ⟨esc', by simp [runChain, h.1]⟩
  | cons c cs ih =>
    intro v esc esc' r e h
    obtain ⟨name, args⟩ := c
    unfold runChain at h ⊢
    cases hl : lookup tbl name with
    | none => simp [hl] at h
    | some d =>
      simp only [hl] at h ⊢
      split at h
      · simp at h
      · rename_i hn
        simp only [hn]
        cases ha : applyImpl d.impl v args with
        | ok v' =>
          simp only [ha] at h ⊢
          exact ih v' _ _ r e h
        | err => simp [ha] at h
        | panic => simp [ha] at h
        | unmodelled => simp [ha] at h

theorem printBytesWith_noCancel (tbl : Table) (oblig : List Bytes) (mode : Mode) (dirs : List DirCall) (v out : Bytes)
    (hmode : mode ≠ .off)
    (hnc : noCancel tbl (dirs ++ oblig.map fun n => (n, [])) = true)
    (hout : printBytesWith tbl oblig mode dirs v = .ok out) :
    ∃ r, chainValue tbl (dirs ++ oblig.map fun n => (n, [])) v = .ok r ∧ out = htmlEscape r := by
  have hm : (mode != Mode.off) = true := by simpa using hmode
  unfold printBytesWith at hout
  rw [hm] at hout
  cases hr : runChain tbl (dirs ++ oblig.map fun n => (n, [])) v true with
  | ok p =>
    obtain ⟨r, e⟩ := p
    have he : e = true := runChain_noCancel tbl _ hnc v true r e hr
    subst he
    simp only [hr] at hout
    refine ⟨r, by simp [chainValue, hr], ?_⟩
    simpa using hout.symm
  | err => simp [hr] at hout
  | panic => simp [hr] at hout
  | unmodelled => simp [hr] at hout

end SoyVerif.Lemmas.EscapeDirectives
