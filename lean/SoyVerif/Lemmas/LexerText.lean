/-
  State-function lemmas, part 3: lexText with the comment and soydoc scanners it calls.
-/
import SoyVerif.Lemmas.LexerStates2

namespace SoyVerif.Model.Lex
open SoyVerif SoyVerif.Model

theorem Sat.of_eq {α : Type} {x : Option α} {a : α} {Q : α → Prop} (h : Sat x Q) (hx : x = some a) : Q a := by
  obtain ⟨b, hb, hq⟩ := h
  rw [hx] at hb
  simp only [Option.some.injEq] at hb
  subst hb
  exact hq

theorem Sat.ne_none {α : Type} {x : Option α} {Q : α → Prop} (h : Sat x Q) : x ≠ none := by
  obtain ⟨b, hb, _⟩ := h
  rw [hb]; simp

theorem scanWhile_ex (p : Int → Bool) (hp : p eof = false) (l : Lexer) (h0 : 0 ≤ l.pos) (h1 : l.pos ≤ l.len) :
    ∃ r l', scanWhile p hp l = some (r, l') ∧ (l'.len = l.len ∧ l'.mp = l.mp ∧ l'.tagStart = l.tagStart ∧ (l'.bad = l.bad ∧ l'.cnt = l.cnt ∧ l'.tot = l.tot) ∧ l'.tagBad = l.tagBad ∧ l'.input = l.input) ∧ l'.start = l.start ∧ p r = false ∧
      ScanFacts l r l' := by
  obtain ⟨⟨r, l'⟩, h, f⟩ := scanWhile_sat p hp l
    (Q := fun x => (x.2.len = l.len ∧ x.2.mp = l.mp ∧ x.2.tagStart = l.tagStart ∧ (x.2.bad = l.bad ∧ x.2.cnt = l.cnt ∧ x.2.tot = l.tot) ∧ x.2.tagBad = l.tagBad ∧ x.2.input = l.input) ∧ x.2.start = l.start ∧ p x.1 = false ∧ ScanFacts l x.1 x.2)
    h0 h1 (fun _ _ a b c d => ⟨a, b, c, d⟩)
  exact ⟨r, l', h, f⟩

/-! ### comments -/

theorem lexLineComment_sat {n : Int} {l0 l : Lexer} (hn : l.len = n ∧ (l.mp : Int) ≤ n ∧ 0 ≤ l.tagStart ∧ l.tagStart ≤ n ∧ (l.bad = 0 ∧ l.cnt ≤ 2 * l.start ∧ l.tot ≤ l.start) ∧ l.tagBad = 0) (h0 : 0 ≤ l.start)
    (h1 : l.start < l.pos) (h2 : l.pos ≤ n) (hadv : l0.pos < l.pos) (hi0 : l.input = l0.input) :
    Sat (lexLineComment l) (Post n .text l0) := by
  unfold lexLineComment
  apply Sat.bind
  apply scanWhile_sat _ _ _ (by lx) (by lx)
  intro r l1 hl1 hs1 _ hf1
  unfold ScanFacts at hf1
  dsimp only
  apply Sat.bind
  em l2 hl2 hp2 hs2 hw2
  fin

theorem lexBlockComment_sat {n : Int} {l0 : Lexer} : ∀ (k : Nat) (l : Lexer) (star : Bool), l.rem = k →
    (l.len = n ∧ (l.mp : Int) ≤ n ∧ 0 ≤ l.tagStart ∧ l.tagStart ≤ n ∧ (l.bad = 0 ∧ l.cnt ≤ 2 * l.start ∧ l.tot ≤ l.start) ∧ l.tagBad = 0) → 0 ≤ l.start → l.start ≤ l.pos → l.pos ≤ n → l0.pos < l.pos →
    (byteAt l.input l.start.toNat = 47 ∧ byteAt l.input (l.start.toNat + 1) = 42) → l.input = l0.input →
    Sat (lexBlockComment l star) (Post n .text l0) := by
  intro k
  induction k using Nat.strongRecOn with
  | _ k ih =>
    intro l star hk hn h0 h1 h2 hadv hcm hi0
    unfold lexBlockComment
    split
    · rename_i heq
      obtain ⟨_, _, h, _⟩ := next_ex (l := l) (by lx)
      rw [heq] at h; exact absurd h (by simp)
    · rename_i r l1 hnx
      obtain ⟨hl1, hs1, hf1⟩ := next_facts hnx (by lx)
      unfold NextFacts at hf1
      have hcm1 : byteAt l1.input l1.start.toNat = 47 ∧ byteAt l1.input (l1.start.toNat + 1) = 42 := by
        rw [hl1.2.2.2.2.2, hs1]; exact hcm
      split
      · -- the comment is never closed: reported at its `/*`, `l.start`
        exact errorfAt_sat (by lx) (by inq) (cmt_err hcm1)
      split
      · exact ih l1.rem (by simp only [Lexer.rem] at hk ⊢; lx) l1 _ rfl (by lx) (by lx) (by lx) (by lx) (by lx) hcm1 (by inq)
      split
      · obtain ⟨l2, he, hl2, hp2, hs2, hw2⟩ := emit_ex .tComment (l := l1) (by lx) (by lx) (by lx)
        simp only [he]
        apply Sat.ofSome
        apply Post.of (by lx) (by lx) (by lx) (by lx) (by lx) (by intro _ _; lx) (by intro _ _; lx) (by exq) (by inq)
      · exact ih l1.rem (by simp only [Lexer.rem] at hk ⊢; lx) l1 _ rfl (by lx) (by lx) (by lx) (by lx) (by lx) hcm1 (by inq)

/-! ### soydoc -/

/-- result of lexSoyDocParam and its second half: a lexer with the invariant, not behind `p` -/
def SdpPost (n p : Int) (l' : Lexer) : Prop :=
  (l'.len = n ∧ (l'.mp : Int) ≤ n ∧ 0 ≤ l'.tagStart ∧ l'.tagStart ≤ n ∧ (l'.bad = 0 ∧ l'.cnt ≤ 2 * l'.start ∧ l'.tot ≤ l'.start) ∧ l'.tagBad = 0) ∧ 0 ≤ l'.start ∧ l'.start ≤ l'.pos ∧ l'.pos ≤ n ∧ p ≤ l'.pos

theorem lexSoyDocParamName_sat {n : Int} {l : Lexer} (hn : l.len = n ∧ (l.mp : Int) ≤ n ∧ 0 ≤ l.tagStart ∧ l.tagStart ≤ n ∧ (l.bad = 0 ∧ l.cnt ≤ 2 * l.start ∧ l.tot ≤ l.start) ∧ l.tagBad = 0) (h0 : 0 ≤ l.start)
    (h1 : l.start ≤ l.pos) (h2 : l.pos ≤ n) (hsl : l.cnt + 1 ≤ 2 * l.start) :
    Sat (lexSoyDocParamName l) (fun l' => SdpPost n l.pos l' ∧ l'.input = l.input) := by
  unfold lexSoyDocParamName
  obtain ⟨r1, l1, e1, hl1, hs1, _, hf1⟩ := scanWhile_ex sdpSkip (by decide) l (by lx) (by lx)
  unfold ScanFacts at hf1
  simp only [e1]
  obtain ⟨r2, l2, e2, hl2, hs2, hr2, hf2⟩ := scanWhile_ex sdpName (by decide) l1.backup.ignore (by lx) (by lx)
  unfold ScanFacts at hf2
  simp only [e2]
  by_cases he : r2 = eof
  · subst he
    simp only [ne_eq, not_true_eq_false, if_false, show isSpace eof = false by decide]
    obtain ⟨l3, e3, hl3, hp3, hs3, hw3⟩ := emit_ex .tIdent (l := l2) (by lx) (by lx) (by lx)
    simp only [e3]
    apply Sat.ofSome
    refine ⟨?_, by simp only [Bool.false_eq_true, if_false, ignore_input]; rw [hl3.2.2.2.2.2.2, hl2.2.2.2.2.2, ignore_input, backup_input, hl1.2.2.2.2.2]⟩
    unfold SdpPost
    simp only [Bool.false_eq_true, if_false, ignore_pos, ignore_start, ignore_len]
    exact ⟨by lx, by lx, by lx, by lx, by lx⟩
  · simp only [ne_eq, he, not_false_eq_true, if_true]
    have hr2' : 0 ≤ r2 := by simp only [eof] at he; lx
    obtain ⟨l3, e3, hl3, hp3, hs3, hw3⟩ := emit_ex .tIdent (l := l2.addPos (-1)) (by lx) (by lx) (by lx)
    simp only [e3]
    apply Sat.ofSome
    have hin3 : l3.input = l.input := by
      rw [hl3.2.2.2.2.2.2, addPos_input, hl2.2.2.2.2.2, ignore_input, backup_input, hl1.2.2.2.2.2]
    refine ⟨?_, by split <;> simp only [ignore_input, addPos_input, hin3]⟩
    unfold SdpPost
    split
    · simp only [ignore_pos, ignore_start, ignore_len, addPos_pos, addPos_len]
      exact ⟨by lx, by lx, by lx, by lx, by lx⟩
    · simp only [ignore_pos, ignore_start, ignore_len]
      exact ⟨by lx, by lx, by lx, by lx, by lx⟩


theorem SdpPost.mono {n p q : Int} {l : Lexer} (h : SdpPost n p l) (hq : q ≤ p) : SdpPost n q l := by
  unfold SdpPost at h ⊢
  omega

theorem lexSoyDocParam_sat {n : Int} {l : Lexer} (hn : l.len = n ∧ (l.mp : Int) ≤ n ∧ 0 ≤ l.tagStart ∧ l.tagStart ≤ n ∧ (l.bad = 0 ∧ l.cnt ≤ 2 * l.start ∧ l.tot ≤ l.start) ∧ l.tagBad = 0) (h0 : 0 ≤ l.start)
    (h1 : l.start ≤ l.pos) (h2 : l.pos + 6 ≤ n) :
    Sat (lexSoyDocParam l) (fun l' => SdpPost n l.pos l' ∧ l'.input = l.input) := by
  unfold lexSoyDocParam
  dsimp only
  obtain ⟨ch, l1, e1, hl1, hs1, hf1⟩ := next_ex (l := { l with pos := l.pos + 6 }) (by dsimp only; omega)
  unfold NextFacts at hf1
  simp only [Lexer.len] at hl1 hf1 hn
  dsimp only at hl1 hs1 hf1
  have ht6 : ({ l with pos := l.pos + 6 } : Lexer).tagBad = l.tagBad := rfl
  simp only [e1]
  split
  · obtain ⟨c2, l2, e2, hl2, hs2, hf2⟩ := next_ex (l := l1) (by omega)
    unfold NextFacts at hf2
    simp only [e2]
    split
    · apply Sat.ofSome
      refine ⟨?_, by rw [hl2.2.2.2.2.2, hl1.2.2.2.2.2]⟩
      unfold SdpPost
      exact ⟨by lx, by lx, by lx, by lx, by lx⟩
    · obtain ⟨l3, e3, hl3, hp3, hs3, hw3⟩ := emit_ex .tSoyDocOptionalParam (l := l2.backup) (by lx) (by lx) (by lx)
      simp only [e3]
      exact (lexSoyDocParamName_sat (by lx) (by lx) (by lx) (by lx) (by lx)).mono (fun _ h => ⟨h.1.mono (by lx),
        by rw [h.2, hl3.2.2.2.2.2.2, backup_input, hl2.2.2.2.2.2, hl1.2.2.2.2.2]⟩)
  · split
    · obtain ⟨l3, e3, hl3, hp3, hs3, hw3⟩ := emit_ex .tSoyDocParam (l := l1.backup) (by lx) (by lx) (by lx)
      simp only [e3]
      exact (lexSoyDocParamName_sat (by lx) (by lx) (by lx) (by lx) (by lx)).mono (fun _ h => ⟨h.1.mono (by lx),
        by rw [h.2, hl3.2.2.2.2.2.2, backup_input, hl1.2.2.2.2.2]⟩)
    · apply Sat.ofSome
      refine ⟨?_, by rw [hl1.2.2.2.2.2]⟩
      unfold SdpPost
      exact ⟨by lx, by lx, by lx, by lx, by lx⟩

theorem isEndOfLine_nonneg {r : Int} (h : isEndOfLine r = true) : 0 ≤ r := by
  simp only [isEndOfLine, Bool.or_eq_true, beq_iff_eq] at h
  omega

/-- the loop of lexSoyDoc, entered (from lexText at `l0`) after input has been consumed -/
theorem lexSoyDocLoop_sat {n : Int} {l0 : Lexer} : ∀ (k : Nat) (l : Lexer) (ds : Int) (star sol : Bool),
    2 * l.rem + (if sol = true then 1 else 0) = k →
    (l.len = n ∧ (l.mp : Int) ≤ n ∧ 0 ≤ l.tagStart ∧ l.tagStart ≤ n ∧ (l.bad = 0 ∧ l.cnt ≤ 2 * l.start ∧ l.tot ≤ l.start) ∧ l.tagBad = 0) → 0 ≤ l.start → l.start ≤ l.pos → l.pos ≤ n → l0.pos < l.pos →
    (ds ≤ n ∧ byteAt l.input ds.toNat = 47 ∧ byteAt l.input (ds.toNat + 1) = 42 ∧ byteAt l.input (ds.toNat + 2) = 42) → l.input = l0.input →
    Sat (lexSoyDocLoop l ds star sol) (Post n .text l0) := by
  intro k
  induction k using Nat.strongRecOn with
  | _ k ih =>
    intro l ds star sol hk hn h0 h1 h2 hadv hds hi0
    unfold lexSoyDocLoop
    split
    · rename_i heq
      obtain ⟨_, _, h, _⟩ := next_ex (l := l) (by lx)
      rw [heq] at h; exact absurd h (by simp)
    · rename_i ch l1 hnx
      obtain ⟨hl1, hs1, hf1⟩ := next_facts hnx (by lx)
      unfold NextFacts at hf1
      have hds1 : ds ≤ n ∧ byteAt l1.input ds.toNat = 47 ∧ byteAt l1.input (ds.toNat + 1) = 42 ∧ byteAt l1.input (ds.toNat + 2) = 42 := by
        rw [hl1.2.2.2.2.2]; exact hds
      split
      · -- the soydoc comment is never closed: reported at its `/**`, `docStart`
        exact errorfAt_sat (by lx) (by inq) (doc_err hds1.2)
      rename_i hE
      simp only [eof] at hE
      have hrem1 : l1.rem < l.rem := by simp only [Lexer.rem]; lx
      split
      · -- star && ch == '/'
        obtain ⟨l2, e2, hl2, hp2, hw2, hs2⟩ := maybeEmitText_ex (l := l1) (k := 2) (by lx) (by omega) (by lx)
        simp only [e2]
        obtain ⟨l3, e3, hl3, hp3, hs3, hw3⟩ := emit_ex .tSoyDocEnd (l := l2) (by lx) (by lx) (by lx)
        simp only [e3]
        apply Sat.ofSome
        apply Post.of (by lx) (by lx) (by lx) (by lx) (by lx) (by intro _ _; lx) (by intro _ _; lx) (by exq) (by inq)
      split
      · rename_i hS
        split
        · exact ih _ (by rw [← hk]; simp only [hS, if_true]; omega) l1 _ _ _ rfl
            (by lx) (by lx) (by lx) (by lx) (by lx) hds1 (by inq)
        split
        · exact ih _ (by rw [← hk]; simp only [hS, if_true]; omega) l1 _ _ _ rfl
            (by lx) (by lx) (by lx) (by lx) (by lx) hds1 (by inq)
        · rename_i hSp hSt
          have hpre := hasPrefixAt_sat (s := l1.input) (pos := l1.pos - 1) (pre := atParam)
            (Q := fun b => b = true → l1.pos - 1 + 6 ≤ l1.len) (by lx) (by lx)
            (fun b hb h => by have := hb h; simp only [atParam, List.length_cons, List.length_nil] at this; lx)
          split
          · rename_i hPre; exact absurd hPre hpre.ne_none
          · rename_i pre hPre
            have hlen := hpre.of_eq hPre
            have hsat : Sat (if pre = true then lexSoyDocParam (l1.addPos (-1)).ignore
                else some (l1.addPos (-1)).ignore) (fun l' => SdpPost n (l1.pos - 1) l' ∧ l'.input = l1.input) := by
              split
              · rename_i hp
                have := hlen hp
                exact (lexSoyDocParam_sat (l := (l1.addPos (-1)).ignore) (by lx) (by lx) (by lx) (by lx)).mono
                  (fun _ h => ⟨h.1.mono (by lx), by rw [h.2, ignore_input, addPos_input]⟩)
              · apply Sat.ofSome
                refine ⟨?_, by rw [ignore_input, addPos_input]⟩
                unfold SdpPost
                exact ⟨by lx, by lx, by lx, by lx, by lx⟩
            split
            · rename_i hP; exact absurd hP hsat.ne_none
            · rename_i l2 hP
              obtain ⟨hp2, hin2⟩ := hsat.of_eq hP
              unfold SdpPost at hp2
              have hrem2 : l2.rem ≤ l.rem := by simp only [Lexer.rem]; lx
              split
              · rename_i hEol
                exact absurd (isEndOfLine_isSpaceEOL hEol) hSp
              · exact ih _ (by rw [← hk]; simp only [hS, if_true, Bool.false_eq_true, if_false]; omega) l2 _ _ _ rfl
                  (by lx) (by lx) (by lx) (by lx) (by lx) (by rw [hin2]; exact hds1) (by inq)
      · rename_i hS
        have hS' : sol = false := by simpa using hS
        split
        · have hm := maybeEmitText_sat (l := l1) (k := 1)
            (Q := fun l' => (l'.len = l1.len ∧ l1.mp ≤ l'.mp ∧ ((l'.mp : Int) = l1.mp ∨ (l'.mp : Int) = l1.pos - 1) ∧ l'.tagStart = l1.tagStart ∧ (l'.bad = l1.bad ∧ l'.cnt + l1.start ≤ l1.cnt + l'.start ∧ l'.tot + l1.start ≤ l1.tot + l'.start) ∧ l'.tagBad = l1.tagBad ∧ l'.input = l1.input) ∧ l'.pos = l1.pos ∧ l'.width = l1.width ∧
              ((l'.start = l1.start ∧ l1.pos - 1 ≤ l1.start) ∨ (l1.start < l1.pos - 1 ∧ l'.start = l1.pos - 1)))
            (by lx) (by omega) (by lx) (fun _ a b c d => ⟨a, b, c, d⟩)
          split
          · rename_i hM; exact absurd hM hm.ne_none
          · rename_i l2 hM
            obtain ⟨hl2, hp2, hw2, hs2⟩ := hm.of_eq hM
            have hrem2 : l2.rem < l.rem := by simp only [Lexer.rem]; lx
            exact ih _ (by rw [← hk]; simp only [hS', Bool.false_eq_true, if_false, if_true]; omega) l2 _ _ _ rfl
              (by lx) (by lx) (by lx) (by lx) (by lx) (by rw [hl2.2.2.2.2.2.2]; exact hds1) (by inq)
        · exact ih _ (by rw [← hk]; simp only [hS', Bool.false_eq_true, if_false]; omega) l1 _ _ _ rfl
            (by lx) (by lx) (by lx) (by lx) (by lx) hds1 (by inq)

theorem lexSoyDoc_sat {n : Int} {l0 l : Lexer} (hn : l.len = n ∧ (l.mp : Int) ≤ n ∧ 0 ≤ l.tagStart ∧ l.tagStart ≤ n ∧ (l.bad = 0 ∧ l.cnt ≤ 2 * l.start ∧ l.tot ≤ l.start) ∧ l.tagBad = 0) (h0 : 0 ≤ l.start)
    (h1 : l.start < l.pos) (h2 : l.pos ≤ n) (hadv : l0.pos < l.pos)
    (hdoc : byteAt l.input l.start.toNat = 47 ∧ byteAt l.input (l.start.toNat + 1) = 42 ∧ byteAt l.input (l.start.toNat + 2) = 42)
    (hi0 : l.input = l0.input) :
    Sat (lexSoyDoc l) (Post n .text l0) := by
  unfold lexSoyDoc
  obtain ⟨l1, e1, hl1, hp1, hs1, hw1⟩ := emit_ex .tSoyDocStart (l := l) (by lx) (by lx) (by lx)
  simp only [e1]
  exact lexSoyDocLoop_sat _ l1 _ _ _ rfl (by lx) (by lx) (by lx) (by lx) (by lx) ⟨by lx, by rw [hl1.2.2.2.2.2.2]; exact hdoc⟩ (by inq)


/-! ### lexText -/

set_option maxHeartbeats 1600000 in
/-- the loop of lexText started at `l0`: `start` stays put, `pos` moves on, and once a
    character has been read (`lastChar ≠ noChar`) the pending text is not empty -/
theorem lexTextLoop_sat {n : Int} {l0 : Lexer} : ∀ (k : Nat) (l : Lexer) (lastChar : Int), l.rem = k →
    (l.len = n ∧ (l.mp : Int) ≤ n ∧ 0 ≤ l.tagStart ∧ l.tagStart ≤ n ∧ (l.bad = 0 ∧ l.cnt ≤ 2 * l.start ∧ l.tot ≤ l.start) ∧ l.tagBad = 0) → 0 ≤ l.start → l.start ≤ l.pos → l.pos ≤ n → l0.pos ≤ l.pos →
    (lastChar = noChar ∨ l.start < l.pos) → l.input = l0.input →
    Sat (lexTextLoop l lastChar) (Post n .text l0) := by
  intro k
  induction k using Nat.strongRecOn with
  | _ k ih =>
    intro l lastChar hk hn h0 h1 h2 hle hlast hi0
    unfold lexTextLoop
    split
    · rename_i heq
      obtain ⟨_, _, h, _⟩ := next_ex (l := l) (by lx)
      rw [heq] at h; exact absurd h (by simp)
    · rename_i r l1 hnx
      obtain ⟨hl1, hs1, hf1⟩ := next_facts hnx (by lx)
      unfold NextFacts at hf1
      split
      · -- r == '/'
        rename_i hS
        split
        · rename_i heq
          obtain ⟨_, _, h, _⟩ := next_ex (l := l1) (by lx)
          rw [heq] at h; exact absurd h (by simp)
        · rename_i r2 l2 hnx2
          obtain ⟨hl2, hs2, hf2⟩ := next_facts hnx2 (by lx)
          unfold NextFacts at hf2
          have hrem : l2.backup.rem < l.rem := by simp only [Lexer.rem]; lx
          split
          · -- "//"
            dsimp only
            generalize (if lastChar = noChar ∧ l2.lastEmit.val ≠ [] then
              (((l2.lastEmit.val.getLast?.getD 0).toNat : Nat) : Int) else lastChar) = lce
            split
            · obtain ⟨l3, e3, hl3, hp3, hw3, hs3⟩ := maybeEmitText_ex (l := l2) (k := 3) (by lx) (by omega) (by lx)
              simp only [e3]
              by_cases hlc : lastChar = noChar
              · simp only [hlc, ne_eq, not_true_eq_false, if_false]
                exact lexLineComment_sat (by lx) (by lx) (by lx) (by lx) (by lx) (by inq)
              · simp only [ne_eq, hlc, not_false_eq_true, if_true]
                have hlast' : l.start < l.pos := by
                  rcases hlast with h | h
                  · exact absurd h hlc
                  · exact h
                have ht3 : ({ l3 with start := l3.start + 1 } : Lexer).tagBad = l3.tagBad := rfl
                exact lexLineComment_sat (l := { l3 with start := l3.start + 1 })
                  (by simp only [Lexer.len, Lexer.mp, Lexer.bad, Lexer.cnt, Lexer.tot] at *; omega) (by dsimp only; lx) (by dsimp only; lx)
                  (by dsimp only; lx) (by dsimp only; lx) (by dsimp only; inq)
            · exact ih _ (by omega) l2.backup _ rfl (by lx) (by lx) (by lx) (by lx) (by lx) (Or.inr (by lx)) (by inq)
          split
          · -- "/*"
            obtain ⟨l3, e3, hl3, hp3, hw3, hs3⟩ := maybeEmitText_ex (l := l2) (k := 2) (by lx) (by omega) (by lx)
            simp only [e3]
            obtain ⟨r3, l4, e4, hl4, hs4, hf4⟩ := next_ex (l := l3) (by lx)
            unfold NextFacts at hf4
            simp only [e4]
            -- the comment begins at `l.pos`, where `/` and `*` were read; that is `l3.start`
            rename_i hstar
            have hc0 := next_content hnx (by omega) (by omega)
            have hc1 := next_content hnx2 (by omega) (by omega)
            rw [hl1.2.2.2.2.2] at hc1
            have hst3 : l3.start = l.pos := by lx
            have hp1 : l1.pos = l.pos + 1 := by lx
            have hin4 : l4.input = l.input := by
              rw [hl4.2.2.2.2.2, hl3.2.2.2.2.2.2, hl2.2.2.2.2.2, hl1.2.2.2.2.2]
            have hcm : byteAt l4.input l4.start.toNat = 47 ∧ byteAt l4.input (l4.start.toNat + 1) = 42 := by
              rw [hin4, hs4, hst3]
              have e : (l.pos + 1).toNat = l.pos.toNat + 1 := by omega
              rw [hp1, e] at hc1
              omega
            split
            · rename_i hstar3
              have hc2 := next_content e4 (by omega) (by omega)
              rw [hl3.2.2.2.2.2.2, hl2.2.2.2.2.2, hl1.2.2.2.2.2] at hc2
              have hp3 : l3.pos = l.pos + 2 := by lx
              have e2' : (l.pos + 2).toNat = l.pos.toNat + 2 := by omega
              rw [hp3, e2'] at hc2
              obtain ⟨p4, l5, e5, hl5, hs5, hp5, hf5⟩ := peek_ex (l := l4) (by lx)
              simp only [e5]
              split
              · -- "/**/": an empty block comment
                obtain ⟨r6, l6, e6, hl6, hs6, hf6⟩ := next_ex (l := l5) (by lx)
                unfold NextFacts at hf6
                simp only [e6]
                obtain ⟨l7, e7, hl7, hp7, hs7, hw7⟩ := emit_ex .tComment (l := l6) (by lx) (by lx) (by lx)
                simp only [e7]
                apply Sat.ofSome
                apply Post.of (by lx) (by lx) (by lx) (by lx) (by lx) (by intro _ _; lx) (by intro _ _; lx) (by exq) (by inq)
              · exact lexSoyDoc_sat (by lx) (by lx) (by lx) (by lx) (by lx)
                  ⟨by rw [hl5.2.2.2.2.2, hs5]; exact hcm.1, by rw [hl5.2.2.2.2.2, hs5]; exact hcm.2,
                   by rw [hl5.2.2.2.2.2, hs5, hin4, hs4, hst3]; omega⟩ (by inq)
            · exact lexBlockComment_sat _ l4.backup _ rfl (by lx) (by lx) (by lx) (by lx) (by lx)
                (by simpa using hcm) (by inq)
          · exact ih _ (by omega) l2.backup _ rfl (by lx) (by lx) (by lx) (by lx) (by lx) (Or.inr (by lx)) (by inq)
      split
      · -- '{'
        obtain ⟨l2, e2, hl2, hp2, hw2, hs2⟩ := maybeEmitText_ex (l := l1.backup) (k := 0) (by lx) (by omega) (by lx)
        simp only [e2]
        apply Sat.ofSome
        refine Post.of (by lx) (by lx) (by lx) (by lx) (by lx) (by intro _ _; decide) (by intro _ _; decide) ?_ (by inq)
        -- `lexLeftDelim` starts at the `{` just seen
        rename_i hbrace
        have hc := next_content hnx (by omega) (by omega)
        simp only [Extra]
        refine ⟨by lx, ?_⟩
        have hp : l2.pos = l.pos := by lx
        rw [hp, hl2.2.2.2.2.2.2, backup_input, hl1.2.2.2.2.2]
        omega
      split
      · first | exact errorf_sat (by lx) (by inq) | exact errorfAt_sat (by lx) (by inq) (by first | exact tag_err (by lx) (by lx) (Or.inl rfl) | exact tag_err (by lx) (by lx) (Or.inr rfl))
      split
      · -- eof
        obtain ⟨l2, e2, hl2, hp2, hw2, hs2⟩ := maybeEmitText_ex (l := l1.backup) (k := 0) (by lx) (by omega) (by lx)
        simp only [e2]
        obtain ⟨l3, e3, hmp3, hbad3, ⟨it, hb, ht⟩, hin3⟩ := emit_eof_ex (l := l2) (by lx) (by lx) (by lx)
        simp only [e3]
        exact Sat.ofSome (Post.nil ⟨it, hb, Or.inl ht⟩ ⟨by lx, by rw [hbad3.1]; lx⟩
          (fun it' hb' ht' => by rw [hb] at hb'; cases hb'; rw [ht] at ht'; cases ht') (by inq))
      · rename_i hE
        simp only [eof] at hE
        have hrem : l1.rem < l.rem := by simp only [Lexer.rem]; lx
        exact ih _ (by omega) l1 _ rfl (by lx) (by lx) (by lx) (by lx) (by lx) (Or.inr (by lx)) (by inq)

theorem lexText_ok {n : Int} {l : Lexer} (hg : Good n l) :
    Sat (lexText l) (Post n .text l) := by
  obtain ⟨hn, hs0, hsp, hpn⟩ := hg
  unfold lexText
  exact lexTextLoop_sat _ l noChar rfl hn hs0 hsp hpn (Int.le_refl _) (Or.inl rfl) rfl

/-! ### every state function -/

theorem step_ok {n : Int} (s : St) {l : Lexer} (hg : Good n l) (hx : Extra s l) : Sat (step s l) (Post n s l) := by
  cases s with
  | text => exact lexText_ok hg
  | leftDelim => exact lexLeftDelim_ok hg hx
  | rightDelim => exact lexRightDelim_ok hg hx
  | rightDelimEnd => exact lexRightDelimEnd_ok hg hx
  | beginTag => exact lexBeginTag_ok hg hx
  | insideTag => exact lexInsideTag_ok hg hx
  | ident => exact lexIdent_ok hg hx
  | number => exact lexNumber_ok hg
  | headerParam => exact lexHeaderParam_ok hg
  | css => exact lexCss_ok hg
  | literal => exact lexLiteral_ok hg
  | str q => exact lexString_ok hg hx

end SoyVerif.Model.Lex
