/-
  `NamesOk ff e`: the (decidable) condition on the names and literal spellings of a tree under
  which the lexer reads the printed text back token by token —
  * names are identifiers AS THE LEXER READS THEM: runs of letters, digits and `_` in UTF-8
    (`unicode.IsLetter`, `unicode.IsDigit`: `alnumBytes`), where
    - a function name and the first segment of a global begin with an ASCII letter or `_`
      (`isLetterOrUnderscore` in `lexInsideTag`) and are not keys of `builtinIdents`
      (`and`, `true`, `null`, `print`, `sp`, … would lex as the keyword): `identOk`, `notKeyword`;
    - a data-ref key `$k` begins with a letter (any Unicode letter) or `_`: `varOk`;
    - an access key `.k` / `?.k` and a later segment `.seg` of a global do not begin with an ASCII digit
      (which would make it an index token) — the EMPTY key included (`$a.`, `x.` are accepted by the
      parser): `keyOk`;
  * index accesses are not negative (`.-3` is not a token);
  * a string literal is spelled `q body q` with `q` one of `'` `"`, no unescaped `q` and no lone
    trailing backslash in the body (`strOk`; map keys are printed by `quoteString`, always fine);
  * a float literal `fmtFloatLit ff bits` has the shape `scanNumber` accepts as a float
    (`floatSpelling`: `[-]digits.digits[e[+-]digits]` or `[-]digits e[+-]digits` without leading
    zero) — a HYPOTHESIS on the parameter `ff` (`strconv.FormatFloat`), violated by NaN and ±Inf.
  Integers need no condition (`fmtInt`).
-/
import SoyVerif.Lemmas.LexPrintRun

set_option linter.unusedSimpArgs false
set_option linter.unusedVariables false

namespace SoyVerif.Lemmas.LexPrint
open SoyVerif SoyVerif.Model SoyVerif.Model.Lex SoyVerif.Model.PrintTokens SoyVerif.Model.Printer

/-- an ASCII letter or `_`, then letters / digits / `_` (UTF-8): what `lexInsideTag` + `lexIdent` read
    as ONE word — `[A-Za-z_][A-Za-z0-9_]*` for ASCII names -/
def identOk : Bytes → Bool
  | [] => false
  | c :: k => isIdStart c && alnumBytes k

/-- the name of `$name`: letters / digits / `_` beginning with a letter (of any script) or `_` -/
def varOk : Bytes → Bool
  | [] => false
  | c :: k =>
    alnumBytes (c :: k) &&
      match runeAt (c :: k) with
      | some (r, _) => letterR r
      | none => false

/-- the key of `.key` / `?.key`: a name like that of a variable — letters / digits / `_` beginning with
    a letter (of any script) or `_`.  (Until /repo 8984077 the lexer also took the EMPTY key, `$a.`, and
    keys beginning with a non-ASCII digit, `.٣`, for names.) -/
def keyOk (k : Bytes) : Bool := varOk k

/-- not a key of `parse.builtinIdents` -/
def notKeyword (n : Bytes) : Bool := (Gen.builtinIdents.lookup n).isNone

/-- a `.name` segment of a global -/
def segOk : Bytes → Bool
  | 46 :: k => keyOk k
  | _ => false

def globalOk (n : Bytes) : Bool :=
  identOk (splitDots n).1 && notKeyword (splitDots n).1 && (splitDots n).2.all segOk

/-- the exponent part: `e[+-]digits`, or nothing if `allowEmpty` -/
def expTail (t : Bytes) (allowEmpty : Bool) : Bool :=
  match t with
  | [] => allowEmpty
  | 101 :: t' =>
    let t'' := match t' with
      | 43 :: r => r
      | 45 :: r => r
      | _ => t'
    !t''.isEmpty && t''.all isDig
  | _ => false

def noLeadZero (ds : Bytes) : Bool := ds == [48] || ds.head? != some 48

/-- what `scanNumber` accepts as a FLOAT: `[-]digits.digits[e[+-]digits]` or `[-]digits e[+-]digits` -/
def floatSpelling (v : Bytes) : Bool :=
  let v1 := match v with
    | 45 :: r => r
    | _ => v
  let ds := v1.takeWhile isDig
  let t1 := v1.dropWhile isDig
  !ds.isEmpty &&
    match t1 with
    | 46 :: t2 => !(t2.takeWhile isDig).isEmpty && expTail (t2.dropWhile isDig) true
    | _ => noLeadZero ds && expTail t1 false

section
variable (ff : UInt64 → Bytes)

mutual
  def NamesOk : Expr → Bool
    | .null _ => true
    | .bool _ _ => true
    | .int _ _ => true
    | .float _ bits => floatSpelling (fmtFloatLit ff bits)
    | .str _ q _ => strOk q
    | .global _ n => globalOk n
    | .func _ n args => identOk n && notKeyword n && NamesOkL args
    | .list _ items => NamesOkL items
    | .map _ items => NamesOkM items
    | .dataRef _ k acc => varOk k && NamesOkAL acc
    | .not _ a => NamesOk a
    | .neg _ a => NamesOk a
    | .bin _ _ a b => NamesOk a && NamesOk b
    | .tern _ c a b => NamesOk c && NamesOk a && NamesOk b
  def NamesOkL : ExprList → Bool
    | .nil => true
    | .cons e r => NamesOk e && NamesOkL r
  def NamesOkM : MapItems → Bool
    | .nil => true
    | .cons _ e r => NamesOk e && NamesOkM r
  def NamesOkAL : AccessList → Bool
    | .nil => true
    | .cons a r => NamesOkA a && NamesOkAL r
  def NamesOkA : Access → Bool
    | .key _ _ k => keyOk k
    | .index _ _ i => decide (0 ≤ i)
    | .expr _ _ e => NamesOk e
end

end

/-! ### identifiers -/

theorem identOk_parts {k : Bytes} (h : identOk k = true) :
    ∃ c r, k = c :: r ∧ isIdStart c = true ∧ alnumBytes r = true := by
  cases k with
  | nil => simp [identOk] at h
  | cons c r =>
    simp only [identOk, Bool.and_eq_true] at h
    exact ⟨c, r, rfl, h.1, h.2⟩

theorem varOk_parts {k : Bytes} (h : varOk k = true) :
    ∃ c r, k = c :: r ∧ alnumBytes (c :: r) = true ∧ ∀ x w, runeAt (c :: r) = some (x, w) → letterR x = true := by
  cases k with
  | nil => simp [varOk] at h
  | cons c r =>
    simp only [varOk, Bool.and_eq_true] at h
    refine ⟨c, r, rfl, h.1, ?_⟩
    intro x w hx
    have h2 := h.2
    rw [hx] at h2
    exact h2

theorem keyOk_parts {k : Bytes} (h : keyOk k = true) :
    ∃ c r, k = c :: r ∧ alnumBytes (c :: r) = true ∧ ∀ x w, runeAt (c :: r) = some (x, w) → letterR x = true :=
  varOk_parts h

theorem idStart_idChar {c : UInt8} (h : isIdStart c = true) : isIdChar c = true := by simp [isIdChar, h]

theorem idStart_notDig {c : UInt8} (h : isIdStart c = true) : isDig c = false := by
  have hn := isIdStart_nat h
  cases hd : isDig c with
  | false => rfl
  | true => have := isDig_nat hd; omega

/-! ### integers: `fmtInt` -/

theorem ofNat_digit_toNat {n : Nat} (h : n < 10) : (UInt8.ofNat (48 + n)).toNat = 48 + n := by
  simp [UInt8.toNat_ofNat']; omega

theorem ofNat_digit_isDig {n : Nat} (h : n < 10) : isDig (UInt8.ofNat (48 + n)) = true := by
  have := ofNat_digit_toNat h
  have e1 : ((48 : UInt8) ≤ UInt8.ofNat (48 + n)) ↔ 48 ≤ (UInt8.ofNat (48 + n)).toNat := UInt8.le_iff_toNat_le
  have e2 : (UInt8.ofNat (48 + n) ≤ (57 : UInt8)) ↔ (UInt8.ofNat (48 + n)).toNat ≤ 57 := UInt8.le_iff_toNat_le
  simp only [isDig, Bool.and_eq_true, decide_eq_true_eq, e1, e2]
  omega

theorem natDigitsAux_shape : ∀ (fuel n : Nat) (acc : Bytes), n < fuel →
    ∃ ds, natDigitsAux fuel n acc = ds ++ acc ∧ ds ≠ [] ∧ AllDig ds ∧ (n = 0 → ds = [48]) ∧ (0 < n → ds.head? ≠ some 48)
  | 0, n, acc, h => by omega
  | fuel + 1, n, acc, h => by
    unfold natDigitsAux
    by_cases h10 : n < 10
    · simp only [h10, if_true]
      refine ⟨[UInt8.ofNat (48 + n)], rfl, by simp, ?_, ?_, ?_⟩
      · intro b hb; simp only [List.mem_singleton] at hb; subst hb; exact ofNat_digit_isDig h10
      · intro h0; subst h0; rfl
      · intro hpos
        simp only [List.head?_cons, ne_eq, Option.some.injEq]
        intro e
        have := ofNat_digit_toNat h10
        rw [e] at this
        simp at this; omega
    · simp only [h10, if_false]
      have hlt : n / 10 < fuel := by omega
      obtain ⟨ds, hds, hne, hall, _, hpos⟩ := natDigitsAux_shape fuel (n / 10) (UInt8.ofNat (48 + n % 10) :: acc) hlt
      refine ⟨ds ++ [UInt8.ofNat (48 + n % 10)], by rw [hds]; simp, by simp, ?_, by omega, ?_⟩
      · intro b hb
        rcases List.mem_append.mp hb with hb | hb
        · exact hall b hb
        · simp only [List.mem_singleton] at hb; subst hb; exact ofNat_digit_isDig (by omega)
      · intro _
        have := hpos (by omega)
        cases ds with
        | nil => exact absurd rfl hne
        | cons a r => simpa using this

theorem natDigits_shape (n : Nat) : natDigits n ≠ [] ∧ AllDig (natDigits n) ∧ NoLeadZero (natDigits n) := by
  obtain ⟨ds, hds, hne, hall, h0, hpos⟩ := natDigitsAux_shape (n + 1) n [] (by omega)
  simp only [List.append_nil] at hds
  unfold natDigits
  rw [hds]
  refine ⟨hne, hall, ?_⟩
  by_cases hn : n = 0
  · exact Or.inl (h0 hn)
  · exact Or.inr (hpos (by omega))

theorem fmtInt_shape (v : Int) : NumShape (fmtInt v) .tInteger := by
  obtain ⟨hne, hall, hz⟩ := natDigits_shape v.natAbs
  unfold fmtInt
  split
  · exact ⟨[45], natDigits v.natAbs, [], [], by simp, Or.inr rfl, hne, hall, Or.inl rfl, Or.inl rfl, fun _ => hz, by simp⟩
  · exact ⟨[], natDigits v.natAbs, [], [], by simp, Or.inl rfl, hne, hall, Or.inl rfl, Or.inl rfl, fun _ => hz, by simp⟩

/-- a non-negative index: `.` followed by digits -/
theorem fmtInt_nonneg {i : Int} (h : 0 ≤ i) : ∃ c k, fmtInt i = c :: k ∧ isDig c = true ∧ ∀ b ∈ c :: k, isIdChar b = true := by
  obtain ⟨hne, hall, _⟩ := natDigits_shape i.natAbs
  unfold fmtInt
  rw [if_neg (by omega)]
  cases hd : natDigits i.natAbs with
  | nil => exact absurd hd hne
  | cons c k =>
    rw [hd] at hall
    exact ⟨c, k, rfl, hall c (by simp), fun b hb => by simp [isIdChar, hall b hb]⟩

/-! ### floats: `floatSpelling` -/

theorem takeWhile_allDig : (v : Bytes) → AllDig (v.takeWhile isDig)
  | [] => by intro b hb; simp at hb
  | a :: r => by
    intro b hb
    rw [List.takeWhile_cons] at hb
    split at hb
    · rename_i ha
      rcases List.mem_cons.mp hb with rfl | hb
      · exact ha
      · exact takeWhile_allDig r b hb
    · simp at hb

theorem expTail_ok {t : Bytes} {allow : Bool} (h : expTail t allow = true) :
    ExpOk t ∧ (allow = false → t ≠ []) := by
  unfold expTail at h
  split at h
  · exact ⟨Or.inl rfl, fun ha => by rw [ha] at h; exact absurd h (by simp)⟩
  · rename_i t'
    refine ⟨Or.inr ?_, fun _ => by simp⟩
    simp only [Bool.and_eq_true, Bool.not_eq_true', List.isEmpty_eq_false_iff, List.all_eq_true] at h
    split at h
    · rename_i r; exact ⟨[43], r, rfl, Or.inr (Or.inl rfl), h.1, h.2⟩
    · rename_i r; exact ⟨[45], r, rfl, Or.inr (Or.inr rfl), h.1, h.2⟩
    · exact ⟨[], t', rfl, Or.inl rfl, h.1, h.2⟩
  · exact absurd h (by simp)

theorem floatSpelling_shape {v : Bytes} (h : floatSpelling v = true) : NumShape v .tFloat := by
  unfold floatSpelling at h
  -- the sign
  have key : ∀ (sg v1 : Bytes), v = sg ++ v1 → (sg = [] ∨ sg = [45]) →
      (!(v1.takeWhile isDig).isEmpty &&
        match v1.dropWhile isDig with
        | 46 :: t2 => !(t2.takeWhile isDig).isEmpty && expTail (t2.dropWhile isDig) true
        | _ => noLeadZero (v1.takeWhile isDig) && expTail (v1.dropWhile isDig) false) = true →
      NumShape v .tFloat := by
    intro sg v1 hv hsg hh
    simp only [Bool.and_eq_true, Bool.not_eq_true', List.isEmpty_eq_false_iff] at hh
    obtain ⟨hds, hh⟩ := hh
    have hsplit : v1 = v1.takeWhile isDig ++ v1.dropWhile isDig := (List.takeWhile_append_dropWhile).symm
    split at hh
    · rename_i t2 ht1
      simp only [Bool.and_eq_true, Bool.not_eq_true', List.isEmpty_eq_false_iff] at hh
      obtain ⟨hfs, hex⟩ := hh
      have hx := expTail_ok hex
      have hsplit2 : t2 = t2.takeWhile isDig ++ t2.dropWhile isDig := (List.takeWhile_append_dropWhile).symm
      refine ⟨sg, v1.takeWhile isDig, 46 :: t2.takeWhile isDig, t2.dropWhile isDig, ?_, hsg, hds, takeWhile_allDig _,
        Or.inr ⟨_, rfl, hfs, takeWhile_allDig _⟩, hx.1, fun e => by simp at e, by simp⟩
      rw [hv]
      congr 1
      conv => lhs; rw [hsplit, ht1, hsplit2]
      simp
    · rename_i hnot
      simp only [Bool.and_eq_true] at hh
      obtain ⟨hz, hex⟩ := hh
      have hx := expTail_ok hex
      have hne := hx.2 rfl
      refine ⟨sg, v1.takeWhile isDig, [], v1.dropWhile isDig, ?_, hsg, hds, takeWhile_allDig _, Or.inl rfl, hx.1, ?_, ?_⟩
      · rw [hv]; congr 1
      · intro _
        simp only [noLeadZero, Bool.or_eq_true, beq_iff_eq, bne_iff_ne, ne_eq] at hz
        exact hz
      · simp [hne]
  split at h
  · rename_i r; exact key [45] r rfl (Or.inr rfl) h
  · exact key [] v rfl (Or.inl rfl) h

end SoyVerif.Lemmas.LexPrint
