/-
  Completeness of the precedence-climbing expression parser on token renderings
  (`PrintTokens.Renders`): parsing any rendering of a tree — minimal or redundant
  parentheses — followed by a token that does not continue the expression yields the
  tree (modulo positions) and leaves the follower in the stream.

  Shape of the proof (DESIGN.md §6 C01):
  * `BStmt e`   continuation form for `parseExpr F p` on an UNPARENTHESISED rendering of `e`
                (`p ≤ lvl e`): whatever the operator loop does with `e` in hand on the rest of
                the stream (`Cont`), `parseExpr` does on rendering ++ rest;
  * `AStmt e`   the same for an operand slot (`Slot m`), parenthesised or not — derived from
                `BStmt e` (`A_of_B`, `paren_ft`);
  * `FTStmt e`  `parseExprFirstTerm` on a primary or unary expression; `B_of_FT`;
  * `okAfter e h` the follower `h` does not continue `e`: no access / call token (uniformly),
                not an operator the rightmost open operand would take, not `?`, and not `:` after
                a ternary (the `parseTernary` quirk);
  * the statements carry an explicit fuel bound (8 per token), so that the theorem holds for
                the fuel `parseExprEntry` actually uses.
-/
import SoyVerif.Lemmas.ParserBasic

set_option linter.unusedSimpArgs false
set_option linter.unusedVariables false

namespace SoyVerif.Lemmas.ParserRound
open SoyVerif SoyVerif.Model SoyVerif.Model.Parser SoyVerif.Model.PrintTokens SoyVerif.Model.Printer
open SoyVerif.Lemmas.ParserBasic

/-- the highest level of `parseExpr` that yields `e` without parentheses -/
def lvl (e : Expr) : Nat := precedenceOf e - 1

/-- `h` is not a token `parseDataRef` / `newValueNode` would attach to a preceding primary -/
def noAccess (h : ItemType) : Prop :=
  h ≠ .tDotIdent ∧ h ≠ .tQuestionDotIdent ∧ h ≠ .tDotIndex ∧ h ≠ .tQuestionDotIndex ∧
  h ≠ .tQuestionKey ∧ h ≠ .tLeftBracket ∧ h ≠ .tLeftParen

def edgeOk : Expr → ItemType → Prop
  | .tern .., h => isBinaryOp h = false ∧ h ≠ .tTernIf ∧ h ≠ .tColon
  | .bin op .., h => isBinaryOp h = false ∨ precedence h + 1 ≤ binPrec op
  | _, _ => True

/-- the token type `h` may follow an unparenthesised rendering of `e` -/
def okAfter (e : Expr) (h : ItemType) : Prop := noAccess h ∧ edgeOk e h

section
variable (pf : Bytes → Option UInt64)

/-- what the operator loop does with (any positioned copy of) `e` in hand on the stream `ts` -/
def Cont (k p : Nat) (e : Expr) (ts : List Tk) (Q : Expr → PState → Prop) : Prop :=
  ∀ k' e' st1, k ≤ k' → erase e' = erase e → At st1 ts →
    ∃ r st2, exprLoop pf k' p e' st1 = .ok (r, st2) ∧ Q r st2

/-- the direct postcondition: the tree, and the follower backed up -/
def Post (e : Expr) (ts : List Tk) : Expr → PState → Prop :=
  fun r st2 => erase r = erase e ∧ At1 st2 ts

theorem cont_stop {p : Nat} {e : Expr} {h : Tk} {rest : List Tk} (hs : Stops p h.typ) :
    Cont pf 1 p e (h :: rest) (Post e (h :: rest)) := by
  intro k' e' st1 hk he hst
  obtain ⟨k'', rfl⟩ : ∃ k'', k' = k'' + 1 := ⟨k' - 1, by omega⟩
  obtain ⟨st2, h1, h2⟩ := exprLoop_stop pf (F := k'') (p := p) (e := e') hst hs
  exact ⟨e', st2, h1, he, h2⟩

def BStmt (e : Expr) : Prop :=
  ∀ (ts : List Tk) (h : Tk) (rest : List Tk) (p k F : Nat) (Q : Expr → PState → Prop) (st : PState),
    Renders pf e ts → p ≤ lvl e → okAfter e h.typ → Cont pf k p e (h :: rest) Q →
    At st (ts ++ h :: rest) → k + 8 * ts.length ≤ F →
    ∃ r st2, parseExpr pf F p st = .ok (r, st2) ∧ Q r st2

def AStmt (e : Expr) : Prop :=
  ∀ (m : Nat) (ts : List Tk) (h : Tk) (rest : List Tk) (p k F : Nat) (Q : Expr → PState → Prop) (st : PState),
    Slot m e (Renders pf e) ts → p ≤ m - 1 → (m ≤ precedenceOf e → okAfter e h.typ) →
    Cont pf k p e (h :: rest) Q →
    At st (ts ++ h :: rest) → k + 8 * ts.length ≤ F →
    ∃ r st2, parseExpr pf F p st = .ok (r, st2) ∧ Q r st2

def FTStmt (e : Expr) : Prop :=
  ∀ (ts : List Tk) (h : Tk) (rest : List Tk) (F : Nat) (st : PState),
    Renders pf e ts → okAfter e h.typ → At st (ts ++ h :: rest) → 8 * ts.length ≤ F + 4 →
    ∃ e' st2, parseExprFirstTerm pf F st = .ok (e', st2) ∧ erase e' = erase e ∧ At st2 (h :: rest)

/-! ### the first token of a rendering -/

/-- token types that can start an expression -/
def startTok (t : ItemType) : Prop := t ≠ .tRightParen ∧ t ≠ .tColon ∧ t ≠ .tRightBracket

theorem parensT_succ_head (n : Nat) (t0 : List Tk) : ∃ ts', parensT (n + 1) t0 = tLP :: ts' :=
  ⟨parensT n t0 ++ [tRP], rfl⟩

theorem renders_head : (e : Expr) → (ts : List Tk) → Renders pf e ts → ∃ t ts', ts = t :: ts' ∧ startTok t.typ
  | .null _, ts, h => by rw [Renders] at h; subst h; exact ⟨_, _, rfl, by simp [startTok, tNull]⟩
  | .bool _ b, ts, h => by rw [Renders] at h; subst h; exact ⟨_, _, rfl, by simp [startTok, tBool]⟩
  | .int _ v, ts, h => by
      rw [Renders] at h; obtain ⟨val, rfl, _⟩ := h; exact ⟨_, _, rfl, by simp [startTok]⟩
  | .float _ v, ts, h => by
      rw [Renders] at h; obtain ⟨val, rfl, _⟩ := h; exact ⟨_, _, rfl, by simp [startTok]⟩
  | .str _ q v, ts, h => by
      rw [Renders] at h; obtain ⟨rfl, _⟩ := h; exact ⟨_, _, rfl, by simp [startTok, tString]⟩
  | .global _ n, ts, h => by
      rw [Renders] at h; obtain ⟨n0, segs, rfl, _⟩ := h; exact ⟨_, _, rfl, by simp [startTok, tIdent]⟩
  | .func _ n args, ts, h => by
      cases args with
      | nil => rw [Renders] at h; subst h; exact ⟨_, _, rfl, by simp [startTok, tIdent]⟩
      | cons e r =>
        rw [Renders] at h; obtain ⟨te, tr, _, _, rfl⟩ := h
        exact ⟨_, _, rfl, by simp [startTok, tIdent]⟩
  | .list _ items, ts, h => by
      cases items with
      | nil => rw [Renders] at h; subst h; exact ⟨_, _, rfl, by simp [startTok, tLB]⟩
      | cons e r =>
        rw [Renders] at h; obtain ⟨te, tr, _, _, rfl⟩ := h
        exact ⟨_, _, rfl, by simp [startTok, tLB]⟩
  | .map _ items, ts, h => by
      cases items with
      | nil => rw [Renders] at h; subst h; exact ⟨_, _, rfl, by simp [startTok, tLB]⟩
      | cons k e r =>
        rw [Renders] at h; obtain ⟨q, te, tr, _, _, _, _, rfl⟩ := h
        exact ⟨_, _, rfl, by simp [startTok, tLB]⟩
  | .dataRef _ k acc, ts, h => by
      rw [Renders] at h; obtain ⟨ta, _, rfl⟩ := h; exact ⟨_, _, rfl, by simp [startTok]⟩
  | .not _ a, ts, h => by
      rw [Renders] at h; obtain ⟨ta, _, rfl⟩ := h; exact ⟨_, _, rfl, by simp [startTok, tNot]⟩
  | .neg _ a, ts, h => by
      rw [Renders] at h; obtain ⟨ta, _, rfl⟩ := h; exact ⟨_, _, rfl, by simp [startTok, tNeg]⟩
  | .bin op _ a b, ts, h => by
      rw [Renders] at h
      obtain ⟨ta, tb, ⟨n, t0, hR, rfl, _⟩, _, rfl⟩ := h
      cases n with
      | zero =>
        obtain ⟨t, ts', rfl, ht⟩ := renders_head a t0 hR
        exact ⟨t, _, rfl, ht⟩
      | succ n =>
        obtain ⟨ts', hp⟩ := parensT_succ_head n t0
        rw [hp]; exact ⟨_, _, rfl, by simp [startTok, tLP]⟩
  | .tern _ c a b, ts, h => by
      rw [Renders] at h
      obtain ⟨tc, ta, tb, ⟨n, t0, hR, rfl, _⟩, _, _, rfl⟩ := h
      cases n with
      | zero =>
        obtain ⟨t, ts', rfl, ht⟩ := renders_head c t0 hR
        exact ⟨t, _, rfl, ht⟩
      | succ n =>
        obtain ⟨ts', hp⟩ := parensT_succ_head n t0
        rw [hp]; exact ⟨_, _, rfl, by simp [startTok, tLP]⟩

theorem slot_head {m : Nat} {e : Expr} {ts : List Tk} (h : Slot m e (Renders pf e) ts) :
    ∃ t ts', ts = t :: ts' ∧ startTok t.typ := by
  obtain ⟨n, t0, hR, rfl, _⟩ := h
  cases n with
  | zero => exact renders_head pf e t0 hR
  | succ n =>
    obtain ⟨ts', hp⟩ := parensT_succ_head n t0
    rw [hp]; exact ⟨_, _, rfl, by simp [startTok, tLP]⟩

theorem renders_len {e : Expr} {ts : List Tk} (h : Renders pf e ts) : 1 ≤ ts.length := by
  obtain ⟨t, ts', rfl, _⟩ := renders_head pf e ts h
  simp

end

/-! ### generic steps: first term ⇒ B, parentheses, B ⇒ A -/

section
variable (pf : Bytes → Option UInt64) (T : TableOK)
include T

omit T in
theorem B_of_FT {e : Expr} (hFT : FTStmt pf e) : BStmt pf e := by
  intro ts h rest p k F Q st hR hp hok hC hst hF
  have hl := renders_len pf hR
  obtain ⟨F', rfl⟩ : ∃ F', F = F' + 1 := ⟨F - 1, by omega⟩
  obtain ⟨e', st2, h1, he, h2⟩ := hFT ts h rest F' st hR hok hst (by omega)
  obtain ⟨r, st3, h3, hQ⟩ := hC F' e' st2 (by omega) he h2
  refine ⟨r, st3, ?_, hQ⟩
  unfold parseExpr
  rw [bind_ok h1]
  exact h3

theorem stops_rp (p : Nat) : Stops p tRP.typ := by
  refine ⟨Or.inl ?_, by simp [tRP]⟩
  rw [isBinaryOp_eq T]; rfl

theorem okAfter_rp (e : Expr) : okAfter e tRP.typ := by
  refine ⟨by simp [noAccess, tRP], ?_⟩
  have hb : isBinaryOp tRP.typ = false := by rw [isBinaryOp_eq T]; rfl
  cases e <;> simp [edgeOk, hb] <;> simp [tRP]

theorem paren_ft {e : Expr} (hB : BStmt pf e) (t0 : List Tk) (hR : Renders pf e t0) :
    ∀ (n : Nat) (rest : List Tk) (F : Nat) (st : PState),
      At st (parensT (n + 1) t0 ++ rest) → 8 * (parensT (n + 1) t0).length ≤ F + 4 →
      ∃ e' st2, parseExprFirstTerm pf F st = .ok (e', st2) ∧ erase e' = erase e ∧ At st2 rest := by
  intro n
  induction n with
  | zero =>
    intro rest F st hst hF
    have hst' : At st (tLP :: (t0 ++ tRP :: rest)) := by simpa [parensT] using hst
    simp [parensT] at hF
    obtain ⟨F', rfl⟩ : ∃ F', F = F' + 1 := ⟨F - 1, by omega⟩
    obtain ⟨it, st1, hn, ht, hv, hj⟩ := next_at hst'
    have ht' : it.typ = .tLeftParen := ht
    obtain ⟨r, st2, h2, he, h2a⟩ := hB t0 tRP rest 0 1 F' (Post e (tRP :: rest)) st1 hR (Nat.zero_le _)
      (okAfter_rp T e) (cont_stop pf (stops_rp T 0)) hj.at (by omega)
    obtain ⟨it3, st3, h3, _, _, hj3⟩ := expect_at h2a.at
    refine ⟨r, st3, ?_, he, hj3.at⟩
    unfold parseExprFirstTerm
    rw [bind_ok hn]
    have hu : isUnaryOp ItemType.tLeftParen = false := by rw [isUnaryOp_eq T]; rfl
    simp only [ht', hu, Bool.false_eq_true, if_false, beq_self_eq_true, if_true]
    rw [bind_ok h2]
    have h3' : expect ItemType.tRightParen st2 = .ok (it3, st3) := h3
    rw [bind_ok h3']
    rfl
  | succ n ih =>
    intro rest F st hst hF
    have hst' : At st (tLP :: (parensT (n + 1) t0 ++ tRP :: rest)) := by
      have : parensT (n + 1 + 1) t0 = [tLP] ++ parensT (n + 1) t0 ++ [tRP] := rfl
      rw [this] at hst; simpa using hst
    have hlen : (parensT (n + 1 + 1) t0).length = (parensT (n + 1) t0).length + 2 := by
      have : parensT (n + 1 + 1) t0 = [tLP] ++ parensT (n + 1) t0 ++ [tRP] := rfl
      rw [this]; simp
    rw [hlen] at hF
    obtain ⟨F', rfl⟩ : ∃ F', F = F' + 1 := ⟨F - 1, by omega⟩
    obtain ⟨F'', rfl⟩ : ∃ F'', F' = F'' + 1 := ⟨F' - 1, by omega⟩
    obtain ⟨F3, rfl⟩ : ∃ F3, F'' = F3 + 1 := ⟨F'' - 1, by omega⟩
    obtain ⟨it, st1, hn, ht, hv, hj⟩ := next_at hst'
    have ht' : it.typ = .tLeftParen := ht
    obtain ⟨e', st2, h2, he, h2a⟩ := ih (tRP :: rest) (F3 + 1) st1 hj.at (by omega)
    obtain ⟨st2', h2', h2a'⟩ := exprLoop_stop pf (F := F3) (p := 0) (e := e') h2a (stops_rp T 0)
    obtain ⟨it3, st3, h3, _, _, hj3⟩ := expect_at h2a'.at
    refine ⟨e', st3, ?_, he, hj3.at⟩
    unfold parseExprFirstTerm
    rw [bind_ok hn]
    have hu : isUnaryOp ItemType.tLeftParen = false := by rw [isUnaryOp_eq T]; rfl
    simp only [ht', hu, Bool.false_eq_true, if_false, beq_self_eq_true, if_true]
    have hp : parseExpr pf (F3 + 1 + 1) 0 st1 = .ok (e', st2') := by
      unfold parseExpr
      rw [bind_ok h2]
      exact h2'
    rw [bind_ok hp]
    have h3' : expect ItemType.tRightParen st2' = .ok (it3, st3) := h3
    rw [bind_ok h3']
    rfl

theorem A_of_B {e : Expr} (hB : BStmt pf e) : AStmt pf e := by
  intro m ts h rest p k F Q st hS hp hok hC hst hF
  obtain ⟨n, t0, hR, rfl, hn⟩ := hS
  cases n with
  | zero =>
    have hm : m ≤ precedenceOf e := by
      by_cases hlt : precedenceOf e < m
      · exact absurd (hn hlt) (by omega)
      · omega
    exact hB t0 h rest p k F Q st hR (by unfold lvl; omega) (hok hm) hC hst hF
  | succ n =>
    have hl : 2 ≤ (parensT (n + 1) t0).length := by
      have : parensT (n + 1) t0 = [tLP] ++ parensT n t0 ++ [tRP] := rfl
      rw [this]; simp
    obtain ⟨F', rfl⟩ : ∃ F', F = F' + 1 := ⟨F - 1, by omega⟩
    obtain ⟨e', st2, h2, he, h2a⟩ := paren_ft pf T hB t0 hR n (h :: rest) F' st hst (by omega)
    obtain ⟨r, st3, h3, hQ⟩ := hC F' e' st2 (by omega) he h2a
    refine ⟨r, st3, ?_, hQ⟩
    unfold parseExpr
    rw [bind_ok h2]
    exact h3
end

end SoyVerif.Lemmas.ParserRound
