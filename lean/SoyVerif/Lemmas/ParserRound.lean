/-
  Completeness of the precedence-climbing expression parser on token renderings
  (`PrintTokens.Renders`): parsing any rendering of a tree — minimal or redundant
  parentheses — followed by a token that does not continue the expression yields the
  tree (modulo positions) and leaves the follower in the stream.

  Shape of the proof (DESIGN.md §6 C01):
  * `BStmt e`   continuation form for `parseExpr F p` on an UNPARENTHESISED rendering of `e`
                (`p ≤ lvl e`): whatever the operator loop does with `e` in hand on the rest of
                the stream (`Cont`), `parseExpr` does on rendering ++ rest;
  * `AStmt e`   the same for an operand slot (`Slot m`), parenthesised or not — derived from
                `BStmt e` (`A_of_B`, `paren_ft`);
  * `FTStmt e`  `parseExprFirstTerm` on a primary or unary expression; `B_of_FT`;
  * `okAfter e h` the follower `h` does not continue `e`: no access / call token (uniformly),
                not an operator the rightmost open operand would take, not `?` after a ternary or a `?:` (whose last
                operand extends as far as possible);
  * the statements carry an explicit fuel bound (8 per token), so that the theorem holds for
                the fuel `parseExprEntry` actually uses.
-/
import SoyVerif.Lemmas.ParserBasic

set_option linter.unusedSimpArgs false
set_option linter.unusedVariables false

namespace SoyVerif.Lemmas.ParserRound
open SoyVerif SoyVerif.Model SoyVerif.Model.Parser SoyVerif.Model.PrintTokens SoyVerif.Model.Printer
open SoyVerif.Lemmas.ParserBasic

/-- the highest level of `parseExpr` that yields `e` without parentheses -/
def lvl (e : Expr) : Nat := precedenceOf e - 1

/-- `h` is not a token `parseDataRef` / `newValueNode` would attach to a preceding primary -/
def noAccess (h : ItemType) : Prop :=
  h ≠ .tDotIdent ∧ h ≠ .tQuestionDotIdent ∧ h ≠ .tDotIndex ∧ h ≠ .tQuestionDotIndex ∧
  h ≠ .tQuestionKey ∧ h ≠ .tLeftBracket ∧ h ≠ .tLeftParen

def edgeOk : Expr → ItemType → Prop
  | .tern .., h => isBinaryOp h = false ∧ h ≠ .tTernIf
  -- the right operand of `?:` is read with `parseExpr(0)`: it takes every operator and a `?`
  | .bin .elvis .., h => isBinaryOp h = false ∧ h ≠ .tTernIf
  | .bin op .., h => isBinaryOp h = false ∨ precedence h + 1 ≤ binPrec op
  | _, _ => True

/-- the token type `h` may follow an unparenthesised rendering of `e` -/
def okAfter (e : Expr) (h : ItemType) : Prop := noAccess h ∧ edgeOk e h

/-- a follower that stops the loop at level 0 may follow anything -/
theorem edgeOk_of_stop {x : Expr} {h : ItemType} (h1 : isBinaryOp h = false) (h2 : h ≠ .tTernIf) : edgeOk x h := by
  cases x with
  | bin op _ _ _ => cases op <;> simp [edgeOk, h1, h2]
  | tern => simp [edgeOk, h1, h2]
  | _ => simp [edgeOk]


section
variable (pf : Bytes → Option UInt64)

/-- what the operator loop does with (any positioned copy of) `e` in hand on the stream `ts` -/
def Cont (k p : Nat) (e : Expr) (ts : List Tk) (Q : Expr → PState → Prop) : Prop :=
  ∀ k' e' st1, k ≤ k' → erase e' = erase e → At st1 ts →
    ∃ r st2, exprLoop pf k' p e' st1 = .ok (r, st2) ∧ Q r st2

/-- the direct postcondition: the tree, and the follower backed up -/
def Post (e : Expr) (ts : List Tk) : Expr → PState → Prop :=
  fun r st2 => erase r = erase e ∧ At1 st2 ts

theorem cont_stop {p : Nat} {e : Expr} {h : Tk} {rest : List Tk} (hs : Stops p h.typ) :
    Cont pf 1 p e (h :: rest) (Post e (h :: rest)) := by
  intro k' e' st1 hk he hst
  obtain ⟨k'', rfl⟩ : ∃ k'', k' = k'' + 1 := ⟨k' - 1, by omega⟩
  obtain ⟨st2, h1, h2⟩ := exprLoop_stop pf (F := k'') (p := p) (e := e') hst hs
  exact ⟨e', st2, h1, he, h2⟩

def BStmt (e : Expr) : Prop :=
  ∀ (ts : List Tk) (h : Tk) (rest : List Tk) (p k F : Nat) (Q : Expr → PState → Prop) (st : PState),
    Renders pf e ts → p ≤ lvl e → okAfter e h.typ → Cont pf k p e (h :: rest) Q →
    At st (ts ++ h :: rest) → k + 8 * ts.length ≤ F →
    ∃ r st2, parseExpr pf F p st = .ok (r, st2) ∧ Q r st2

def AStmt (e : Expr) : Prop :=
  ∀ (m : Nat) (ts : List Tk) (h : Tk) (rest : List Tk) (p k F : Nat) (Q : Expr → PState → Prop) (st : PState),
    Slot m e (Renders pf e) ts → p ≤ m - 1 → (m ≤ precedenceOf e → okAfter e h.typ) →
    Cont pf k p e (h :: rest) Q →
    At st (ts ++ h :: rest) → k + 8 * ts.length ≤ F →
    ∃ r st2, parseExpr pf F p st = .ok (r, st2) ∧ Q r st2

def FTStmt (e : Expr) : Prop :=
  ∀ (ts : List Tk) (h : Tk) (rest : List Tk) (F : Nat) (st : PState),
    Renders pf e ts → okAfter e h.typ → At st (ts ++ h :: rest) → 8 * ts.length ≤ F + 4 →
    ∃ e' st2, parseExprFirstTerm pf F st = .ok (e', st2) ∧ erase e' = erase e ∧ At st2 (h :: rest)

/-! ### the first token of a rendering -/

/-- token types that can start an expression -/
def startTok (t : ItemType) : Prop := t ≠ .tRightParen ∧ t ≠ .tColon ∧ t ≠ .tRightBracket

theorem parensT_succ_head (n : Nat) (t0 : List Tk) : ∃ ts', parensT (n + 1) t0 = tLP :: ts' :=
  ⟨parensT n t0 ++ [tRP], rfl⟩

theorem renders_head : (e : Expr) → (ts : List Tk) → Renders pf e ts → ∃ t ts', ts = t :: ts' ∧ startTok t.typ
  | .null _, ts, h => by rw [Renders] at h; subst h; exact ⟨_, _, rfl, by simp [startTok, tNull]⟩
  | .bool _ b, ts, h => by rw [Renders] at h; subst h; exact ⟨_, _, rfl, by simp [startTok, tBool]⟩
  | .int _ v, ts, h => by
      rw [Renders] at h; obtain ⟨val, rfl, _⟩ := h; exact ⟨_, _, rfl, by simp [startTok]⟩
  | .float _ v, ts, h => by
      rw [Renders] at h; obtain ⟨val, rfl, _⟩ := h; exact ⟨_, _, rfl, by simp [startTok]⟩
  | .str _ q v, ts, h => by
      rw [Renders] at h; obtain ⟨rfl, _⟩ := h; exact ⟨_, _, rfl, by simp [startTok, tString]⟩
  | .global _ n, ts, h => by
      rw [Renders] at h; obtain ⟨n0, segs, rfl, _⟩ := h; exact ⟨_, _, rfl, by simp [startTok, tIdent]⟩
  | .func _ n args, ts, h => by
      cases args with
      | nil => rw [Renders] at h; subst h; exact ⟨_, _, rfl, by simp [startTok, tIdent]⟩
      | cons e r =>
        rw [Renders] at h; obtain ⟨te, tr, _, _, rfl⟩ := h
        exact ⟨_, _, rfl, by simp [startTok, tIdent]⟩
  | .list _ items, ts, h => by
      cases items with
      | nil => rw [Renders] at h; subst h; exact ⟨_, _, rfl, by simp [startTok, tLB]⟩
      | cons e r =>
        rw [Renders] at h; obtain ⟨te, tr, _, _, rfl⟩ := h
        exact ⟨_, _, rfl, by simp [startTok, tLB]⟩
  | .map _ items, ts, h => by
      cases items with
      | nil => rw [Renders] at h; subst h; exact ⟨_, _, rfl, by simp [startTok, tLB]⟩
      | cons k e r =>
        rw [Renders] at h; obtain ⟨q, te, tr, _, _, _, _, rfl⟩ := h
        exact ⟨_, _, rfl, by simp [startTok, tLB]⟩
  | .dataRef _ k acc, ts, h => by
      rw [Renders] at h; obtain ⟨ta, _, rfl⟩ := h; exact ⟨_, _, rfl, by simp [startTok]⟩
  | .not _ a, ts, h => by
      rw [Renders] at h; obtain ⟨ta, _, rfl⟩ := h; exact ⟨_, _, rfl, by simp [startTok, tNot]⟩
  | .neg _ a, ts, h => by
      rw [Renders] at h; obtain ⟨ta, _, rfl⟩ := h; exact ⟨_, _, rfl, by simp [startTok, tNeg]⟩
  | .bin op _ a b, ts, h => by
      rw [Renders] at h
      obtain ⟨ta, tb, ⟨n, t0, hR, rfl, _⟩, _, rfl⟩ := h
      cases n with
      | zero =>
        obtain ⟨t, ts', rfl, ht⟩ := renders_head a t0 hR
        exact ⟨t, _, rfl, ht⟩
      | succ n =>
        obtain ⟨ts', hp⟩ := parensT_succ_head n t0
        rw [hp]; exact ⟨_, _, rfl, by simp [startTok, tLP]⟩
  | .tern _ c a b, ts, h => by
      rw [Renders] at h
      obtain ⟨tc, ta, tb, ⟨n, t0, hR, rfl, _⟩, _, _, rfl⟩ := h
      cases n with
      | zero =>
        obtain ⟨t, ts', rfl, ht⟩ := renders_head c t0 hR
        exact ⟨t, _, rfl, ht⟩
      | succ n =>
        obtain ⟨ts', hp⟩ := parensT_succ_head n t0
        rw [hp]; exact ⟨_, _, rfl, by simp [startTok, tLP]⟩

theorem slot_head {m : Nat} {e : Expr} {ts : List Tk} (h : Slot m e (Renders pf e) ts) :
    ∃ t ts', ts = t :: ts' ∧ startTok t.typ := by
  obtain ⟨n, t0, hR, rfl, _⟩ := h
  cases n with
  | zero => exact renders_head pf e t0 hR
  | succ n =>
    obtain ⟨ts', hp⟩ := parensT_succ_head n t0
    rw [hp]; exact ⟨_, _, rfl, by simp [startTok, tLP]⟩

theorem renders_len {e : Expr} {ts : List Tk} (h : Renders pf e ts) : 1 ≤ ts.length := by
  obtain ⟨t, ts', rfl, _⟩ := renders_head pf e ts h
  simp

end

/-! ### generic steps: first term ⇒ B, parentheses, B ⇒ A -/

section
variable (pf : Bytes → Option UInt64) (T : TableOK)
include T

omit T in
theorem B_of_FT {e : Expr} (hFT : FTStmt pf e) : BStmt pf e := by
  intro ts h rest p k F Q st hR hp hok hC hst hF
  have hl := renders_len pf hR
  obtain ⟨F', rfl⟩ : ∃ F', F = F' + 1 := ⟨F - 1, by omega⟩
  obtain ⟨e', st2, h1, he, h2⟩ := hFT ts h rest F' st hR hok hst (by omega)
  obtain ⟨r, st3, h3, hQ⟩ := hC F' e' st2 (by omega) he h2
  refine ⟨r, st3, ?_, hQ⟩
  unfold parseExpr
  rw [bind_ok h1]
  exact h3

theorem stops_rp (p : Nat) : Stops p tRP.typ := by
  refine ⟨Or.inl ?_, by simp [tRP]⟩
  rw [isBinaryOp_eq T]; rfl

theorem okAfter_rp (e : Expr) : okAfter e tRP.typ := by
  have hb : isBinaryOp tRP.typ = false := by rw [isBinaryOp_eq T]; rfl
  exact ⟨by simp [noAccess, tRP], edgeOk_of_stop hb (by simp [tRP])⟩

theorem paren_ft {e : Expr} (hB : BStmt pf e) (t0 : List Tk) (hR : Renders pf e t0) :
    ∀ (n : Nat) (rest : List Tk) (F : Nat) (st : PState),
      At st (parensT (n + 1) t0 ++ rest) → 8 * (parensT (n + 1) t0).length ≤ F + 4 →
      ∃ e' st2, parseExprFirstTerm pf F st = .ok (e', st2) ∧ erase e' = erase e ∧ At st2 rest := by
  intro n
  induction n with
  | zero =>
    intro rest F st hst hF
    have hst' : At st (tLP :: (t0 ++ tRP :: rest)) := by simpa [parensT] using hst
    simp [parensT] at hF
    obtain ⟨F', rfl⟩ : ∃ F', F = F' + 1 := ⟨F - 1, by omega⟩
    obtain ⟨it, st1, hn, ht, hv, hj⟩ := next_at hst'
    have ht' : it.typ = .tLeftParen := ht
    obtain ⟨r, st2, h2, he, h2a⟩ := hB t0 tRP rest 0 1 F' (Post e (tRP :: rest)) st1 hR (Nat.zero_le _)
      (okAfter_rp T e) (cont_stop pf (stops_rp T 0)) hj.at (by omega)
    obtain ⟨it3, st3, h3, _, _, hj3⟩ := expect_at h2a.at
    refine ⟨r, st3, ?_, he, hj3.at⟩
    unfold parseExprFirstTerm
    rw [bind_ok hn]
    have hu : isUnaryOp ItemType.tLeftParen = false := by rw [isUnaryOp_eq T]; rfl
    simp only [ht', hu, Bool.false_eq_true, if_false, beq_self_eq_true, if_true]
    rw [bind_ok h2]
    have h3' : expect ItemType.tRightParen st2 = .ok (it3, st3) := h3
    rw [bind_ok h3']
    rfl
  | succ n ih =>
    intro rest F st hst hF
    have hst' : At st (tLP :: (parensT (n + 1) t0 ++ tRP :: rest)) := by
      have : parensT (n + 1 + 1) t0 = [tLP] ++ parensT (n + 1) t0 ++ [tRP] := rfl
      rw [this] at hst; simpa using hst
    have hlen : (parensT (n + 1 + 1) t0).length = (parensT (n + 1) t0).length + 2 := by
      have : parensT (n + 1 + 1) t0 = [tLP] ++ parensT (n + 1) t0 ++ [tRP] := rfl
      rw [this]; simp
    rw [hlen] at hF
    obtain ⟨F', rfl⟩ : ∃ F', F = F' + 1 := ⟨F - 1, by omega⟩
    obtain ⟨F'', rfl⟩ : ∃ F'', F' = F'' + 1 := ⟨F' - 1, by omega⟩
    obtain ⟨F3, rfl⟩ : ∃ F3, F'' = F3 + 1 := ⟨F'' - 1, by omega⟩
    obtain ⟨it, st1, hn, ht, hv, hj⟩ := next_at hst'
    have ht' : it.typ = .tLeftParen := ht
    obtain ⟨e', st2, h2, he, h2a⟩ := ih (tRP :: rest) (F3 + 1) st1 hj.at (by omega)
    obtain ⟨st2', h2', h2a'⟩ := exprLoop_stop pf (F := F3) (p := 0) (e := e') h2a (stops_rp T 0)
    obtain ⟨it3, st3, h3, _, _, hj3⟩ := expect_at h2a'.at
    refine ⟨e', st3, ?_, he, hj3.at⟩
    unfold parseExprFirstTerm
    rw [bind_ok hn]
    have hu : isUnaryOp ItemType.tLeftParen = false := by rw [isUnaryOp_eq T]; rfl
    simp only [ht', hu, Bool.false_eq_true, if_false, beq_self_eq_true, if_true]
    have hp : parseExpr pf (F3 + 1 + 1) 0 st1 = .ok (e', st2') := by
      unfold parseExpr
      rw [bind_ok h2]
      exact h2'
    rw [bind_ok hp]
    have h3' : expect ItemType.tRightParen st2' = .ok (it3, st3) := h3
    rw [bind_ok h3']
    rfl

theorem A_of_B {e : Expr} (hB : BStmt pf e) : AStmt pf e := by
  intro m ts h rest p k F Q st hS hp hok hC hst hF
  obtain ⟨n, t0, hR, rfl, hn⟩ := hS
  cases n with
  | zero =>
    have hm : m ≤ precedenceOf e := by
      by_cases hlt : precedenceOf e < m
      · exact absurd (hn hlt) (by omega)
      · omega
    exact hB t0 h rest p k F Q st hR (by unfold lvl; omega) (hok hm) hC hst hF
  | succ n =>
    have hl : 2 ≤ (parensT (n + 1) t0).length := by
      have : parensT (n + 1) t0 = [tLP] ++ parensT n t0 ++ [tRP] := rfl
      rw [this]; simp
    obtain ⟨F', rfl⟩ : ∃ F', F = F' + 1 := ⟨F - 1, by omega⟩
    obtain ⟨e', st2, h2, he, h2a⟩ := paren_ft pf T hB t0 hR n (h :: rest) F' st hst (by omega)
    obtain ⟨r, st3, h3, hQ⟩ := hC F' e' st2 (by omega) he h2a
    refine ⟨r, st3, ?_, hQ⟩
    unfold parseExpr
    rw [bind_ok h2]
    exact h3

/-! ### literals -/

/-- `parseExprFirstTerm` on a value token hands it to `newValueNode` -/
theorem ft_value {F : Nat} {st : PState} {t : Tk} {ts : List Tk} (hst : At st (t :: ts))
    (hu : (t.typ == .tNot || t.typ == .tNegate) = false) (hl : (t.typ == .tLeftParen) = false) (hv : isValue t.typ = true) :
    ∃ it st1, it.typ = t.typ ∧ it.val = t.val ∧ Just st1 it ts ∧
      parseExprFirstTerm pf (F + 1) st = newValueNode pf F it st1 := by
  obtain ⟨it, st1, hn, ht, hval, hj⟩ := next_at hst
  refine ⟨it, st1, ht, hval, hj, ?_⟩
  conv => lhs; unfold parseExprFirstTerm
  rw [bind_ok hn]
  have hu' : isUnaryOp it.typ = false := by rw [isUnaryOp_eq T, ht]; exact hu
  rw [← ht] at hl hv
  simp only [hu', hl, hv, Bool.false_eq_true, if_false, if_true]

theorem ft_null (p : Nat) : FTStmt pf (.null p) := by
  intro ts h rest F st hR hok hst hF
  rw [Renders] at hR; subst hR
  obtain ⟨F', rfl⟩ : ∃ F', F = F' + 1 := ⟨F - 1, by simp at hF; omega⟩
  obtain ⟨F'', rfl⟩ : ∃ F'', F' = F'' + 1 := ⟨F' - 1, by simp at hF; omega⟩
  obtain ⟨it, st1, ht, hv, hj, heq⟩ := ft_value pf T (F := F'' + 1) (t := tNull) hst rfl rfl rfl
  have ht' : it.typ = .tNull := ht
  refine ⟨.null it.pos, st1, ?_, rfl, hj.at⟩
  rw [heq]; unfold newValueNode; simp only [ht']; rfl

theorem ft_bool (p : Nat) (b : Bool) : FTStmt pf (.bool p b) := by
  intro ts h rest F st hR hok hst hF
  rw [Renders] at hR; subst hR
  obtain ⟨F', rfl⟩ : ∃ F', F = F' + 1 := ⟨F - 1, by simp at hF; omega⟩
  obtain ⟨F'', rfl⟩ : ∃ F'', F' = F'' + 1 := ⟨F' - 1, by simp at hF; omega⟩
  obtain ⟨it, st1, ht, hv, hj, heq⟩ := ft_value pf T (F := F'' + 1) (t := tBool b) hst rfl rfl rfl
  have ht' : it.typ = .tBool := ht
  refine ⟨.bool it.pos (it.val == [116, 114, 117, 101]), st1, ?_, ?_, hj.at⟩
  · rw [heq]; unfold newValueNode; simp only [ht']; rfl
  · rw [hv]; cases b <;> simp [erase, tBool]

theorem ft_int (p : Nat) (v : Int) : FTStmt pf (.int p v) := by
  intro ts h rest F st hR hok hst hF
  rw [Renders] at hR; obtain ⟨val, rfl, hval⟩ := hR
  obtain ⟨F', rfl⟩ : ∃ F', F = F' + 1 := ⟨F - 1, by simp at hF; omega⟩
  obtain ⟨F'', rfl⟩ : ∃ F'', F' = F'' + 1 := ⟨F' - 1, by simp at hF; omega⟩
  obtain ⟨it, st1, ht, hv, hj, heq⟩ := ft_value pf T (F := F'' + 1) (t := ⟨.tInteger, val⟩) hst rfl rfl rfl
  have ht' : it.typ = .tInteger := ht
  have hv' : it.val = val := hv
  refine ⟨.int it.pos v, st1, ?_, rfl, hj.at⟩
  rw [heq]; unfold newValueNode; simp only [ht', hv', hval]; rfl

theorem ft_float (p : Nat) (v : UInt64) : FTStmt pf (.float p v) := by
  intro ts h rest F st hR hok hst hF
  rw [Renders] at hR; obtain ⟨val, rfl, hval⟩ := hR
  obtain ⟨F', rfl⟩ : ∃ F', F = F' + 1 := ⟨F - 1, by simp at hF; omega⟩
  obtain ⟨F'', rfl⟩ : ∃ F'', F' = F'' + 1 := ⟨F' - 1, by simp at hF; omega⟩
  obtain ⟨it, st1, ht, hv, hj, heq⟩ := ft_value pf T (F := F'' + 1) (t := ⟨.tFloat, val⟩) hst rfl rfl rfl
  have ht' : it.typ = .tFloat := ht
  have hv' : it.val = val := hv
  refine ⟨.float it.pos v, st1, ?_, rfl, hj.at⟩
  rw [heq]; unfold newValueNode; simp only [ht', hv', hval]; rfl

theorem ft_str (p : Nat) (q v : Bytes) : FTStmt pf (.str p q v) := by
  intro ts h rest F st hR hok hst hF
  rw [Renders] at hR; obtain ⟨rfl, hval⟩ := hR
  obtain ⟨F', rfl⟩ : ∃ F', F = F' + 1 := ⟨F - 1, by simp at hF; omega⟩
  obtain ⟨F'', rfl⟩ : ∃ F'', F' = F'' + 1 := ⟨F' - 1, by simp at hF; omega⟩
  obtain ⟨it, st1, ht, hv, hj, heq⟩ := ft_value pf T (F := F'' + 1) (t := tString q) hst rfl rfl rfl
  have ht' : it.typ = .tString := ht
  have hv' : it.val = q := hv
  refine ⟨.str it.pos q v, st1, ?_, rfl, hj.at⟩
  rw [heq]; unfold newValueNode; simp only [ht', hv', hval]; rfl

/-! ### followers -/
omit T in
theorem okAfter_noAccess {e : Expr} {h : ItemType} (hok : okAfter e h) : noAccess h := hok.1

omit T in
/-- an operand at unary level or above is a unary or a primary: any non-access follower is fine -/
theorem okAfter_of_unary {a : Expr} {h : ItemType} (hp : precUnary ≤ precedenceOf a) (hn : noAccess h) :
    okAfter a h := by
  refine ⟨hn, ?_⟩
  cases a <;> simp [edgeOk] <;> simp [precedenceOf, precUnary, precTernary] at hp
  case bin op _ _ _ => have := binPrec_le op; simp [precMul] at this; omega

omit T in
theorem noAccess_tokOf (op : BinOp) : noAccess (tokOf op) := by
  cases op <;> simp [noAccess, tokOf]

/-- the left operand of `op`, unparenthesised, may be followed by `op` -/
theorem okAfter_left {a : Expr} {op : BinOp} (hp : leftMin op ≤ precedenceOf a) : okAfter a (tokOf op) := by
  refine ⟨noAccess_tokOf op, ?_⟩
  have hge := leftMin_ge op
  cases a with
  | bin op1 _ _ _ =>
    simp only [precedenceOf] at hp
    have h1 := prec_tokOf T op
    cases op1
    case elvis =>
      -- a `?:` on the left is below every left minimum
      exfalso
      have : 2 ≤ leftMin op := by cases op <;> decide
      simp [binPrec, precElvis] at hp; omega
    all_goals (simp only [edgeOk]; right; omega)
  | tern => simp [precedenceOf, precTernary] at hp; have := binPrec_pos op; omega
  | _ => simp [edgeOk]

omit T in
/-- the right operand of `op` inherits the follower of the whole expression -/
theorem okAfter_right {a b : Expr} {op : BinOp} {p : Nat} {h : ItemType} (hok : okAfter (.bin op p a b) h)
    (hp : rightMin op ≤ precedenceOf b) : okAfter b h := by
  refine ⟨hok.1, ?_⟩
  have he := hok.2
  cases op
  case elvis =>
    simp only [edgeOk] at he
    exact edgeOk_of_stop he.1 he.2
  all_goals
    simp only [edgeOk] at he
    simp only [rightMin] at hp
    cases b with
    | bin op1 _ _ _ =>
      simp only [precedenceOf] at hp
      cases op1
      case elvis => exfalso; simp [binPrec, precElvis, precOr, precAnd, precEquality, precCompare, precAdd, precMul] at hp
      all_goals
        simp only [edgeOk]
        rcases he with he | he
        · exact Or.inl he
        · right; omega
    | tern => simp [precedenceOf, precTernary] at hp
    | _ => simp [edgeOk]

omit T in
theorem stops_right {a b : Expr} {op : BinOp} {p : Nat} {h : ItemType} (hok : okAfter (.bin op p a b) h) :
    Stops (rightMin op - 1) h := by
  have he := hok.2
  cases op
  case elvis =>
    simp only [edgeOk] at he
    exact ⟨Or.inl he.1, fun _ => he.2⟩
  all_goals
    simp only [edgeOk] at he
    refine ⟨?_, fun h0 => ?_⟩
    · rcases he with he | he
      · exact Or.inl he
      · right; simp only [rightMin, Nat.add_sub_cancel]; omega
    · simp [rightMin, binPrec, precOr, precAnd, precEquality, precCompare, precAdd, precMul] at h0

theorem stops_unary {h : ItemType} : Stops (precUnary - 1) h := by
  refine ⟨?_, fun h0 => by simp [precUnary] at h0⟩
  cases hb : isBinaryOp h with
  | false => exact Or.inl rfl
  | true => right; have := binop_prec_lt T hb; omega

/-- the condition of a ternary, unparenthesised (not a `?:`, not a ternary), may be followed by `?` -/
theorem okAfter_cond {c : Expr} (hp : precElvis + 1 ≤ precedenceOf c) : okAfter c .tTernIf := by
  refine ⟨by simp [noAccess], ?_⟩
  have hb : isBinaryOp .tTernIf = false := by rw [isBinaryOp_eq T]; rfl
  cases c with
  | bin op _ _ _ =>
    cases op
    case elvis => simp [precedenceOf, binPrec, precElvis] at hp
    all_goals simp [edgeOk, hb]
  | tern => simp [precedenceOf, precTernary, precElvis] at hp
  | _ => simp [edgeOk]

/-- anything may be followed by `:` -/
theorem okAfter_colon (c : Expr) : okAfter c .tColon := by
  have hb : isBinaryOp .tColon = false := by rw [isBinaryOp_eq T]; rfl
  exact ⟨by simp [noAccess], edgeOk_of_stop hb (by simp)⟩

theorem stops_colon (p : Nat) : Stops p .tColon := by
  refine ⟨Or.inl ?_, by simp⟩
  rw [isBinaryOp_eq T]; rfl

omit T in
theorem okAfter_else {c a b x : Expr} {p : Nat} {h : ItemType} (hok : okAfter (.tern p c a b) h) : okAfter x h := by
  have he := hok.2
  simp only [edgeOk] at he
  exact ⟨hok.1, edgeOk_of_stop he.1 he.2⟩

omit T in
theorem stops_else {c a b : Expr} {p : Nat} {h : ItemType} (hok : okAfter (.tern p c a b) h) : Stops 0 h := by
  have he := hok.2
  simp only [edgeOk] at he
  exact ⟨Or.inl he.1, fun _ => he.2⟩

/-! ### unary operators -/

theorem ft_not (p : Nat) {a : Expr} (hA : AStmt pf a) : FTStmt pf (.not p a) := by
  intro ts h rest F st hR hok hst hF
  rw [Renders] at hR; obtain ⟨ta, hS, rfl⟩ := hR
  have hst' : At st (tNot :: (ta ++ h :: rest)) := by simpa using hst
  simp at hF
  obtain ⟨F', rfl⟩ : ∃ F', F = F' + 1 := ⟨F - 1, by omega⟩
  obtain ⟨it, st1, hn, ht, hv, hj⟩ := next_at hst'
  have ht' : it.typ = .tNot := ht
  have hprec : precedence .tNot = precUnary - 1 := by have := T.precNot; omega
  obtain ⟨r, st2, h2, he, h2a⟩ := hA precUnary ta h rest (precUnary - 1) 1 F' (Post a (h :: rest)) st1 hS (Nat.le_refl _)
    (fun hp => okAfter_of_unary hp hok.1) (cont_stop pf (stops_unary T)) hj.at (by omega)
  refine ⟨.not it.pos r, st2, ?_, ?_, h2a.at⟩
  · unfold parseExprFirstTerm
    rw [bind_ok hn]
    have hu : isUnaryOp ItemType.tNot = true := by rw [isUnaryOp_eq T]; rfl
    simp only [ht', hu, if_true, hprec]
    rw [bind_ok h2]
    rfl
  · simp [erase, he]

theorem ft_neg (p : Nat) {a : Expr} (hA : AStmt pf a) : FTStmt pf (.neg p a) := by
  intro ts h rest F st hR hok hst hF
  rw [Renders] at hR; obtain ⟨ta, hS, rfl⟩ := hR
  have hst' : At st (tNeg :: (ta ++ h :: rest)) := by simpa using hst
  simp at hF
  obtain ⟨F', rfl⟩ : ∃ F', F = F' + 1 := ⟨F - 1, by omega⟩
  obtain ⟨it, st1, hn, ht, hv, hj⟩ := next_at hst'
  have ht' : it.typ = .tNegate := ht
  have hprec : precedence .tNegate = precUnary - 1 := by have := T.precNeg; omega
  have hm : precUnary ≤ negMin a := by cases a <;> simp [negMin, precUnary, precPrimary]
  obtain ⟨r, st2, h2, he, h2a⟩ := hA (negMin a) ta h rest (precUnary - 1) 1 F' (Post a (h :: rest)) st1 hS (by omega)
    (fun hp => okAfter_of_unary (Nat.le_trans hm hp) hok.1) (cont_stop pf (stops_unary T)) hj.at (by omega)
  refine ⟨.neg it.pos r, st2, ?_, ?_, h2a.at⟩
  · unfold parseExprFirstTerm
    rw [bind_ok hn]
    have hu : isUnaryOp ItemType.tNegate = true := by rw [isUnaryOp_eq T]; rfl
    simp only [ht', hu, if_true, hprec]
    rw [bind_ok h2]
    rfl
  · simp [erase, he]

/-! ### binary operators -/

theorem b_bin (op : BinOp) (pos : Nat) {a b : Expr} (hA : AStmt pf a) (hB : AStmt pf b) : BStmt pf (.bin op pos a b) := by
  intro ts h rest p k F Q st hR hp hok hC hst hF
  rw [Renders] at hR; obtain ⟨ta, tb, hSa, hSb, rfl⟩ := hR
  have hlvl : p + 1 ≤ binPrec op := by
    have := binPrec_pos op
    simp [lvl, precedenceOf] at hp; omega
  have hst' : At st (ta ++ tOp op :: (tb ++ h :: rest)) := by simpa using hst
  simp at hF
  have hlm := leftMin_ge op
  refine hA (leftMin op) ta (tOp op) (tb ++ h :: rest) p (k + 2 + 8 * tb.length) F Q st hSa (by omega)
    (fun hp => okAfter_left T hp) ?_ hst' (by omega)
  intro k' a' st1 hk' hea hst1
  obtain ⟨k'', rfl⟩ : ∃ k'', k' = k'' + 1 := ⟨k' - 1, by omega⟩
  obtain ⟨bpos, st2, hst2, heq⟩ := exprLoop_bin pf T (F := k'') (p := p) (e := a') hst1 hlvl
  obtain ⟨rb, st3, h3, heb, h3a⟩ := hB (rightMin op) tb h rest (rightMin op - 1) 1 k'' (Post b (h :: rest)) st2 hSb (Nat.le_refl _)
    (fun hp => okAfter_right hok hp) (cont_stop pf (stops_right hok)) hst2 (by omega)
  obtain ⟨r, st4, h4, hQ⟩ := hC k'' (.bin op bpos a' rb) st3 (by omega) (by simp [erase, hea, heb]) h3a.at
  refine ⟨r, st4, ?_, hQ⟩
  rw [heq, bind_ok h3]
  exact h4

/-! ### the ternary -/

theorem b_tern (pos : Nat) {c a b : Expr} (hCc : AStmt pf c) (hA : AStmt pf a) (hB : AStmt pf b) :
    BStmt pf (.tern pos c a b) := by
  intro ts h rest p k F Q st hR hp hok hC hst hF
  rw [Renders] at hR; obtain ⟨tc, ta, tb, hSc, hSa, hSb, rfl⟩ := hR
  have hp0 : p = 0 := by simp [lvl, precedenceOf, precTernary] at hp; exact hp
  subst hp0
  have hst' : At st (tc ++ tTernIf :: (ta ++ tColon :: (tb ++ h :: rest))) := by simpa using hst
  simp at hF
  refine hCc (precElvis + 1) tc tTernIf (ta ++ tColon :: (tb ++ h :: rest)) 0 (k + 3 + 8 * ta.length + 8 * tb.length) F Q st hSc
    (Nat.zero_le _) (fun hp => okAfter_cond T hp) ?_ hst' (by omega)
  intro k' c' st1 hk' hec hst1
  obtain ⟨k'', rfl⟩ : ∃ k'', k' = k'' + 1 := ⟨k' - 1, by omega⟩
  obtain ⟨k3, rfl⟩ : ∃ k3, k'' = k3 + 1 := ⟨k'' - 1, by omega⟩
  obtain ⟨st2, hst2, heq⟩ := exprLoop_tern pf T (F := k3 + 1) (e := c') hst1
  obtain ⟨ra, st3, h3, hea, h3a⟩ := hA precElvis ta tColon (tb ++ h :: rest) 0 1 k3 (Post a (tColon :: (tb ++ h :: rest))) st2 hSa
    (Nat.zero_le _) (fun _ => okAfter_colon T a) (cont_stop pf (stops_colon T 0)) hst2 (by omega)
  obtain ⟨it4, st4, h4, _, _, hj4⟩ := expect_at h3a.at
  obtain ⟨rb, st5, h5, heb, h5a⟩ := hB 0 tb h rest 0 1 k3 (Post b (h :: rest)) st4 hSb
    (Nat.zero_le _) (fun _ => okAfter_else hok) (cont_stop pf (stops_else hok)) hj4.at (by omega)
  obtain ⟨r, st7, h7, hQ⟩ := hC (k3 + 1) (.tern c'.pos c' ra rb) st5 (by omega) (by simp [erase, hec, hea, heb]) h5a.at
  have h7' := exprLoop_stop1 pf (F := k3) (p := 0) (e := .tern c'.pos c' ra rb) h5a (stops_else hok)
  rw [h7'] at h7
  injection h7 with h7; injection h7 with hr hs; subst hr; subst hs
  refine ⟨_, _, ?_, hQ⟩
  rw [heq]
  unfold parseTernary
  rw [bind_ok h3]
  have h4' : expect ItemType.tColon st3 = .ok (it4, st4) := h4
  rw [bind_ok h4', bind_ok h5]
  rfl
end

end SoyVerif.Lemmas.ParserRound
