/- The generator monad `JsGen.M` obeys the monad laws (needed to regroup `do` blocks). -/
import SoyVerif.Model.JsGen

namespace SoyVerif.Lemmas.JsGenMonad
open SoyVerif SoyVerif.Model SoyVerif.Model.JsGen

theorem pure_bind {α β : Type} (a : α) (k : α → M β) : (pure a >>= k) = k a := by
  funext s
  simp only [Bind.bind, M.bind, Pure.pure, M.pure]
  cases k a s with
  | error e => rfl
  | ok r => obtain ⟨b, qs, s2⟩ := r; simp

theorem bind_pure {α : Type} (m : M α) : (m >>= fun a => pure a) = m := by
  funext s
  simp only [Bind.bind, M.bind, Pure.pure, M.pure]
  cases m s with
  | error e => rfl
  | ok r => obtain ⟨a, ps, s1⟩ := r; simp

theorem bind_pure_unit (m : M Unit) : (m >>= fun _ => pure ()) = m := bind_pure m

theorem bind_assoc {α β γ : Type} (m : M α) (k : α → M β) (l : β → M γ) :
    ((m >>= k) >>= l) = (m >>= fun a => k a >>= l) := by
  funext s
  simp only [Bind.bind, M.bind]
  cases m s with
  | error e => rfl
  | ok r =>
    obtain ⟨a, ps, s1⟩ := r
    simp only
    cases k a s1 with
    | error e => rfl
    | ok r2 =>
      obtain ⟨b, qs, s2⟩ := r2
      simp only
      cases l b s2 with
      | error e => rfl
      | ok r3 => obtain ⟨c, rs, s3⟩ := r3; simp [List.append_assoc]

theorem seqM_append : ∀ (l1 l2 : List (M Unit)), seqM (l1 ++ l2) = (seqM l1 >>= fun _ => seqM l2)
  | [], l2 => by
    show seqM l2 = (pure () >>= fun _ => seqM l2)
    rw [pure_bind]
  | m :: r, l2 => by
    show (m >>= fun _ => seqM (r ++ l2)) = ((m >>= fun _ => seqM r) >>= fun _ => seqM l2)
    rw [seqM_append r l2, bind_assoc]

theorem seqM_single (m : M Unit) : seqM [m] = m := by
  show (m >>= fun _ => pure ()) = m
  exact bind_pure_unit m

end SoyVerif.Lemmas.JsGenMonad
