/-
  Termination / error-position specifications of the file parser's loops that contain no
  nested blocks (`skipComments`, `nextNonComment`, `collectText`, `parseAttrs`, the print
  directive loops, `parseAlias`, `parseSoyDoc`, `parseNamespace`, `parseHeaderParam`,
  `parseCss`, the head of `parseCall`).
-/
import SoyVerif.Lemmas.FileParserSafe
import SoyVerif.Lemmas.FileParserShape

set_option linter.unusedSimpArgs false
set_option linter.unusedVariables false

namespace SoyVerif.Lemmas.ParserSafe
open SoyVerif SoyVerif.Model SoyVerif.Model.Parser SoyVerif.Model.FileParser

section
variable {AP : Prop} {EL : Lvl} {S : Item → Prop} (hz : S Item.zero)
include hz

/-- `for token.typ == itemComment { token = t.next() }`; `token` is held by the caller -/
theorem skipComments_safe : ∀ (fuel : Nat) (token : Item) (st : FState) (Q : Item → FState → Prop),
    S token → InvW EL S st.p → st.p.peekCount ≤ 1 → top st.p = token → mu st.p + real token + 1 ≤ fuel →
    (∀ tok st', S tok → InvW EL S st'.p → st'.p.peekCount ≤ 1 → top st'.p = tok →
      mu st'.p + real tok ≤ mu st.p + real token → Q tok st') →
    FSafe AP EL S (skipComments fuel token) st Q := by
  intro fuel
  induction fuel with
  | zero => intro token st Q _ _ _ _ h; omega
  | succ f ih =>
    intro token st Q hs hi hpc htop hf hq
    unfold skipComments
    split
    · rename_i hc
      have hr := real_of_beq hc (by decide)
      apply FSafe.bind
      apply fnext_safe hz (upw% hi)
      intro t st1 hi1 hs1 hpc1 ht1 hm1 _
      apply ih t st1 Q hs1 hi1 (by omega) ht1 (by omega)
      intro tok st' a b c d e
      exact hq tok st' a b c d (by omega)
    · exact FSafe.pure (hq token st hs hi hpc htop (Nat.le_refl _))

/-- `t.nextNonComment()` -/
theorem nextNonComment_safe : ∀ (fuel : Nat) (st : FState) (Q : Item → FState → Prop),
    Inv EL S st.p → mu st.p + 1 ≤ fuel →
    (∀ tok st', S tok → InvW EL S st'.p → st'.p.peekCount ≤ 1 → top st'.p = tok →
      mu st'.p + real tok ≤ mu st.p → Q tok st') →
    FSafe AP EL S (nextNonComment fuel) st Q := by
  intro fuel
  induction fuel with
  | zero => intro st Q _ h; omega
  | succ f ih =>
    intro st Q hi hf hq
    unfold nextNonComment
    apply FSafe.bind
    apply fnext_safe hz hi
    intro tok st1 hi1 hs1 hpc1 ht1 hm1 _
    split
    · exact FSafe.pure (hq tok st1 hs1 hi1 (by have := hi.1; omega) ht1 (by omega))
    · rename_i hc
      have hc' : tok.typ = .tComment := by simpa using hc
      have hr := real_of_eq hc' (by decide)
      apply ih st1 Q (upw% hi1) (by omega)
      intro tok' st' a b c d e
      exact hq tok' st' a b c d (by omega)

/-- the text-merging loop of textOrTag -/
theorem collectText_safe : ∀ (fuel : Nat) (text : Bytes) (st : FState) (Q : Bytes × Item → FState → Prop),
    Inv EL S st.p → mu st.p + 1 ≤ fuel →
    (∀ txt nxt st', S nxt → InvW EL S st'.p → st'.p.peekCount ≤ 1 → top st'.p = nxt →
      mu st'.p + real nxt ≤ mu st.p → Q (txt, nxt) st') →
    FSafe AP EL S (collectText fuel text) st Q := by
  intro fuel
  induction fuel with
  | zero => intro text st Q _ h; omega
  | succ f ih =>
    intro text st Q hi hf hq
    unfold collectText
    apply FSafe.bind
    apply fnext_safe hz hi
    intro nxt st1 hi1 hs1 hpc1 ht1 hm1 _
    split
    · exact FSafe.pure (hq _ nxt st1 hs1 hi1 (by have := hi.1; omega) ht1 (by omega))
    · rename_i hc
      have hc' : nxt.typ = .tText := by simpa using hc
      have hr := real_of_eq hc' (by decide)
      apply ih _ st1 Q (upw% hi1) (by omega)
      intro txt nxt' st' a b c d e
      exact hq txt nxt' st' a b c d (by omega)

/-- `parseAttrs(...)` -/
theorem parseAttrs_safe (allowed : List Bytes) : ∀ (fuel : Nat) (res : List (Bytes × Bytes)) (st : FState)
    (Q : List (Bytes × Bytes) → FState → Prop),
    Inv EL S st.p → mu st.p + 1 ≤ fuel →
    (∀ r st', Inv EL S st'.p → mu st'.p ≤ mu st.p → Q r st') →
    FSafe AP EL S (parseAttrs allowed fuel res) st Q := by
  intro fuel
  induction fuel with
  | zero => intro res st Q _ h; omega
  | succ f ih =>
    intro res st Q hi hf hq
    unfold parseAttrs
    apply FSafe.bind
    apply fnext_safe hz hi
    intro tok st1 hi1 hs1 hpc1 ht1 hm1 _
    split
    · rename_i hc
      have hr := real_of_beq hc (by decide)
      split
      · exact funexpected_safe hi1 hs1
      · apply FSafe.bind
        apply fexpect_safe hz (upw% hi1) (by decide)
        intro e st2 hi2 _ _ _ hm2 _
        apply FSafe.bind
        apply fexpect_safe hz hi2 (by decide)
        intro v st3 hi3 _ _ _ hm3 _
        split
        · apply ih _ st3 Q hi3 (by omega)
          intro r st' a b
          exact hq r st' a (by omega)
        · exact ferrorf_safe hi3
    split
    · apply FSafe.bind
      apply fbackup_safe hi1 (by have := hi.1; omega)
      intro st2 hi2 hm2 _
      exact FSafe.pure (hq _ st2 hi2 (by rw [ht1] at hm2; omega))
    · exact funexpected_safe hi1 hs1

variable (pf : Bytes → Option UInt64) (ef N : Nat) (hN : 8 * N + 10 ≤ ef)
variable (hwf : ∀ it, S it → AP ∨ WFItem it)
variable (hlex : ∀ (str : Bytes) (is : List Item), Lex.lexAll str true = .items is → ∀ it ∈ is, AP ∨ WFItem it)
include hN hwf hlex

/-- the argument loop of a print directive -/
theorem directiveArgs_safe : ∀ (fuel : Nat) (args : List Expr) (st : FState) (Q : List Expr → FState → Prop),
    EPl S args → Inv EL S st.p → mu st.p ≤ N → mu st.p + 1 ≤ fuel →
    (∀ r st', Inv EL S st'.p → (mu st'.p ≤ mu st.p ∧ EPl S r) → Q r st') →
    FSafe AP EL S (directiveArgs pf ef fuel args) st Q := by
  intro fuel
  induction fuel with
  | zero => intro args st Q _ _ _ h; omega
  | succ f ih =>
    intro args st Q hargs hi hn hf hq
    unfold directiveArgs
    apply FSafe.bind
    apply fnext_safe hz hi
    intro nxt st1 hi1 hs1 hpc1 ht1 hm1 _
    split
    · apply FSafe.bind
      apply parseExpr0_safe hz pf ef N hN hwf (upw% hi1) (by omega)
      intro e st2 hi2 hm2
      apply ih _ st2 Q (EPl_append hargs (EPl_single hm2.2)) hi2 (by omega) (by omega)
      intro r st' a b
      exact hq r st' a ⟨by omega, b.2⟩
    · apply FSafe.bind
      apply fbackup_safe hi1 (by have := hi.1; omega)
      intro st2 hi2 hm2 _
      exact FSafe.pure (hq _ st2 hi2 ⟨by rw [ht1] at hm2; omega, hargs⟩)

theorem printLoop_safe (pos : Nat) (expr : Expr) : ∀ (fuel : Nat) (dirs : List Directive) (st : FState)
    (Q : Node → FState → Prop),
    (PosOK S pos ∧ EP S expr ∧ DirsP S dirs) → Inv EL S st.p → mu st.p ≤ N → mu st.p + 1 ≤ fuel →
    (∀ r st', (childOK r ∧ NP S r) → Inv EL S st'.p → mu st'.p ≤ mu st.p → Q r st') →
    FSafe AP EL S (printLoop pf ef pos expr fuel dirs) st Q := by
  intro fuel
  induction fuel with
  | zero => intro dirs st Q _ _ _ h; omega
  | succ f ih =>
    intro dirs st Q hpre hi hn hf hq
    unfold printLoop
    apply FSafe.bind
    apply fnext_safe hz hi
    intro tok st1 hi1 hs1 hpc1 ht1 hm1 _
    split
    · exact FSafe.pure (hq _ st1 ⟨trivial, by simp only [NP]; exact hpre⟩ (upw% hi1) (by omega))
    split
    · rename_i hc
      have hr := real_of_beq hc (by decide)
      apply FSafe.bind
      apply fexpect_safe hz (upw% hi1) (by decide)
      intro id st2 hi2 _ _ _ hm2 _
      apply FSafe.bind
      apply directiveArgs_safe hz pf ef N hN hwf hlex f [] st2 _ EPl_nil hi2 (by omega) (by omega)
      intro args st3 hi3 hm3
      apply ih _ st3 Q ⟨hpre.1, hpre.2.1, DirsP_append hpre.2.2 (by
        intro d hd; simp only [List.mem_singleton] at hd; subst hd; exact ⟨posOK_of hs1, hm3.2⟩)⟩ hi3 (by omega) (by omega)
      intro r st' c a b
      exact hq r st' c a (by omega)
    · exact funexpected_safe hi1 hs1

theorem parsePrint_safe (fuel : Nat) (token : Item) (st : FState) (Q : Node → FState → Prop)
    (hi : Inv EL S st.p ∧ S token) (hn : mu st.p ≤ N) (hf : mu st.p + 1 ≤ fuel)
    (hq : ∀ r st', (childOK r ∧ NP S r) → Inv EL S st'.p → mu st'.p ≤ mu st.p → Q r st') :
    FSafe AP EL S (parsePrint pf ef fuel token) st Q := by
  unfold parsePrint
  apply FSafe.bind
  apply parseExpr0_safe hz pf ef N hN hwf hi.1 hn
  intro e st1 hi1 hm1
  apply printLoop_safe hz pf ef N hN hwf hlex _ _ fuel [] st1 Q ⟨posOK_of hi.2, hm1.2, DirsP_nil⟩ hi1 (by omega) (by omega)
  intro r st' c a b
  exact hq r st' c a (by omega)

omit hN hlex in
theorem aliasLoop_safe : ∀ (fuel : Nat) (name seg : Bytes) (st : FState) (Q : Unit → FState → Prop),
    Inv EL S st.p → mu st.p + 1 ≤ fuel →
    (∀ st', Inv EL S st'.p → mu st'.p ≤ mu st.p → Q () st') →
    FSafe AP EL S (aliasLoop fuel name seg) st Q := by
  intro fuel
  induction fuel with
  | zero => intro name seg st Q _ h; omega
  | succ f ih =>
    intro name seg st Q hi hf hq
    unfold aliasLoop
    apply FSafe.bind
    apply fnext_safe hz hi
    intro nxt st1 hi1 hs1 hpc1 ht1 hm1 _
    split
    · rename_i hc
      have hr := real_of_beq hc (by decide)
      apply FSafe.bind
      apply ftail1_safe (val_ne1 (hwf nxt hs1) (Or.inr (Or.inl (by simpa using hc))))
      intro _ sg _
      apply ih _ _ st1 Q (upw% hi1) (by omega)
      intro st' a b
      exact hq st' a (by omega)
    split
    · apply fmodify_safe
      exact hq _ (upw% hi1) (by show mu st1.p ≤ mu st.p; omega)
    · exact funexpected_safe hi1 hs1

omit hN hlex in
theorem parseAlias_safe (fuel : Nat) (st : FState) (Q : Unit → FState → Prop)
    (hi : Inv EL S st.p) (hf : mu st.p + 1 ≤ fuel)
    (hq : ∀ st', Inv EL S st'.p → mu st'.p ≤ mu st.p → Q () st') :
    FSafe AP EL S (parseAlias fuel) st Q := by
  unfold parseAlias
  apply FSafe.bind
  apply fexpect_safe hz hi (by decide)
  intro name st1 hi1 _ _ _ hm1 _
  apply aliasLoop_safe hz hwf fuel _ _ st1 Q hi1 (by omega)
  intro st' a b
  exact hq st' a (by omega)

omit hN hwf hlex in
theorem soyDocLoop_safe (pos : Nat) : ∀ (fuel : Nat) (params : List SoyDocParam) (st : FState)
    (Q : Node → FState → Prop),
    PosOK S pos → Inv EL S st.p → mu st.p + 1 ≤ fuel →
    (∀ r st', (childOK r ∧ NP S r) → Inv EL S st'.p → mu st'.p ≤ mu st.p → Q r st') →
    FSafe AP EL S (soyDocLoop pos fuel params) st Q := by
  intro fuel
  induction fuel with
  | zero => intro params st Q _ _ h; omega
  | succ f ih =>
    intro params st Q hpos hi hf hq
    unfold soyDocLoop
    apply FSafe.bind
    apply fnext_safe hz hi
    intro nxt st1 hi1 hs1 hpc1 ht1 hm1 _
    split
    · rename_i hc
      have hr := real_of_beq hc (by decide)
      apply ih _ st1 Q hpos (upw% hi1) (by omega)
      intro r st' c a b
      exact hq r st' c a (by omega)
    split
    · apply FSafe.bind
      apply fexpect_safe hz (upw% hi1) (by decide)
      intro ident st2 hi2 _ _ _ hm2 hty
      have hr := real_of_eq hty (by decide)
      apply ih _ st2 Q hpos hi2 (by omega)
      intro r st' c a b
      exact hq r st' c a (by omega)
    split
    · exact FSafe.pure (hq _ st1 ⟨trivial, by simp only [NP]; exact hpos⟩ (upw% hi1) (by omega))
    · exact funexpected_safe hi1 hs1

omit hN hwf hlex in
theorem parseAutoescape_safe (attrs : List (Bytes × Bytes)) (st : FState) (Q : Autoescape → FState → Prop)
    (hi : Inv EL S st.p) (hq : ∀ r, Q r st) : FSafe AP EL S (parseAutoescape attrs) st Q := by
  unfold parseAutoescape
  simp only
  split
  · exact FSafe.pure (hq _)
  split
  · exact FSafe.pure (hq _)
  split
  · exact FSafe.pure (hq _)
  split
  · exact FSafe.pure (hq _)
  split
  · exact FSafe.pure (hq _)
  · exact ferrorf_safe hi

omit hN hwf hlex in
theorem boolAttr_safe (attrs : List (Bytes × Bytes)) (key : Bytes) (d : Bool) (st : FState)
    (Q : Bool → FState → Prop) (hi : Inv EL S st.p) (hq : ∀ r, Q r st) :
    FSafe AP EL S (boolAttr attrs key d) st Q := by
  unfold boolAttr
  split
  · exact FSafe.pure (hq _)
  · split
    · exact FSafe.pure (hq _)
    split
    · exact FSafe.pure (hq _)
    · exact ferrorf_safe hi

omit hN hwf hlex in
theorem namespaceLoop_safe (pos : Nat) : ∀ (fuel : Nat) (name : Bytes) (st : FState) (Q : Node → FState → Prop),
    PosOK S pos → Inv EL S st.p → mu st.p + 2 ≤ fuel →
    (∀ r st', (childOK r ∧ NP S r) → Inv EL S st'.p → mu st'.p ≤ mu st.p → Q r st') →
    FSafe AP EL S (namespaceLoop pos fuel name) st Q := by
  intro fuel
  induction fuel with
  | zero => intro name st Q _ _ h; omega
  | succ f ih =>
    intro name st Q hpos hi hf hq
    unfold namespaceLoop
    apply FSafe.bind
    apply fnext_safe hz hi
    intro part st1 hi1 hs1 hpc1 ht1 hm1 _
    split
    · rename_i hc
      have hr := real_of_beq hc (by decide)
      apply ih _ st1 Q hpos (upw% hi1) (by omega)
      intro r st' c a b
      exact hq r st' c a (by omega)
    · apply FSafe.bind
      apply fbackup_safe hi1 (by have := hi.1; omega)
      intro st2 hi2 hm2 _
      rw [ht1] at hm2
      apply FSafe.bind
      apply parseAttrs_safe hz _ f [] st2 _ hi2 (by omega)
      intro attrs st3 hi3 hm3
      apply FSafe.bind
      apply parseAutoescape_safe hz attrs st3 _ hi3
      intro ae
      apply FSafe.bind
      apply fexpect_safe hz hi3 (by decide)
      intro rd st4 hi4 _ _ _ hm4 _
      apply FSafe.bind
      apply fmodify_safe
      exact FSafe.pure (hq _ _ ⟨trivial, by simp only [NP]; exact hpos⟩ hi4 (by show mu st4.p ≤ mu st.p; omega))

omit hN hwf hlex in
theorem parseNamespace_safe (fuel : Nat) (token : Item) (st : FState) (Q : Node → FState → Prop)
    (hst : S token) (hi : Inv EL S st.p) (hf : mu st.p + 1 ≤ fuel)
    (hq : ∀ r st', (childOK r ∧ NP S r) → Inv EL S st'.p → mu st'.p ≤ mu st.p → Q r st') :
    FSafe AP EL S (parseNamespace fuel token) st Q := by
  unfold parseNamespace
  apply FSafe.bind
  apply fget_safe
  split
  · exact ferrorf_safe hi
  · apply FSafe.bind
    apply fexpect_safe hz hi (by decide)
    intro name st1 hi1 _ _ _ hm1 hty
    have hr := real_of_eq hty (by decide)
    apply namespaceLoop_safe hz _ fuel _ st1 Q (posOK_of hst) hi1 (by omega)
    intro r st' c a b
    exact hq r st' c a (by omega)

theorem parseHeaderParam_safe (token : Item) (st : FState) (Q : Node → FState → Prop)
    (hst : S token) (hi : Inv EL S st.p) (hn : mu st.p ≤ N)
    (hq : ∀ r st', (childOK r ∧ NP S r) → Inv EL S st'.p → mu st'.p ≤ mu st.p → Q r st') :
    FSafe AP EL S (parseHeaderParam pf ef token) st Q := by
  unfold parseHeaderParam
  simp only
  apply FSafe.bind
  apply fexpect_safe hz hi (by decide)
  intro name st1 hi1 _ _ _ hm1 _
  apply FSafe.bind
  apply fexpect_safe hz hi1 (by decide)
  intro c st2 hi2 _ _ _ hm2 _
  apply FSafe.bind
  apply fexpect_safe hz hi2 (by decide)
  intro typ st3 hi3 _ _ _ hm3 _
  apply FSafe.bind
  apply fnext_safe hz hi3
  intro tok st4 hi4 hs4 hpc4 ht4 hm4 _
  apply FSafe.bind
  split
  · apply FSafe.bind
    apply parseExpr0_safe hz pf ef N hN hwf (upw% hi4) (by omega)
    intro e st5 hi5 hm5
    apply FSafe.pure
    apply FSafe.bind
    apply fexpect_safe hz hi5 (by decide)
    intro rd st6 hi6 _ _ _ hm6 _
    exact FSafe.pure (hq _ st6 ⟨trivial, by simp only [NP, EPo]; exact ⟨posOK_of hst, hm5.2⟩⟩ hi6 (by omega))
  · apply FSafe.bind
    apply fbackup_safe hi4 (by have := hi3.1; omega)
    intro st5 hi5 hm5 _
    rw [ht4] at hm5
    apply FSafe.pure
    apply FSafe.bind
    apply fexpect_safe hz hi5 (by decide)
    intro rd st6 hi6 _ _ _ hm6 _
    exact FSafe.pure (hq _ st6 ⟨trivial, by simp only [NP, EPo]; exact ⟨posOK_of hst, trivial⟩⟩ hi6 (by omega))

omit hN hwf in
theorem parseCss_safe (token : Item) (st : FState) (Q : Node → FState → Prop)
    (hst : S token) (hi : Inv EL S st.p)
    (hq : ∀ r st', (childOK r ∧ NP S r) → Inv EL S st'.p → mu st'.p ≤ mu st.p → Q r st') :
    FSafe AP EL S (parseCss pf token) st Q := by
  unfold parseCss
  apply FSafe.bind
  apply fexpect_safe hz hi (by decide)
  intro txt st1 hi1 _ _ _ hm1 _
  apply FSafe.bind
  apply fexpect_safe hz hi1 (by decide)
  intro rd st2 hi2 _ _ _ hm2 _
  split
  · exact FSafe.pure (hq _ st2 ⟨trivial, by simp only [NP, EPo]; exact ⟨posOK_of hst, trivial⟩⟩ hi2 (by omega))
  · apply FSafe.bind
    apply parseQuotedExpr_safe hz pf hlex hi2
    intro e hpe
    exact FSafe.pure (hq _ st2 ⟨trivial, by simp only [NP, EPo]; exact ⟨posOK_of hst, hpe⟩⟩ hi2 (by omega))

omit hN hwf hlex in
theorem callNameLoop_safe : ∀ (fuel : Nat) (name : Bytes) (st : FState) (Q : Bytes → FState → Prop),
    Inv EL S st.p → mu st.p + 1 ≤ fuel →
    (∀ r st', Inv EL S st'.p → mu st'.p ≤ mu st.p → Q r st') →
    FSafe AP EL S (callNameLoop fuel name) st Q := by
  intro fuel
  induction fuel with
  | zero => intro name st Q _ h; omega
  | succ f ih =>
    intro name st Q hi hf hq
    unfold callNameLoop
    apply FSafe.bind
    apply fnext_safe hz hi
    intro tokn st1 hi1 hs1 hpc1 ht1 hm1 _
    split
    · rename_i hc
      have hr := real_of_beq hc (by decide)
      apply ih _ st1 Q (upw% hi1) (by omega)
      intro r st' a b
      exact hq r st' a (by omega)
    · apply FSafe.bind
      apply fbackup_safe hi1 (by have := hi.1; omega)
      intro st2 hi2 hm2 _
      exact FSafe.pure (hq _ st2 hi2 (by rw [ht1] at hm2; omega))


omit hN hwf in
theorem parseCallHead_safe (fuel : Nat) (st : FState) (Q : Bytes × Bool × Option Expr → FState → Prop)
    (hi : Inv EL S st.p) (hf : mu st.p + 1 ≤ fuel)
    (hq : ∀ r st', Inv EL S st'.p → (mu st'.p ≤ mu st.p ∧ EPo S r.2.2) → Q r st') :
    FSafe AP EL S (parseCallHead pf fuel) st Q := by
  unfold parseCallHead
  apply FSafe.bind
  apply fnext_safe hz hi
  intro tok st1 hi1 hs1 hpc1 ht1 hm1 _
  apply FSafe.bind
  apply FSafe.mono (Q := fun _ st' => Inv EL S st'.p ∧ mu st'.p ≤ mu st.p)
  · split
    · exact FSafe.pure ⟨(upw% hi1), by omega⟩
    split
    · rename_i hident
      have hident' : tok.typ = .tIdent := by simpa using hident
      apply FSafe.bind
      apply fnext_safe hz (upw% hi1)
      intro tok2 st2 hi2 hs2 hpc2 ht2 hm2 _
      split
      · apply callNameLoop_safe hz fuel _ st2 _ (upw% hi2) (by omega)
        intro r st' a b
        exact ⟨a, by omega⟩
      · apply FSafe.bind
        apply fbackup2_safe hi2 hs1 (by rw [hident']; decide) (fun _ => real_valid (real_of_eq hident' (by decide))) (by have := hi.1; omega)
        intro st3 hi3 hm3 _
        exact FSafe.pure ⟨hi3, by rw [ht2] at hm3; omega⟩
    · apply FSafe.bind
      apply fbackup_safe hi1 (by have := hi.1; omega)
      intro st2 hi2 hm2 _
      exact FSafe.pure ⟨hi2, by rw [ht1] at hm2; omega⟩
  · intro tn st2 ⟨hi2, hm2⟩
    apply FSafe.bind
    apply parseAttrs_safe hz _ fuel [] st2 _ hi2 (by omega)
    intro attrs st3 hi3 hm3
    simp only
    generalize (if (tn == []) = true then (lookup attrs kName).getD [] else tn) = tname
    split
    · exact ferrorf_safe hi3
    · apply FSafe.bind
      apply fget_safe
      apply FSafe.bind
      apply FSafe.mono (Q := fun _ st' => st' = st3)
      · split
        · rename_i _ heq
          exact absurd rfl heq
        · split
          · exact FSafe.pure rfl
          · split
            · split
              · exact FSafe.pure rfl
              · exact FSafe.pure rfl
            · exact FSafe.pure rfl
      · intro tn' st4 h4
        subst h4
        split
        · split
          · exact FSafe.pure (hq _ _ hi3 ⟨by omega, trivial⟩)
          · apply FSafe.bind
            apply parseQuotedExpr_safe hz pf hlex hi3
            intro e hpe
            exact FSafe.pure (hq _ _ hi3 ⟨by omega, hpe⟩)
        · exact FSafe.pure (hq _ _ hi3 ⟨by omega, trivial⟩)

omit hN hz hwf hlex in
/-- the plural cases of parsePlural: the state is not touched; the cases and the default
    built from well-shaped switch cases are well shaped -/
theorem pluralCases_safe : ∀ (n : Nat) (cs acc : NodeList) (d : Option Node) (st : FState)
    (Q : NodeList × Option Node → FState → Prop), cs.length = n → (casesOK cs ∧ NPL S cs ∧ casesV EL S cs) → (pcasesOK acc ∧ NPL S acc) →
    (∀ d0, d = some d0 → listOK d0 ∧ NP S d0) → Inv EL S st.p →
    (∀ r, (pcasesOK r.1 ∧ NPL S r.1) → (∀ d0, r.2 = some d0 → listOK d0 ∧ NP S d0) → Q r st) →
    FSafe AP EL S (pluralCases cs acc d) st Q := by
  intro n
  induction n with
  | zero =>
    intro cs acc d st Q hl _ hacc hd hi hq
    cases cs with
    | nil => unfold pluralCases; exact FSafe.pure (hq _ hacc hd)
    | cons c r => simp [NodeList.length] at hl
  | succ k ih =>
    intro cs acc d st Q hl hsc0 hacc hd hi hq
    cases cs with
    | nil => unfold pluralCases; exact FSafe.pure (hq _ hacc hd)
    | cons c rest =>
      have hl' : rest.length = k := by simp only [NodeList.length] at hl; omega
      obtain ⟨hsc, hnp, hcv⟩ := hsc0
      unfold casesOK at hsc
      simp only [NPL] at hnp
      simp only [casesV] at hcv
      unfold pluralCases
      split
      · rename_i pos values body
        have hb : listOK body := hsc.1
        have hnb := hnp.1
        simp only [NP] at hnb
        split
        · exact ih _ _ _ st Q hl' ⟨hsc.2, hnp.2, hcv.2⟩ hacc
            (fun d0 h => by simp only [Option.some.injEq] at h; subst h; exact ⟨hb, hnb.2.2⟩) hi hq
        · split
          · refine ih _ _ _ st Q hl' ⟨hsc.2, hnp.2, hcv.2⟩ ⟨?_, ?_⟩ hd hi hq
            · apply pcasesOK_append _ _ _ rfl hacc.1
              exact ⟨hb, trivial⟩
            · apply NPL_append _ _ hacc.2
              simp only [NPL, NP]
              exact ⟨⟨hnb.1, hnb.2.2⟩, trivial⟩
          · exact ferrorfAt_safe hcv.1
      · rename_i hnot
        exfalso
        have := hsc.1
        split at this
        · rename_i p vs b; exact hnot p vs b rfl
        · exact this

end
end SoyVerif.Lemmas.ParserSafe
