/-
  The tokenizer of Spec/JsParse, one input element at a time: `jsLex` without its fuel, and what it does on the
  pieces a JavaScript text is written from (white space, identifiers, decimal integers, string literals written by
  the escaper, punctuators).
-/
import SoyVerif.Spec.JsParse
import SoyVerif.Lemmas.JsonValue
import SoyVerif.Props.C16

namespace SoyVerif.Lemmas.JsParseLex
open SoyVerif SoyVerif.Spec SoyVerif.Spec.JsParse
open SoyVerif.Spec.Json (digitsVal isDigit)

/-! ## the fuel -/

theorem strBody_len : ∀ (s body t : Bytes), strBody s = some (body, t) → t.length < s.length
  | [], _, _, h => by simp [strBody] at h
  | [c], body, t, h => by
    unfold strBody at h
    split at h
    · cases h; simp
    · split at h
      · simp at h
      · simp [strBody] at h
  | c :: d :: r, body, t, h => by
    unfold strBody at h
    split at h
    · cases h; simp
    · split at h
      · simp only [Option.map_eq_some_iff] at h
        obtain ⟨x, hx, e⟩ := h
        cases e
        have := strBody_len r x.1 x.2 hx
        simp; omega
      · simp only [Option.map_eq_some_iff] at h
        obtain ⟨x, hx, e⟩ := h
        cases e
        have := strBody_len (d :: r) x.1 x.2 hx
        simp at this ⊢; omega

theorem dropWhile_len (p : UInt8 → Bool) : ∀ s : Bytes, (s.dropWhile p).length ≤ s.length
  | [] => by simp
  | c :: r => by
    simp only [List.dropWhile_cons]
    split
    · have := dropWhile_len p r; simp; omega
    · simp

theorem lexOne_cons (c : UInt8) (r : Bytes) : lexOne (c :: r) =
    if isWs c then some (none, r)
    else if c == 47 then
      if r.take 1 == [47] && noLineSep (r.takeWhile fun b => !isEol b) then some (none, r.dropWhile fun b => !isEol b) else none
    else if isIdStart c then some (some (.id (c :: r.takeWhile isIdPart)), r.dropWhile isIdPart)
    else if isDigit c then
      if (c == 48 && !(r.takeWhile isDigit).isEmpty) || (r.dropWhile isDigit).head?.any (fun b => isIdStart b || b == 46) then none
      else some (some (.num (digitsVal (c :: r.takeWhile isDigit))), r.dropWhile isDigit)
    else if c == 39 then
      match strBody r with
      | some (body, t) => (jsUnescape body).map fun v => (some (.str v), t)
      | none => none
    else if c == 46 && r.head?.any isDigit then none
    else
      match punctLen (c :: r) with
      | 0 => none
      | n + 1 => some (some (.p (c :: r.take n)), r.drop n) := rfl

theorem lexOne_lt {s : Bytes} {t : Option Tok} {r : Bytes} (h : lexOne s = some (t, r)) : r.length < s.length := by
  cases s with
  | nil => simp [lexOne] at h
  | cons c s =>
    rw [lexOne_cons] at h
    split at h
    · cases h; simp
    · split at h
      · split at h
        · cases h; have := dropWhile_len (fun b => !isEol b) s; simp; omega
        · cases h
      · split at h
        · cases h; have := dropWhile_len isIdPart s; simp; omega
        · split at h
          · split at h
            · cases h
            · cases h; have := dropWhile_len isDigit s; simp; omega
          · split at h
            · split at h
              · rename_i body t' hb
                simp only [Option.map_eq_some_iff] at h
                obtain ⟨v, _, e⟩ := h
                cases e
                have := strBody_len _ _ _ hb
                simp; omega
              · cases h
            · split at h
              · cases h
              · split at h
                · cases h
                · cases h; simp; omega

/-- a token or nothing in front -/
def addTok (t : Option Tok) (ts : List Tok) : List Tok :=
  match t with
  | some t => t :: ts
  | none => ts

theorem lexN_step {n : Nat} {s : Bytes} {t : Option Tok} {r : Bytes} (h : lexOne s = some (t, r)) :
    lexN (n + 1) s = (lexN n r).map (addTok t) := by
  cases s with
  | nil => simp [lexOne] at h
  | cons c s =>
    simp only [lexN, h]
    cases lexN n r <;> cases t <;> rfl

theorem lexN_enough : ∀ (n : Nat) (s : Bytes), s.length ≤ n → lexN n s = lexN s.length s := by
  intro n
  induction n using Nat.strongRecOn with
  | _ n ih =>
    intro s hs
    cases s with
    | nil => cases n <;> rfl
    | cons c s =>
      cases n with
      | zero => simp at hs
      | succ n =>
        simp only [List.length_cons]
        cases h : lexOne (c :: s) with
        | none => simp [lexN, h]
        | some x =>
          obtain ⟨t, r⟩ := x
          have hl := lexOne_lt h
          simp only [List.length_cons] at hl hs
          rw [lexN_step h, lexN_step h, ih n (by omega) r (by omega)]
          by_cases e : s.length = n
          · rw [e, ih n (by omega) r (by omega)]
          · rw [ih s.length (by omega) r (by omega)]

theorem jsLex_nil : jsLex [] = some [] := rfl

theorem jsLex_step {s : Bytes} {t : Option Tok} {r : Bytes} (h : lexOne s = some (t, r)) :
    jsLex s = (jsLex r).map (addTok t) := by
  have hl := lexOne_lt h
  unfold jsLex
  obtain ⟨k, e⟩ : ∃ k, s.length = k + 1 := ⟨s.length - 1, by omega⟩
  rw [e, lexN_step h, lexN_enough k r (by omega)]

theorem jsLex_none {s : Bytes} (h : lexOne s = none) (hs : s ≠ []) : jsLex s = none := by
  cases s with
  | nil => exact absurd rfl hs
  | cons c s => simp [jsLex, lexN, h]

/-! ## input elements -/

/-- `toks` in front of the tokens of the rest -/
def pre (toks : List Tok) (o : Option (List Tok)) : Option (List Tok) := o.map (toks ++ ·)

@[simp] theorem pre_nil (o : Option (List Tok)) : pre [] o = o := by cases o <;> rfl
theorem pre_pre (a b : List Tok) (o : Option (List Tok)) : pre a (pre b o) = pre (a ++ b) o := by
  cases o <;> simp [pre]

theorem lex_tok {s : Bytes} {t : Tok} {r : Bytes} (h : lexOne s = some (some t, r)) : jsLex s = pre [t] (jsLex r) := by
  rw [jsLex_step h]; cases jsLex r <;> rfl

theorem lex_skip {s : Bytes} {r : Bytes} (h : lexOne s = some (none, r)) : jsLex s = jsLex r := by
  rw [jsLex_step h]; cases jsLex r <;> rfl

theorem lex_ws {c : UInt8} (h : isWs c = true) (r : Bytes) : jsLex (c :: r) = jsLex r :=
  lex_skip (by rw [lexOne_cons, if_pos h])

@[simp] theorem lex_sp (r : Bytes) : jsLex (32 :: r) = jsLex r := lex_ws rfl r
@[simp] theorem lex_nl (r : Bytes) : jsLex (10 :: r) = jsLex r := lex_ws rfl r

/-- the punctuators of one character that no other punctuator begins with -/
def single (c : UInt8) : Bool :=
  c == 123 || c == 125 || c == 40 || c == 41 || c == 91 || c == 93 || c == 59 || c == 44 || c == 63 || c == 58

theorem lex_single {c : UInt8} (h : single c = true) (r : Bytes) : jsLex (c :: r) = pre [.p [c]] (jsLex r) := by
  apply lex_tok
  simp only [single, Bool.or_eq_true, beq_iff_eq] at h
  rcases h with ((((((((h | h) | h) | h) | h) | h) | h) | h) | h) | h <;> subst h <;> rfl

@[simp] theorem lex_lparen (r : Bytes) : jsLex (40 :: r) = pre [.p b!"("] (jsLex r) := lex_single rfl r
@[simp] theorem lex_rparen (r : Bytes) : jsLex (41 :: r) = pre [.p b!")"] (jsLex r) := lex_single rfl r
@[simp] theorem lex_lbrack (r : Bytes) : jsLex (91 :: r) = pre [.p b!"["] (jsLex r) := lex_single rfl r
@[simp] theorem lex_rbrack (r : Bytes) : jsLex (93 :: r) = pre [.p b!"]"] (jsLex r) := lex_single rfl r
@[simp] theorem lex_lbrace (r : Bytes) : jsLex (123 :: r) = pre [.p b!"{"] (jsLex r) := lex_single rfl r
@[simp] theorem lex_rbrace (r : Bytes) : jsLex (125 :: r) = pre [.p b!"}"] (jsLex r) := lex_single rfl r
@[simp] theorem lex_semi (r : Bytes) : jsLex (59 :: r) = pre [.p b!";"] (jsLex r) := lex_single rfl r
@[simp] theorem lex_comma (r : Bytes) : jsLex (44 :: r) = pre [.p b!","] (jsLex r) := lex_single rfl r
@[simp] theorem lex_quest (r : Bytes) : jsLex (63 :: r) = pre [.p b!"?"] (jsLex r) := lex_single rfl r
@[simp] theorem lex_colon (r : Bytes) : jsLex (58 :: r) = pre [.p b!":"] (jsLex r) := lex_single rfl r

/-- a punctuator followed by a blank -/
theorem lex_p_sp {p : Bytes} {r : Bytes} (h : lexOne (p ++ 32 :: r) = some (some (.p p), 32 :: r)) :
    jsLex (p ++ 32 :: r) = pre [.p p] (jsLex r) := by
  rw [lex_tok h, lex_sp]

/-! ### identifiers -/

/-- an ASCII IdentifierName -/
def JsIdent (g : Bytes) : Prop := ∃ c r, g = c :: r ∧ isIdStart c = true ∧ ∀ b ∈ r, isIdPart b = true

/-- the text does not go on with an identifier character -/
def Sep1 (rest : Bytes) : Prop := ∀ c r, rest = c :: r → isIdPart c = false

theorem Sep1.nil : Sep1 [] := fun _ _ e => by cases e
theorem sep1_cons {c : UInt8} (h : isIdPart c = false) (r : Bytes) : Sep1 (c :: r) := by
  intro c' r' e; cases e; exact h

theorem takeWhile_sep (p : UInt8 → Bool) : ∀ (a rest : Bytes), (∀ b ∈ a, p b = true) → (∀ c r, rest = c :: r → p c = false) →
    (a ++ rest).takeWhile p = a ∧ (a ++ rest).dropWhile p = rest
  | [], rest, _, hr => by
    cases rest with
    | nil => simp
    | cons c r => simp [hr c r rfl]
  | x :: a, rest, ha, hr => by
    have := takeWhile_sep p a rest (fun b hb => ha b (List.mem_cons_of_mem _ hb)) hr
    simp [ha x (List.mem_cons_self ..), this]

theorem idStart_class {c : UInt8} (h : isIdStart c = true) : isWs c = false ∧ (c == 47) = false := by
  simp only [isIdStart, isWs, Bool.or_eq_true, Bool.and_eq_true, decide_eq_true_eq, beq_iff_eq, Bool.or_eq_false_iff,
    beq_eq_false_iff_ne, ne_eq, UInt8.le_iff_toNat_le, ← UInt8.toNat_inj] at h ⊢
  simp at h ⊢
  omega

theorem lex_ident {g : Bytes} (hg : JsIdent g) {rest : Bytes} (hs : Sep1 rest) :
    jsLex (g ++ rest) = pre [.id g] (jsLex rest) := by
  obtain ⟨c, r, rfl, hc, hr⟩ := hg
  obtain ⟨h1, h2⟩ := idStart_class hc
  obtain ⟨e1, e2⟩ := takeWhile_sep isIdPart r rest hr hs
  apply lex_tok
  rw [List.cons_append, lexOne_cons, h1, h2, hc, e1, e2]
  rfl

/-! ### numbers -/

/-- the text does not go on with an identifier character or a `.` -/
def SepN (rest : Bytes) : Prop := ∀ c r, rest = c :: r → isIdPart c = false ∧ c ≠ 46

theorem SepN.nil : SepN [] := fun _ _ e => by cases e
theorem SepN.sep1 {rest : Bytes} (h : SepN rest) : Sep1 rest := fun c r e => (h c r e).1
theorem sepN_cons {c : UInt8} (h : isIdPart c = false) (h' : c ≠ 46) (r : Bytes) : SepN (c :: r) := by
  intro c' r' e; cases e; exact ⟨h, h'⟩

theorem digit_class {c : UInt8} (h : isDigit c = true) : isWs c = false ∧ (c == 47) = false ∧ isIdStart c = false := by
  simp only [isDigit, isIdStart, isWs, Bool.or_eq_true, Bool.and_eq_true, decide_eq_true_eq, beq_iff_eq, Bool.or_eq_false_iff,
    Bool.and_eq_false_iff, decide_eq_false_iff_not,
    beq_eq_false_iff_ne, ne_eq, UInt8.le_iff_toNat_le, ← UInt8.toNat_inj] at h ⊢
  simp at h ⊢
  omega

theorem lex_nat (n : Nat) {rest : Bytes} (hs : SepN rest) :
    jsLex (F64.natDigits n ++ rest) = pre [.num n] (jsLex rest) := by
  obtain ⟨hne, hall, h0, hval⟩ := SoyVerif.Lemmas.JsonValue.natDigits_shape n
  cases hd : F64.natDigits n with
  | nil => exact absurd hd hne
  | cons c r =>
    rw [hd] at hall h0 hval
    have hc : isDigit c = true := hall c (List.mem_cons_self ..)
    obtain ⟨h1, h2, h3⟩ := digit_class hc
    have hsep : ∀ c' r', rest = c' :: r' → isDigit c' = false := by
      intro c' r' e
      have := (hs c' r' e).1
      simp only [isIdPart, Bool.or_eq_false_iff] at this
      exact this.2
    obtain ⟨e1, e2⟩ := takeWhile_sep isDigit r rest (fun b hb => hall b (List.mem_cons_of_mem _ hb)) hsep
    have hz : (c == 48 && !r.isEmpty) = false := by
      rcases h0 with h0 | h0
      · cases h0; rfl
      · simp only [List.head?_cons, ne_eq, Option.some.injEq] at h0
        simp [h0]
    have ht : rest.head?.any (fun b => isIdStart b || b == 46) = false := by
      cases rest with
      | nil => rfl
      | cons c' r' =>
        obtain ⟨ha, hb⟩ := hs c' r' rfl
        simp only [isIdPart, Bool.or_eq_false_iff] at ha
        simp [ha.1, hb]
    apply lex_tok
    rw [List.cons_append, lexOne_cons, h1, h2, h3, hc, e1, e2, hz, ht]
    simp [hval]

/-! ### string literals -/

theorem strBody_cons (c : UInt8) (r : Bytes) : strBody (c :: r) =
    if c == 39 then some ([], r)
    else if c == 92 then
      match r with
      | [] => none
      | d :: r' => (strBody r').map fun x => (c :: d :: x.1, x.2)
    else (strBody r).map fun x => (c :: x.1, x.2) := by
  cases r <;> rfl

theorem strBody_escaped (rest : Bytes) : ∀ (k : Nat) (body : Bytes), body.length ≤ k → jsQuotesEscapedGo false body = true →
    strBody (body ++ 39 :: rest) = some (body, rest)
  | _, [], _, _ => by simp [strBody_cons]
  | 0, _ :: _, hk, _ => by simp at hk
  | k + 1, c :: r, hk, h => by
    simp only [jsQuotesEscapedGo] at h
    by_cases h92 : c = 92
    · subst h92
      simp only [beq_self_eq_true, if_true] at h
      cases r with
      | nil => simp [jsQuotesEscapedGo] at h
      | cons d r' =>
        simp only [jsQuotesEscapedGo] at h
        simp only [List.length_cons] at hk
        have := strBody_escaped rest k r' (by omega) h
        simp [strBody_cons, this]
    · have hb : (c == 92) = false := by simp [h92]
      simp only [hb, Bool.false_eq_true, if_false, Bool.and_eq_true, bne_iff_ne, ne_eq] at h
      simp only [List.length_cons] at hk
      have := strBody_escaped rest k r (by omega) h.2
      have h39 : (c == 39) = false := by simp [h.1.1]
      simp [strBody_cons, this, h39, hb]

/-- a string literal the escaper wrote -/
theorem lex_str {s : Bytes} (hv : ValidUtf8 s) (rest : Bytes) :
    jsLex (39 :: (Model.jsEscapeFixed s ++ 39 :: rest)) = pre [.str s] (jsLex rest) := by
  have hq := (SoyVerif.Props.C16.jsEscapeFixed_roundtrip_safe Model.isPrint s).2.1
  have hb := strBody_escaped rest _ (Model.jsEscapeFixed s) (Nat.le_refl _) hq
  have hu := SoyVerif.Props.C16.jsEscapeFixed_roundtrip s hv
  apply lex_tok
  rw [lexOne_cons]
  simp only [show isWs 39 = false from rfl, show ((39 : UInt8) == 47) = false from rfl, show isIdStart 39 = false from rfl,
    show isDigit 39 = false from rfl, Bool.false_eq_true, if_false, beq_self_eq_true, if_true, hb, hu, Option.map_some]

/-! ### fixed text -/

/-- an identifier whose end is in sight -/
theorem lex_id_cons {c : UInt8} (hc : isIdStart c = true) (r : Bytes) :
    jsLex (c :: r) = pre [.id (c :: r.takeWhile isIdPart)] (jsLex (r.dropWhile isIdPart)) := by
  obtain ⟨h1, h2⟩ := idStart_class hc
  apply lex_tok
  rw [lexOne_cons, h1, h2, hc]
  rfl

theorem lex_dot_ident {k : Bytes} (hk : JsIdent k) {rest : Bytes} (hs : Sep1 rest) :
    jsLex (46 :: (k ++ rest)) = pre [.p b!".", .id k] (jsLex rest) := by
  obtain ⟨c, r, rfl, hc, hr⟩ := hk
  have hd : isDigit c = false := by
    cases hdc : isDigit c with
    | false => rfl
    | true => have := (digit_class hdc).2.2; rw [hc] at this; cases this
  have : lexOne (46 :: (c :: r ++ rest)) = some (some (.p b!"."), c :: r ++ rest) := by
    rw [lexOne_cons]
    have e : (46 : UInt8) = 46 ∧ ((c :: r ++ rest).head?.any isDigit) = false := ⟨rfl, by simp [hd]⟩
    simp only [show isWs 46 = false from rfl, show ((46 : UInt8) == 47) = false from rfl, show isIdStart 46 = false from rfl,
      show isDigit 46 = false from rfl, show ((46 : UInt8) == 39) = false from rfl, e.2, Bool.and_false,
      Bool.false_eq_true, if_false]
    rfl
  rw [lex_tok this, lex_ident ⟨c, r, rfl, hc, hr⟩ hs, pre_pre]
  rfl

theorem lex_minus_digit {d : UInt8} (hd : isDigit d = true) (r : Bytes) :
    jsLex (45 :: d :: r) = pre [.p b!"-"] (jsLex (d :: r)) := by
  apply lex_tok
  have h1 : d ≠ 45 := by rintro rfl; cases hd
  have h2 : d ≠ 61 := by rintro rfl; cases hd
  rw [lexOne_cons]
  simp [isWs, isIdStart, isDigit, punctLen, h1, h2]

theorem lex_ne_sp (r : Bytes) : jsLex (33 :: 61 :: 32 :: r) = pre [.p b!"!="] (jsLex r) := by rw [lex_tok (t := .p b!"!=") (r := 32 :: r) rfl, lex_sp]
theorem lex_eq_sp (r : Bytes) : jsLex (61 :: 61 :: 32 :: r) = pre [.p b!"=="] (jsLex r) := by rw [lex_tok (t := .p b!"==") (r := 32 :: r) rfl, lex_sp]
theorem lex_set_sp (r : Bytes) : jsLex (61 :: 32 :: r) = pre [.p b!"="] (jsLex r) := by rw [lex_tok (t := .p b!"=") (r := 32 :: r) rfl, lex_sp]
theorem lex_addset_sp (r : Bytes) : jsLex (43 :: 61 :: 32 :: r) = pre [.p b!"+="] (jsLex r) := by rw [lex_tok (t := .p b!"+=") (r := 32 :: r) rfl, lex_sp]
theorem lex_minus_sp (r : Bytes) : jsLex (45 :: 32 :: r) = pre [.p b!"-"] (jsLex r) := by rw [lex_tok (t := .p b!"-") (r := 32 :: r) rfl, lex_sp]
theorem lex_plus_sp (r : Bytes) : jsLex (43 :: 32 :: r) = pre [.p b!"+"] (jsLex r) := by rw [lex_tok (t := .p b!"+") (r := 32 :: r) rfl, lex_sp]
theorem lex_ge_sp (r : Bytes) : jsLex (62 :: 61 :: 32 :: r) = pre [.p b!">="] (jsLex r) := by rw [lex_tok (t := .p b!">=") (r := 32 :: r) rfl, lex_sp]
theorem lex_gt_sp (r : Bytes) : jsLex (62 :: 32 :: r) = pre [.p b!">"] (jsLex r) := by rw [lex_tok (t := .p b!">") (r := 32 :: r) rfl, lex_sp]
theorem lex_lt_sp (r : Bytes) : jsLex (60 :: 32 :: r) = pre [.p b!"<"] (jsLex r) := by rw [lex_tok (t := .p b!"<") (r := 32 :: r) rfl, lex_sp]
theorem lex_or_sp (r : Bytes) : jsLex (124 :: 124 :: 32 :: r) = pre [.p b!"||"] (jsLex r) := by rw [lex_tok (t := .p b!"||") (r := 32 :: r) rfl, lex_sp]
theorem lex_not_lparen (r : Bytes) : jsLex (33 :: 40 :: r) = pre [.p b!"!", .p b!"("] (jsLex r) := by
  rw [lex_tok (t := .p b!"!") (r := 40 :: r) rfl, lex_lparen, pre_pre]; rfl
theorem lex_inc_rparen (r : Bytes) : jsLex (43 :: 43 :: 41 :: r) = pre [.p b!"++", .p b!")"] (jsLex r) := by
  rw [lex_tok (t := .p b!"++") (r := 41 :: r) rfl, lex_rparen, pre_pre]; rfl

end SoyVerif.Lemmas.JsParseLex
