/- Registry.Add never registers a template name twice (helper lemmas of Props/C06.registry_unique_names). -/
import SoyVerif.Model.Registry

namespace SoyVerif.Props.C06
open SoyVerif SoyVerif.Model

theorem nodup_snoc (reg : Registry.Reg) (t : Registry.Tmpl) (hn : (reg.map (·.name)).Nodup)
    (hdup : ¬ (reg.any (fun u => u.name == t.name)) = true) : ((reg ++ [t]).map (·.name)).Nodup := by
  simp only [List.map_append, List.map_cons, List.map_nil]
  rw [List.nodup_append]
  refine ⟨hn, by simp, ?_⟩
  intro a ha b hb
  simp only [List.mem_singleton] at hb
  subst hb
  intro hab
  subst hab
  apply hdup
  simp only [List.any_eq_true, beq_iff_eq]
  obtain ⟨u, hu, hname⟩ := List.mem_map.mp ha
  exact ⟨u, hu, hname⟩

theorem addTemplates_names (fileName text nsName : Bytes) (nsAe : Autoescape) :
    ∀ (cmds : List Cmd) (prev : Option Cmd) (reg reg' : Registry.Reg),
      Registry.addTemplates fileName text nsName nsAe cmds prev reg = some reg' →
      (reg.map (·.name)).Nodup → (reg'.map (·.name)).Nodup := by
  intro cmds
  induction cmds with
  | nil => intro prev reg reg' h hn; simp [Registry.addTemplates] at h; subst h; exact hn
  | cons c rest ih =>
    intro prev reg reg' h hn
    unfold Registry.addTemplates at h
    split at h
    · rename_i pos name bpos cmds' ae pr
      simp only at h
      split at h
      all_goals
        split at h
        · simp at h
        · split at h
          · simp at h
          · rename_i hdup
            exact ih _ _ _ h (nodup_snoc _ _ hn hdup)
    · exact ih _ _ _ h hn
    · exact ih _ _ _ h hn
    · exact ih _ _ _ h hn
    · cases h


end SoyVerif.Props.C06
