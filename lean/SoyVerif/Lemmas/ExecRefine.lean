/-
  Helper lemmas for the refinement of the command interpreter to the lexical semantics
  (Props/C02Spec.lean): output bytes of the chunk discipline, frames as association lists, lookups
  through a scope after `push` and `set`.
-/
import SoyVerif.Props.C01
import SoyVerif.Props.C02

namespace SoyVerif.Refine
open SoyVerif SoyVerif.Model SoyVerif.Model.Eval

theorem bufBytes_write (st : St) (b : Bytes) : bufBytes (write st b).out = bufBytes st.out ++ b := by
  simp [bufBytes, write]

theorem bufBytes_writeAll (cs : List Bytes) : ∀ (st : St), bufBytes (writeAll st cs).out = bufBytes st.out ++ cs.flatten := by
  induction cs with
  | nil => intro st; simp [writeAll]
  | cons c r ih =>
    intro st
    have := ih (write st c)
    simp only [writeAll, List.foldl] at this ⊢
    rw [this, bufBytes_write]
    simp

theorem escChunksGo_flatten : ∀ (s pending : Bytes), (escChunksGo pending s).flatten = pending.reverse ++ htmlEscape s := by
  intro s
  induction s with
  | nil => intro p; simp [escChunksGo, htmlEscape]
  | cons b r ih =>
    intro p
    unfold escChunksGo
    cases h : htmlRepl b with
    | some e => simp [ih, htmlEscape, htmlPiece, h]
    | none => simp [ih, htmlEscape, htmlPiece, h]

theorem escChunks_flatten (s : Bytes) : (escChunks s).flatten = htmlEscape s := by
  simp [escChunks, escChunksGo_flatten]

theorem find_insert (f : Frame) (k : Bytes) (v : Value) (k' : Bytes) :
    Frame.find (Value.insert f k v) k' = if k' == k then some v else Frame.find f k' := by
  induction f with
  | nil =>
    simp only [Value.insert, Frame.find]
    by_cases h : k = k'
    · subst h; simp
    · have h1 : (k == k') = false := by simpa using h
      have h2 : (k' == k) = false := by simpa using fun e => h e.symm
      simp [h1, h2]
  | cons p r ih =>
    obtain ⟨pk, pv⟩ := p
    simp only [Value.insert]
    by_cases hp : pk = k
    · subst hp
      simp only [beq_self_eq_true, if_true, Frame.find]
      by_cases h : pk = k'
      · subst h; simp
      · have h1 : (pk == k') = false := by simpa using h
        have h2 : (k' == pk) = false := by simpa using fun e => h e.symm
        simp [h1, h2]
    · have hp1 : (pk == k) = false := by simpa using hp
      simp only [hp1, Bool.false_eq_true, if_false, Frame.find, ih]
      by_cases h : pk = k'
      · subst h
        have h2 : (pk == k) = false := hp1
        simp [h2]
      · have h1 : (pk == k') = false := by simpa using h
        simp [h1]

theorem heapGet_set : ∀ (h : List Cell) (i : Nat) (k : Bytes) (v : Value) (j : Nat), i < h.length →
    heapGet (heapSet h i k v).1 j = if j = i then Value.insert (heapGet h i) k v else heapGet h j := by
  intro h
  induction h with
  | nil => intro i k v j hi; simp at hi
  | cons c r ih =>
    intro i k v j hi
    cases i with
    | zero =>
      cases j with
      | zero => simp [heapSet, heapGet]
      | succ m => simp [heapSet, heapGet]
    | succ n =>
      have hn : n < r.length := by simpa using hi
      cases j with
      | zero => simp [heapSet, heapGet]
      | succ m =>
        have := ih n k v m hn
        simp only [heapGet, heapSet, List.getElem?_cons_succ, Nat.add_right_cancel_iff] at this ⊢
        exact this

/-- after `set name v` on the top frame every other name reads what it read, `name` reads `v` -/
theorem lookup_set {ctx : Scope} {st st2 : St} {name : Bytes} {v : Value} (hown : Own ctx st)
    (h : set ctx st name v = some st2) (k : Bytes) :
    lookup st2.heap ctx k = if k == name then v else lookup st.heap ctx k := by
  obtain ⟨f, r, c, hctx, hc, _⟩ := hown
  subst hctx
  have hlen : f.ref < st.heap.length := (List.getElem?_eq_some_iff.mp hc).1
  simp only [SoyVerif.Model.Eval.set] at h
  cases hs : heapSet st.heap f.ref name v with
  | mk h' ro =>
    rw [hs] at h
    simp only [Option.some.injEq] at h
    subst h
    have hget : ∀ j, heapGet h' j = if j = f.ref then Value.insert (heapGet st.heap f.ref) name v else heapGet st.heap j := by
      intro j
      have := heapGet_set st.heap f.ref name v j hlen
      rw [hs] at this
      exact this
    -- any scope, any other key
    have other : ∀ (c : Scope), (k == name) = false → lookup h' c k = lookup st.heap c k := by
      intro c hk
      induction c with
      | nil => rfl
      | cons g rest ih =>
        simp only [lookup, hget g.ref]
        by_cases hg : g.ref = f.ref
        · simp only [hg, if_true, find_insert, hk, Bool.false_eq_true, if_false, ih]
        · simp only [hg, if_false, ih]
    by_cases hk : (k == name) = true
    · simp only [hk, if_true, lookup, hget f.ref, find_insert]
    · have hk' : (k == name) = false := by simpa using hk
      simp only [hk', Bool.false_eq_true, if_false]
      exact other (f :: r) hk'

theorem set_out {ctx : Scope} {st st2 : St} {k : Bytes} {v : Value} (h : Eval.set ctx st k v = some st2) : st2.out = st.out := by
  cases ctx with
  | nil => simp [Eval.set] at h
  | cons f r =>
    simp only [Eval.set] at h
    cases hs : heapSet st.heap f.ref k v with
    | mk h' ro => rw [hs] at h; simp only [Option.some.injEq] at h; rw [← h]

/-- a freshly pushed frame binds nothing -/
theorem lookup_push (ctx : Scope) (st : St) (hok : Props.C02.ScopeOk ctx st) (k : Bytes) :
    lookup (push ctx st).2.heap (push ctx st).1 k = lookup st.heap ctx k := by
  obtain ⟨_, _, hext, _⟩ := push_spec ctx st
  have h1 : heapGet (push ctx st).2.heap st.heap.length = [] := by simp [push, heapGet]
  show lookup (push ctx st).2.heap (⟨st.heap.length, false⟩ :: ctx) k = _
  simp only [lookup, h1, Frame.find]
  exact Props.C02.lookup_ext (hext _) ctx hok k

/-- the result of a block whose body ended ok: the scope is popped, the state is the body's -/
theorem walkBlockOf_ok {body : Run} {ctx : Scope} {st : St}
    (hcls : (body (push ctx st).1 (push ctx st).2).cls = .ok)
    (hctx : (body (push ctx st).1 (push ctx st).2).ctx = (push ctx st).1) :
    walkBlockOf body ctx st = ⟨.ok, ctx, (body (push ctx st).1 (push ctx st).2).st⟩ := by
  unfold walkBlockOf
  simp only [hcls, hctx]
  rfl

theorem walkBlockOf_err {body : Run} {ctx : Scope} {st : St}
    (hcls : (body (push ctx st).1 (push ctx st).2).cls = .err) :
    (walkBlockOf body ctx st).cls = .err := by
  unfold walkBlockOf
  simp only [hcls]

/-- lookups through a scope none of whose frames is writable are unchanged -/
theorem lookup_ext_W {W : Nat → Prop} {st st' : St} (e : Ext W st st') :
    ∀ (ctx : Scope), Props.C02.ScopeOk ctx st → (∀ f ∈ ctx, ¬ W f.ref) → ∀ k, lookup st'.heap ctx k = lookup st.heap ctx k := by
  intro ctx
  induction ctx with
  | nil => intro _ _ k; rfl
  | cons f r ih =>
    intro hok hw k
    have hf : f.ref < st.heap.length := hok f List.mem_cons_self
    have hc : st.heap[f.ref]? = some st.heap[f.ref] := List.getElem?_eq_getElem hf
    obtain ⟨c', h1, _, h3⟩ := e.keep f.ref _ hc
    have hg : heapGet st'.heap f.ref = heapGet st.heap f.ref := by
      simp only [heapGet, h1, hc]; exact h3 (hw f List.mem_cons_self)
    simp only [lookup, hg, ih (fun x hx => hok x (List.mem_cons_of_mem _ hx)) (fun x hx => hw x (List.mem_cons_of_mem _ hx)) k]

end SoyVerif.Refine
