/-
  The round trip for every tree: assembly of the steps of Lemmas/ParserRound.lean and
  Lemmas/ParserColl.lean by mutual structural recursion over the syntax, and the statement
  for the entry point `parseExprEntry` (the fuel it uses suffices).
-/
import SoyVerif.Lemmas.ParserColl

set_option linter.unusedSimpArgs false
set_option linter.unusedVariables false
set_option linter.unusedSectionVars false

namespace SoyVerif.Lemmas.ParserRound
open SoyVerif SoyVerif.Model SoyVerif.Model.Parser SoyVerif.Model.PrintTokens SoyVerif.Model.Printer
open SoyVerif.Lemmas.ParserBasic

section
variable (pf : Bytes → Option UInt64) (T : TableOK)
include T

mutual
  theorem bAll : (e : Expr) → BStmt pf e
    | .null p => B_of_FT pf (ft_null pf T p)
    | .bool p b => B_of_FT pf (ft_bool pf T p b)
    | .int p v => B_of_FT pf (ft_int pf T p v)
    | .float p v => B_of_FT pf (ft_float pf T p v)
    | .str p q v => B_of_FT pf (ft_str pf T p q v)
    | .global p n => B_of_FT pf (ft_global pf T p n)
    | .func p n args => B_of_FT pf (ft_func pf T p n (allL args))
    | .list p items => B_of_FT pf (ft_list pf T p (allL items))
    | .map p items => B_of_FT pf (ft_map pf T p (allM items))
    | .dataRef p k acc => B_of_FT pf (ft_dataRef pf T p k (allAcc acc))
    | .not p a => B_of_FT pf (ft_not pf T p (A_of_B pf T (bAll a)))
    | .neg p a => B_of_FT pf (ft_neg pf T p (A_of_B pf T (bAll a)))
    | .bin op p a b => b_bin pf T op p (A_of_B pf T (bAll a)) (A_of_B pf T (bAll b))
    | .tern p c a b => b_tern pf T p (A_of_B pf T (bAll c)) (A_of_B pf T (bAll a)) (A_of_B pf T (bAll b))
  theorem allL : (l : ExprList) → AllA pf l
    | .nil => trivial
    | .cons e r => ⟨A_of_B pf T (bAll e), allL r⟩
  theorem allM : (m : MapItems) → AllM pf m
    | .nil => trivial
    | .cons _ e r => ⟨A_of_B pf T (bAll e), allM r⟩
  theorem allAcc : (l : AccessList) → AllAcc pf l
    | .nil => trivial
    | .cons a r => ⟨accA a, allAcc r⟩
  theorem accA : (a : Access) → AccA pf a
    | .key _ _ _ => trivial
    | .index _ _ _ => trivial
    | .expr _ _ e => A_of_B pf T (bAll e)
end

theorem aAll (e : Expr) : AStmt pf e := A_of_B pf T (bAll pf T e)

/-- fuel independence: every fuel above 8 per token gives the tree -/
theorem parse_slot_fuel (e : Expr) (ts : List Tk) (items : List Item)
    (hS : Slot 0 e (Renders pf e) ts) (hit : items.map Item.tk = ts ++ [tEOF]) (F : Nat) (hF : 8 * ts.length + 1 ≤ F) :
    ∃ e' st2, parseExpr pf F 0 (initState items) = .ok (e', st2) ∧ erase e' = erase e ∧ At1 st2 [tEOF] := by
  have hst : At (initState items) (ts ++ tEOF :: []) := by
    have := at_init items; rw [hit] at this; exact this
  exact slot0 pf T (aAll pf T e) hS (h := tEOF) (Or.inr (Or.inr (Or.inr (Or.inl rfl)))) hst (F := F) (by omega)

/-- the entry point: any rendering of `e` (possibly inside redundant parentheses), with any
    positions, followed by EOF, parses to `e` modulo positions — with the fuel `parseExprEntry` uses -/
theorem parse_slot_entry (e : Expr) (ts : List Tk) (items : List Item)
    (hS : Slot 0 e (Renders pf e) ts) (hit : items.map Item.tk = ts ++ [tEOF]) :
    ∃ e', parseExprEntry pf items = .ok e' ∧ erase e' = erase e := by
  have hlen : items.length = ts.length + 1 := by
    have := congrArg List.length hit; simpa using this
  have hst : At (initState items) (ts ++ tEOF :: []) := by
    have := at_init items; rw [hit] at this; exact this
  obtain ⟨r, st2, h2, he, _⟩ := slot0 pf T (aAll pf T e) hS (h := tEOF) (Or.inr (Or.inr (Or.inr (Or.inl rfl)))) hst
    (F := fuelFor items.length) (by unfold fuelFor; omega)
  refine ⟨r, ?_, he⟩
  unfold parseExprEntry
  show (match parseExpr pf (fuelFor items.length) 0 (initState items) with
    | Except.ok (e, _) => Except.ok e
    | Except.error err => Except.error err) = _
  rw [h2]

/-- the same with ANY terminator as the last item — in particular the Error item with which the
    lexer of `parse.Expr` ends a complete expression ("unclosed tag": expression mode starts inside
    a tag); the parser stops in front of it -/
theorem parse_slot_entry_term (e : Expr) (ts : List Tk) (h : Tk) (items : List Item)
    (hS : Slot 0 e (Renders pf e) ts) (ht : isTerm h.typ) (hit : items.map Item.tk = ts ++ [h]) :
    ∃ e', parseExprEntry pf items = .ok e' ∧ erase e' = erase e := by
  have hlen : items.length = ts.length + 1 := by
    have := congrArg List.length hit; simpa using this
  have hst : At (initState items) (ts ++ h :: []) := by
    have := at_init items; rw [hit] at this; exact this
  obtain ⟨r, st2, h2, he, _⟩ := slot0 pf T (aAll pf T e) hS (h := h) ht hst
    (F := fuelFor items.length) (by unfold fuelFor; omega)
  refine ⟨r, ?_, he⟩
  unfold parseExprEntry
  show (match parseExpr pf (fuelFor items.length) 0 (initState items) with
    | Except.ok (e, _) => Except.ok e
    | Except.error err => Except.error err) = _
  rw [h2]

end
end SoyVerif.Lemmas.ParserRound
