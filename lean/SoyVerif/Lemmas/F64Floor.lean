/-
  `math.Floor` / `math.Ceil` of the soft-float, then Go's `int64(·)`: the integer part is the exact floor /
  ceiling of the value (`Spec.Eval.ratOf`).  Below 2^53 `ofRat s k 1` does not round (`roundRatMag_int`).
-/
import SoyVerif.Lemmas.F64Order
import SoyVerif.Spec.Eval

set_option linter.unusedSimpArgs false
set_option linter.unusedVariables false

namespace SoyVerif.F64
open SoyVerif.Spec.Eval (ratOf)

theorem mag_lt (x : F64) : x.mag < two63 := Nat.mod_lt _ (by decide)

/-- the signed mantissa -/
def smant (x : F64) : Int := if x.sign then -(x.mant : Int) else (x.mant : Int)

theorem ratOf_eq (x : F64) : ratOf x = if 0 ≤ x.exp2 then (x.smant * 2 ^ x.exp2.toNat, 1) else (x.smant, 2 ^ (-x.exp2).toNat) := rfl

theorem truncInt_eq (x : F64) : x.truncInt =
    if 0 ≤ x.exp2 then x.smant * 2 ^ x.exp2.toNat
    else if x.sign then -((x.mant / 2 ^ (-x.exp2).toNat : Nat) : Int) else ((x.mant / 2 ^ (-x.exp2).toNat : Nat) : Int) := by
  unfold truncInt smant
  by_cases h : 0 ≤ x.exp2
  · simp only [h, if_true]
    cases x.sign <;> simp [Int.neg_mul]
  · simp only [h, if_false]

/-- the fields of a value with magnitude bits `m` -/
theorem fields_of_mag (x : F64) (e q : Nat) (hq : q < two52) (hm : x.mag = e * two52 + q) :
    x.expField = e ∧ x.frac = q := by
  unfold expField frac
  rw [hm]
  simp only [two52] at *
  constructor <;> omega

theorem aux_bounds (t q : Nat) (ht : t ≤ 52) (h1 : two52 ≤ q) (h2 : q < 2 * two52) :
    (t + 1022) * two52 + q < two63 ∧ ¬ infMag < (t + 1022) * two52 + q ∧ (t + 1022) * two52 + q ≠ infMag ∧
      (t + 1022) * two52 + q = (t + 1023) * two52 + (q - two52) ∧ q - two52 < two52 ∧ (q - two52) + two52 = q := by
  simp only [two52, two63, infMag] at *
  omega

theorem aux_exp (t : Nat) (ht : t ≤ 52) (hne : t ≠ 52) :
    ¬ (0 ≤ (t : Int) - 52) ∧ (-((t : Int) - 52)).toNat = 52 - t := by omega

theorem aux_exp2 (t : Nat) : ((t + 1023 : Nat) : Int) - 1075 = (t : Int) - 52 := by omega

/-- `float64(±k)` for `k < 2^53` is exact: it is finite and its integer part is `±k` -/
theorem ofRat_nat (s : Bool) (k : Nat) (hk : k < two53) :
    (ofRat s k 1).isNaN = false ∧ (ofRat s k 1).isInf = false ∧
      (ofRat s k 1).truncInt = if s then -(k : Int) else (k : Int) := by
  by_cases h0 : k = 0
  · subst h0
    have hf := make_facts s 0 (by decide)
    have e : ofRat s 0 1 = make s 0 := rfl
    rw [e]
    have hfl := fields_of_mag (make s 0) 0 0 (by decide) (by rw [hf.2]; simp)
    refine ⟨by simp [isNaN, hf.2, infMag], by simp [isInf, hf.2, infMag], ?_⟩
    rw [truncInt_eq]
    have hm : (make s 0).mant = 0 := by simp [mant, hfl.1, hfl.2]
    have he : (make s 0).exp2 = -1074 := by simp [exp2, hfl.1]
    simp only [he, hm, hf.1]
    cases s <;> simp
  · have h1 : 1 ≤ k := by omega
    obtain ⟨h52, hlo, hhi⟩ := log2_facts k h1 hk
    have hM := roundRatMag_int k (Nat.log2 k) rfl h52 hlo hhi
    generalize Nat.log2 k = t at *
    have hP : 2 ^ t * 2 ^ (52 - t) = two52 := by
      rw [← Nat.pow_add]; have : t + (52 - t) = 52 := by omega
      rw [this]; rfl
    have hq_lo : two52 ≤ k * 2 ^ (52 - t) := by rw [← hP]; exact Nat.mul_le_mul_right _ hlo
    have hq_hi : k * 2 ^ (52 - t) < 2 * two52 := by
      have : 2 ^ (t + 1) * 2 ^ (52 - t) = 2 * two52 := by
        rw [Nat.pow_succ, Nat.mul_comm (2 ^ t) 2, Nat.mul_assoc, hP]
      rw [← this]; exact Nat.mul_lt_mul_of_pos_right hhi (Nat.pow_pos (by decide))
    have e : ofRat s k 1 = make s (roundRatMag k 1) := by
      unfold ofRat
      have : (k == 0) = false := by simpa using h0
      simp [this]
    rw [e, hM]
    clear hM e hP hlo hhi
    generalize hq : k * 2 ^ (52 - t) = q at *
    obtain ⟨hlt63, hnan, hinf, hsplit, hfr, hback⟩ := aux_bounds t q h52 hq_lo hq_hi
    have hf := make_facts s ((t + 1022) * two52 + q) hlt63
    have hfl := fields_of_mag (make s ((t + 1022) * two52 + q)) (t + 1023) (q - two52) hfr (by rw [hf.2]; exact hsplit)
    have hne : ((t + 1023 == 0) = false) := by simp
    have hm : (make s ((t + 1022) * two52 + q)).mant = q := by
      simp only [mant, hfl.1, hfl.2, hne, Bool.false_eq_true, if_false]; exact hback
    have he : (make s ((t + 1022) * two52 + q)).exp2 = (t : Int) - 52 := by
      simp only [exp2, hfl.1, hne, Bool.false_eq_true, if_false]; exact aux_exp2 t
    refine ⟨?_, ?_, ?_⟩
    · simp only [isNaN, hf.2, decide_eq_false_iff_not]; exact hnan
    · simp only [isInf, hf.2, beq_eq_false_iff_ne]; exact hinf
    · rw [truncInt_eq]
      simp only [he, hm, hf.1, smant]
      by_cases ht : t = 52
      · subst ht
        simp only [Nat.sub_self, Nat.pow_zero, Nat.mul_one] at hq
        subst hq
        simp
      · obtain ⟨c, hn⟩ := aux_exp t h52 ht
        simp only [c, if_false, hn]
        have : q / 2 ^ (52 - t) = k := by
          rw [← hq]; exact Nat.mul_div_cancel _ (Nat.pow_pos (by decide))
        rw [this]

theorem neg_ediv_ceil (m d : Nat) (hd : 0 < d) : (-(m : Int)) / (d : Int) = -(((m + d - 1) / d : Nat) : Int) := by
  have h1 := Nat.div_add_mod (m + d - 1) d
  have h2 := Nat.mod_lt (m + d - 1) hd
  generalize (m + d - 1) / d = c at *
  generalize (m + d - 1) % d = e at *
  have h1' : (d : Int) * (c : Int) + (e : Int) = (m : Int) + (d : Int) - 1 := by
    have : ((d * c + e : Nat) : Int) = ((m + d - 1 : Nat) : Int) := by rw [h1]
    rw [Int.natCast_add, Int.natCast_mul] at this
    omega
  have := (Int.ediv_emod_unique (a := -(m : Int)) (b := (d : Int)) (q := -(c : Int)) (r := (d : Int) - 1 - (e : Int))
    (by omega)).mpr ⟨by rw [Int.mul_neg]; omega, by omega, by omega⟩
  exact this.1

theorem ceil_ediv (n d : Int) (hd : 0 < d) : -((-n) / d) = if n % d == 0 then n / d else n / d + 1 := by
  have h1 := Int.mul_ediv_add_emod n d
  have h2 := Int.emod_nonneg n (Int.ne_of_gt hd)
  have h3 := Int.emod_lt_of_pos n hd
  generalize n / d = q at *
  generalize n % d = r at *
  by_cases hr : r = 0
  · subst hr
    have := (Int.ediv_emod_unique (a := -n) (b := d) (q := -q) (r := 0) hd).mpr
      ⟨by rw [Int.mul_neg]; omega, by omega, hd⟩
    simp only [beq_self_eq_true, if_true]
    omega
  · have := (Int.ediv_emod_unique (a := -n) (b := d) (q := -q - 1) (r := d - r) hd).mpr
      ⟨by rw [Int.mul_sub, Int.mul_neg, Int.mul_one]; omega, by omega, by omega⟩
    have hb : (r == 0) = false := by simpa using hr
    simp only [hb, Bool.false_eq_true, if_false]
    omega

theorem mant_lt (x : F64) : x.mant < two53 := by
  unfold mant frac
  have := Nat.mod_lt x.mag (show 0 < two52 by decide)
  split <;> simp only [two52, two53] at * <;> omega

theorem mant_pos (x : F64) (hz : x.isZero = false) : 1 ≤ x.mant := by
  have hm : x.mag ≠ 0 := by simpa [isZero] using hz
  unfold mant expField frac
  split
  · rename_i h
    have h' : x.mag / two52 = 0 := by simpa using h
    have : x.mag < two52 := by
      rcases Nat.div_eq_zero_iff.mp h' with h | h
      · simp [two52] at h
      · exact h
    rw [Nat.mod_eq_of_lt this]; omega
  · simp only [two52]; omega

theorem zero_fields (x : F64) (hz : x.isZero = true) : x.mant = 0 ∧ x.exp2 = -1074 := by
  have hm : x.mag = 0 := by simpa [isZero] using hz
  have hfl := fields_of_mag x 0 0 (by decide) (by rw [hm]; simp)
  exact ⟨by simp [mant, hfl.1, hfl.2], by simp [exp2, hfl.1]⟩

/-- `int64(math.Floor(x))`, before the range check: the exact floor of the value -/
theorem floor_trunc (x : F64) (hn : x.isNaN = false) (hi : x.isInf = false) :
    (floor x).isNaN = false ∧ (floor x).isInf = false ∧ (floor x).truncInt = (ratOf x).1 / ((ratOf x).2 : Int) := by
  unfold floor
  simp only [hn, hi, Bool.false_or]
  by_cases hz : x.isZero = true
  · simp only [hz, if_true]
    obtain ⟨hm, he⟩ := zero_fields x hz
    refine ⟨hn, hi, ?_⟩
    rw [truncInt_eq, ratOf_eq]
    simp only [he, hm, smant]
    cases x.sign <;> simp
  · have hz' : x.isZero = false := by simpa using hz
    simp only [hz', Bool.false_eq_true, if_false]
    by_cases he : 0 ≤ x.exp2
    · simp only [he, if_true]
      refine ⟨hn, hi, ?_⟩
      rw [truncInt_eq, ratOf_eq]
      simp [he]
    · simp only [he, if_false]
      have hd : 0 < 2 ^ (-x.exp2).toNat := Nat.pow_pos (by decide)
      have hml := mant_lt x
      rw [ratOf_eq]
      simp only [he, if_false, smant]
      generalize 2 ^ (-x.exp2).toNat = d at *
      cases hs : x.sign
      · simp only [Bool.false_eq_true, if_false]
        have hk : x.mant / d < two53 := Nat.lt_of_le_of_lt (Nat.div_le_self _ _) hml
        obtain ⟨h1, h2, h3⟩ := ofRat_nat false (x.mant / d) hk
        refine ⟨h1, h2, ?_⟩
        rw [h3]
        simp only [Bool.false_eq_true, if_false]
        exact Int.natCast_ediv _ _
      · simp only [if_true]
        have hc : (x.mant + d - 1) / d ≤ x.mant := by
          apply Nat.div_le_of_le_mul
          have hp := mant_pos x hz'
          obtain ⟨k, hk⟩ : ∃ k, x.mant = 1 + k := ⟨x.mant - 1, by omega⟩
          rw [hk, Nat.mul_add, Nat.mul_one]
          have := Nat.le_mul_of_pos_left k hd
          omega
        obtain ⟨h1, h2, h3⟩ := ofRat_nat true ((x.mant + d - 1) / d) (Nat.lt_of_le_of_lt hc hml)
        refine ⟨h1, h2, ?_⟩
        rw [h3, neg_ediv_ceil x.mant d hd]
        simp only [if_true]

theorem neg_fields (x : F64) : (neg x).sign = !x.sign ∧ (neg x).mag = x.mag := make_facts _ _ (mag_lt x)

theorem mag_congr {x y : F64} (h : y.mag = x.mag) :
    y.isNaN = x.isNaN ∧ y.isInf = x.isInf ∧ y.mant = x.mant ∧ y.exp2 = x.exp2 := by
  simp [isNaN, isInf, mant, exp2, expField, frac, h]

theorem truncInt_neg (x : F64) : (neg x).truncInt = -x.truncInt := by
  obtain ⟨hs, hm⟩ := neg_fields x
  obtain ⟨_, _, h3, h4⟩ := mag_congr hm
  rw [truncInt_eq, truncInt_eq]
  simp only [smant, hs, h3, h4]
  cases x.sign <;> simp <;> split <;> simp [Int.neg_mul]

theorem ratOf_neg (x : F64) : ratOf (neg x) = (-(ratOf x).1, (ratOf x).2) := by
  obtain ⟨hs, hm⟩ := neg_fields x
  obtain ⟨_, _, h3, h4⟩ := mag_congr hm
  rw [ratOf_eq, ratOf_eq]
  simp only [smant, hs, h3, h4]
  cases x.sign <;> simp <;> split <;> simp [Int.neg_mul]

/-- `int64(math.Ceil(x))`, before the range check: minus the exact floor of the negated value -/
theorem ceil_trunc (x : F64) (hn : x.isNaN = false) (hi : x.isInf = false) :
    (ceil x).isNaN = false ∧ (ceil x).isInf = false ∧ (ceil x).truncInt = -((-(ratOf x).1) / ((ratOf x).2 : Int)) := by
  obtain ⟨hs, hm⟩ := neg_fields x
  obtain ⟨c1, c2, _, _⟩ := mag_congr hm
  obtain ⟨f1, f2, f3⟩ := floor_trunc (neg x) (by rw [c1, hn]) (by rw [c2, hi])
  obtain ⟨_, hm'⟩ := neg_fields (floor (neg x))
  obtain ⟨d1, d2, _, _⟩ := mag_congr hm'
  unfold ceil
  refine ⟨by rw [d1, f1], by rw [d2, f2], ?_⟩
  rw [truncInt_neg, f3, ratOf_neg]

theorem ratOf_den_pos (x : F64) : 0 < ((ratOf x).2 : Int) := by
  rw [ratOf_eq]
  split
  · show (0 : Int) < ((1 : Nat) : Int); decide
  · exact Int.natCast_pos.mpr (Nat.pow_pos (by decide))

/-- Go's `int64(y)` of a finite `y` whose integer part fits -/
theorem toInt64Trunc_of (y : F64) (r : Int) (h1 : y.isNaN = false) (h2 : y.isInf = false) (h3 : y.truncInt = r)
    (hlo : -(9223372036854775808 : Int) ≤ r) (hhi : r < 9223372036854775808) : (toInt64Trunc y).toInt = r := by
  unfold toInt64Trunc
  simp only [h1, h2, Bool.or_self, Bool.false_eq_true, if_false, h3, two63]
  have : (-((9223372036854775808 : Nat) : Int) ≤ r ∧ r < ((9223372036854775808 : Nat) : Int)) := ⟨by omega, by omega⟩
  rw [if_pos this]
  exact Int64.toInt_ofInt_of_le (by omega) (by omega)

end SoyVerif.F64
