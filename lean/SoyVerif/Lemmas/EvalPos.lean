/-
  Where `s.node` can be after walking a tree: the positions of the nodes the walk visits
  (Props/C19b.lean).  `posE e`, `posCmd c`, … list the positions of the nodes of a tree that `walk`
  visits (`s.at`): expression nodes, command nodes, list nodes (blocks), raw text and html-tag parts of a
  message.  (Access nodes, directive nodes, if-condition / case / param wrappers, placeholder and plural
  nodes are never the current node: the walk goes straight to their children.)
-/
import SoyVerif.Lemmas.EvalGood

namespace SoyVerif.Model.Eval
open SoyVerif SoyVerif.Model

theorem own_mem_posE (e : Expr) : Expr.pos e ∈ posE e := by
  cases e <;> simp [posE, Expr.pos]

mutual
theorem errPosE_mem (env : EEnv) : (e : Expr) → (n : Nat) → errPosE env e n ∈ posE e
  | .null p, n => by simp [errPosE, posE]
  | .bool p _, n => by simp [errPosE, posE]
  | .int p _, n => by simp [errPosE, posE]
  | .float p _, n => by simp [errPosE, posE]
  | .str p _ _, n => by simp [errPosE, posE]
  | .global p _, n => by simp [errPosE, posE]
  | .func p name args, n => by
    rw [errPosE, posE]
    split
    · simp
    · split
      · simp
      · split
        · simp
        · split
          · exact (errPosArgs_mem env args n p).elim (fun h => by rw [h]; simp) (fun h => List.mem_cons_of_mem _ h)
          · simp
  | .list p items, n => by
    rw [errPosE, posE]
    split
    · exact (errPosArgs_mem env items n p).elim (fun h => by rw [h]; simp) (fun h => List.mem_cons_of_mem _ h)
    · simp
  | .map p items, n => by
    rw [errPosE, posE]
    split
    · exact (errPosMap_mem env items n p).elim (fun h => by rw [h]; simp) (fun h => List.mem_cons_of_mem _ h)
    · simp
  | .dataRef p key acc, n => by
    rw [errPosE, posE]
    split
    · split
      · simp
      · exact (errPosAcc_mem env acc _ n p).elim (fun h => by rw [h]; simp) (fun h => List.mem_cons_of_mem _ h)
    · exact (errPosAcc_mem env acc _ n p).elim (fun h => by rw [h]; simp) (fun h => List.mem_cons_of_mem _ h)
  | .not p a, n => by
    rw [errPosE, posE]
    split
    · exact List.mem_cons_of_mem _ (errPosE_mem env a n)
    · simp
  | .neg p a, n => by
    rw [errPosE, posE]
    split
    · exact List.mem_cons_of_mem _ (errPosE_mem env a n)
    · simp
  | .bin op p a b, n => by
    rw [errPosE, posE]
    have hb : ∀ n1, (match evalE env b n1 with | .err => errPosE env b n1 | _ => p) ∈ p :: (posE a ++ posE b) := by
      intro n1
      split
      · exact List.mem_cons_of_mem _ (List.mem_append_right _ (errPosE_mem env b n1))
      · simp
    split
    · exact List.mem_cons_of_mem _ (List.mem_append_left _ (errPosE_mem env a n))
    · rename_i va n1 _
      cases op <;> simp only <;> first | exact hb n1 | (split <;> first | exact hb n1 | simp)
  | .tern p c a b, n => by
    rw [errPosE, posE]
    split
    · exact List.mem_cons_of_mem _ (List.mem_append_left _ (errPosE_mem env c n))
    · rename_i vc n1 _
      split
      · split
        · exact List.mem_cons_of_mem _ (List.mem_append_right _ (List.mem_append_left _ (errPosE_mem env a n1)))
        · simp
      · split
        · exact List.mem_cons_of_mem _ (List.mem_append_right _ (List.mem_append_right _ (errPosE_mem env b n1)))
        · simp
theorem errPosArgs_mem (env : EEnv) : (es : ExprList) → (n own : Nat) → errPosArgs env es n own = own ∨ errPosArgs env es n own ∈ posEs es
  | .nil, n, own => by simp [errPosArgs]
  | .cons e r, n, own => by
    rw [errPosArgs, posEs]
    split
    · exact Or.inr (List.mem_append_left _ (errPosE_mem env e n))
    · rename_i n1 _
      exact (errPosArgs_mem env r n1 own).elim Or.inl (fun h => Or.inr (List.mem_append_right _ h))
theorem errPosMap_mem (env : EEnv) : (es : MapItems) → (n own : Nat) → errPosMap env es n own = own ∨ errPosMap env es n own ∈ posM es
  | .nil, n, own => by simp [errPosMap]
  | .cons _ e r, n, own => by
    rw [errPosMap, posM]
    split
    · exact Or.inr (List.mem_append_left _ (errPosE_mem env e n))
    · rename_i n1 _
      exact (errPosMap_mem env r n1 own).elim Or.inl (fun h => Or.inr (List.mem_append_right _ h))
theorem errPosAcc_mem (env : EEnv) : (acc : AccessList) → (ref : Value) → (n own : Nat) →
    errPosAcc env acc ref n own = own ∨ errPosAcc env acc ref n own ∈ posA acc
  | .nil, ref, n, own => by simp [errPosAcc]
  | .cons (.key _ ns k) rest, ref, n, own => by
    rw [errPosAcc, posA]
    split
    · exact errPosAcc_mem env rest _ n own
    · exact Or.inl rfl
  | .cons (.index _ ns i) rest, ref, n, own => by
    rw [errPosAcc, posA]
    split
    · exact errPosAcc_mem env rest _ n own
    · exact Or.inl rfl
  | .cons (.expr _ ns e) rest, ref, n, own => by
    rw [errPosAcc, posA]
    split
    · exact Or.inr (List.mem_append_left _ (errPosE_mem env e n))
    · split
      · exact (errPosAcc_mem env rest _ _ own).elim Or.inl (fun h => Or.inr (List.mem_append_right _ h))
      · exact Or.inl rfl
    · split
      · exact Or.inl rfl
      · split
        · exact (errPosAcc_mem env rest _ _ own).elim Or.inl (fun h => Or.inr (List.mem_append_right _ h))
        · exact Or.inl rfl
end

end SoyVerif.Model.Eval

namespace SoyVerif.Model.Eval
open SoyVerif SoyVerif.Model

theorem cmdPos_mem : (c : Cmd) → cmdPos c ∈ posCmd c
  | .rawText _ _ => by rw [cmdPos, posCmd]; exact List.mem_cons_self
  | .print _ _ _ => by rw [cmdPos, posCmd]; exact List.mem_cons_self
  | .msg _ _ _ _ _ _ => by rw [cmdPos, posCmd]; exact List.mem_cons_self
  | .css _ _ _ => by rw [cmdPos, posCmd]; exact List.mem_cons_self
  | .debugger _ => by rw [cmdPos, posCmd]; exact List.mem_cons_self
  | .log _ _ => by rw [cmdPos, posCmd]; exact List.mem_cons_self
  | .ifc _ _ => by rw [cmdPos, posCmd]; exact List.mem_cons_self
  | .forc _ _ _ _ none => by rw [cmdPos, posCmd]; exact List.mem_cons_self
  | .forc _ _ _ _ (some _) => by rw [cmdPos, posCmd]; exact List.mem_cons_self
  | .switch _ _ _ => by rw [cmdPos, posCmd]; exact List.mem_cons_self
  | .call _ _ _ _ _ => by rw [cmdPos, posCmd]; exact List.mem_cons_self
  | .letValue _ _ _ => by rw [cmdPos, posCmd]; exact List.mem_cons_self
  | .letContent _ _ _ => by rw [cmdPos, posCmd]; exact List.mem_cons_self
  | .headerParam _ _ _ _ _ _ => by rw [cmdPos, posCmd]; exact List.mem_cons_self
  | .namespace _ _ _ => by rw [cmdPos, posCmd]; exact List.mem_cons_self
  | .template _ _ _ _ _ => by rw [cmdPos, posCmd]; exact List.mem_cons_self
  | .soyDoc _ _ => by rw [cmdPos, posCmd]; exact List.mem_cons_self

/-- every position of the list satisfies `S` -/
def Sub (S : Nat → Prop) (l : List Nat) : Prop := ∀ p ∈ l, S p

theorem Sub.head {S : Nat → Prop} {a : Nat} {l : List Nat} (h : Sub S (a :: l)) : S a := h a List.mem_cons_self
theorem Sub.tail {S : Nat → Prop} {a : Nat} {l : List Nat} (h : Sub S (a :: l)) : Sub S l :=
  fun p hp => h p (List.mem_cons_of_mem _ hp)
theorem Sub.left {S : Nat → Prop} {a b : List Nat} (h : Sub S (a ++ b)) : Sub S a :=
  fun p hp => h p (List.mem_append_left _ hp)
theorem Sub.right {S : Nat → Prop} {a b : List Nat} (h : Sub S (a ++ b)) : Sub S b :=
  fun p hp => h p (List.mem_append_right _ hp)

/-- after the run, `s.node` is where it was or at a position in `S` -/
def Tracks (S : Nat → Prop) (run : Run) : Prop :=
  ∀ ctx st, (run ctx st).st.node = st.node ∨ S (run ctx st).st.node

/-- the same for a state reached from `st0` -/
def Step (S : Nat → Prop) (st0 st : St) : Prop := st.node = st0.node ∨ S st.node

theorem Step.refl (S : Nat → Prop) (st : St) : Step S st st := Or.inl rfl
theorem Step.trans {S : Nat → Prop} {a b c : St} (h1 : Step S a b) (h2 : Step S b c) : Step S a c := by
  rcases h2 with h | h
  · rcases h1 with h' | h'
    · exact Or.inl (by rw [h, h'])
    · exact Or.inr (by rw [h]; exact h')
  · exact Or.inr h
theorem Step.of_node {S : Nat → Prop} {a b : St} (h : b.node = a.node) : Step S a b := Or.inl h
theorem Step.at {S : Nat → Prop} {a : St} {p : Nat} (h : S p) : Step S a (atNode a p) := Or.inr h

theorem evalIn_node {g : GEnv} {e : Expr} {ctx : Scope} {st st1 : St} {v : Value}
    (h : evalIn g e ctx st = some (v, st1)) : st1.node = st.node := by
  unfold evalIn at h
  split at h
  · simp only [Option.some.injEq, Prod.mk.injEq] at h; obtain ⟨_, rfl⟩ := h; rfl
  · simp at h

theorem evalInPos_mem (g : GEnv) (e : Expr) (ctx : Scope) (st : St) : evalInPos g e ctx st ∈ posE e :=
  errPosE_mem _ e _

theorem set_node {ctx : Scope} {st st2 : St} {k : Bytes} {v : Value} (h : set ctx st k v = some st2) : st2.node = st.node := by
  cases ctx with
  | nil => simp [set] at h
  | cons f r =>
    simp only [set] at h
    cases hs : heapSet st.heap f.ref k v with
    | mk h' ro => rw [hs] at h; simp only [Option.some.injEq] at h; rw [← h]

theorem evalList_node {g : GEnv} {ctx : Scope} : ∀ (es : List Expr) (st st1 : St) (vs : List Value),
    evalList g ctx es st = some (vs, st1) → st1.node = st.node := by
  intro es
  induction es with
  | nil => intro st st1 vs h; simp [evalList] at h; obtain ⟨_, rfl⟩ := h; rfl
  | cons e r ih =>
    intro st st1 vs h
    unfold evalList at h
    split at h
    · rename_i v sta he
      split at h
      · rename_i vs' stb hr
        simp only [Option.some.injEq, Prod.mk.injEq] at h
        obtain ⟨_, rfl⟩ := h
        rw [ih _ _ _ hr, evalIn_node he]
      · simp at h
    · simp at h

theorem evalListPos_step {g : GEnv} {ctx : Scope} {S : Nat → Prop} : ∀ (es : List Expr) (st : St), Sub S (posList es) →
    evalListPos g ctx es st = st.node ∨ S (evalListPos g ctx es st) := by
  intro es
  induction es with
  | nil => intro st _; exact Or.inl rfl
  | cons e r ih =>
    intro st hs
    unfold evalListPos
    split
    · rename_i st1 he
      rcases ih st1 hs.right with h | h
      · exact Or.inl (by rw [h, evalIn_node he])
      · exact Or.inr h
    · exact Or.inr (hs.left _ (evalInPos_mem g e ctx st))

theorem runDirectives_node {g : GEnv} {ctx : Scope} :
    ∀ (ds : List Directive) (v : Value) (esc : Bool) (st : St) (v' : Value) (esc' : Bool) (st1 : St),
      runDirectives g ctx ds v esc st = some (v', esc', st1) → st1.node = st.node := by
  intro ds
  induction ds with
  | nil => intro v esc st v' esc' st1 h; simp [runDirectives] at h; obtain ⟨_, _, rfl⟩ := h; rfl
  | cons d r ih =>
    intro v esc st v' esc' st1 h
    unfold runDirectives at h
    split at h
    · simp at h
    · split at h
      · simp at h
      · split at h
        · simp at h
        · rename_i args sta hl
          split at h
          · simp at h
          · rw [ih _ _ _ _ _ _ h, evalList_node _ _ _ _ hl]

theorem runDirectivesPos_step {g : GEnv} {ctx : Scope} {S : Nat → Prop} :
    ∀ (ds : List Directive) (v : Value) (esc : Bool) (st : St), Sub S (posDirs ds) →
      runDirectivesPos g ctx ds v esc st = st.node ∨ S (runDirectivesPos g ctx ds v esc st) := by
  intro ds
  induction ds with
  | nil => intro v esc st _; exact Or.inl rfl
  | cons d r ih =>
    intro v esc st hs
    unfold runDirectivesPos
    split
    · exact Or.inl rfl
    · split
      · exact Or.inl rfl
      · split
        · exact evalListPos_step _ _ hs.left
        · rename_i args st1 hl
          split
          · exact Or.inl rfl
          · rcases ih _ _ st1 hs.right with h | h
            · exact Or.inl (by rw [h, evalList_node _ _ _ _ hl])
            · exact Or.inr h

theorem matchCase_node {g : GEnv} {ctx : Scope} {sv : Value} :
    ∀ (es : List Expr) (st st1 : St) (b : Bool), matchCase g ctx sv es st = some (b, st1) → st1.node = st.node := by
  intro es
  induction es with
  | nil => intro st st1 b h; simp [matchCase] at h; obtain ⟨_, rfl⟩ := h; rfl
  | cons e r ih =>
    intro st st1 b h
    unfold matchCase at h
    split at h
    · simp at h
    · rename_i v sta he
      split at h
      · simp only [Option.some.injEq, Prod.mk.injEq] at h
        obtain ⟨_, rfl⟩ := h
        exact evalIn_node he
      · rw [ih _ _ _ h, evalIn_node he]

theorem matchCasePos_step {g : GEnv} {ctx : Scope} {sv : Value} {S : Nat → Prop} : ∀ (es : List Expr) (st : St),
    Sub S (posList es) → matchCasePos g ctx sv es st = st.node ∨ S (matchCasePos g ctx sv es st) := by
  intro es
  induction es with
  | nil => intro st _; exact Or.inl rfl
  | cons e r ih =>
    intro st hs
    unfold matchCasePos
    split
    · exact Or.inr (hs.left _ (evalInPos_mem g e ctx st))
    · rename_i v st1 he
      split
      · exact Or.inl (evalIn_node he)
      · rcases ih st1 hs.right with h | h
        · exact Or.inl (by rw [h, evalIn_node he])
        · exact Or.inr h

theorem writeAll_node (st : St) (cs : List Bytes) : (writeAll st cs).node = st.node := by
  induction cs generalizing st with
  | nil => rfl
  | cons c r ih =>
    have := ih (write st c)
    simp only [writeAll, List.foldl] at this ⊢
    exact this

end SoyVerif.Model.Eval

namespace SoyVerif.Model.Eval
open SoyVerif SoyVerif.Model

theorem Tracks.at {S : Nat → Prop} {run : Run} (h : Tracks S run) (ctx : Scope) (st : St) (p : Nat) (hp : S p) :
    Step S st (run ctx (atNode st p)).st :=
  (Step.at hp).trans (h ctx (atNode st p))

theorem walkBlockOf_tracks {S : Nat → Prop} {body : Run} (h : Tracks S body) : Tracks S (walkBlockOf body) := by
  intro ctx st
  unfold walkBlockOf
  have hb := h (push ctx st).1 (push ctx st).2
  have hn : (push ctx st).2.node = st.node := rfl
  simp only
  split
  · split <;> (simp only; rw [← hn]; exact hb)
  · rw [← hn]; exact hb

theorem renderBlockOf_tracks {S : Nat → Prop} {body : Run} (h : Tracks S body) (ctx : Scope) (st : St) :
    Step S st (renderBlockOf body ctx st).1.st := by
  unfold renderBlockOf
  simp only [restoreNode]
  split
  · exact Or.inl rfl
  · exact walkBlockOf_tracks h ctx { st with out := [] }

theorem forLoop_tracks {S : Nat → Prop} {body : Run} (h : Tracks S body) (var : Bytes) (last : Int) :
    ∀ (xs : List Value) (i : Nat), Tracks S (forLoop body var last xs i) := by
  intro xs
  induction xs with
  | nil => intro i ctx st; unfold forLoop; exact Or.inl rfl
  | cons x rest ih =>
    intro i ctx st
    unfold forLoop
    have hn : (push ctx st).2.node = st.node := rfl
    simp only
    split
    · exact Or.inl rfl
    · rename_i st2 h2
      split
      · exact Or.inl (by show st2.node = st.node; rw [set_node h2]; rfl)
      · rename_i st3 h3
        split
        · exact Or.inl (by show st3.node = st.node; rw [set_node h3, set_node h2]; rfl)
        · rename_i st4 h4
          have e4 : st4.node = st.node := by rw [set_node h4, set_node h3, set_node h2]; rfl
          have hb : Step S st (body (push ctx st).1 st4).st := (Step.of_node e4).trans (h _ st4)
          split
          · split
            · exact hb
            · exact hb.trans (ih _ _ _)
          · exact hb

theorem posDirs_append (a b : List Directive) : posDirs (a ++ b) = posDirs a ++ posDirs b := by
  induction a with
  | nil => rfl
  | cons d r ih => simp [posDirs, ih]

theorem posDirs_oblig (pos : Nat) (names : List Bytes) : posDirs (obligDirs pos names) = [] := by
  induction names with
  | nil => rfl
  | cons n r ih =>
    have : obligDirs pos (n :: r) = { pos := pos, name := n, args := [] } :: obligDirs pos r := rfl
    rw [this, posDirs, ih]; rfl

theorem evalPrintAt_tracks {S : Nat → Prop} (g : GEnv) (esc : Bool) (pos : Nat) (arg : Expr) (dirs : List Directive)
    (ha : Sub S (posE arg)) (hd : Sub S (posDirs dirs)) : Tracks S (evalPrintAt g esc pos arg dirs) := by
  intro ctx st
  unfold evalPrintAt
  split
  · exact Or.inr (ha _ (evalInPos_mem g arg ctx st))
  · rename_i st1 he; exact Or.inl (evalIn_node he)
  · rename_i v st1 _ he
    have e1 := evalIn_node he
    split
    · have hd' : Sub S (posDirs (dirs ++ obligDirs pos g.oblig)) := by
        rw [posDirs_append, posDirs_oblig, List.append_nil]; exact hd
      rcases runDirectivesPos_step (g := g) (ctx := ctx) _ v esc st1 hd' with h | h
      · exact Or.inl (by show _ = st.node; rw [← e1]; exact h)
      · exact Or.inr h
    · rename_i r esc' st2 hdd
      have e2 : st2.node = st.node := by rw [runDirectives_node _ _ _ _ _ _ _ hdd, e1]
      split
      · exact Or.inl e2
      · split
        · exact Or.inl (by rw [writeAll_node]; exact e2)
        · exact Or.inl e2

theorem evalPrint_tracks {S : Nat → Prop} (g : GEnv) (esc : Bool) (pos : Nat) (arg : Expr) (dirs : List Directive)
    (ha : Sub S (posE arg)) (hd : Sub S (posDirs dirs)) : Tracks S (evalPrint g esc pos arg dirs) := by
  intro ctx st
  unfold evalPrint
  exact (evalPrintAt_tracks g esc pos arg dirs ha hd).at ctx st _ (ha _ (own_mem_posE arg))

theorem findPlural_sub {S : Nat → Prop} : ∀ (body : MsgParts) (vn : Bytes) (ve : Expr),
    findPlural body vn = some ve → Sub S (posParts body) → Sub S (posE ve)
  | .nil, _, _, h, _ => by simp [findPlural] at h
  | .text _ _ r, vn, ve, h, hs => by
    rw [findPlural] at h; rw [posParts] at hs; exact findPlural_sub r vn ve h hs.tail
  | .ph _ _ _ r, vn, ve, h, hs => by
    rw [findPlural] at h; rw [posParts] at hs; exact findPlural_sub r vn ve h hs.right
  | .plural _ vn' v _ _ _ r, vn, ve, h, hs => by
    rw [findPlural] at h; rw [posParts] at hs
    split at h
    · simp only [Option.some.injEq] at h; subst h; exact hs.left
    · exact findPlural_sub r vn ve h hs.right.right.right

section
variable {S : Nat → Prop} (g : GEnv) (phs : List (Nat × Bytes × Run)) (body : MsgParts)
  (hphs : ∀ e ∈ phs, Tracks S e.2.2) (hbody : Sub S (posParts body))
include hphs hbody

mutual
theorem evalMParts_tracks : (parts : MParts) → Tracks S (evalMParts g phs body parts)
  | .nil => by intro ctx st; unfold evalMParts; exact Or.inl rfl
  | .cons (.raw t) rest => by
    intro ctx st
    unfold evalMParts
    exact (Step.of_node (S := S) (a := st) (b := write st t) rfl).trans (evalMParts_tracks rest ctx _)
  | .cons (.ph name) rest => by
    intro ctx st
    unfold evalMParts
    split
    · exact Or.inl rfl
    · rename_i run hp
      have hrun : Tracks S run := by
        rcases pickPh_mem name phs none run hp with ⟨e, he, her⟩ | ⟨d, hd⟩
        · rw [← her]; exact hphs e he
        · simp at hd
      simp only
      split
      · exact Step.trans (hrun ctx st) (evalMParts_tracks rest _ _)
      · exact hrun ctx st
  | .cons (.plural vn cases) rest => by
    intro ctx st
    unfold evalMParts
    split
    · exact Or.inl rfl
    · rename_i ve hve
      split
      · rename_i i st1 he
        have e1 : Step S st st1 := Step.of_node (evalIn_node he)
        split
        · exact e1
        · simp only
          split
          · exact e1
          · rename_i b _ _
            have hc := evalMCases_tracks cases (b.pluralCase i.toInt).toNat ctx st1
            split
            · exact (e1.trans hc).trans (evalMParts_tracks rest _ _)
            · exact e1.trans hc
      · rename_i st1 he; exact Or.inl (evalIn_node he)
      · exact Or.inr (findPlural_sub body vn ve hve hbody _ (evalInPos_mem g ve ctx st))
theorem evalMCases_tracks : (cases : MCases) → (i : Nat) → Tracks S (evalMCases g phs body cases i)
  | .nil, _ => by intro ctx st; unfold evalMCases; exact Or.inl rfl
  | .cons parts _, 0 => by intro ctx st; unfold evalMCases; exact evalMParts_tracks parts ctx st
  | .cons _ rest, i + 1 => by intro ctx st; unfold evalMCases; exact evalMCases_tracks rest i ctx st
end
end

end SoyVerif.Model.Eval

namespace SoyVerif.Model.Eval
open SoyVerif SoyVerif.Model

theorem callDataPos_step {S : Nat → Prop} (g : GEnv) (allData : Bool) (data : Option Expr) (ctx : Scope) (st : St)
    (hs : Sub S (posOpt data)) : callDataPos g allData data ctx st = st.node ∨ S (callDataPos g allData data ctx st) := by
  unfold callDataPos
  split
  · exact Or.inl rfl
  · split
    · rename_i e
      split
      · exact Or.inr (hs _ (evalInPos_mem g e ctx st))
      · exact Or.inl rfl
    · exact Or.inl rfl

theorem callData_node {g : GEnv} {allData : Bool} {data : Option Expr} {ctx cd : Scope} {st st1 : St}
    (h : callData g allData data ctx st = some (cd, st1)) : st1.node = st.node := by
  unfold callData at h
  split at h
  · split at h
    · simp at h
    · simp only [push, Option.some.injEq, Prod.mk.injEq] at h; rw [← h.2]
  · split at h
    · split at h
      · rename_i id kvs sta he
        simp only [newScope, push, Option.some.injEq, Prod.mk.injEq] at h
        rw [← h.2]; show sta.node = st.node; exact evalIn_node he
      · simp at h
    · simp only [newScope, Option.some.injEq, Prod.mk.injEq] at h; rw [← h.2]

theorem enter_node {cd cctx : Scope} {s s2 : St} (h : enter cd s = some (cctx, s2)) : s2.node = s.node := by
  cases cd with
  | nil => simp [enter] at h
  | cons f r => simp only [enter, push, Option.some.injEq, Prod.mk.injEq] at h; rw [← h.2]

section
variable {S : Nat → Prop} (g : GEnv) (esc : Bool) (call : Registry.Tmpl → Run)

mutual
theorem execCmd_tracks : (c : Cmd) → Sub S (posCmd c) → Tracks S (execCmd g esc call c)
  | .rawText _ _, _ => by intro ctx st; rw [execCmd]; exact Or.inl rfl
  | .print pos arg dirs, hs => by
    intro ctx st
    rw [execCmd]
    rw [posCmd] at hs
    exact evalPrint_tracks g esc pos arg dirs hs.tail.left hs.tail.right ctx st
  | .msg _ id _ _ _ body, hs => by
    rw [posCmd] at hs
    intro ctx st
    rw [execCmd]
    refine walkBlockOf_tracks ?_ ctx st
    intro ctx1 st1
    simp only
    split
    · exact walkMsgBody_tracks body hs.tail ctx1 st1
    · split
      · exact walkMsgBody_tracks body hs.tail ctx1 st1
      · exact evalMParts_tracks g _ body (phAll_tracks body 0 hs.tail) hs.tail _ ctx1 st1
  | .css _ none _, _ => by intro ctx st; rw [execCmd]; exact Or.inl rfl
  | .css _ (some e) _, hs => by
    rw [posCmd, posOpt] at hs
    intro ctx st
    rw [execCmd]
    split
    · exact Or.inr (hs.tail _ (evalInPos_mem g e ctx st))
    · rename_i v st1 he
      split
      · exact Or.inl (evalIn_node he)
      · exact Or.inl (by show st1.node = st.node; exact evalIn_node he)
  | .debugger _, _ => by intro ctx st; rw [execCmd]; exact Or.inl rfl
  | .log _ body, hs => by
    rw [posCmd] at hs
    intro ctx st
    rw [execCmd]
    exact renderBlockOf_tracks (execBody_tracks body hs.tail) ctx st
  | .ifc _ conds, hs => by
    rw [posCmd] at hs
    intro ctx st; rw [execCmd]; exact execConds_tracks conds hs.tail ctx st
  | .forc _ var list body none, hs => by
    rw [posCmd] at hs
    intro ctx st
    rw [execCmd]
    split
    · rename_i id xs st1 he
      have e1 : Step S st st1 := Step.of_node (evalIn_node he)
      split
      · exact e1
      · exact e1.trans (forLoop_tracks (execBody_tracks body hs.tail.right.left) var _ xs 0 ctx st1)
    · rename_i st1 he; exact Or.inl (evalIn_node he)
    · exact Or.inr (hs.tail.left _ (evalInPos_mem g list ctx st))
  | .forc _ var list body (some b), hs => by
    rw [posCmd] at hs
    intro ctx st
    rw [execCmd]
    split
    · rename_i id xs st1 he
      have e1 : Step S st st1 := Step.of_node (evalIn_node he)
      split
      · exact e1.trans (walkBlockOf_tracks (execBody_tracks b hs.tail.right.right) ctx st1)
      · exact e1.trans (forLoop_tracks (execBody_tracks body hs.tail.right.left) var _ xs 0 ctx st1)
    · rename_i st1 he; exact Or.inl (evalIn_node he)
    · exact Or.inr (hs.tail.left _ (evalInPos_mem g list ctx st))
  | .switch _ value cases, hs => by
    rw [posCmd] at hs
    intro ctx st
    rw [execCmd]
    split
    · exact Or.inr (hs.tail.left _ (evalInPos_mem g value ctx st))
    · rename_i sv st1 he
      exact (Step.of_node (evalIn_node he)).trans (execCases_tracks cases none (fun _ h => by cases h) sv hs.tail.right ctx st1)
  | .call _ name allData data params, hs => by
    rw [posCmd] at hs
    intro ctx st
    rw [execCmd]
    split
    · exact Or.inl rfl
    · split
      · have hn : (noteImpossible allData ctx st).node = st.node := by unfold noteImpossible; split <;> rfl
        show _ = st.node ∨ _
        exact callDataPos_step g allData data ctx st hs.tail.left
      · rename_i cd st1 hcd
        have e1 : Step S st st1 := Step.of_node (callData_node hcd)
        have hp := execParams_tracks params hs.tail.right cd ctx st1
        simp only
        split
        · split
          · exact e1.trans hp
          · -- whatever the callee did to ITS state's node: the caller's is where it was
            exact e1.trans hp
        · exact e1.trans hp
  | .letValue _ name e, hs => by
    rw [posCmd] at hs
    intro ctx st
    rw [execCmd]
    split
    · exact Or.inr (hs.tail _ (evalInPos_mem g e ctx st))
    · rename_i v st1 he
      split
      · exact Or.inl (evalIn_node he)
      · rename_i st2 h2; exact Or.inl (by rw [set_node h2, evalIn_node he])
  | .letContent _ name body, hs => by
    rw [posCmd] at hs
    intro ctx st
    rw [execCmd]
    have hb := renderBlockOf_tracks (execBody_tracks body hs.tail) ctx st
    split
    · split
      · exact hb
      · rename_i st2 h2
        exact hb.trans (Step.of_node (set_node h2))
    · exact hb
  | .headerParam _ _ _ _ _ _, _ => by intro ctx st; rw [execCmd]; exact Or.inl rfl
  | .namespace _ _ _, _ => by intro ctx st; rw [execCmd]; exact Or.inl rfl
  | .template _ _ _ _ _, _ => by intro ctx st; rw [execCmd]; exact Or.inl rfl
  | .soyDoc _ _, _ => by intro ctx st; rw [execCmd]; exact Or.inl rfl
theorem execBody_tracks : (b : Block) → Sub S (posBlock b) → Tracks S (execBody g esc call b)
  | .mk p cmds, hs => by
    rw [posBlock] at hs
    intro ctx st
    rw [execBody]
    exact (execCmds_tracks cmds hs.tail).at ctx st p hs.head
theorem execCmds_tracks : (cs : CmdList) → Sub S (posCmds cs) → Tracks S (execCmds g esc call cs)
  | .nil, _ => by intro ctx st; rw [execCmds]; exact Or.inl rfl
  | .cons c rest, hs => by
    rw [posCmds] at hs
    intro ctx st
    rw [execCmds]
    have h1 := (execCmd_tracks c hs.left).at ctx st (cmdPos c) (hs.left _ (cmdPos_mem c))
    split
    · exact h1.trans (execCmds_tracks rest hs.right _ _)
    · exact h1
theorem execConds_tracks : (cs : CondList) → Sub S (posConds cs) → Tracks S (execConds g esc call cs)
  | .nil, _ => by intro ctx st; rw [execConds]; exact Or.inl rfl
  | .cons _ none body _, hs => by
    rw [posConds, posOpt] at hs
    intro ctx st; rw [execConds]; exact walkBlockOf_tracks (execBody_tracks body hs.right.left) ctx st
  | .cons _ (some c) body rest, hs => by
    rw [posConds, posOpt] at hs
    intro ctx st
    rw [execConds]
    split
    · exact Or.inr (hs.left _ (evalInPos_mem g c ctx st))
    · rename_i v st1 he
      have e1 : Step S st st1 := Step.of_node (evalIn_node he)
      split
      · exact e1.trans (walkBlockOf_tracks (execBody_tracks body hs.right.left) ctx st1)
      · exact e1.trans (execConds_tracks rest hs.right.right ctx st1)
theorem execCases_tracks : (cs : CaseList) → (dflt : Option Run) → (∀ d, dflt = some d → Tracks S d) → (sv : Value) →
    Sub S (posCases cs) → Tracks S (execCases g esc call cs dflt sv)
  | .nil, dflt, hd, _, _ => by
    intro ctx st; rw [execCases]
    cases dflt with
    | none => exact Or.inl rfl
    | some d => exact hd d rfl ctx st
  | .cons _ values body rest, dflt, hd, sv, hs => by
    rw [posCases] at hs
    intro ctx st
    rw [execCases]
    split
    · exact matchCasePos_step values st hs.left
    · rename_i st1 hm
      exact (Step.of_node (matchCase_node _ _ _ _ hm)).trans (walkBlockOf_tracks (execBody_tracks body hs.right.left) ctx st1)
    · rename_i st1 hm
      have e1 : Step S st st1 := Step.of_node (matchCase_node _ _ _ _ hm)
      exact e1.trans (execCases_tracks rest _
        (pickDefault_all (P := Tracks S) (walkBlockOf_tracks (execBody_tracks body hs.right.left)) hd) sv hs.right.right ctx st1)
theorem execParams_tracks : (ps : ParamList) → Sub S (posParams ps) → (cd : Scope) → Tracks S (execParams g esc call ps cd)
  | .nil, _, _ => by intro ctx st; rw [execParams]; exact Or.inl rfl
  | .value _ key e rest, hs, cd => by
    rw [posParams] at hs
    intro ctx st
    rw [execParams]
    split
    · exact Or.inr (hs.left _ (evalInPos_mem g e ctx st))
    · rename_i v st1 he
      split
      · exact Or.inl (evalIn_node he)
      · rename_i st2 h2
        have e2 : Step S st st2 := Step.of_node (by rw [set_node h2, evalIn_node he])
        exact e2.trans (execParams_tracks rest hs.right cd ctx st2)
  | .content _ key body rest, hs, cd => by
    rw [posParams] at hs
    intro ctx st
    rw [execParams]
    have hb := renderBlockOf_tracks (execBody_tracks body hs.left) ctx st
    split
    · split
      · exact hb
      · rename_i st2 h2
        exact (hb.trans (Step.of_node (set_node h2))).trans (execParams_tracks rest hs.right cd _ st2)
    · exact hb
theorem walkMsgBody_tracks : (ps : MsgParts) → Sub S (posParts ps) → Tracks S (walkMsgBody g esc call ps)
  | .nil, _ => by intro ctx st; rw [walkMsgBody]; exact Or.inl rfl
  | .text p t rest, hs => by
    rw [posParts] at hs
    intro ctx st
    rw [walkMsgBody]
    have e : Step S st (write (atNode st p) t) := Or.inr hs.head
    exact e.trans (walkMsgBody_tracks rest hs.tail ctx _)
  | .ph _ _ body rest, hs => by
    rw [posParts] at hs
    intro ctx st
    rw [walkMsgBody]
    have h1 := execPh_tracks body hs.left ctx st
    split
    · exact Step.trans h1 (walkMsgBody_tracks rest hs.right _ _)
    · exact h1
  | .plural _ _ value cases _ dflt rest, hs => by
    rw [posParts] at hs
    intro ctx st
    rw [walkMsgBody]
    split
    · rename_i i st1 he
      have e1 : Step S st st1 := Step.of_node (evalIn_node he)
      have h1 := walkPluralCases_tracks cases hs.right.left (walkMsgBody g esc call dflt)
        (walkMsgBody_tracks dflt hs.right.right.left) i.toInt ctx st1
      simp only
      split
      · exact (e1.trans h1).trans (walkMsgBody_tracks rest hs.right.right.right _ _)
      · exact e1.trans h1
    · rename_i st1 he; exact Or.inl (evalIn_node he)
    · exact Or.inr (hs.left _ (evalInPos_mem g value ctx st))
theorem walkPluralCases_tracks : (cs : PluralCases) → Sub S (posPl cs) → (dflt : Run) → Tracks S dflt → (i : Int) →
    Tracks S (walkPluralCases g esc call cs dflt i)
  | .nil, _, dflt, hd, _ => by intro ctx st; rw [walkPluralCases]; exact hd ctx st
  | .cons _ v _ body rest, hs, dflt, hd, i => by
    rw [posPl] at hs
    intro ctx st
    rw [walkPluralCases]
    split
    · exact walkMsgBody_tracks body hs.left ctx st
    · exact walkPluralCases_tracks rest hs.right dflt hd i ctx st
theorem execPh_tracks : (b : MsgPhBody) → Sub S (posPh b) → Tracks S (execPh g esc call b)
  | .htmlTag p text, hs => by
    rw [posPh] at hs
    intro ctx st; rw [execPh]; exact Or.inr hs.head
  | .cmd c, hs => by
    rw [posPh] at hs
    intro ctx st; rw [execPh]
    exact (execCmd_tracks c hs).at ctx st (cmdPos c) (hs _ (cmdPos_mem c))
theorem phAll_tracks : (ps : MsgParts) → (d : Nat) → Sub S (posParts ps) → ∀ e ∈ phAll g esc call ps d, Tracks S e.2.2
  | .nil, _, _ => by intro e he; rw [phAll] at he; simp at he
  | .text _ _ rest, d, hs => by
    rw [posParts] at hs
    intro e he; rw [phAll] at he; exact phAll_tracks rest d hs.tail e he
  | .ph _ name body rest, d, hs => by
    rw [posParts] at hs
    intro e he
    rw [phAll] at he
    rcases List.mem_cons.mp he with rfl | h
    · exact execPh_tracks body hs.left
    · exact phAll_tracks rest d hs.right e h
  | .plural _ _ _ cases _ dflt rest, d, hs => by
    rw [posParts] at hs
    intro e he
    rw [phAll] at he
    rcases List.mem_append.mp he with h | h
    · rcases List.mem_append.mp h with h | h
      · exact phAllCases_tracks cases (d + 3) hs.right.left e h
      · exact phAll_tracks dflt (d + 2) hs.right.right.left e h
    · exact phAll_tracks rest d hs.right.right.right e h
theorem phAllCases_tracks : (cs : PluralCases) → (d : Nat) → Sub S (posPl cs) → ∀ e ∈ phAllCases g esc call cs d, Tracks S e.2.2
  | .nil, _, _ => by intro e he; rw [phAllCases] at he; simp at he
  | .cons _ _ _ body rest, d, hs => by
    rw [posPl] at hs
    intro e he
    rw [phAllCases] at he
    rcases List.mem_append.mp he with h | h
    · exact phAll_tracks body d hs.left e h
    · exact phAllCases_tracks rest d hs.right e h
end
end

end SoyVerif.Model.Eval
