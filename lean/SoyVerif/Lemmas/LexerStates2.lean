/-
  State-function lemmas, part 2: lexIdent, lexNumber, stringLexer, lexHeaderParam, lexCss,
  lexLiteral.
-/
import SoyVerif.Lemmas.LexerStates

namespace SoyVerif.Model.Lex
open SoyVerif SoyVerif.Model

/-- `emitOK` for the identifier kinds of lexIdent -/
macro "eok2" : tactic => `(tactic|
  first
  | exact emitOK_safe rfl rfl
  | (split <;> refine ⟨fun h => ?_, fun h => ?_, by decide⟩ <;> first | exact absurd h (by decide) | lx)
  | (refine ⟨fun h => ?_, fun h => ?_, by decide⟩ <;> first | exact absurd h (by decide) | lx))

/-! ### lexIdent -/

theorem lexIdentRest_sat {n : Int} {l0 l : Lexer} {ty : ItemType} (hn : l.len = n ∧ (l.mp : Int) ≤ n ∧ 0 ≤ l.tagStart ∧ l.tagStart ≤ n ∧ (l.bad = 0 ∧ l.cnt ≤ 2 * l.start ∧ l.tot ≤ l.start) ∧ l.tagBad = 0) (h0 : 0 ≤ l.start)
    (h1 : l.start ≤ l0.pos) (h2 : l.pos ≤ n) (hle : l0.pos ≤ l.pos) (hadv : l0.pos < l.pos)
    (hty : emitOK ty (l.pos - l.start)) (hi0 : l.input = l0.input) :
    Sat (lexIdentRest l ty) (Post n .ident l0) := by
  unfold lexIdentRest
  apply Sat.bind
  apply scanWhile_sat _ _ _ (by lx) (by lx)
  intro r l1 hl1 hs1 _ hf1
  unfold ScanFacts at hf1
  dsimp only
  apply Sat.bind
  apply sliceOf_sat (by lx) (by lx) (by lx)
  intro word _
  split
  · apply Sat.bind
    em l2 hl2 hp2 hs2 hw2
    split
    · fin
    split
    · fin
    · fin
  · split
    · apply Sat.bind
      apply sliceOf_sat (by lx) (by lx) (by lx)
      intro _ _
      first | exact errorf_sat (by lx) (by inq) | exact errorfAt_sat (by lx) (by inq) (by first | exact tag_err (by lx) (by lx) (Or.inl rfl) | exact tag_err (by lx) (by lx) (Or.inr rfl) | exact braces_err)
    · unfold emitInside
      apply Sat.bind
      apply emit_sat (by lx) (by lx) (by lx) (emitOK_mono hty (by lx))
      intro l2 hl2 hp2 hs2 hw2
      fin

theorem lexIdent_ok {n : Int} {l : Lexer} (hg : Good n l) (hx : Extra .ident l) :
    Sat (lexIdent l) (Post n .ident l) := by
  obtain ⟨hn, hs0, hsp, hpn⟩ := hg
  have hx' : l.start = l.pos := hx.1
  have hxl : l.pos < l.len := hx.2
  unfold lexIdent
  apply Sat.bind
  apply next_sat_c (by lx)
  intro r l1 hl1 hs1 hf1 hc1
  unfold NextFacts at hf1
  dsimp only
  split
  · rename_i hr
    nx d l2 hl2 hs2 hf2
    split
    · exact lexIdentRest_sat (by lx) (by lx) (by lx) (by lx) (by lx) (by lx) (by eok2) (by inq)
    split
    · exact lexIdentRest_sat (by lx) (by lx) (by lx) (by lx) (by lx) (by lx) (by eok2) (by inq)
    · have hb := hc1 (by omega) (by omega)
      have hi2 : l2.input = l.input := by rw [hl2.2.2.2.2.2, hl1.2.2.2.2.2]
      have hst : l2.start.toNat = l.pos.toNat := by rw [hs2, hs1, hx']
      exact errorfAt_sat (by lx) (by inq) (name_err (Or.inl (by rw [hi2, hst]; omega)))
  split
  · apply Sat.bind
    apply peek_sat (by lx)
    intro p l2 hl2 hs2 hp2 hf2
    dsimp only
    split
    · first | exact errorf_sat (by lx) (by inq) | exact errorfAt_sat (by lx) (by inq) (by first | exact tag_err (by lx) (by lx) (Or.inl rfl) | exact tag_err (by lx) (by lx) (Or.inr rfl) | exact braces_err)
    · exact lexIdentRest_sat (by lx) (by lx) (by lx) (by lx) (by lx) (by lx) (by eok2) (by inq)
  split
  · exact lexIdentRest_sat (by lx) (by lx) (by lx) (by lx) (by lx) (by lx) (by eok2) (by inq)
  split
  · exact lexIdentRest_sat (by lx) (by lx) (by lx) (by lx) (by lx) (by lx) (by eok2) (by inq)
  split
  · rename_i hr
    nx dot l2 hl2 hs2 hf2
    split
    · first | exact errorf_sat (by lx) (by inq) | exact errorfAt_sat (by lx) (by inq) (by first | exact tag_err (by lx) (by lx) (Or.inl rfl) | exact tag_err (by lx) (by lx) (Or.inr rfl) | exact braces_err)
    · nx d l3 hl3 hs3 hf3
      split
      · exact lexIdentRest_sat (by lx) (by lx) (by lx) (by lx) (by lx) (by lx) (by eok2) (by inq)
      split
      · exact lexIdentRest_sat (by lx) (by lx) (by lx) (by lx) (by lx) (by lx) (by eok2) (by inq)
      · have hb := hc1 (by omega) (by omega)
        have hi3 : l3.input = l.input := by rw [hl3.2.2.2.2.2, hl2.2.2.2.2.2, hl1.2.2.2.2.2]
        have hst : l3.start.toNat = l.pos.toNat := by rw [hs3, hs2, hs1, hx']
        exact errorfAt_sat (by lx) (by inq) (name_err (Or.inr (by rw [hi3, hst]; omega)))
  · exact lexIdentRest_sat (by lx) (by lx) (by lx) (by lx) (by lx) (by lx) (by eok2) (by inq)

/-! ### `∃`-forms of the primitive rules, for the loops defined by `match h : … with` -/

theorem next_ex {l : Lexer} (h0 : 0 ≤ l.pos) :
    ∃ r l', l.next = some (r, l') ∧ (l'.len = l.len ∧ l'.mp = l.mp ∧ l'.tagStart = l.tagStart ∧ (l'.bad = l.bad ∧ l'.cnt = l.cnt ∧ l'.tot = l.tot) ∧ l'.tagBad = l.tagBad ∧ l'.input = l.input) ∧ l'.start = l.start ∧ NextFacts l r l' := by
  obtain ⟨⟨r, l'⟩, h, f⟩ := next_sat (Q := fun x => (x.2.len = l.len ∧ x.2.mp = l.mp ∧ x.2.tagStart = l.tagStart ∧ (x.2.bad = l.bad ∧ x.2.cnt = l.cnt ∧ x.2.tot = l.tot) ∧ x.2.tagBad = l.tagBad ∧ x.2.input = l.input) ∧ x.2.start = l.start ∧ NextFacts l x.1 x.2)
    h0 (fun _ _ a b c => ⟨a, b, c⟩)
  exact ⟨r, l', h, f⟩

theorem peek_ex {l : Lexer} (h0 : 0 ≤ l.pos) :
    ∃ r l', l.peek = some (r, l') ∧ (l'.len = l.len ∧ l'.mp = l.mp ∧ l'.tagStart = l.tagStart ∧ (l'.bad = l.bad ∧ l'.cnt = l.cnt ∧ l'.tot = l.tot) ∧ l'.tagBad = l.tagBad ∧ l'.input = l.input) ∧ l'.start = l.start ∧ l'.pos = l.pos ∧
      ((l.len ≤ l.pos ∧ r = -1 ∧ l'.width = 0) ∨
       (l.pos < l.len ∧ 0 ≤ r ∧ 1 ≤ l'.width ∧ l.pos + l'.width ≤ l.len ∧ (128 ≤ r ∨ l'.width = 1))) := by
  obtain ⟨⟨r, l'⟩, h, f⟩ := peek_sat (l := l) (Q := fun x => (x.2.len = l.len ∧ x.2.mp = l.mp ∧ x.2.tagStart = l.tagStart ∧ (x.2.bad = l.bad ∧ x.2.cnt = l.cnt ∧ x.2.tot = l.tot) ∧ x.2.tagBad = l.tagBad ∧ x.2.input = l.input) ∧ x.2.start = l.start ∧ x.2.pos = l.pos ∧
      ((l.len ≤ l.pos ∧ x.1 = -1 ∧ x.2.width = 0) ∨
       (l.pos < l.len ∧ 0 ≤ x.1 ∧ 1 ≤ x.2.width ∧ l.pos + x.2.width ≤ l.len ∧ (128 ≤ x.1 ∨ x.2.width = 1))))
    h0 (fun _ _ a b c d => ⟨a, b, c, d⟩)
  exact ⟨r, l', h, f⟩

/-- facts about a `next` whose result is already known (after `split` on `match h : l.next with`) -/
theorem next_facts {l l' : Lexer} {r : Int} (h : l.next = some (r, l')) (h0 : 0 ≤ l.pos) :
    (l'.len = l.len ∧ l'.mp = l.mp ∧ l'.tagStart = l.tagStart ∧ (l'.bad = l.bad ∧ l'.cnt = l.cnt ∧ l'.tot = l.tot) ∧ l'.tagBad = l.tagBad ∧ l'.input = l.input) ∧ l'.start = l.start ∧ NextFacts l r l' := by
  obtain ⟨r2, l2, h2, f⟩ := next_ex h0
  rw [h] at h2
  simp only [Option.some.injEq, Prod.mk.injEq] at h2
  obtain ⟨rfl, rfl⟩ := h2
  exact f

theorem emit_ex {l : Lexer} (t : ItemType) (h0 : 0 ≤ l.start) (h1 : l.start ≤ l.pos) (h2 : l.pos ≤ l.len)
    (hok : emitOK t (l.pos - l.start) := by exact emitOK_safe rfl rfl) :
    ∃ l', l.emit t = some l' ∧ (l'.len = l.len ∧ l.mp ≤ l'.mp ∧ ((l'.mp : Int) = l.mp ∨ (l'.mp : Int) = l.pos) ∧ l'.tagStart = l.tagStart ∧ (l'.bad = l.bad ∧ l'.cnt = l.cnt + 1 ∧ l'.tot = l.tot + (l.pos - l.start)) ∧ l'.tagBad = l.tagBad ∧ l'.input = l.input) ∧
      l'.pos = l.pos ∧ l'.start = l.pos ∧ l'.width = l.width :=
  emit_sat h0 h1 h2 hok (fun _ a b c d => ⟨a, b, c, d⟩)

theorem maybeEmitText_ex {l : Lexer} {k : Int} (hs0 : 0 ≤ l.start) (hk : 0 ≤ k) (hp : l.pos - k ≤ l.len) :
    ∃ l', maybeEmitText l k = some l' ∧ (l'.len = l.len ∧ l.mp ≤ l'.mp ∧ ((l'.mp : Int) = l.mp ∨ (l'.mp : Int) = l.pos - k) ∧ l'.tagStart = l.tagStart ∧ (l'.bad = l.bad ∧ l'.cnt + l.start ≤ l.cnt + l'.start ∧ l'.tot + l.start ≤ l.tot + l'.start) ∧ l'.tagBad = l.tagBad ∧ l'.input = l.input) ∧
      l'.pos = l.pos ∧ l'.width = l.width ∧
      ((l'.start = l.start ∧ l.pos - k ≤ l.start) ∨ (l.start < l.pos - k ∧ l'.start = l.pos - k)) :=
  maybeEmitText_sat hs0 hk hp (fun _ a b c d => ⟨a, b, c, d⟩)

/-! ### stringLexer -/

theorem lexString_sat {n : Int} {l0 : Lexer} (q : Int) : ∀ (k : Nat) (l : Lexer), l.rem = k →
    (l.len = n ∧ (l.mp : Int) ≤ n ∧ 0 ≤ l.tagStart ∧ l.tagStart ≤ n ∧ (l.bad = 0 ∧ l.cnt ≤ 2 * l.start ∧ l.tot ≤ l.start) ∧ l.tagBad = 0) → 0 ≤ l.start → l.start ≤ l.pos → l.pos ≤ n → l0.pos ≤ l.pos →
    ((byteAt l.input l.start.toNat : Int) = q ∧ (q = 34 ∨ q = 39)) → l.input = l0.input →
    Sat (lexString q l) (Post n (.str q) l0) := by
  intro k
  induction k using Nat.strongRecOn with
  | _ k ih =>
    intro l hk hn h0 h1 h2 hle hqc hi0
    unfold lexString
    split
    · rename_i heq
      obtain ⟨_, _, h, _⟩ := next_ex (l := l) (by lx)
      rw [heq] at h; exact absurd h (by simp)
    · rename_i r l1 hnx
      obtain ⟨hl1, hs1, hf1⟩ := next_facts hnx (by lx)
      unfold NextFacts at hf1
      split
      · -- the string is never closed: reported at its opening quote, `l.start`
        exact errorfAt_sat (by lx) (by inq) (str_err (by rw [hl1.2.2.2.2.2, hs1]; omega))
      split
      · split
        · rename_i heq
          obtain ⟨_, _, h, _⟩ := next_ex (l := l1) (by lx)
          rw [heq] at h; exact absurd h (by simp)
        · rename_i r2 l2 hnx2
          obtain ⟨hl2, hs2, hf2⟩ := next_facts hnx2 (by lx)
          unfold NextFacts at hf2
          exact ih l2.rem (by simp only [Lexer.rem] at hk ⊢; lx) l2 rfl (by lx) (by lx) (by lx) (by lx) (by lx)
            (by rw [hl2.2.2.2.2.2, hl1.2.2.2.2.2, hs2, hs1]; exact hqc) (by inq)
      split
      · obtain ⟨l2, he, hl2, hp2, hs2, hw2⟩ := emit_ex .tString (l := l1) (by lx) (by lx) (by lx)
        simp only [he]
        apply Sat.ofSome
        apply Post.of (by lx) (by lx) (by lx) (by lx) (by lx) (by intro _ _; lx) (by intro _ _; lx) (by exq) (by inq)
      · exact ih l1.rem (by simp only [Lexer.rem] at hk ⊢; lx) l1 rfl (by lx) (by lx) (by lx) (by lx) (by lx)
          (by rw [hl1.2.2.2.2.2, hs1]; exact hqc) (by inq)


theorem lexString_ok {n : Int} {l : Lexer} {q : Int} (hg : Good n l) (hx : Extra (.str q) l) :
    Sat (lexString q l) (Post n (.str q) l) := by
  obtain ⟨hn, hs0, hsp, hpn⟩ := hg
  simp only [Extra] at hx
  exact lexString_sat q l.rem l rfl hn hs0 hsp hpn (Int.le_refl _) hx.2 rfl

/-! ### lexNumber -/

/-- what `scanNumber` and its parts return, relative to the lexer `l0` at its start -/
def NumPost (n : Int) (l0 : Lexer) (adv : Bool) (res : ItemType × Bool × Lexer) : Prop :=
  (res.2.2.len = n ∧ (res.2.2.mp : Int) ≤ n ∧ 0 ≤ res.2.2.tagStart ∧ res.2.2.tagStart ≤ n ∧ (res.2.2.bad = 0 ∧ res.2.2.cnt ≤ 2 * res.2.2.start ∧ res.2.2.tot ≤ res.2.2.start) ∧ res.2.2.tagBad = 0) ∧ (res.2.2.start = l0.start ∧ res.2.2.input = l0.input) ∧ l0.pos ≤ res.2.2.pos ∧ res.2.2.pos ≤ n ∧
    (adv = true ∨ res.2.1 = false ∨ l0.pos < res.2.2.pos) ∧ (res.1 = .tInteger ∨ res.1 = .tFloat)

theorem scanNumberEnd_sat {n : Int} {l0 l : Lexer} {typ : ItemType} {adv : Bool} (htyp : typ = .tInteger ∨ typ = .tFloat) (hn : l.len = n ∧ (l.mp : Int) ≤ n ∧ 0 ≤ l.tagStart ∧ l.tagStart ≤ n ∧ (l.bad = 0 ∧ l.cnt ≤ 2 * l.start ∧ l.tot ≤ l.start) ∧ l.tagBad = 0)
    (hs : l.start = l0.start ∧ l.input = l0.input) (h0 : 0 ≤ l0.pos) (hle : l0.pos ≤ l.pos) (h2 : l.pos ≤ n)
    (hadv : adv = true ∨ l0.pos < l.pos) :
    Sat (scanNumberEnd l typ) (NumPost n l0 adv) := by
  unfold scanNumberEnd
  apply Sat.bind
  apply peek_sat (by lx)
  intro p l1 hl1 hs1 hp1 hf1
  dsimp only
  split
  · nx r l2 hl2 hs2 hf2
    apply Sat.ret
    unfold NumPost
    dsimp only
    refine ⟨by lx, ⟨by lx, by inq⟩, by lx, by lx, Or.inr (Or.inl rfl), htyp⟩
  · apply Sat.ret
    unfold NumPost
    dsimp only
    refine ⟨by lx, ⟨by lx, by inq⟩, by lx, by lx, ?_, htyp⟩
    rcases hadv with h | h
    · exact Or.inl h
    · exact Or.inr (Or.inr (by lx))

theorem scanNumberExp_sat {n : Int} {l0 l : Lexer} {typ : ItemType} {adv : Bool} (htyp : typ = .tInteger ∨ typ = .tFloat) (hn : l.len = n ∧ (l.mp : Int) ≤ n ∧ 0 ≤ l.tagStart ∧ l.tagStart ≤ n ∧ (l.bad = 0 ∧ l.cnt ≤ 2 * l.start ∧ l.tot ≤ l.start) ∧ l.tagBad = 0)
    (hs : l.start = l0.start ∧ l.input = l0.input) (h0 : 0 ≤ l0.pos) (hle : l0.pos ≤ l.pos) (h2 : l.pos ≤ n)
    (hadv : adv = true ∨ l0.pos < l.pos) :
    Sat (scanNumberExp l typ) (NumPost n l0 adv) := by
  unfold scanNumberExp
  apply Sat.bind
  apply accept_sat (by lx) (by lx)
  intro e l1 hl1 hs1 hp1 hle1 _
  dsimp only
  split
  · apply Sat.bind
    apply accept_sat (by lx) (by lx)
    intro sg l2 hl2 hs2 hp2 hle2 _
    dsimp only
    apply Sat.bind
    apply acceptRun_sat (by lx) (by lx)
    intro ok l3 hl3 hs3 hp3 hle3 _
    dsimp only
    split
    · apply Sat.ret
      unfold NumPost
      dsimp only
      refine ⟨by lx, ⟨by lx, by inq⟩, by lx, by lx, Or.inr (Or.inl rfl), htyp⟩
    · apply scanNumberEnd_sat (by first | exact Or.inl rfl | exact Or.inr rfl | assumption) (by lx) ⟨by lx, by inq⟩ (by lx) (by lx) (by lx)
      rcases hadv with h | h
      · exact Or.inl h
      · exact Or.inr (by lx)
  · apply scanNumberEnd_sat (by first | exact Or.inl rfl | exact Or.inr rfl | assumption) (by lx) ⟨by lx, by inq⟩ (by lx) (by lx) (by lx)
    rcases hadv with h | h
    · exact Or.inl h
    · exact Or.inr (by lx)

theorem NumPost.fail {n : Int} {l0 l : Lexer} {typ : ItemType} (htyp : typ = .tInteger ∨ typ = .tFloat) (hn : l.len = n ∧ (l.mp : Int) ≤ n ∧ 0 ≤ l.tagStart ∧ l.tagStart ≤ n ∧ (l.bad = 0 ∧ l.cnt ≤ 2 * l.start ∧ l.tot ≤ l.start) ∧ l.tagBad = 0)
    (hs : l.start = l0.start ∧ l.input = l0.input) (hle : l0.pos ≤ l.pos) (h2 : l.pos ≤ n) :
    Sat (pure (typ, false, l) : Option (ItemType × Bool × Lexer)) (NumPost n l0 false) := by
  apply Sat.ret
  exact ⟨hn, hs, hle, h2, Or.inr (Or.inl rfl), htyp⟩

theorem scanNumber_sat {n : Int} {l : Lexer} (hg : Good n l) :
    Sat (scanNumber l) (NumPost n l false) := by
  obtain ⟨hn, hs0, hsp, hpn⟩ := hg
  unfold scanNumber
  apply Sat.bind
  apply accept_sat (by lx) (by lx)
  intro hasSign l1 hl1 hs1 hp1 hle1 hsign
  dsimp only
  apply Sat.bind
  have hex : Sat (if l1.len ≥ l1.pos + 2 then do
        let s ← sliceOf l1.input l1.pos (l1.pos + 2)
        pure (s == [48, 120])
      else pure false : Option Bool) (fun b => b = true → l1.pos + 2 ≤ l1.len) := by
    split
    · rename_i hlen
      apply Sat.bind
      apply sliceOf_sat (by lx) (by lx) (by lx)
      intro _ _
      exact Sat.ret (fun _ => by lx)
    · exact Sat.ret (fun h => by simp at h)
  apply hex.mono
  intro isHex hisHex
  split
  · rename_i hH
    have hlen2 := hisHex hH
    split
    · exact NumPost.fail (by first | exact Or.inl rfl | exact Or.inr rfl | assumption) (by lx) ⟨by lx, by inq⟩ (by lx) (by lx)
    · -- `l.pos += 2`
      generalize hl2d : ({ l1 with pos := l1.pos + 2 } : Lexer) = l2
      have hl2 : l2.len = l1.len ∧ l2.mp = l1.mp ∧ l2.tagStart = l1.tagStart ∧ (l2.bad = l1.bad ∧ l2.cnt = l1.cnt ∧ l2.tot = l1.tot) ∧ l2.tagBad = l1.tagBad ∧ l2.input = l1.input := by
        subst hl2d; exact ⟨rfl, rfl, rfl, ⟨rfl, rfl, rfl⟩, rfl, rfl⟩
      have hs2 : l2.start = l1.start := by subst hl2d; rfl
      have hp2 : l2.pos = l1.pos + 2 := by subst hl2d; rfl
      apply Sat.bind
      apply acceptRun_sat (by lx) (by lx)
      intro ok l3 hl3 hs3 hp3 hle3 hok
      dsimp only
      split
      · exact NumPost.fail (by first | exact Or.inl rfl | exact Or.inr rfl | assumption) (by lx) ⟨by lx, by inq⟩ (by lx) (by lx)
      · rename_i hok'
        have := hok (by simpa using hok')
        apply Sat.bind
        apply accept_sat (by lx) (by lx)
        intro dot l4 hl4 hs4 hp4 hle4 _
        dsimp only
        split
        · exact NumPost.fail (by first | exact Or.inl rfl | exact Or.inr rfl | assumption) (by lx) ⟨by lx, by inq⟩ (by lx) (by lx)
        · exact scanNumberEnd_sat (by first | exact Or.inl rfl | exact Or.inr rfl | assumption) (by lx) ⟨by lx, by inq⟩ (by lx) (by lx) (by lx) (Or.inr (by lx))
  · apply Sat.bind
    apply acceptRun_sat (by lx) (by lx)
    intro ok l2 hl2 hs2 hp2 hle2 hok
    dsimp only
    split
    · exact NumPost.fail (by first | exact Or.inl rfl | exact Or.inr rfl | assumption) (by lx) ⟨by lx, by inq⟩ (by lx) (by lx)
    · rename_i hok'
      have hadv := hok (by simpa using hok')
      apply Sat.bind
      apply accept_sat (by lx) (by lx)
      intro dot l3 hl3 hs3 hp3 hle3 _
      dsimp only
      split
      · apply Sat.bind
        apply acceptRun_sat (by lx) (by lx)
        intro ok2 l4 hl4 hs4 hp4 hle4 _
        dsimp only
        split
        · exact NumPost.fail (by first | exact Or.inl rfl | exact Or.inr rfl | assumption) (by lx) ⟨by lx, by inq⟩ (by lx) (by lx)
        · exact scanNumberExp_sat (by first | exact Or.inl rfl | exact Or.inr rfl | assumption) (by lx) ⟨by lx, by inq⟩ (by lx) (by lx) (by lx) (Or.inr (by lx))
      · apply Sat.bind
        have hbad : Sat (if (!hasSign) = true then do
              let b ← indexOf l3.input l3.start
              pure (b == 48 && decide (l3.pos > l3.start + 1))
            else do
              let b ← indexOf l3.input (l3.start + 1)
              pure (b == 48 && decide (l3.pos > l3.start + 2)) : Option Bool) (fun _ => True) := by
          split
          · apply Sat.bind
            apply indexOf_sat (by lx) (by lx)
            intro _
            exact Sat.ret trivial
          · rename_i hsg
            have hsg' : hasSign = true := by simpa using hsg
            have := hsign hsg'
            apply Sat.bind
            apply indexOf_sat (by lx) (by lx)
            intro _
            exact Sat.ret trivial
        apply hbad.mono
        intro bad _
        split
        · exact NumPost.fail (by first | exact Or.inl rfl | exact Or.inr rfl | assumption) (by lx) ⟨by lx, by inq⟩ (by lx) (by lx)
        · exact scanNumberExp_sat (by first | exact Or.inl rfl | exact Or.inr rfl | assumption) (by lx) ⟨by lx, by inq⟩ (by lx) (by lx) (by lx) (Or.inr (by lx))

theorem lexNumber_ok {n : Int} {l : Lexer} (hg : Good n l) :
    Sat (lexNumber l) (Post n .number l) := by
  have hg' := hg
  obtain ⟨hn, hs0, hsp, hpn⟩ := hg
  unfold lexNumber
  apply Sat.bind
  apply (scanNumber_sat hg').mono
  intro ⟨typ, ok, l1⟩ hp
  unfold NumPost at hp
  dsimp only at hp ⊢
  obtain ⟨hl1, hs1, hle1, hn1, hadv, htyp⟩ := hp
  split
  · apply Sat.bind
    apply sliceOf_sat (by lx) (by lx) (by lx)
    intro _ _
    first | exact errorf_sat (by lx) (by inq) | exact errorfAt_sat (by lx) (by inq) (by first | exact tag_err (by lx) (by lx) (Or.inl rfl) | exact tag_err (by lx) (by lx) (Or.inr rfl) | exact braces_err)
  · rename_i hok
    have hok' : ok = true := by simpa using hok
    have : l.pos < l1.pos := by
      rcases hadv with h | h | h
      · exact absurd h (by simp)
      · rw [hok'] at h; exact absurd h (by simp)
      · exact h
    exact emitInside_sat (by lx) (by lx) (by lx) (by lx) (by lx)
      (by rcases htyp with h | h <;> (subst h; exact emitOK_safe rfl rfl)) (by inq)


/-! ### lexHeaderParam -/

theorem headerTypeLoop_sat {n : Int} {Q : Int × Lexer × Int → Prop} (l0 : Lexer) : ∀ (k : Nat) (l : Lexer) (lns : Int),
    l.rem = k → (l.len = n ∧ (l.mp : Int) ≤ n ∧ 0 ≤ l.tagStart ∧ l.tagStart ≤ n ∧ (l.bad = 0 ∧ l.cnt ≤ 2 * l.start ∧ l.tot ≤ l.start) ∧ l.tagBad = 0) → 0 ≤ l.pos → l.pos ≤ n → l0.pos ≤ lns → lns ≤ l.pos →
    (∀ ch l' lns', (l'.len = n ∧ (l'.mp : Int) ≤ n ∧ 0 ≤ l'.tagStart ∧ l'.tagStart ≤ n ∧ (l'.bad = 0 ∧ l'.cnt ≤ 2 * l'.start ∧ l'.tot ≤ l'.start) ∧ l'.tagBad = 0) → ((l'.start = l.start ∧ l'.cnt = l.cnt ∧ l'.tot = l.tot) ∧ l'.input = l.input) → l0.pos ≤ lns' → lns' ≤ l'.pos → l'.pos ≤ n → Q (ch, l', lns')) →
    Sat (headerTypeLoop l lns) Q := by
  intro k
  induction k using Nat.strongRecOn with
  | _ k ih =>
    intro l lns hk hn h0 h2 hl0 hll hq
    unfold headerTypeLoop
    split
    · rename_i heq
      obtain ⟨_, _, h, _⟩ := next_ex (l := l) (by lx)
      rw [heq] at h; exact absurd h (by simp)
    · rename_i ch l1 hnx
      obtain ⟨hl1, hs1, hf1⟩ := next_facts hnx (by lx)
      unfold NextFacts at hf1
      split
      · exact Sat.ofSome (hq _ _ _ (by lx) ⟨⟨hs1, hl1.2.2.2.1.2⟩, hl1.2.2.2.2.2⟩ (by lx) (by lx) (by lx))
      split
      · exact Sat.ofSome (hq _ _ _ (by lx) ⟨⟨hs1, hl1.2.2.2.1.2⟩, hl1.2.2.2.2.2⟩ (by lx) (by lx) (by lx))
      · apply ih l1.rem (by simp only [Lexer.rem] at hk ⊢; lx) l1 _ rfl (by lx) (by lx) (by lx)
          (by split <;> lx) (by split <;> lx)
        intro ch' l' lns' a b c d e
        exact hq ch' l' lns' a ⟨⟨b.1.1.trans hs1, b.1.2.1.trans hl1.2.2.2.1.2.1, b.1.2.2.trans hl1.2.2.2.1.2.2⟩, b.2.trans hl1.2.2.2.2.2⟩ c d e

theorem lexHeaderParam_ok {n : Int} {l : Lexer} (hg : Good n l) :
    Sat (lexHeaderParam l) (Post n .headerParam l) := by
  obtain ⟨hn, hs0, hsp, hpn⟩ := hg
  unfold lexHeaderParam
  apply Sat.bind
  apply hasPrefixAt_sat (by lx) (by lx)
  intro pre hpre
  split
  · first | exact errorf_sat (by lx) (by inq) | exact errorfAt_sat (by lx) (by inq) (by first | exact tag_err (by lx) (by lx) (Or.inl rfl) | exact tag_err (by lx) (by lx) (Or.inr rfl) | exact braces_err)
  · rename_i hp
    have hp' : pre = true := by simpa using hp
    have hlen := hpre hp'
    simp only [kwParam, List.length_cons, List.length_nil] at hlen
    nx q l1 hl1 hs1 hf1
    apply Sat.bind
    have hem : Sat (if q = 63 then l1.emit .tHeaderOptionalParam else l1.backup.emit .tHeaderParam)
        (fun l2 => (l2.len = n ∧ (l2.mp : Int) ≤ n ∧ 0 ≤ l2.tagStart ∧ l2.tagStart ≤ n ∧ (l2.bad = 0 ∧ l2.cnt ≤ 2 * l2.start ∧ l2.tot ≤ l2.start) ∧ l2.tagBad = 0) ∧ ((l2.start = l2.pos ∧ l2.cnt = l.cnt + 1 ∧ l2.tot ≤ l.tot + (l2.pos - l.start)) ∧ l2.input = l.input) ∧ l.pos + 5 ≤ l2.pos ∧ l2.pos ≤ n) := by
      split
      · em l2 hl2 hp2 hs2 hw2
        exact ⟨by lx, ⟨by lx, by inq⟩, by lx, by lx⟩
      · em l2 hl2 hp2 hs2 hw2
        exact ⟨by lx, ⟨by lx, by inq⟩, by lx, by lx⟩
    apply hem.mono
    intro l2 ⟨hl2, hs2, hp2, hn2⟩
    apply Sat.bind
    apply skipSpace_sat (by lx) (by lx)
    intro l3 hl3 hs3 hp3 hn3
    apply Sat.bind
    apply scanWhile_sat _ _ _ (by lx) (by lx)
    intro r4 l4 hl4 hs4 _ hf4
    unfold ScanFacts at hf4
    dsimp only
    apply Sat.bind
    em l5 hl5 hp5 hs5 hw5
    apply Sat.bind
    apply skipSpace_sat (by lx) (by lx)
    intro l6 hl6 hs6 hp6 hn6
    nx c l7 hl7 hs7 hf7
    split
    · refine errorfAt_sat ?_ (by inq) (tag_err (by lx) (by lx) (Or.inl rfl))
      refine ⟨by lx, by lx, by lx, ?_⟩
      lx
    · apply Sat.bind
      em l8 hl8 hp8 hs8 hw8
      apply Sat.bind
      apply skipSpace_sat (by lx) (by lx)
      intro l9 hl9 hs9 hp9 hn9
      apply Sat.bind
      have t1 : l8.len = n := by lx
      have t2 : l9.len = n := by lx
      apply headerTypeLoop_sat l9 l9.rem l9 l9.pos rfl ⟨by lx, by lx, by lx, by lx⟩ (by lx) (by lx) (by lx) (by lx)
      intro ch l10 lns hl10 hs10 hlo hhi hn10
      dsimp only
      split
      · first | exact errorf_sat (by lx) (by inq) | exact errorfAt_sat (by lx) (by inq) (by first | exact tag_err (by lx) (by lx) (Or.inl rfl) | exact tag_err (by lx) (by lx) (Or.inr rfl) | exact braces_err)
      · apply Sat.bind
        em l11 hl11 hp11 hs11 hw11
        apply Sat.bind
        apply skipSpace_sat (by lx) (by lx)
        intro l12 hl12 hs12 hp12 hn12
        have t3 : l10.tagBad = 0 := hl10.2.2.2.2.2
        have t4 : l11.tagBad = 0 := by rw [hl11.2.2.2.2.2.1]; exact t3
        have t5 : l12.tagBad = 0 := by rw [hl12.2.2.2.2.1]; exact t4
        fin

/-! ### lexCss -/

theorem lexCss_ok {n : Int} {l : Lexer} (hg : Good n l) :
    Sat (lexCss l) (Post n .css l) := by
  obtain ⟨hn, hs0, hsp, hpn⟩ := hg
  unfold lexCss
  nx r1 l1 hl1 hs1 hf1
  apply Sat.bind
  apply scanWhile_sat _ _ _ (by lx) (by lx)
  intro ch l2 hl2 hs2 hch hf2
  unfold ScanFacts at hf2
  dsimp only
  split
  · first | exact errorf_sat (by lx) (by inq) | exact errorfAt_sat (by lx) (by inq) (by first | exact tag_err (by lx) (by lx) (Or.inl rfl) | exact tag_err (by lx) (by lx) (Or.inr rfl) | exact braces_err)
  · rename_i hne
    simp only [eof] at hne
    apply Sat.bind
    em l3 hl3 hp3 hs3 hw3
    nx r4 l4 hl4 hs4 hf4
    apply Sat.bind
    apply badDoubleClose_sat (by lx) (by lx)
    intro bad l5 hl5 hs5 hp5 hn5
    dsimp only
    split
    · first | exact errorf_sat (by lx) (by inq) | exact errorfAt_sat (by lx) (by inq) (by first | exact tag_err (by lx) (by lx) (Or.inl rfl) | exact tag_err (by lx) (by lx) (Or.inr rfl) | exact braces_err)
    · apply Sat.bind
      em l6 hl6 hp6 hs6 hw6
      fin

/-! ### lexLiteral -/

set_option maxHeartbeats 1600000 in
theorem lexLiteral_ok {n : Int} {l : Lexer} (hg : Good n l) :
    Sat (lexLiteral l) (Post n .literal l) := by
  obtain ⟨hn, hs0, hsp, hpn⟩ := hg
  unfold lexLiteral
  apply Sat.bind
  apply scanWhile_sat _ _ _ (by lx) (by lx)
  intro ch l1 hl1 hs1 _ hf1
  unfold ScanFacts at hf1
  dsimp only
  split
  · first | exact errorf_sat (by lx) (by inq) | exact errorfAt_sat (by lx) (by inq) (by first | exact tag_err (by lx) (by lx) (Or.inl rfl) | exact tag_err (by lx) (by lx) (Or.inr rfl) | exact braces_err)
  · rename_i hch
    have hch' : ch = 125 := by simpa using hch
    apply Sat.bind
    apply badDoubleClose_sat (by lx) (by lx)
    intro bad l2 hl2 hs2 hp2 hn2
    dsimp only
    split
    · first | exact errorf_sat (by lx) (by inq) | exact errorfAt_sat (by lx) (by inq) (by first | exact tag_err (by lx) (by lx) (Or.inl rfl) | exact tag_err (by lx) (by lx) (Or.inr rfl) | exact braces_err)
    · apply Sat.bind
      em l3 hl3 hp3 hs3 hw3
      apply Sat.bind
      unfold sliceFrom
      apply sliceOf_sat (by lx) (by lx) (by lx)
      intro rest hrest
      split
      · first | exact errorf_sat (by lx) (by inq) | exact errorfAt_sat (by lx) (by inq) (by first | exact tag_err (by lx) (by lx) (Or.inl rfl) | exact tag_err (by lx) (by lx) (Or.inr rfl) | exact braces_err)
      · rename_i i hi
        have hle := stringsIndex_le _ _ _ hi
        have hlen : ((if l3.doubleDelim = true then closeLiteral2 else closeLiteral1).length : Int) =
            (if l3.doubleDelim = true then 2 else 1) + 8 + (if l3.doubleDelim = true then 2 else 1) := by
          split <;> simp [closeLiteral1, closeLiteral2]
        have hdpos : (0 : Int) ≤ (if l3.doubleDelim = true then 2 else 1) := by split <;> omega
        generalize (if l3.doubleDelim = true then (2 : Int) else 1) = d at hlen hdpos ⊢
        have hd : (i : Int) + (d + 8 + d) ≤ l3.len - l3.pos := by
          rw [← hlen]; simp only [Lexer.len]; omega
        have hd0 : 0 ≤ (i : Int) := Int.natCast_nonneg _
        apply Sat.bind
        have hem : Sat (if i > 0 then (l3.addPos ↑i).emit .tText else pure (l3.addPos ↑i))
            (fun l4 => (l4.len = n ∧ (l4.mp : Int) ≤ n ∧ 0 ≤ l4.tagStart ∧ l4.tagStart ≤ n ∧ (l4.bad = 0 ∧ l4.cnt ≤ 2 * l4.start ∧ l4.tot ≤ l4.start) ∧ l4.tagBad = 0) ∧ (0 ≤ l4.start ∧ l4.input = l.input) ∧ l4.start ≤ l4.pos ∧ l4.pos = l3.pos + i) := by
          split
          · em l4 hl4 hp4 hs4 hw4
            exact ⟨by lx, ⟨by lx, by inq⟩, by lx, by lx⟩
          · apply Sat.ret
            exact ⟨by lx, ⟨by lx, by inq⟩, by lx, by lx⟩
        apply hem.mono
        intro l4 ⟨hl4, hs4a, hs4b, hp4⟩
        apply Sat.bind
        em l5 hl5 hp5 hs5 hw5
        apply Sat.bind
        em l6 hl6 hp6 hs6 hw6
        apply Sat.bind
        em l7 hl7 hp7 hs7 hw7
        fin

end SoyVerif.Model.Lex
