/-
  State-function lemmas, part 2: lexIdent, lexNumber, stringLexer, lexHeaderParam, lexCss,
  lexLiteral.
-/
import SoyVerif.Lemmas.LexerStates

namespace SoyVerif.Model.Lex
open SoyVerif SoyVerif.Model

/-! ### lexIdent -/

theorem lexIdentRest_sat {n : Int} {l0 l : Lexer} {ty : ItemType} (hn : l.len = n) (h0 : 0 ≤ l.start)
    (h1 : l.start ≤ l0.pos) (h2 : l.pos ≤ n) (hle : l0.pos ≤ l.pos) (hadv : l0.pos < n → l0.pos < l.pos) :
    Sat (lexIdentRest l ty) (Post n .ident l0) := by
  unfold lexIdentRest
  apply Sat.bind
  apply scanWhile_sat _ _ _ (by lx) (by lx)
  intro r l1 hl1 hs1 _ hf1
  unfold ScanFacts at hf1
  dsimp only
  apply Sat.bind
  apply sliceOf_sat (by lx) (by lx) (by lx)
  intro word _
  split
  · apply Sat.bind
    em l2 hl2 hp2 hs2 hw2
    split
    · fin
    split
    · fin
    · fin
  · split
    · apply Sat.bind
      apply sliceOf_sat (by lx) (by lx) (by lx)
      intro _ _
      exact errorf_sat
    · unfold emitInside
      apply Sat.bind
      em l2 hl2 hp2 hs2 hw2
      fin

theorem lexIdent_ok {n : Int} {l : Lexer} (hg : Good n l) :
    Sat (lexIdent l) (Post n .ident l) := by
  obtain ⟨hn, hs0, hsp, hpn⟩ := hg
  unfold lexIdent
  nx r l1 hl1 hs1 hf1
  split
  · nx d l2 hl2 hs2 hf2
    exact lexIdentRest_sat (by lx) (by lx) (by lx) (by lx) (by lx) (by lx)
  split
  · exact lexIdentRest_sat (by lx) (by lx) (by lx) (by lx) (by lx) (by lx)
  split
  · exact lexIdentRest_sat (by lx) (by lx) (by lx) (by lx) (by lx) (by lx)
  split
  · exact lexIdentRest_sat (by lx) (by lx) (by lx) (by lx) (by lx) (by lx)
  split
  · nx dot l2 hl2 hs2 hf2
    split
    · exact errorf_sat
    · nx d l3 hl3 hs3 hf3
      exact lexIdentRest_sat (by lx) (by lx) (by lx) (by lx) (by lx) (by lx)
  · exact lexIdentRest_sat (by lx) (by lx) (by lx) (by lx) (by lx) (by lx)

/-! ### `∃`-forms of the primitive rules, for the loops defined by `match h : … with` -/

theorem next_ex {l : Lexer} (h0 : 0 ≤ l.pos) :
    ∃ r l', l.next = some (r, l') ∧ l'.len = l.len ∧ l'.start = l.start ∧ NextFacts l r l' := by
  obtain ⟨⟨r, l'⟩, h, f⟩ := next_sat (Q := fun x => x.2.len = l.len ∧ x.2.start = l.start ∧ NextFacts l x.1 x.2)
    h0 (fun _ _ a b c => ⟨a, b, c⟩)
  exact ⟨r, l', h, f⟩

/-- facts about a `next` whose result is already known (after `split` on `match h : l.next with`) -/
theorem next_facts {l l' : Lexer} {r : Int} (h : l.next = some (r, l')) (h0 : 0 ≤ l.pos) :
    l'.len = l.len ∧ l'.start = l.start ∧ NextFacts l r l' := by
  obtain ⟨r2, l2, h2, f⟩ := next_ex h0
  rw [h] at h2
  simp only [Option.some.injEq, Prod.mk.injEq] at h2
  obtain ⟨rfl, rfl⟩ := h2
  exact f

theorem emit_ex {l : Lexer} (t : ItemType) (h0 : 0 ≤ l.start) (h1 : l.start ≤ l.pos) (h2 : l.pos ≤ l.len) :
    ∃ l', l.emit t = some l' ∧ l'.len = l.len ∧ l'.pos = l.pos ∧ l'.start = l.pos ∧ l'.width = l.width :=
  emit_sat h0 h1 h2 (fun _ a b c d => ⟨a, b, c, d⟩)

theorem maybeEmitText_ex {l : Lexer} {k : Int} (hs0 : 0 ≤ l.start) (hk : 0 ≤ k) (hp : l.pos - k ≤ l.len) :
    ∃ l', maybeEmitText l k = some l' ∧ l'.len = l.len ∧ l'.pos = l.pos ∧ l'.width = l.width ∧
      (l'.start = l.start ∨ (l.start < l.pos - k ∧ l'.start = l.pos - k)) :=
  maybeEmitText_sat hs0 hk hp (fun _ a b c d => ⟨a, b, c, d⟩)

/-! ### stringLexer -/

theorem lexString_sat {n : Int} {l0 : Lexer} (q : Int) : ∀ (k : Nat) (l : Lexer), l.rem = k →
    l.len = n → 0 ≤ l.start → l.start ≤ l.pos → l.pos ≤ n → l0.pos ≤ l.pos →
    Sat (lexString q l) (Post n (.str q) l0) := by
  intro k
  induction k using Nat.strongRecOn with
  | _ k ih =>
    intro l hk hn h0 h1 h2 hle
    unfold lexString
    split
    · rename_i heq
      obtain ⟨_, _, h, _⟩ := next_ex (l := l) (by lx)
      rw [heq] at h; exact absurd h (by simp)
    · rename_i r l1 hnx
      obtain ⟨hl1, hs1, hf1⟩ := next_facts hnx (by lx)
      unfold NextFacts at hf1
      split
      · exact errorf_sat
      split
      · split
        · rename_i heq
          obtain ⟨_, _, h, _⟩ := next_ex (l := l1) (by lx)
          rw [heq] at h; exact absurd h (by simp)
        · rename_i r2 l2 hnx2
          obtain ⟨hl2, hs2, hf2⟩ := next_facts hnx2 (by lx)
          unfold NextFacts at hf2
          exact ih l2.rem (by simp only [Lexer.rem] at hk ⊢; lx) l2 rfl (by lx) (by lx) (by lx) (by lx) (by lx)
      split
      · obtain ⟨l2, he, hl2, hp2, hs2, hw2⟩ := emit_ex .tString (l := l1) (by lx) (by lx) (by lx)
        simp only [he]
        apply Sat.ofSome
        apply Post.of (by lx) (by lx) (by lx) (by lx) (by lx) (by intro _ _; lx) (by intro _ _; lx)
      · exact ih l1.rem (by simp only [Lexer.rem] at hk ⊢; lx) l1 rfl (by lx) (by lx) (by lx) (by lx) (by lx)


theorem lexString_ok {n : Int} {l : Lexer} {q : Int} (hg : Good n l) :
    Sat (lexString q l) (Post n (.str q) l) := by
  obtain ⟨hn, hs0, hsp, hpn⟩ := hg
  exact lexString_sat q l.rem l rfl hn hs0 hsp hpn (Int.le_refl _)

/-! ### lexNumber -/

/-- what `scanNumber` and its parts return, relative to the lexer `l0` at its start -/
def NumPost (n : Int) (l0 : Lexer) (adv : Bool) (res : ItemType × Bool × Lexer) : Prop :=
  res.2.2.len = n ∧ res.2.2.start = l0.start ∧ l0.pos ≤ res.2.2.pos ∧ res.2.2.pos ≤ n ∧
    (adv = true ∨ res.2.1 = false ∨ l0.pos < res.2.2.pos)

theorem scanNumberEnd_sat {n : Int} {l0 l : Lexer} {typ : ItemType} {adv : Bool} (hn : l.len = n)
    (hs : l.start = l0.start) (h0 : 0 ≤ l0.pos) (hle : l0.pos ≤ l.pos) (h2 : l.pos ≤ n)
    (hadv : adv = true ∨ l0.pos < l.pos) :
    Sat (scanNumberEnd l typ) (NumPost n l0 adv) := by
  unfold scanNumberEnd
  apply Sat.bind
  apply peek_sat (by lx)
  intro p l1 hl1 hs1 hp1 hf1
  dsimp only
  split
  · nx r l2 hl2 hs2 hf2
    apply Sat.ret
    unfold NumPost
    dsimp only
    refine ⟨by lx, by lx, by lx, by lx, Or.inr (Or.inl rfl)⟩
  · apply Sat.ret
    unfold NumPost
    dsimp only
    refine ⟨by lx, by lx, by lx, by lx, ?_⟩
    rcases hadv with h | h
    · exact Or.inl h
    · exact Or.inr (Or.inr (by lx))

theorem scanNumberExp_sat {n : Int} {l0 l : Lexer} {typ : ItemType} {adv : Bool} (hn : l.len = n)
    (hs : l.start = l0.start) (h0 : 0 ≤ l0.pos) (hle : l0.pos ≤ l.pos) (h2 : l.pos ≤ n)
    (hadv : adv = true ∨ l0.pos < l.pos) :
    Sat (scanNumberExp l typ) (NumPost n l0 adv) := by
  unfold scanNumberExp
  apply Sat.bind
  apply accept_sat (by lx) (by lx)
  intro e l1 hl1 hs1 hp1 hle1 _
  dsimp only
  split
  · apply Sat.bind
    apply accept_sat (by lx) (by lx)
    intro sg l2 hl2 hs2 hp2 hle2 _
    dsimp only
    apply Sat.bind
    apply acceptRun_sat (by lx) (by lx)
    intro ok l3 hl3 hs3 hp3 hle3 _
    dsimp only
    split
    · apply Sat.ret
      unfold NumPost
      dsimp only
      refine ⟨by lx, by lx, by lx, by lx, Or.inr (Or.inl rfl)⟩
    · apply scanNumberEnd_sat (by lx) (by lx) (by lx) (by lx) (by lx)
      rcases hadv with h | h
      · exact Or.inl h
      · exact Or.inr (by lx)
  · apply scanNumberEnd_sat (by lx) (by lx) (by lx) (by lx) (by lx)
    rcases hadv with h | h
    · exact Or.inl h
    · exact Or.inr (by lx)

theorem NumPost.fail {n : Int} {l0 l : Lexer} {typ : ItemType} (hn : l.len = n)
    (hs : l.start = l0.start) (hle : l0.pos ≤ l.pos) (h2 : l.pos ≤ n) :
    Sat (pure (typ, false, l) : Option (ItemType × Bool × Lexer)) (NumPost n l0 false) := by
  apply Sat.ret
  exact ⟨hn, hs, hle, h2, Or.inr (Or.inl rfl)⟩

theorem scanNumber_sat {n : Int} {l : Lexer} (hg : Good n l) :
    Sat (scanNumber l) (NumPost n l false) := by
  obtain ⟨hn, hs0, hsp, hpn⟩ := hg
  unfold scanNumber
  apply Sat.bind
  apply accept_sat (by lx) (by lx)
  intro hasSign l1 hl1 hs1 hp1 hle1 hsign
  dsimp only
  apply Sat.bind
  have hex : Sat (if l1.len ≥ l1.pos + 2 then do
        let s ← sliceOf l1.input l1.pos (l1.pos + 2)
        pure (s == [48, 120])
      else pure false : Option Bool) (fun _ => True) := by
    split
    · apply Sat.bind
      apply sliceOf_sat (by lx) (by lx) (by lx)
      intro _ _
      exact Sat.ret trivial
    · exact Sat.ret trivial
  apply hex.mono
  intro isHex _
  split
  · split
    · exact NumPost.fail (by lx) (by lx) (by lx) (by lx)
    · apply Sat.bind
      apply acceptRun_sat (by lx) (by lx)
      intro _ l2 hl2 hs2 hp2 hle2 _
      dsimp only
      apply Sat.bind
      apply acceptRun_sat (by lx) (by lx)
      intro ok l3 hl3 hs3 hp3 hle3 hok
      dsimp only
      split
      · exact NumPost.fail (by lx) (by lx) (by lx) (by lx)
      · rename_i hok'
        have := hok (by simpa using hok')
        apply Sat.bind
        apply accept_sat (by lx) (by lx)
        intro dot l4 hl4 hs4 hp4 hle4 _
        dsimp only
        split
        · exact NumPost.fail (by lx) (by lx) (by lx) (by lx)
        · exact scanNumberEnd_sat (by lx) (by lx) (by lx) (by lx) (by lx) (Or.inr (by lx))
  · apply Sat.bind
    apply acceptRun_sat (by lx) (by lx)
    intro ok l2 hl2 hs2 hp2 hle2 hok
    dsimp only
    split
    · exact NumPost.fail (by lx) (by lx) (by lx) (by lx)
    · rename_i hok'
      have hadv := hok (by simpa using hok')
      apply Sat.bind
      apply accept_sat (by lx) (by lx)
      intro dot l3 hl3 hs3 hp3 hle3 _
      dsimp only
      split
      · apply Sat.bind
        apply acceptRun_sat (by lx) (by lx)
        intro ok2 l4 hl4 hs4 hp4 hle4 _
        dsimp only
        split
        · exact NumPost.fail (by lx) (by lx) (by lx) (by lx)
        · exact scanNumberExp_sat (by lx) (by lx) (by lx) (by lx) (by lx) (Or.inr (by lx))
      · apply Sat.bind
        have hbad : Sat (if (!hasSign) = true then do
              let b ← indexOf l3.input l3.start
              pure (b == 48 && decide (l3.pos > l3.start + 1))
            else do
              let b ← indexOf l3.input (l3.start + 1)
              pure (b == 48 && decide (l3.pos > l3.start + 2)) : Option Bool) (fun _ => True) := by
          split
          · apply Sat.bind
            apply indexOf_sat (by lx) (by lx)
            intro _
            exact Sat.ret trivial
          · rename_i hsg
            have hsg' : hasSign = true := by simpa using hsg
            have := hsign hsg'
            apply Sat.bind
            apply indexOf_sat (by lx) (by lx)
            intro _
            exact Sat.ret trivial
        apply hbad.mono
        intro bad _
        split
        · exact NumPost.fail (by lx) (by lx) (by lx) (by lx)
        · exact scanNumberExp_sat (by lx) (by lx) (by lx) (by lx) (by lx) (Or.inr (by lx))

theorem lexNumber_ok {n : Int} {l : Lexer} (hg : Good n l) :
    Sat (lexNumber l) (Post n .number l) := by
  have hg' := hg
  obtain ⟨hn, hs0, hsp, hpn⟩ := hg
  unfold lexNumber
  apply Sat.bind
  apply (scanNumber_sat hg').mono
  intro ⟨typ, ok, l1⟩ hp
  unfold NumPost at hp
  dsimp only at hp ⊢
  obtain ⟨hl1, hs1, hle1, hn1, hadv⟩ := hp
  split
  · apply Sat.bind
    apply sliceOf_sat (by lx) (by lx) (by lx)
    intro _ _
    exact errorf_sat
  · rename_i hok
    have hok' : ok = true := by simpa using hok
    have : l.pos < l1.pos := by
      rcases hadv with h | h | h
      · exact absurd h (by simp)
      · rw [hok'] at h; exact absurd h (by simp)
      · exact h
    exact emitInside_sat (by lx) (by lx) (by lx) (by lx) (by lx)

end SoyVerif.Model.Lex
