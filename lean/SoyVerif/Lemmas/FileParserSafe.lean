/-
  The program logic of Lemmas/ParserSafe.lean lifted to the file parser's monad, and the
  specifications of the file parser's loops that do not contain nested blocks.
-/
import SoyVerif.Lemmas.ParserExprSafe
import SoyVerif.Props.C05
import SoyVerif.Props.C15

set_option linter.unusedSimpArgs false
set_option linter.unusedVariables false

namespace SoyVerif.Lemmas.ParserSafe
open SoyVerif SoyVerif.Model SoyVerif.Model.Parser SoyVerif.Model.FileParser

def FSafe {α : Type} (AP : Prop) (EL : Lvl) (S : Item → Prop) (x : FP α) (st : FState) (Q : α → FState → Prop) : Prop :=
  match x st with
  | .ok (a, st') => Q a st'
  | .error (.err p) => ErrOK EL S p
  | .error .panic => AP
  | .error .fuelOut => False

theorem fbind_run {α β : Type} (x : FP α) (f : α → FP β) (st : FState) :
    (x >>= f) st = match x st with
      | .ok (a, s) => f a s
      | .error e => .error e := by
  show StateT.bind x f st = _
  unfold StateT.bind
  cases x st with
  | error e => rfl
  | ok r => obtain ⟨a, s⟩ := r; rfl

theorem FSafe.bind {α β : Type} {S : Item → Prop} {x : FP α} {f : α → FP β} {st : FState}
    {Q : β → FState → Prop} (h : FSafe AP EL S x st (fun a st' => FSafe AP EL S (f a) st' Q)) :
    FSafe AP EL S (x >>= f) st Q := by
  unfold FSafe at h ⊢
  rw [fbind_run]
  cases hx : x st with
  | error e =>
    rw [hx] at h
    cases e <;> simpa using h
  | ok r =>
    obtain ⟨a, st'⟩ := r
    rw [hx] at h
    exact h

theorem FSafe.pure {α : Type} {S : Item → Prop} {a : α} {st : FState} {Q : α → FState → Prop}
    (h : Q a st) : FSafe AP EL S (pure a : FP α) st Q := h

theorem FSafe.mono {α : Type} {S : Item → Prop} {x : FP α} {st : FState} {Q Q' : α → FState → Prop}
    (h : FSafe AP EL S x st Q) (hq : ∀ a st', Q a st' → Q' a st') : FSafe AP EL S x st Q' := by
  unfold FSafe at h ⊢
  split <;> simp_all

theorem FSafe.panic {α : Type} {AP : Prop} {S : Item → Prop} {st : FState} {Q : α → FState → Prop} (h : AP) :
    FSafe AP EL S (ffail FErr.panic : FP α) st Q := h

/-- a token-level action of Model/Parser.lean run on the embedded state -/
theorem FSafe.lift {α : Type} {S : Item → Prop} {x : P α} {st : FState} {Q : α → FState → Prop}
    (h : PSafe AP EL S x st.p (fun a p' => Q a { st with p := p' })) : FSafe AP EL S (liftP x) st Q := by
  unfold PSafe at h
  unfold FSafe liftP
  cases hx : x st.p with
  | error e =>
    rw [hx] at h
    cases e <;> simpa using h
  | ok r =>
    obtain ⟨a, p'⟩ := r
    rw [hx] at h
    exact h

theorem fmodify_safe {S : Item → Prop} {st : FState} {g : FState → FState} {Q : PUnit → FState → Prop}
    (h : Q PUnit.unit (g st)) : FSafe AP EL S (modify g : FP PUnit) st Q := by
  have e : (modify g : FP PUnit) st = .ok (PUnit.unit, g st) := rfl
  unfold FSafe
  rw [e]
  exact h

theorem fget_safe {S : Item → Prop} {st : FState} {Q : FState → FState → Prop}
    (h : Q st st) : FSafe AP EL S (get : FP FState) st Q := by
  have e : (get : FP FState) st = .ok (st, st) := rfl
  unfold FSafe
  rw [e]
  exact h

section
variable {S : Item → Prop} (hz : S Item.zero)
include hz

theorem fnext_safe {st : FState} {Q : Item → FState → Prop} (hi : Inv EL S st.p)
    (hq : ∀ it st', InvW EL S st'.p → S it → st'.p.peekCount = st.p.peekCount - 1 → top st'.p = it →
      mu st'.p + real it = mu st.p → (∀ x, Hd st.p x → it = x) → Q it st') :
    FSafe AP EL S FileParser.next st Q := by
  apply FSafe.lift
  apply next_safe hz hi
  intro it p' a b c d e f
  exact hq it { st with p := p' } a b c d e f

theorem fnext_safe0 {st : FState} {Q : Item → FState → Prop} (hi : Inv0 EL S st.p)
    (hq : ∀ it st', InvW EL S st'.p → S it → st'.p.peekCount = st.p.peekCount - 1 → top st'.p = it →
      mu st'.p + real it = mu st.p → (∀ x, Hd st.p x → it = x) → Q it st') :
    FSafe AP EL S FileParser.next st Q := by
  apply FSafe.lift
  apply next_safe0 hz hi
  intro it p' a b c d e f
  exact hq it { st with p := p' } a b c d e f

/-- `next` at a coarser level of the invariant than that of the judgement -/
theorem fnext_safe' {EL' : Lvl} {st : FState} {Q : Item → FState → Prop} (hi : Inv EL' S st.p)
    (hq : ∀ it st', InvW EL' S st'.p → S it → st'.p.peekCount = st.p.peekCount - 1 → top st'.p = it →
      mu st'.p + real it = mu st.p → (∀ x, Hd st.p x → it = x) → Q it st') :
    FSafe AP EL S FileParser.next st Q := by
  apply FSafe.lift
  apply next_safe hz hi
  intro it p' a b c d e f
  exact hq it { st with p := p' } a b c d e f

theorem fexpect_safe {st : FState} {t : ItemType} {Q : Item → FState → Prop} (hi : Inv EL S st.p)
    (hmid : midT t = true)
    (hq : ∀ it st', Inv EL S st'.p → S it → st'.p.peekCount = st.p.peekCount - 1 → top st'.p = it →
      mu st'.p + real it = mu st.p → it.typ = t → Q it st') :
    FSafe AP EL S (FileParser.expect t) st Q := by
  apply FSafe.lift
  apply expect_safe hz hi hmid
  intro it p' a b c d e f
  exact hq it { st with p := p' } a b c d e f

theorem fpeek_safe {st : FState} {Q : Item → FState → Prop} (hi : Inv EL S st.p)
    (hq : ∀ it st', Inv EL S st'.p → S it → mu st'.p = mu st.p → Hd st'.p it → 1 ≤ st'.p.peekCount → Q it st') :
    FSafe AP EL S FileParser.peek st Q := by
  apply FSafe.lift
  apply peek_safe hz hi
  intro it p' a b c d e
  exact hq it { st with p := p' } a b c d e

omit hz in
theorem fbackup_safe {EL' : Lvl} {st : FState} {Q : Unit → FState → Prop} (hi : InvW EL' S st.p) (hpc : st.p.peekCount ≤ 1)
    (hq : ∀ st', Inv EL' S st'.p → mu st'.p = mu st.p + real (top st.p) → Hd st'.p (top st.p) → Q () st') :
    FSafe AP EL S FileParser.backup st Q := by
  apply FSafe.lift
  apply backup_safe hi hpc
  intro p' a b c
  exact hq { st with p := p' } a b c

omit hz in
theorem fbackup2_safe {st : FState} {t1 : Item} {Q : Unit → FState → Prop} (hi : InvW EL S st.p) (ht : S t1)
    (hne : t1.typ ≠ .tEOF) (hv : EL.lex → valid t1) (hpc : st.p.peekCount = 0)
    (hq : ∀ st', Inv EL S st'.p → mu st'.p = mu st.p + real t1 + real (top st.p) → Hd st'.p t1 → Q () st') :
    FSafe AP EL S (FileParser.backup2 t1) st Q := by
  apply FSafe.lift
  apply backup2_safe hi ht hne hv hpc
  intro p' a b c
  exact hq { st with p := p' } a b c

omit hz in
theorem ferrorf_safe {α : Type} {I : Prop} {st : FState} {Q : α → FState → Prop} [ErrInv I EL S st.p] (hi : I) :
    FSafe AP EL S (FileParser.errorf : FP α) st Q :=
  FSafe.lift (errorf_safe hi)

omit hz in
theorem funexpected_safe {α : Type} {st : FState} {tok : Item} {Q : α → FState → Prop} (hi : InvW EL S st.p)
    (ht : S tok) (he : top st.p = tok := by assumption) : FSafe AP EL S (FileParser.unexpected tok : FP α) st Q :=
  FSafe.lift (unexpected_safe hi ht he)

omit hz in
theorem funexpected_safe' {α : Type} {st : FState} {tok : Item} {Q : α → FState → Prop}
    (ht : S tok) (hv : EL.lex → valid tok) : FSafe AP EL S (FileParser.unexpected tok : FP α) st Q :=
  FSafe.lift (unexpected_safe' ht hv)

omit hz in
theorem funexpected_textStart_safe {α : Type} {st : FState} {tok : Item} {Q : α → FState → Prop}
    (ht : S tok) (hv : EL.lex → valid tok) (htx : tok.typ = .tText) :
    FSafe AP EL S (FileParser.unexpected (atTextStart tok) : FP α) st Q :=
  FSafe.lift (unexpected_textStart_safe ht hv htx)

omit hz in
/-- `t.errorfAt(pos, …)`: an error at a position the caller vouches for -/
theorem ferrorfAt_safe {α : Type} {st : FState} {pos : Nat} {Q : α → FState → Prop} (hp : VPos EL S pos) :
    FSafe AP EL S (FileParser.errorfAt pos : FP α) st Q := hp

omit hz in
theorem ftail1_safe {st : FState} {s : Bytes} {Q : Bytes → FState → Prop} (hne : s = [] → AP)
    (hq : ∀ b r, s = b :: r → Q r st) :
    FSafe AP EL S (FileParser.tail1 s) st Q := by
  apply FSafe.lift
  apply tail1_safe hne
  intro b r h
  exact hq b r h

omit hz in
/-- `rawtext` never indexes out of range (Props/C15 `rawtext_no_panic`) -/
theorem rawtextP_safe {st : FState} {s : Bytes} {a b : Bool} {Q : Bytes → FState → Prop} (hq : ∀ r, Q r st) :
    FSafe AP EL S (rawtextP s a b) st Q := by
  unfold rawtextP
  split
  · exact hq _
  · rename_i hnone
    have := Props.C15.rawtext_no_panic s a b
    rw [hnone] at this
    simp at this

variable (pf : Bytes → Option UInt64) (ef N : Nat) (hN : 8 * N + 10 ≤ ef)
variable (hwf : ∀ it, S it → AP ∨ WFItem it)
-- the nested lexer of parseQuotedExpr delivers well-formed tokens (`lex_wf`, or a hypothesis)
variable (hlex : ∀ (str : Bytes) (is : List Item), Lex.lexAll str true = .items is → ∀ it ∈ is, AP ∨ WFItem it)
include hN hwf

/-- `t.parseExpr(0)` inside the file parser -/
theorem parseExpr0_safe {st : FState} {Q : Expr → FState → Prop} (hi : Inv EL S st.p) (hm : mu st.p ≤ N)
    (hq : ∀ e st', Inv EL S st'.p → (mu st'.p + 1 ≤ mu st.p ∧ EP S e) → Q e st') :
    FSafe AP EL S (parseExpr0 pf ef) st Q := by
  unfold parseExpr0
  apply FSafe.lift
  apply ((exprSpecs_all pf AP EL S hz hwf ef).parseExpr 0 st.p hi (by omega)).mono
  intro e p' ⟨a, b⟩
  exact hq e { st with p := p' } a b

omit hN hwf in
include hlex in
/-- `parseQuotedExpr(str)`: the nested lexer and parser terminate; a nested error is
    re-raised at the current token, and the tree of a successful parse is moved to that token -/
theorem parseQuotedExpr_safe {st : FState} {str : Bytes} {Q : Expr → FState → Prop} (hi : Inv EL S st.p)
    (hq : ∀ e, EP S e → Q e st) : FSafe AP EL S (parseQuotedExpr pf str) st Q := by
  unfold FSafe parseQuotedExpr
  obtain ⟨is, hl, _⟩ := Props.C05.lex_items str true
  rw [hl]
  have hwf' : ∀ it, (it ∈ is ∨ it = Item.zero) → AP ∨ WFItem it := by
    intro it h
    rcases h with h | h
    · exact hlex str is hl it h
    · subst h; exact Or.inr wf_zero
  have hspec := (exprSpecs_all pf AP ⟨False, False⟩ (fun it => it ∈ is ∨ it = Item.zero) (Or.inr rfl) hwf'
    (Parser.fuelFor is.length)).parseExpr 0
    (initState is) ((inv_init _ is (Or.inr rfl) (fun x hx => Or.inl hx) (fun h => absurd h id) (fun h => absurd h id)).crude id)
    (by have := mu_init is; unfold Parser.fuelFor; omega)
  unfold PSafe at hspec
  simp only [StateT.run]
  cases hx : Parser.parseExpr pf (Parser.fuelFor is.length) 0 (initState is) with
  | ok r =>
    obtain ⟨e, s'⟩ := r
    obtain ⟨p, hp, hpo⟩ := errPos_ok (S := S) hi.1 hi.2.2.1
    simp only [hp]
    exact hq _ (EP_reposition hpo e)
  | error e =>
    rw [hx] at hspec
    cases e with
    | err p =>
      have := ferrorf_safe (AP := AP) (α := Expr) (Q := Q) hi
      unfold FSafe at this
      exact this
    | panic => exact hspec
    | fuelOut => exact hspec

end
end SoyVerif.Lemmas.ParserSafe
