/-
  Termination / error-position specifications of the mutually recursive block parsers of the
  file parser (`itemList`, `textOrTag`, `beginTag`, `parseTemplate`, `parseLet`, `parseIf`,
  `parseFor`, `parseSwitch`/`parseCase`, `parseCall`/`parseCallParams`, `parseMsg`,
  `parsePlural`), all at once by induction on the fuel.
-/
import SoyVerif.Lemmas.FileParserLoops

set_option linter.unusedSimpArgs false
set_option linter.unusedVariables false

namespace SoyVerif.Lemmas.ParserSafe
open SoyVerif SoyVerif.Model SoyVerif.Model.Parser SoyVerif.Model.FileParser

section
variable (AP : Prop) (EL : Lvl) (S : Item → Prop) (pf : Bytes → Option UInt64) (ef N : Nat)

/-- plain post-condition: invariant kept, no real token un-consumed -/
def FPost (st : FState) {α : Type} : α → FState → Prop :=
  fun _ st' => Inv EL S st'.p ∧ mu st'.p ≤ mu st.p

/-- post-condition of `parseCallParams`: the parameter nodes -/
def PPost (st : FState) : NodeList → FState → Prop :=
  fun r st' => Inv EL S st'.p ∧ mu st'.p ≤ mu st.p ∧ NPL S r

/-- post-condition of `itemList`: a well-shaped list; the token that ended it may be backed up -/
def ListPost (untl : List ItemType) (st : FState) : Node → FState → Prop :=
  fun r st' => (listOK r ∧ NP S r) ∧ InvW EL S st'.p ∧ st'.p.peekCount ≤ 1 ∧ mu st'.p + real (top st'.p) ≤ mu st.p ∧
    untl.contains (top st'.p).typ = true

/-- post-condition of the command parsers: the node may become a child of a message body -/
def NPost (st : FState) : Node → FState → Prop :=
  fun r st' => (childOK r ∧ NP S r) ∧ Inv EL S st'.p ∧ mu st'.p ≤ mu st.p

def BPost (st : FState) : Option Node → FState → Prop :=
  fun r st' => (∀ n, r = some n → childOK n ∧ NP S n) ∧ Inv EL S st'.p ∧ mu st'.p ≤ mu st.p

def SwPost (st : FState) : Node → FState → Prop :=
  fun r st' => ((∃ p v cs, r = .switch p v cs ∧ casesOK cs ∧ casesV EL S cs ∧ VPos EL S p) ∧ NP S r) ∧ Inv EL S st'.p ∧ mu st'.p ≤ mu st.p

def CasePost (st : FState) : Node → FState → Prop :=
  fun r st' => ((∃ p vs b, r = .switchCase p vs b ∧ listOK b ∧ VPos EL S p) ∧ NP S r) ∧ Inv EL S st'.p ∧ mu st'.p ≤ mu st.p

structure FileSpecs (fuel : Nat) : Prop where
  itemListLoop : ∀ untl lpos nodes st, (childrenOK nodes ∧ NPL S nodes ∧ ∀ p, lpos = some p → PosOK S p) → Inv EL S st.p → mu st.p ≤ N → 8 * mu st.p + 20 ≤ fuel →
    FSafe AP EL S (itemListLoop pf ef fuel untl lpos nodes) st (ListPost EL S untl st)
  textOrTag : ∀ token untl st, S token → InvW EL S st.p → st.p.peekCount ≤ 1 → top st.p = token →
    mu st.p + real token ≤ N → 8 * (mu st.p + real token) + 19 ≤ fuel →
    FSafe AP EL S (textOrTag pf ef fuel token untl) st (fun r st' => (∀ n, r.1 = some n → childOK n ∧ NP S n) ∧
      (if r.2 = true then InvW EL S st'.p else Inv EL S st'.p) ∧
      (r.2 = true → st'.p.peekCount ≤ 1 ∧ mu st'.p + real (top st'.p) ≤ mu st.p + real token ∧
        untl.contains (top st'.p).typ = true) ∧
      (r.2 = false → mu st'.p + 1 ≤ mu st.p + real token))
  beginTag : ∀ st, Inv EL S st.p → mu st.p ≤ N → 8 * mu st.p + 20 ≤ fuel →
    FSafe AP EL S (beginTag pf ef fuel) st (BPost EL S st)
  parseTemplate : ∀ token st, S token → Inv EL S st.p → mu st.p ≤ N → 8 * mu st.p + 20 ≤ fuel →
    FSafe AP EL S (parseTemplate pf ef fuel token) st (NPost EL S st)
  parseLet : ∀ token st, S token → Inv EL S st.p → mu st.p ≤ N → 8 * mu st.p + 20 ≤ fuel →
    FSafe AP EL S (parseLet pf ef fuel token) st (NPost EL S st)
  ifLoop : ∀ pos isElse conds st, (PosOK S pos ∧ NPL S conds) → Inv EL S st.p → mu st.p ≤ N → 8 * mu st.p + 20 ≤ fuel →
    FSafe AP EL S (ifLoop pf ef fuel pos isElse conds) st (NPost EL S st)
  parseFor : ∀ token st, S token → Inv EL S st.p → mu st.p ≤ N → 8 * mu st.p + 20 ≤ fuel →
    FSafe AP EL S (parseFor pf ef fuel token) st (NPost EL S st)
  parseSwitch : ∀ token endT st, midT endT = true → (S token ∧ (EL.lex → valid token)) → Inv EL S st.p → mu st.p ≤ N → 8 * mu st.p + 19 ≤ fuel →
    FSafe AP EL S (parseSwitch pf ef fuel token endT) st (SwPost EL S st)
  switchLoop : ∀ pos value endT sd cases st, midT endT = true → (casesOK cases ∧ NPL S cases ∧ PosOK S pos ∧ EP S value ∧ casesV EL S cases ∧ VPos EL S pos) → Inv EL S st.p → mu st.p ≤ N → 8 * mu st.p + 20 ≤ fuel →
    FSafe AP EL S (switchLoop pf ef fuel pos value endT sd cases) st (SwPost EL S st)
  caseLoop : ∀ token values st, (S token ∧ EPl S values ∧ (EL.lex → valid token)) → Inv EL S st.p → mu st.p ≤ N → 8 * mu st.p + 20 ≤ fuel →
    FSafe AP EL S (caseLoop pf ef fuel token values) st (CasePost EL S st)
  parseCall : ∀ token st, S token → Inv EL S st.p → mu st.p ≤ N → 8 * mu st.p + 20 ≤ fuel →
    FSafe AP EL S (parseCall pf ef fuel token) st (NPost EL S st)
  callParamsLoop : ∀ params st, NPL S params → Inv EL S st.p → mu st.p ≤ N → 8 * mu st.p + 20 ≤ fuel →
    FSafe AP EL S (callParamsLoop pf ef fuel params) st (PPost EL S st)
  orphanLoop : ∀ initial st, S initial → InvW EL S st.p → st.p.peekCount ≤ 1 → top st.p = initial →
    8 * (mu st.p + real initial) + 19 ≤ fuel →
    FSafe AP EL S (orphanLoop pf ef fuel initial) st (fun tok st' => S tok ∧ InvW EL S st'.p ∧ st'.p.peekCount ≤ 1 ∧
      top st'.p = tok ∧ mu st'.p + real tok ≤ mu st.p + real initial)
  parseMsg : ∀ token st, S token → (EL.lex → valid token) → Inv EL S st.p → mu st.p ≤ N → 8 * mu st.p + 20 ≤ fuel →
    FSafe AP EL S (parseMsg pf ef fuel token) st (NPost EL S st)
  parsePlural : ∀ tok st, S tok → (EL.lex → valid tok) → Inv EL S st.p → mu st.p ≤ N → 8 * mu st.p + 20 ≤ fuel →
    FSafe AP EL S (parsePlural pf ef fuel tok) st (NPost EL S st)

variable (hz : S Item.zero) (hN : 8 * N + 10 ≤ ef)
variable (hwf : ∀ it, S it → AP ∨ WFItem it)
variable (hlex : ∀ (str : Bytes) (is : List Item), Lex.lexAll str true = .items is → ∀ it ∈ is, AP ∨ WFItem it)
include hz hN hwf hlex

theorem itemListLoop_ok {fuel : Nat} (ih : FileSpecs AP EL S pf ef N fuel) (untl : List ItemType) (lpos : Option Nat)
    (nodes : NodeList) (st : FState) (hnodes : childrenOK nodes ∧ NPL S nodes ∧ ∀ p, lpos = some p → PosOK S p)
    (hi : Inv EL S st.p) (hn : mu st.p ≤ N) (hf : 8 * mu st.p + 20 ≤ fuel + 1) :
    FSafe AP EL S (itemListLoop pf ef (fuel + 1) untl lpos nodes) st (ListPost EL S untl st) := by
  unfold FileParser.itemListLoop
  apply FSafe.bind
  apply fnext_safe hz hi
  intro token st1 hi1 hs1 hpc1 ht1 hm1 _
  have hlp : PosOK S (lpos.getD token.pos) := by
    cases lpos with
    | none => exact posOK_of hs1
    | some p => exact hnodes.2.2 p rfl
  simp only
  apply FSafe.bind
  apply (ih.textOrTag token untl st1 hs1 hi1 (by have := hi.1; omega) ht1 (by omega) (by omega)).mono
  intro r st2 ⟨hsh, hi2, hh, hc⟩
  obtain ⟨node, halt⟩ := r
  cases halt with
  | true =>
    have := hh rfl
    simp only [if_true] at hi2 ⊢
    exact FSafe.pure ⟨⟨hnodes.1, by simp only [NP]; exact ⟨hlp, hnodes.2.1⟩⟩, hi2, this.1, by omega, this.2.2⟩
  | false =>
    have := hc rfl
    simp only [Bool.false_eq_true, if_false] at hi2 ⊢
    split
    · rename_i n
      have hn1 := hsh n rfl
      apply (ih.itemListLoop _ _ _ st2 ⟨childrenOK_append _ _ _ rfl hnodes.1 (show childrenOK (.cons n .nil) from ⟨hn1.1, trivial⟩),
        NPL_append _ _ hnodes.2.1 (by simp only [NPL]; exact ⟨hn1.2, trivial⟩), fun p h => by simp only [Option.some.injEq] at h; rw [← h]; exact hlp⟩
        hi2 (by omega) (by omega)).mono
      intro r st3 ⟨l, a, b, c, d⟩
      exact ⟨l, a, b, by omega, d⟩
    · apply (ih.itemListLoop _ _ _ st2 ⟨hnodes.1, hnodes.2.1, fun p h => by simp only [Option.some.injEq] at h; rw [← h]; exact hlp⟩ hi2 (by omega) (by omega)).mono
      intro r st3 ⟨l, a, b, c, d⟩
      exact ⟨l, a, b, by omega, d⟩

/-- the top-level list: its first `next` is the first read of the channel -/
theorem itemListLoop_ok0 {fuel : Nat} (ih : FileSpecs AP EL S pf ef N fuel) (untl : List ItemType) (lpos : Option Nat)
    (nodes : NodeList) (st : FState) (hnodes : childrenOK nodes ∧ NPL S nodes ∧ ∀ p, lpos = some p → PosOK S p)
    (hi : Inv0 EL S st.p) (hn : mu st.p ≤ N) (hf : 8 * mu st.p + 20 ≤ fuel + 1) :
    FSafe AP EL S (itemListLoop pf ef (fuel + 1) untl lpos nodes) st (ListPost EL S untl st) := by
  unfold FileParser.itemListLoop
  apply FSafe.bind
  apply fnext_safe0 hz hi
  intro token st1 hi1 hs1 hpc1 ht1 hm1 _
  have hlp : PosOK S (lpos.getD token.pos) := by
    cases lpos with
    | none => exact posOK_of hs1
    | some p => exact hnodes.2.2 p rfl
  simp only
  apply FSafe.bind
  apply (ih.textOrTag token untl st1 hs1 hi1 (by have := hi.1; omega) ht1 (by omega) (by omega)).mono
  intro r st2 ⟨hsh, hi2, hh, hc⟩
  obtain ⟨node, halt⟩ := r
  cases halt with
  | true =>
    have := hh rfl
    simp only [if_true] at hi2 ⊢
    exact FSafe.pure ⟨⟨hnodes.1, by simp only [NP]; exact ⟨hlp, hnodes.2.1⟩⟩, hi2, this.1, by omega, this.2.2⟩
  | false =>
    have := hc rfl
    simp only [Bool.false_eq_true, if_false] at hi2 ⊢
    split
    · rename_i n
      have hn1 := hsh n rfl
      apply (ih.itemListLoop _ _ _ st2 ⟨childrenOK_append _ _ _ rfl hnodes.1 (show childrenOK (.cons n .nil) from ⟨hn1.1, trivial⟩),
        NPL_append _ _ hnodes.2.1 (by simp only [NPL]; exact ⟨hn1.2, trivial⟩), fun p h => by simp only [Option.some.injEq] at h; rw [← h]; exact hlp⟩
        hi2 (by omega) (by omega)).mono
      intro r st3 ⟨l, a, b, c, d⟩
      exact ⟨l, a, b, by omega, d⟩
    · apply (ih.itemListLoop _ _ _ st2 ⟨hnodes.1, hnodes.2.1, fun p h => by simp only [Option.some.injEq] at h; rw [← h]; exact hlp⟩ hi2 (by omega) (by omega)).mono
      intro r st3 ⟨l, a, b, c, d⟩
      exact ⟨l, a, b, by omega, d⟩

theorem textOrTag_ok {fuel : Nat} (ih : FileSpecs AP EL S pf ef N fuel) (token : Item) (untl : List ItemType)
    (st : FState) (hs : S token) (hi : InvW EL S st.p) (hpc : st.p.peekCount ≤ 1) (htop : top st.p = token)
    (hn : mu st.p + real token ≤ N) (hf : 8 * (mu st.p + real token) + 19 ≤ fuel + 1) :
    FSafe AP EL S (textOrTag pf ef (fuel + 1) token untl) st (fun r st' => (∀ n, r.1 = some n → childOK n ∧ NP S n) ∧
      (if r.2 = true then InvW EL S st'.p else Inv EL S st'.p) ∧
      (r.2 = true → st'.p.peekCount ≤ 1 ∧ mu st'.p + real (top st'.p) ≤ mu st.p + real token ∧
        untl.contains (top st'.p).typ = true) ∧
      (r.2 = false → mu st'.p + 1 ≤ mu st.p + real token)) := by
  unfold FileParser.textOrTag
  simp only
  apply FSafe.bind
  apply skipComments_safe hz fuel token st _ hs hi hpc htop (by omega)
  intro tok st1 hs1 hi1 hpc1 ht1 hm1
  split
  · rename_i hu
    exact FSafe.pure ⟨fun n h => by simp at h, by simpa using hi1, fun _ => ⟨hpc1, by rw [ht1]; omega, by rw [ht1]; exact hu⟩, fun h => by simp at h⟩
  · by_cases hreal : real tok = 1
    · apply FSafe.bind
      apply fnext_safe hz (upw% hi1)
      intro token2 st2 hi2 hs2 hpc2 ht2 hm2 _
      split
      · rename_i hu2
        simp only [Bool.and_eq_true] at hu2
        exact FSafe.pure ⟨fun n h => by simp at h, by simpa using hi2, fun _ => ⟨by omega, by rw [ht2]; omega, by rw [ht2]; exact hu2.2⟩, fun h => by simp at h⟩
      · apply FSafe.bind
        apply fbackup_safe hi2 (by omega)
        intro st3 hi3 hm3 _
        rw [ht2] at hm3
        split
        · rename_i hc
          have hr := real_of_beq hc (by decide)
          apply FSafe.bind
          apply collectText_safe hz fuel _ st3 _ hi3 (by omega)
          intro txt nxt st4 hs4 hi4 hpc4 ht4 hm4
          simp only
          apply FSafe.bind
          apply fbackup_safe hi4 hpc4
          intro st5 hi5 hm5 _
          rw [ht4] at hm5
          apply FSafe.bind
          apply rawtextP_safe
          intro tv
          split
          · exact FSafe.pure ⟨fun n h => by simp at h, by simpa using hi5, fun h => by simp at h, fun _ => by omega⟩
          · exact FSafe.pure ⟨fun n h => by simp only [Option.some.injEq] at h; subst h; exact ⟨trivial, by simp only [NP]; exact posOK_of hs1⟩, by simpa using hi5, fun h => by simp at h, fun _ => by omega⟩
        split
        · rename_i hc
          have hr := real_of_beq hc (by decide)
          apply FSafe.bind
          apply (ih.beginTag st3 hi3 (by omega) (by omega)).mono
          intro n st4 ⟨hsh4, hi4, hm4⟩
          exact FSafe.pure ⟨hsh4, by simpa using hi4, fun h => by simp at h, fun _ => by omega⟩
        split
        · rename_i hc
          have hr := real_of_beq hc (by decide)
          apply FSafe.bind
          apply soyDocLoop_safe hz _ fuel [] st3 _ (posOK_of hs1) hi3 (by omega)
          intro n st4 hc4 hi4 hm4
          exact FSafe.pure ⟨fun n' h => by simp only [Option.some.injEq] at h; subst h; exact hc4, by simpa using hi4, fun h => by simp at h, fun _ => by omega⟩
        · exact funexpected_safe' hs1 (fun hl => ht1 ▸ hi1.valid_top hl)
    · -- `tok` is the EOF or Error item that ends the stream: the look-ahead `token2` may be
      -- the zero item of the closed channel, but all that follows is `unexpected(tok)`
      have hv : EL.lex → valid tok := fun hl => ht1 ▸ hi1.valid_top hl
      have hr0 : real tok = 0 := by have := real_le tok; omega
      apply FSafe.bind
      apply fnext_safe' hz hi1.crude
      intro token2 st2 hi2 hs2 hpc2 ht2 hm2 _
      split
      · rename_i hu2
        simp only [Bool.and_eq_true] at hu2
        have := real_of_beq hu2.1 (by decide)
        omega
      · apply FSafe.bind
        apply fbackup_safe hi2 (by omega)
        intro st3 hi3 hm3 _
        split
        · rename_i hc
          have := real_of_beq hc (by decide)
          omega
        split
        · rename_i hc
          have := real_of_beq hc (by decide)
          omega
        split
        · rename_i hc
          have := real_of_beq hc (by decide)
          omega
        · exact funexpected_safe' hs1 hv


theorem beginTag_ok {fuel : Nat} (ih : FileSpecs AP EL S pf ef N fuel) (st : FState) (hi : Inv EL S st.p)
    (hn : mu st.p ≤ N) (hf : 8 * mu st.p + 20 ≤ fuel + 1) :
    FSafe AP EL S (beginTag pf ef (fuel + 1)) st (BPost EL S st) := by
  unfold FileParser.beginTag
  apply FSafe.bind
  apply fnext_safe hz hi
  intro token st1 hi1 hs1 hpc1 ht1 hm1 _
  have hnot : ∀ (Q : PUnit → FState → Prop), Q PUnit.unit st1 →
      FSafe AP EL S (do let st ← get; if st.inmsg = true then FileParser.unexpected token else pure PUnit.unit : FP PUnit) st1 Q := by
    intro Q h
    apply FSafe.bind
    apply fget_safe
    split
    · exact funexpected_safe hi1 hs1
    · exact FSafe.pure h
  simp only
  split
  · -- namespace
    rename_i ht; have hr := real_of_eq ht (by decide)
    apply FSafe.bind
    apply parseNamespace_safe hz fuel token st1 _ hs1 (upw% hi1) (by omega)
    intro n st2 hc2 hi2 hm2
    exact FSafe.pure ⟨fun n' h => by cases h; exact hc2, hi2, by omega⟩
  · rename_i ht; have hr := real_of_eq ht (by decide)
    apply FSafe.bind
    apply (ih.parseTemplate token st1 hs1 (upw% hi1) (by omega) (by omega)).mono
    intro n st2 ⟨hc2, hi2, hm2⟩
    exact FSafe.pure ⟨fun n' h => by cases h; first | exact hc2 | exact ⟨by obtain ⟨_, _, _, rfl, _⟩ := hc2.1; trivial, hc2.2⟩, hi2, by omega⟩
  · rename_i ht; have hr := real_of_eq ht (by decide)
    apply FSafe.bind
    apply parseHeaderParam_safe hz pf ef N hN hwf hlex token st1 _ hs1 (upw% hi1) (by omega)
    intro n st2 hc2 hi2 hm2
    exact FSafe.pure ⟨fun n' h => by cases h; exact hc2, hi2, by omega⟩
  · rename_i ht; have hr := real_of_eq ht (by decide)
    apply FSafe.bind
    apply parseHeaderParam_safe hz pf ef N hN hwf hlex token st1 _ hs1 (upw% hi1) (by omega)
    intro n st2 hc2 hi2 hm2
    exact FSafe.pure ⟨fun n' h => by cases h; exact hc2, hi2, by omega⟩
  · -- if
    rename_i ht; have hr := real_of_eq ht (by decide)
    apply FSafe.bind
    apply hnot
    apply FSafe.bind
    apply (ih.ifLoop _ _ _ st1 ⟨posOK_of hs1, NPL_nil⟩ (upw% hi1) (by omega) (by omega)).mono
    intro n st2 ⟨hc2, hi2, hm2⟩
    exact FSafe.pure ⟨fun n' h => by cases h; first | exact hc2 | exact ⟨by obtain ⟨_, _, _, rfl, _⟩ := hc2.1; trivial, hc2.2⟩, hi2, by omega⟩
  · -- msg
    rename_i ht; have hr := real_of_eq ht (by decide)
    apply FSafe.bind
    apply hnot
    apply FSafe.bind
    apply (ih.parseMsg token st1 hs1 (fun _ => real_valid hr) (upw% hi1) (by omega) (by omega)).mono
    intro n st2 ⟨hc2, hi2, hm2⟩
    exact FSafe.pure ⟨fun n' h => by cases h; first | exact hc2 | exact ⟨by obtain ⟨_, _, _, rfl, _⟩ := hc2.1; trivial, hc2.2⟩, hi2, by omega⟩
  · -- plural
    rename_i ht; have hr := real_of_eq ht (by decide)
    apply FSafe.bind
    apply (ih.parsePlural token st1 hs1 (fun _ => real_valid hr) (upw% hi1) (by omega) (by omega)).mono
    intro n st2 ⟨hc2, hi2, hm2⟩
    exact FSafe.pure ⟨fun n' h => by cases h; first | exact hc2 | exact ⟨by obtain ⟨_, _, _, rfl, _⟩ := hc2.1; trivial, hc2.2⟩, hi2, by omega⟩
  · rename_i ht; have hr := real_of_eq ht (by decide)
    apply FSafe.bind
    apply hnot
    apply FSafe.bind
    apply (ih.parseFor token st1 hs1 (upw% hi1) (by omega) (by omega)).mono
    intro n st2 ⟨hc2, hi2, hm2⟩
    exact FSafe.pure ⟨fun n' h => by cases h; first | exact hc2 | exact ⟨by obtain ⟨_, _, _, rfl, _⟩ := hc2.1; trivial, hc2.2⟩, hi2, by omega⟩
  · rename_i ht; have hr := real_of_eq ht (by decide)
    apply FSafe.bind
    apply hnot
    apply FSafe.bind
    apply (ih.parseFor token st1 hs1 (upw% hi1) (by omega) (by omega)).mono
    intro n st2 ⟨hc2, hi2, hm2⟩
    exact FSafe.pure ⟨fun n' h => by cases h; first | exact hc2 | exact ⟨by obtain ⟨_, _, _, rfl, _⟩ := hc2.1; trivial, hc2.2⟩, hi2, by omega⟩
  · -- switch
    rename_i ht; have hr := real_of_eq ht (by decide)
    apply FSafe.bind
    apply hnot
    apply FSafe.bind
    apply (ih.parseSwitch token _ st1 (by decide) ⟨hs1, fun _ => real_valid hr⟩ (upw% hi1) (by omega) (by omega)).mono
    intro n st2 ⟨hc2, hi2, hm2⟩
    exact FSafe.pure ⟨fun n' h => by cases h; first | exact hc2 | exact ⟨by obtain ⟨_, _, _, rfl, _⟩ := hc2.1; trivial, hc2.2⟩, hi2, by omega⟩
  · -- call
    rename_i ht; have hr := real_of_eq ht (by decide)
    apply FSafe.bind
    apply (ih.parseCall token st1 hs1 (upw% hi1) (by omega) (by omega)).mono
    intro n st2 ⟨hc2, hi2, hm2⟩
    exact FSafe.pure ⟨fun n' h => by cases h; first | exact hc2 | exact ⟨by obtain ⟨_, _, _, rfl, _⟩ := hc2.1; trivial, hc2.2⟩, hi2, by omega⟩
  · -- literal (the text token is optional: an empty literal block, /repo aea8825)
    apply FSafe.bind
    apply fexpect_safe hz (upw% hi1) (by decide)
    intro t2 st2 hi2 _ _ _ hm2 _
    apply FSafe.bind
    apply fnext_safe hz hi2
    intro t3 st3 hi3 hs3 hpc3 ht3 hm3 _
    apply FSafe.bind
    split
    · rename_i htx
      apply FSafe.pure
      apply FSafe.bind
      apply fexpect_safe hz (upw% hi3) (by decide)
      intro t4 st4 hi4 _ _ _ hm4 _
      apply FSafe.bind
      apply fexpect_safe hz hi4 (by decide)
      intro t5 st5 hi5 _ _ _ hm5 _
      apply FSafe.bind
      apply fexpect_safe hz hi5 (by decide)
      intro t6 st6 hi6 _ _ _ hm6 _
      exact FSafe.pure ⟨fun n' h => by cases h; exact ⟨trivial, by np⟩, hi6, by omega⟩
    · apply FSafe.bind
      apply fbackup_safe hi3 (by have := hi2.1; omega)
      intro st3' hi3' hm3' _
      rw [ht3] at hm3'
      apply FSafe.pure
      apply FSafe.bind
      apply fexpect_safe hz hi3' (by decide)
      intro t4 st4 hi4 _ _ _ hm4 _
      apply FSafe.bind
      apply fexpect_safe hz hi4 (by decide)
      intro t5 st5 hi5 _ _ _ hm5 _
      apply FSafe.bind
      apply fexpect_safe hz hi5 (by decide)
      intro t6 st6 hi6 _ _ _ hm6 _
      exact FSafe.pure ⟨fun n' h => (by cases h), hi6, by omega⟩
  · -- css
    apply FSafe.bind
    apply parseCss_safe hz pf hlex token st1 _ hs1 (upw% hi1)
    intro n st2 hc2 hi2 hm2
    exact FSafe.pure ⟨fun n' h => by cases h; exact hc2, hi2, by omega⟩
  · -- log
    rename_i ht; have hr := real_of_eq ht (by decide)
    apply FSafe.bind
    apply fexpect_safe hz (upw% hi1) (by decide)
    intro t2 st2 hi2 _ _ _ hm2 _
    apply FSafe.bind
    apply (ih.itemListLoop _ _ _ st2 ⟨childrenOK_nil, NPL_nil, fun p h => by cases h⟩ hi2 (by omega) (by omega)).mono
    intro body st3 ⟨⟨_, hnp3⟩, hi3, _, hm3, hu3⟩
    apply FSafe.bind
    apply fexpect_safe hz (upw% hi3) (by decide)
    intro t4 st4 hi4 _ _ _ hm4 _
    exact FSafe.pure ⟨fun n' h => by cases h; exact ⟨trivial, by np⟩, hi4, by omega⟩
  · -- debugger
    apply FSafe.bind
    apply fexpect_safe hz (upw% hi1) (by decide)
    intro t2 st2 hi2 _ _ _ hm2 _
    exact FSafe.pure ⟨fun n' h => by cases h; exact ⟨trivial, by np⟩, hi2, by omega⟩
  · -- let
    rename_i ht; have hr := real_of_eq ht (by decide)
    apply FSafe.bind
    apply (ih.parseLet token st1 hs1 (upw% hi1) (by omega) (by omega)).mono
    intro n st2 ⟨hc2, hi2, hm2⟩
    exact FSafe.pure ⟨fun n' h => by cases h; first | exact hc2 | exact ⟨by obtain ⟨_, _, _, rfl, _⟩ := hc2.1; trivial, hc2.2⟩, hi2, by omega⟩
  · -- alias
    apply FSafe.bind
    apply parseAlias_safe hz hwf fuel st1 _ (upw% hi1) (by omega)
    intro st2 hi2 hm2
    exact FSafe.pure ⟨fun n' h => by simp at h, hi2, by omega⟩
  all_goals first
    | -- special characters
      (apply FSafe.bind
       apply fexpect_safe hz (upw% hi1) (by decide)
       intro t2 st2 hi2 _ _ _ hm2 _
       exact FSafe.pure ⟨fun n' h => by cases h; exact ⟨trivial, by np⟩, hi2, by omega⟩)
    | -- implicit print
      (apply FSafe.bind
       apply fbackup_safe hi1 (by have := hi.1; omega)
       intro st2 hi2 hm2 _
       rw [ht1] at hm2
       apply FSafe.bind
       apply parsePrint_safe hz pf ef N hN hwf hlex fuel token st2 _ ⟨hi2, hs1⟩ (by omega) (by omega)
       intro n st3 hc3 hi3 hm3
       exact FSafe.pure ⟨fun n' h => by cases h; exact hc3, hi3, by omega⟩)
    | -- print
      (apply FSafe.bind
       apply parsePrint_safe hz pf ef N hN hwf hlex fuel token st1 _ ⟨(upw% hi1), hs1⟩ (by omega) (by omega)
       intro n st2 hc2 hi2 hm2
       exact FSafe.pure ⟨fun n' h => by cases h; exact hc2, hi2, by omega⟩)
    | exact funexpected_safe hi1 hs1


theorem parseTemplate_ok {fuel : Nat} (ih : FileSpecs AP EL S pf ef N fuel) (token : Item) (st : FState)
    (hst : S token) (hi : Inv EL S st.p) (hn : mu st.p ≤ N) (hf : 8 * mu st.p + 20 ≤ fuel + 1) :
    FSafe AP EL S (parseTemplate pf ef (fuel + 1) token) st (NPost EL S st) := by
  unfold FileParser.parseTemplate
  apply FSafe.bind
  apply fexpect_safe hz hi (by decide)
  intro id st1 hi1 _ _ _ hm1 hty
  have hr := real_of_eq hty (by decide)
  apply FSafe.bind
  apply parseAttrs_safe hz _ fuel [] st1 _ hi1 (by omega)
  intro attrs st2 hi2 hm2
  apply FSafe.bind
  apply parseAutoescape_safe hz attrs st2 _ hi2
  intro ae
  apply FSafe.bind
  apply boolAttr_safe hz attrs _ _ st2 _ hi2
  intro priv
  apply FSafe.bind
  apply fexpect_safe hz hi2 (by decide)
  intro rd st3 hi3 _ _ _ hm3 _
  apply FSafe.bind
  apply (ih.itemListLoop _ _ _ st3 ⟨childrenOK_nil, NPL_nil, fun p h => by cases h⟩ hi3 (by omega) (by omega)).mono
  intro body st4 ⟨⟨hlst4, hnp4⟩, hi4, _, hm4, hu4⟩
  apply FSafe.bind
  apply fget_safe
  apply FSafe.bind
  apply fexpect_safe hz (upw% hi4) (by decide)
  intro rd2 st5 hi5 _ _ _ hm5 _
  exact FSafe.pure ⟨⟨trivial, by np⟩, hi5, by omega⟩

theorem parseLet_ok {fuel : Nat} (ih : FileSpecs AP EL S pf ef N fuel) (token : Item) (st : FState)
    (hst : S token) (hi : Inv EL S st.p) (hn : mu st.p ≤ N) (hf : 8 * mu st.p + 20 ≤ fuel + 1) :
    FSafe AP EL S (parseLet pf ef (fuel + 1) token) st (NPost EL S st) := by
  unfold FileParser.parseLet
  apply FSafe.bind
  apply fexpect_safe hz hi (by decide)
  intro name st1 hi1 hsn _ _ hm1 hty
  have hr := real_of_eq hty (by decide)
  apply FSafe.bind
  apply fpeek_safe hz hi1
  intro pk st2 hi2 hs2 hm2 hd2 _
  split
  · rename_i hcol
    apply FSafe.bind
    apply fnext_safe hz hi2
    intro c st3 hi3 _ _ ht3 hm3 he3
    have hrc : real c = 1 := by rw [he3 pk hd2]; exact real_of_beq hcol (by decide)
    apply FSafe.bind
    apply ftail1_safe (val_ne1 (hwf name hsn) (Or.inl hty))
    intro _ nm _
    apply FSafe.bind
    apply parseExpr0_safe hz pf ef N hN hwf (upw% hi3) (by omega)
    intro e st4 hi4 hm4
    apply FSafe.bind
    apply fexpect_safe hz hi4 (by decide)
    intro rd st5 hi5 _ _ _ hm5 _
    exact FSafe.pure ⟨⟨trivial, by np⟩, hi5, by omega⟩
  · apply FSafe.bind
    apply parseAttrs_safe hz _ fuel [] st2 _ hi2 (by omega)
    intro attrs st3 hi3 hm3
    apply FSafe.bind
    apply fnext_safe hz hi3
    intro nxt st4 hi4 hs4 _ _ hm4 _
    split
    · apply FSafe.bind
      apply ftail1_safe (val_ne1 (hwf name hsn) (Or.inl hty))
      intro _ nm _
      apply FSafe.bind
      apply (ih.itemListLoop _ _ _ st4 ⟨childrenOK_nil, NPL_nil, fun p h => by cases h⟩ (upw% hi4) (by omega) (by omega)).mono
      intro body st5 ⟨⟨hlst5, hnp5⟩, hi5, _, hm5, hu5⟩
      apply FSafe.bind
      apply fexpect_safe hz (upw% hi5) (by decide)
      intro rd st6 hi6 _ _ _ hm6 _
      exact FSafe.pure ⟨⟨trivial, by np⟩, hi6, by omega⟩
    · exact funexpected_safe hi4 hs4

theorem ifLoop_ok {fuel : Nat} (ih : FileSpecs AP EL S pf ef N fuel) (pos : Nat) (isElse : Bool) (conds : NodeList)
    (st : FState) (hpre : PosOK S pos ∧ NPL S conds) (hi : Inv EL S st.p) (hn : mu st.p ≤ N) (hf : 8 * mu st.p + 20 ≤ fuel + 1) :
    FSafe AP EL S (ifLoop pf ef (fuel + 1) pos isElse conds) st (NPost EL S st) := by
  obtain ⟨hpos, hconds⟩ := hpre
  unfold FileParser.ifLoop
  apply FSafe.bind
  apply FSafe.mono (Q := fun ce st' => Inv EL S st'.p ∧ mu st'.p ≤ mu st.p ∧ EPo S ce)
  · split
    · apply FSafe.bind
      apply parseExpr0_safe hz pf ef N hN hwf hi hn
      intro e st1 hi1 hm1
      exact FSafe.pure ⟨hi1, by omega, hm1.2⟩
    · exact FSafe.pure ⟨hi, Nat.le_refl _, trivial⟩
  · intro ce st1 ⟨hi1, hm1, hce⟩
    apply FSafe.bind
    apply fexpect_safe hz hi1 (by decide)
    intro rd st2 hi2 _ _ _ hm2 hty
    have hr := real_of_eq hty (by decide)
    apply FSafe.bind
    apply (ih.itemListLoop _ _ _ st2 ⟨childrenOK_nil, NPL_nil, fun p h => by cases h⟩ hi2 (by omega) (by omega)).mono
    intro body st3 ⟨⟨hlst3, hnp3⟩, hi3, hpc3, hm3, hu3⟩
    simp only
    apply FSafe.bind
    apply fbackup_safe hi3 hpc3
    intro st4 hi4 hm4 hd4
    apply FSafe.bind
    apply fnext_safe hz hi4
    intro t st5 hi5 hs5 _ ht5 hm5 he5
    have hrt : real t = 1 := by rw [he5 _ hd4]; exact real_of_contains hu3 (by decide)
    have hconds' : NPL S (conds.append (.cons (.ifCond pos ce body) .nil)) :=
      NPL_append _ _ hconds (by simp only [NPL, NP]; exact ⟨⟨hpos, hce, hnp3⟩, trivial⟩)
    split
    · split
      · exact funexpected_safe hi5 hs5
      · apply (ih.ifLoop _ _ _ st5 ⟨hpos, hconds'⟩ (upw% hi5) (by omega) (by omega)).mono
        intro r st6 ⟨c, a, b⟩
        exact ⟨c, a, by omega⟩
    split
    · split
      · exact funexpected_safe hi5 hs5
      · apply (ih.ifLoop _ _ _ st5 ⟨hpos, hconds'⟩ (upw% hi5) (by omega) (by omega)).mono
        intro r st6 ⟨c, a, b⟩
        exact ⟨c, a, by omega⟩
    split
    · apply FSafe.bind
      apply fexpect_safe hz (upw% hi5) (by decide)
      intro rd2 st6 hi6 _ _ _ hm6 _
      exact FSafe.pure ⟨⟨trivial, by np⟩, hi6, by omega⟩
    · apply (ih.ifLoop _ _ _ st5 ⟨hpos, hconds'⟩ (upw% hi5) (by omega) (by omega)).mono
      intro r st6 ⟨c, a, b⟩
      exact ⟨c, a, by omega⟩

theorem parseFor_ok {fuel : Nat} (ih : FileSpecs AP EL S pf ef N fuel) (token : Item) (st : FState)
    (hst : S token) (hi : Inv EL S st.p) (hn : mu st.p ≤ N) (hf : 8 * mu st.p + 20 ≤ fuel + 1) :
    FSafe AP EL S (parseFor pf ef (fuel + 1) token) st (NPost EL S st) := by
  unfold FileParser.parseFor
  apply FSafe.bind
  apply fexpect_safe hz hi (by decide)
  intro v st1 hi1 hsv _ _ hm1 hty
  have hr := real_of_eq hty (by decide)
  apply FSafe.bind
  apply fexpect_safe hz hi1 (by decide)
  intro intok st2 hi2 hs2 _ _ hm2 hty2
  split
  · exact funexpected_safe' hs2 (fun _ => real_valid (real_of_eq hty2 (by decide)))
  · apply FSafe.bind
    apply parseExpr0_safe hz pf ef N hN hwf hi2 (by omega)
    intro coll st3 hi3 hm3
    apply FSafe.bind
    apply fexpect_safe hz hi3 (by decide)
    intro rd st4 hi4 _ _ _ hm4 _
    apply FSafe.bind
    apply (ih.itemListLoop _ _ _ st4 ⟨childrenOK_nil, NPL_nil, fun p h => by cases h⟩ hi4 (by omega) (by omega)).mono
    intro body st5 ⟨⟨hlst5, hnp5⟩, hi5, hpc5, hm5, hu5⟩
    apply FSafe.bind
    apply fbackup_safe hi5 hpc5
    intro st6 hi6 hm6 hd6
    apply FSafe.bind
    apply fnext_safe hz hi6
    intro t st7 hi7 hs7 _ ht7 hm7 he7
    have hrt : real t = 1 := by rw [he7 _ hd6]; exact real_of_contains hu5 (by decide)
    apply FSafe.bind
    apply FSafe.mono (Q := fun ie st' => Inv EL S st'.p ∧ mu st'.p ≤ mu st7.p ∧ NPL S ie)
    · split
      · apply FSafe.bind
        apply fexpect_safe hz (upw% hi7) (by decide)
        intro rd2 st8 hi8 _ _ _ hm8 _
        apply FSafe.bind
        apply (ih.itemListLoop _ _ _ st8 ⟨childrenOK_nil, NPL_nil, fun p h => by cases h⟩ hi8 (by omega) (by omega)).mono
        intro b st9 ⟨⟨hlst9, hnp9⟩, hi9, _, hm9, hu9⟩
        exact FSafe.pure ⟨(upw% hi9), by omega, by simp only [NPL]; exact ⟨hnp9, trivial⟩⟩
      · exact FSafe.pure ⟨(upw% hi7), Nat.le_refl _, NPL_nil⟩
    · intro ie st8 ⟨hi8, hm8, hie⟩
      apply FSafe.bind
      apply fexpect_safe hz hi8 (by decide)
      intro rd3 st9 hi9 _ _ _ hm9 _
      apply FSafe.bind
      apply ftail1_safe (val_ne1 (hwf v hsv) (Or.inl hty))
      intro _ vv _
      exact FSafe.pure ⟨⟨trivial, by np⟩, hi9, by omega⟩

theorem parseSwitch_ok {fuel : Nat} (ih : FileSpecs AP EL S pf ef N fuel) (token : Item) (endT : ItemType)
    (hend : midT endT = true) (st : FState) (hst : S token ∧ (EL.lex → valid token))
    (hi : Inv EL S st.p) (hn : mu st.p ≤ N) (hf : 8 * mu st.p + 19 ≤ fuel + 1) :
    FSafe AP EL S (parseSwitch pf ef (fuel + 1) token endT) st (SwPost EL S st) := by
  unfold FileParser.parseSwitch
  apply FSafe.bind
  apply parseExpr0_safe hz pf ef N hN hwf hi hn
  intro v st1 hi1 hm1
  apply FSafe.bind
  apply fexpect_safe hz hi1 (by decide)
  intro rd st2 hi2 _ _ _ hm2 _
  apply (ih.switchLoop _ _ _ _ _ st2 hend ⟨casesOK_nil, NPL_nil, posOK_of hst.1, hm1.2, trivial, vpos_of hst.1 hst.2⟩ hi2 (by omega) (by omega)).mono
  intro r st3 ⟨c, a, b⟩
  exact ⟨c, a, by omega⟩

theorem switchLoop_ok {fuel : Nat} (ih : FileSpecs AP EL S pf ef N fuel) (pos : Nat) (value : Expr) (endT : ItemType)
    (sd : Bool) (cases : NodeList) (st : FState) (hend : midT endT = true) (hcs : casesOK cases ∧ NPL S cases ∧ PosOK S pos ∧ EP S value ∧ casesV EL S cases ∧ VPos EL S pos)
    (hi : Inv EL S st.p) (hn : mu st.p ≤ N) (hf : 8 * mu st.p + 20 ≤ fuel + 1) :
    FSafe AP EL S (switchLoop pf ef (fuel + 1) pos value endT sd cases) st (SwPost EL S st) := by
  unfold FileParser.switchLoop
  apply FSafe.bind
  apply fnext_safe hz hi
  intro tok st1 hi1 hs1 _ ht1 hm1 _
  split
  · rename_i hc; have hr := real_of_beq hc (by decide)
    apply (ih.switchLoop _ _ _ _ _ st1 hend hcs (upw% hi1) (by omega) (by omega)).mono
    intro r st2 ⟨c, a, b⟩
    exact ⟨c, a, by omega⟩
  split
  · rename_i hc; have hr := real_of_beq hc (by decide)
    split
    · apply (ih.switchLoop _ _ _ _ _ st1 hend hcs (upw% hi1) (by omega) (by omega)).mono
      intro r st2 ⟨c, a, b⟩
      exact ⟨c, a, by omega⟩
    · exact funexpected_textStart_safe hs1 (fun hl => ht1 ▸ hi1.valid_top hl) (by simpa using hc)
  split
  · rename_i hc
    have hr : real tok = 1 := by
      simp only [Bool.or_eq_true] at hc
      rcases hc with h | h
      · exact real_of_beq h (by decide)
      · exact real_of_beq h (by decide)
    split
    · exact funexpected_safe hi1 hs1
    apply FSafe.bind
    apply (ih.caseLoop tok [] st1 ⟨hs1, EPl_nil, fun _ => real_valid hr⟩ (upw% hi1) (by omega) (by omega)).mono
    intro c st2 ⟨⟨hc2, hnc2⟩, hi2, hm2⟩
    obtain ⟨cp, cvs, cb, rfl, hcb, hcv⟩ := hc2
    apply (ih.switchLoop _ _ _ _ _ st2 hend
      ⟨casesOK_append _ _ _ rfl hcs.1 (show casesOK (.cons (.switchCase cp cvs cb) .nil) from ⟨hcb, trivial⟩),
       NPL_append _ _ hcs.2.1 (by simp only [NPL]; exact ⟨hnc2, trivial⟩), hcs.2.2.1, hcs.2.2.2.1,
       casesV_append _ _ hcs.2.2.2.2.1 (by simp only [casesV]; exact ⟨hcv, trivial⟩), hcs.2.2.2.2.2⟩
      hi2 (by omega) (by omega)).mono
    intro r st3 ⟨c, a, b⟩
    exact ⟨c, a, by omega⟩
  split
  · rename_i hce; have hr := real_of_beq hce hend
    apply FSafe.bind
    apply fexpect_safe hz (upw% hi1) (by decide)
    intro rd st2 hi2 _ _ _ hm2 _
    exact FSafe.pure ⟨⟨⟨_, _, _, rfl, hcs.1, hcs.2.2.2.2.1, hcs.2.2.2.2.2⟩, by simp only [NP]; exact ⟨hcs.2.2.1, hcs.2.2.2.1, hcs.2.1⟩⟩, hi2, by omega⟩
  split
  · rename_i hc; have hr := real_of_beq hc (by decide)
    apply (ih.switchLoop _ _ _ _ _ st1 hend hcs (upw% hi1) (by omega) (by omega)).mono
    intro r st2 ⟨c, a, b⟩
    exact ⟨c, a, by omega⟩
  · exact funexpected_safe hi1 hs1

theorem caseLoop_ok {fuel : Nat} (ih : FileSpecs AP EL S pf ef N fuel) (token : Item) (values : List Expr)
    (st : FState) (hpre : S token ∧ EPl S values ∧ (EL.lex → valid token)) (hi : Inv EL S st.p) (hn : mu st.p ≤ N) (hf : 8 * mu st.p + 20 ≤ fuel + 1) :
    FSafe AP EL S (caseLoop pf ef (fuel + 1) token values) st (CasePost EL S st) := by
  unfold FileParser.caseLoop
  apply FSafe.bind
  apply FSafe.mono (Q := fun vs st' => Inv EL S st'.p ∧ mu st'.p ≤ mu st.p ∧ EPl S vs)
  · split
    · apply FSafe.bind
      apply parseExpr0_safe hz pf ef N hN hwf hi hn
      intro e st1 hi1 hm1
      exact FSafe.pure ⟨hi1, by omega, EPl_append hpre.2.1 (EPl_single hm1.2)⟩
    · exact FSafe.pure ⟨hi, Nat.le_refl _, hpre.2.1⟩
  · intro vs st1 ⟨hi1, hm1, hvs⟩
    apply FSafe.bind
    apply fnext_safe hz hi1
    intro tok st2 hi2 hs2 _ _ hm2 _
    split
    · rename_i hc; have hr := real_of_beq hc (by decide)
      apply (ih.caseLoop _ _ st2 ⟨hpre.1, hvs, hpre.2.2⟩ (upw% hi2) (by omega) (by omega)).mono
      intro r st3 ⟨c, a, b⟩
      exact ⟨c, a, by omega⟩
    split
    · rename_i hc; have hr := real_of_beq hc (by decide)
      apply FSafe.bind
      apply (ih.itemListLoop _ _ _ st2 ⟨childrenOK_nil, NPL_nil, fun p h => by cases h⟩ (upw% hi2) (by omega) (by omega)).mono
      intro body st3 ⟨⟨hlst3, hnp3⟩, hi3, hpc3, hm3, hu3⟩
      apply FSafe.bind
      apply fbackup_safe hi3 hpc3
      intro st4 hi4 hm4 _
      exact FSafe.pure ⟨⟨⟨_, _, _, rfl, hlst3, vpos_of hpre.1 hpre.2.2⟩, by simp only [NP]; exact ⟨posOK_of hpre.1, hvs, hnp3⟩⟩, hi4, by omega⟩
    · exact funexpected_safe hi2 hs2


theorem parseCall_ok {fuel : Nat} (ih : FileSpecs AP EL S pf ef N fuel) (token : Item) (st : FState)
    (hst : S token) (hi : Inv EL S st.p) (hn : mu st.p ≤ N) (hf : 8 * mu st.p + 20 ≤ fuel + 1) :
    FSafe AP EL S (parseCall pf ef (fuel + 1) token) st (NPost EL S st) := by
  unfold FileParser.parseCall
  apply FSafe.bind
  apply parseCallHead_safe hz pf hlex fuel st _ hi (by omega)
  intro r st1 hi1 hm1
  obtain ⟨tn, ad, dn⟩ := r
  simp only
  apply FSafe.bind
  apply fnext_safe hz hi1
  intro tok st2 hi2 hs2 _ _ hm2 _
  split
  · exact FSafe.pure ⟨⟨trivial, by np⟩, (upw% hi2), by omega⟩
  split
  · rename_i hc; have hr := real_of_beq hc (by decide)
    apply FSafe.bind
    apply (ih.callParamsLoop _ st2 NPL_nil (upw% hi2) (by omega) (by omega)).mono
    intro body st3 ⟨hi3, hm3, hb3⟩
    apply FSafe.bind
    apply fexpect_safe hz hi3 (by decide)
    intro a st4 hi4 _ _ _ hm4 _
    apply FSafe.bind
    apply fexpect_safe hz hi4 (by decide)
    intro b st5 hi5 _ _ _ hm5 _
    apply FSafe.bind
    apply fexpect_safe hz hi5 (by decide)
    intro c st6 hi6 _ _ _ hm6 _
    exact FSafe.pure ⟨⟨trivial, by np⟩, hi6, by omega⟩
  · exact funexpected_safe hi2 hs2

theorem orphanLoop_ok {fuel : Nat} (ih : FileSpecs AP EL S pf ef N fuel) (initial : Item) (st : FState)
    (hs : S initial) (hi : InvW EL S st.p) (hpc : st.p.peekCount ≤ 1) (htop : top st.p = initial)
    (hf : 8 * (mu st.p + real initial) + 19 ≤ fuel + 1) :
    FSafe AP EL S (orphanLoop pf ef (fuel + 1) initial) st (fun tok st' => S tok ∧ InvW EL S st'.p ∧ st'.p.peekCount ≤ 1 ∧
      top st'.p = tok ∧ mu st'.p + real tok ≤ mu st.p + real initial) := by
  unfold FileParser.orphanLoop
  split
  · rename_i hc; have hr := real_of_beq hc (by decide)
    apply FSafe.bind
    apply rawtextP_safe
    intro text
    split
    · exact funexpected_textStart_safe hs (fun hl => htop ▸ hi.valid_top hl) (by simpa using hc)
    · apply FSafe.bind
      apply nextNonComment_safe hz fuel st _ (upw% hi) (by omega)
      intro nxt st1 hs1 hi1 hpc1 ht1 hm1
      apply (ih.orphanLoop nxt st1 hs1 hi1 hpc1 ht1 (by omega)).mono
      intro tok st2 ⟨a, b, c, d, e⟩
      exact ⟨a, b, c, d, by omega⟩
  · exact FSafe.pure ⟨hs, hi, hpc, htop, Nat.le_refl _⟩

theorem callParamsLoop_ok {fuel : Nat} (ih : FileSpecs AP EL S pf ef N fuel) (params : NodeList) (st : FState)
    (hpar : NPL S params) (hi : Inv EL S st.p) (hn : mu st.p ≤ N) (hf : 8 * mu st.p + 20 ≤ fuel + 1) :
    FSafe AP EL S (callParamsLoop pf ef (fuel + 1) params) st (PPost EL S st) := by
  unfold FileParser.callParamsLoop
  apply FSafe.bind
  apply nextNonComment_safe hz fuel st _ hi (by omega)
  intro init0 st1 hs1 hi1 hpc1 ht1 hm1
  apply FSafe.bind
  apply (ih.orphanLoop init0 st1 hs1 hi1 hpc1 ht1 (by omega)).mono
  intro initial st2 ⟨hs2, hi2, hpc2, ht2, hm2⟩
  split
  · exact funexpected_safe hi2 hs2
  · rename_i hc
    have hc' : initial.typ = .tLeftDelim := by simpa using hc
    have hr := real_of_eq hc' (by decide)
    apply FSafe.bind
    apply fnext_safe hz (upw% hi2)
    intro cmd st3 hi3 hs3 hpc3 ht3 hm3 _
    split
    · apply FSafe.bind
      apply fbackup2_safe hi3 hs2 (by rw [hc']; decide) (fun _ => real_valid hr) (by omega)
      intro st4 hi4 hm4 _
      rw [ht3] at hm4
      exact FSafe.pure ⟨hi4, by omega, hpar⟩
    split
    · exact ferrorf_safe hi3
    · rename_i hp
      have hp' : cmd.typ = .tParam := by simpa using hp
      have hrp := real_of_eq hp' (by decide)
      apply FSafe.bind
      apply fexpect_safe hz (upw% hi3) (by decide)
      intro firstIdent st4 hi4 hs4 hpc4 ht4 hm4 hty4
      have hr4 := real_of_eq hty4 (by decide)
      apply FSafe.bind
      apply fnext_safe hz hi4
      intro tok st5 hi5 hs5 hpc5 ht5 hm5 _
      split
      · apply FSafe.bind
        apply parseExpr0_safe hz pf ef N hN hwf (upw% hi5) (by omega)
        intro value st6 hi6 hm6
        apply FSafe.bind
        apply fexpect_safe hz hi6 (by decide)
        intro rd st7 hi7 _ _ _ hm7 _
        apply (ih.callParamsLoop _ st7 (NPL_append _ _ hpar (by simp only [NPL, NP]; exact ⟨⟨posOK_of hs2, hm6.2⟩, trivial⟩)) hi7 (by omega) (by omega)).mono
        intro r st8 ⟨a, b, c⟩
        exact ⟨a, by omega, c⟩
      split
      · apply FSafe.bind
        apply (ih.itemListLoop _ _ _ st5 ⟨childrenOK_nil, NPL_nil, fun p h => by cases h⟩ (upw% hi5) (by omega) (by omega)).mono
        intro value st6 ⟨⟨hlst6, hnp6⟩, hi6, _, hm6, hu6⟩
        apply FSafe.bind
        apply fexpect_safe hz (upw% hi6) (by decide)
        intro rd st7 hi7 _ _ _ hm7 _
        apply (ih.callParamsLoop _ st7 (NPL_append _ _ hpar (by simp only [NPL, NP]; exact ⟨⟨posOK_of hs2, hnp6⟩, trivial⟩)) hi7 (by omega) (by omega)).mono
        intro r st8 ⟨a, b, c⟩
        exact ⟨a, by omega, c⟩
      · apply FSafe.bind
        apply FSafe.mono (Q := fun _ st' => Inv EL S st'.p ∧ mu st'.p + 2 ≤ mu st.p)
        · split
          · apply FSafe.bind
            apply fbackup_safe hi5 (by omega)
            intro st6 hi6 hm6 _
            rw [ht5] at hm6
            have := real_le tok
            exact FSafe.pure ⟨hi6, by omega⟩
          split
          · rename_i he
            apply FSafe.bind
            apply fbackup2_safe hi5 hs4 (by rw [hty4]; decide) (fun _ => real_valid hr4) (by omega)
            intro st6 hi6 hm6 _
            rw [ht5] at hm6
            have := real_le tok
            exact FSafe.pure ⟨hi6, by omega⟩
          · exact funexpected_safe hi5 hs5
        · intro key st6 ⟨hi6, hm6⟩
          apply FSafe.bind
          apply parseAttrs_safe hz _ fuel [] st6 _ hi6 (by omega)
          intro attrs st7 hi7 hm7
          apply FSafe.bind
          apply FSafe.mono (Q := fun _ st' => st' = st7)
          · split
            · split
              · exact FSafe.pure rfl
              · exact ferrorf_safe hi7
            · exact FSafe.pure rfl
          · intro key2 st8 h8
            subst h8
            split
            · apply FSafe.bind
              apply fexpect_safe hz hi7 (by decide)
              intro rd st9 hi9 _ _ _ hm9 _
              apply FSafe.bind
              apply (ih.itemListLoop _ _ _ st9 ⟨childrenOK_nil, NPL_nil, fun p h => by cases h⟩ hi9 (by omega) (by omega)).mono
              intro value st10 ⟨⟨hlst10, hnp10⟩, hi10, _, hm10, hu10⟩
              apply FSafe.bind
              apply fexpect_safe hz (upw% hi10) (by decide)
              intro rd2 st11 hi11 _ _ _ hm11 _
              apply (ih.callParamsLoop _ st11 (NPL_append _ _ hpar (by simp only [NPL, NP]; exact ⟨⟨posOK_of hs2, hnp10⟩, trivial⟩)) hi11 (by omega) (by omega)).mono
              intro r st12 ⟨a, b, c⟩
              exact ⟨a, by omega, c⟩
            · apply FSafe.bind
              apply parseQuotedExpr_safe hz pf hlex hi7
              intro value hpv
              apply FSafe.bind
              apply fexpect_safe hz hi7 (by decide)
              intro rd st9 hi9 _ _ _ hm9 _
              apply (ih.callParamsLoop _ st9 (NPL_append _ _ hpar (by simp only [NPL, NP]; exact ⟨⟨posOK_of hs2, hpv⟩, trivial⟩)) hi9 (by omega) (by omega)).mono
              intro r st10 ⟨a, b, c⟩
              exact ⟨a, by omega, c⟩

theorem parseMsg_ok {fuel : Nat} (ih : FileSpecs AP EL S pf ef N fuel) (token : Item) (st : FState)
    (hst : S token) (hvt : EL.lex → valid token) (hi : Inv EL S st.p) (hn : mu st.p ≤ N) (hf : 8 * mu st.p + 20 ≤ fuel + 1) :
    FSafe AP EL S (parseMsg pf ef (fuel + 1) token) st (NPost EL S st) := by
  have hstok : S token := hst
  unfold FileParser.parseMsg
  apply FSafe.bind
  apply parseAttrs_safe hz _ fuel [] st _ hi (by omega)
  intro attrs st1 hi1 hm1
  split
  · exact ferrorf_safe hi1
  · apply FSafe.bind
    apply fexpect_safe hz hi1 (by decide)
    intro rd st2 hi2 _ _ _ hm2 hty
    have hr := real_of_eq hty (by decide)
    apply FSafe.bind
    apply fmodify_safe
    apply FSafe.bind
    apply (ih.itemListLoop _ _ _ _ ⟨childrenOK_nil, NPL_nil, fun p h => by cases h⟩ (by exact hi2) (by show mu st2.p ≤ N; omega) (by show 8 * mu st2.p + 20 ≤ fuel; omega)).mono
    intro contents st3 ⟨hl3, hi3, _, hm3⟩
    have hm3' : mu st3.p ≤ mu st2.p := by
      have : mu st3.p + real (top st3.p) ≤ mu st2.p := hm3.1
      omega
    apply FSafe.bind
    apply fmodify_safe
    generalize hst : ({ st3 with inmsg := false } : FState) = st3'
    have hi3' : Inv EL S st3'.p := by subst hst; exact hi3.up rfl (real_of_contains hm3.2 (by decide))
    have hmm : mu st3'.p = mu st3.p := by subst hst; rfl
    split
    · rename_i hnone
      have := placeholderize_isSome hl3.1
      rw [hnone] at this
      simp at this
    · rename_i body hbody
      have hnb : NP S body := NP_placeholderize _ _ hbody hl3.2
      simp only
      repeat' split
      all_goals first
        | exact ferrorfAt_safe (vpos_of hstok hvt)
        | exact ferrorf_safe hi3'
        | (apply FSafe.bind
           apply fexpect_safe hz hi3' (by decide)
           intro rd2 st4 hi4 _ _ _ hm4 _
           exact FSafe.pure ⟨⟨trivial, by np⟩, hi4, by omega⟩)

theorem parsePlural_ok {fuel : Nat} (ih : FileSpecs AP EL S pf ef N fuel) (tok : Item) (st : FState)
    (hs : S tok) (hv : EL.lex → valid tok) (hi : Inv EL S st.p) (hn : mu st.p ≤ N) (hf : 8 * mu st.p + 20 ≤ fuel + 1) :
    FSafe AP EL S (parsePlural pf ef (fuel + 1) tok) st (NPost EL S st) := by
  unfold FileParser.parsePlural
  apply FSafe.bind
  apply fget_safe
  split
  · exact funexpected_safe' hs hv
  · apply FSafe.bind
    apply (ih.parseSwitch tok _ st (by decide) ⟨hs, hv⟩ hi hn (by omega)).mono
    intro sw st1 ⟨⟨hsw, hnsw⟩, hi1, hm1⟩
    obtain ⟨sp, sv, scs, rfl, hscs, hscv, hspv⟩ := hsw
    simp only [NP] at hnsw
    simp only
    apply FSafe.bind
    apply pluralCases_safe _ _ _ _ st1 _ rfl ⟨hscs, hnsw.2.2, hscv⟩ ⟨pcasesOK_nil, NPL_nil⟩ (fun _ h => by simp at h) hi1
    intro r hpcs hd
    obtain ⟨pcs, dflt⟩ := r
    simp only
    split
    · exact ferrorfAt_safe hspv
    · rename_i _ d
      refine FSafe.pure ⟨⟨?_, ?_⟩, hi1, hm1⟩
      · show (phCases pcs).isSome = true ∧ (placeholderize d).isSome = true
        exact ⟨phCases_isSome _ pcs rfl hpcs.1, placeholderize_isSome (hd d rfl).1⟩
      · simp only [NP]
        exact ⟨hnsw.1, hnsw.2.1, hpcs.2, (hd d rfl).2⟩

/-- every block parser meets its specification at every fuel level -/
theorem fileSpecs_all : ∀ fuel, FileSpecs AP EL S pf ef N fuel := by
  intro fuel
  induction fuel with
  | zero =>
    exact {
      itemListLoop := fun _ _ _ _ _ _ _ h => by omega
      textOrTag := fun _ _ _ _ _ _ _ _ h => by omega
      beginTag := fun _ _ _ h => by omega
      parseTemplate := fun _ _ _ _ _ h => by omega
      parseLet := fun _ _ _ _ _ h => by omega
      ifLoop := fun _ _ _ _ _ _ _ h => by omega
      parseFor := fun _ _ _ _ _ h => by omega
      parseSwitch := fun _ _ _ _ _ _ _ h => by omega
      switchLoop := fun _ _ _ _ _ _ _ _ _ h => by omega
      caseLoop := fun _ _ _ _ _ _ h => by omega
      parseCall := fun _ _ _ _ _ h => by omega
      callParamsLoop := fun _ _ _ _ _ h => by omega
      orphanLoop := fun _ _ _ _ _ _ h => by omega
      parseMsg := fun _ _ _ _ _ _ h => by omega
      parsePlural := fun _ _ _ _ _ _ h => by omega }
  | succ f ih =>
    exact {
      itemListLoop := itemListLoop_ok AP EL S pf ef N hz hN hwf hlex ih
      textOrTag := textOrTag_ok AP EL S pf ef N hz hN hwf hlex ih
      beginTag := beginTag_ok AP EL S pf ef N hz hN hwf hlex ih
      parseTemplate := parseTemplate_ok AP EL S pf ef N hz hN hwf hlex ih
      parseLet := parseLet_ok AP EL S pf ef N hz hN hwf hlex ih
      ifLoop := ifLoop_ok AP EL S pf ef N hz hN hwf hlex ih
      parseFor := parseFor_ok AP EL S pf ef N hz hN hwf hlex ih
      parseSwitch := fun token endT st hend => parseSwitch_ok AP EL S pf ef N hz hN hwf hlex ih token endT hend st
      switchLoop := switchLoop_ok AP EL S pf ef N hz hN hwf hlex ih
      caseLoop := caseLoop_ok AP EL S pf ef N hz hN hwf hlex ih
      parseCall := parseCall_ok AP EL S pf ef N hz hN hwf hlex ih
      callParamsLoop := callParamsLoop_ok AP EL S pf ef N hz hN hwf hlex ih
      orphanLoop := orphanLoop_ok AP EL S pf ef N hz hN hwf hlex ih
      parseMsg := parseMsg_ok AP EL S pf ef N hz hN hwf hlex ih
      parsePlural := parsePlural_ok AP EL S pf ef N hz hN hwf hlex ih }

end
end SoyVerif.Lemmas.ParserSafe
