/-
  Helper lemmas for the refinement Model.Eval.evalE ⊑ Spec.Eval.eval (Props/C01.lean):
  the abstraction of model values, printing of scalars, and the Int64 arithmetic of the model against
  the mathematical integers of the specification under the no-overflow guard.
-/
import SoyVerif.Model.Eval
import SoyVerif.Spec.Eval

namespace SoyVerif.Refine
open SoyVerif SoyVerif.Model SoyVerif.Model.Eval
open SoyVerif.Spec.Eval (Val Out)

mutual
/-- abstraction of a model value: identities dropped, int64 read as an integer -/
def absV : Value → Val
  | .undefined => .undefined
  | .null => .null
  | .bool b => .bool b
  | .int i => .int i.toInt
  | .float f => .float f
  | .str s => .str s
  | .list _ xs => .list (absL xs)
  | .map _ kvs => .map (absK kvs)
def absL : List Value → List Val
  | [] => []
  | x :: xs => absV x :: absL xs
def absK : List (Bytes × Value) → List (Bytes × Val)
  | [] => []
  | (k, v) :: r => (k, absV v) :: absK r
end

def Scalar : Value → Bool
  | .list _ _ => false
  | .map _ _ => false
  | _ => true

theorem showFloat_format (f : F64) (s : Bytes) (h : Spec.Eval.showFloat f = .val s) : F64.formatJS f = s := by
  unfold Spec.Eval.showFloat at h
  unfold F64.formatJS
  split at h
  · simp at h
  · rename_i hc
    simp only [Bool.or_eq_true, not_or, Bool.not_eq_true] at hc
    obtain ⟨⟨h1, h2⟩, h3⟩ := hc
    simp only [h1, h2, h3, Bool.false_eq_true, if_false]
    generalize F64.shortest f = ck at h ⊢
    obtain ⟨c, k⟩ := ck
    simp only at h ⊢
    split at h
    · simp at h
    · rename_i hw
      have hw' : ¬ (((F64.natDigits c).length : Int) + k - 1 < -6 ∨ 21 ≤ ((F64.natDigits c).length : Int) + k - 1) := by omega
      simp only [Bool.or_eq_true, decide_eq_true_eq, hw', if_false]
      simp only [Spec.Eval.Out.val.injEq] at h
      rw [← h]
      unfold F64.fmtF
      rfl

theorem showFloat_not_error (f : F64) : Spec.Eval.showFloat f ≠ .error := by
  unfold Spec.Eval.showFloat
  split
  · simp
  · generalize F64.shortest f = ck
    obtain ⟨c, k⟩ := ck
    simp only
    split <;> simp

theorem joinWith_comma : ∀ (l : List Bytes), Spec.Eval.joinWith [44, 32] l = Value.joinComma l
  | [] => rfl
  | [_] => rfl
  | x :: y :: r => by rw [Spec.Eval.joinWith, Value.joinComma, joinWith_comma (y :: r)]

/-- a map with one (defined) member prints as `{k: v}` -/
theorem show_map1 (id : Nat) (k : Bytes) (v : Value) (hv : v ≠ .undefined)
    (h1 : ∀ s, Spec.Eval.showVal (absV v) = .val s → str v = some s)
    (h2 : Spec.Eval.showVal (absV v) = .error → str v = none) :
    (∀ s, Spec.Eval.showVal (absV (.map id [(k, v)])) = .val s → str (.map id [(k, v)]) = some s) ∧
    (Spec.Eval.showVal (absV (.map id [(k, v)])) = .error → str (.map id [(k, v)]) = none) := by
  have hS : Spec.Eval.showVal (absV (.map id [(k, v)])) =
      (Spec.Eval.showVal (absV v)).bind fun s => .val ([123] ++ k ++ [58, 32] ++ s ++ [125]) := by
    cases v <;> first | exact absurd rfl hv | simp [absV, absK, Spec.Eval.showVal]
  have hmi : Value.mapItems _root_.id [(k, v)] = (Value.toString _root_.id v).map fun s => [k ++ [58, 32] ++ s] := by
    cases v <;> first
      | exact absurd rfl hv
      | (simp only [Value.mapItems]
         generalize Value.toString _ _ = o
         cases o <;> rfl)
  have hM : str (.map id [(k, v)]) = (str v).map fun s => [123] ++ (k ++ [58, 32] ++ s) ++ [125] := by
    simp only [str, Value.render]
    rw [Value.toString, hmi]
    cases Value.toString _root_.id v <;> simp [Value.joinComma, Value.sortStrings, Value.insertSorted]
  rw [hS, hM]
  refine ⟨fun s h => ?_, fun h => ?_⟩
  · cases hx : Spec.Eval.showVal (absV v) with
    | val s0 =>
      rw [hx] at h
      simp only [Spec.Eval.Out.bind, Spec.Eval.Out.val.injEq] at h
      rw [h1 s0 hx, ← h]; simp
    | error => rw [hx] at h; simp [Spec.Eval.Out.bind] at h
    | unspec => rw [hx] at h; simp [Spec.Eval.Out.bind] at h
  · cases hx : Spec.Eval.showVal (absV v) with
    | val s0 => rw [hx] at h; simp [Spec.Eval.Out.bind] at h
    | error => rw [h2 hx]; rfl
    | unspec => rw [hx] at h; simp [Spec.Eval.Out.bind] at h

mutual
/-- printing ANY value: where the specification gives text the model gives the same text, where it gives an
    error (an undefined value, also inside a list) the model's String() panics; where the specification is
    open (a map with two or more entries, an undefined member of a map) nothing is said -/
theorem show_val : (mv : Value) →
    (∀ s, Spec.Eval.showVal (absV mv) = .val s → str mv = some s) ∧
    (Spec.Eval.showVal (absV mv) = .error → str mv = none)
  | .undefined => by simp [absV, Spec.Eval.showVal, str, Value.render, Value.toString]
  | .null => by simp [absV, Spec.Eval.showVal, str, Value.render, Value.toString, Spec.Eval.sNull, Value.sNull]
  | .bool b => by
    cases b <;> simp [absV, Spec.Eval.showVal, str, Value.render, Value.toString, Spec.Eval.sTrue, Value.sTrue,
      Spec.Eval.sFalse, Value.sFalse]
  | .int i => by simp [absV, Spec.Eval.showVal, str, Value.render, Value.toString]
  | .float f => by
    refine ⟨fun s h => ?_, fun h => ?_⟩
    · simp only [absV, Spec.Eval.showVal] at h
      simp [str, Value.render, Value.toString, showFloat_format f s h]
    · simp only [absV, Spec.Eval.showVal] at h
      exact absurd h (showFloat_not_error f)
  | .str s => by simp [absV, Spec.Eval.showVal, str, Value.render, Value.toString]
  | .list _ xs => by
    obtain ⟨h1, h2⟩ := show_list xs
    simp only [absV, Spec.Eval.showVal, str, Value.render, Value.toString]
    refine ⟨fun s h => ?_, fun h => ?_⟩
    · cases hl : Spec.Eval.showList (absL xs) with
      | val items =>
        rw [hl] at h
        simp only [Spec.Eval.Out.bind, Spec.Eval.Out.val.injEq] at h
        rw [h1 items hl, ← h, joinWith_comma]
      | error => rw [hl] at h; simp [Spec.Eval.Out.bind] at h
      | unspec => rw [hl] at h; simp [Spec.Eval.Out.bind] at h
    · cases hl : Spec.Eval.showList (absL xs) with
      | val items => rw [hl] at h; simp [Spec.Eval.Out.bind] at h
      | error => rw [h2 hl]
      | unspec => rw [hl] at h; simp [Spec.Eval.Out.bind] at h
  | .map _ [] => by
    simp [absV, absK, Spec.Eval.showVal, str, Value.render, Value.toString, Value.mapItems, Value.joinComma, Value.sortStrings]
  | .map _ [(k, v)] => by
    obtain ⟨h1, h2⟩ := show_val v
    by_cases hv : v = .undefined
    · subst hv; simp [absV, absK, Spec.Eval.showVal]
    · exact show_map1 _ k v hv h1 h2
  | .map _ (_ :: _ :: _) => by
    simp [absV, absK, Spec.Eval.showVal]
theorem show_list : (xs : List Value) →
    (∀ items, Spec.Eval.showList (absL xs) = .val items → Value.listItems id xs = some items) ∧
    (Spec.Eval.showList (absL xs) = .error → Value.listItems id xs = none)
  | [] => by simp [absL, Spec.Eval.showList, Value.listItems]
  | x :: xs => by
    obtain ⟨a1, a2⟩ := show_val x
    obtain ⟨b1, b2⟩ := show_list xs
    simp only [absL, Spec.Eval.showList, Value.listItems, str, Value.render] at a1 a2 ⊢
    refine ⟨fun items h => ?_, fun h => ?_⟩
    · cases hx : Spec.Eval.showVal (absV x) with
      | val s =>
        rw [hx] at h
        cases hr : Spec.Eval.showList (absL xs) with
        | val r =>
          rw [hr] at h
          simp only [Spec.Eval.Out.bind, Spec.Eval.Out.val.injEq] at h
          rw [a1 s hx, b1 r hr, ← h]
        | error => rw [hr] at h; simp [Spec.Eval.Out.bind] at h
        | unspec => rw [hr] at h; simp [Spec.Eval.Out.bind] at h
      | error => rw [hx] at h; simp [Spec.Eval.Out.bind] at h
      | unspec => rw [hx] at h; simp [Spec.Eval.Out.bind] at h
    · cases hx : Spec.Eval.showVal (absV x) with
      | val s =>
        rw [hx] at h
        cases hr : Spec.Eval.showList (absL xs) with
        | val r => rw [hr] at h; simp [Spec.Eval.Out.bind] at h
        | error => rw [a1 s hx, b2 hr]
        | unspec => rw [hr] at h; simp [Spec.Eval.Out.bind] at h
      | error => rw [a2 hx]
      | unspec => rw [hx] at h; simp [Spec.Eval.Out.bind] at h
end

/-- printing a scalar (the instance of `show_val` the earlier rounds used) -/
theorem show_scalar (mv : Value) (_hs : Scalar mv = true) :
    (∀ s, Spec.Eval.showVal (absV mv) = .val s → str mv = some s) ∧
    (Spec.Eval.showVal (absV mv) = .error → str mv = none) := show_val mv

/-! ### Int64 against Int under the no-overflow guard -/

theorem inI64_iff (i : Int) : Spec.Eval.inI64 i = true ↔ (-2 ^ 63 ≤ i ∧ i < 2 ^ 63) := by
  simp only [Spec.Eval.inI64, Spec.Eval.two63, decide_eq_true_eq]
  have e : (2 : Int) ^ 63 = 9223372036854775808 := by decide
  rw [e]
  exact decide_eq_true_iff

theorem bmod_id {n : Int} (h1 : -2 ^ 63 ≤ n) (h2 : n < 2 ^ 63) : n.bmod (2 ^ 64) = n :=
  Int.bmod_eq_of_le (by omega) (by omega)

theorem toInt_add_of (a b : Int64) (h : Spec.Eval.inI64 (a.toInt + b.toInt) = true) :
    (a + b).toInt = a.toInt + b.toInt := by
  rw [Int64.toInt_add]; exact bmod_id ((inI64_iff _).mp h).1 ((inI64_iff _).mp h).2

theorem toInt_sub_of (a b : Int64) (h : Spec.Eval.inI64 (a.toInt - b.toInt) = true) :
    (a - b).toInt = a.toInt - b.toInt := by
  rw [Int64.toInt_sub]; exact bmod_id ((inI64_iff _).mp h).1 ((inI64_iff _).mp h).2

theorem toInt_mul_of (a b : Int64) (h : Spec.Eval.inI64 (a.toInt * b.toInt) = true) :
    (a * b).toInt = a.toInt * b.toInt := by
  rw [Int64.toInt_mul]; exact bmod_id ((inI64_iff _).mp h).1 ((inI64_iff _).mp h).2

theorem toInt_neg_of (a : Int64) (h : Spec.Eval.inI64 (-a.toInt) = true) : (-a).toInt = -a.toInt := by
  rw [Int64.toInt_neg]; exact bmod_id ((inI64_iff _).mp h).1 ((inI64_iff _).mp h).2

theorem toInt_eq_zero (a : Int64) : (a == 0) = (a.toInt == 0) := by
  have : (a = 0) ↔ (a.toInt = 0) := by
    rw [← Int64.toInt_zero, Int64.toInt_inj]
  by_cases h : a = 0
  · subst h; rfl
  · have h' : ¬ a.toInt = 0 := fun e => h (this.mpr e)
    rw [beq_eq_false_iff_ne.mpr h, beq_eq_false_iff_ne.mpr h']

theorem toInt_beq (a b : Int64) : (a == b) = (a.toInt == b.toInt) := by
  by_cases h : a = b
  · subst h; simp
  · have h' : ¬ a.toInt = b.toInt := fun e => h (Int64.toInt_inj.mp e)
    rw [beq_eq_false_iff_ne.mpr h, beq_eq_false_iff_ne.mpr h']

/-! ### operators on scalars -/

theorem equals_refines (a b : Value) :
    (∀ r, Spec.Eval.equalsV (absV a) (absV b) = .val r → Value.equals a b = r) ∧
    Spec.Eval.equalsV (absV a) (absV b) ≠ .error := by
  cases a <;> cases b <;>
    simp_all [Scalar, absV, Spec.Eval.equalsV, Value.equals, toInt_beq, F64.ofInt64] <;>
    (try (intro r; split <;> simp_all)) <;> (try (split <;> simp))


/-- string concatenation of two scalars -/
theorem strcat_refines (a b : Value) :
    (∀ v, ((Spec.Eval.showVal (absV a)).bind fun s1 => (Spec.Eval.showVal (absV b)).bind fun s2 =>
        (Out.val (Val.str (s1 ++ s2)) : Out Val)) = .val v →
      ∃ mv, (match str a, str b with
        | some s1, some s2 => some (Value.str (s1 ++ s2))
        | _, _ => none) = some mv ∧ absV mv = v ∧ Scalar mv = true) ∧
    (((Spec.Eval.showVal (absV a)).bind fun s1 => (Spec.Eval.showVal (absV b)).bind fun s2 =>
        (Out.val (Val.str (s1 ++ s2)) : Out Val)) = .error →
      (match str a, str b with
        | some s1, some s2 => some (Value.str (s1 ++ s2))
        | _, _ => none) = none) := by
  obtain ⟨a1, a2⟩ := show_val a
  obtain ⟨b1, b2⟩ := show_val b
  cases hsa : Spec.Eval.showVal (absV a) with
  | val s1 =>
    cases hsb : Spec.Eval.showVal (absV b) with
    | val s2 =>
      rw [a1 s1 hsa, b1 s2 hsb]
      simp [Spec.Eval.Out.bind, absV, Scalar]
    | error => rw [b2 hsb]; simp [Spec.Eval.Out.bind]
    | unspec => simp [Spec.Eval.Out.bind]
  | error => rw [a2 hsa]; simp [Spec.Eval.Out.bind]
  | unspec => simp [Spec.Eval.Out.bind]

theorem toF_abs (a : Value) : Spec.Eval.toF (absV a) = toFloat a := by
  cases a <;> simp [absV, Spec.Eval.toF, toFloat, F64.ofInt64]

theorem isStr_abs (a : Value) : Spec.Eval.isStr (absV a) = isString a := by
  cases a <;> simp [absV, Spec.Eval.isStr, isString]

abbrev ArithSpec (op : BinOp) (a b : Value) : Prop :=
    (∀ v, Spec.Eval.binop op (absV a) (absV b) = .val v →
      a ≠ .undefined ∧ b ≠ .undefined ∧ ∃ mv, arith op a b = some mv ∧ absV mv = v ∧ Scalar mv = true) ∧
    (Spec.Eval.binop op (absV a) (absV b) = .error → a = .undefined ∨ b = .undefined ∨ arith op a b = none)

theorem bmod_lit {n : Int} (h : Spec.Eval.inI64 n = true) : n.bmod 18446744073709551616 = n := by
  have := bmod_id ((inI64_iff n).mp h).1 ((inI64_iff n).mp h).2
  simpa using this

theorem intRes_close (n : Int) :
    (∀ v, (if Spec.Eval.inI64 n = true then Out.val (Val.int n) else Out.unspec) = Out.val v →
        Val.int (n.bmod 18446744073709551616) = v) ∧
    ¬(if Spec.Eval.inI64 n = true then (Out.val (Val.int n) : Out Val) else Out.unspec) = Out.error := by
  refine ⟨fun v hv => ?_, fun h => ?_⟩
  · split at hv
    · rename_i hin
      simp only [Out.val.injEq] at hv
      rw [← hv, bmod_lit hin]
    · simp at hv
  · split at h <;> simp at h

theorem add_refines (a b : Value) : ArithSpec .add a b := by
  have hcat := strcat_refines a b
  cases a <;> cases b <;>
    simp_all [ArithSpec, Scalar, absV, Spec.Eval.binop, arith, Spec.Eval.isStr, isString, Spec.Eval.toF, toFloat,
      Spec.Eval.intRes, F64.ofInt64]
  all_goals (first | exact hcat | exact intRes_close _ | skip)

theorem sub_refines (a b : Value) : ArithSpec .sub a b := by
  cases a <;> cases b <;>
    simp_all [ArithSpec, Scalar, absV, Spec.Eval.binop, arith, Spec.Eval.toF, toFloat, Spec.Eval.intRes, F64.ofInt64]
  all_goals (first | exact intRes_close _ | skip)

theorem mul_refines (a b : Value) : ArithSpec .mul a b := by
  cases a <;> cases b <;>
    simp_all [ArithSpec, Scalar, absV, Spec.Eval.binop, arith, Spec.Eval.toF, toFloat, Spec.Eval.intRes, F64.ofInt64]
  all_goals (first | exact intRes_close _ | skip)

theorem div_refines (a b : Value) : ArithSpec .div a b := by
  cases a <;> cases b <;>
    simp_all [ArithSpec, Scalar, absV, Spec.Eval.binop, arith, Spec.Eval.toF, toFloat, Spec.Eval.isZeroNum, F64.ofInt64]
  all_goals (refine ⟨fun v hv => ?_, fun h => ?_⟩)
  all_goals (first | (split at hv <;> simp_all) | (split at h <;> simp_all))

theorem mod_refines (a b : Value) : ArithSpec .mod a b := by
  cases a <;> cases b <;>
    simp_all [ArithSpec, Scalar, absV, Spec.Eval.binop, arith, Spec.Eval.intRes, Spec.Eval.tmod]
  rename_i x y
  have hz : (y = 0) ↔ (y.toInt = 0) := by rw [← Int64.toInt_zero, Int64.toInt_inj]
  refine ⟨fun v hv => ?_, fun h => ?_⟩
  · split at hv
    · simp at hv
    · rename_i hne
      by_cases hin : Spec.Eval.inI64 (x.toInt.tmod y.toInt) = true
      · simp only [hin, if_true, Out.val.injEq] at hv
        exact ⟨.int (x % y), ⟨fun e => hne (hz.mp e), rfl⟩, by rw [← hv]; simp [absV, Int64.toInt_mod], rfl⟩
      · simp [hin] at hv
  · apply Classical.byContradiction
    intro hne
    have hne' : ¬ y.toInt = 0 := fun e => hne (hz.mpr e)
    have := h hne'
    by_cases hin : Spec.Eval.inI64 (x.toInt.tmod y.toInt) = true
    · simp [hin] at this
    · simp [hin] at this

theorem truthy_abs (v : Value) : Spec.Eval.truthy (absV v) = v.truthy := by
  cases v with
  | float f =>
    simp only [absV, Spec.Eval.truthy, Value.truthy]
    have := F64.eq_zero_iff f
    cases hz : f.isZero <;> cases he : F64.eq f F64.zero <;> simp_all
  | int i => simp only [absV, Spec.Eval.truthy, Value.truthy, bne, toInt_eq_zero]
  | _ => simp [absV, Spec.Eval.truthy, Value.truthy]

/-- int → float conversion is order-exact on the integers of magnitude ≤ 2^53 -/
def OrdExact : Prop := ∀ x y : Int, Spec.Eval.small x = true → Spec.Eval.small y = true →
  F64.lt (F64.ofInt x) (F64.ofInt y) = decide (x < y) ∧ F64.le (F64.ofInt x) (F64.ofInt y) = decide (x ≤ y)

theorem cmp_refines (hx : OrdExact) (op : BinOp) (hop : op = .lt ∨ op = .le ∨ op = .gt ∨ op = .ge)
    (a b : Value) : ArithSpec op a b := by
  rcases hop with rfl | rfl | rfl | rfl <;> cases a <;> cases b <;>
    simp_all [ArithSpec, Scalar, absV, Spec.Eval.binop, Spec.Eval.compareV, arith, Spec.Eval.toF, toFloat, F64.ofInt64]
  all_goals (refine ⟨fun v hv => ?_, fun h => ?_⟩)
  all_goals first
    | (split at h <;> simp at h)
    | (split at hv
       · rename_i hs
         simp only [Out.val.injEq] at hv
         first
           | (rw [← hv, (hx _ _ hs.1 hs.2).1])
           | (rw [← hv, (hx _ _ hs.1 hs.2).2])
           | (rw [← hv, (hx _ _ hs.2 hs.1).1])
           | (rw [← hv, (hx _ _ hs.2 hs.1).2])
           | exact hv
       · simp at hv)

/-! ### data-reference accesses -/

theorem key_abs : ∀ (kvs : List (Bytes × Value)) (k : Bytes),
    absV (Value.key kvs k) = (Spec.Eval.find (absK kvs) k).getD .undefined
  | [], _ => rfl
  | (k', v) :: r, k => by
    simp only [Value.key, absK, Spec.Eval.find]
    split
    · rfl
    · exact key_abs r k

theorem getD_abs : ∀ (xs : List Value) (n : Nat), absV (xs.getD n .undefined) = (absL xs).getD n .undefined
  | [], _ => by simp [absL, absV]
  | x :: r, 0 => by simp [absL]
  | x :: r, n + 1 => by simpa [absL] using getD_abs r n

theorem absL_len : ∀ (l : List Value), (absL l).length = l.length
  | [] => rfl
  | _ :: r => by simp [absL, absL_len r]

theorem index_abs (xs : List Value) (i : Int) : absV (Value.index xs i) = Spec.Eval.nth (absL xs) i := by
  simp only [Value.index, Spec.Eval.nth, absL_len]
  split
  · exact getD_abs xs i.toNat
  · rfl

/-- what one access step yields: the interpreter's `accessStep` against the specification's `access` -/
def StepAgree (ms : AStep) (ss : Spec.Eval.Step) : Prop :=
  match ss with
  | .next v => ∃ mv, ms = .cont mv ∧ absV mv = v
  | .stop (.val v) => ∃ mv, ms = .ret mv ∧ absV mv = v
  | .stop .error => ms = .err
  | .stop .unspec => True

/-- a string key (`.k`, `['k']`, and a float / bool / null key through its text) -/
theorem access_str (ref : Value) (ns : Bool) (k : Bytes) (last : Bool) :
    StepAgree (accessStep ref ns none k) (Spec.Eval.access (absV ref) ns (.str k) last) := by
  cases ref <;> simp [accessStep, Spec.Eval.access, absV, StepAgree]
  all_goals (try (cases ns <;> cases last <;> simp [absV]))
  · rename_i id kvs
    exact key_abs kvs k

/-- an integer key (`.N`, `[N]`) -/
theorem access_int (ref : Value) (ns : Bool) (i : Int) (last : Bool) :
    StepAgree (accessStep ref ns (some i) []) (Spec.Eval.access (absV ref) ns (.int i) last) := by
  cases ref <;> simp [accessStep, Spec.Eval.access, absV, StepAgree]
  all_goals (try (cases ns <;> cases last <;> simp [absV]))
  · rename_i id xs
    exact index_abs xs i

/-- a key of another kind (float, bool, null): the interpreter uses its text `k` as a string key -/
theorem access_other (ref : Value) (ns : Bool) (k : Bytes) (last : Bool) :
    StepAgree (accessStep ref ns none k) (Spec.Eval.access (absV ref) ns .other last) := by
  cases ref <;> simp [accessStep, Spec.Eval.access, absV, StepAgree]
  all_goals (try (cases ns <;> cases last <;> simp [absV]))

end SoyVerif.Refine
