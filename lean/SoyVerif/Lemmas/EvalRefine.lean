/-
  Helper lemmas for the refinement Model.Eval.evalE ⊑ Spec.Eval.eval (Props/C01.lean):
  the abstraction of model values, printing of scalars, and the Int64 arithmetic of the model against
  the mathematical integers of the specification under the no-overflow guard.
-/
import SoyVerif.Model.Eval
import SoyVerif.Spec.Eval

namespace SoyVerif.Refine
open SoyVerif SoyVerif.Model SoyVerif.Model.Eval
open SoyVerif.Spec.Eval (Val Out)

mutual
/-- abstraction of a model value: identities dropped, int64 read as an integer -/
def absV : Value → Val
  | .undefined => .undefined
  | .null => .null
  | .bool b => .bool b
  | .int i => .int i.toInt
  | .float f => .float f
  | .str s => .str s
  | .list _ xs => .list (absL xs)
  | .map _ kvs => .map (absK kvs)
def absL : List Value → List Val
  | [] => []
  | x :: xs => absV x :: absL xs
def absK : List (Bytes × Value) → List (Bytes × Val)
  | [] => []
  | (k, v) :: r => (k, absV v) :: absK r
end

def Scalar : Value → Bool
  | .list _ _ => false
  | .map _ _ => false
  | _ => true

theorem showFloat_format (f : F64) (s : Bytes) (h : Spec.Eval.showFloat f = .val s) : F64.formatJS f = s := by
  unfold Spec.Eval.showFloat at h
  unfold F64.formatJS
  split at h
  · simp at h
  · rename_i hc
    simp only [Bool.or_eq_true, not_or, Bool.not_eq_true] at hc
    obtain ⟨⟨h1, h2⟩, h3⟩ := hc
    simp only [h1, h2, h3, Bool.false_eq_true, if_false]
    generalize F64.shortest f = ck at h ⊢
    obtain ⟨c, k⟩ := ck
    simp only at h ⊢
    split at h
    · simp at h
    · rename_i hw
      have hw' : ¬ (((F64.natDigits c).length : Int) + k - 1 < -6 ∨ 21 ≤ ((F64.natDigits c).length : Int) + k - 1) := by omega
      simp only [Bool.or_eq_true, decide_eq_true_eq, hw', if_false]
      simp only [Spec.Eval.Out.val.injEq] at h
      rw [← h]
      unfold F64.fmtF
      rfl

theorem showFloat_not_error (f : F64) : Spec.Eval.showFloat f ≠ .error := by
  unfold Spec.Eval.showFloat
  split
  · simp
  · generalize F64.shortest f = ck
    obtain ⟨c, k⟩ := ck
    simp only
    split <;> simp

/-- printing a scalar: where the specification gives text the model gives the same text, where it gives an
    error (undefined) the model's String() panics -/
theorem show_scalar (mv : Value) (hs : Scalar mv = true) :
    (∀ s, Spec.Eval.showVal (absV mv) = .val s → str mv = some s) ∧
    (Spec.Eval.showVal (absV mv) = .error → str mv = none) := by
  cases mv with
  | undefined => simp [absV, Spec.Eval.showVal, str, Value.render, Value.toString]
  | null => simp [absV, Spec.Eval.showVal, str, Value.render, Value.toString, Spec.Eval.sNull, Value.sNull]
  | bool b =>
    cases b <;> simp [absV, Spec.Eval.showVal, str, Value.render, Value.toString, Spec.Eval.sTrue, Value.sTrue,
      Spec.Eval.sFalse, Value.sFalse]
  | int i => simp [absV, Spec.Eval.showVal, str, Value.render, Value.toString]
  | float f =>
    refine ⟨fun s h => ?_, fun h => ?_⟩
    · simp only [absV, Spec.Eval.showVal] at h
      simp [str, Value.render, Value.toString, showFloat_format f s h]
    · simp only [absV, Spec.Eval.showVal] at h
      exact absurd h (showFloat_not_error f)
  | str s => simp [absV, Spec.Eval.showVal, str, Value.render, Value.toString]
  | list _ _ => simp [Scalar] at hs
  | map _ _ => simp [Scalar] at hs

/-! ### Int64 against Int under the no-overflow guard -/

theorem inI64_iff (i : Int) : Spec.Eval.inI64 i = true ↔ (-2 ^ 63 ≤ i ∧ i < 2 ^ 63) := by
  simp only [Spec.Eval.inI64, Spec.Eval.two63, decide_eq_true_eq]
  have e : (2 : Int) ^ 63 = 9223372036854775808 := by decide
  rw [e]
  exact decide_eq_true_iff

theorem bmod_id {n : Int} (h1 : -2 ^ 63 ≤ n) (h2 : n < 2 ^ 63) : n.bmod (2 ^ 64) = n :=
  Int.bmod_eq_of_le (by omega) (by omega)

theorem toInt_add_of (a b : Int64) (h : Spec.Eval.inI64 (a.toInt + b.toInt) = true) :
    (a + b).toInt = a.toInt + b.toInt := by
  rw [Int64.toInt_add]; exact bmod_id ((inI64_iff _).mp h).1 ((inI64_iff _).mp h).2

theorem toInt_sub_of (a b : Int64) (h : Spec.Eval.inI64 (a.toInt - b.toInt) = true) :
    (a - b).toInt = a.toInt - b.toInt := by
  rw [Int64.toInt_sub]; exact bmod_id ((inI64_iff _).mp h).1 ((inI64_iff _).mp h).2

theorem toInt_mul_of (a b : Int64) (h : Spec.Eval.inI64 (a.toInt * b.toInt) = true) :
    (a * b).toInt = a.toInt * b.toInt := by
  rw [Int64.toInt_mul]; exact bmod_id ((inI64_iff _).mp h).1 ((inI64_iff _).mp h).2

theorem toInt_neg_of (a : Int64) (h : Spec.Eval.inI64 (-a.toInt) = true) : (-a).toInt = -a.toInt := by
  rw [Int64.toInt_neg]; exact bmod_id ((inI64_iff _).mp h).1 ((inI64_iff _).mp h).2

theorem toInt_eq_zero (a : Int64) : (a == 0) = (a.toInt == 0) := by
  have : (a = 0) ↔ (a.toInt = 0) := by
    rw [← Int64.toInt_zero, Int64.toInt_inj]
  by_cases h : a = 0
  · subst h; rfl
  · have h' : ¬ a.toInt = 0 := fun e => h (this.mpr e)
    rw [beq_eq_false_iff_ne.mpr h, beq_eq_false_iff_ne.mpr h']

theorem toInt_beq (a b : Int64) : (a == b) = (a.toInt == b.toInt) := by
  by_cases h : a = b
  · subst h; simp
  · have h' : ¬ a.toInt = b.toInt := fun e => h (Int64.toInt_inj.mp e)
    rw [beq_eq_false_iff_ne.mpr h, beq_eq_false_iff_ne.mpr h']

/-! ### operators on scalars -/

theorem equals_refines (a b : Value) (ha : Scalar a = true) (hb : Scalar b = true) :
    (∀ r, Spec.Eval.equalsV (absV a) (absV b) = .val r → Value.equals a b = r) ∧
    Spec.Eval.equalsV (absV a) (absV b) ≠ .error := by
  cases a <;> cases b <;>
    simp_all [Scalar, absV, Spec.Eval.equalsV, Value.equals, toInt_beq, F64.ofInt64] <;>
    (try (intro r; split <;> simp_all)) <;> (try (split <;> simp))


/-- string concatenation of two scalars -/
theorem strcat_refines (a b : Value) (ha : Scalar a = true) (hb : Scalar b = true) :
    (∀ v, ((Spec.Eval.showVal (absV a)).bind fun s1 => (Spec.Eval.showVal (absV b)).bind fun s2 =>
        (Out.val (Val.str (s1 ++ s2)) : Out Val)) = .val v →
      ∃ mv, (match str a, str b with
        | some s1, some s2 => some (Value.str (s1 ++ s2))
        | _, _ => none) = some mv ∧ absV mv = v ∧ Scalar mv = true) ∧
    (((Spec.Eval.showVal (absV a)).bind fun s1 => (Spec.Eval.showVal (absV b)).bind fun s2 =>
        (Out.val (Val.str (s1 ++ s2)) : Out Val)) = .error →
      (match str a, str b with
        | some s1, some s2 => some (Value.str (s1 ++ s2))
        | _, _ => none) = none) := by
  obtain ⟨a1, a2⟩ := show_scalar a ha
  obtain ⟨b1, b2⟩ := show_scalar b hb
  cases hsa : Spec.Eval.showVal (absV a) with
  | val s1 =>
    cases hsb : Spec.Eval.showVal (absV b) with
    | val s2 =>
      rw [a1 s1 hsa, b1 s2 hsb]
      simp [Spec.Eval.Out.bind, absV, Scalar]
    | error => rw [b2 hsb]; simp [Spec.Eval.Out.bind]
    | unspec => simp [Spec.Eval.Out.bind]
  | error => rw [a2 hsa]; simp [Spec.Eval.Out.bind]
  | unspec => simp [Spec.Eval.Out.bind]

theorem toF_abs (a : Value) : Spec.Eval.toF (absV a) = toFloat a := by
  cases a <;> simp [absV, Spec.Eval.toF, toFloat, F64.ofInt64]

theorem isStr_abs (a : Value) : Spec.Eval.isStr (absV a) = isString a := by
  cases a <;> simp [absV, Spec.Eval.isStr, isString]

abbrev ArithSpec (op : BinOp) (a b : Value) : Prop :=
    (∀ v, Spec.Eval.binop op (absV a) (absV b) = .val v →
      a ≠ .undefined ∧ b ≠ .undefined ∧ ∃ mv, arith op a b = some mv ∧ absV mv = v ∧ Scalar mv = true) ∧
    (Spec.Eval.binop op (absV a) (absV b) = .error → a = .undefined ∨ b = .undefined ∨ arith op a b = none)

theorem bmod_lit {n : Int} (h : Spec.Eval.inI64 n = true) : n.bmod 18446744073709551616 = n := by
  have := bmod_id ((inI64_iff n).mp h).1 ((inI64_iff n).mp h).2
  simpa using this

theorem intRes_close (n : Int) :
    (∀ v, (if Spec.Eval.inI64 n = true then Out.val (Val.int n) else Out.unspec) = Out.val v →
        Val.int (n.bmod 18446744073709551616) = v) ∧
    ¬(if Spec.Eval.inI64 n = true then (Out.val (Val.int n) : Out Val) else Out.unspec) = Out.error := by
  refine ⟨fun v hv => ?_, fun h => ?_⟩
  · split at hv
    · rename_i hin
      simp only [Out.val.injEq] at hv
      rw [← hv, bmod_lit hin]
    · simp at hv
  · split at h <;> simp at h

theorem add_refines (a b : Value) (ha : Scalar a = true) (hb : Scalar b = true) : ArithSpec .add a b := by
  have hcat := strcat_refines a b ha hb
  cases a <;> cases b <;>
    simp_all [ArithSpec, Scalar, absV, Spec.Eval.binop, arith, Spec.Eval.isStr, isString, Spec.Eval.toF, toFloat,
      Spec.Eval.intRes, F64.ofInt64]
  all_goals (first | exact hcat | exact intRes_close _ | skip)

theorem sub_refines (a b : Value) (ha : Scalar a = true) (hb : Scalar b = true) : ArithSpec .sub a b := by
  cases a <;> cases b <;>
    simp_all [ArithSpec, Scalar, absV, Spec.Eval.binop, arith, Spec.Eval.toF, toFloat, Spec.Eval.intRes, F64.ofInt64]
  all_goals (first | exact intRes_close _ | skip)

theorem mul_refines (a b : Value) (ha : Scalar a = true) (hb : Scalar b = true) : ArithSpec .mul a b := by
  cases a <;> cases b <;>
    simp_all [ArithSpec, Scalar, absV, Spec.Eval.binop, arith, Spec.Eval.toF, toFloat, Spec.Eval.intRes, F64.ofInt64]
  all_goals (first | exact intRes_close _ | skip)

theorem div_refines (a b : Value) (ha : Scalar a = true) (hb : Scalar b = true) : ArithSpec .div a b := by
  cases a <;> cases b <;>
    simp_all [ArithSpec, Scalar, absV, Spec.Eval.binop, arith, Spec.Eval.toF, toFloat, Spec.Eval.isZeroNum, F64.ofInt64]
  all_goals (refine ⟨fun v hv => ?_, fun h => ?_⟩)
  all_goals (first | (split at hv <;> simp_all) | (split at h <;> simp_all))

theorem mod_refines (a b : Value) (ha : Scalar a = true) (hb : Scalar b = true) : ArithSpec .mod a b := by
  cases a <;> cases b <;>
    simp_all [ArithSpec, Scalar, absV, Spec.Eval.binop, arith, Spec.Eval.intRes, Spec.Eval.tmod]
  rename_i x y
  have hz : (y = 0) ↔ (y.toInt = 0) := by rw [← Int64.toInt_zero, Int64.toInt_inj]
  refine ⟨fun v hv => ?_, fun h => ?_⟩
  · split at hv
    · simp at hv
    · rename_i hne
      by_cases hin : Spec.Eval.inI64 (x.toInt.tmod y.toInt) = true
      · simp only [hin, if_true, Out.val.injEq] at hv
        exact ⟨.int (x % y), ⟨fun e => hne (hz.mp e), rfl⟩, by rw [← hv]; simp [absV, Int64.toInt_mod], rfl⟩
      · simp [hin] at hv
  · apply Classical.byContradiction
    intro hne
    have hne' : ¬ y.toInt = 0 := fun e => hne (hz.mpr e)
    have := h hne'
    by_cases hin : Spec.Eval.inI64 (x.toInt.tmod y.toInt) = true
    · simp [hin] at this
    · simp [hin] at this

theorem truthy_abs (v : Value) (h : Scalar v = true) : Spec.Eval.truthy (absV v) = v.truthy := by
  cases v with
  | float f =>
    simp only [absV, Spec.Eval.truthy, Value.truthy]
    have := F64.eq_zero_iff f
    cases hz : f.isZero <;> cases he : F64.eq f F64.zero <;> simp_all
  | list _ _ => simp [Scalar] at h
  | map _ _ => simp [Scalar] at h
  | int i => simp only [absV, Spec.Eval.truthy, Value.truthy, bne, toInt_eq_zero]
  | _ => simp [absV, Spec.Eval.truthy, Value.truthy]

/-- int → float conversion is order-exact on the integers of magnitude ≤ 2^53 -/
def OrdExact : Prop := ∀ x y : Int, Spec.Eval.small x = true → Spec.Eval.small y = true →
  F64.lt (F64.ofInt x) (F64.ofInt y) = decide (x < y) ∧ F64.le (F64.ofInt x) (F64.ofInt y) = decide (x ≤ y)

theorem cmp_refines (hx : OrdExact) (op : BinOp) (hop : op = .lt ∨ op = .le ∨ op = .gt ∨ op = .ge)
    (a b : Value) (ha : Scalar a = true) (hb : Scalar b = true) : ArithSpec op a b := by
  rcases hop with rfl | rfl | rfl | rfl <;> cases a <;> cases b <;>
    simp_all [ArithSpec, Scalar, absV, Spec.Eval.binop, Spec.Eval.compareV, arith, Spec.Eval.toF, toFloat, F64.ofInt64]
  all_goals (refine ⟨fun v hv => ?_, fun h => ?_⟩)
  all_goals first
    | (split at h <;> simp at h)
    | (split at hv
       · rename_i hs
         simp only [Out.val.injEq] at hv
         first
           | (rw [← hv, (hx _ _ hs.1 hs.2).1])
           | (rw [← hv, (hx _ _ hs.1 hs.2).2])
           | (rw [← hv, (hx _ _ hs.2 hs.1).1])
           | (rw [← hv, (hx _ _ hs.2 hs.1).2])
           | exact hv
       · simp at hv)

end SoyVerif.Refine
