/-
  Lemmas about the render model (Model/MsgRender.lean): `Placeholder(name)` on flat bodies
  and on PO-shaped plurals, compositionality of `evalMsgParts`, and the core of the identity
  translation: rendering `Parts(placeholder string)` reproduces the source render.
-/
import SoyVerif.Model.MsgRender
import SoyVerif.Lemmas.MsgParts

namespace SoyVerif.Model.Msg

/-! ### flat bodies -/

def RPart.isPlural : RPart → Bool
  | .plural _ _ _ _ => true
  | _ => false

/-- no plural among the (top-level) parts -/
def isFlat (ps : List RPart) : Bool := ps.all (!·.isPlural)

/-- first top-level placeholder with the given name -/
def findSrc (name : Bytes) : List RPart → Option Bytes
  | [] => none
  | .ph n s :: r => if n == name then some s else findSrc name r
  | _ :: r => findSrc name r

theorem phSearch_nil (name : Bytes) : ∀ f, phSearch name f [] = none
  | 0 => rfl
  | _ + 1 => rfl

theorem isFlat_cons {p : RPart} {ps : List RPart} (h : isFlat (p :: ps) = true) :
    p.isPlural = false ∧ isFlat ps = true := by
  simpa [isFlat] using h

theorem phSearch_flat (name : Bytes) : ∀ (ps : List RPart), isFlat ps = true → ∀ (f : Nat) (rest : List PItem),
    phSearch name (f + ps.length) (ps.map .part ++ rest) = (findSrc name ps).or (phSearch name f rest)
  | [], _, f, rest => by simp [findSrc]
  | p :: ps, h, f, rest => by
    obtain ⟨hp, hps⟩ := isFlat_cons h
    have ih := phSearch_flat name ps hps f rest
    cases p with
    | text b =>
      simp only [List.length_cons, List.map_cons, List.cons_append, ← Nat.add_assoc, phSearch, findSrc]
      exact ih
    | ph n s =>
      simp only [List.length_cons, List.map_cons, List.cons_append, ← Nat.add_assoc, phSearch, findSrc]
      split
      · simp
      · exact ih
    | plural _ _ _ _ => simp [RPart.isPlural] at hp

theorem weightList_flat : ∀ ps : List RPart, isFlat ps = true → weightList ps = ps.length
  | [], _ => rfl
  | p :: ps, h => by
    obtain ⟨hp, hps⟩ := isFlat_cons h
    cases p with
    | text b => simp [weightList, RPart.weight, weightList_flat ps hps]; omega
    | ph n s => simp [weightList, RPart.weight, weightList_flat ps hps]; omega
    | plural _ _ _ _ => simp [RPart.isPlural] at hp

/-- on a flat body `Placeholder(name)` is the first top-level placeholder of that name -/
theorem placeholder_flat (name : Bytes) (R : List RPart) (h : isFlat R = true) :
    placeholder name R = findSrc name R := by
  unfold placeholder
  have := phSearch_flat name R h 1 []
  rw [weightList_flat R h, Nat.add_comm]
  simp only [List.append_nil] at this
  rw [this, phSearch_nil]
  cases findSrc name R <;> rfl

/-- on a PO-shaped plural the search visits the default body first, then the case body -/
theorem placeholder_poPlural (name N s : Bytes) (k : Int) (C D : List RPart)
    (hC : isFlat C = true) (hD : isFlat D = true) :
    placeholder name [.plural N s [(k, C)] D] = findSrc name (D ++ C) := by
  have hflat : isFlat (D ++ C) = true := by
    simp only [isFlat, List.all_append, Bool.and_eq_true] at hC hD ⊢
    exact ⟨hD, hC⟩
  have hw : weightList [.plural N s [(k, C)] D] + 1 = (1 + (D ++ C).length) + 4 := by
    simp [weightList, RPart.weight, weightCases, weightList_flat C hC, weightList_flat D hD]
    omega
  unfold placeholder
  rw [hw]
  simp only [List.map_cons, List.map_nil, phSearch, List.nil_append, List.cons_append]
  have := phSearch_flat name (D ++ C) hflat 1 []
  simp only [List.append_nil, List.map_append] at this
  rw [this, phSearch_nil]
  cases findSrc name (D ++ C) <;> rfl

theorem findSrc_of_mem (name s : Bytes) : ∀ (L : List RPart), .ph name s ∈ L →
    ∃ s', findSrc name L = some s' ∧ .ph name s' ∈ L
  | [], h => by simp at h
  | p :: L, h => by
    cases p with
    | ph n s₀ =>
      simp only [findSrc]
      by_cases hn : n = name
      · subst hn
        exact ⟨s₀, by simp, by simp⟩
      · have hb : (n == name) = false := by simpa using hn
        simp only [hb]
        rcases List.mem_cons.mp h with h | h
        · injection h with h1 _; exact absurd h1.symm hn
        · obtain ⟨s', h1, h2⟩ := findSrc_of_mem name s L h
          exact ⟨s', by simpa using h1, List.mem_cons_of_mem _ h2⟩
    | text b =>
      rcases List.mem_cons.mp h with h | h
      · cases h
      · obtain ⟨s', h1, h2⟩ := findSrc_of_mem name s L h
        exact ⟨s', by simpa [findSrc] using h1, List.mem_cons_of_mem _ h2⟩
    | plural v s₀ cs d =>
      rcases List.mem_cons.mp h with h | h
      · cases h
      · obtain ⟨s', h1, h2⟩ := findSrc_of_mem name s L h
        exact ⟨s', by simpa [findSrc] using h1, List.mem_cons_of_mem _ h2⟩

/-! ### evalMsgParts is compositional -/

variable (ρ : Bytes → Bytes) (ν : Bytes → Int) (sel : Int → Int) (R : List RPart)

theorem renderTs_append : ∀ (a b : List TPart),
    renderTs ρ ν sel R (a ++ b) =
      (renderTs ρ ν sel R a).bind fun x => (renderTs ρ ν sel R b).map fun y => x ++ y
  | [], b => by
    simp only [List.nil_append, renderTs, Option.bind_some]
    cases renderTs ρ ν sel R b <;> simp
  | t :: a, b => by
    simp only [List.cons_append, renderTs, renderTs_append a b]
    cases renderT ρ ν sel R t <;> cases renderTs ρ ν sel R a <;> cases renderTs ρ ν sel R b <;> simp

theorem renderTs_flush (pend : Bytes) (ts : List TPart) :
    renderTs ρ ν sel R (liftParts (flushText pend) ++ ts) = (renderTs ρ ν sel R ts).map fun y => pend ++ y := by
  unfold flushText liftParts
  cases pend with
  | nil => cases h : renderTs ρ ν sel R ts <;> simp [h]
  | cons b p =>
    simp only [List.isEmpty_cons, Bool.false_eq_true, if_false, List.map_cons, List.map_nil, List.cons_append,
      List.nil_append, renderTs, TPart.ofMsgPart, renderT]
    cases renderTs ρ ν sel R ts <;> simp

/-! ### the core of the identity translation -/

/-- `toN` on flat lists, stated without the mutual recursion -/
theorem toNList_cons (p : RPart) (ps : List RPart) : toNList (p :: ps) = p.toN :: toNList ps := by
  simp [toNList]

/-- Let `L` be the flat list in which `Placeholder` searches, with at most one source text
    per name.  Rendering the expected parts of a flat sub-body `rs ⊆ L` gives the pending
    text followed by the source render of `rs`. -/
theorem render_expected (L : List RPart)
    (hlook : ∀ n, placeholder n R = findSrc n L)
    (huniq : ∀ n s s', RPart.ph n s ∈ L → RPart.ph n s' ∈ L → ρ s = ρ s') :
    ∀ (rs : List RPart) (pend : Bytes), isFlat rs = true → (∀ x ∈ rs, x ∈ L) →
      renderTs ρ ν sel R (liftParts (expectedParts (toNList rs) pend)) = some (pend ++ renderSrcList ρ ν rs)
  | [], pend, _, _ => by
    have := renderTs_flush ρ ν sel R pend []
    simp only [List.append_nil] at this
    simp [toNList, expectedParts, renderSrcList, this, renderTs]
  | p :: rs, pend, hf, hsub => by
    obtain ⟨hp, hrs⟩ := isFlat_cons hf
    have hsub' : ∀ x ∈ rs, x ∈ L := fun x hx => hsub x (List.mem_cons_of_mem _ hx)
    cases p with
    | text b =>
      simp only [toNList_cons, RPart.toN, expectedParts, renderSrcList, renderSrc]
      rw [render_expected L hlook huniq rs (pend ++ b) hrs hsub']
      simp
    | ph n s =>
      simp only [toNList_cons, RPart.toN, expectedParts, renderSrcList, renderSrc]
      have hl : liftParts (flushText pend ++ MsgPart.ph n :: expectedParts (toNList rs) []) =
          liftParts (flushText pend) ++ (TPart.ph n :: liftParts (expectedParts (toNList rs) [])) := by
        simp [liftParts, TPart.ofMsgPart]
      rw [hl, renderTs_flush]
      obtain ⟨s', h1, h2⟩ := findSrc_of_mem n s L (hsub _ (by simp))
      have hρ : ρ s' = ρ s := huniq n s' s h2 (hsub _ (by simp))
      simp only [renderTs, renderT, hlook, h1, Option.map_some, hρ,
        render_expected L hlook huniq rs [] hrs hsub']
      simp
    | plural _ _ _ _ => simp [RPart.isPlural] at hp

end SoyVerif.Model.Msg
