/-
  The expression parser of Model/Parser.lean terminates: with fuel `8·mu + c` (mu = real
  tokens ahead) no function of it returns `fuelOut`; every error is positioned at a token;
  a successful `parseExpr` consumed at least one real token.
-/
import SoyVerif.Lemmas.ParserSafe

set_option linter.unusedSimpArgs false
set_option linter.unusedVariables false

namespace SoyVerif.Lemmas.ParserSafe
open SoyVerif SoyVerif.Model SoyVerif.Model.Parser

theorem real_of_eq {it : Item} {t : ItemType} (h : it.typ = t) (ht : t ≠ .tInvalid) : real it = 1 := by
  unfold real; rw [if_neg]; rw [h]; exact ht

theorem real_of_beq {it : Item} {t : ItemType} (h : (it.typ == t) = true) (ht : t ≠ .tInvalid) : real it = 1 :=
  real_of_eq (by simpa using h) ht

theorem real_of_unary {it : Item} (h : isUnaryOp it.typ = true) : real it = 1 := by
  unfold real; rw [if_neg]; intro e; rw [e] at h; revert h; decide

theorem real_of_binary {it : Item} (h : isBinaryOp it.typ = true) : real it = 1 := by
  unfold real; rw [if_neg]; intro e; rw [e] at h; revert h; decide

theorem real_of_value {it : Item} (h : isValue it.typ = true) : real it = 1 := by
  unfold real; rw [if_neg]; intro e; rw [e] at h; revert h; decide

theorem binOpOf_isSome {t : ItemType} (h : isBinaryOp t = true) : binOpOf t ≠ none := by
  revert h; cases t <;> decide

theorem unary_cases {t : ItemType} (h : isUnaryOp t = true) : t = .tNot ∨ t = .tNegate := by
  revert h; cases t <;> decide

theorem val_ne1 {AP : Prop} {it : Item} (h : AP ∨ WFItem it)
    (ht : it.typ = .tDollarIdent ∨ it.typ = .tDotIdent ∨ it.typ = .tDotIndex) : it.val = [] → AP := by
  intro he
  rcases h with h | h
  · exact h
  · exact absurd he (h.1 ht)

theorem val_ne2a {AP : Prop} {it : Item} (h : AP ∨ WFItem it)
    (ht : it.typ = .tQuestionDotIdent ∨ it.typ = .tQuestionDotIndex) : it.val = [] → AP := by
  intro he
  rcases h with h | h
  · exact h
  · have := h.2 ht; rw [he] at this; simp at this

theorem val_ne2b {AP : Prop} {it : Item} {b : UInt8} {r : Bytes} (h : AP ∨ WFItem it)
    (ht : it.typ = .tQuestionDotIdent ∨ it.typ = .tQuestionDotIndex) (hv : it.val = b :: r) : r = [] → AP := by
  intro he
  rcases h with h | h
  · exact h
  · have := h.2 ht; rw [hv, he] at this; simp at this

section
variable (pf : Bytes → Option UInt64) (AP EL : Prop) (S : Item → Prop)

/-- post-condition shared by the expression functions: invariant kept, no real token
    "un-consumed"; `d` = real tokens consumed at least -/
def EPost (st : PState) (d : Nat) {α : Type} : α → PState → Prop :=
  fun _ st' => Inv EL S st' ∧ mu st' + d ≤ mu st

/-- the specifications of all expression functions at one fuel level -/
structure ExprSpecs (fuel : Nat) : Prop where
  parseExpr : ∀ prec st, Inv EL S st → 8 * mu st + 10 ≤ fuel → PSafe AP S (parseExpr pf fuel prec) st (EPost EL S st 1)
  exprLoop : ∀ prec n st, Inv EL S st → 8 * mu st + 17 ≤ fuel → PSafe AP S (exprLoop pf fuel prec n) st (EPost EL S st 0)
  firstTerm : ∀ st, Inv EL S st → 8 * mu st + 9 ≤ fuel → PSafe AP S (parseExprFirstTerm pf fuel) st (EPost EL S st 1)
  newValueNode : ∀ tok st, S tok → isValue tok.typ = true → Inv EL S st → 8 * mu st + 16 ≤ fuel → PSafe AP S (newValueNode pf fuel tok) st (EPost EL S st 0)
  parseDataRef : ∀ st, Inv EL S st → 8 * mu st + 15 ≤ fuel → PSafe AP S (parseDataRef pf fuel) st (EPost EL S st 0)
  parseListOrMap : ∀ tok st, S tok → Inv EL S st → 8 * mu st + 15 ≤ fuel → PSafe AP S (parseListOrMap pf fuel tok) st (EPost EL S st 0)
  parseListItems : ∀ st, Inv EL S st → 8 * mu st + 12 ≤ fuel → PSafe AP S (parseListItems pf fuel) st (EPost EL S st 0)
  parseMapItems : ∀ k m st, Inv EL S st → 8 * mu st + 12 ≤ fuel → PSafe AP S (parseMapItems pf fuel k m) st (EPost EL S st 0)
  parseTernary : ∀ c st, Inv EL S st → 8 * mu st + 12 ≤ fuel → PSafe AP S (parseTernary pf fuel c) st (EPost EL S st 0)
  newGlobalNode : ∀ p n nxt st, S nxt → Inv EL S st → st.peekCount ≤ 1 → top st = nxt → 8 * (mu st + real nxt) + 8 ≤ fuel →
    PSafe AP S (newGlobalNode pf fuel p n nxt) st (fun _ st' => Inv EL S st' ∧ mu st' ≤ mu st + real nxt)
  newFunctionNode : ∀ tok st, Inv EL S st → 8 * mu st + 13 ≤ fuel → PSafe AP S (newFunctionNode pf fuel tok) st (EPost EL S st 0)
  parseFuncArgs : ∀ st, Inv EL S st → 8 * mu st + 12 ≤ fuel → PSafe AP S (parseFuncArgs pf fuel) st (EPost EL S st 0)

variable (hz : S Item.zero) (hwf : ∀ it, S it → AP ∨ WFItem it)
include hz hwf

theorem parseExpr_ok {fuel : Nat} (ih : ExprSpecs pf AP EL S fuel) (prec : Nat) (st : PState) (hi : Inv EL S st)
    (hf : 8 * mu st + 10 ≤ fuel + 1) : PSafe AP S (Parser.parseExpr pf (fuel + 1) prec) st (EPost EL S st 1) := by
  unfold Parser.parseExpr
  apply PSafe.bind
  apply (ih.firstTerm st hi (by omega)).mono
  intro n st1 ⟨hi1, hm1⟩
  apply (ih.exprLoop prec n st1 hi1 (by omega)).mono
  intro e st2 ⟨hi2, hm2⟩
  exact ⟨hi2, by omega⟩

theorem exprLoop_ok {fuel : Nat} (ih : ExprSpecs pf AP EL S fuel) (prec : Nat) (n : Expr) (st : PState) (hi : Inv EL S st)
    (hf : 8 * mu st + 17 ≤ fuel + 1) : PSafe AP S (Parser.exprLoop pf (fuel + 1) prec n) st (EPost EL S st 0) := by
  unfold Parser.exprLoop
  apply PSafe.bind
  apply next_safe hz hi
  intro tok st1 hi1 hs1 hpc1 ht1 hm1 _
  try dsimp only
  split
  · split
    · apply (ih.parseTernary n st1 hi1 (by omega)).mono
      intro e st2 ⟨hi2, hm2⟩
      exact ⟨hi2, by omega⟩
    · apply PSafe.bind
      apply backup_safe hi1 (by have := hi.1; omega)
      intro st2 hi2 hm2 _
      apply PSafe.pure
      exact ⟨hi2, by rw [ht1] at hm2; omega⟩
  · rename_i hb
    have hb' : isBinaryOp tok.typ = true := by
      simp only [Bool.or_eq_true, Bool.not_eq_true', decide_eq_true_eq, not_or, Bool.not_eq_false] at hb
      exact hb.1
    have hr := real_of_binary hb'
    apply PSafe.bind
    apply (ih.parseExpr _ st1 hi1 (by omega)).mono
    intro rhs st2 ⟨hi2, hm2⟩
    split
    · apply (ih.exprLoop prec _ st2 hi2 (by omega)).mono
      intro e st3 ⟨hi3, hm3⟩
      exact ⟨hi3, by omega⟩
    · rename_i hnone
      exact absurd hnone (binOpOf_isSome hb')


theorem firstTerm_ok {fuel : Nat} (ih : ExprSpecs pf AP EL S fuel) (st : PState) (hi : Inv EL S st)
    (hf : 8 * mu st + 9 ≤ fuel + 1) : PSafe AP S (Parser.parseExprFirstTerm pf (fuel + 1)) st (EPost EL S st 1) := by
  unfold Parser.parseExprFirstTerm
  apply PSafe.bind
  apply next_safe hz hi
  intro tok st1 hi1 hs1 hpc1 ht1 hm1 _
  try dsimp only
  split
  · rename_i hu
    have hr := real_of_unary hu
    apply PSafe.bind
    apply (ih.parseExpr _ st1 hi1 (by omega)).mono
    intro arg st2 ⟨hi2, hm2⟩
    split
    · exact PSafe.pure ⟨hi2, by omega⟩
    split
    · exact PSafe.pure ⟨hi2, by omega⟩
    · rename_i h1 h2
      rcases unary_cases hu with h | h <;> simp [h] at h1 h2
  split
  · rename_i hp
    have hr := real_of_beq hp (by decide)
    apply PSafe.bind
    apply (ih.parseExpr _ st1 hi1 (by omega)).mono
    intro n st2 ⟨hi2, hm2⟩
    apply PSafe.bind
    apply expect_safe hz hi2
    intro it st3 hi3 hs3 _ _ hm3 _
    exact PSafe.pure ⟨hi3, by omega⟩
  split
  · rename_i hv
    have hr := real_of_value hv
    apply (ih.newValueNode tok st1 hs1 hv hi1 (by omega)).mono
    intro e st2 ⟨hi2, hm2⟩
    exact ⟨hi2, by omega⟩
  · exact unexpected_safe hi1 hs1

theorem newValueNode_ok {fuel : Nat} (ih : ExprSpecs pf AP EL S fuel) (tok : Item) (st : PState) (hst : S tok)
    (hv : isValue tok.typ = true) (hi : Inv EL S st) (hf : 8 * mu st + 16 ≤ fuel + 1) :
    PSafe AP S (Parser.newValueNode pf (fuel + 1) tok) st (EPost EL S st 0) := by
  unfold Parser.newValueNode
  split
  · exact PSafe.pure ⟨hi, by omega⟩
  · exact PSafe.pure ⟨hi, by omega⟩
  · split
    · exact PSafe.pure ⟨hi, by omega⟩
    · exact errorf_safe hi
  · split
    · exact PSafe.pure ⟨hi, by omega⟩
    · exact errorf_safe hi
  · split
    · exact PSafe.pure ⟨hi, by omega⟩
    · exact errorf_safe hi
  · apply (ih.parseListOrMap tok st hst hi (by omega)).mono
    intro e st2 ⟨hi2, hm2⟩
    exact ⟨hi2, by omega⟩
  · rename_i hty
    apply PSafe.bind
    apply tail1_safe (val_ne1 (hwf tok hst) (Or.inl hty))
    intro _ key _
    apply PSafe.bind
    apply (ih.parseDataRef st hi (by omega)).mono
    intro acc st2 ⟨hi2, hm2⟩
    exact PSafe.pure ⟨hi2, by omega⟩
  · apply PSafe.bind
    apply next_safe hz hi
    intro nxt st1 hi1 hs1 hpc1 ht1 hm1 _
    try dsimp only
    split
    · apply (ih.newGlobalNode _ _ nxt st1 hs1 hi1 (by have := hi.1; omega) ht1 (by have := real_le nxt; omega)).mono
      intro e st2 ⟨hi2, hm2⟩
      exact ⟨hi2, by omega⟩
    · rename_i hp
      have hp' : nxt.typ = .tLeftParen := by simpa using hp
      have hr := real_of_eq hp' (by decide)
      apply (ih.newFunctionNode tok st1 hi1 (by omega)).mono
      intro e st2 ⟨hi2, hm2⟩
      exact ⟨hi2, by omega⟩
  · exfalso
    rename_i h1 h2 h3 h4 h5 h6 h7 h8
    revert hv h1 h2 h3 h4 h5 h6 h7 h8
    cases tok.typ <;> simp [isValue]

theorem parseDataRef_ok {fuel : Nat} (ih : ExprSpecs pf AP EL S fuel) (st : PState) (hi : Inv EL S st)
    (hf : 8 * mu st + 15 ≤ fuel + 1) : PSafe AP S (Parser.parseDataRef pf (fuel + 1)) st (EPost EL S st 0) := by
  unfold Parser.parseDataRef
  apply PSafe.bind
  apply next_safe hz hi
  intro tok st1 hi1 hs1 hpc1 ht1 hm1 _
  try dsimp only
  split
  · rename_i ht
    have hr := real_of_eq ht (by decide)
    apply PSafe.bind; apply tail1_safe (val_ne2a (hwf tok hs1) (Or.inl ht)); intro b1 r1 hv1
    apply PSafe.bind; apply tail1_safe (val_ne2b (hwf tok hs1) (Or.inl ht) hv1); intro _ k _
    apply PSafe.bind
    apply (ih.parseDataRef st1 hi1 (by omega)).mono
    intro r st2 ⟨hi2, hm2⟩
    exact PSafe.pure ⟨hi2, by omega⟩
  · rename_i ht
    have hr := real_of_eq ht (by decide)
    apply PSafe.bind; apply tail1_safe (val_ne1 (hwf tok hs1) (Or.inr (Or.inl ht))); intro _ k _
    apply PSafe.bind
    apply (ih.parseDataRef st1 hi1 (by omega)).mono
    intro r st2 ⟨hi2, hm2⟩
    exact PSafe.pure ⟨hi2, by omega⟩
  · rename_i ht
    have hr := real_of_eq ht (by decide)
    apply PSafe.bind; apply tail1_safe (val_ne2a (hwf tok hs1) (Or.inr ht)); intro b1 r1 hv1
    apply PSafe.bind; apply tail1_safe (val_ne2b (hwf tok hs1) (Or.inr ht) hv1); intro _ d _
    split
    · apply PSafe.bind
      apply (ih.parseDataRef st1 hi1 (by omega)).mono
      intro r st2 ⟨hi2, hm2⟩
      exact PSafe.pure ⟨hi2, by omega⟩
    · exact errorf_safe hi1
  · rename_i ht
    have hr := real_of_eq ht (by decide)
    apply PSafe.bind; apply tail1_safe (val_ne1 (hwf tok hs1) (Or.inr (Or.inr ht))); intro _ d _
    split
    · apply PSafe.bind
      apply (ih.parseDataRef st1 hi1 (by omega)).mono
      intro r st2 ⟨hi2, hm2⟩
      exact PSafe.pure ⟨hi2, by omega⟩
    · exact errorf_safe hi1
  · rename_i ht
    have hr := real_of_eq ht (by decide)
    apply PSafe.bind
    apply (ih.parseExpr _ st1 hi1 (by omega)).mono
    intro e st2 ⟨hi2, hm2⟩
    apply PSafe.bind
    apply expect_safe hz hi2
    intro it st3 hi3 hs3 _ _ hm3 _
    apply PSafe.bind
    apply (ih.parseDataRef st3 hi3 (by omega)).mono
    intro r st4 ⟨hi4, hm4⟩
    exact PSafe.pure ⟨hi4, by omega⟩
  · rename_i ht
    have hr := real_of_eq ht (by decide)
    apply PSafe.bind
    apply (ih.parseExpr _ st1 hi1 (by omega)).mono
    intro e st2 ⟨hi2, hm2⟩
    apply PSafe.bind
    apply expect_safe hz hi2
    intro it st3 hi3 hs3 _ _ hm3 _
    apply PSafe.bind
    apply (ih.parseDataRef st3 hi3 (by omega)).mono
    intro r st4 ⟨hi4, hm4⟩
    exact PSafe.pure ⟨hi4, by omega⟩
  · apply PSafe.bind
    apply backup_safe hi1 (by have := hi.1; omega)
    intro st2 hi2 hm2 _
    exact PSafe.pure ⟨hi2, by rw [ht1] at hm2; omega⟩


theorem parseListOrMap_ok {fuel : Nat} (ih : ExprSpecs pf AP EL S fuel) (token : Item) (st : PState) (hst : S token)
    (hi : Inv EL S st) (hf : 8 * mu st + 15 ≤ fuel + 1) :
    PSafe AP S (Parser.parseListOrMap pf (fuel + 1) token) st (EPost EL S st 0) := by
  unfold Parser.parseListOrMap
  apply PSafe.bind
  apply next_safe hz hi
  intro t1 st1 hi1 hs1 hpc1 ht1 hm1 _
  try dsimp only
  split
  · apply PSafe.bind
    apply expect_safe hz hi1
    intro it st2 hi2 _ _ _ hm2 _
    exact PSafe.pure ⟨hi2, by omega⟩
  split
  · exact PSafe.pure ⟨hi1, by omega⟩
  · apply PSafe.bind
    apply backup_safe hi1 (by have := hi.1; omega)
    intro st2 hi2 hm2 _
    rw [ht1] at hm2
    apply PSafe.bind
    apply (ih.parseExpr _ st2 hi2 (by omega)).mono
    intro firstExpr st3 ⟨hi3, hm3⟩
    apply PSafe.bind
    apply next_safe hz hi3
    intro tok st4 hi4 hs4 hpc4 ht4 hm4 _
    try dsimp only
    split
    · rename_i hc
      have hr := real_of_beq hc (by decide)
      split
      · apply PSafe.bind
        apply (ih.parseMapItems _ _ st4 hi4 (by omega)).mono
        intro items st5 ⟨hi5, hm5⟩
        exact PSafe.pure ⟨hi5, by omega⟩
      · exact errorf_safe hi4
    split
    · rename_i hc
      have hr := real_of_beq hc (by decide)
      apply PSafe.bind
      apply (ih.parseListItems st4 hi4 (by omega)).mono
      intro items st5 ⟨hi5, hm5⟩
      exact PSafe.pure ⟨hi5, by omega⟩
    split
    · exact PSafe.pure ⟨hi4, by omega⟩
    · exact unexpected_safe hi4 hs4

theorem parseListItems_ok {fuel : Nat} (ih : ExprSpecs pf AP EL S fuel) (st : PState)
    (hi : Inv EL S st) (hf : 8 * mu st + 12 ≤ fuel + 1) :
    PSafe AP S (Parser.parseListItems pf (fuel + 1)) st (EPost EL S st 0) := by
  unfold Parser.parseListItems
  apply PSafe.bind
  apply peek_safe hz hi
  intro pk st0 hi0 hs0 hm0 hd0 _
  split
  · apply PSafe.bind
    apply next_safe hz hi0
    intro t st1 hi1 hs1 _ _ hm1 _
    exact PSafe.pure ⟨hi1, by omega⟩
  · apply PSafe.bind
    apply (ih.parseExpr _ st0 hi0 (by omega)).mono
    intro e st1 ⟨hi1, hm1⟩
    apply PSafe.bind
    apply next_safe hz hi1
    intro nxt st2 hi2 hs2 hpc2 ht2 hm2 _
    try dsimp only
    split
    · exact PSafe.pure ⟨hi2, by omega⟩
    split
    · exact unexpected_safe hi2 hs2
    · apply PSafe.bind
      apply (ih.parseListItems st2 hi2 (by omega)).mono
      intro r st3 ⟨hi3, hm3⟩
      exact PSafe.pure ⟨hi3, by omega⟩

theorem parseMapItems_ok {fuel : Nat} (ih : ExprSpecs pf AP EL S fuel) (key : Bytes) (items : MapItems) (st : PState)
    (hi : Inv EL S st) (hf : 8 * mu st + 12 ≤ fuel + 1) :
    PSafe AP S (Parser.parseMapItems pf (fuel + 1) key items) st (EPost EL S st 0) := by
  unfold Parser.parseMapItems
  apply PSafe.bind
  apply (ih.parseExpr _ st hi (by omega)).mono
  intro v st1 ⟨hi1, hm1⟩
  try dsimp only
  apply PSafe.bind
  apply next_safe hz hi1
  intro nxt st2 hi2 hs2 hpc2 ht2 hm2 _
  try dsimp only
  split
  · exact PSafe.pure ⟨hi2, by omega⟩
  split
  · exact unexpected_safe hi2 hs2
  · apply PSafe.bind
    apply peek_safe hz hi2
    intro pk st2' hi2' hs2' hm2' hd2' _
    split
    · apply PSafe.bind
      apply next_safe hz hi2'
      intro t st3 hi3 hs3 _ _ hm3 _
      exact PSafe.pure ⟨hi3, by omega⟩
    · apply PSafe.bind
      apply expect_safe hz hi2'
      intro tok st3 hi3 hs3 _ _ hm3 _
      split
      · apply PSafe.bind
        apply expect_safe hz hi3
        intro c st4 hi4 hs4 _ _ hm4 _
        apply (ih.parseMapItems _ _ st4 hi4 (by omega)).mono
        intro r st5 ⟨hi5, hm5⟩
        exact ⟨hi5, by omega⟩
      · exact errorf_safe hi3

theorem parseTernary_ok {fuel : Nat} (ih : ExprSpecs pf AP EL S fuel) (cond : Expr) (st : PState)
    (hi : Inv EL S st) (hf : 8 * mu st + 12 ≤ fuel + 1) :
    PSafe AP S (Parser.parseTernary pf (fuel + 1) cond) st (EPost EL S st 0) := by
  unfold Parser.parseTernary
  apply PSafe.bind
  apply (ih.parseExpr _ st hi (by omega)).mono
  intro n1 st1 ⟨hi1, hm1⟩
  apply PSafe.bind
  apply expect_safe hz hi1
  intro c st2 hi2 hs2 _ _ hm2 _
  apply PSafe.bind
  apply (ih.parseExpr _ st2 hi2 (by omega)).mono
  intro n2 st3 ⟨hi3, hm3⟩
  exact PSafe.pure ⟨hi3, by omega⟩

theorem newGlobalNode_ok {fuel : Nat} (ih : ExprSpecs pf AP EL S fuel) (pos : Nat) (name : Bytes) (nxt : Item)
    (st : PState) (hs : S nxt) (hi : Inv EL S st) (hpc : st.peekCount ≤ 1) (ht : top st = nxt)
    (hf : 8 * (mu st + real nxt) + 8 ≤ fuel + 1) :
    PSafe AP S (Parser.newGlobalNode pf (fuel + 1) pos name nxt) st
      (fun _ st' => Inv EL S st' ∧ mu st' ≤ mu st + real nxt) := by
  unfold Parser.newGlobalNode
  split
  · rename_i hd
    have hr := real_of_beq hd (by decide)
    apply PSafe.bind
    apply next_safe hz hi
    intro n2 st1 hi1 hs1 hpc1 ht1 hm1 _
    apply (ih.newGlobalNode _ _ n2 st1 hs1 hi1 (by omega) ht1 (by have := real_le n2; omega)).mono
    intro e st2 ⟨hi2, hm2⟩
    exact ⟨hi2, by omega⟩
  · apply PSafe.bind
    apply backup_safe hi hpc
    intro st2 hi2 hm2 _
    exact PSafe.pure ⟨hi2, by rw [ht] at hm2; omega⟩

theorem newFunctionNode_ok {fuel : Nat} (ih : ExprSpecs pf AP EL S fuel) (tok : Item) (st : PState)
    (hi : Inv EL S st) (hf : 8 * mu st + 13 ≤ fuel + 1) :
    PSafe AP S (Parser.newFunctionNode pf (fuel + 1) tok) st (EPost EL S st 0) := by
  unfold Parser.newFunctionNode
  apply PSafe.bind
  apply peek_safe hz hi
  intro pk st1 hi1 hs1 hm1 hd1 _
  split
  · apply PSafe.bind
    apply next_safe hz hi1
    intro t st2 hi2 _ _ _ hm2 _
    exact PSafe.pure ⟨hi2, by omega⟩
  · apply PSafe.bind
    apply (ih.parseFuncArgs st1 hi1 (by omega)).mono
    intro args st2 ⟨hi2, hm2⟩
    exact PSafe.pure ⟨hi2, by omega⟩

theorem parseFuncArgs_ok {fuel : Nat} (ih : ExprSpecs pf AP EL S fuel) (st : PState)
    (hi : Inv EL S st) (hf : 8 * mu st + 12 ≤ fuel + 1) :
    PSafe AP S (Parser.parseFuncArgs pf (fuel + 1)) st (EPost EL S st 0) := by
  unfold Parser.parseFuncArgs
  apply PSafe.bind
  apply (ih.parseExpr _ st hi (by omega)).mono
  intro e st1 ⟨hi1, hm1⟩
  apply PSafe.bind
  apply next_safe hz hi1
  intro tok st2 hi2 hs2 hpc2 ht2 hm2 _
  try dsimp only
  split
  · apply PSafe.bind
    apply (ih.parseFuncArgs st2 hi2 (by omega)).mono
    intro r st3 ⟨hi3, hm3⟩
    exact PSafe.pure ⟨hi3, by omega⟩
  split
  · exact PSafe.pure ⟨hi2, by omega⟩
  · exact unexpected_safe hi2 hs2

/-- every expression function meets its specification at every fuel level -/
theorem exprSpecs_all : ∀ fuel, ExprSpecs pf AP EL S fuel := by
  intro fuel
  induction fuel with
  | zero =>
    exact {
      parseExpr := fun _ _ _ h => by omega
      exprLoop := fun _ _ _ _ h => by omega
      firstTerm := fun _ _ h => by omega
      newValueNode := fun _ _ _ _ _ h => by omega
      parseDataRef := fun _ _ h => by omega
      parseListOrMap := fun _ _ _ _ h => by omega
      parseListItems := fun _ _ h => by omega
      parseMapItems := fun _ _ _ _ h => by omega
      parseTernary := fun _ _ _ h => by omega
      newGlobalNode := fun _ _ _ _ _ _ _ _ h => by omega
      newFunctionNode := fun _ _ _ h => by omega
      parseFuncArgs := fun _ _ h => by omega }
  | succ f ih =>
    exact {
      parseExpr := parseExpr_ok pf AP EL S hz hwf ih
      exprLoop := exprLoop_ok pf AP EL S hz hwf ih
      firstTerm := firstTerm_ok pf AP EL S hz hwf ih
      newValueNode := newValueNode_ok pf AP EL S hz hwf ih
      parseDataRef := parseDataRef_ok pf AP EL S hz hwf ih
      parseListOrMap := parseListOrMap_ok pf AP EL S hz hwf ih
      parseListItems := parseListItems_ok pf AP EL S hz hwf ih
      parseMapItems := parseMapItems_ok pf AP EL S hz hwf ih
      parseTernary := parseTernary_ok pf AP EL S hz hwf ih
      newGlobalNode := newGlobalNode_ok pf AP EL S hz hwf ih
      newFunctionNode := newFunctionNode_ok pf AP EL S hz hwf ih
      parseFuncArgs := parseFuncArgs_ok pf AP EL S hz hwf ih }

end
end SoyVerif.Lemmas.ParserSafe
