/-
  The expression parser of Model/Parser.lean terminates: with fuel `8·mu + c` (mu = real
  tokens ahead) no function of it returns `fuelOut`; every error is positioned at a token;
  a successful `parseExpr` consumed at least one real token.
-/
import SoyVerif.Lemmas.ParserPos

set_option linter.unusedSimpArgs false
set_option linter.unusedVariables false

namespace SoyVerif.Lemmas.ParserSafe
open SoyVerif SoyVerif.Model SoyVerif.Model.Parser

theorem binOpOf_isSome {t : ItemType} (h : isBinaryOp t = true) : binOpOf t ≠ none := by
  revert h; cases t <;> decide

theorem unary_cases {t : ItemType} (h : isUnaryOp t = true) : t = .tNot ∨ t = .tNegate := by
  revert h; cases t <;> decide

theorem val_ne1 {AP : Prop} {it : Item} (h : AP ∨ WFItem it)
    (ht : it.typ = .tDollarIdent ∨ it.typ = .tDotIdent ∨ it.typ = .tDotIndex) : it.val = [] → AP := by
  intro he
  rcases h with h | h
  · exact h
  · exact absurd he (h.1 ht)

theorem val_ne2a {AP : Prop} {it : Item} (h : AP ∨ WFItem it)
    (ht : it.typ = .tQuestionDotIdent ∨ it.typ = .tQuestionDotIndex) : it.val = [] → AP := by
  intro he
  rcases h with h | h
  · exact h
  · have := h.2 ht; rw [he] at this; simp at this

theorem val_ne2b {AP : Prop} {it : Item} {b : UInt8} {r : Bytes} (h : AP ∨ WFItem it)
    (ht : it.typ = .tQuestionDotIdent ∨ it.typ = .tQuestionDotIndex) (hv : it.val = b :: r) : r = [] → AP := by
  intro he
  rcases h with h | h
  · exact h
  · have := h.2 ht; rw [hv, he] at this; simp at this

section
variable (pf : Bytes → Option UInt64) (AP : Prop) (EL : Lvl) (S : Item → Prop)

/-- post-condition shared by the expression functions: invariant kept, no real token
    "un-consumed"; `d` = real tokens consumed at least -/
def EPost (st : PState) (d : Nat) {α : Type} : α → PState → Prop :=
  fun _ st' => Inv EL S st' ∧ mu st' + d ≤ mu st

/-- … and the tree returned satisfies `R` (positions of its nodes: `EP`, `EPs`, `EPm`, `EPa`) -/
def EPostR (st : PState) (d : Nat) {α : Type} (R : α → Prop) : α → PState → Prop :=
  fun a st' => Inv EL S st' ∧ mu st' + d ≤ mu st ∧ R a

/-- the specifications of all expression functions at one fuel level -/
structure ExprSpecs (fuel : Nat) : Prop where
  parseExpr : ∀ prec st, Inv EL S st → 8 * mu st + 10 ≤ fuel → PSafe AP EL S (parseExpr pf fuel prec) st (EPostR EL S st 1 (EP S))
  exprLoop : ∀ prec n st, EP S n → Inv EL S st → 8 * mu st + 17 ≤ fuel → PSafe AP EL S (exprLoop pf fuel prec n) st (EPostR EL S st 0 (EP S))
  firstTerm : ∀ st, Inv EL S st → 8 * mu st + 9 ≤ fuel → PSafe AP EL S (parseExprFirstTerm pf fuel) st (EPostR EL S st 1 (EP S))
  newValueNode : ∀ tok st, S tok → isValue tok.typ = true → Inv EL S st → 8 * mu st + 16 ≤ fuel → PSafe AP EL S (newValueNode pf fuel tok) st (EPostR EL S st 0 (EP S))
  parseDataRef : ∀ st, Inv EL S st → 8 * mu st + 15 ≤ fuel → PSafe AP EL S (parseDataRef pf fuel) st (EPostR EL S st 0 (EPa S))
  parseListOrMap : ∀ tok st, S tok → Inv EL S st → 8 * mu st + 15 ≤ fuel → PSafe AP EL S (parseListOrMap pf fuel tok) st (EPostR EL S st 0 (EP S))
  parseListItems : ∀ st, Inv EL S st → 8 * mu st + 12 ≤ fuel → PSafe AP EL S (parseListItems pf fuel) st (EPostR EL S st 0 (EPs S))
  parseMapItems : ∀ k m st, EPm S m → Inv EL S st → 8 * mu st + 12 ≤ fuel → PSafe AP EL S (parseMapItems pf fuel k m) st (EPostR EL S st 0 (EPm S))
  parseTernary : ∀ c st, EP S c → Inv EL S st → 8 * mu st + 12 ≤ fuel → PSafe AP EL S (parseTernary pf fuel c) st (EPostR EL S st 0 (EP S))
  newGlobalNode : ∀ p n nxt st, PosOK S p → S nxt → InvW EL S st → st.peekCount ≤ 1 → top st = nxt → 8 * (mu st + real nxt) + 8 ≤ fuel →
    PSafe AP EL S (newGlobalNode pf fuel p n nxt) st (fun e st' => Inv EL S st' ∧ mu st' ≤ mu st + real nxt ∧ EP S e)
  newFunctionNode : ∀ tok st, S tok → Inv EL S st → 8 * mu st + 13 ≤ fuel → PSafe AP EL S (newFunctionNode pf fuel tok) st (EPostR EL S st 0 (EP S))
  parseFuncArgs : ∀ st, Inv EL S st → 8 * mu st + 12 ≤ fuel → PSafe AP EL S (parseFuncArgs pf fuel) st (EPostR EL S st 0 (EPs S))

variable (hz : S Item.zero) (hwf : ∀ it, S it → AP ∨ WFItem it)
include hz hwf

theorem parseExpr_ok {fuel : Nat} (ih : ExprSpecs pf AP EL S fuel) (prec : Nat) (st : PState) (hi : Inv EL S st)
    (hf : 8 * mu st + 10 ≤ fuel + 1) : PSafe AP EL S (Parser.parseExpr pf (fuel + 1) prec) st (EPostR EL S st 1 (EP S)) := by
  unfold Parser.parseExpr
  apply PSafe.bind
  apply (ih.firstTerm st hi (by omega)).mono
  intro n st1 ⟨hi1, hm1, hp1⟩
  apply (ih.exprLoop prec n st1 hp1 hi1 (by omega)).mono
  intro e st2 ⟨hi2, hm2, hp2⟩
  exact ⟨hi2, by omega, hp2⟩

theorem exprLoop_ok {fuel : Nat} (ih : ExprSpecs pf AP EL S fuel) (prec : Nat) (n : Expr) (st : PState) (hn : EP S n) (hi : Inv EL S st)
    (hf : 8 * mu st + 17 ≤ fuel + 1) : PSafe AP EL S (Parser.exprLoop pf (fuel + 1) prec n) st (EPostR EL S st 0 (EP S)) := by
  unfold Parser.exprLoop
  apply PSafe.bind
  apply next_safe hz hi
  intro tok st1 hi1 hs1 hpc1 ht1 hm1 _
  try dsimp only
  split
  · split
    · rename_i hq
      have hr : real tok = 1 := real_of_beq (by simp only [Bool.and_eq_true] at hq; exact hq.2) (by decide)
      apply (ih.parseTernary n st1 hn (upw% hi1) (by omega)).mono
      intro e st2 ⟨hi2, hm2, hp2⟩
      exact ⟨hi2, by omega, hp2⟩
    · apply PSafe.bind
      apply backup_safe hi1 (by have := hi.1; omega)
      intro st2 hi2 hm2 _
      apply PSafe.pure
      exact ⟨hi2, by rw [ht1] at hm2; omega, hn⟩
  · rename_i hb
    have hb' : isBinaryOp tok.typ = true := by
      simp only [Bool.or_eq_true, Bool.not_eq_true', decide_eq_true_eq, not_or, Bool.not_eq_false] at hb
      exact hb.1
    have hr := real_of_binary hb'
    apply PSafe.bind
    apply (ih.parseExpr _ st1 (upw% hi1) (by omega)).mono
    intro rhs st2 ⟨hi2, hm2, hp2⟩
    split
    · apply (ih.exprLoop prec _ st2 (by simp only [EP]; exact ⟨posOK_of hs1, hn, hp2⟩) hi2 (by omega)).mono
      intro e st3 ⟨hi3, hm3, hp3⟩
      exact ⟨hi3, by omega, hp3⟩
    · rename_i hnone
      exact absurd hnone (binOpOf_isSome hb')


theorem firstTerm_ok {fuel : Nat} (ih : ExprSpecs pf AP EL S fuel) (st : PState) (hi : Inv EL S st)
    (hf : 8 * mu st + 9 ≤ fuel + 1) : PSafe AP EL S (Parser.parseExprFirstTerm pf (fuel + 1)) st (EPostR EL S st 1 (EP S)) := by
  unfold Parser.parseExprFirstTerm
  apply PSafe.bind
  apply next_safe hz hi
  intro tok st1 hi1 hs1 hpc1 ht1 hm1 _
  try dsimp only
  split
  · rename_i hu
    have hr := real_of_unary hu
    apply PSafe.bind
    apply (ih.parseExpr _ st1 (upw% hi1) (by omega)).mono
    intro arg st2 ⟨hi2, hm2, hp2⟩
    split
    · exact PSafe.pure ⟨hi2, by omega, by simp only [EP]; exact ⟨posOK_of hs1, hp2⟩⟩
    split
    · exact PSafe.pure ⟨hi2, by omega, by simp only [EP]; exact ⟨posOK_of hs1, hp2⟩⟩
    · rename_i h1 h2
      rcases unary_cases hu with h | h <;> simp [h] at h1 h2
  split
  · rename_i hp
    have hr := real_of_beq hp (by decide)
    apply PSafe.bind
    apply (ih.parseExpr _ st1 (upw% hi1) (by omega)).mono
    intro n st2 ⟨hi2, hm2, hp2⟩
    apply PSafe.bind
    apply expect_safe hz hi2 (by decide)
    intro it st3 hi3 hs3 _ _ hm3 _
    exact PSafe.pure ⟨hi3, by omega, hp2⟩
  split
  · rename_i hv
    have hr := real_of_value hv
    apply (ih.newValueNode tok st1 hs1 hv (upw% hi1) (by omega)).mono
    intro e st2 ⟨hi2, hm2, hp2⟩
    exact ⟨hi2, by omega, hp2⟩
  · exact unexpected_safe hi1 hs1

theorem newValueNode_ok {fuel : Nat} (ih : ExprSpecs pf AP EL S fuel) (tok : Item) (st : PState) (hst : S tok)
    (hv : isValue tok.typ = true) (hi : Inv EL S st) (hf : 8 * mu st + 16 ≤ fuel + 1) :
    PSafe AP EL S (Parser.newValueNode pf (fuel + 1) tok) st (EPostR EL S st 0 (EP S)) := by
  have hpt : PosOK S tok.pos := posOK_of hst
  unfold Parser.newValueNode
  split
  · exact PSafe.pure ⟨hi, by omega, by simp only [EP]; exact hpt⟩
  · exact PSafe.pure ⟨hi, by omega, by simp only [EP]; exact hpt⟩
  · split
    · exact PSafe.pure ⟨hi, by omega, by simp only [EP]; exact hpt⟩
    · exact errorf_safe hi
  · split
    · exact PSafe.pure ⟨hi, by omega, by simp only [EP]; exact hpt⟩
    · exact errorf_safe hi
  · split
    · exact PSafe.pure ⟨hi, by omega, by simp only [EP]; exact hpt⟩
    · exact errorf_safe hi
  · apply (ih.parseListOrMap tok st hst hi (by omega)).mono
    intro e st2 ⟨hi2, hm2, hp2⟩
    exact ⟨hi2, by omega, hp2⟩
  · rename_i hty
    apply PSafe.bind
    apply tail1_safe (val_ne1 (hwf tok hst) (Or.inl hty))
    intro _ key _
    apply PSafe.bind
    apply (ih.parseDataRef st hi (by omega)).mono
    intro acc st2 ⟨hi2, hm2, hp2⟩
    exact PSafe.pure ⟨hi2, by omega, by simp only [EP]; exact ⟨hpt, hp2⟩⟩
  · apply PSafe.bind
    apply next_safe hz hi
    intro nxt st1 hi1 hs1 hpc1 ht1 hm1 _
    try dsimp only
    split
    · apply (ih.newGlobalNode _ _ nxt st1 hpt hs1 hi1 (by have := hi.1; omega) ht1 (by have := real_le nxt; omega)).mono
      intro e st2 ⟨hi2, hm2, hp2⟩
      exact ⟨hi2, by omega, hp2⟩
    · rename_i hp
      have hp' : nxt.typ = .tLeftParen := by simpa using hp
      have hr := real_of_eq hp' (by decide)
      apply (ih.newFunctionNode tok st1 hst (upw% hi1) (by omega)).mono
      intro e st2 ⟨hi2, hm2, hp2⟩
      exact ⟨hi2, by omega, hp2⟩
  · exfalso
    rename_i h1 h2 h3 h4 h5 h6 h7 h8
    revert hv h1 h2 h3 h4 h5 h6 h7 h8
    cases tok.typ <;> simp [isValue]

theorem parseDataRef_ok {fuel : Nat} (ih : ExprSpecs pf AP EL S fuel) (st : PState) (hi : Inv EL S st)
    (hf : 8 * mu st + 15 ≤ fuel + 1) : PSafe AP EL S (Parser.parseDataRef pf (fuel + 1)) st (EPostR EL S st 0 (EPa S)) := by
  unfold Parser.parseDataRef
  apply PSafe.bind
  apply next_safe hz hi
  intro tok st1 hi1 hs1 hpc1 ht1 hm1 _
  have hpt : PosOK S tok.pos := posOK_of hs1
  try dsimp only
  split
  · rename_i ht
    have hr := real_of_eq ht (by decide)
    apply PSafe.bind; apply tail1_safe (val_ne2a (hwf tok hs1) (Or.inl ht)); intro b1 r1 hv1
    apply PSafe.bind; apply tail1_safe (val_ne2b (hwf tok hs1) (Or.inl ht) hv1); intro _ k _
    apply PSafe.bind
    apply (ih.parseDataRef st1 (upw% hi1) (by omega)).mono
    intro r st2 ⟨hi2, hm2, hp2⟩
    exact PSafe.pure ⟨hi2, by omega, by simp only [EPa]; exact ⟨hpt, hp2⟩⟩
  · rename_i ht
    have hr := real_of_eq ht (by decide)
    apply PSafe.bind; apply tail1_safe (val_ne1 (hwf tok hs1) (Or.inr (Or.inl ht))); intro _ k _
    apply PSafe.bind
    apply (ih.parseDataRef st1 (upw% hi1) (by omega)).mono
    intro r st2 ⟨hi2, hm2, hp2⟩
    exact PSafe.pure ⟨hi2, by omega, by simp only [EPa]; exact ⟨hpt, hp2⟩⟩
  · rename_i ht
    have hr := real_of_eq ht (by decide)
    apply PSafe.bind; apply tail1_safe (val_ne2a (hwf tok hs1) (Or.inr ht)); intro b1 r1 hv1
    apply PSafe.bind; apply tail1_safe (val_ne2b (hwf tok hs1) (Or.inr ht) hv1); intro _ d _
    split
    · apply PSafe.bind
      apply (ih.parseDataRef st1 (upw% hi1) (by omega)).mono
      intro r st2 ⟨hi2, hm2, hp2⟩
      exact PSafe.pure ⟨hi2, by omega, by simp only [EPa]; exact ⟨hpt, hp2⟩⟩
    · exact errorf_safe hi1
  · rename_i ht
    have hr := real_of_eq ht (by decide)
    apply PSafe.bind; apply tail1_safe (val_ne1 (hwf tok hs1) (Or.inr (Or.inr ht))); intro _ d _
    split
    · apply PSafe.bind
      apply (ih.parseDataRef st1 (upw% hi1) (by omega)).mono
      intro r st2 ⟨hi2, hm2, hp2⟩
      exact PSafe.pure ⟨hi2, by omega, by simp only [EPa]; exact ⟨hpt, hp2⟩⟩
    · exact errorf_safe hi1
  · rename_i ht
    have hr := real_of_eq ht (by decide)
    apply PSafe.bind
    apply (ih.parseExpr _ st1 (upw% hi1) (by omega)).mono
    intro e st2 ⟨hi2, hm2, hpe⟩
    apply PSafe.bind
    apply expect_safe hz hi2 (by decide)
    intro it st3 hi3 hs3 _ _ hm3 _
    apply PSafe.bind
    apply (ih.parseDataRef st3 hi3 (by omega)).mono
    intro r st4 ⟨hi4, hm4, hp4⟩
    exact PSafe.pure ⟨hi4, by omega, by simp only [EPa]; exact ⟨hpt, hpe, hp4⟩⟩
  · rename_i ht
    have hr := real_of_eq ht (by decide)
    apply PSafe.bind
    apply (ih.parseExpr _ st1 (upw% hi1) (by omega)).mono
    intro e st2 ⟨hi2, hm2, hpe⟩
    apply PSafe.bind
    apply expect_safe hz hi2 (by decide)
    intro it st3 hi3 hs3 _ _ hm3 _
    apply PSafe.bind
    apply (ih.parseDataRef st3 hi3 (by omega)).mono
    intro r st4 ⟨hi4, hm4, hp4⟩
    exact PSafe.pure ⟨hi4, by omega, by simp only [EPa]; exact ⟨hpt, hpe, hp4⟩⟩
  · apply PSafe.bind
    apply backup_safe hi1 (by have := hi.1; omega)
    intro st2 hi2 hm2 _
    exact PSafe.pure ⟨hi2, by rw [ht1] at hm2; omega, by simp only [EPa]⟩


theorem parseListOrMap_ok {fuel : Nat} (ih : ExprSpecs pf AP EL S fuel) (token : Item) (st : PState) (hst : S token)
    (hi : Inv EL S st) (hf : 8 * mu st + 15 ≤ fuel + 1) :
    PSafe AP EL S (Parser.parseListOrMap pf (fuel + 1) token) st (EPostR EL S st 0 (EP S)) := by
  have hpt : PosOK S token.pos := posOK_of hst
  unfold Parser.parseListOrMap
  apply PSafe.bind
  apply next_safe hz hi
  intro t1 st1 hi1 hs1 hpc1 ht1 hm1 _
  try dsimp only
  split
  · apply PSafe.bind
    apply expect_safe hz (upw% hi1) (by decide)
    intro it st2 hi2 _ _ _ hm2 _
    exact PSafe.pure ⟨hi2, by omega, by simp only [EP, EPm]; exact ⟨hpt, trivial⟩⟩
  split
  · exact PSafe.pure ⟨(upw% hi1), by omega, by simp only [EP, EPs]; exact ⟨hpt, trivial⟩⟩
  · apply PSafe.bind
    apply backup_safe hi1 (by have := hi.1; omega)
    intro st2 hi2 hm2 _
    rw [ht1] at hm2
    apply PSafe.bind
    apply (ih.parseExpr _ st2 hi2 (by omega)).mono
    intro firstExpr st3 ⟨hi3, hm3, hpf⟩
    apply PSafe.bind
    apply next_safe hz hi3
    intro tok st4 hi4 hs4 hpc4 ht4 hm4 _
    try dsimp only
    split
    · rename_i hc
      have hr := real_of_beq hc (by decide)
      split
      · apply PSafe.bind
        apply (ih.parseMapItems _ _ st4 (by simp only [EPm]) (upw% hi4) (by omega)).mono
        intro items st5 ⟨hi5, hm5, hp5⟩
        exact PSafe.pure ⟨hi5, by omega, by simp only [EP]; exact ⟨hpt, hp5⟩⟩
      · exact errorf_safe hi4
    split
    · rename_i hc
      have hr := real_of_beq hc (by decide)
      apply PSafe.bind
      apply (ih.parseListItems st4 (upw% hi4) (by omega)).mono
      intro items st5 ⟨hi5, hm5, hp5⟩
      exact PSafe.pure ⟨hi5, by omega, by simp only [EP, EPs]; exact ⟨hpt, hpf, hp5⟩⟩
    split
    · exact PSafe.pure ⟨(upw% hi4), by omega, by simp only [EP, EPs]; exact ⟨hpt, hpf, trivial⟩⟩
    · exact unexpected_safe hi4 hs4

theorem parseListItems_ok {fuel : Nat} (ih : ExprSpecs pf AP EL S fuel) (st : PState)
    (hi : Inv EL S st) (hf : 8 * mu st + 12 ≤ fuel + 1) :
    PSafe AP EL S (Parser.parseListItems pf (fuel + 1)) st (EPostR EL S st 0 (EPs S)) := by
  unfold Parser.parseListItems
  apply PSafe.bind
  apply peek_safe hz hi
  intro pk st0 hi0 hs0 hm0 hd0 _
  split
  · rename_i hb
    apply PSafe.bind
    apply next_safe hz hi0
    intro t st1 hi1 hs1 _ ht1 hm1 he1
    have hr : real t = 1 := by rw [he1 pk hd0]; exact real_of_beq hb (by decide)
    exact PSafe.pure ⟨(upw% hi1), by omega, by simp only [EPs]⟩
  · apply PSafe.bind
    apply (ih.parseExpr _ st0 hi0 (by omega)).mono
    intro e st1 ⟨hi1, hm1, hpe⟩
    apply PSafe.bind
    apply next_safe hz hi1
    intro nxt st2 hi2 hs2 hpc2 ht2 hm2 _
    try dsimp only
    split
    · exact PSafe.pure ⟨(upw% hi2), by omega, by simp only [EPs]; exact ⟨hpe, trivial⟩⟩
    split
    · exact unexpected_safe hi2 hs2
    · apply PSafe.bind
      apply (ih.parseListItems st2 (upw% hi2) (by omega)).mono
      intro r st3 ⟨hi3, hm3, hp3⟩
      exact PSafe.pure ⟨hi3, by omega, by simp only [EPs]; exact ⟨hpe, hp3⟩⟩

theorem parseMapItems_ok {fuel : Nat} (ih : ExprSpecs pf AP EL S fuel) (key : Bytes) (items : MapItems) (st : PState)
    (hitems : EPm S items) (hi : Inv EL S st) (hf : 8 * mu st + 12 ≤ fuel + 1) :
    PSafe AP EL S (Parser.parseMapItems pf (fuel + 1) key items) st (EPostR EL S st 0 (EPm S)) := by
  unfold Parser.parseMapItems
  apply PSafe.bind
  apply (ih.parseExpr _ st hi (by omega)).mono
  intro v st1 ⟨hi1, hm1, hpv⟩
  have hset : EPm S (items.set key v) := EPm.set items key v hitems hpv
  try dsimp only
  apply PSafe.bind
  apply next_safe hz hi1
  intro nxt st2 hi2 hs2 hpc2 ht2 hm2 _
  try dsimp only
  split
  · exact PSafe.pure ⟨(upw% hi2), by omega, hset⟩
  split
  · exact unexpected_safe hi2 hs2
  · apply PSafe.bind
    apply peek_safe hz (upw% hi2)
    intro pk st2' hi2' hs2' hm2' hd2' _
    split
    · rename_i hb
      apply PSafe.bind
      apply next_safe hz hi2'
      intro t st3 hi3 hs3 _ ht3 hm3 he3
      have hr : real t = 1 := by rw [he3 pk hd2']; exact real_of_beq hb (by decide)
      exact PSafe.pure ⟨(upw% hi3), by omega, hset⟩
    · apply PSafe.bind
      apply expect_safe hz hi2' (by decide)
      intro tok st3 hi3 hs3 _ _ hm3 _
      split
      · apply PSafe.bind
        apply expect_safe hz hi3 (by decide)
        intro c st4 hi4 hs4 _ _ hm4 _
        apply (ih.parseMapItems _ _ st4 hset hi4 (by omega)).mono
        intro r st5 ⟨hi5, hm5, hp5⟩
        exact ⟨hi5, by omega, hp5⟩
      · exact errorf_safe hi3

theorem parseTernary_ok {fuel : Nat} (ih : ExprSpecs pf AP EL S fuel) (cond : Expr) (st : PState)
    (hcond : EP S cond) (hi : Inv EL S st) (hf : 8 * mu st + 12 ≤ fuel + 1) :
    PSafe AP EL S (Parser.parseTernary pf (fuel + 1) cond) st (EPostR EL S st 0 (EP S)) := by
  unfold Parser.parseTernary
  apply PSafe.bind
  apply (ih.parseExpr _ st hi (by omega)).mono
  intro n1 st1 ⟨hi1, hm1, hp1⟩
  apply PSafe.bind
  apply expect_safe hz hi1 (by decide)
  intro c st2 hi2 hs2 _ _ hm2 _
  apply PSafe.bind
  apply (ih.parseExpr _ st2 hi2 (by omega)).mono
  intro n2 st3 ⟨hi3, hm3, hp3⟩
  exact PSafe.pure ⟨hi3, by omega, by simp only [EP]; exact ⟨hcond.pos, hcond, hp1, hp3⟩⟩

theorem newGlobalNode_ok {fuel : Nat} (ih : ExprSpecs pf AP EL S fuel) (pos : Nat) (name : Bytes) (nxt : Item)
    (st : PState) (hpos : PosOK S pos) (hs : S nxt) (hi : InvW EL S st) (hpc : st.peekCount ≤ 1) (ht : top st = nxt)
    (hf : 8 * (mu st + real nxt) + 8 ≤ fuel + 1) :
    PSafe AP EL S (Parser.newGlobalNode pf (fuel + 1) pos name nxt) st
      (fun e st' => Inv EL S st' ∧ mu st' ≤ mu st + real nxt ∧ EP S e) := by
  unfold Parser.newGlobalNode
  split
  · rename_i hd
    have hr := real_of_beq hd (by decide)
    apply PSafe.bind
    apply next_safe hz (upw% hi)
    intro n2 st1 hi1 hs1 hpc1 ht1 hm1 _
    apply (ih.newGlobalNode _ _ n2 st1 hpos hs1 hi1 (by omega) ht1 (by have := real_le n2; omega)).mono
    intro e st2 ⟨hi2, hm2, hp2⟩
    exact ⟨hi2, by omega, hp2⟩
  · apply PSafe.bind
    apply backup_safe hi hpc
    intro st2 hi2 hm2 _
    exact PSafe.pure ⟨hi2, by rw [ht] at hm2; omega, by simp only [EP]; exact hpos⟩

theorem newFunctionNode_ok {fuel : Nat} (ih : ExprSpecs pf AP EL S fuel) (tok : Item) (st : PState) (hst : S tok)
    (hi : Inv EL S st) (hf : 8 * mu st + 13 ≤ fuel + 1) :
    PSafe AP EL S (Parser.newFunctionNode pf (fuel + 1) tok) st (EPostR EL S st 0 (EP S)) := by
  have hpt : PosOK S tok.pos := posOK_of hst
  unfold Parser.newFunctionNode
  apply PSafe.bind
  apply peek_safe hz hi
  intro pk st1 hi1 hs1 hm1 hd1 _
  split
  · rename_i hb
    apply PSafe.bind
    apply next_safe hz hi1
    intro t st2 hi2 _ _ ht2 hm2 he2
    have hr : real t = 1 := by rw [he2 pk hd1]; exact real_of_beq hb (by decide)
    exact PSafe.pure ⟨(upw% hi2), by omega, by simp only [EP, EPs]; exact ⟨hpt, trivial⟩⟩
  · apply PSafe.bind
    apply (ih.parseFuncArgs st1 hi1 (by omega)).mono
    intro args st2 ⟨hi2, hm2, hp2⟩
    exact PSafe.pure ⟨hi2, by omega, by simp only [EP]; exact ⟨hpt, hp2⟩⟩

theorem parseFuncArgs_ok {fuel : Nat} (ih : ExprSpecs pf AP EL S fuel) (st : PState) (hi : Inv EL S st)
    (hf : 8 * mu st + 12 ≤ fuel + 1) : PSafe AP EL S (Parser.parseFuncArgs pf (fuel + 1)) st (EPostR EL S st 0 (EPs S)) := by
  unfold Parser.parseFuncArgs
  apply PSafe.bind
  apply (ih.parseExpr _ st hi (by omega)).mono
  intro e st1 ⟨hi1, hm1, hpe⟩
  apply PSafe.bind
  apply next_safe hz hi1
  intro tok st2 hi2 hs2 hpc2 ht2 hm2 _
  try dsimp only
  split
  · apply PSafe.bind
    apply (ih.parseFuncArgs st2 (upw% hi2) (by omega)).mono
    intro r st3 ⟨hi3, hm3, hp3⟩
    exact PSafe.pure ⟨hi3, by omega, by simp only [EPs]; exact ⟨hpe, hp3⟩⟩
  split
  · exact PSafe.pure ⟨(upw% hi2), by omega, by simp only [EPs]; exact ⟨hpe, trivial⟩⟩
  · exact unexpected_safe hi2 hs2

/-- every expression function meets its specification at every fuel level -/
theorem exprSpecs_all : ∀ fuel, ExprSpecs pf AP EL S fuel := by
  intro fuel
  induction fuel with
  | zero =>
    exact {
      parseExpr := fun _ _ _ h => by omega
      exprLoop := fun _ _ _ _ _ h => by omega
      firstTerm := fun _ _ h => by omega
      newValueNode := fun _ _ _ _ _ h => by omega
      parseDataRef := fun _ _ h => by omega
      parseListOrMap := fun _ _ _ _ h => by omega
      parseListItems := fun _ _ h => by omega
      parseMapItems := fun _ _ _ _ _ h => by omega
      parseTernary := fun _ _ _ _ h => by omega
      newGlobalNode := fun _ _ _ _ _ _ _ _ _ h => by omega
      newFunctionNode := fun _ _ _ _ h => by omega
      parseFuncArgs := fun _ _ h => by omega }
  | succ f ih =>
    exact {
      parseExpr := parseExpr_ok pf AP EL S hz hwf ih
      exprLoop := exprLoop_ok pf AP EL S hz hwf ih
      firstTerm := firstTerm_ok pf AP EL S hz hwf ih
      newValueNode := newValueNode_ok pf AP EL S hz hwf ih
      parseDataRef := parseDataRef_ok pf AP EL S hz hwf ih
      parseListOrMap := parseListOrMap_ok pf AP EL S hz hwf ih
      parseListItems := parseListItems_ok pf AP EL S hz hwf ih
      parseMapItems := parseMapItems_ok pf AP EL S hz hwf ih
      parseTernary := parseTernary_ok pf AP EL S hz hwf ih
      newGlobalNode := newGlobalNode_ok pf AP EL S hz hwf ih
      newFunctionNode := newFunctionNode_ok pf AP EL S hz hwf ih
      parseFuncArgs := parseFuncArgs_ok pf AP EL S hz hwf ih }

end
end SoyVerif.Lemmas.ParserSafe
