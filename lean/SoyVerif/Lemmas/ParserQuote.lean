/-
  Re-quotability of map keys (the key condition of `PrintTokens.Canon`), proved for keys of
  plain ASCII bytes (no byte that `quoteString` escapes): `unquoteString (quoteString k) = some k`.
  Keys with escapes or multi-byte runes satisfy it too (checked by `decide` on examples in
  Inst/C17.lean and by the C17 correspondence); keys with invalid UTF-8 do NOT (see
  `Inst.C17.invalid_utf8_key_not_requotable`).
-/
import SoyVerif.Model.PrintTokens

set_option linter.unusedSimpArgs false

namespace SoyVerif.Lemmas.ParserQuote
open SoyVerif SoyVerif.Model SoyVerif.Model.Printer

/-- an ASCII byte that `quoteString` copies unchanged -/
def plainB (b : UInt8) : Bool :=
  b.toNat < 128 && b != 92 && b != 39 && b != 10 && b != 13 && b != 9 && b != 8 && b != 12

theorem decodeRune_ascii (b : UInt8) (r : Bytes) (h : b.toNat < 128) : Utf8.decodeRune (b :: r) = (b.toNat, 1) := by
  simp [Utf8.decodeRune, h]

set_option maxRecDepth 100000 in
theorem quoteRune_plain : ∀ b : UInt8, plainB b = true → quoteRune b.toNat = [b] := by
  apply Bytes.forall_byte
  decide

theorem runes_go_plain : (k : Bytes) → (∀ b ∈ k, plainB b = true) → ∀ fuel, k.length ≤ fuel →
    Utf8.runes.go fuel k = k.map (·.toNat)
  | [], _, fuel, _ => by cases fuel <;> rfl
  | b :: r, h, fuel, hf => by
    obtain ⟨f, rfl⟩ : ∃ f, fuel = f + 1 := ⟨fuel - 1, by simp at hf; omega⟩
    have hb : b.toNat < 128 := by
      have := h b (by simp)
      simp [plainB] at this
      exact this.1.1.1.1.1.1.1
    unfold Utf8.runes.go
    simp only [decodeRune_ascii b r hb, List.drop_succ_cons, List.drop_zero, List.map_cons]
    rw [runes_go_plain r (fun x hx => h x (by simp [hx])) f (by simp at hf; omega)]

theorem flatMap_quote_plain : (k : Bytes) → (∀ b ∈ k, plainB b = true) →
    (k.map (·.toNat)).flatMap quoteRune = k
  | [], _ => rfl
  | b :: r, h => by
    simp only [List.map_cons, List.flatMap_cons, quoteRune_plain b (h b (by simp))]
    rw [flatMap_quote_plain r (fun x hx => h x (by simp [hx]))]
    rfl

theorem quoteString_plain (k : Bytes) (h : ∀ b ∈ k, plainB b = true) : quoteString k = [39] ++ k ++ [39] := by
  unfold quoteString Utf8.runes
  rw [runes_go_plain k h k.length (Nat.le_refl _), flatMap_quote_plain k h]

theorem not_contains_plain (k : Bytes) (h : ∀ b ∈ k, plainB b = true) :
    k.contains 92 = false ∧ k.contains 39 = false := by
  constructor
  · cases hc : k.contains 92 with
    | false => rfl
    | true =>
      have := h 92 (by simpa using hc)
      simp [plainB] at this
  · cases hc : k.contains 39 with
    | false => rfl
    | true =>
      have := h 39 (by simpa using hc)
      simp [plainB] at this

/-- plain ASCII keys are re-quotable -/
theorem requote_plain (k : Bytes) (h : ∀ b ∈ k, plainB b = true) :
    Quote.unquoteString (quoteString k) = some k := by
  rw [quoteString_plain k h]
  obtain ⟨h1, h2⟩ := not_contains_plain k h
  unfold Quote.unquoteString
  have hlen : ([39] ++ k ++ [39]).length = k.length + 2 := by simp
  have hinner : (List.drop 1 ([39] ++ k ++ [39])).take (([39] ++ k ++ [39]).length - 2) = k := by
    rw [hlen]; simp
  simp only [hlen, hinner, h1, h2]
  simp
  refine ⟨?_, fun hc => ?_⟩
  · have : (39 :: (k ++ [39]) : Bytes) = (39 :: k) ++ [39] := rfl
    rw [this, List.getLast?_append]; simp
  · have n92 : ¬ (92 : UInt8) ∈ k := by simpa using h1
    have n39 : ¬ (39 : UInt8) ∈ k := by simpa using h2
    exact absurd (hc n92) n39

end SoyVerif.Lemmas.ParserQuote
