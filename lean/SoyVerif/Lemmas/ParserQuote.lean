/-
  Re-quotability of strings: `unquoteString (quoteString k) = some k` for EVERY byte string `k`
  (`requote`).  `quoteString` (ast/node.go) escapes seven ASCII bytes and copies every other byte;
  `unquoteString` (parse/quote.go) decodes rune by rune: an escape gives back the escaped byte, a
  valid rune re-encodes to its own bytes (`decode_cases`: UTF-8 decode/encode round trip), a byte
  that is not valid UTF-8 is copied.
-/
import SoyVerif.Model.PrintTokens
set_option linter.unusedSimpArgs false
namespace SoyVerif.Lemmas.ParserQuote
open SoyVerif SoyVerif.Model SoyVerif.Model.Printer

theorem ofNat_toNat' (b : UInt8) (n : Nat) (h : n = b.toNat) : UInt8.ofNat n = b := by
  subst h; simp

/-- what `decodeRune` returns on a non-empty string: an ASCII byte, an invalid byte (width 1), or a
    valid multi-byte sequence of bytes ≥ 0x80 that `encodeRune` reproduces -/
theorem decode_cases (b0 : UInt8) (rest : Bytes) :
    (b0.toNat < 128 ∧ Utf8.decodeRune (b0 :: rest) = (b0.toNat, 1)) ∨
    (128 ≤ b0.toNat ∧ Utf8.decodeRune (b0 :: rest) = (Utf8.runeError, 1)) ∨
    (128 ≤ b0.toNat ∧ ∃ pre suf r0, rest = pre ++ suf ∧ 1 ≤ pre.length ∧ (∀ c ∈ pre, 128 ≤ c.toNat) ∧ 128 ≤ r0 ∧
      Utf8.decodeRune (b0 :: rest) = (r0, pre.length + 1) ∧ Utf8.encodeRune (Int.ofNat r0) = b0 :: pre) := by
  by_cases h1 : b0.toNat < 0x80
  · left; exact ⟨h1, by simp [Utf8.decodeRune, h1]⟩
  right
  have h128 : 128 ≤ b0.toNat := by omega
  by_cases h2 : b0.toNat < 0xC2
  · left; exact ⟨h128, by simp [Utf8.decodeRune, h1, h2]⟩
  by_cases h3 : b0.toNat < 0xE0
  · -- two bytes
    cases rest with
    | nil => left; exact ⟨h128, by simp [Utf8.decodeRune, h1, h2, h3]⟩
    | cons b1 t =>
      by_cases hc : Utf8.isCont b1 = true
      · right
        refine ⟨h128, [b1], t, (b0.toNat - 0xC0) * 64 + (b1.toNat - 0x80), rfl, by simp, ?_, ?_, ?_, ?_⟩
        · intro c hc'; simp at hc'; subst hc'; simp [Utf8.isCont] at hc; omega
        · simp [Utf8.isCont] at hc; omega
        · simp [Utf8.decodeRune, h1, h2, h3, hc]
        · simp [Utf8.isCont] at hc
          have hv : Utf8.validRune (Int.ofNat ((b0.toNat - 0xC0) * 64 + (b1.toNat - 0x80))) = true := by
            simp [Utf8.validRune]; omega
          have hn : ∀ n : Nat, (Int.ofNat n).toNat = n := fun _ => rfl
          simp only [Utf8.encodeRune, hv, if_true, hn]
          have a1 : ¬ ((b0.toNat - 0xC0) * 64 + (b1.toNat - 0x80) < 0x80) := by omega
          have a2 : (b0.toNat - 0xC0) * 64 + (b1.toNat - 0x80) < 0x800 := by omega
          simp only [a1, a2, if_false, if_true]
          rw [ofNat_toNat' b0 _ (by omega), ofNat_toNat' b1 _ (by omega)]
      · left; exact ⟨h128, by simp [Utf8.decodeRune, h1, h2, h3, hc]⟩
  have hn : ∀ n : Nat, (Int.ofNat n).toNat = n := fun _ => rfl
  by_cases h4 : b0.toNat < 0xF0
  · -- three bytes
    match rest with
    | [] => left; exact ⟨h128, by simp [Utf8.decodeRune, h1, h2, h3, h4]⟩
    | [b1] => left; exact ⟨h128, by simp [Utf8.decodeRune, h1, h2, h3, h4]⟩
    | b1 :: b2 :: t =>
      by_cases hc : ((if b0.toNat == 0xE0 then 0xA0 else 0x80) ≤ b1.toNat && b1.toNat ≤ (if b0.toNat == 0xED then 0x9F else 0xBF)
          && Utf8.isCont b2) = true
      · right
        have hd : Utf8.decodeRune (b0 :: b1 :: b2 :: t) =
            ((b0.toNat - 0xE0) * 4096 + (b1.toNat - 0x80) * 64 + (b2.toNat - 0x80), 3) := by
          simp only [Utf8.decodeRune, h1, h2, h3, h4, if_false, if_true, hc]
        simp [Utf8.isCont] at hc
        obtain ⟨⟨hlo, hhi⟩, hc2⟩ := hc
        have hb1 : 128 ≤ b1.toNat ∧ b1.toNat ≤ 191 ∧ (b0.toNat = 0xE0 → 0xA0 ≤ b1.toNat) ∧ (b0.toNat = 0xED → b1.toNat ≤ 0x9F) := by
          by_cases e0 : b0.toNat = 0xE0 <;> by_cases ed : b0.toNat = 0xED <;> simp [e0, ed] at hlo hhi <;> omega
        refine ⟨h128, [b1, b2], t, _, rfl, by simp, ?_, ?_, hd, ?_⟩
        · intro c hc'; simp at hc'; rcases hc' with rfl | rfl <;> omega
        · omega
        · have hv : Utf8.validRune (Int.ofNat ((b0.toNat - 0xE0) * 4096 + (b1.toNat - 0x80) * 64 + (b2.toNat - 0x80))) = true := by
            simp [Utf8.validRune]; omega
          simp only [Utf8.encodeRune, hv, if_true, hn]
          have a1 : ¬ ((b0.toNat - 0xE0) * 4096 + (b1.toNat - 0x80) * 64 + (b2.toNat - 0x80) < 0x80) := by omega
          have a2 : ¬ ((b0.toNat - 0xE0) * 4096 + (b1.toNat - 0x80) * 64 + (b2.toNat - 0x80) < 0x800) := by omega
          have a3 : (b0.toNat - 0xE0) * 4096 + (b1.toNat - 0x80) * 64 + (b2.toNat - 0x80) < 0x10000 := by omega
          simp only [a1, a2, a3, if_false, if_true]
          rw [ofNat_toNat' b0 _ (by omega), ofNat_toNat' b1 _ (by omega), ofNat_toNat' b2 _ (by omega)]
      · left; exact ⟨h128, by simp only [Utf8.decodeRune, h1, h2, h3, h4, if_false, if_true, hc]; simp⟩
  by_cases h5 : b0.toNat < 0xF5
  · -- four bytes
    match rest with
    | [] => left; exact ⟨h128, by simp [Utf8.decodeRune, h1, h2, h3, h4, h5]⟩
    | [b1] => left; exact ⟨h128, by simp [Utf8.decodeRune, h1, h2, h3, h4, h5]⟩
    | [b1, b2] => left; exact ⟨h128, by simp [Utf8.decodeRune, h1, h2, h3, h4, h5]⟩
    | b1 :: b2 :: b3 :: t =>
      by_cases hc : ((if b0.toNat == 0xF0 then 0x90 else 0x80) ≤ b1.toNat && b1.toNat ≤ (if b0.toNat == 0xF4 then 0x8F else 0xBF)
          && Utf8.isCont b2 && Utf8.isCont b3) = true
      · right
        have hd : Utf8.decodeRune (b0 :: b1 :: b2 :: b3 :: t) =
            ((b0.toNat - 0xF0) * 262144 + (b1.toNat - 0x80) * 4096 + (b2.toNat - 0x80) * 64 + (b3.toNat - 0x80), 4) := by
          simp only [Utf8.decodeRune, h1, h2, h3, h4, h5, if_false, if_true, hc]
        simp [Utf8.isCont] at hc
        obtain ⟨⟨⟨hlo, hhi⟩, hc2⟩, hc3⟩ := hc
        have hb1 : 128 ≤ b1.toNat ∧ b1.toNat ≤ 191 ∧ (b0.toNat = 0xF0 → 0x90 ≤ b1.toNat) ∧ (b0.toNat = 0xF4 → b1.toNat ≤ 0x8F) := by
          by_cases e0 : b0.toNat = 0xF0 <;> by_cases ed : b0.toNat = 0xF4 <;> simp [e0, ed] at hlo hhi <;> omega
        refine ⟨h128, [b1, b2, b3], t, _, rfl, by simp, ?_, ?_, hd, ?_⟩
        · intro c hc'; simp at hc'; rcases hc' with rfl | rfl | rfl <;> omega
        · omega
        · have hv : Utf8.validRune (Int.ofNat ((b0.toNat - 0xF0) * 262144 + (b1.toNat - 0x80) * 4096 + (b2.toNat - 0x80) * 64 + (b3.toNat - 0x80))) = true := by
            simp [Utf8.validRune]; omega
          simp only [Utf8.encodeRune, hv, if_true, hn]
          have a1 : ¬ ((b0.toNat - 0xF0) * 262144 + (b1.toNat - 0x80) * 4096 + (b2.toNat - 0x80) * 64 + (b3.toNat - 0x80) < 0x80) := by omega
          have a2 : ¬ ((b0.toNat - 0xF0) * 262144 + (b1.toNat - 0x80) * 4096 + (b2.toNat - 0x80) * 64 + (b3.toNat - 0x80) < 0x800) := by omega
          have a3 : ¬ ((b0.toNat - 0xF0) * 262144 + (b1.toNat - 0x80) * 4096 + (b2.toNat - 0x80) * 64 + (b3.toNat - 0x80) < 0x10000) := by omega
          simp only [a1, a2, a3, if_false]
          rw [ofNat_toNat' b0 _ (by omega), ofNat_toNat' b1 _ (by omega), ofNat_toNat' b2 _ (by omega), ofNat_toNat' b3 _ (by omega)]
      · left; exact ⟨h128, by simp only [Utf8.decodeRune, h1, h2, h3, h4, h5, if_false, if_true, hc]; simp⟩
  · left; exact ⟨h128, by simp [Utf8.decodeRune, h1, h2, h3, h4, h5]⟩

/-! ### quoting, byte by byte -/

def special (b : UInt8) : Bool := b == 92 || b == 39 || b == 10 || b == 13 || b == 9 || b == 8 || b == 12

/-- the escape letter of a special byte -/
def escLetter (b : UInt8) : UInt8 :=
  if b == 92 then 92 else if b == 39 then 39 else if b == 10 then 110 else if b == 13 then 114
  else if b == 9 then 116 else if b == 8 then 98 else 102

theorem quoteByte_special : ∀ b : UInt8, special b = true →
    quoteByte b = [92, escLetter b] ∧ (escLetter b).toNat < 128 ∧ (escLetter b).toNat ≠ 117 ∧
      Quote.unescape (escLetter b).toNat = some b.toNat ∧ b.toNat < 128 := by
  intro b h
  simp [special] at h
  rcases h with ((((((rfl | rfl) | rfl) | rfl) | rfl) | rfl) | rfl) <;> decide

theorem quoteByte_plain (b : UInt8) (h : special b = false) : quoteByte b = [b] := by
  simp [special] at h
  simp [quoteByte, h]

theorem encodeRune_ascii (b : UInt8) (h : b.toNat < 128) : Utf8.encodeRune (Int.ofNat b.toNat) = [b] := by
  have hv : Utf8.validRune (Int.ofNat b.toNat) = true := by simp [Utf8.validRune]; omega
  have hn : (Int.ofNat b.toNat).toNat = b.toNat := rfl
  simp only [Utf8.encodeRune, hv, if_true, hn, h]
  simp

theorem decode_ascii (b : UInt8) (t : Bytes) (h : b.toNat < 128) : Utf8.decodeRune (b :: t) = (b.toNat, 1) := by
  simp [Utf8.decodeRune, h]

/-- a prefix of bytes ≥ 0x80 of a quoted string is a prefix of the string itself -/
theorem flatMap_prefix_high : ∀ (pre r suf : Bytes), r.flatMap quoteByte = pre ++ suf → (∀ c ∈ pre, 128 ≤ c.toNat) →
    ∃ r', r = pre ++ r' ∧ suf = r'.flatMap quoteByte := by
  intro pre
  induction pre with
  | nil => intro r suf h _; exact ⟨r, rfl, by simpa using h.symm⟩
  | cons c pre ih =>
    intro r suf h hp
    cases r with
    | nil => simp at h
    | cons d r0 =>
      have hc : 128 ≤ c.toNat := hp c (by simp)
      cases hs : special d with
      | true =>
        obtain ⟨hq, _⟩ := quoteByte_special d hs
        simp [hq] at h
        have : c = 92 := h.1.symm
        subst this; simp at hc
      | false =>
        rw [List.flatMap_cons, quoteByte_plain d hs] at h
        simp at h
        obtain ⟨r', h1, h2⟩ := ih r0 suf h.2 (fun x hx => hp x (by simp [hx]))
        exact ⟨r', by rw [h.1, h1]; rfl, h2⟩

/-! ### the decoding loop on a quoted string -/

theorem loop_nil (fuel : Nat) (esc : Bool) (acc : Bytes) : Quote.loop fuel [] esc acc = some acc := by
  cases fuel <;> rfl

/-- one iteration of `Quote.loop`, as an equation -/
theorem loop_step (f : Nat) (x : UInt8) (t : Bytes) (esc : Bool) (acc : Bytes) :
    Quote.loop (f + 1) (x :: t) esc acc =
      (if (Utf8.decodeRune (x :: t)).1 == Utf8.runeError && (Utf8.decodeRune (x :: t)).2 == 1 && !esc then
        Quote.loop f ((x :: t).drop (Utf8.decodeRune (x :: t)).2) esc (acc ++ [x])
      else
        match (if esc then
            if (Utf8.decodeRune (x :: t)).1 == 117 then
              if ((x :: t).drop (Utf8.decodeRune (x :: t)).2).length < 4 then none
              else (Quote.parseHex4 (((x :: t).drop (Utf8.decodeRune (x :: t)).2).take 4)).map
                (fun n => Quote.surrogatePair n (((x :: t).drop (Utf8.decodeRune (x :: t)).2).drop 4))
            else if (Utf8.decodeRune (x :: t)).1 == 34 then some (34, (x :: t).drop (Utf8.decodeRune (x :: t)).2)
            else (Quote.unescape (Utf8.decodeRune (x :: t)).1).map
              (fun r => (Int.ofNat r, (x :: t).drop (Utf8.decodeRune (x :: t)).2))
          else some (Int.ofNat (Utf8.decodeRune (x :: t)).1, (x :: t).drop (Utf8.decodeRune (x :: t)).2) : Option (Int × Bytes)) with
        | none => none
        | some (r, s2) =>
          Quote.loop f s2 ((r == 92) && !esc) (if ((r == 92) && !esc) = true then acc else acc ++ Utf8.encodeRune r)) := by
  rfl

theorem loop_quote : ∀ (n : Nat) (k acc : Bytes) (fuel : Nat), k.length ≤ n → (k.flatMap quoteByte).length ≤ fuel →
    Quote.loop fuel (k.flatMap quoteByte) false acc = some (acc ++ k) := by
  intro n
  induction n with
  | zero =>
    intro k acc fuel hk _
    have : k = [] := by cases k with | nil => rfl | cons a b => simp at hk
    subst this; simp [loop_nil]
  | succ n ih =>
    intro k acc fuel hk hf
    cases k with
    | nil => simp [loop_nil]
    | cons b r =>
      simp at hk
      cases hs : special b with
      | true =>
        obtain ⟨hq, he1, he2, he3, hb⟩ := quoteByte_special b hs
        rw [List.flatMap_cons, hq] at hf ⊢
        simp [-List.length_flatMap] at hf
        obtain ⟨f, rfl⟩ : ∃ f, fuel = f + 1 := ⟨fuel - 1, by omega⟩
        obtain ⟨f', rfl⟩ : ∃ f', f = f' + 1 := ⟨f - 1, by omega⟩
        show Quote.loop (f' + 1 + 1) (92 :: escLetter b :: r.flatMap quoteByte) false acc = _
        rw [loop_step, decode_ascii 92 _ (by decide)]
        simp only [show ((92 : UInt8).toNat == Utf8.runeError) = false from by decide, Bool.false_and, Bool.false_eq_true, if_false,
          List.drop_succ_cons, List.drop_zero]
        have e92 : ((Int.ofNat (92 : UInt8).toNat == 92) && !false) = true := by decide
        simp only [e92, if_true]
        rw [loop_step, decode_ascii (escLetter b) _ he1]
        have c1 : ((escLetter b).toNat == Utf8.runeError && (1 == 1) && !true) = false := by simp
        have c2 : ((escLetter b).toNat == 117) = false := by simpa using he2
        have c3 : ((escLetter b).toNat == 34) = false := by
          have := he3
          cases h34 : ((escLetter b).toNat == 34) with
          | false => rfl
          | true =>
            have e : (escLetter b).toNat = 34 := by simpa using h34
            rw [e] at this
            simp [Quote.unescape] at this
        simp only [c1, c2, c3, Bool.false_eq_true, if_false, if_true, he3, Option.map_some, List.drop_succ_cons, List.drop_zero,
          Bool.not_true, Bool.and_false]
        rw [encodeRune_ascii b hb, ih r (acc ++ [b]) f' (by omega) (by omega)]
        simp
      | false =>
        rw [List.flatMap_cons, quoteByte_plain b hs] at hf ⊢
        simp [-List.length_flatMap] at hf
        obtain ⟨f, rfl⟩ : ∃ f, fuel = f + 1 := ⟨fuel - 1, by omega⟩
        show Quote.loop (f + 1) (b :: r.flatMap quoteByte) false acc = _
        have hb92 : b ≠ 92 := by intro h; subst h; simp [special] at hs
        rcases decode_cases b (r.flatMap quoteByte) with ⟨hlt, hd⟩ | ⟨hge, hd⟩ | ⟨hge, pre, suf, r0, hsplit, hpl, hpre, hr0, hd, henc⟩
        · -- an ASCII byte that is not escaped
          rw [loop_step, hd]
          have c1 : (b.toNat == Utf8.runeError) = false := by simp [Utf8.runeError]; omega
          have c2 : (Int.ofNat b.toNat == 92) = false := by
            simp only [beq_eq_false_iff_ne, ne_eq, Int.ofNat_eq_natCast]
            intro h
            have : b.toNat = 92 := by omega
            exact hb92 (by rw [← UInt8.toNat_inj]; simpa using this)
          simp only [c1, c2, Bool.false_and, Bool.false_eq_true, if_false, List.drop_succ_cons, List.drop_zero]
          rw [encodeRune_ascii b hlt, ih r (acc ++ [b]) f (by omega) (by omega)]
          simp
        · -- a byte that is not valid UTF-8: copied
          rw [loop_step, hd]
          simp only [beq_self_eq_true, Bool.and_self, Bool.not_false, Bool.and_true, if_true, List.drop_succ_cons, List.drop_zero]
          rw [ih r (acc ++ [b]) f (by omega) (by omega)]
          simp
        · -- a valid multi-byte rune: its continuation bytes are bytes of `r`
          obtain ⟨r', hr, hsuf⟩ := flatMap_prefix_high pre r suf hsplit hpre
          rw [loop_step, hd]
          have c1 : ((pre.length + 1 == 1)) = false := by rw [beq_eq_false_iff_ne]; omega
          have c2 : (Int.ofNat r0 == 92) = false := by
            simp only [beq_eq_false_iff_ne, ne_eq, Int.ofNat_eq_natCast]; omega
          have hdrop : (b :: r.flatMap quoteByte).drop (pre.length + 1) = r'.flatMap quoteByte := by
            rw [hsplit, hsuf]; simp
          simp only [c1, c2, Bool.and_false, Bool.false_and, Bool.false_eq_true, if_false, hdrop]
          have hlen : (r.flatMap quoteByte).length = pre.length + (r'.flatMap quoteByte).length := by
            rw [hsplit, hsuf]; simp [-List.length_flatMap]
          have hrl : r.length = pre.length + r'.length := by rw [hr]; simp
          rw [henc, ih r' (acc ++ b :: pre) f (by omega) (by omega), hr]
          simp

/-- FULL: the printer's quoting of ANY byte string reads back as that string
    (`unquoteString (quoteString k) = some k`) -/
theorem requote (k : Bytes) : Quote.unquoteString (quoteString k) = some k := by
  unfold quoteString Quote.unquoteString
  have hlen : ([39] ++ k.flatMap quoteByte ++ [39]).length = (k.flatMap quoteByte).length + 2 := by simp [-List.length_flatMap]
  have hinner : (List.drop 1 ([39] ++ k.flatMap quoteByte ++ [39])).take ((k.flatMap quoteByte).length + 2 - 2) =
      k.flatMap quoteByte := by simp
  have hlast : ([39] ++ k.flatMap quoteByte ++ [39] : Bytes).getLast? = some 39 := by
    rw [List.getLast?_append]; simp
  simp only [hlen, hinner, hlast]
  have c0 : ¬ ((k.flatMap quoteByte).length + 2 < 2) := by omega
  simp only [c0, if_false]
  simp only [show (([39] ++ k.flatMap quoteByte ++ [39] : Bytes).head? != some 39 || (some (39 : UInt8) != some 39)) = false from by simp]
  simp only [Bool.false_eq_true, if_false]
  by_cases hfast : (!(k.flatMap quoteByte).contains 92 && !(k.flatMap quoteByte).contains 39) = true
  · simp only [hfast, if_true]
    -- no backslash in the quoted text: no byte was escaped
    have h92 : ¬ (92 : UInt8) ∈ k.flatMap quoteByte := by
      simp [-List.mem_flatMap, -List.contains_flatMap] at hfast; exact hfast.1
    have : ∀ (l : Bytes), ¬ (92 : UInt8) ∈ l.flatMap quoteByte → l.flatMap quoteByte = l := by
      intro l
      induction l with
      | nil => intro _; rfl
      | cons d l ih =>
        intro h
        cases hs : special d with
        | true =>
          obtain ⟨hq, _⟩ := quoteByte_special d hs
          exact absurd (by simp [hq]) h
        | false =>
          rw [List.flatMap_cons, quoteByte_plain d hs] at h ⊢
          simp at h
          simp [ih (by simpa using h.2)]
    rw [this k h92]
  · simp only [hfast, Bool.false_eq_true, if_false]
    rw [loop_quote k.length k [] _ (Nat.le_refl _) (Nat.le_refl _)]
    simp

end SoyVerif.Lemmas.ParserQuote
