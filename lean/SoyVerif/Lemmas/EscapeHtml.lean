/-
  Lemmas about the HTML escaper (soyhtml.htmlEscapeString, which the escaping directives share since /repo c835e8f)
  against the specification decoder of Spec/Html.lean.  Everything is per output "piece"
  (the bytes written for one input byte) and then a one-line induction.
-/
import SoyVerif.Model.Escape
import SoyVerif.Spec.Html

namespace SoyVerif.Lemmas.EscapeHtml
open SoyVerif SoyVerif.Model SoyVerif.Spec

/-! ### meaning of the Boolean specifications -/

theorem noRawSpecial_iff (s : Bytes) :
    noRawSpecial s = true ↔ ∀ b ∈ s, b ≠ 60 ∧ b ≠ 62 ∧ b ≠ 34 ∧ b ≠ 39 := by
  simp only [noRawSpecial, isHtmlSpecialQuote, List.all_eq_true, Bool.not_eq_true', Bool.or_eq_false_iff,
    beq_eq_false_iff_ne, ne_eq, and_assoc]

theorem noRawSpecial_append (a b : Bytes) :
    noRawSpecial (a ++ b) = (noRawSpecial a && noRawSpecial b) := by
  simp [noRawSpecial]

/-- every `&`, wherever it occurs, is the start of a complete reference -/
theorem ampsStartRefs_iff (s : Bytes) :
    ampsStartRefs s = true ↔ ∀ pre post, s = pre ++ 38 :: post → (matchRef (38 :: post)).isSome = true := by
  induction s with
  | nil => simp [ampsStartRefs]
  | cons b r ih =>
    simp only [ampsStartRefs, Bool.and_eq_true, Bool.or_eq_true, bne_iff_ne, ne_eq, ih]
    constructor
    · rintro ⟨h1, h2⟩ pre post e
      cases pre with
      | nil =>
        simp only [List.nil_append, List.cons.injEq] at e
        obtain ⟨rfl, rfl⟩ := e
        simpa using h1
      | cons p ps =>
        simp only [List.cons_append, List.cons.injEq] at e
        exact h2 ps post e.2
    · intro h
      refine ⟨?_, fun pre post e => h (b :: pre) post (by simp [e])⟩
      by_cases hb : b = 38
      · subst hb; right; exact h [] r rfl
      · left; exact hb

/-! ### soyhtml.htmlEscapeString -/

theorem htmlPiece_cases (b : UInt8) :
    (b = 34 ∧ htmlPiece b = [38, 113, 117, 111, 116, 59]) ∨ (b = 39 ∧ htmlPiece b = [38, 35, 51, 57, 59]) ∨
    (b = 38 ∧ htmlPiece b = [38, 97, 109, 112, 59]) ∨ (b = 60 ∧ htmlPiece b = [38, 108, 116, 59]) ∨
    (b = 62 ∧ htmlPiece b = [38, 103, 116, 59]) ∨
    (b ≠ 34 ∧ b ≠ 39 ∧ b ≠ 38 ∧ b ≠ 60 ∧ b ≠ 62 ∧ htmlPiece b = [b]) := by
  by_cases h34 : b = 34
  · subst h34; simp [htmlPiece, htmlRepl]
  by_cases h39 : b = 39
  · subst h39; simp [htmlPiece, htmlRepl]
  by_cases h38 : b = 38
  · subst h38; simp [htmlPiece, htmlRepl]
  by_cases h60 : b = 60
  · subst h60; simp [htmlPiece, htmlRepl]
  by_cases h62 : b = 62
  · subst h62; simp [htmlPiece, htmlRepl]
  · simp [htmlPiece, htmlRepl, h34, h39, h38, h60, h62]

theorem matchRef_nonAmp (b : UInt8) (t : Bytes) (h : b ≠ 38) : matchRef (b :: t) = none := by
  have h' : ¬ (38 = b) := fun e => h e.symm
  simp [matchRef, htmlRefs, h']

theorem unesc_piece (b : UInt8) (t : Bytes) :
    htmlUnescapeGo 0 (htmlPiece b ++ t) = b :: htmlUnescapeGo 0 t := by
  rcases htmlPiece_cases b with ⟨rfl, h⟩ | ⟨rfl, h⟩ | ⟨rfl, h⟩ | ⟨rfl, h⟩ | ⟨rfl, h⟩ | ⟨_, _, h38, _, _, h⟩ <;> rw [h]
  all_goals first
    | simp [htmlUnescapeGo, matchRef, htmlRefs]; done
    | simp [htmlUnescapeGo, matchRef_nonAmp b t h38]

theorem noRaw_piece (b : UInt8) : noRawSpecial (htmlPiece b) = true := by
  rcases htmlPiece_cases b with ⟨rfl, h⟩ | ⟨rfl, h⟩ | ⟨rfl, h⟩ | ⟨rfl, h⟩ | ⟨rfl, h⟩ | ⟨h34, h39, _, h60, h62, h⟩ <;> rw [h]
  all_goals first
    | decide
    | simp [noRawSpecial, isHtmlSpecialQuote, h34, h39, h60, h62]

theorem amps_piece (b : UInt8) (t : Bytes) :
    ampsStartRefs (htmlPiece b ++ t) = ampsStartRefs t := by
  rcases htmlPiece_cases b with ⟨rfl, h⟩ | ⟨rfl, h⟩ | ⟨rfl, h⟩ | ⟨rfl, h⟩ | ⟨rfl, h⟩ | ⟨_, _, h38, _, _, h⟩ <;> rw [h]
  all_goals first
    | simp [ampsStartRefs, matchRef, htmlRefs]; done
    | simp [ampsStartRefs, h38]

theorem htmlEscape_noRaw (s : Bytes) : noRawSpecial (htmlEscape s) = true := by
  induction s with
  | nil => rfl
  | cons b r ih => rw [htmlEscape, noRawSpecial_append, noRaw_piece, ih]; rfl

theorem htmlEscape_amps (s : Bytes) : ampsStartRefs (htmlEscape s) = true := by
  induction s with
  | nil => rfl
  | cons b r ih => rw [htmlEscape, amps_piece, ih]

theorem htmlUnescape_htmlEscape (s : Bytes) : htmlUnescape (htmlEscape s) = s := by
  unfold htmlUnescape
  induction s with
  | nil => rfl
  | cons b r ih => rw [htmlEscape, unesc_piece, ih]

end SoyVerif.Lemmas.EscapeHtml
