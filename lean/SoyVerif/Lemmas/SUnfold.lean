/-
  `sunfold f g …` — unfold, once, every application of the listed (structurally recursive)
  functions in the goal by *smart unfolding* and reduce the exposed `match` on a constructor.
  Unlike `unfold` it does not generate equation lemmas (for the large mutual block of the
  JavaScript generator model their generation exceeds the heartbeat limit, which a client file
  cannot raise); the new goal is checked to be definitionally equal to the old one (`change`).
-/
import Lean

namespace SoyVerif.Lemmas

open Lean Elab Tactic Meta in
elab "sunfold " ids:(ppSpace colGt ident)+ : tactic => do
  let names ← ids.mapM fun id => realizeGlobalConstNoOverloadWithInfo id
  let g ← getMainGoal
  let t ← instantiateMVars (← g.getType)
  let t' ← Meta.transform t (pre := fun e => do
    let f := e.getAppFn
    if f.isConst && names.contains f.constName! then
      match ← unfoldDefinition? e with
      | some e' => return .done (← whnfCore e')
      | none => return .continue
    else return .continue)
  let g' ← g.change t'
  replaceMainGoal [g']

open Lean Elab Tactic Meta in
/-- `sunfoldh h f g …`: the same in the hypothesis `h` -/
elab "sunfoldh " h:ident ids:(ppSpace colGt ident)+ : tactic => do
  let names ← ids.mapM fun id => realizeGlobalConstNoOverloadWithInfo id
  let g ← getMainGoal
  g.withContext do
    let fv ← getFVarId h
    let t ← instantiateMVars (← fv.getType)
    let t' ← Meta.transform t (pre := fun e => do
      let f := e.getAppFn
      if f.isConst && names.contains f.constName! then
        match ← unfoldDefinition? e with
        | some e' => return .done (← whnfCore e')
        | none => return .continue
      else return .continue)
    let g' ← g.changeLocalDecl fv t'
    replaceMainGoal [g']

open Lean Elab Tactic Meta in
/-- `mred`: reduce every `match` in the goal whose discriminants are constructors -/
elab "mred" : tactic => do
  let g ← getMainGoal
  let t ← instantiateMVars (← g.getType)
  let t' ← Meta.transform t (pre := fun e => do
    match ← reduceMatcher? e with
    | .reduced e' => return .visit e'
    | _ => return .continue)
  let g' ← g.change t'
  replaceMainGoal [g']

end SoyVerif.Lemmas
