/-
  The adjacency facts about the printer's output: for every tree with `NamesOk`, every token of
  `pieces e` is followed — inside the printed text, or by the text after the expression — by bytes
  that do not extend it (`Adj (pieces e) tail` for every `tail` that starts with a space, `)`, `]`,
  `,` or is empty): the printer puts a space or a punctuation byte after every word and number, a
  space after every operator symbol and `?`, and never a digit after a unary minus.
-/
import SoyVerif.Lemmas.LexPrintNames

set_option linter.unusedSimpArgs false
set_option linter.unusedVariables false
set_option linter.unusedSectionVars false

namespace SoyVerif.Lemmas.LexPrint
open SoyVerif SoyVerif.Model SoyVerif.Model.Lex SoyVerif.Model.PrintTokens SoyVerif.Model.Printer
open SoyVerif.Lemmas.ParserToks

/-- what may follow an expression in printed text: nothing, a space, `)`, `]` or `,` -/
def Closer (rest : Bytes) : Prop := rest = [] ∨ ∃ b s, rest = b :: s ∧ (b = 32 ∨ b = 41 ∨ b = 93 ∨ b = 44 ∨ b = 124 ∨ b = 125)

/-- … or, after a data-ref key, the next access: `.`, `?`, `[` -/
def AccCloser (rest : Bytes) : Prop := Closer rest ∨ ∃ b s, rest = b :: s ∧ (b = 46 ∨ b = 63 ∨ b = 91)

theorem closer_nil : Closer [] := Or.inl rfl
theorem closer_sp (s : Bytes) : Closer (32 :: s) := Or.inr ⟨32, s, rfl, Or.inl rfl⟩
theorem closer_rp (s : Bytes) : Closer (41 :: s) := Or.inr ⟨41, s, rfl, Or.inr (Or.inl rfl)⟩
theorem closer_rb (s : Bytes) : Closer (93 :: s) := Or.inr ⟨93, s, rfl, Or.inr (Or.inr (Or.inl rfl))⟩
theorem closer_comma (s : Bytes) : Closer (44 :: s) := Or.inr ⟨44, s, rfl, Or.inr (Or.inr (Or.inr (Or.inl rfl)))⟩
theorem closer_pipe (s : Bytes) : Closer (124 :: s) := Or.inr ⟨124, s, rfl, Or.inr (Or.inr (Or.inr (Or.inr (Or.inl rfl))))⟩
theorem closer_rbrace (s : Bytes) : Closer (125 :: s) := Or.inr ⟨125, s, rfl, Or.inr (Or.inr (Or.inr (Or.inr (Or.inr rfl))))⟩

theorem closer_wordEnd {rest : Bytes} (h : Closer rest) : WordEnd rest := by
  rcases h with rfl | ⟨b, s, rfl, hb⟩
  · trivial
  · rcases hb with rfl | rfl | rfl | rfl | rfl | rfl <;> exact ⟨by decide, by decide⟩

theorem closer_numEnd {rest : Bytes} (h : Closer rest) : NumEnd rest := by
  refine ⟨closer_wordEnd h, ?_⟩
  rcases h with rfl | ⟨b, s, rfl, hb⟩
  · simp
  · rcases hb with rfl | rfl | rfl | rfl | rfl | rfl <;> simp

theorem accCloser_wordEnd {rest : Bytes} (h : AccCloser rest) : WordEnd rest := by
  rcases h with h | ⟨b, s, rfl, hb⟩
  · exact closer_wordEnd h
  · rcases hb with rfl | rfl | rfl <;> exact ⟨by decide, by decide⟩

theorem wordEnd_of_head {b : UInt8} {s : Bytes} (h1 : b < 128) (h2 : isIdChar b = false) : WordEnd (b :: s) := ⟨h1, h2⟩

/-! ### the tokens of the printer satisfy `TokOk` -/

section
variable (T : LexTableOK)
include T

theorem tok_null {rest : Bytes} (hr : WordEnd rest) : TokOk tNull rest :=
  .word 110 [117, 108, 108] .tNull rest (by decide) (by decide) hr (Or.inl ⟨T.kw.1, by decide, by decide⟩)

theorem tok_bool (b : Bool) {rest : Bytes} (hr : WordEnd rest) : TokOk (tBool b) rest := by
  cases b
  · exact .word 102 [97, 108, 115, 101] .tBool rest (by decide) (by decide) hr (Or.inl ⟨T.kw.2.2.1, by decide, by decide⟩)
  · exact .word 116 [114, 117, 101] .tBool rest (by decide) (by decide) hr (Or.inl ⟨T.kw.2.1, by decide, by decide⟩)

theorem tok_not (rest : Bytes) : TokOk tNot (32 :: rest) :=
  .word 110 [111, 116] .tNot _ (by decide) (by decide) (wordEnd_of_head (by decide) (by decide))
    (Or.inl ⟨T.kw.2.2.2.1, by decide, by decide⟩)

theorem tok_op (o : BinOp) (rest : Bytes) : TokOk (tOp o) (32 :: rest) := by
  by_cases ha : o = .and
  · subst ha
    exact .word 97 [110, 100] .tAnd _ (by decide) (by decide) (wordEnd_of_head (by decide) (by decide))
      (Or.inl ⟨T.kw.2.2.2.2.1, by decide, by decide⟩)
  · by_cases ho : o = .or
    · subst ho
      exact .word 111 [114] .tOr _ (by decide) (by decide) (wordEnd_of_head (by decide) (by decide))
        (Or.inl ⟨T.kw.2.2.2.2.2, by decide, by decide⟩)
    · exact .op o rest ⟨ha, ho⟩

end

theorem tok_ident {n rest : Bytes} (hn : identOk n = true) (hk : notKeyword n = true) (hr : WordEnd rest) :
    TokOk (tIdent n) rest := by
  obtain ⟨c, r, rfl, hc, hr'⟩ := identOk_parts hn
  have : Gen.builtinIdents.lookup (c :: r) = none := by
    simpa [notKeyword] using hk
  exact .word c r .tIdent rest hc hr' hr (Or.inr ⟨this, rfl⟩)

theorem tok_dollar {k rest : Bytes} (hk : varOk k = true) (hr : WordEnd rest) :
    TokOk ⟨.tDollarIdent, [36] ++ k⟩ rest := by
  obtain ⟨c, r, rfl, hk', hl⟩ := varOk_parts hk
  exact .dollar c r rest hk' hl hr

theorem tok_key (ns : Bool) {k rest : Bytes} (hk : keyOk k = true) (hr : WordEnd rest) :
    TokOk (if ns then ⟨.tQuestionDotIdent, [63, 46] ++ k⟩ else ⟨.tDotIdent, [46] ++ k⟩) rest := by
  obtain ⟨c, r, rfl, hall, hl⟩ := keyOk_parts hk
  obtain ⟨x, wd, hrune, _⟩ := alnumBytes_cons_rune hall
  have hc : isDig c = false := by rw [← runeAt_isDigit hrune]; exact letterR_notDigit (hl x wd hrune)
  cases ns
  · have := TokOk.dot c r rest hall (fun _ => hl) hr
    rw [hc] at this
    simpa using this
  · have := TokOk.qdot c r rest hall (fun _ => hl) hr
    rw [hc] at this
    simpa using this

theorem tok_index (ns : Bool) {i : Int} {rest : Bytes} (hi : 0 ≤ i) (hr : WordEnd rest) :
    TokOk (if ns then ⟨.tQuestionDotIndex, [63, 46] ++ fmtInt i⟩ else ⟨.tDotIndex, [46] ++ fmtInt i⟩) rest := by
  obtain ⟨c, k, hck, hc, hall⟩ := fmtInt_nonneg hi
  rw [hck]
  cases ns
  · have := TokOk.dot c k rest (alnumBytes_ascii hall) (fun h => by rw [hc] at h; exact absurd h (by decide)) hr
    rw [hc] at this
    simpa using this
  · have := TokOk.qdot c k rest (alnumBytes_ascii hall) (fun h => by rw [hc] at h; exact absurd h (by decide)) hr
    rw [hc] at this
    simpa using this

theorem tok_int (v : Int) {rest : Bytes} (hr : NumEnd rest) : TokOk ⟨.tInteger, fmtInt v⟩ rest :=
  .num _ _ _ (fmtInt_shape v) hr

theorem tok_float {val rest : Bytes} (h : floatSpelling val = true) (hr : NumEnd rest) : TokOk ⟨.tFloat, val⟩ rest :=
  .num _ _ _ (floatSpelling_shape h) hr

/-! ### what follows a list item, an argument, a map entry, a data-ref key -/

section
variable (ff : UInt64 → Bytes)

theorem closer_args (r : ExprList) {tail : Bytes} (h : Closer tail) : Closer (spell (piecesArgs ff r false) ++ tail) := by
  cases r with
  | nil => simpa [piecesArgs, spell] using h
  | cons e r => simp [piecesArgs, spell, spell_append, tComma]; exact closer_comma _

theorem closer_items (r : ExprList) {tail : Bytes} (h : Closer tail) : Closer (spell (piecesItems ff r false) ++ tail) := by
  cases r with
  | nil => simpa [piecesItems, spell] using h
  | cons e r => simp [piecesItems, spell, spell_append, tComma]; exact closer_comma _

theorem closer_map (r : MapItems) {tail : Bytes} (h : Closer tail) : Closer (spell (piecesMap ff r false) ++ tail) := by
  cases r with
  | nil => simpa [piecesMap, spell] using h
  | cons k e r => simp [piecesMap, spell, spell_append, tComma]; exact closer_comma _

theorem accCloser_accs (r : AccessList) {tail : Bytes} (h : Closer tail) : AccCloser (spell (piecesAccs ff r) ++ tail) := by
  cases r with
  | nil =>
    have : AccCloser tail := Or.inl h
    simpa [piecesAccs, spell] using this
  | cons a r =>
    right
    cases a with
    | key p ns k => cases ns <;> simp [piecesAccs, piecesAcc, spell, spell_append]
    | index p ns i => cases ns <;> simp [piecesAccs, piecesAcc, spell, spell_append]
    | expr p ns e => cases ns <;> simp [piecesAccs, piecesAcc, spell, spell_append, tQKey, tLB]

theorem wordEnd_segs (segs : List Bytes) (hs : segs.all segOk = true) {tail : Bytes} (h : Closer tail) :
    WordEnd (spell ((segs.map tDotIdent).map .tok) ++ tail) := by
  cases segs with
  | nil => simpa [spell] using closer_wordEnd h
  | cons seg r =>
    simp only [List.all_cons, Bool.and_eq_true] at hs
    have h1 := hs.1
    unfold segOk at h1
    split at h1
    · simp only [List.map_cons, spell, tDotIdent, List.cons_append]
      exact ⟨by decide, by decide⟩
    · exact absurd h1 (by simp)

/-- the byte after a unary minus: never a digit -/
theorem neg_next (a : Expr) (hN : NamesOk ff a = true) (hp : ¬ precedenceOf a < precUnary)
    (hni : ∀ p v, a ≠ .int p v) (hnf : ∀ p v, a ≠ .float p v) (tail : Bytes) :
    AsciiHd (spell (pieces ff a) ++ tail) ∧
      (hdRune (spell (pieces ff a) ++ tail) < 48 ∨ 57 < hdRune (spell (pieces ff a) ++ tail)) := by
  cases a with
  | null p => simp [pieces, spell, tNull, AsciiHd, hdRune]
  | bool p b => cases b <;> simp [pieces, spell, tBool, AsciiHd, hdRune]
  | int p v => exact absurd rfl (hni p v)
  | float p v => exact absurd rfl (hnf p v)
  | str p q v =>
    rw [NamesOk] at hN
    obtain ⟨q0, body, rfl, hq, _⟩ := strOk_parts hN
    rcases hq with rfl | rfl <;> simp [pieces, spell, tString, AsciiHd, hdRune]
  | global p n =>
    rw [NamesOk] at hN
    simp only [globalOk, Bool.and_eq_true] at hN
    obtain ⟨c, r, hcr, hc, _⟩ := identOk_parts hN.1.1
    have hn := isIdStart_nat hc
    simp only [pieces, globalToks, List.map_cons, spell, tIdent, hcr, List.cons_append, AsciiHd, hdRune]
    refine ⟨by show c.toNat < 128; omega, by omega⟩
  | func p n args =>
    rw [NamesOk] at hN
    simp only [Bool.and_eq_true] at hN
    obtain ⟨c, r, rfl, hc, _⟩ := identOk_parts hN.1.1
    have hn := isIdStart_nat hc
    simp only [pieces, List.cons_append, spell, tIdent, AsciiHd, hdRune]
    refine ⟨by show c.toNat < 128; omega, by omega⟩
  | list p items => simp [pieces, spell, tLB, AsciiHd, hdRune]
  | map p items =>
    cases items <;> simp [pieces, spell, tLB, AsciiHd, hdRune]
  | dataRef p k acc => simp [pieces, spell, AsciiHd, hdRune]
  | not p a => simp [pieces, spell, tNot, AsciiHd, hdRune]
  | neg p a =>
    cases a <;>
      (rw [pieces]
       all_goals first
         | (intro _ _ h; cases h)
         | skip) <;> simp [spell, tNeg, AsciiHd, hdRune]
  | bin op p a b => exact absurd (by cases op <;> simp [precedenceOf, binPrec, precUnary, precElvis, precOr, precAnd, precEquality, precCompare, precAdd, precMul]) hp
  | tern p c a b => exact absurd (by simp [precedenceOf, precTernary, precUnary]) hp

end

/-! ### every token of the printed text is followed by bytes that do not extend it -/

theorem adj_tok1 (t : Tk) (tail : Bytes) : Adj [.tok t] tail ↔ TokOk t tail := by
  simp [Adj, spell]

theorem adj_nil (tail : Bytes) : Adj [] tail ↔ True := Iff.rfl

theorem tLP_val : tLP.val = [40] := rfl
theorem tRP_val : tRP.val = [41] := rfl
theorem tLB_val : tLB.val = [91] := rfl
theorem tRB_val : tRB.val = [93] := rfl

theorem neg_lp (rest : Bytes) : TokOk tNeg (40 :: rest) :=
  .neg _ (asciiHd_cons (by decide)) (Or.inl (by simp [hdRune]))

theorem adj_cons_tok (t : Tk) (r : List Piece) (tail : Bytes) :
    Adj (.tok t :: r) tail ↔ TokOk t (spell r ++ tail) ∧ Adj r tail := Iff.rfl

theorem adj_cons_sp (r : List Piece) (tail : Bytes) : Adj (.sp :: r) tail ↔ Adj r tail := Iff.rfl

section
variable (T : LexTableOK) (ff : UInt64 → Bytes)

theorem adj_wrap {a : Expr} (m : Nat) (h : ∀ tail, Closer tail → Adj (pieces ff a) tail) {tail : Bytes} (ht : Closer tail) :
    Adj (wrapP a m (pieces ff a)) tail := by
  unfold wrapP
  split
  · rw [adj_append, adj_append]
    simp only [adj_cons_tok, adj_nil, and_true, spell, tLP_val, tRP_val, tLB_val, tRB_val, List.append_nil, List.cons_append, List.nil_append]
    exact ⟨⟨.lp _, h _ (closer_rp _)⟩, .rp _⟩
  · exact h tail ht


theorem adj_segs : (segs : List Bytes) → segs.all segOk = true → ∀ tail, Closer tail →
    Adj ((segs.map tDotIdent).map .tok) tail
  | [], _, tail, _ => trivial
  | seg :: r, hs, tail, ht => by
    simp only [List.all_cons, Bool.and_eq_true] at hs
    refine ⟨?_, adj_segs r hs.2 tail ht⟩
    have h1 := hs.1
    unfold segOk at h1
    split at h1
    · rename_i k
      have := tok_key false h1 (wordEnd_segs r hs.2 ht)
      simpa [tDotIdent] using this
    · exact absurd h1 (by simp)

include T

mutual
  theorem adjE : (e : Expr) → NamesOk ff e = true → ∀ tail, Closer tail → Adj (pieces ff e) tail
    | .null _, _, tail, ht => by
        rw [pieces, adj_tok1]; exact tok_null T (closer_wordEnd ht)
    | .bool _ b, _, tail, ht => by
        rw [pieces, adj_tok1]; exact tok_bool T b (closer_wordEnd ht)
    | .int _ v, _, tail, ht => by
        rw [pieces, adj_tok1]; exact tok_int v (closer_numEnd ht)
    | .float _ bits, hN, tail, ht => by
        rw [NamesOk] at hN
        rw [pieces, adj_tok1]; exact tok_float hN (closer_numEnd ht)
    | .str _ q _, hN, tail, ht => by
        rw [NamesOk] at hN
        rw [pieces, adj_tok1]; exact .str q _ hN
    | .global _ n, hN, tail, ht => by
        rw [NamesOk] at hN
        simp only [globalOk, Bool.and_eq_true] at hN
        rw [pieces]
        simp only [globalToks, List.map_cons]
        exact ⟨tok_ident hN.1.1 hN.1.2 (wordEnd_segs _ hN.2 ht), adj_segs _ hN.2 tail ht⟩
    | .func _ n args, hN, tail, ht => by
        rw [NamesOk] at hN
        simp only [Bool.and_eq_true] at hN
        have ha := adjArgs args hN.2 true (41 :: tail) (closer_rp _)
        rw [pieces, adj_append, adj_append]
        simp only [adj_cons_tok, adj_nil, and_true, spell, tLP_val, tRP_val, List.append_nil, List.cons_append, List.nil_append]
        exact ⟨⟨⟨tok_ident hN.1.1 hN.1.2 (wordEnd_of_head (by decide) (by decide)), .lp _⟩, ha⟩, .rp _⟩
    | .list _ items, hN, tail, ht => by
        rw [NamesOk] at hN
        have ha := adjItems items hN true (93 :: tail) (closer_rb _)
        rw [pieces, adj_append, adj_append]
        simp only [adj_cons_tok, adj_nil, and_true, spell, tLP_val, tRP_val, tLB_val, tRB_val, List.append_nil, List.cons_append, List.nil_append]
        exact ⟨⟨.lb _, ha⟩, .rb _⟩
    | .map p items, hN, tail, ht => by
        rw [NamesOk] at hN
        cases items with
        | nil =>
          rw [pieces]
          exact ⟨.lb _, .colon _, .rb _, trivial⟩
        | cons k e r =>
          have ha := adjMap (.cons k e r) hN true (93 :: tail) (closer_rb _)
          have hp : pieces ff (.map p (.cons k e r)) = [.tok tLB] ++ piecesMap ff (.cons k e r) true ++ [.tok tRB] := by
            rw [pieces]; intro h; cases h
          rw [hp, adj_append, adj_append]
          simp only [adj_cons_tok, adj_nil, and_true, spell, tLP_val, tRP_val, tLB_val, tRB_val, List.append_nil, List.cons_append, List.nil_append]
          exact ⟨⟨.lb _, ha⟩, .rb _⟩
    | .dataRef _ k acc, hN, tail, ht => by
        rw [NamesOk] at hN
        simp only [Bool.and_eq_true] at hN
        rw [pieces, adj_append]
        simp only [adj_tok1]
        exact ⟨tok_dollar hN.1 (accCloser_wordEnd (accCloser_accs ff acc ht)), adjAccs acc hN.2 tail ht⟩
    | .not _ a, hN, tail, ht => by
        rw [NamesOk] at hN
        rw [pieces, adj_append]
        simp only [adj_cons_tok, adj_cons_sp, spell, List.nil_append, List.cons_append]
        exact ⟨⟨tok_not T _, trivial⟩, adj_wrap ff precUnary (adjE a hN) ht⟩
    | .neg _ a, hN, tail, ht => by
        rw [NamesOk] at hN
        have ih := adjE a hN
        cases a <;>
          (rw [pieces]
           all_goals first
             | (intro _ _ h; cases h)
             | skip)
        case int p v =>
          rw [adj_append, adj_append]
          simp only [adj_cons_tok, adj_nil, and_true, spell, tLP_val, tRP_val, List.append_nil, List.cons_append, List.nil_append]
          exact ⟨⟨⟨neg_lp _, .lp _⟩, ih _ (closer_rp _)⟩, .rp _⟩
        case float p v =>
          rw [adj_append, adj_append]
          simp only [adj_cons_tok, adj_nil, and_true, spell, tLP_val, tRP_val, List.append_nil, List.cons_append, List.nil_append]
          exact ⟨⟨⟨neg_lp _, .lp _⟩, ih _ (closer_rp _)⟩, .rp _⟩
        all_goals
          rw [adj_append]
          refine ⟨?_, adj_wrap ff precUnary ih ht⟩
          rw [adj_tok1]
          unfold wrapP
          split
          · simp only [spell_append, spell, List.cons_append, List.nil_append, List.append_assoc]
            exact neg_lp _
          · rename_i hp
            obtain ⟨h1, h2⟩ := neg_next ff _ hN hp (by intro _ _ h; cases h) (by intro _ _ h; cases h) tail
            exact .neg _ h1 h2
    | .bin op _ a b, hN, tail, ht => by
        rw [NamesOk] at hN
        simp only [Bool.and_eq_true] at hN
        rw [pieces, adj_append, adj_append]
        simp only [adj_cons_tok, adj_cons_sp, spell, List.append_nil, List.cons_append, List.nil_append, spell_append]
        exact ⟨⟨adj_wrap ff _ (adjE a hN.1) (closer_sp _), tok_op T op _, trivial⟩, adj_wrap ff _ (adjE b hN.2) ht⟩
    | .tern _ c a b, hN, tail, ht => by
        rw [NamesOk] at hN
        simp only [Bool.and_eq_true] at hN
        rw [pieces, adj_append, adj_append, adj_append, adj_append]
        simp only [adj_cons_tok, adj_cons_sp, spell, List.append_nil, List.cons_append, List.nil_append, spell_append]
        exact ⟨⟨⟨⟨adj_wrap ff _ (adjE c hN.1.1) (closer_sp _), .ternif _, trivial⟩,
          adj_wrap ff _ (adjE a hN.1.2) (closer_sp _)⟩, .colon _, trivial⟩, adjE b hN.2 tail ht⟩
  theorem adjArgs : (l : ExprList) → NamesOkL ff l = true → ∀ (first : Bool) tail, Closer tail →
      Adj (piecesArgs ff l first) tail
    | .nil, _, _, tail, _ => by rw [piecesArgs]; trivial
    | .cons e r, hN, first, tail, ht => by
        rw [NamesOkL] at hN
        simp only [Bool.and_eq_true] at hN
        rw [piecesArgs, adj_append, adj_append]
        refine ⟨⟨?_, adjE e hN.1 _ (closer_args ff r ht)⟩, adjArgs r hN.2 false tail ht⟩
        cases first
        · simp only [Bool.false_eq_true, if_false, adj_tok1]; exact .comma _
        · simp only [if_true]; trivial
  theorem adjItems : (l : ExprList) → NamesOkL ff l = true → ∀ (first : Bool) tail, Closer tail →
      Adj (piecesItems ff l first) tail
    | .nil, _, _, tail, _ => by rw [piecesItems]; trivial
    | .cons e r, hN, first, tail, ht => by
        rw [NamesOkL] at hN
        simp only [Bool.and_eq_true] at hN
        rw [piecesItems, adj_append, adj_append]
        refine ⟨⟨?_, adjE e hN.1 _ (closer_items ff r ht)⟩, adjItems r hN.2 false tail ht⟩
        cases first
        · simp only [Bool.false_eq_true, if_false]; exact ⟨.comma _, trivial⟩
        · simp only [if_true]; trivial
  theorem adjMap : (m : MapItems) → NamesOkM ff m = true → ∀ (first : Bool) tail, Closer tail →
      Adj (piecesMap ff m first) tail
    | .nil, _, _, tail, _ => by rw [piecesMap]; trivial
    | .cons k e r, hN, first, tail, ht => by
        rw [NamesOkM] at hN
        simp only [Bool.and_eq_true] at hN
        rw [piecesMap, adj_append, adj_append, adj_append, adj_append]
        refine ⟨⟨⟨⟨?_, ?_⟩, ?_⟩, adjE e hN.1 _ (closer_map ff r ht)⟩, adjMap r hN.2 false tail ht⟩
        · cases first
          · simp only [Bool.false_eq_true, if_false]; exact ⟨.comma _, trivial⟩
          · simp only [if_true]; trivial
        · rw [adj_tok1]; exact .str _ _ (strOk_quoteString k)
        · exact ⟨.colon _, trivial⟩
  theorem adjAccs : (l : AccessList) → NamesOkAL ff l = true → ∀ tail, Closer tail → Adj (piecesAccs ff l) tail
    | .nil, _, tail, _ => by rw [piecesAccs]; trivial
    | .cons a r, hN, tail, ht => by
        rw [NamesOkAL] at hN
        simp only [Bool.and_eq_true] at hN
        rw [piecesAccs, adj_append]
        exact ⟨adjAcc a hN.1 _ (accCloser_accs ff r ht), adjAccs r hN.2 tail ht⟩
  theorem adjAcc : (a : Access) → NamesOkA ff a = true → ∀ tail, AccCloser tail → Adj (piecesAcc ff a) tail
    | .key _ ns k, hN, tail, ht => by
        rw [NamesOkA] at hN
        rw [piecesAcc, adj_tok1]
        exact tok_key ns hN (accCloser_wordEnd ht)
    | .index _ ns i, hN, tail, ht => by
        rw [NamesOkA] at hN
        rw [piecesAcc, adj_tok1]
        exact tok_index ns (by simpa using hN) (accCloser_wordEnd ht)
    | .expr _ ns e, hN, tail, ht => by
        rw [NamesOkA] at hN
        rw [piecesAcc, adj_append, adj_append]
        simp only [adj_cons_tok, adj_nil, and_true, spell, tLP_val, tRP_val, tLB_val, tRB_val, List.append_nil, List.cons_append, List.nil_append]
        refine ⟨⟨?_, adjE e hN _ (closer_rb _)⟩, .rb _⟩
        cases ns
        · exact .lb _
        · exact .qkey _
end

end

end SoyVerif.Lemmas.LexPrint
