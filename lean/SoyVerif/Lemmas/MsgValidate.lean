/-
  pomsg.Validate's text check implies the text guard of `parts_placeholderString`:
  the buffer `validateText` scans (raw texts concatenated, NUL for every placeholder)
  contains `{[A-Z0-9_]+}` iff some run of adjacent texts does.
-/
import SoyVerif.Lemmas.MsgRender

namespace SoyVerif.Model.Msg

theorem containsPh_false_iff : ∀ t : Bytes, containsPh t = false ↔ NoMatch t
  | [] => by
    simp only [containsPh, true_iff]
    intro k; simp [matchPh]
  | b :: r => by
    simp only [containsPh, Bool.or_eq_false_iff, containsPh_false_iff r]
    constructor
    · rintro ⟨h0, hr⟩ k
      cases k with
      | zero => simpa using h0
      | succ k => simpa using hr k
    · intro h
      refine ⟨by simpa using h 0, fun k => by simpa using h (k + 1)⟩

theorem phRun_append_some : ∀ (r t n : Bytes), phRun r = some n → phRun (r ++ t) = some n
  | [], _, _, h => by simp [phRun] at h
  | b :: r, t, n, h => by
    simp only [List.cons_append, phRun] at h ⊢
    cases hb : (b == 125) with
    | true => simpa [hb] using h
    | false =>
      simp only [hb, Bool.false_eq_true, if_false] at h ⊢
      cases hp : isPhChar b with
      | false => simp [hp] at h
      | true =>
        simp only [hp, if_true] at h ⊢
        cases hr : phRun r with
        | none => simp [hr] at h
        | some n' =>
          rw [hr] at h
          rw [phRun_append_some r t n' hr]
          exact h

theorem matchPh_append_none (s t : Bytes) (h : matchPh (s ++ t) = none) (hs : s ≠ []) : matchPh s = none := by
  cases s with
  | nil => exact absurd rfl hs
  | cons b r =>
    by_cases hb : b = 123
    · subst hb
      simp only [List.cons_append, matchPh] at h ⊢
      cases hr : phRun r with
      | none => rfl
      | some n =>
        rw [phRun_append_some r t n hr] at h
        cases n with
        | nil => rfl
        | cons a n => simp at h
    · unfold matchPh
      split
      · next heq => simp only [List.cons.injEq] at heq; exact absurd heq.1 hb
      · rfl

/-- a text without a match keeps none when cut at the end … -/
theorem noMatch_prefix {a t : Bytes} (h : NoMatch (a ++ t)) : NoMatch a := by
  intro k
  by_cases hk : k < a.length
  · have := h k
    rw [List.drop_append_of_le_length (Nat.le_of_lt hk)] at this
    refine matchPh_append_none _ t this ?_
    intro e
    have := congrArg List.length e
    simp at this; omega
  · rw [List.drop_eq_nil_of_le (by omega)]; rfl

/-- … or at the front -/
theorem noMatch_suffix {a t : Bytes} (h : NoMatch (a ++ t)) : NoMatch t := by
  intro k
  have := h (a.length + k)
  rw [← List.drop_drop] at this
  simpa using this

theorem litText_lead : ∀ R : List RPart, isFlat R = true → ∃ tail, litText R = leadText (toNList R) ++ tail
  | [], _ => ⟨[], rfl⟩
  | p :: R, hf => by
    obtain ⟨hp, hR⟩ := isFlat_cons hf
    cases p with
    | text t =>
      obtain ⟨tail, h⟩ := litText_lead R hR
      exact ⟨tail, by simp [litText, toNList, RPart.toN, leadText, h]⟩
    | ph n s => exact ⟨litText (.ph n s :: R), by simp [toNList, RPart.toN, leadText]⟩
    | plural _ _ _ _ => simp [RPart.isPlural] at hp

/-- every placeholder name is in `[A-Z0-9_]+` -/
def NamesValid : List RPart → Prop
  | [] => True
  | .ph n _ :: r => ValidName n ∧ NamesValid r
  | _ :: r => NamesValid r

/-- `validateText` (plus well-formed names) gives the guard under which `Parts` inverts the
    placeholder string. -/
theorem text_guard_of_noMatch : ∀ R : List RPart, isFlat R = true → NoMatch (litText R) → NamesValid R →
    NoMatch (leadText (toNList R)) ∧ FlatOK (toNList R)
  | [], _, _, _ => ⟨by intro k; simp [toNList, leadText, matchPh], trivial⟩
  | p :: R, hf, hn, hv => by
    obtain ⟨hp, hR⟩ := isFlat_cons hf
    cases p with
    | text t =>
      have hn' : NoMatch (litText R) := noMatch_suffix (a := t) (by simpa [litText] using hn)
      obtain ⟨_, ih2⟩ := text_guard_of_noMatch R hR hn' hv
      obtain ⟨tail, ht⟩ := litText_lead R hR
      refine ⟨?_, by simpa [toNList, RPart.toN, FlatOK] using ih2⟩
      have : NoMatch ((t ++ leadText (toNList R)) ++ tail) := by
        simpa [litText, ht, List.append_assoc] using hn
      simpa [toNList, RPart.toN, leadText] using noMatch_prefix this
    | ph n s =>
      have hn' : NoMatch (litText R) := noMatch_suffix (a := [0]) (by simpa [litText] using hn)
      obtain ⟨ih1, ih2⟩ := text_guard_of_noMatch R hR hn' hv.2
      refine ⟨by intro k; simp [toNList, RPart.toN, leadText, matchPh], ?_⟩
      simp only [toNList, RPart.toN, FlatOK]
      exact ⟨hv.1, ih1, ih2⟩
    | plural _ _ _ _ => simp [RPart.isPlural] at hp

theorem text_guard_of_validateText (R : List RPart) (hf : isFlat R = true) (h : validateText R = true)
    (hv : NamesValid R) : NoMatch (leadText (toNList R)) ∧ FlatOK (toNList R) := by
  refine text_guard_of_noMatch R hf ?_ hv
  rw [← containsPh_false_iff]
  simpa [validateText] using h

theorem validateFrom_flat : ∀ (R : List RPart) (i : Nat), isFlat R = true → validateFrom i R = true
  | [], _, _ => rfl
  | p :: R, i, hf => by
    obtain ⟨hp, hR⟩ := isFlat_cons hf
    cases p with
    | plural _ _ _ _ => simp [RPart.isPlural] at hp
    | text t => simpa [validateFrom] using validateFrom_flat R (i + 1) hR
    | ph n s => simpa [validateFrom] using validateFrom_flat R (i + 1) hR

/-- on a flat body `Validate` is exactly the text check -/
theorem validate_flat (R : List RPart) (hf : isFlat R = true) : validate R = validateText R := by
  simp [validate, validateFrom_flat R 0 hf]

end SoyVerif.Model.Msg
