/-
  Lemmas about directiveTruncate (Model.Directives.truncate): the backwards scan for a rune
  start, the closed form of the function on in-range arguments, and well-formed UTF-8
  (Spec/Utf8.lean) under cutting at a rune start.
-/
import SoyVerif.Model.Directives
import SoyVerif.Spec.Utf8

namespace SoyVerif.Lemmas.Truncate
open SoyVerif SoyVerif.Model SoyVerif.Model.Directives SoyVerif.Spec

/-- the byte at index j is a continuation byte (not a rune start) -/
def contAt (str : Bytes) (j : Nat) : Prop := ∃ b, str[j]? = some b ∧ runeStart b = false
def startAt (str : Bytes) (j : Nat) : Prop := ∃ b, str[j]? = some b ∧ runeStart b = true

theorem scanBack_some (str : Bytes) : ∀ n k, scanBack str n = some k →
    k ≤ n ∧ (k = 0 ∨ startAt str k) ∧ ∀ j, k < j → j ≤ n → contAt str j := by
  intro n
  induction n with
  | zero =>
    intro k h
    simp only [scanBack, Option.some.injEq] at h
    subst h
    exact ⟨Nat.le_refl _, Or.inl rfl, fun j h1 h2 => by omega⟩
  | succ n ih =>
    intro k h
    unfold scanBack at h
    cases h0 : str[n + 1]? with
    | none => simp [h0] at h
    | some b =>
      simp only [h0] at h
      by_cases hs : runeStart b = true
      · simp [hs] at h; subst h
        exact ⟨Nat.le_refl _, Or.inr ⟨b, h0, hs⟩, fun j h1 h2 => by omega⟩
      · simp only [hs] at h
        obtain ⟨h1, h2, h3⟩ := ih k (by simpa using h)
        refine ⟨by omega, h2, fun j hj1 hj2 => ?_⟩
        by_cases hj : j = n + 1
        · subst hj; exact ⟨b, h0, by simpa using hs⟩
        · exact h3 j hj1 (by omega)

/-- the scan never indexes out of range when it starts inside the string -/
theorem scanBack_isSome (str : Bytes) : ∀ n, n < str.length → ∃ k, scanBack str n = some k := by
  intro n
  induction n with
  | zero => intro _; exact ⟨0, rfl⟩
  | succ n ih =>
    intro hl
    unfold scanBack
    have h0 : str[n + 1]? = some str[n + 1] := by simp [hl]
    simp only [h0]
    by_cases hs : runeStart str[n + 1] = true
    · exact ⟨n + 1, by simp [hs]⟩
    · obtain ⟨k, hk⟩ := ih (by omega)
      exact ⟨k, by simp [hs, hk]⟩

/-- the cut position and whether the ellipsis is appended -/
def truncCut (n : Nat) (e : Bool) : Nat := if e && n > 3 then n - 3 else n
def truncEll (n : Nat) (e : Bool) : Bytes := if e && n > 3 then ellipsisBytes else []

def truncArgs (n : Nat) : Option Bool → List Arg
  | none => [Arg.int n]
  | some e => [Arg.int n, Arg.bool e]

theorem truncate_unfold (str : Bytes) (n : Nat) (oe : Option Bool) :
    truncate str (truncArgs n oe) =
      if str.length ≤ n then .ok str
      else match scanBack str (truncCut n (oe.getD true)) with
        | none => .panic
        | some k => .ok (str.take k ++ truncEll n (oe.getD true)) := by
  have hInt : ((str.length : Int) ≤ (n : Int)) ↔ str.length ≤ n := by omega
  have hn0 : ¬ ((n : Int) < 0) := by omega
  have h3i : ((n : Int) > 3) ↔ n > 3 := by omega
  have key : ∀ e : Bool,
      (if (str.length : Int) ≤ (n : Int) then Res.ok str else
        if (if e && (n : Int) > 3 then (n : Int) - 3 else (n : Int)) < 0 then Res.panic
        else match scanBack str (if e && (n : Int) > 3 then (n : Int) - 3 else (n : Int)).toNat with
          | none => Res.panic
          | some k => Res.ok (str.take k ++ (if (e && (n : Int) > 3) = true then ellipsisBytes else []))) =
      if str.length ≤ n then .ok str
      else match scanBack str (truncCut n e) with
        | none => .panic
        | some k => .ok (str.take k ++ truncEll n e) := by
    intro e
    by_cases hl : str.length ≤ n
    · simp [hl, hInt]
    · simp only [hInt, hl, if_false, truncCut, truncEll]
      by_cases h3 : n > 3
      · have hc : ¬ ((n : Int) - 3 < 0) := by omega
        have ht : ((n : Int) - 3).toNat = n - 3 := by omega
        cases e <;> simp [h3, h3i, hc, ht, hn0]
      · cases e <;> simp [h3, h3i, hn0]
  cases oe with
  | none => exact key true
  | some e => exact key e

theorem isTail_le (b1 lo hi : UInt8) (h1 : 0x80 ≤ lo) (h2 : hi ≤ 0xBF) (h : (lo ≤ b1 && b1 ≤ hi) = true) :
    isTail b1 = true := by
  simp only [isTail, Bool.and_eq_true, decide_eq_true_eq, UInt8.le_iff_toNat_le] at *
  omega

theorem runeStart_of_tail (b : UInt8) (h : isTail b = true) : runeStart b = false := by
  simp [runeStart, isCont, isTail] at *; exact h

/-- shape of a well-formed sequence: non-empty, first byte a rune start, every other byte a tail -/
theorem wellFormedSeq_shape (c : Bytes) (h : wellFormedSeq c = true) :
    ∃ b0 r, c = b0 :: r ∧ runeStart b0 = true ∧ ∀ b ∈ r, runeStart b = false := by
  match c, h with
  | [b0], h =>
    refine ⟨b0, [], rfl, ?_, by simp⟩
    simp only [wellFormedSeq, decide_eq_true_eq, UInt8.le_iff_toNat_le] at h
    simp only [runeStart, isCont, Bool.not_eq_true', Bool.and_eq_false_iff, decide_eq_false_iff_not, UInt8.le_iff_toNat_le]
    left; simp at h ⊢; omega
  | [b0, b1], h =>
    simp only [wellFormedSeq, Bool.and_eq_true, decide_eq_true_eq] at h
    refine ⟨b0, [b1], rfl, ?_, by simp [runeStart_of_tail _ h.2]⟩
    have := h.1
    simp only [UInt8.le_iff_toNat_le] at this
    simp only [runeStart, isCont, Bool.not_eq_true', Bool.and_eq_false_iff, decide_eq_false_iff_not, UInt8.le_iff_toNat_le]
    right; simp at this ⊢; omega
  | [b0, b1, b2], h =>
    simp only [wellFormedSeq, Bool.and_eq_true] at h
    obtain ⟨h1, h2⟩ := h
    have hb1 : isTail b1 = true ∧ 0xE0 ≤ b0.toNat := by
      simp only [Bool.or_eq_true, Bool.and_eq_true, beq_iff_eq, decide_eq_true_eq] at h1
      rcases h1 with ((⟨⟨rfl, a⟩, b⟩ | ⟨⟨a, _⟩, b⟩) | ⟨⟨rfl, a⟩, b⟩) | ⟨⟨a, _⟩, b⟩
      · exact ⟨isTail_le b1 0xA0 0xBF (by decide) (by decide) (by simp [a, b]), by decide⟩
      · simp only [UInt8.le_iff_toNat_le] at a; exact ⟨b, by simp at a; omega⟩
      · exact ⟨isTail_le b1 0x80 0x9F (by decide) (by decide) (by simp [a, b]), by decide⟩
      · simp only [UInt8.le_iff_toNat_le] at a; exact ⟨b, by simp at a; omega⟩
    refine ⟨b0, [b1, b2], rfl, ?_, by simp [runeStart_of_tail _ hb1.1, runeStart_of_tail _ h2]⟩
    simp only [runeStart, isCont, Bool.not_eq_true', Bool.and_eq_false_iff, decide_eq_false_iff_not, UInt8.le_iff_toNat_le]
    right; have := hb1.2; simp at this ⊢; omega
  | [b0, b1, b2, b3], h =>
    simp only [wellFormedSeq, Bool.and_eq_true] at h
    obtain ⟨⟨h1, h2⟩, h3⟩ := h
    have hb1 : isTail b1 = true ∧ 0xF0 ≤ b0.toNat := by
      simp only [Bool.or_eq_true, Bool.and_eq_true, beq_iff_eq, decide_eq_true_eq] at h1
      rcases h1 with (⟨⟨rfl, a⟩, b⟩ | ⟨⟨a, _⟩, b⟩) | ⟨⟨rfl, a⟩, b⟩
      · exact ⟨isTail_le b1 0x90 0xBF (by decide) (by decide) (by simp [a, b]), by decide⟩
      · simp only [UInt8.le_iff_toNat_le] at a; exact ⟨b, by simp at a; omega⟩
      · exact ⟨isTail_le b1 0x80 0x8F (by decide) (by decide) (by simp [a, b]), by decide⟩
    refine ⟨b0, [b1, b2, b3], rfl, ?_, by simp [runeStart_of_tail _ hb1.1, runeStart_of_tail _ h2, runeStart_of_tail _ h3]⟩
    simp only [runeStart, isCont, Bool.not_eq_true', Bool.and_eq_false_iff, decide_eq_false_iff_not, UInt8.le_iff_toNat_le]
    right; have := hb1.2; simp at this ⊢; omega
  | [], h => simp [wellFormedSeq] at h
  | _ :: _ :: _ :: _ :: _ :: _, h => simp [wellFormedSeq] at h

theorem ValidUtf8.append {a b : Bytes} (ha : ValidUtf8 a) (hb : ValidUtf8 b) : ValidUtf8 (a ++ b) := by
  induction ha with
  | nil => exact hb
  | seq c t hc _ ih => rw [List.append_assoc]; exact ValidUtf8.seq c _ hc ih

/-- a valid string cut at a rune start (or at its end) is valid -/
theorem ValidUtf8.take {s : Bytes} (hs : ValidUtf8 s) : ∀ k, (s.length ≤ k ∨ startAt s k) → ValidUtf8 (s.take k) := by
  induction hs with
  | nil => intro k _; simp; exact ValidUtf8.nil
  | seq c t hc _ ih =>
    intro k hk
    obtain ⟨b0, r, rfl, h0, hr⟩ := wellFormedSeq_shape c hc
    by_cases hk0 : k = 0
    · subst hk0; simp; exact ValidUtf8.nil
    by_cases hlt : k < (b0 :: r).length
    · -- inside the sequence: that byte is a tail byte, not a rune start
      exfalso
      rcases hk with hk | ⟨b, hb, hst⟩
      · simp at hk hlt; omega
      · rw [List.getElem?_append_left hlt] at hb
        obtain ⟨k', rfl⟩ : ∃ k', k = k' + 1 := ⟨k - 1, by omega⟩
        simp only [List.getElem?_cons_succ] at hb
        have := hr b (List.mem_of_getElem? hb)
        rw [this] at hst; exact Bool.noConfusion hst
    · have hge : (b0 :: r).length ≤ k := by omega
      rw [List.take_append, List.take_of_length_le hge]
      apply ValidUtf8.seq _ _ hc
      apply ih
      rcases hk with hk | ⟨b, hb, hst⟩
      · left; simp at hk ⊢; omega
      · right
        rw [List.getElem?_append_right hge] at hb
        exact ⟨b, hb, hst⟩

theorem ValidUtf8.startAt_zero {s : Bytes} (hs : ValidUtf8 s) (hne : s ≠ []) : startAt s 0 := by
  induction hs with
  | nil => exact absurd rfl hne
  | seq c t hc _ _ =>
    obtain ⟨b0, r, rfl, h0, _⟩ := wellFormedSeq_shape c hc
    exact ⟨b0, by simp, h0⟩

theorem not_contAt_of_startAt {s : Bytes} {j : Nat} (h : startAt s j) : ¬ contAt s j := by
  rintro ⟨b, hb, hc⟩
  obtain ⟨b', hb', hs⟩ := h
  rw [hb] at hb'; cases hb'
  rw [hc] at hs; exact Bool.noConfusion hs

end SoyVerif.Lemmas.Truncate
