/-
  The OUTPUT SHAPE of the soft-float formatters of Base/F64.lean, for every finite double:
  `F64.format` (Go's 'g', -1) and `F64.formatJS` (ECMAScript Number::toString) write
      [-] digits [ . digits ] [ e (+|-) digits ]
  with a non-empty integer part without leading zero — statements about the digit lists produced by
  `shortest` / `natDigits` / `fmtE` / `fmtEJS` / `fmtF`, not about numeric correctness (which the
  bit-for-bit correspondence C20f64 covers).  Consequences: the hypothesis `FloatsOk` of C16b holds of
  every value whose floats are finite, and `floatSpelling` of C17b holds of every finite float literal
  printed with `F64.format`.
-/
import SoyVerif.Base.F64
import SoyVerif.Lemmas.LexPrintNames
import SoyVerif.Lemmas.JsonValue

set_option linter.unusedSimpArgs false
set_option linter.unusedVariables false

namespace SoyVerif.Lemmas.F64Shape
open SoyVerif SoyVerif.Lemmas.LexPrint

/-! ### digit lists -/

theorem allDig_of_json {ds : Bytes} (h : SoyVerif.Lemmas.JsonValue.AllDigits ds) : AllDig ds := h

theorem natDigits_facts (n : Nat) :
    F64.natDigits n ≠ [] ∧ AllDig (F64.natDigits n) ∧ (n = 0 → F64.natDigits n = [48]) ∧
      (0 < n → (F64.natDigits n).head? ≠ some 48) := by
  have hlt : n < 2 ^ (Nat.log2 n + 1) := Nat.lt_log2_self
  obtain ⟨ds, hds, hne, hall, h0, hpos, _⟩ := SoyVerif.Lemmas.JsonValue.natDigitsAux_shape (Nat.log2 n + 1) n [] hlt
  simp only [List.append_nil] at hds
  unfold F64.natDigits
  rw [hds]
  exact ⟨hne, hall, h0, hpos⟩

theorem allDig_zeros : ∀ n, AllDig (F64.zeros n)
  | 0 => by intro b hb; simp [F64.zeros] at hb
  | n + 1 => by
    intro b hb
    simp only [F64.zeros, List.mem_cons] at hb
    rcases hb with rfl | hb
    · decide
    · exact allDig_zeros n b hb

theorem allDig_append {a b : Bytes} (ha : AllDig a) (hb : AllDig b) : AllDig (a ++ b) := by
  intro x hx
  rcases List.mem_append.1 hx with h | h
  · exact ha x h
  · exact hb x h

theorem allDig_take {a : Bytes} (n : Nat) (ha : AllDig a) : AllDig (a.take n) :=
  fun x hx => ha x (List.mem_of_mem_take hx)

theorem allDig_drop {a : Bytes} (n : Nat) (ha : AllDig a) : AllDig (a.drop n) :=
  fun x hx => ha x (List.mem_of_mem_drop hx)

/-- a decimal text `[-]int[.frac][e±exp]` with a non-empty integer part without leading zero -/
def DecShape (lit : Bytes) : Prop :=
  ∃ sg ds frac ex, lit = sg ++ (ds ++ (frac ++ ex)) ∧ (sg = [] ∨ sg = [45]) ∧ ds ≠ [] ∧ AllDig ds ∧ NoLeadZero ds ∧
    FracOk frac ∧ ExpOk ex

theorem sign_ok (neg : Bool) : ((if neg then [45] else []) : Bytes) = [] ∨ ((if neg then [45] else []) : Bytes) = [45] := by
  cases neg <;> simp

/-! ### the three layouts -/

/-- `%f` layout of the digits `digs` (no leading zero) with the decimal point after `dp` digits -/
theorem fmtF_shape (neg : Bool) (digs : Bytes) (dp : Int) (hne : digs ≠ []) (hd : AllDig digs)
    (hz : digs.head? ≠ some 48) : DecShape (F64.fmtF neg digs dp) := by
  unfold F64.fmtF
  simp only
  by_cases h0 : 0 < dp
  · simp only [h0, if_true]
    by_cases h1 : (digs.length : Int) ≤ dp
    · simp only [h1, if_true]
      refine ⟨_, digs ++ F64.zeros (dp - digs.length).toNat, [], [], by simp, sign_ok neg, by simp [hne],
        allDig_append hd (allDig_zeros _), ?_, Or.inl rfl, Or.inl rfl⟩
      right
      cases digs with
      | nil => exact absurd rfl hne
      | cons a r => simpa using hz
    · simp only [h1, if_false]
      have hcast : (dp.toNat : Int) = dp := Int.toNat_of_nonneg (by omega)
      have hlt : dp.toNat < digs.length := by omega
      have hpos : 0 < dp.toNat := by omega
      refine ⟨_, digs.take dp.toNat, 46 :: digs.drop dp.toNat, [], by simp, sign_ok neg, ?_, allDig_take _ hd, ?_,
        Or.inr ⟨_, rfl, ?_, allDig_drop _ hd⟩, Or.inl rfl⟩
      · intro e
        have := congrArg List.length e
        rw [List.length_take, List.length_nil] at this; omega
      · right
        cases digs with
        | nil => exact absurd rfl hne
        | cons a r =>
          obtain ⟨k, hk⟩ : ∃ k, dp.toNat = k + 1 := ⟨dp.toNat - 1, by omega⟩
          rw [hk]; simpa using hz
      · intro e
        have := congrArg List.length e
        rw [List.length_drop, List.length_nil] at this; omega
  · simp only [h0, if_false]
    have hnd : ((digs.length : Int) == 0) = false := by
      cases digs with
      | nil => exact absurd rfl hne
      | cons a r => simp; omega
    simp only [hnd, Bool.false_eq_true, if_false]
    refine ⟨_, [48], 46 :: (F64.zeros (-dp).toNat ++ digs), [], by simp, sign_ok neg, by simp, ?_, Or.inl rfl,
      Or.inr ⟨_, rfl, by simp [hne], allDig_append (allDig_zeros _) hd⟩, Or.inl rfl⟩
    intro b hb; simp at hb; subst hb; decide

theorem single_noLead (d : UInt8) : NoLeadZero [d] := by
  by_cases h : d = 48
  · subst h; exact Or.inl rfl
  · right; simpa using h

/-- the mantissa part `d[.ddd]` of the exponent layouts -/
def mantText : Bytes → Bytes
  | [] => [48]
  | [d] => [d]
  | d :: r => d :: 46 :: r

theorem mant_shape : (digs : Bytes) → digs ≠ [] → AllDig digs →
    ∃ ds frac, mantText digs = ds ++ frac ∧ ds ≠ [] ∧ AllDig ds ∧ NoLeadZero ds ∧ FracOk frac
  | [], hne, _ => absurd rfl hne
  | [d], _, hd => ⟨[d], [], by simp [mantText], by simp, hd, single_noLead d, Or.inl rfl⟩
  | d :: e :: r, _, hd => by
    refine ⟨[d], 46 :: e :: r, by simp [mantText], by simp, ?_, single_noLead d, Or.inr ⟨e :: r, rfl, by simp, ?_⟩⟩
    · intro b hb; simp at hb; subst hb; exact hd b (by simp)
    · intro b hb; exact hd b (by simp [hb])

theorem exp_sign (e : Int) : IsSign [if e < 0 then (45 : UInt8) else 43] := by
  by_cases h : e < 0
  · simp [h, IsSign]
  · simp [h, IsSign]

/-- Go's `%e` layout (at least two exponent digits) -/
theorem fmtE_shape (neg : Bool) (digs : Bytes) (dp : Int) (hne : digs ≠ []) (hd : AllDig digs) :
    DecShape (F64.fmtE neg digs dp) := by
  obtain ⟨ds, frac, hm, h1, h2, h3, h4⟩ := mant_shape digs hne hd
  obtain ⟨en, ea, _, _⟩ := natDigits_facts (dp - 1).natAbs
  have hE : F64.fmtE neg digs dp = (if neg then [45] else []) ++ mantText digs ++ [101, if dp - 1 < 0 then 45 else 43] ++
      (if (F64.natDigits (dp - 1).natAbs).length < 2 then 48 :: F64.natDigits (dp - 1).natAbs else F64.natDigits (dp - 1).natAbs) := by
    unfold F64.fmtE mantText
    cases digs with
    | nil => rfl
    | cons d r => cases r <;> rfl
  rw [hE, hm]
  have hed : AllDig (if (F64.natDigits (dp - 1).natAbs).length < 2 then 48 :: F64.natDigits (dp - 1).natAbs
      else F64.natDigits (dp - 1).natAbs) ∧
      (if (F64.natDigits (dp - 1).natAbs).length < 2 then 48 :: F64.natDigits (dp - 1).natAbs
      else F64.natDigits (dp - 1).natAbs) ≠ [] := by
    split
    · refine ⟨?_, by simp⟩
      intro b hb
      rcases List.mem_cons.1 hb with rfl | hb
      · decide
      · exact ea b hb
    · exact ⟨ea, en⟩
  refine ⟨_, ds, frac, 101 :: ([if dp - 1 < 0 then 45 else 43] ++ _), by simp, sign_ok neg, h1, h2, h3, h4,
    Or.inr ⟨_, _, rfl, exp_sign _, hed.2, hed.1⟩⟩

/-- ECMAScript's exponent layout (no padding of the exponent) -/
theorem fmtEJS_shape (neg : Bool) (digs : Bytes) (dp : Int) (hne : digs ≠ []) (hd : AllDig digs) :
    DecShape (F64.fmtEJS neg digs dp) := by
  obtain ⟨ds, frac, hm, h1, h2, h3, h4⟩ := mant_shape digs hne hd
  obtain ⟨en, ea, _, _⟩ := natDigits_facts (dp - 1).natAbs
  have hE : F64.fmtEJS neg digs dp = (if neg then [45] else []) ++ mantText digs ++ [101, if dp - 1 < 0 then 45 else 43] ++
      F64.natDigits (dp - 1).natAbs := by
    unfold F64.fmtEJS mantText
    cases digs with
    | nil => rfl
    | cons d r => cases r <;> rfl
  rw [hE, hm]
  exact ⟨_, ds, frac, 101 :: ([if dp - 1 < 0 then 45 else 43] ++ F64.natDigits (dp - 1).natAbs), by simp, sign_ok neg, h1, h2, h3, h4,
    Or.inr ⟨_, _, rfl, exp_sign _, en, ea⟩⟩

/-! ### the shortest digits are not zero -/

theorem stripZeros_ne : ∀ (fuel c : Nat) (k : Int), c ≠ 0 → (F64.stripZeros fuel c k).1 ≠ 0
  | 0, c, k, h => h
  | fuel + 1, c, k, h => by
    unfold F64.stripZeros
    split
    · rename_i hc
      simp only [Bool.and_eq_true, bne_iff_ne, ne_eq, beq_iff_eq] at hc
      exact stripZeros_ne fuel (c / 10) (k + 1) (by omega)
    · exact h

theorem shortestAt_ne {lo x up dd : Nat} {inc : Bool} {k : Int} {c : Nat}
    (h : F64.shortestAt lo x up dd inc k = some c) : c ≠ 0 := by
  unfold F64.shortestAt at h
  simp only at h
  split at h
  · exact absurd h (by simp)
  · rename_i h0 _
    simp only [Option.some.injEq] at h
    subst h
    simp only [Bool.and_eq_true, bne_iff_ne, ne_eq] at h0
    exact h0.1
  · rename_i _ h1
    simp only [Option.some.injEq] at h
    subst h
    simp only [Bool.and_eq_true, bne_iff_ne, ne_eq] at h1
    exact h1.1
  · rename_i h0 h1
    simp only [Bool.and_eq_true, bne_iff_ne, ne_eq] at h0 h1
    split at h
    · simp only [Option.some.injEq] at h; subst h; exact h0.1
    · split at h
      · simp only [Option.some.injEq] at h; subst h; exact h1.1
      · split at h
        · simp only [Option.some.injEq] at h; subst h; exact h0.1
        · simp only [Option.some.injEq] at h; subst h; exact h1.1

theorem shortestSearch_ne : ∀ (fuel lo x up dd : Nat) (inc : Bool) (k : Int), x ≠ 0 →
    (F64.shortestSearch fuel lo x up dd inc k).1 ≠ 0
  | 0, _, x, _, _, _, _, h => h
  | fuel + 1, lo, x, up, dd, inc, k, h => by
    unfold F64.shortestSearch
    split
    · rename_i c hc; exact shortestAt_ne hc
    · exact shortestSearch_ne fuel lo x up dd inc (k - 1) h

theorem mant_ne (x : F64) (hz : x.isZero = false) : x.mant ≠ 0 := by
  unfold F64.mant
  split
  · rename_i he
    simp only [F64.expField, beq_iff_eq] at he
    simp only [F64.isZero, beq_eq_false_iff_ne, ne_eq] at hz
    simp only [F64.frac]
    have : x.mag < F64.two52 := by
      have h52 : 0 < F64.two52 := by decide
      exact (Nat.div_eq_zero_iff_lt h52).1 he
    rw [Nat.mod_eq_of_lt this]; exact hz
  · simp only [F64.two52]; omega

theorem shortest_ne (x : F64) (hz : x.isZero = false) : (F64.shortest x).1 ≠ 0 := by
  have hm := mant_ne x hz
  unfold F64.shortest
  simp only
  apply stripZeros_ne
  apply shortestSearch_ne
  have : 0 < 2 ^ (x.exp2 - 2).toNat := Nat.pow_pos (by decide)
  exact Nat.ne_of_gt (Nat.mul_pos (by omega) this)

/-! ### the formatters -/

theorem zero_shape (neg : Bool) : DecShape ((if neg then [45, 48] else [48]) : Bytes) := by
  have d0 : AllDig [48] := by intro b hb; simp at hb; subst hb; decide
  cases neg
  · exact ⟨[], [48], [], [], rfl, Or.inl rfl, by simp, d0, Or.inl rfl, Or.inl rfl, Or.inl rfl⟩
  · exact ⟨[45], [48], [], [], rfl, Or.inr rfl, by simp, d0, Or.inl rfl, Or.inl rfl, Or.inl rfl⟩

/-- `strconv.FormatFloat(x, 'g', -1, 64)` of a finite double -/
theorem format_shape (x : F64) (hn : x.isNaN = false) (hi : x.isInf = false) : DecShape x.format := by
  unfold F64.format
  simp only [hn, hi, Bool.false_eq_true, if_false]
  by_cases hz : x.isZero = true
  · simp only [hz, if_true]; exact zero_shape x.sign
  · have hz' : x.isZero = false := by simpa using hz
    simp only [hz', Bool.false_eq_true, if_false]
    have hc := shortest_ne x hz'
    obtain ⟨h1, h2, _, h4⟩ := natDigits_facts (F64.shortest x).1
    have hd := h4 (Nat.pos_of_ne_zero hc)
    generalize F64.shortest x = ck at *
    obtain ⟨c, k⟩ := ck
    simp only at *
    split
    · exact fmtE_shape _ _ _ h1 h2
    · exact fmtF_shape _ _ _ h1 h2 hd

/-- ECMAScript Number::toString of a finite non-zero double (zero prints "0" whatever its sign) -/
theorem formatJS_shape (x : F64) (hn : x.isNaN = false) (hi : x.isInf = false) : DecShape x.formatJS := by
  unfold F64.formatJS
  simp only [hn, hi, Bool.false_eq_true, if_false]
  by_cases hz : x.isZero = true
  · simp only [hz, if_true]; exact zero_shape false
  · have hz' : x.isZero = false := by simpa using hz
    simp only [hz', Bool.false_eq_true, if_false]
    have hc := shortest_ne x hz'
    obtain ⟨h1, h2, _, h4⟩ := natDigits_facts (F64.shortest x).1
    have hd := h4 (Nat.pos_of_ne_zero hc)
    generalize F64.shortest x = ck at *
    obtain ⟨c, k⟩ := ck
    simp only at *
    split
    · exact fmtEJS_shape _ _ _ h1 h2
    · exact fmtF_shape _ _ _ h1 h2 hd

/-! ### consequences: JSON numbers (C16b) -/

open SoyVerif.Lemmas.JsonValue in
theorem jnum_of_decShape {lit : Bytes} (h : DecShape lit) : JNum lit := by
  obtain ⟨sg, ds, frac, ex, rfl, hsg, hne, hd, hz, hf, hx⟩ := h
  refine ⟨sg, ds, frac, ex, rfl, hsg, hne, hd, hz, ?_, ?_⟩
  · rcases hf with rfl | ⟨fs, rfl, h1, h2⟩
    · exact Or.inl rfl
    · exact Or.inr ⟨fs, rfl, h1, h2⟩
  · rcases hx with rfl | ⟨sgn, es, rfl, h1, h2, h3⟩
    · exact Or.inl rfl
    · exact Or.inr ⟨101, sgn, es, rfl, Or.inl rfl, h1, h2, h3⟩

open SoyVerif.Model.JsonMarshal SoyVerif.Lemmas.JsonValue in
/-- every finite double (negative zero included: "-0") is written by encoding/json as a JSON number -/
theorem jsonFloat_finite (x : F64) (hn : x.isNaN = false) (hi : x.isInf = false) :
    ∃ lit, jsonFloat x = some lit ∧ JNum lit := by
  unfold jsonFloat
  simp only [hn, hi, Bool.or_self, Bool.false_eq_true, if_false]
  by_cases hz : x.isZero = true
  · simp only [hz, if_true]
    exact ⟨_, rfl, jnum_of_decShape (zero_shape x.sign)⟩
  · simp only [hz, if_false]
    exact ⟨_, rfl, jnum_of_decShape (formatJS_shape x hn hi)⟩

/-! ### consequences: Soy float literals (C17b) -/

theorem takeWhile_dig : ∀ (ds t : Bytes), AllDig ds → (∀ b t', t = b :: t' → isDig b = false) →
    (ds ++ t).takeWhile isDig = ds ∧ (ds ++ t).dropWhile isDig = t
  | [], t, _, ht => by
    cases t with
    | nil => simp
    | cons b t' => simp [List.takeWhile, List.dropWhile, ht b t' rfl]
  | d :: ds, t, hd, ht => by
    have h1 : isDig d = true := hd d (by simp)
    have ih := takeWhile_dig ds t (fun b hb => hd b (by simp [hb])) ht
    simp [List.takeWhile, List.dropWhile, h1, ih.1, ih.2]

theorem dig_ne {d : UInt8} (h : isDig d = true) : d ≠ 45 ∧ d ≠ 46 ∧ d ≠ 101 ∧ d ≠ 43 ∧ d ≠ 73 ∧ d ≠ 78 := by
  have := isDig_nat h
  refine ⟨?_, ?_, ?_, ?_, ?_, ?_⟩ <;> (rintro rfl; simp at this)

theorem expTail_of {ex : Bytes} (hx : ExpOk ex) (allow : Bool) (ha : ex = [] → allow = true) : expTail ex allow = true := by
  rcases hx with rfl | ⟨sgn, es, rfl, hs, hne, hd⟩
  · simp [expTail, ha rfl]
  · obtain ⟨e0, es', rfl⟩ : ∃ e0 es', es = e0 :: es' := by
      cases es with
      | nil => exact absurd rfl hne
      | cons a b => exact ⟨a, b, rfl⟩
    have hn := dig_ne (hd e0 (by simp))
    have hall : (e0 :: es').all isDig = true := List.all_eq_true.2 hd
    rcases hs with rfl | rfl | rfl
    · simp only [List.nil_append]
      unfold expTail
      simp only
      split
      · rename_i heq; simp only [List.cons.injEq] at heq; exact absurd heq.1 hn.2.2.2.1
      · rename_i heq; simp only [List.cons.injEq] at heq; exact absurd heq.1 hn.1
      · simp [hall]
    · simp [expTail, hall]
    · simp [expTail, hall]

theorem floatSpelling_neg (X : Bytes) (h : ∀ r, X ≠ 45 :: r) : floatSpelling (45 :: X) = floatSpelling X := by
  unfold floatSpelling
  simp only

theorem floatSpelling_pos (X : Bytes) (h : ∀ r, X ≠ 45 :: r) : floatSpelling X =
    (!(X.takeWhile isDig).isEmpty &&
      match X.dropWhile isDig with
      | 46 :: t2 => !(t2.takeWhile isDig).isEmpty && expTail (t2.dropWhile isDig) true
      | _ => noLeadZero (X.takeWhile isDig) && expTail (X.dropWhile isDig) false) := by
  unfold floatSpelling
  simp only
  generalize X.dropWhile isDig = Y
  generalize X.takeWhile isDig = Z
  cases Y with
  | nil => rfl
  | cons b t =>
    by_cases hb : b = 46
    · subst hb; rfl
    · congr 1

/-- completeness of the checker `floatSpelling` for the float shape of `scanNumber` -/
theorem floatSpelling_of_shape {lit : Bytes} (h : NumShape lit .tFloat) : floatSpelling lit = true := by
  obtain ⟨sg, ds, frac, ex, rfl, hsg, hne, hd, hf, hx, hz, hty⟩ := h
  obtain ⟨d1, ds', rfl⟩ : ∃ d1 ds', ds = d1 :: ds' := by
    cases ds with
    | nil => exact absurd rfl hne
    | cons a b => exact ⟨a, b, rfl⟩
  have hn := dig_ne (hd d1 (by simp))
  have hX : ∀ r, (d1 :: ds') ++ (frac ++ ex) ≠ 45 :: r := by
    intro r e; simp only [List.cons_append, List.cons.injEq] at e; exact hn.1 e.1
  have hnd : ∀ b t', frac ++ ex = b :: t' → isDig b = false := by
    intro b t' e
    rcases hf with rfl | ⟨fs, rfl, _, _⟩
    · rcases hx with rfl | ⟨sgn, es, rfl, _, _, _⟩
      · simp at e
      · simp only [List.nil_append, List.cons.injEq] at e; rw [← e.1]; decide
    · simp only [List.cons_append, List.cons.injEq] at e; rw [← e.1]; decide
  have hspan := takeWhile_dig (d1 :: ds') (frac ++ ex) hd hnd
  have key : floatSpelling ((d1 :: ds') ++ (frac ++ ex)) = true := by
    rw [floatSpelling_pos _ hX, hspan.1, hspan.2]
    rcases hf with rfl | ⟨fs, rfl, hfs, hfd⟩
    · have hex : ex ≠ [] := by
        intro e; subst e; simp at hty
      have hlead : noLeadZero (d1 :: ds') = true := by
        rcases hz rfl with e | e
        · rw [e]; rfl
        · simp only [noLeadZero, Bool.or_eq_true, bne_iff_ne, ne_eq]; right; simpa using e
      have het := expTail_of hx false (fun e => absurd e hex)
      simp only [List.nil_append]
      rcases hx with rfl | ⟨sgn, es, rfl, _, _, _⟩
      · exact absurd rfl hex
      · simp [hlead, het]
    · have hnd2 : ∀ b t', ex = b :: t' → isDig b = false := by
        intro b t' e
        rcases hx with rfl | ⟨sgn, es, rfl, _, _, _⟩
        · simp at e
        · simp only [List.cons.injEq] at e; rw [← e.1]; decide
      have hspan2 := takeWhile_dig fs ex hfd hnd2
      have hfe : fs.isEmpty = false := by cases fs <;> simp_all
      simp [hspan2.1, hspan2.2, hfe, expTail_of hx true (fun _ => rfl)]
  rcases hsg with rfl | rfl
  · simpa using key
  · have := floatSpelling_neg _ hX
    simp only [List.cons_append, List.nil_append] at this key ⊢
    rw [this]; exact key

/-- `FloatNode.String()` with Go's shortest 'g' formatting: a Soy float literal for every finite double -/
theorem fmtFloatLit_shape (bits : UInt64) (hn : (F64.mk bits).isNaN = false) (hi : (F64.mk bits).isInf = false) :
    NumShape (SoyVerif.Model.Printer.fmtFloatLit (fun b => F64.format ⟨b⟩) bits) .tFloat := by
  obtain ⟨sg, ds, frac, ex, hlit, hsg, hne, hd, hz, hf, hx⟩ := format_shape ⟨bits⟩ hn hi
  unfold SoyVerif.Model.Printer.fmtFloatLit
  simp only
  rw [hlit]
  by_cases hfe : frac = [] ∧ ex = []
  · obtain ⟨rfl, rfl⟩ := hfe
    have hany : (sg ++ (ds ++ ([] ++ []))).any (fun c => c == 46 || c == 101 || c == 73 || c == 78) = false := by
      simp only [List.append_nil, List.any_eq_false, Bool.or_eq_true, beq_iff_eq, not_or]
      intro b hb
      rcases List.mem_append.1 hb with h | h
      · rcases hsg with rfl | rfl
        · simp at h
        · simp at h; subst h; decide
      · have := dig_ne (hd b h)
        exact ⟨⟨⟨this.2.1, this.2.2.1⟩, this.2.2.2.2.1⟩, this.2.2.2.2.2⟩
    simp only [hany, Bool.false_eq_true, if_false]
    have d0 : AllDig [48] := by intro b hb; simp at hb; subst hb; decide
    exact ⟨sg, ds, [46, 48], [], by simp, hsg, hne, hd, Or.inr ⟨[48], rfl, by simp, d0⟩, Or.inl rfl,
      fun e => by simp at e, by simp⟩
  · have hany : (sg ++ (ds ++ (frac ++ ex))).any (fun c => c == 46 || c == 101 || c == 73 || c == 78) = true := by
      simp only [List.any_eq_true, Bool.or_eq_true, beq_iff_eq]
      rcases hf with rfl | ⟨fs, rfl, _, _⟩
      · rcases hx with rfl | ⟨sgn, es, rfl, _, _, _⟩
        · exact absurd ⟨rfl, rfl⟩ hfe
        · exact ⟨101, by simp, Or.inl (Or.inl (Or.inr rfl))⟩
      · exact ⟨46, by simp, Or.inl (Or.inl (Or.inl rfl))⟩
    simp only [hany, if_true]
    refine ⟨sg, ds, frac, ex, rfl, hsg, hne, hd, hf, hx, fun _ => hz, ?_⟩
    simp [hfe]

theorem floatSpelling_finite (bits : UInt64) (hn : (F64.mk bits).isNaN = false) (hi : (F64.mk bits).isInf = false) :
    floatSpelling (SoyVerif.Model.Printer.fmtFloatLit (fun b => F64.format ⟨b⟩) bits) = true :=
  floatSpelling_of_shape (fmtFloatLit_shape bits hn hi)

end SoyVerif.Lemmas.F64Shape
