/-
  Per-token lemmas, part 1: punctuation and operator symbols.  `lexInsideTag`, started at the
  first byte of a token's spelling, emits exactly that token (type, text) and returns to
  `lexInsideTag` positioned after it — provided the byte that follows does not extend the token
  (a space after `?` `/` `<` `>`; no digit after a unary minus).

  The facts about the GENERATED tables (`Gen/LexTables.lean`, `Gen/Unicode.lean`) enter as the
  hypothesis `LexTableOK`; `Inst/C17b.lean` discharges it by `decide`.
-/
import SoyVerif.Lemmas.LexPrintUni
import SoyVerif.Lemmas.ParserAdj

set_option linter.unusedSimpArgs false
set_option linter.unusedVariables false

namespace SoyVerif.Lemmas.LexPrint
open SoyVerif SoyVerif.Model SoyVerif.Model.Lex SoyVerif.Model.PrintTokens
open SoyVerif.Lemmas.ParserAdj

variable {tg : Int}

/-- what the proofs use of the generated lexer tables -/
structure LexTableOK : Prop where
  /-- `unicode.IsLetter` / `unicode.IsDigit` on ASCII -/
  letter : ∀ n : Fin 128, isLetterU (n.val : Int) = decide ((65 ≤ n.val ∧ n.val ≤ 90) ∨ (97 ≤ n.val ∧ n.val ≤ 122))
  digit : ∀ n : Fin 128, isDigitU (n.val : Int) = decide (48 ≤ n.val ∧ n.val ≤ 57)
  /-- `arithmeticItemsBySymbol` on the operator spellings the printer uses -/
  sym1 : Gen.symbols.lookup [40] = some .tLeftParen ∧ Gen.symbols.lookup [41] = some .tRightParen ∧
    Gen.symbols.lookup [42] = some .tMul ∧ Gen.symbols.lookup [37] = some .tMod ∧
    Gen.symbols.lookup [43] = some .tAdd ∧ Gen.symbols.lookup [58] = some .tColon ∧
    Gen.symbols.lookup [47] = some .tDiv
  sym2 : Gen.symbols.lookup [60] = some .tLt ∧ Gen.symbols.lookup [62] = some .tGt ∧
    Gen.symbols.lookup [60, 61] = some .tLte ∧ Gen.symbols.lookup [62, 61] = some .tGte ∧
    Gen.symbols.lookup [33, 61] = some .tNotEq ∧ Gen.symbols.lookup [61, 61] = some .tEq
  /-- the keywords of the expression language in `builtinIdents` -/
  kw : Gen.builtinIdents.lookup [110, 117, 108, 108] = some .tNull ∧ Gen.builtinIdents.lookup [116, 114, 117, 101] = some .tBool ∧
    Gen.builtinIdents.lookup [102, 97, 108, 115, 101] = some .tBool ∧ Gen.builtinIdents.lookup [110, 111, 116] = some .tNot ∧
    Gen.builtinIdents.lookup [97, 110, 100] = some .tAnd ∧ Gen.builtinIdents.lookup [111, 114] = some .tOr
  /-- no key of `builtinIdents` begins with `$`, `.` or `?` -/
  keys : ∀ kv ∈ Gen.builtinIdents, kv.1.head? ≠ some 36 ∧ kv.1.head? ≠ some 46 ∧ kv.1.head? ≠ some 63
  /-- `lexNegative`: unary after every token that can precede an operand, binary after every
      token an operand can end with -/
  unaryBefore : ∀ t ∈ beforeOperand, Gen.unaryMinusAfter.contains t = true
  unaryAfter : ∀ t ∈ afterOperand, Gen.unaryMinusAfter.contains t = false

theorem asciiHd_cons {b : UInt8} {s : Bytes} (h : b < 128) : AsciiHd (b :: s) := h

/-- the item the lexer emits for token `t` ending at `pe` -/
def itemOf (t : Tk) (pe : Nat) : Item := ⟨t.typ, pe, t.val⟩

/-- one transition `lexInsideTag → lexInsideTag` that emits `t` (which starts at `p`) -/
def Step1 (tg : Int) (inp : Array UInt8) (p : Nat) (le : Item) (its : Array Item) (t : Tk) : Prop :=
  ∀ w, ∃ w', step .insideTag (L tg inp p p w le its) =
    some (some .insideTag, L tg inp (p + t.val.length) (p + t.val.length) w' (itemOf t (p + t.val.length))
      (its.push (itemOf t (p + t.val.length))))

/-- `(` `)` `*` `%` `+` `:` -/
theorem step_single {inp p b s} (h : InpAt inp p (b :: s)) (ty : ItemType)
    (hb : b = 40 ∨ b = 41 ∨ b = 42 ∨ b = 37 ∨ b = 43 ∨ b = 58)
    (hs : Gen.symbols.lookup [b] = some ty) (le its) :
    Step1 tg inp p le its ⟨ty, [b]⟩ := by
  intro w
  refine ⟨1, ?_⟩
  have he := emit_L (tg := tg) (inp := inp) (st := p) (v := [b]) (s := s) h (pe := p + 1) rfl 1 le its ty
  rcases hb with rfl | rfl | rfl | rfl | rfl | rfl <;>
  · simp only [step, lexInsideTag, next_L h (by decide), Option.bind_eq_bind, Option.bind_some]
    simp [isSpaceEOL, isSpace, isEndOfLine, lexInsideTagMid, emitInside, hs, he, itemOf]

/-- `[` `]` `,` `|` -/
theorem step_bracket {inp p b s} (h : InpAt inp p (b :: s)) (ty : ItemType)
    (hb : (b = 91 ∧ ty = .tLeftBracket) ∨ (b = 93 ∧ ty = .tRightBracket) ∨ (b = 44 ∧ ty = .tComma) ∨
      (b = 124 ∧ ty = .tPipe)) (le its) :
    Step1 tg inp p le its ⟨ty, [b]⟩ := by
  intro w
  refine ⟨1, ?_⟩
  have he := emit_L (tg := tg) (inp := inp) (st := p) (v := [b]) (s := s) h (pe := p + 1) rfl 1 le its ty
  rcases hb with ⟨rfl, rfl⟩ | ⟨rfl, rfl⟩ | ⟨rfl, rfl⟩ | ⟨rfl, rfl⟩ <;>
  · simp only [step, lexInsideTag, next_L h (by decide), Option.bind_eq_bind, Option.bind_some]
    simp [isSpaceEOL, isSpace, isEndOfLine, lexInsideTagMid, lexInsideTagRest, emitInside, he, itemOf,
      isLetterOrUnderscore, eof]

/-- `/` followed by a space -/
theorem step_div (T : LexTableOK) {inp p s} (h : InpAt inp p (47 :: 32 :: s)) (le its) :
    Step1 tg inp p le its ⟨.tDiv, [47]⟩ := by
  intro w
  refine ⟨1, ?_⟩
  have he := emit_L (tg := tg) (inp := inp) (st := p) (v := [47]) (s := 32 :: s) h (pe := p + 1) rfl 1 le its .tDiv
  have hp := peek_hd (tg := tg) (inpAt_tail h) (asciiHd_cons (by decide)) p 1 le its
  simp only [step, lexInsideTag, next_L h (by decide), Option.bind_eq_bind, Option.bind_some, hp]
  simp [isSpaceEOL, isSpace, isEndOfLine, lexInsideTagMid, emitInside, T.sym1.2.2.2.2.2.2, he, itemOf, hdRune, hdW]

/-- `?[` -/
theorem step_qkey {inp p s} (h : InpAt inp p (63 :: 91 :: s)) (le its) :
    Step1 tg inp p le its tQKey := by
  intro w
  refine ⟨1, ?_⟩
  have he := emit_L (tg := tg) (inp := inp) (st := p) (v := [63, 91]) (s := s) h (pe := p + 1 + 1) rfl 1 le its .tQuestionKey
  have hn := next_L (tg := tg) (inpAt_tail h) (by decide) p 1 le its
  simp only [step, lexInsideTag, next_L h (by decide), Option.bind_eq_bind, Option.bind_some]
  simp [isSpaceEOL, isSpace, isEndOfLine, lexInsideTagMid, emitInside, hn, he, itemOf, tQKey]

/-- `?:` -/
theorem step_elvis {inp p s} (h : InpAt inp p (63 :: 58 :: s)) (le its) :
    Step1 tg inp p le its ⟨.tElvis, [63, 58]⟩ := by
  intro w
  refine ⟨1, ?_⟩
  have he := emit_L (tg := tg) (inp := inp) (st := p) (v := [63, 58]) (s := s) h (pe := p + 1 + 1) rfl 1 le its .tElvis
  have hn := next_L (tg := tg) (inpAt_tail h) (by decide) p 1 le its
  simp only [step, lexInsideTag, next_L h (by decide), Option.bind_eq_bind, Option.bind_some]
  simp [isSpaceEOL, isSpace, isEndOfLine, lexInsideTagMid, emitInside, hn, he, itemOf]

/-- `?` followed by a space -/
theorem step_ternif {inp p s} (h : InpAt inp p (63 :: 32 :: s)) (le its) :
    Step1 tg inp p le its tTernIf := by
  intro w
  refine ⟨1, ?_⟩
  have he := emit_L (tg := tg) (inp := inp) (st := p) (v := [63]) (s := 32 :: s) h (pe := p + 1) rfl 1 le its .tTernIf
  have hn := next_L (tg := tg) (inpAt_tail h) (by decide) p 1 le its
  simp only [step, lexInsideTag, next_L h (by decide), Option.bind_eq_bind, Option.bind_some]
  simp [isSpaceEOL, isSpace, isEndOfLine, lexInsideTagMid, emitInside, hn, he, itemOf, tTernIf, backup_L]

/-- `<` `>` followed by a space -/
theorem step_cmp1 {inp p b s} (h : InpAt inp p (b :: 32 :: s)) (ty : ItemType)
    (hb : b = 60 ∨ b = 62) (hs : Gen.symbols.lookup [b] = some ty) (le its) :
    Step1 tg inp p le its ⟨ty, [b]⟩ := by
  intro w
  refine ⟨1, ?_⟩
  have he := emit_L (tg := tg) (inp := inp) (st := p) (v := [b]) (s := 32 :: s) h (pe := p + 1) rfl 1 le its ty
  have ha := accept_no (tg := tg) (inpAt_tail h) (asciiHd_cons (by decide)) symbolChars (by simp only [hdRune]; decide) p 1 le its
  have hsl := slice_L (tg := tg) (inp := inp) (st := p) (v := [b]) (s := 32 :: s) h (pe := p + 1) rfl 1 le its
  rcases hb with rfl | rfl <;>
  · simp only [step, lexInsideTag, next_L h (by decide), Option.bind_eq_bind, Option.bind_some]
    simp [isSpaceEOL, isSpace, isEndOfLine, lexInsideTagMid, lexSymbol, ha, hdW, hsl, emitInside, hs, he, itemOf]

/-- `<=` `>=` `!=` -/
theorem step_cmp2 {inp p b s} (h : InpAt inp p (b :: 61 :: s)) (ty : ItemType)
    (hb : b = 60 ∨ b = 62 ∨ b = 33) (hs : Gen.symbols.lookup [b, 61] = some ty) (le its) :
    Step1 tg inp p le its ⟨ty, [b, 61]⟩ := by
  intro w
  refine ⟨1, ?_⟩
  have he := emit_L (tg := tg) (inp := inp) (st := p) (v := [b, 61]) (s := s) h (pe := p + 1 + 1) rfl 1 le its ty
  have ha := accept_yes (tg := tg) (inpAt_tail h) (by decide) symbolChars (by decide) p 1 le its
  have hsl := slice_L (tg := tg) (inp := inp) (st := p) (v := [b, 61]) (s := s) h (pe := p + 1 + 1) rfl 1 le its
  rcases hb with rfl | rfl | rfl <;>
  · simp only [step, lexInsideTag, next_L h (by decide), Option.bind_eq_bind, Option.bind_some]
    simp [isSpaceEOL, isSpace, isEndOfLine, lexInsideTagMid, lexSymbol, ha, hsl, emitInside, hs, he, itemOf]

/-- `==` -/
theorem step_eq {inp p s} (h : InpAt inp p (61 :: 61 :: s)) (hs : Gen.symbols.lookup [61, 61] = some .tEq) (le its) :
    Step1 tg inp p le its ⟨.tEq, [61, 61]⟩ := by
  intro w
  refine ⟨1, ?_⟩
  have he := emit_L (tg := tg) (inp := inp) (st := p) (v := [61, 61]) (s := s) h (pe := p + 1 + 1) rfl 1 le its .tEq
  have hp := peek_hd (tg := tg) (inpAt_tail h) (asciiHd_cons (by decide)) p 1 le its
  have ha := accept_yes (tg := tg) (inpAt_tail h) (by decide) symbolChars (by decide) p 1 le its
  have hsl := slice_L (tg := tg) (inp := inp) (st := p) (v := [61, 61]) (s := s) h (pe := p + 1 + 1) rfl 1 le its
  simp only [step, lexInsideTag, next_L h (by decide), Option.bind_eq_bind, Option.bind_some]
  simp [isSpaceEOL, isSpace, isEndOfLine, lexInsideTagMid, lexSymbol, hp, hdRune, hdW, ha, hsl, emitInside, hs, he, itemOf]

/-- binary `-`: the previous token is one an operand ends with -/
theorem step_sub {inp p s} (h : InpAt inp p (45 :: s)) (le its)
    (hprev : Gen.unaryMinusAfter.contains le.typ = false) :
    Step1 tg inp p le its ⟨.tSub, [45]⟩ := by
  intro w
  refine ⟨1, ?_⟩
  have he := emit_L (tg := tg) (inp := inp) (st := p) (v := [45]) (s := s) h (pe := p + 1) rfl 1 le its .tSub
  have hl : (L tg inp (p + 1) p 1 le its).lastEmit = le := rfl
  simp only [step, lexInsideTag, next_L h (by decide), Option.bind_eq_bind, Option.bind_some]
  simp only [isSpaceEOL, isSpace, isEndOfLine, lexInsideTagMid, lexNegative, hl, hprev]
  simp [he, itemOf]

/-- unary `-`: the previous token is one that precedes an operand, and no digit follows -/
theorem step_neg {inp p s} (h : InpAt inp p (45 :: s)) (ha : AsciiHd s) (hd : hdRune s < 48 ∨ 57 < hdRune s) (le its)
    (hprev : Gen.unaryMinusAfter.contains le.typ = true) :
    Step1 tg inp p le its tNeg := by
  intro w
  refine ⟨hdW s, ?_⟩
  have he := emit_L (tg := tg) (inp := inp) (st := p) (v := [45]) (s := s) h (pe := p + 1) rfl (hdW s) le its .tNegate
  have hp := peek_hd (tg := tg) (inpAt_tail h) ha p 1 le its
  have hp2 := peek_hd (tg := tg) (inpAt_tail h) ha p (hdW s) le its
  have hl : (L tg inp (p + 1) p 1 le its).lastEmit = le := rfl
  simp only [step, lexInsideTag, next_L h (by decide), Option.bind_eq_bind, Option.bind_some]
  simp only [isSpaceEOL, isSpace, isEndOfLine, lexInsideTagMid, lexNegative, hl, hprev]
  simp only [hp]
  by_cases h48 : hdRune s ≥ 48
  · have h57 : ¬ hdRune s ≤ 57 := by omega
    simp [h48, hp2, h57, he, itemOf, tNeg]
  · simp [h48, he, itemOf, tNeg]

/-! ### words: identifiers, keywords, `$x`, `.k`, `?.k`, `.3`, `?.3` -/

/-- the byte after a word does not continue it: end of input, or an ASCII byte that is no
    letter, digit or underscore -/
def WordEnd : Bytes → Prop
  | [] => True
  | b :: _ => b < 128 ∧ isIdChar b = false

theorem wordEnd_ascii {rest : Bytes} (h : WordEnd rest) : AsciiHd rest := by
  cases rest with
  | nil => trivial
  | cons b s => exact h.1

theorem alnum_true (T : LexTableOK) {b : UInt8} (h : isIdChar b = true) :
    b < 128 ∧ isAlphaNumeric (b.toNat : Int) = true := by
  have hn := isIdChar_nat h
  have hb : b.toNat < 128 := by omega
  refine ⟨hb, ?_⟩
  have h1 := T.letter ⟨b.toNat, hb⟩
  have h2 := T.digit ⟨b.toNat, hb⟩
  simp only at h1 h2
  simp only [isAlphaNumeric, h1, h2, Bool.or_eq_true, beq_iff_eq, decide_eq_true_eq]
  omega

theorem alnum_false (T : LexTableOK) {rest : Bytes} (h : WordEnd rest) : isAlphaNumeric (hdRune rest) = false := by
  cases rest with
  | nil => exact isAlphaNumeric_eof
  | cons b s =>
    have hn := isIdChar_nat_false h.2
    have hb : b.toNat < 128 := h.1
    have h1 := T.letter ⟨b.toNat, hb⟩
    have h2 := T.digit ⟨b.toNat, hb⟩
    simp only at h1 h2
    simp only [hdRune, isAlphaNumeric, h1, h2, Bool.or_eq_false_iff, beq_eq_false_iff_ne, decide_eq_false_iff_not]
    omega

theorem alnumR_true (T : LexTableOK) {r : Nat} (h : alnumR r = true) : isAlphaNumeric (r : Int) = true := by
  unfold alnumR at h
  split at h
  · rename_i hr
    have h1 := T.letter ⟨r, hr⟩
    have h2 := T.digit ⟨r, hr⟩
    simp only at h1 h2
    simp only [Bool.or_eq_true, Bool.and_eq_true, decide_eq_true_eq, beq_iff_eq] at h
    simp only [isAlphaNumeric, h1, h2, Bool.or_eq_true, beq_iff_eq, decide_eq_true_eq]
    omega
  · exact h

theorem letterR_true (T : LexTableOK) {r : Nat} (h : letterR r = true) : (r : Int) = 95 ∨ isLetterU (r : Int) = true := by
  unfold letterR at h
  split at h
  · rename_i hr
    have h1 := T.letter ⟨r, hr⟩
    simp only at h1
    simp only [Bool.or_eq_true, Bool.and_eq_true, decide_eq_true_eq, beq_iff_eq] at h
    simp only [h1, decide_eq_true_eq]
    omega
  · exact Or.inr h

theorem isDigit_eq (c : UInt8) : isDigit (c.toNat : Int) = isDig c := by
  have e1 : ((48 : UInt8) ≤ c) ↔ 48 ≤ c.toNat := UInt8.le_iff_toNat_le
  have e2 : (c ≤ (57 : UInt8)) ↔ c.toNat ≤ 57 := UInt8.le_iff_toNat_le
  by_cases h1 : 48 ≤ c.toNat <;> by_cases h2 : c.toNat ≤ 57 <;>
    simp [isDigit, isDig, e1, e2, h1, h2] <;> omega

/-- the first rune after the dot is an ASCII digit iff the first byte is -/
theorem runeAt_isDigit {c : UInt8} {t : Bytes} {r w : Nat} (hr : runeAt (c :: t) = some (r, w)) :
    isDigit (r : Int) = isDig c := by
  by_cases hc : c.toNat < 128
  · rw [runeAt_ascii t hc] at hr
    simp only [Option.some.injEq, Prod.mk.injEq] at hr
    rw [← hr.1]; exact isDigit_eq c
  · have h128 := runeAt_hi (by omega) hr
    have e2 : (c ≤ (57 : UInt8)) ↔ c.toNat ≤ 57 := UInt8.le_iff_toNat_le
    have : isDig c = false := by
      simp only [isDig, Bool.and_eq_false_iff, decide_eq_false_iff_not, e2]; right; omega
    rw [this]
    simp only [isDigit, Bool.and_eq_false_iff, decide_eq_false_iff_not]; right; omega

/-- `lexIdentRest` on the word `pre ++ k` (the lexer stands after `pre`): the type is the builtin's
    (`rt` from the table) or the one chosen by `lexIdent` -/
theorem identRest_word (T : LexTableOK) {inp st} {pre k rest : Bytes} (h : InpAt inp st ((pre ++ k) ++ rest))
    (hk : alnumBytes k = true) (hr : WordEnd rest) (ty rt : ItemType)
    (hl : (Gen.builtinIdents.lookup (pre ++ k) = some rt ∧ rt ≠ .tLiteral ∧ rt ≠ .tCss) ∨
          (Gen.builtinIdents.lookup (pre ++ k) = none ∧ rt = ty ∧ ty ≠ .tCommandEnd ∧ ty ≠ .tSpecialChar))
    (w le its) :
    lexIdentRest (L tg inp (st + pre.length) st w le its) ty =
      some (some .insideTag, L tg inp (st + (pre ++ k).length) (st + (pre ++ k).length) (hdW rest)
        ⟨rt, st + (pre ++ k).length, pre ++ k⟩ (its.push ⟨rt, st + (pre ++ k).length, pre ++ k⟩)) := by
  have h' : InpAt inp (st + pre.length) (k ++ rest) := inpAt_append (by simpa using h)
  have hsc := scan_runes (tg := tg) (fun r hr => alnumR_true T hr) k.length k hk h' (wordEnd_ascii hr) (alnum_false T hr) st w le its
  have hpe : st + pre.length + k.length = st + (pre ++ k).length := by simp; omega
  have hsl := slice_L (tg := tg) h (pe := st + pre.length + k.length) hpe (hdW rest) le its
  have he := emit_L (tg := tg) h (pe := st + pre.length + k.length) hpe (hdW rest) le its rt
  unfold lexIdentRest
  simp only [hsc, Option.bind_eq_bind, Option.bind_some, backup_hd, hsl]
  rw [hpe] at he
  rw [hpe]
  rcases hl with ⟨hl, h1, h2⟩ | ⟨hl, rfl, h1, h2⟩
  · simp only [hl, he, Option.bind_eq_bind, Option.bind_some, Option.pure_def, if_neg h1, if_neg h2]
  · simp only [hl]
    rw [if_neg (by simp [h1, h2])]
    simp only [emitInside, he, Option.bind_eq_bind, Option.bind_some, Option.pure_def]

/-- two transitions `lexInsideTag → s → lexInsideTag` that emit `t` (which starts at `p`) -/
def Step2 (tg : Int) (inp : Array UInt8) (p : Nat) (le : Item) (its : Array Item) (t : Tk) : Prop :=
  ∀ w, ∃ w' s1 l1, step .insideTag (L tg inp p p w le its) = some (some s1, l1) ∧
    step s1 l1 = some (some .insideTag, L tg inp (p + t.val.length) (p + t.val.length) w' (itemOf t (p + t.val.length))
      (its.push (itemOf t (p + t.val.length))))

theorem lookup_none {l : List (Bytes × ItemType)} {w : Bytes} (h : ∀ kv ∈ l, kv.1 ≠ w) : l.lookup w = none := by
  induction l with
  | nil => rfl
  | cons kv r ih =>
    obtain ⟨k, v⟩ := kv
    have h1 : k ≠ w := h (k, v) (by simp)
    have h2 : (w == k) = false := by simp [beq_eq_false_iff_ne]; exact fun e => h1 e.symm
    simp only [List.lookup, h2]
    exact ih (fun kv hkv => h kv (by simp [hkv]))

theorem lookup_special (T : LexTableOK) (c : UInt8) (k : Bytes) (hc : c = 36 ∨ c = 46 ∨ c = 63) :
    Gen.builtinIdents.lookup (c :: k) = none := by
  apply lookup_none
  intro kv hkv e
  have := T.keys kv hkv
  rw [e] at this
  simp only [List.head?_cons, ne_eq, Option.some.injEq] at this
  rcases hc with rfl | rfl | rfl <;> simp at this

/-- a word that begins with a letter or `_`: an identifier or a keyword -/
theorem step_word (T : LexTableOK) {inp p} {c : UInt8} {k rest : Bytes} (h : InpAt inp p ((c :: k) ++ rest))
    (hc : isIdStart c = true) (hk : alnumBytes k = true) (hr : WordEnd rest) (rt : ItemType)
    (hl : (Gen.builtinIdents.lookup (c :: k) = some rt ∧ rt ≠ .tLiteral ∧ rt ≠ .tCss) ∨
          (Gen.builtinIdents.lookup (c :: k) = none ∧ rt = .tIdent)) (le its) :
    Step2 tg inp p le its ⟨rt, c :: k⟩ := by
  intro w
  have hn := isIdStart_nat hc
  have hc8 : c < 128 := by show c.toNat < 128; omega
  have h0 : InpAt inp p (c :: (k ++ rest)) := by simpa using h
  refine ⟨hdW rest, .ident, L tg inp p p 1 le its, ?_, ?_⟩
  · simp only [step, lexInsideTag, next_L h0 hc8, Option.bind_eq_bind, Option.bind_some]
    have hsp : isSpaceEOL (c.toNat : Int) = false := by
      simp only [isSpaceEOL, isSpace, isEndOfLine, Bool.or_eq_false_iff, beq_eq_false_iff_ne]; omega
    have hlu : isLetterOrUnderscore (c.toNat : Int) = true := by
      simp only [isLetterOrUnderscore, Bool.or_eq_true, Bool.and_eq_true, decide_eq_true_eq, beq_iff_eq]; omega
    simp only [hsp, Bool.false_eq_true, if_false]
    rw [if_neg (by omega)]
    unfold lexInsideTagMid
    rw [if_neg (by omega), if_neg (by omega), if_neg (by omega), if_neg (by omega), if_neg (by omega),
      if_neg (by omega), if_neg (by omega), if_neg (by omega), if_neg (by omega), if_neg (by omega)]
    unfold lexInsideTagRest
    rw [if_neg (by omega), if_neg (by omega), if_neg (by simp only [eof]; omega), if_neg (by omega), if_pos hlu]
    simp only [Option.pure_def, backup_L]
  · have hr1 := identRest_word (tg := tg) T (pre := [c]) (k := k) (rest := rest) (st := p) h hk hr .tIdent rt
      (by rcases hl with hl | ⟨hl, rfl⟩
          · exact Or.inl hl
          · exact Or.inr ⟨hl, rfl, by simp, by simp⟩) 1 le its
    simp only [step, lexIdent, next_L h0 hc8, Option.bind_eq_bind, Option.bind_some]
    rw [if_neg (by omega), if_neg (by omega), if_neg (by omega), if_neg (by omega), if_neg (by omega)]
    simpa [itemOf] using hr1

/-- `$name`: the name is a run of letters / digits / `_` that begins with a letter or `_` -/
theorem step_dollar (T : LexTableOK) {inp p} {c : UInt8} {k rest : Bytes} (h : InpAt inp p ((36 :: c :: k) ++ rest))
    (hk : alnumBytes (c :: k) = true) (hl : ∀ r w, runeAt (c :: k) = some (r, w) → letterR r = true)
    (hr : WordEnd rest) (le its) :
    Step2 tg inp p le its ⟨.tDollarIdent, 36 :: c :: k⟩ := by
  intro w
  obtain ⟨r, wd, hrune, _⟩ := alnumBytes_cons_rune hk
  have h0 : InpAt inp p (36 :: (c :: (k ++ rest))) := by simpa using h
  have h1 : InpAt inp (p + 1) ((c :: k) ++ rest) := by simpa using inpAt_tail h0
  refine ⟨hdW rest, .ident, L tg inp p p 1 le its, ?_, ?_⟩
  · simp only [step, lexInsideTag, next_L h0 (by decide), Option.bind_eq_bind, Option.bind_some]
    simp [isSpaceEOL, isSpace, isEndOfLine, lexInsideTagMid, backup_L]
  · have hr1 := identRest_word (tg := tg) T (pre := [36]) (k := c :: k) (rest := rest) (st := p) h hk hr .tDollarIdent .tDollarIdent
      (Or.inr ⟨lookup_special T 36 _ (Or.inl rfl), rfl, by simp, by simp⟩) (wd : Int) le its
    have hp : (L tg inp (p + 1) p 1 le its).peek = some ((r : Int), L tg inp (p + 1) p (wd : Int) le its) := by
      unfold Lexer.peek
      rw [next_rune h1 (runeAt_append rest hrune)]
      simp only [Option.bind_eq_bind, Option.bind_some, Option.pure_def, backup_Lw]
    have hlet := letterR_true T (hl r wd hrune)
    simp only [step, lexIdent, next_L h0 (by decide), Option.bind_eq_bind, Option.bind_some, hp]
    rw [if_neg (by decide), if_pos (by decide)]
    rw [if_neg (by
      rcases hlet with e | e
      · simp [e]
      · simp [e])]
    simpa [itemOf] using hr1

theorem letterR_notDigit {r : Nat} (h : letterR r = true) : isDigit (r : Int) = false := by
  unfold letterR at h
  simp only [isDigit, Bool.and_eq_false_iff, decide_eq_false_iff_not]
  split at h
  · simp only [Bool.or_eq_true, Bool.and_eq_true, decide_eq_true_eq, beq_iff_eq] at h
    omega
  · omega

/-- `.name` / `.3`: the type is decided by the first character after the dot — an ASCII digit begins an
    index, a letter or `_` a name (anything else is an error since /repo 8984077) -/
theorem step_dot (T : LexTableOK) {inp p} {c : UInt8} {k rest : Bytes} (h : InpAt inp p ((46 :: c :: k) ++ rest))
    (hk : alnumBytes (c :: k) = true)
    (hl : isDig c = false → ∀ r w, runeAt (c :: k) = some (r, w) → letterR r = true) (hr : WordEnd rest) (le its) :
    Step2 tg inp p le its ⟨if isDig c then .tDotIndex else .tDotIdent, 46 :: c :: k⟩ := by
  intro w
  obtain ⟨r, wd, hrune, _⟩ := alnumBytes_cons_rune hk
  have h0 : InpAt inp p (46 :: (c :: (k ++ rest))) := by simpa using h
  have h1 : InpAt inp (p + 1) ((c :: k) ++ rest) := by simpa using inpAt_tail h0
  refine ⟨hdW rest, .ident, L tg inp p p 1 le its, ?_, ?_⟩
  · simp only [step, lexInsideTag, next_L h0 (by decide), Option.bind_eq_bind, Option.bind_some]
    simp [isSpaceEOL, isSpace, isEndOfLine, lexInsideTagMid, backup_L]
  · have hr1 := identRest_word (tg := tg) T (pre := [46]) (k := c :: k) (rest := rest) (st := p) h hk hr
      (if isDig c then .tDotIndex else .tDotIdent) (if isDig c then .tDotIndex else .tDotIdent)
      (Or.inr ⟨lookup_special T 46 _ (Or.inr (Or.inl rfl)), rfl, by split <;> simp, by split <;> simp⟩) (wd : Int) le its
    simp only [step, lexIdent, next_L h0 (by decide), Option.bind_eq_bind, Option.bind_some]
    rw [if_pos (by decide)]
    simp only [next_rune h1 (runeAt_append rest hrune), Option.bind_eq_bind, Option.bind_some, backup_Lw]
    cases hd : isDig c with
    | true =>
      have : isDigit (r : Int) = true := by rw [runeAt_isDigit hrune]; exact hd
      rw [if_pos this]
      simpa [itemOf, hd] using hr1
    | false =>
      have hlr := hl hd r wd hrune
      rw [if_neg (by rw [letterR_notDigit hlr]; simp), if_pos (letterR_true T hlr)]
      simpa [itemOf, hd] using hr1

/-- `?.name` / `?.3` -/
theorem step_qdot (T : LexTableOK) {inp p} {c : UInt8} {k rest : Bytes} (h : InpAt inp p ((63 :: 46 :: c :: k) ++ rest))
    (hk : alnumBytes (c :: k) = true)
    (hl : isDig c = false → ∀ r w, runeAt (c :: k) = some (r, w) → letterR r = true) (hr : WordEnd rest) (le its) :
    Step2 tg inp p le its ⟨if isDig c then .tQuestionDotIndex else .tQuestionDotIdent, 63 :: 46 :: c :: k⟩ := by
  intro w
  obtain ⟨r, wd, hrune, _⟩ := alnumBytes_cons_rune hk
  have h0 : InpAt inp p (63 :: (46 :: (c :: (k ++ rest)))) := by simpa using h
  have h1 : InpAt inp (p + 1) (46 :: c :: (k ++ rest)) := inpAt_tail h0
  have h2 : InpAt inp (p + 1 + 1) ((c :: k) ++ rest) := by simpa using inpAt_tail h1
  refine ⟨hdW rest, .ident, L tg inp p p 1 le its, ?_, ?_⟩
  · simp only [step, lexInsideTag, next_L h0 (by decide), Option.bind_eq_bind, Option.bind_some]
    simp [isSpaceEOL, isSpace, isEndOfLine, lexInsideTagMid, next_L h1, addPos_L2]
  · have hr1 := identRest_word (tg := tg) T (pre := [63, 46]) (k := c :: k) (rest := rest) (st := p) h hk hr
      (if isDig c then .tQuestionDotIndex else .tQuestionDotIdent) (if isDig c then .tQuestionDotIndex else .tQuestionDotIdent)
      (Or.inr ⟨lookup_special T 63 _ (Or.inr (Or.inr rfl)), rfl, by split <;> simp, by split <;> simp⟩) (wd : Int) le its
    simp only [step, lexIdent, next_L h0 (by decide), Option.bind_eq_bind, Option.bind_some]
    rw [if_neg (by decide), if_neg (by decide), if_neg (by decide), if_neg (by decide), if_pos (by decide)]
    simp only [next_L h1 (by decide), Option.bind_eq_bind, Option.bind_some]
    rw [if_neg (by decide)]
    simp only [next_rune h2 (runeAt_append rest hrune), Option.bind_eq_bind, Option.bind_some, backup_Lw]
    cases hd : isDig c with
    | true =>
      have : isDigit (r : Int) = true := by rw [runeAt_isDigit hrune]; exact hd
      rw [if_pos this]
      simpa [itemOf, hd] using hr1
    | false =>
      have hlr := hl hd r wd hrune
      rw [if_neg (by rw [letterR_notDigit hlr]; simp), if_pos (letterR_true T hlr)]
      simpa [itemOf, hd] using hr1

end SoyVerif.Lemmas.LexPrint
