/-
  Connecting the render model with the naming theorems of C10: in the compiled body of a
  flat message, and of a PO-shaped plural message, a name determines the source text.
-/
import SoyVerif.Lemmas.MsgRender
import SoyVerif.Lemmas.MsgValidate
import SoyVerif.Props.C10

namespace SoyVerif.Model.Msg
open SoyVerif.Props.C10

def Part.isPlural : Part → Bool
  | .plural _ _ _ _ => true
  | _ => false

/-- no plural among the parts -/
def bodyFlat (ps : List Part) : Bool := ps.all (!·.isPlural)

theorem bodyFlat_cons {p : Part} {ps : List Part} (h : bodyFlat (p :: ps) = true) :
    p.isPlural = false ∧ bodyFlat ps = true := by
  simpa [bodyFlat] using h

/-! ### the queue of flat and PO-plural bodies -/

theorem bfs_flat : ∀ (ps : List Part) (fuel : Nat), (∀ p ∈ ps, pluralCaseBodies p = []) → ps.length ≤ fuel →
    bfs fuel ps = ps
  | [], 0, _, _ => rfl
  | [], _ + 1, _, _ => rfl
  | p :: ps, 0, _, h => by simp at h
  | p :: ps, fuel + 1, hp, h => by
    simp only [bfs, hp p (by simp), List.append_nil]
    rw [bfs_flat ps fuel (fun x hx => hp x (by simp [hx])) (by simpa using h)]

theorem phNodes_flat : ∀ ps : List Part, bodyFlat ps = true → ∀ p ∈ phNodes ps, pluralCaseBodies p = []
  | [], _, p, hp => by simp [phNodes] at hp
  | x :: ps, h, p, hp => by
    obtain ⟨hx, hps⟩ := bodyFlat_cons h
    simp only [phNodes, List.filter_cons] at hp
    split at hp
    · rcases List.mem_cons.mp hp with hp | hp
      · subst hp
        cases p with
        | plural _ _ _ _ => simp [Part.isPlural] at hx
        | _ => rfl
      · exact phNodes_flat ps hps p hp
    · exact phNodes_flat ps hps p hp

theorem length_phNodes_le : ∀ ps : List Part, (phNodes ps).length ≤ sizeList ps
  | [] => by simp [phNodes, sizeList]
  | p :: ps => by
    have ih := length_phNodes_le ps
    have h1 : 1 ≤ p.size := by cases p <;> simp [Part.size] <;> omega
    simp only [phNodes, List.filter_cons, sizeList] at ih ⊢
    split
    · simp only [List.length_cons]; omega
    · omega

theorem queue_flat (body : List Part) (h : bodyFlat body = true) : queue body = mkQueue (phNodes body) := by
  unfold queue
  rw [bfs_flat _ _ (phNodes_flat body h) (Nat.le_succ_of_le (length_phNodes_le body))]

theorem queue_poPlural (b s : Bytes) (k : Int) (c d : List Part)
    (hc : bodyFlat c = true) (hd : bodyFlat d = true) :
    queue [.plural b s [(k, c)] d] = mkQueue (.plural b s [(k, c)] d :: (phNodes c ++ phNodes d)) := by
  unfold queue
  have h1 : phNodes [Part.plural b s [(k, c)] d] = [Part.plural b s [(k, c)] d] := by simp [phNodes, Part.isText]
  have h2 : pluralCaseBodies (Part.plural b s [(k, c)] d) = phNodes c ++ phNodes d := by simp [pluralCaseBodies]
  have hsz : sizeList [Part.plural b s [(k, c)] d] = 1 + (sizeList c + 0) + sizeList d + 0 := by
    simp [sizeList, Part.size, sizeCases]
  rw [h1, hsz]
  have e : 1 + (sizeList c + 0) + sizeList d + 0 + 1 = (sizeList c + sizeList d + 1) + 1 := by omega
  rw [e]
  simp only [bfs, List.nil_append, h2]
  rw [bfs_flat]
  · intro p hp
    rcases List.mem_append.mp hp with hp | hp
    · exact phNodes_flat c hc p hp
    · exact phNodes_flat d hd p hp
  · have := length_phNodes_le c
    have := length_phNodes_le d
    simp only [List.length_append]; omega

theorem mkQueue_proj (ps : List Part) :
    (mkQueue ps).map (fun n => (n.base, n.src)) = ps.map (fun p => (p.base, p.src)) := by
  unfold mkQueue
  rw [List.map_map]
  have : ((fun n : QNode => (n.base, n.src)) ∘ fun x : Part × Nat => (⟨x.2, x.1.base, x.1.src⟩ : QNode))
      = (fun p : Part => (p.base, p.src)) ∘ Prod.fst := by
    funext x; rfl
  rw [this, ← List.map_map, List.zipIdx_map_fst]

theorem mkQueue_mem {ps : List Part} {p : Part} (h : p ∈ ps) :
    ∃ n ∈ mkQueue ps, n.base = p.base ∧ n.src = p.src := by
  have : (p.base, p.src) ∈ (mkQueue ps).map (fun n => (n.base, n.src)) := by
    rw [mkQueue_proj]; exact List.mem_map_of_mem (f := fun p => (p.base, p.src)) h
  obtain ⟨n, hn, he⟩ := List.mem_map.mp this
  simp only [Prod.mk.injEq] at he
  exact ⟨n, hn, he.1, he.2⟩

/-! ### a name determines the source text (from `names_distinct` / `names_equiv_same`) -/

/-- the naming function the compiled body carries -/
def nmOf (o : Orders) (body : List Part) : Bytes → Bytes → Bytes := nameFor (queue body) (setNames o body)

theorem nm_inj (o : Orders) (ho : o.Valid) (body : List Part) {n₁ n₂ : QNode}
    (h₁ : n₁ ∈ queue body) (h₂ : n₂ ∈ queue body)
    (h : nmOf o body n₁.base n₁.src = nmOf o body n₂.base n₂.src) : n₁.src = n₂.src := by
  obtain ⟨i, hi, e₁⟩ := List.getElem_of_mem h₁
  obtain ⟨j, hj, e₂⟩ := List.getElem_of_mem h₂
  have a := names_equiv_same o ho body i hi
  have b := names_equiv_same o ho body j hj
  rw [e₁] at a
  rw [e₂] at b
  unfold nmOf at h
  rw [a, b] at h
  have := (names_distinct o ho body i j hi hj).mp h
  rw [e₁, e₂] at this
  exact this.2

/-- placeholders of an annotated flat list come from placeholders of the list -/
theorem mem_annotList_flat (nm : Bytes → Bytes → Bytes) : ∀ (ps : List Part), bodyFlat ps = true →
    ∀ n s, RPart.ph n s ∈ annotList nm ps → ∃ base, Part.ph base s ∈ phNodes ps ∧ n = nm base s
  | [], _, n, s, h => by simp [annotList] at h
  | p :: ps, hf, n, s, h => by
    obtain ⟨hp, hps⟩ := bodyFlat_cons hf
    simp only [annotList] at h
    rcases List.mem_cons.mp h with h | h
    · cases p with
      | text b => simp [annot] at h
      | ph base src =>
        simp only [annot, RPart.ph.injEq] at h
        obtain ⟨h1, h2⟩ := h
        subst h2
        exact ⟨base, by simp [phNodes, Part.isText], h1⟩
      | plural _ _ _ _ => simp [Part.isPlural] at hp
    · obtain ⟨base, h1, h2⟩ := mem_annotList_flat nm ps hps n s h
      refine ⟨base, ?_, h2⟩
      simp only [phNodes, List.filter_cons]
      split
      · exact List.mem_cons_of_mem _ h1
      · exact h1

theorem isFlat_annotList (nm : Bytes → Bytes → Bytes) : ∀ ps : List Part, bodyFlat ps = true →
    isFlat (annotList nm ps) = true
  | [], _ => rfl
  | p :: ps, hf => by
    obtain ⟨hp, hps⟩ := bodyFlat_cons hf
    have ih := isFlat_annotList nm ps hps
    cases p with
    | plural _ _ _ _ => simp [Part.isPlural] at hp
    | text b => simpa [annotList, annot, isFlat, RPart.isPlural] using ih
    | ph b s => simpa [annotList, annot, isFlat, RPart.isPlural] using ih

theorem toNList_annotList_flat (nm : Bytes → Bytes → Bytes) : ∀ ps : List Part, bodyFlat ps = true →
    toNList (annotList nm ps) = skelList nm ps
  | [], _ => rfl
  | p :: ps, hf => by
    obtain ⟨hp, hps⟩ := bodyFlat_cons hf
    have ih := toNList_annotList_flat nm ps hps
    cases p with
    | plural _ _ _ _ => simp [Part.isPlural] at hp
    | text b => simp [annotList, annot, toNList, RPart.toN, skelList, skel, ih]
    | ph b s => simp [annotList, annot, toNList, RPart.toN, skelList, skel, ih]

theorem writephList_flat : ∀ R : List RPart, isFlat R = true → writephList R = writeFPList true (toNList R)
  | [], _ => rfl
  | p :: R, hf => by
    obtain ⟨hp, hR⟩ := isFlat_cons hf
    have ih := writephList_flat R hR
    unfold writephList at ih ⊢
    cases p with
    | plural _ _ _ _ => simp [RPart.isPlural] at hp
    | text b => simp [writeph, toNList, RPart.toN, writeFPList, writeFP, ih]
    | ph n s => simp [writeph, toNList, RPart.toN, writeFPList, writeFP, ih]

end SoyVerif.Model.Msg
