/-
  The statement parser of Spec/JsParse is the inverse of the obvious token printer on well-formed statement trees
  (expressions well-levelled, an ExpressionStatement not beginning with `{`, no `if` without `else` directly in front
  of an `else`).
-/
import SoyVerif.Lemmas.JsParseExpr

namespace SoyVerif.Lemmas.JsParseStmt
open SoyVerif SoyVerif.Spec SoyVerif.Spec.JsParse SoyVerif.Lemmas.JsParseExpr

/-! ## tokens -/

def tkDeclsTail : List (Bytes × PE) → List Tok
  | [] => []
  | (x, e) :: r => .p b!"," :: .id x :: .p b!"=" :: (tk e ++ tkDeclsTail r)

def tkDecls : List (Bytes × PE) → List Tok
  | [] => []
  | (x, e) :: r => .id x :: .p b!"=" :: (tk e ++ tkDeclsTail r)

def tkExprsTail : List PE → List Tok
  | [] => []
  | e :: r => .p b!"," :: (tk e ++ tkExprsTail r)

def tkExprs : List PE → List Tok
  | [] => []
  | e :: r => tk e ++ tkExprsTail r

mutual
  def tkS : PS → List Tok
    | .expr e => tk e ++ [.p b!";"]
    | .var ds => .id b!"var" :: (tkDecls ds ++ [.p b!";"])
    | .ifS c t => .id b!"if" :: .p b!"(" :: (tk c ++ .p b!")" :: tkS t)
    | .ifElse c t e => .id b!"if" :: .p b!"(" :: (tk c ++ .p b!")" :: (tkS t ++ .id b!"else" :: tkS e))
    | .block ss => .p b!"{" :: (tkSs ss ++ [.p b!"}"])
    | .forVar ds test upd body =>
      .id b!"for" :: .p b!"(" :: .id b!"var" ::
        (tkDecls ds ++ .p b!";" :: (tk test ++ .p b!";" :: (tkExprs upd ++ .p b!")" :: tkS body)))
    | .switchS e cs => .id b!"switch" :: .p b!"(" :: (tk e ++ .p b!")" :: .p b!"{" :: (tkCs cs ++ [.p b!"}"]))
    | .ret e => .id b!"return" :: (tk e ++ [.p b!";"])
    | .brk => [.id b!"break", .p b!";"]
    | .dbg => [.id b!"debugger", .p b!";"]
  def tkSs : PStmts → List Tok
    | .nil => []
    | .cons s r => tkS s ++ tkSs r
  def tkCs : PClauses → List Tok
    | .nil => []
    | .case e body r => .id b!"case" :: (tk e ++ .p b!":" :: (tkSs body ++ tkCs r))
    | .dflt body r => .id b!"default" :: .p b!":" :: (tkSs body ++ tkCs r)
end

/-! ## well-formed -/

/-- followed by `else`, the statement is read without taking the `else` -/
def closed : PS → Bool
  | .ifS _ _ => false
  | .ifElse _ _ e => closed e
  | .forVar _ _ _ body => closed body
  | _ => true

def WfDecls : List (Bytes × PE) → Prop
  | [] => True
  | (x, e) :: r => isReserved x = false ∧ Wf e ∧ WfDecls r

def WfExprs : List PE → Prop
  | [] => True
  | e :: r => Wf e ∧ WfExprs r

mutual
  def WfS : PS → Prop
    | .expr e => Wf e ∧ headTok e ≠ .p b!"{"
    | .var ds => ds ≠ [] ∧ WfDecls ds
    | .ifS c t => Wf c ∧ WfS t
    | .ifElse c t e => Wf c ∧ WfS t ∧ closed t = true ∧ WfS e
    | .block ss => WfSs ss
    | .forVar ds test upd body => ds ≠ [] ∧ WfDecls ds ∧ Wf test ∧ upd ≠ [] ∧ WfExprs upd ∧ WfS body
    | .switchS e cs => Wf e ∧ WfCs cs
    | .ret e => Wf e
    | .brk => True
    | .dbg => True
  def WfSs : PStmts → Prop
    | .nil => True
    | .cons s r => WfS s ∧ WfSs r
  def WfCs : PClauses → Prop
    | .nil => True
    | .case e body r => Wf e ∧ WfSs body ∧ WfCs r
    | .dflt body r => WfSs body ∧ WfCs r
end

/-! ## expressions inside statements -/

theorem exprP_rt (e : PE) (w : Wf e) (rest : List Tok) (ha : After 13 rest) : exprP (tk e ++ rest) = some (e, rest) := by
  unfold exprP
  exact assignN_rt _ _ e w (by simp) rest ha

theorem after_p {s : Bytes} (h : Tok.cont (.p s) = none) (k : Nat) (r : List Tok) : After k (.p s :: r) :=
  after_of_none h k r

theorem declsTail_rt : ∀ (ds : List (Bytes × PE)) (x : Bytes) (e : PE) (k : Nat) (rest : List Tok),
    isReserved x = false → Wf e → WfDecls ds → (tkDeclsTail ds).length < k → eat b!"," rest = none → After 13 rest →
    declsLoop k (.id x :: .p b!"=" :: (tk e ++ (tkDeclsTail ds ++ rest))) = some ((x, e) :: ds, rest)
  | [], x, e, k, rest, hx, we, _, hk, hr, ha => by
    cases k with
    | zero => simp at hk
    | succ k =>
      unfold declsLoop
      simp only [hx, tkDeclsTail, List.nil_append, eat_self, Bool.false_eq_true, if_false]
      rw [exprP_rt e we rest ha]
      simp [hr]
  | (x', e') :: r, x, e, k, rest, hx, we, wd, hk, hr, ha => by
    cases k with
    | zero => simp at hk
    | succ k =>
      simp only [WfDecls] at wd
      simp only [tkDeclsTail, List.length_cons, List.length_append] at hk
      have ih := declsTail_rt r x' e' k rest wd.1 wd.2.1 wd.2.2 (by omega) hr ha
      unfold declsLoop
      simp only [hx, tkDeclsTail, List.cons_append, List.append_assoc, eat_self, Bool.false_eq_true, if_false]
      rw [exprP_rt e we _ (after_p rfl _ _)]
      simp only [eat_self, ih]

theorem decls_rt (ds : List (Bytes × PE)) (hne : ds ≠ []) (w : WfDecls ds) (rest : List Tok)
    (hr : eat b!"," rest = none) (ha : After 13 rest) :
    declsLoop (tkDecls ds ++ rest).length (tkDecls ds ++ rest) = some (ds, rest) := by
  cases ds with
  | nil => exact absurd rfl hne
  | cons d r =>
    obtain ⟨x, e⟩ := d
    simp only [WfDecls] at w
    have := declsTail_rt r x e (tkDecls ((x, e) :: r) ++ rest).length rest w.1 w.2.1 w.2.2
      (by simp [tkDecls]; omega) hr ha
    simpa [tkDecls] using this

theorem exprsTail_rt : ∀ (es : List PE) (e : PE) (k : Nat) (rest : List Tok),
    Wf e → WfExprs es → (tkExprsTail es).length < k → eat b!"," rest = none → After 13 rest →
    exprsLoop k (tk e ++ (tkExprsTail es ++ rest)) = some (e :: es, rest)
  | [], e, k, rest, we, _, hk, hr, ha => by
    cases k with
    | zero => simp at hk
    | succ k =>
      unfold exprsLoop
      simp only [tkExprsTail, List.nil_append]
      rw [exprP_rt e we rest ha]
      simp [hr]
  | e' :: r, e, k, rest, we, wd, hk, hr, ha => by
    cases k with
    | zero => simp at hk
    | succ k =>
      simp only [WfExprs] at wd
      simp only [tkExprsTail, List.length_cons, List.length_append] at hk
      have ih := exprsTail_rt r e' k rest wd.1 wd.2 (by omega) hr ha
      unfold exprsLoop
      simp only [tkExprsTail, List.cons_append, List.append_assoc]
      rw [exprP_rt e we _ (after_p rfl _ _)]
      simp only [eat_self, ih]

theorem exprs_rt (es : List PE) (hne : es ≠ []) (w : WfExprs es) (rest : List Tok)
    (hr : eat b!"," rest = none) (ha : After 13 rest) :
    exprsLoop (tkExprs es ++ rest).length (tkExprs es ++ rest) = some (es, rest) := by
  cases es with
  | nil => exact absurd rfl hne
  | cons e r =>
    simp only [WfExprs] at w
    have := exprsTail_rt r e (tkExprs (e :: r) ++ rest).length rest w.1 w.2
      (by have := tk_pos e; simp [tkExprs]; omega) hr ha
    simpa [tkExprs] using this

/-! ## the first token of a statement -/

theorem eatId_cons (s s' : Bytes) (r : List Tok) : eatId s (.id s' :: r) = if s' = s then some r else none := rfl
theorem eat_cons (s s' : Bytes) (r : List Tok) : eat s (.p s' :: r) = if s' = s then some r else none := rfl

/-- the words a statement of the grammar begins with (or is continued by) -/
def isStmtKw (s : Bytes) : Bool :=
  s == b!"var" || s == b!"if" || s == b!"for" || s == b!"switch" || s == b!"return" || s == b!"break" ||
    s == b!"case" || s == b!"default" || s == b!"else" || s == b!"debugger"

theorem stmtKw_reserved {s : Bytes} (h : isReserved s = false) : isStmtKw s = false := by
  cases hk : isStmtKw s with
  | false => rfl
  | true =>
    simp only [isStmtKw, Bool.or_eq_true, beq_iff_eq] at hk
    rcases hk with ((((((((h1 | h1) | h1) | h1) | h1) | h1) | h1) | h1) | h1) | h1 <;> subst h1 <;> revert h <;> decide

theorem headTok_idok : ∀ (p : PE), Wf p → ∀ s, headTok p = .id s → isStmtKw s = false
  | .ident s, w, s', h => by simp only [headTok, Tok.id.injEq] at h; subst h; exact stmtKw_reserved w
  | .null, _, _, h => by simp only [headTok, Tok.id.injEq] at h; subst h; decide
  | .bool b, _, _, h => by cases b <;> (simp only [headTok, Tok.id.injEq] at h; subst h; decide)
  | .num _, _, _, h => by cases h
  | .str _, _, _, h => by cases h
  | .obj _, _, _, h => by cases h
  | .paren _, _, _, h => by cases h
  | .member x _, w, s, h => by simp only [Wf] at w; exact headTok_idok x w.1 s h
  | .index x _, w, s, h => by simp only [Wf] at w; exact headTok_idok x w.1 s h
  | .call f _, w, s, h => by simp only [Wf] at w; exact headTok_idok f w.1 s h
  | .postInc x, w, s, h => by simp only [Wf] at w; exact headTok_idok x w.1 s h
  | .unary op _, _, s, h => by
    cases op <;> simp only [headTok, UnOp.tok] at h
    · cases h
    · cases h
    · cases h; decide
  | .bin _ a _, w, s, h => by simp only [Wf] at w; exact headTok_idok a w.1 s h
  | .cond c _ _, w, s, h => by simp only [Wf] at w; exact headTok_idok c w.1 s h
  | .assign _ l _, w, s, h => by simp only [Wf] at w; exact headTok_idok l w.1 s h

/-- an expression statement is none of the other statements, and no end of a statement list -/
theorem expr_dispatch (e : PE) (w : Wf e) (hb : headTok e ≠ .p b!"{") (rest : List Tok) :
    eat b!"{" (tk e ++ rest) = none ∧ eatId b!"var" (tk e ++ rest) = none ∧ eatId b!"if" (tk e ++ rest) = none ∧
    eatId b!"for" (tk e ++ rest) = none ∧ eatId b!"switch" (tk e ++ rest) = none ∧ eatId b!"return" (tk e ++ rest) = none ∧
    eatId b!"break" (tk e ++ rest) = none ∧ eatId b!"debugger" (tk e ++ rest) = none ∧ stmtsEnd (tk e ++ rest) = false := by
  obtain ⟨r, hr⟩ := tk_head e
  have hk := headTok_idok e w
  have hs := headTok_estart e w
  rw [hr]
  cases ht : headTok e with
  | id s =>
    have := hk s ht
    simp only [isStmtKw, Bool.or_eq_false_iff, beq_eq_false_iff_ne, ne_eq] at this
    simp [eatId_cons, stmtsEnd, this]
  | num _ => simp [stmtsEnd]
  | str _ => simp [stmtsEnd]
  | p s =>
    rw [ht] at hb hs
    have h1 : s ≠ b!"{" := fun e => hb (by rw [e])
    have h2 : s ≠ b!"}" := by
      rcases hs with h | h | h | h <;> (subst h; decide)
    simp [eat_cons, stmtsEnd, h1, h2]

/-! ## statements -/

/-- the next token is not `else` -/
def NoElse (rest : List Tok) : Prop := eatId b!"else" rest = none

theorem stmtsEnd_noElse {rest : List Tok} (h : stmtsEnd rest = true) : NoElse rest := by
  unfold NoElse
  cases rest with
  | nil => rfl
  | cons t r =>
    cases t with
    | id s =>
      simp only [stmtsEnd, Bool.or_eq_true, beq_iff_eq] at h
      rw [eatId_cons]
      rcases h with h | h <;> (subst h; rfl)
    | _ => rfl

theorem stmtsEnd_after {rest : List Tok} (h : stmtsEnd rest = true) : After 13 rest := by
  cases rest with
  | nil => exact After.nil _
  | cons t r =>
    cases t with
    | id s => exact after_of_none rfl _ _
    | p s =>
      simp only [stmtsEnd, beq_iff_eq] at h
      subst h
      exact after_of_none rfl _ _
    | num _ => exact after_of_none rfl _ _
    | str _ => exact after_of_none rfl _ _

theorem tkS_pos : ∀ s : PS, 0 < (tkS s).length
  | .expr e => by simp [tkS]
  | .var _ => by simp [tkS]
  | .ifS _ _ => by simp [tkS]
  | .ifElse _ _ _ => by simp [tkS]
  | .block _ => by simp [tkS]
  | .forVar _ _ _ _ => by simp [tkS]
  | .switchS _ _ => by simp [tkS]
  | .ret _ => by simp [tkS]
  | .brk => by simp [tkS]
  | .dbg => by simp [tkS]

/-- a statement begins neither with `}` / `case` / `default` nor with `else` -/
theorem stmt_start (s : PS) (w : WfS s) (x : List Tok) : stmtsEnd (tkS s ++ x) = false ∧ NoElse (tkS s ++ x) := by
  cases s with
  | expr e =>
    simp only [WfS] at w
    have := expr_dispatch e w.1 w.2 ([.p b!";"] ++ x)
    simp only [tkS, List.append_assoc]
    refine ⟨this.2.2.2.2.2.2.2.2, ?_⟩
    obtain ⟨r, hr⟩ := tk_head e
    unfold NoElse
    rw [hr]
    cases ht : headTok e with
    | id s =>
      have := headTok_idok e w.1 s ht
      simp only [isStmtKw, Bool.or_eq_false_iff, beq_eq_false_iff_ne, ne_eq] at this
      simp [eatId_cons, this]
    | _ => rfl
  | _ => simp [tkS, stmtsEnd, NoElse, eatId_cons]

theorem clauses_end (cs : PClauses) {rest : List Tok} (h : stmtsEnd rest = true) : stmtsEnd (tkCs cs ++ rest) = true := by
  cases cs with
  | nil => simpa [tkCs] using h
  | case _ _ _ => simp [tkCs, stmtsEnd]
  | dflt _ _ => simp [tkCs, stmtsEnd]

/-- the next token is neither `case` nor `default` -/
def ClEnd (rest : List Tok) : Prop := eatId b!"case" rest = none ∧ eatId b!"default" rest = none

mutual
  theorem stmt_rt : ∀ (s : PS), WfS s → ∀ (n : Nat), (tkS s).length < n → ∀ (rest : List Tok),
      (closed s = false → NoElse rest) → stmtN n (tkS s ++ rest) = some (s, rest)
    | .expr e, w, n, hn, rest, _ => by
      cases n with
      | zero => omega
      | succ n =>
        simp only [WfS] at w
        obtain ⟨h1, h2, h3, h4, h5, h6, h7, h8, _⟩ := expr_dispatch e w.1 w.2 ([.p b!";"] ++ rest)
        unfold stmtN
        simp only [tkS, List.append_assoc] at h1 h2 h3 h4 h5 h6 h7 h8 ⊢
        rw [h1, h2, h3, h4, h5, h6, h7, h8]
        simp only [List.cons_append, List.nil_append]
        rw [exprP_rt e w.1 _ (after_p rfl _ _)]
        simp
    | .var ds, w, n, hn, rest, _ => by
      cases n with
      | zero => omega
      | succ n =>
        simp only [WfS] at w
        have := decls_rt ds w.1 w.2 (.p b!";" :: rest) rfl (after_p rfl _ _)
        unfold stmtN
        simp only [tkS, List.cons_append, List.append_assoc, List.nil_append, eat_id, eatId_self, this, eat_self]
    | .ifS c t, w, n, hn, rest, hr => by
      cases n with
      | zero => omega
      | succ n =>
        simp only [WfS] at w
        simp only [tkS, List.length_cons, List.length_append] at hn
        have ne : NoElse rest := hr rfl
        have it := stmt_rt t w.2 n (by omega) rest (fun _ => ne)
        unfold stmtN
        simp only [tkS, List.cons_append, List.append_assoc, eat_id, eatId_cons, eat_self, show ¬ (b!"if" : Bytes) = b!"var" by decide, if_false, if_true]
        rw [exprP_rt c w.1 _ (after_p rfl _ _)]
        simp only [eat_self, it]
        unfold NoElse at ne
        simp [ne]
    | .ifElse c t e, w, n, hn, rest, hr => by
      cases n with
      | zero => omega
      | succ n =>
        simp only [WfS] at w
        simp only [tkS, List.length_cons, List.length_append] at hn
        have it := stmt_rt t w.2.1 n (by omega) (.id b!"else" :: (tkS e ++ rest)) (fun h => by rw [w.2.2.1] at h; cases h)
        have ie := stmt_rt e w.2.2.2 n (by omega) rest (fun h => hr (by simpa [closed] using h))
        unfold stmtN
        simp only [tkS, List.cons_append, List.append_assoc, eat_id, eatId_cons, eat_self, show ¬ (b!"if" : Bytes) = b!"var" by decide, if_false, if_true]
        rw [exprP_rt c w.1 _ (after_p rfl _ _)]
        simp only [eat_self, it, eatId_self, ie]
    | .block ss, w, n, hn, rest, _ => by
      cases n with
      | zero => omega
      | succ n =>
        simp only [WfS] at w
        simp only [tkS, List.length_cons, List.length_append, List.length_nil] at hn
        have := stmts_rt ss w n (by omega) (.p b!"}" :: rest) rfl
        unfold stmtN
        simp only [tkS, List.cons_append, List.append_assoc, List.nil_append, eat_self, this]
    | .forVar ds test upd body, w, n, hn, rest, hr => by
      cases n with
      | zero => omega
      | succ n =>
        simp only [WfS] at w
        simp only [tkS, List.length_cons, List.length_append] at hn
        have hd := decls_rt ds w.1 w.2.1 (.p b!";" :: (tk test ++ .p b!";" :: (tkExprs upd ++ .p b!")" :: (tkS body ++ rest))))
          rfl (after_p rfl _ _)
        have hu := exprs_rt upd w.2.2.2.1 w.2.2.2.2.1 (.p b!")" :: (tkS body ++ rest)) rfl (after_p rfl _ _)
        have ib := stmt_rt body w.2.2.2.2.2 n (by omega) rest (fun h => hr (by simpa [closed] using h))
        unfold stmtN
        simp only [tkS, List.cons_append, List.append_assoc, eat_id, eatId_cons, eat_self, show ¬ (b!"for" : Bytes) = b!"var" by decide, show ¬ (b!"for" : Bytes) = b!"if" by decide, if_false, if_true,
          hd, eat_self]
        rw [exprP_rt test w.2.2.1 _ (after_p rfl _ _)]
        simp only [eat_self, hu, ib]
    | .switchS e cs, w, n, hn, rest, _ => by
      cases n with
      | zero => omega
      | succ n =>
        simp only [WfS] at w
        simp only [tkS, List.length_cons, List.length_append, List.length_nil] at hn
        have ic := clauses_rt cs w.2 n (by have := tk_pos e; omega) (.p b!"}" :: rest) rfl ⟨rfl, rfl⟩
        unfold stmtN
        simp only [tkS, List.cons_append, List.append_assoc, List.nil_append, eat_id, eatId_cons, eat_self, show ¬ (b!"switch" : Bytes) = b!"var" by decide, show ¬ (b!"switch" : Bytes) = b!"if" by decide,
          show ¬ (b!"switch" : Bytes) = b!"for" by decide, if_false, if_true]
        rw [exprP_rt e w.1 _ (after_p rfl _ _)]
        simp only [eat_self, ic]
    | .ret e, w, n, hn, rest, _ => by
      cases n with
      | zero => omega
      | succ n =>
        simp only [WfS] at w
        unfold stmtN
        simp only [tkS, List.cons_append, List.append_assoc, List.nil_append, eat_id, eatId_cons, show ¬ (b!"return" : Bytes) = b!"var" by decide, show ¬ (b!"return" : Bytes) = b!"if" by decide,
          show ¬ (b!"return" : Bytes) = b!"for" by decide, show ¬ (b!"return" : Bytes) = b!"switch" by decide, if_false, if_true]
        rw [exprP_rt e w _ (after_p rfl _ _)]
        simp
    | .brk, _, n, hn, rest, _ => by
      cases n with
      | zero => omega
      | succ n =>
        unfold stmtN
        simp [tkS, eatId_cons]
    | .dbg, _, n, hn, rest, _ => by
      cases n with
      | zero => omega
      | succ n =>
        unfold stmtN
        simp [tkS, eatId_cons]
  theorem stmts_rt : ∀ (ss : PStmts), WfSs ss → ∀ (n : Nat), (tkSs ss).length + 1 < n → ∀ (rest : List Tok),
      stmtsEnd rest = true → stmtsN n (tkSs ss ++ rest) = some (ss, rest)
    | .nil, _, n, hn, rest, hr => by
      cases n with
      | zero => omega
      | succ n => simp [stmtsN, tkSs, hr]
    | .cons s r, w, n, hn, rest, hr => by
      cases n with
      | zero => omega
      | succ n =>
        simp only [WfSs] at w
        simp only [tkSs, List.length_append] at hn
        have hp := tkS_pos s
        have hne : NoElse (tkSs r ++ rest) := by
          cases r with
          | nil => simpa [tkSs] using stmtsEnd_noElse hr
          | cons s' r' =>
            simp only [WfSs] at w
            simp only [tkSs, List.append_assoc]
            exact (stmt_start s' w.2.1 _).2
        have is := stmt_rt s w.1 n (by omega) (tkSs r ++ rest) (fun _ => hne)
        have ir := stmts_rt r w.2 n (by omega) rest hr
        unfold stmtsN
        simp only [tkSs, List.append_assoc, (stmt_start s w.1 _).1, Bool.false_eq_true, if_false, is, ir]
  theorem clauses_rt : ∀ (cs : PClauses), WfCs cs → ∀ (n : Nat), (tkCs cs).length + 1 < n → ∀ (rest : List Tok),
      stmtsEnd rest = true → ClEnd rest → clausesN n (tkCs cs ++ rest) = some (cs, rest)
    | .nil, _, n, hn, rest, _, hc => by
      cases n with
      | zero => omega
      | succ n => simp [clausesN, tkCs, hc.1, hc.2]
    | .case e body r, w, n, hn, rest, hr, hc => by
      cases n with
      | zero => omega
      | succ n =>
        simp only [WfCs] at w
        simp only [tkCs, List.length_cons, List.length_append] at hn
        have hp := tk_pos e
        have ib := stmts_rt body w.2.1 n (by omega) (tkCs r ++ rest) (clauses_end r hr)
        have ir := clauses_rt r w.2.2 n (by omega) rest hr hc
        unfold clausesN
        simp only [tkCs, List.cons_append, List.append_assoc, eatId_self]
        rw [exprP_rt e w.1 _ (after_p rfl _ _)]
        simp only [eat_self, ib, ir]
    | .dflt body r, w, n, hn, rest, hr, hc => by
      cases n with
      | zero => omega
      | succ n =>
        simp only [WfCs] at w
        simp only [tkCs, List.length_cons, List.length_append] at hn
        have ib := stmts_rt body w.1 n (by omega) (tkCs r ++ rest) (clauses_end r hr)
        have ir := clauses_rt r w.2 n (by omega) rest hr hc
        unfold clausesN
        simp only [tkCs, List.cons_append, List.append_assoc, eatId_cons, eat_self, show ¬ (b!"default" : Bytes) = b!"case" by decide, if_false, if_true, ib, ir]
end

/-- the whole token list of a well-formed statement list -/
theorem parseStmts_tk (ss : PStmts) (w : WfSs ss) : parseStmts (tkSs ss) = some ss := by
  have := stmts_rt ss w ((tkSs ss).length + 2) (by omega) [] rfl
  simp only [List.append_nil] at this
  simp [parseStmts, this]

/-! ## function definitions and programs -/

def tkParamsTail : List Bytes → List Tok
  | [] => [.p b!")"]
  | x :: r => .p b!"," :: .id x :: tkParamsTail r

def tkParams : List Bytes → List Tok
  | [] => [.p b!")"]
  | x :: r => .id x :: tkParamsTail r

def tkTop : PTop → List Tok
  | .func name ps body =>
    tk name ++ (.p b!"=" :: .id b!"function" :: .p b!"(" :: (tkParams ps ++ .p b!"{" :: (tkSs body ++ [.p b!"}", .p b!";"])))
  | .stmt s => tkS s

def tkTops : List PTop → List Tok
  | [] => []
  | x :: r => tkTop x ++ tkTops r

/-- a dotted name -/
def isQ : PE → Bool
  | .ident g => !isReserved g
  | .member x _ => isQ x
  | _ => false

def WfTop : PTop → Prop
  | .func name ps body => isQ name = true ∧ (∀ x ∈ ps, isReserved x = false) ∧ WfSs body
  | .stmt s => WfS s ∧ ∃ kw r, tkS s = .id kw :: r ∧ isReserved kw = true

theorem qname_loop : ∀ (x : PE), isQ x = true → ∀ (rest : List Tok), qnameP (tk x ++ rest) = some (qnameTail x rest)
  | .ident g, h, rest => by
    simp only [isQ, Bool.not_eq_true'] at h
    simp [tk, qnameP, h]
  | .member x k, h, rest => by
    simp only [isQ] at h
    have := qname_loop x h (.p b!"." :: .id k :: rest)
    simp only [tk, List.append_assoc, List.cons_append, List.nil_append]
    rw [this]
    conv => lhs; unfold qnameTail
    simp
  | .null, h, _ => by simp [isQ] at h
  | .bool _, h, _ => by simp [isQ] at h
  | .num _, h, _ => by simp [isQ] at h
  | .str _, h, _ => by simp [isQ] at h
  | .obj _, h, _ => by simp [isQ] at h
  | .paren _, h, _ => by simp [isQ] at h
  | .index _ _, h, _ => by simp [isQ] at h
  | .call _ _, h, _ => by simp [isQ] at h
  | .postInc _, h, _ => by simp [isQ] at h
  | .unary _ _, h, _ => by simp [isQ] at h
  | .bin _ _ _, h, _ => by simp [isQ] at h
  | .cond _ _ _, h, _ => by simp [isQ] at h
  | .assign _ _ _, h, _ => by simp [isQ] at h

theorem qnameP_rt (x : PE) (h : isQ x = true) (rest : List Tok) :
    qnameP (tk x ++ .p b!"=" :: rest) = some (x, .p b!"=" :: rest) := by
  rw [qname_loop x h]
  cases rest with
  | nil => simp [qnameTail]
  | cons t r =>
    cases t <;> simp [qnameTail]

theorem paramsTail_rt : ∀ (ps : List Bytes) (rest : List Tok), (∀ x ∈ ps, isReserved x = false) →
    paramsTail (tkParamsTail ps ++ rest) = some (ps, rest)
  | [], rest, _ => by
    simp only [tkParamsTail, List.cons_append, List.nil_append]
    unfold paramsTail
    simp
  | x :: r, rest, h => by
    have ih := paramsTail_rt r rest (fun y hy => h y (List.mem_cons_of_mem _ hy))
    simp only [tkParamsTail, List.cons_append]
    unfold paramsTail
    simp [h x (List.mem_cons_self ..), ih]

theorem paramsP_rt (ps : List Bytes) (rest : List Tok) (h : ∀ x ∈ ps, isReserved x = false) :
    paramsP (tkParams ps ++ rest) = some (ps, rest) := by
  cases ps with
  | nil => simp [tkParams, paramsP]
  | cons x r =>
    simp [tkParams, paramsP, h x (List.mem_cons_self ..), paramsTail_rt r rest (fun y hy => h y (List.mem_cons_of_mem _ hy))]

theorem topN_rt (x : PTop) (w : WfTop x) (n : Nat) (hn : (tkTop x).length + 1 < n) (rest : List Tok) (hne : NoElse rest) :
    topN n (tkTop x ++ rest) = some (x, rest) := by
  cases x with
  | func name ps body =>
    simp only [WfTop] at w
    simp only [tkTop, List.length_append, List.length_cons] at hn
    have hb := stmts_rt body w.2.2 n (by simp at hn; omega) (.p b!"}" :: .p b!";" :: rest) rfl
    unfold topN
    simp only [tkTop, List.append_assoc, List.cons_append, List.nil_append]
    rw [qnameP_rt name w.1]
    simp only [funcRest, eat_self, eatId_self, paramsP_rt ps _ w.2.1, hb]
  | stmt s =>
    simp only [WfTop] at w
    obtain ⟨ws, kw, r, hk, hr⟩ := w
    have := stmt_rt s ws n (by simp only [tkTop] at hn; omega) rest (fun _ => hne)
    unfold topN
    simp only [tkTop]
    rw [this]
    simp [hk, qnameP, hr]

theorem tkTop_pos (x : PTop) : 0 < (tkTop x).length := by
  cases x with
  | func name ps body => simp [tkTop]; omega
  | stmt s => exact tkS_pos s

theorem isQ_head : ∀ (x : PE), isQ x = true → ∃ g, headTok x = .id g ∧ isReserved g = false
  | .ident g, h => ⟨g, rfl, by simpa [isQ] using h⟩
  | .member x _, h => isQ_head x (by simpa [isQ] using h)
  | .null, h => by simp [isQ] at h
  | .bool _, h => by simp [isQ] at h
  | .num _, h => by simp [isQ] at h
  | .str _, h => by simp [isQ] at h
  | .obj _, h => by simp [isQ] at h
  | .paren _, h => by simp [isQ] at h
  | .index _ _, h => by simp [isQ] at h
  | .call _ _, h => by simp [isQ] at h
  | .postInc _, h => by simp [isQ] at h
  | .unary _ _, h => by simp [isQ] at h
  | .bin _ _ _, h => by simp [isQ] at h
  | .cond _ _ _, h => by simp [isQ] at h
  | .assign _ _ _, h => by simp [isQ] at h

/-- no SourceElement begins with `else` -/
theorem tops_noElse : ∀ (xs : List PTop), (∀ x ∈ xs, WfTop x) → NoElse (tkTops xs)
  | [], _ => rfl
  | x :: r, h => by
    have w := h x (List.mem_cons_self ..)
    cases x with
    | func name ps body =>
      simp only [WfTop] at w
      obtain ⟨t, ht⟩ := tk_head name
      obtain ⟨g, hg, hr⟩ := isQ_head name w.1
      simp only [tkTops, tkTop, List.append_assoc, ht, hg, List.cons_append, NoElse, eatId_cons]
      have : g ≠ b!"else" := by intro e; subst e; revert hr; decide
      simp [this]
    | stmt s =>
      simp only [WfTop] at w
      simp only [tkTops, tkTop]
      exact (stmt_start s w.1 _).2

theorem progN_rt (n : Nat) : ∀ (xs : List PTop) (k : Nat), (∀ x ∈ xs, WfTop x ∧ (tkTop x).length + 1 < n) → xs.length ≤ k →
    progN n k (tkTops xs) = some xs
  | [], k, _, _ => by cases k <;> rfl
  | x :: r, k, h, hk => by
    cases k with
    | zero => simp at hk
    | succ k =>
      obtain ⟨w, hn⟩ := h x (List.mem_cons_self ..)
      have ih := progN_rt n r k (fun y hy => h y (List.mem_cons_of_mem _ hy)) (by simpa using hk)
      have ht := topN_rt x w n hn (tkTops r) (tops_noElse r (fun y hy => (h y (List.mem_cons_of_mem _ hy)).1))
      have hp := tkTop_pos x
      cases hx : tkTop x with
      | nil => rw [hx] at hp; simp at hp
      | cons t ts =>
        rw [hx] at ht
        simp only [List.cons_append] at ht
        simp only [tkTops, hx, List.cons_append, progN, ht, ih]

theorem tkTops_len_le : ∀ (xs : List PTop) (x : PTop), x ∈ xs → (tkTop x).length ≤ (tkTops xs).length
  | y :: r, x, h => by
    simp only [tkTops, List.length_append]
    rcases List.mem_cons.mp h with rfl | h
    · omega
    · have := tkTops_len_le r x h; omega

theorem tkTops_count : ∀ (xs : List PTop), xs.length ≤ (tkTops xs).length
  | [] => by simp [tkTops]
  | x :: r => by
    have := tkTops_count r
    have := tkTop_pos x
    simp only [tkTops, List.length_append, List.length_cons]
    omega

/-- the whole token list of a well-formed program -/
theorem parseProgram_tk (xs : List PTop) (w : ∀ x ∈ xs, WfTop x) : parseProgram (tkTops xs) = some xs := by
  unfold parseProgram
  exact progN_rt _ xs _ (fun x hx => ⟨w x hx, by have := tkTops_len_le xs x hx; omega⟩) (tkTops_count xs)

end SoyVerif.Lemmas.JsParseStmt
