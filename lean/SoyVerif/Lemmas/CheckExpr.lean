/-
  The checker's walk over expressions visits exactly the reference keys `Spec.exprKeys`
  (expressions bind nothing, so one environment serves all of them).
-/
import SoyVerif.Lemmas.CheckResolve

namespace SoyVerif.Lemmas.Check
open SoyVerif SoyVerif.Model SoyVerif.Model.Check SoyVerif.Spec

theorem KeysBound_nil (params : List Bytes) (env : Env) : KeysBound params env [] ↔ True := by
  simp [KeysBound]

theorem KeysBound_append (params : List Bytes) (env : Env) (a b : List Bytes) :
    KeysBound params env (a ++ b) ↔ KeysBound params env a ∧ KeysBound params env b := by
  simp only [KeysBound, List.mem_append]
  constructor
  · intro h
    exact ⟨fun k hk => h k (Or.inl hk), fun k hk => h k (Or.inr hk)⟩
  · rintro ⟨h1, h2⟩ k (hk | hk)
    · exact h1 k hk
    · exact h2 k hk

theorem KeysBound_cons (params : List Bytes) (env : Env) (k : Bytes) (b : List Bytes) :
    KeysBound params env (k :: b) ↔ KeysBound params env [k] ∧ KeysBound params env b :=
  KeysBound_append params env [k] b

theorem refsKeys_nil (params : List Bytes) (env : Env) : refsKeys params env [] = [] := rfl

theorem refsKeys_append (params : List Bytes) (env : Env) (a b : List Bytes) :
    refsKeys params env (a ++ b) = refsKeys params env a ++ refsKeys params env b := by
  simp [refsKeys]

theorem refsKeys_cons (params : List Bytes) (env : Env) (k : Bytes) (b : List Bytes) :
    refsKeys params env (k :: b) = refsKeys params env [k] ++ refsKeys params env b :=
  refsKeys_append params env [k] b

theorem LoopsOk_nil (env : Env) : LoopsOk env [] ↔ True := by simp [LoopsOk]

theorem LoopsOk_append (env : Env) (a b : List LoopOcc) :
    LoopsOk env (a ++ b) ↔ LoopsOk env a ∧ LoopsOk env b := by
  simp only [LoopsOk, List.mem_append]
  constructor
  · intro h
    exact ⟨fun k hk => h k (Or.inl hk), fun k hk => h k (Or.inr hk)⟩
  · rintro ⟨h1, h2⟩ k (hk | hk)
    · exact h1 k hk
    · exact h2 k hk

theorem LoopsOk_single (env : Env) (o : LoopOcc) : LoopsOk env [o] ↔ LoopArgOk env o := by
  simp [LoopsOk]

theorem ExprsOk_nil (params : List Bytes) (env : Env) : ExprsOk params env [] [] ↔ True := by
  simp [ExprsOk, KeysBound_nil, LoopsOk_nil]

theorem ExprsOk_append (params : List Bytes) (env : Env) (a b : List Bytes) (l m : List LoopOcc) :
    ExprsOk params env (a ++ b) (l ++ m) ↔ ExprsOk params env a l ∧ ExprsOk params env b m := by
  simp only [ExprsOk, KeysBound_append, LoopsOk_append]
  constructor
  · rintro ⟨⟨h1, h2⟩, h3, h4⟩
    exact ⟨⟨h1, h3⟩, h2, h4⟩
  · rintro ⟨⟨h1, h3⟩, h2, h4⟩
    exact ⟨⟨h1, h2⟩, h3, h4⟩

/-- `m` visits the keys `ks` and the loop-function occurrences `ls` -/
def FramedKeys (params : List Bytes) (m : C Unit) (ks : List Bytes) (ls : List LoopOcc) : Prop :=
  Framed m (fun env => ExprsOk params env ks ls) (fun env => refsKeys params env ks) []

section
variable {params : List Bytes}

theorem FramedKeys.nil : FramedKeys params (pure ()) [] [] :=
  Framed.pure.congr (fun env => ExprsOk_nil params env) (fun _ => rfl)

theorem FramedKeys.seq {a b : C Unit} {ks ks' : List Bytes} {ls ls' : List LoopOcc}
    (ha : FramedKeys params a ks ls) (hb : FramedKeys params b ks' ls') :
    FramedKeys params (a >>= fun _ => b) (ks ++ ks') (ls ++ ls') :=
  (Framed.seq ha hb).congr
    (fun env => by simp [ExprsOk_append])
    (fun env => by simp [refsKeys_append])

theorem FramedKeys.inScope {a : C Unit} {ks : List Bytes} {ls : List LoopOcc}
    (ha : FramedKeys params a ks ls) : FramedKeys params (inScope a) ks ls := Framed.inScope ha

theorem FramedKeys.visitKey (k : Bytes) : FramedKeys params (visitKey params k) [k] [] :=
  (Framed.visitKey params k).congr (fun env => by simp [ExprsOk, LoopsOk_nil]) (fun _ => rfl)

/-- the check a function node adds before its arguments are visited -/
theorem FramedKeys.loopCheck (name : Bytes) (args : ExprList) :
    FramedKeys params (if Check.loopFn name then checkLoopFunc args else pure ()) []
      (if Check.loopFn name then [(name, args)] else []) := by
  cases Check.loopFn name with
  | false => exact FramedKeys.nil
  | true =>
    exact (Framed.checkLoopFunc name args).congr
      (fun env => by simp [ExprsOk, KeysBound_nil, LoopsOk_single]) (fun _ => rfl)

theorem FramedKeys.of_eq {a : C Unit} {ks ks' : List Bytes} {ls : List LoopOcc}
    (ha : FramedKeys params a ks ls) (h : ks = ks') : FramedKeys params a ks' ls := h ▸ ha

mutual
  theorem framed_expr : (e : Expr) → FramedKeys params (checkExpr params e) (exprKeys e) (exprLoops e)
    | .null _ => by simpa only [checkExpr, exprKeys, exprLoops] using FramedKeys.nil
    | .bool _ _ => by simpa only [checkExpr, exprKeys, exprLoops] using FramedKeys.nil
    | .int _ _ => by simpa only [checkExpr, exprKeys, exprLoops] using FramedKeys.nil
    | .float _ _ => by simpa only [checkExpr, exprKeys, exprLoops] using FramedKeys.nil
    | .str _ _ _ => by simpa only [checkExpr, exprKeys, exprLoops] using FramedKeys.nil
    | .global _ _ => by simpa only [checkExpr, exprKeys, exprLoops] using FramedKeys.nil
    | .func _ name args => by
      simpa only [checkExpr, exprKeys, exprLoops, List.nil_append] using
        (FramedKeys.loopCheck name args).seq (framed_exprs args)
    | .list _ items => by simpa only [checkExpr, exprKeys, exprLoops] using framed_exprs items
    | .map _ items => by simpa only [checkExpr, exprKeys, exprLoops] using framed_mapItems items
    | .not _ a => by simpa only [checkExpr, exprKeys, exprLoops] using framed_expr a
    | .neg _ a => by simpa only [checkExpr, exprKeys, exprLoops] using framed_expr a
    | .bin _ _ a b => by
      simpa only [checkExpr, exprKeys, exprLoops] using (framed_expr a).seq (framed_expr b)
    | .tern _ c a b => by
      simpa only [checkExpr, exprKeys, exprLoops] using (framed_expr c).seq ((framed_expr a).seq (framed_expr b))
    | .dataRef _ key acc => by
      simp only [checkExpr, exprKeys, exprLoops]
      exact (FramedKeys.visitKey key).seq (framed_accesses acc).inScope
  theorem framed_exprs : (es : ExprList) → FramedKeys params (checkExprs params es) (exprsKeys es) (exprsLoops es)
    | .nil => by simpa only [checkExprs, exprsKeys, exprsLoops] using FramedKeys.nil
    | .cons e r => by
      simpa only [checkExprs, exprsKeys, exprsLoops] using (framed_expr e).seq (framed_exprs r)
  theorem framed_mapItems : (ms : MapItems) → FramedKeys params (checkMapItems params ms) (mapKeys ms) (mapLoops ms)
    | .nil => by simpa only [checkMapItems, mapKeys, mapLoops] using FramedKeys.nil
    | .cons _ e r => by
      simpa only [checkMapItems, mapKeys, mapLoops] using (framed_expr e).seq (framed_mapItems r)
  theorem framed_accesses : (as : AccessList) → FramedKeys params (checkAccesses params as) (accessKeys as) (accessLoops as)
    | .nil => by simpa only [checkAccesses, accessKeys, accessLoops] using FramedKeys.nil
    | .cons (.expr _ _ e) r => by
      simpa only [checkAccesses, accessKeys, accessLoops] using (framed_expr e).seq (framed_accesses r)
    | .cons (.key _ _ _) r => by
      simpa only [checkAccesses, accessKeys, accessLoops] using FramedKeys.nil.seq (framed_accesses r)
    | .cons (.index _ _ _) r => by
      simpa only [checkAccesses, accessKeys, accessLoops] using FramedKeys.nil.seq (framed_accesses r)
end

theorem framed_optExpr : (e : Option Expr) → FramedKeys params (checkOptExpr params e) (optKeys e) (optLoops e)
  | none => by simpa only [checkOptExpr, optKeys, optLoops] using FramedKeys.nil
  | some e => by simpa only [checkOptExpr, optKeys, optLoops] using framed_expr e

theorem framed_exprList : (es : List Expr) → FramedKeys params (checkExprList params es) (listKeys es) (listLoops es)
  | [] => by simpa only [checkExprList, listKeys, listLoops] using FramedKeys.nil
  | e :: r => by simpa only [checkExprList, listKeys, listLoops] using (framed_expr e).seq (framed_exprList r)

theorem framed_dirs (reg : List Check.Template) :
    (ds : List Directive) → FramedKeys params (checkDirs reg params ds) (dirsKeys ds) (dirsLoops ds)
  | [] => by simpa only [checkDirs, dirsKeys, dirsLoops] using FramedKeys.nil
  | d :: r => by
    simpa only [checkDirs, dirsKeys, dirsLoops] using (framed_exprList d.args).inScope.seq (framed_dirs reg r)

end

end SoyVerif.Lemmas.Check
