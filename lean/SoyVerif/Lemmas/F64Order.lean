/-
  `float64(i)` is exact and order-preserving on the integers of magnitude ≤ 2^53 — proved from the
  definitions of Base/F64.lean: `roundRatMag n 1` does not round when `n < 2^53` (the quotient has at
  most 53 bits and the remainder is 0), the magnitude bits it assembles are strictly increasing in `n`,
  and the IEEE order of the soft-float is the order of the sign·magnitude keys (`F64.key`).
  This discharges the hypothesis `OrdExact` of the expression refinement (Props/C01.lean).
-/
import SoyVerif.Base.F64

set_option linter.unusedSimpArgs false
set_option linter.unusedVariables false

namespace SoyVerif.F64

/-- no rounding below 2^53: exponent field and fraction of the integer `n` with `2^t ≤ n < 2^(t+1)` -/
theorem roundRatMag_int (n t : Nat) (ht : Nat.log2 n = t) (h52 : t ≤ 52) (hlo : 2 ^ t ≤ n) (hhi : n < 2 ^ (t + 1)) :
    roundRatMag n 1 = (t + 1022) * two52 + n * 2 ^ (52 - t) := by
  have hl1 : Nat.log2 1 = 0 := by decide
  have hP : 2 ^ t * 2 ^ (52 - t) = two52 := by
    rw [← Nat.pow_add]; have : t + (52 - t) = 52 := by omega
    rw [this]; rfl
  have hq_lo : two52 ≤ n * 2 ^ (52 - t) := by rw [← hP]; exact Nat.mul_le_mul_right _ hlo
  have hq_hi : n * 2 ^ (52 - t) < 2 * two52 := by
    have : 2 ^ (t + 1) * 2 ^ (52 - t) = 2 * two52 := by
      rw [Nat.pow_succ, Nat.mul_comm (2 ^ t) 2, Nat.mul_assoc, hP]
    rw [← this]; exact Nat.mul_lt_mul_of_pos_right hhi (Nat.pow_pos (by decide))
  unfold roundRatMag
  simp only [ht, hl1]
  have he1 : (if (t : Int) - ((0 : Nat) : Int) - 52 < -1074 then (-1074 : Int) else (t : Int) - ((0 : Nat) : Int) - 52) = (t : Int) - 52 := by
    split <;> omega
  simp only [he1]
  have hexp : ((t : Int) - 52 + 1074).toNat = t + 1022 := by omega
  have hinf : ¬ infMag ≤ (t + 1022) * two52 + n * 2 ^ (52 - t) := by
    have : (t + 1022) * two52 ≤ 1074 * two52 := Nat.mul_le_mul_right _ (by omega)
    simp only [infMag, two52] at *
    omega
  by_cases h : t = 52
  · have c1 : ¬ ((t : Int) - 52 < 0) := by omega
    have htn : ((t : Int) - 52).toNat = 0 := by omega
    have hpt : 2 ^ (52 - t) = 1 := by rw [h]
    rw [hpt, Nat.mul_one] at hq_lo hq_hi hinf
    rw [hpt, Nat.mul_one]
    simp only [c1, if_false, htn, Nat.pow_zero, Nat.mul_one, Nat.div_one]
    have c2 : ¬ (n < two52 ∧ (-1074 : Int) < (t : Int) - 52) := fun hh => by omega
    simp only [c2, if_false, c1, htn, Nat.pow_zero, Nat.mul_one, Nat.div_one, Nat.mod_one, hexp]
    simp [hinf]
  · have c1 : (t : Int) - 52 < 0 := by omega
    have htn : (-((t : Int) - 52)).toNat = 52 - t := by omega
    simp only [c1, if_true, htn, Nat.div_one]
    have c2 : ¬ (n * 2 ^ (52 - t) < two52 ∧ (-1074 : Int) < (t : Int) - 52) := fun hh => by omega
    simp only [c2, if_false, c1, if_true, htn, Nat.div_one, Nat.mod_one, hexp]
    simp [hinf]

theorem log2_facts (n : Nat) (h1 : 1 ≤ n) (h2 : n < two53) :
    Nat.log2 n ≤ 52 ∧ 2 ^ Nat.log2 n ≤ n ∧ n < 2 ^ (Nat.log2 n + 1) := by
  have hlo : 2 ^ Nat.log2 n ≤ n := Nat.log2_self_le (by omega)
  have hhi : n < 2 ^ (Nat.log2 n + 1) := Nat.lt_log2_self
  refine ⟨?_, hlo, hhi⟩
  apply Nat.le_of_not_lt
  intro h
  have : 2 ^ 53 ≤ 2 ^ Nat.log2 n := Nat.pow_le_pow_right (by decide) h
  have e : (2 : Nat) ^ 53 = two53 := rfl
  omega

/-- the magnitude bits of `float64(n)`, `0 ≤ n ≤ 2^53` -/
def magOfNat (n : Nat) : Nat := if n = 0 then 0 else roundRatMag n 1

theorem magOfNat_bounds (n : Nat) (h1 : 1 ≤ n) (h2 : n < two53) :
    (Nat.log2 n + 1023) * two52 ≤ magOfNat n ∧ magOfNat n < (Nat.log2 n + 1024) * two52 := by
  obtain ⟨h52, hlo, hhi⟩ := log2_facts n h1 h2
  have hm := roundRatMag_int n (Nat.log2 n) rfl h52 hlo hhi
  have hP : 2 ^ Nat.log2 n * 2 ^ (52 - Nat.log2 n) = two52 := by
    rw [← Nat.pow_add]; have : Nat.log2 n + (52 - Nat.log2 n) = 52 := by omega
    rw [this]; rfl
  have hq_lo : two52 ≤ n * 2 ^ (52 - Nat.log2 n) := by rw [← hP]; exact Nat.mul_le_mul_right _ hlo
  have hq_hi : n * 2 ^ (52 - Nat.log2 n) < 2 * two52 := by
    have : 2 ^ (Nat.log2 n + 1) * 2 ^ (52 - Nat.log2 n) = 2 * two52 := by
      rw [Nat.pow_succ, Nat.mul_comm (2 ^ Nat.log2 n) 2, Nat.mul_assoc, hP]
    rw [← this]; exact Nat.mul_lt_mul_of_pos_right hhi (Nat.pow_pos (by decide))
  unfold magOfNat
  rw [if_neg (by omega), hm]
  simp only [two52] at *
  omega

theorem magOfNat_two53 : magOfNat two53 = 1076 * two52 := by decide +kernel

/-- strictly increasing on 0 … 2^53 -/
theorem magOfNat_lt (a b : Nat) (hab : a < b) (hb : b ≤ two53) : magOfNat a < magOfNat b := by
  by_cases hb53 : b = two53
  · subst hb53
    rw [magOfNat_two53]
    by_cases ha0 : a = 0
    · subst ha0; simp [magOfNat, two52]
    · have := magOfNat_bounds a (by omega) hab
      have h52 := (log2_facts a (by omega) hab).1
      simp only [two52] at *
      omega
  · have hb' : b < two53 := by omega
    by_cases ha0 : a = 0
    · subst ha0
      have := (magOfNat_bounds b (by omega) hb').1
      simp only [magOfNat, if_true, two52] at *
      omega
    · have ha' : a < two53 := by omega
      obtain ⟨ha52, halo, hahi⟩ := log2_facts a (by omega) ha'
      obtain ⟨hb52, hblo, hbhi⟩ := log2_facts b (by omega) hb'
      have hba := magOfNat_bounds a (by omega) ha'
      have hbb := magOfNat_bounds b (by omega) hb'
      by_cases ht : Nat.log2 a = Nat.log2 b
      · -- same binade: the fractions are ordered
        unfold magOfNat
        rw [if_neg ha0, if_neg (by omega), roundRatMag_int a _ rfl ha52 halo hahi,
          roundRatMag_int b _ rfl hb52 hblo hbhi, ht]
        have : a * 2 ^ (52 - Nat.log2 b) < b * 2 ^ (52 - Nat.log2 b) :=
          Nat.mul_lt_mul_of_pos_right hab (Nat.pow_pos (by decide))
        omega
      · have hlt : Nat.log2 a < Nat.log2 b := by
          apply Nat.lt_of_le_of_ne _ ht
          apply Nat.le_of_not_lt
          intro h
          have : 2 ^ (Nat.log2 b + 1) ≤ 2 ^ Nat.log2 a := Nat.pow_le_pow_right (by decide) h
          omega
        simp only [two52] at *
        omega

theorem magOfNat_lt_iff (a b : Nat) (ha : a ≤ two53) (hb : b ≤ two53) : magOfNat a < magOfNat b ↔ a < b := by
  constructor
  · intro h
    apply Nat.lt_of_not_le
    intro hle
    rcases Nat.lt_or_eq_of_le hle with h1 | h1
    · have := magOfNat_lt b a h1 ha; omega
    · subst h1; omega
  · intro h; exact magOfNat_lt a b h hb

theorem magOfNat_lt_infMag (n : Nat) (h : n ≤ two53) : magOfNat n < infMag := by
  have h1 : magOfNat n ≤ magOfNat two53 := by
    rcases Nat.lt_or_eq_of_le h with h | h
    · exact Nat.le_of_lt (magOfNat_lt n two53 h (Nat.le_refl _))
    · rw [h]; exact Nat.le_refl _
  rw [magOfNat_two53] at h1
  simp only [infMag, two52] at *
  omega

/-! ### the key of `float64(i)` -/

theorem make_facts (s : Bool) (m : Nat) (hm : m < two63) :
    (make s m).sign = s ∧ (make s m).mag = m := by
  have hbits : (make s m).bits.toNat = (if s then two63 else 0) + m := by
    unfold make ofNatBits
    simp only [UInt64.toNat_ofNat']
    apply Nat.mod_eq_of_lt
    cases s <;> simp only [two63] at * <;> simp <;> omega
  constructor
  · unfold sign
    rw [hbits]
    cases s <;> simp only [two63] at * <;> simp <;> omega
  · unfold mag
    rw [hbits]
    cases s
    · simp only [Bool.false_eq_true, if_false, Nat.zero_add]; exact Nat.mod_eq_of_lt hm
    · simp only [if_true]; rw [Nat.add_mod_left]; exact Nat.mod_eq_of_lt hm

theorem ofInt_eq (x : Int) : ofInt x = make (decide (x < 0)) (magOfNat x.natAbs) := by
  unfold ofInt ofRat magOfNat
  by_cases h : x.natAbs = 0
  · simp [h]
  · simp [h]

/-- `float64(x)` for `|x| ≤ 2^53`: never NaN, and its key is `±magOfNat |x|` -/
theorem ofInt_key (x : Int) (hx : x.natAbs ≤ two53) :
    (ofInt x).isNaN = false ∧ (ofInt x).key = (if x < 0 then -(magOfNat x.natAbs : Int) else (magOfNat x.natAbs : Int)) := by
  have hinf := magOfNat_lt_infMag x.natAbs hx
  have h63 : magOfNat x.natAbs < two63 := by simp only [infMag, two63] at *; omega
  obtain ⟨hs, hm⟩ := make_facts (decide (x < 0)) (magOfNat x.natAbs) h63
  rw [ofInt_eq]
  constructor
  · unfold isNaN; rw [hm]; simp; omega
  · unfold key; rw [hs, hm]
    by_cases h : x < 0 <;> simp [h]

/-- THE statement: on the integers of magnitude ≤ 2^53 the soft-float order of `float64(·)` is the
    integer order -/
theorem ofInt_order (x y : Int) (hx : x.natAbs ≤ two53) (hy : y.natAbs ≤ two53) :
    lt (ofInt x) (ofInt y) = decide (x < y) ∧ le (ofInt x) (ofInt y) = decide (x ≤ y) := by
  obtain ⟨nx, kx⟩ := ofInt_key x hx
  obtain ⟨ny, ky⟩ := ofInt_key y hy
  have hxy := magOfNat_lt_iff x.natAbs y.natAbs hx hy
  have hyx := magOfNat_lt_iff y.natAbs x.natAbs hy hx
  have hx0 : x.natAbs = 0 → magOfNat x.natAbs = 0 := fun h => by simp [magOfNat, h]
  have hy0 : y.natAbs = 0 → magOfNat y.natAbs = 0 := fun h => by simp [magOfNat, h]
  have hxp : 0 < x.natAbs → 0 < magOfNat x.natAbs := fun h => by
    have := magOfNat_lt 0 x.natAbs h hx; simpa [magOfNat] using this
  have hyp : 0 < y.natAbs → 0 < magOfNat y.natAbs := fun h => by
    have := magOfNat_lt 0 y.natAbs h hy; simpa [magOfNat] using this
  have hlt : ((ofInt x).key < (ofInt y).key) ↔ x < y := by
    rw [kx, ky]
    by_cases h1 : x < 0 <;> by_cases h2 : y < 0 <;> simp only [h1, h2, if_true, if_false] <;> omega
  have hle : ((ofInt x).key ≤ (ofInt y).key) ↔ x ≤ y := by
    rw [kx, ky]
    by_cases h1 : x < 0 <;> by_cases h2 : y < 0 <;> simp only [h1, h2, if_true, if_false] <;> omega
  constructor
  · unfold lt; rw [nx, ny]; simp only [Bool.not_false, Bool.true_and]; exact decide_eq_decide.mpr hlt
  · unfold le; rw [nx, ny]; simp only [Bool.not_false, Bool.true_and]; exact decide_eq_decide.mpr hle

end SoyVerif.F64
