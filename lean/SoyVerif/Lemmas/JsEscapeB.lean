/-
  Lemmas for the proposed JavaScript string escaper (Model/JsEscape2.lean), part B:
  the escaper token by token, the round trip through the strict evaluator on well-formed
  UTF-8, and bytewise safety of the output for every input.
-/
import SoyVerif.Lemmas.JsEscapeA

namespace SoyVerif.Lemmas.JsEscapeB
open SoyVerif SoyVerif.Model SoyVerif.Spec SoyVerif.Lemmas.Utf8 SoyVerif.Lemmas.EscapeQuery SoyVerif.Lemmas.JsEscapeA

theorem esc_skip (p : Nat → Bool) (l t : Bytes) : jsEscapeFixedGo p l.length (l ++ t) = jsEscapeFixedGo p 0 t := by
  induction l with
  | nil => rfl
  | cons a l ih => simpa [jsEscapeFixedGo] using ih

theorem esc_ascii (p : Nat → Bool) (b : UInt8) (t : Bytes) (h : b < 0x80) :
    jsEscapeFixedGo p 0 (b :: t) = (if jsIsSpecial b then jsAsciiEsc2 b else [b]) ++ jsEscapeFixedGo p 0 t := by
  conv => lhs; unfold jsEscapeFixedGo
  cases hs : jsIsSpecial b <;> simp [hs, h]

/-- a multi-byte rune: `b0 :: c'` = its bytes, `r` its value -/
theorem esc_multi (p : Nat → Bool) (b0 : UInt8) (c' t : Bytes) (r : Nat)
    (hb : 128 ≤ b0.toNat) (hd : decodeRune (b0 :: (c' ++ t)) = (r, c'.length + 1)) (hl : 1 ≤ c'.length) :
    jsEscapeFixedGo p 0 (b0 :: (c' ++ t)) =
      (if r != 0x2028 && r != 0x2029 && p r then b0 :: c' else jsRuneEsc r) ++ jsEscapeFixedGo p 0 t := by
  have h80 : (0x80 : UInt8) ≤ b0 := UInt8.le_iff_toNat_le.2 (by simpa using hb)
  have hsp : jsIsSpecial b0 = true := by simp [jsIsSpecial, h80]
  have hlt : ¬ b0 < 0x80 := by simp [UInt8.lt_iff_toNat_lt]; omega
  have h1 : (c'.length + 1 == 1) = false := by apply beq_false_of_ne; omega
  have htk : (b0 :: (c' ++ t)).take (c'.length + 1) = b0 :: c' := by simp
  conv => lhs; unfold jsEscapeFixedGo
  simp only [hsp, hlt, hd, h1, htk, Bool.not_true, Bool.false_eq_true, if_false, Bool.and_false,
    Nat.add_sub_cancel, esc_skip]

theorem utf8Encode_ascii (b : UInt8) (h : b.toNat < 128) : utf8Encode b.toNat = [b] := by
  simp [utf8Encode, h]

/-- one well-formed sequence through escaper and evaluator -/
theorem roundtrip_seq (p : Nat → Bool) (c t : Bytes) (hc : wellFormedSeq c = true) :
    jsUnescapeGo 0 (jsEscapeFixedGo p 0 (c ++ t)) =
      (jsUnescapeGo 0 (jsEscapeFixedGo p 0 t)).map (c ++ ·) := by
  match c, hc with
  | [b], hc =>
    have hb : b.toNat < 128 := by
      simp only [wellFormedSeq, decide_eq_true_eq, UInt8.le_iff_toNat_le] at hc; simp at hc; omega
    have hlt : b < 0x80 := by simp [UInt8.lt_iff_toNat_lt]; omega
    simp only [List.singleton_append]
    rw [esc_ascii p b _ hlt]
    cases hs : jsIsSpecial b
    · simp only [Bool.false_eq_true, if_false, List.singleton_append]
      exact unesc_raw_ascii b _ hs
    · simp only [if_true, jsAsciiEsc2]
      by_cases h92 : b = 92
      · subst h92; exact unesc_named 92 _ (Or.inl rfl)
      by_cases h39 : b = 39
      · subst h39; exact unesc_named 39 _ (Or.inr (Or.inl rfl))
      by_cases h34 : b = 34
      · subst h34; exact unesc_named 34 _ (Or.inr (Or.inr rfl))
      simp only [h92, h39, h34, beq_iff_eq, if_false]
      rw [unesc_u4 _ _ (by omega) (by omega), utf8Encode_ascii b hb]; rfl
  | [b0, b1], hc =>
    obtain ⟨r, hd, he, h1, h2⟩ := decode2 b0 b1 t hc
    have hb0 : 128 ≤ b0.toNat := by
      simp only [wellFormedSeq, Bool.and_eq_true, decide_eq_true_eq, UInt8.le_iff_toNat_le] at hc
      have := hc.1.1; simp at this; omega
    have := esc_multi p b0 [b1] t r hb0 (by simpa using hd) (by simp)
    simp only [List.cons_append, List.nil_append] at this ⊢
    rw [this]
    split
    · exact unesc_raw2 b0 b1 _ hc
    · have : jsRuneEsc r = jsU4 r := by simp [jsRuneEsc]; omega
      rw [this, unesc_u4 _ _ (by omega) (by omega), he]; rfl
  | [b0, b1, b2], hc =>
    obtain ⟨r, hd, he, h1, h2, h3⟩ := decode3 b0 b1 b2 t hc
    have hb0 : 128 ≤ b0.toNat := by have := (wf3_facts b0 b1 b2 hc).1; omega
    have := esc_multi p b0 [b1, b2] t r hb0 (by simpa using hd) (by simp)
    simp only [List.cons_append, List.nil_append] at this ⊢
    rw [this]
    split
    · rename_i hraw
      simp only [Bool.and_eq_true, bne_iff_ne, ne_eq] at hraw
      apply unesc_raw3 b0 b1 b2 _ hc
      · intro e
        simp only [List.cons.injEq, and_true] at e
        obtain ⟨rfl, rfl, rfl⟩ := e
        have : decodeRune (0xE2 :: 0x80 :: 0xA8 :: t) = (0x2028, 3) := by simp [decodeRune, accept3, isCont]
        rw [this] at hd; simp at hd; exact hraw.1.1 hd.symm
      · intro e
        simp only [List.cons.injEq, and_true] at e
        obtain ⟨rfl, rfl, rfl⟩ := e
        have : decodeRune (0xE2 :: 0x80 :: 0xA9 :: t) = (0x2029, 3) := by simp [decodeRune, accept3, isCont]
        rw [this] at hd; simp at hd; exact hraw.1.2 hd.symm
    · have : jsRuneEsc r = jsU4 r := by simp [jsRuneEsc]; omega
      rw [this, unesc_u4 _ _ (by omega) h3, he]; rfl
  | [b0, b1, b2, b3], hc =>
    obtain ⟨r, hd, he, h1, h2⟩ := decode4 b0 b1 b2 b3 t hc
    have hb0 : 128 ≤ b0.toNat := by have := (wf4_facts b0 b1 b2 b3 hc).1; omega
    have := esc_multi p b0 [b1, b2, b3] t r hb0 (by simpa using hd) (by simp)
    simp only [List.cons_append, List.nil_append] at this ⊢
    rw [this]
    split
    · exact unesc_raw4 b0 b1 b2 b3 _ hc
    · have hgt : r > 0xFFFF := by omega
      simp only [jsRuneEsc, hgt, if_true]
      rw [unesc_pair _ _ _ (by omega) (by omega) (by omega) (by omega)]
      have : 0x10000 + (0xD800 + (r - 0x10000) / 1024 - 0xD800) * 1024 + (0xDC00 + (r - 0x10000) % 1024 - 0xDC00) = r := by omega
      rw [this, he]; rfl
  | [], hc => simp [wellFormedSeq] at hc
  | _ :: _ :: _ :: _ :: _ :: _, hc => simp [wellFormedSeq] at hc

theorem roundtrip (p : Nat → Bool) (s : Bytes) (hs : ValidUtf8 s) :
    jsUnescape (jsEscapeFixedWith p s) = some s := by
  unfold jsUnescape jsEscapeFixedWith
  induction hs with
  | nil => rfl
  | seq c t hc _ ih => rw [roundtrip_seq p c t hc, ih]; rfl

/-- what every token written by the escaper satisfies -/
def TokOk (X : Bytes) : Prop :=
  (∀ b ∈ X, jsByteSafe b = true) ∧ ∀ rest, jsQuotesEscapedGo false (X ++ rest) = jsQuotesEscapedGo false rest

theorem hexUpper_ok : ∀ n : Fin 16, jsByteSafe (hexUpper n.val) = true ∧ (hexUpper n.val == 92) = false ∧ (hexUpper n.val != 39) = true ∧ (hexUpper n.val != 34) = true := by
  decide

theorem tok_append {X Y : Bytes} (hx : TokOk X) (hy : TokOk Y) : TokOk (X ++ Y) := by
  refine ⟨fun b hb => ?_, fun rest => ?_⟩
  · rcases List.mem_append.1 hb with h | h
    · exact hx.1 b h
    · exact hy.1 b h
  · rw [List.append_assoc, hx.2, hy.2]

theorem tok_u4 (u : Nat) : TokOk (jsU4 u) := by
  have a := hexUpper_ok ⟨u / 4096 % 16, by omega⟩
  have b := hexUpper_ok ⟨u / 256 % 16, by omega⟩
  have c := hexUpper_ok ⟨u / 16 % 16, by omega⟩
  have d := hexUpper_ok ⟨u % 16, by omega⟩
  simp only at a b c d
  refine ⟨?_, fun rest => ?_⟩
  · intro x hx
    simp only [jsU4, hex4Upper, List.cons_append, List.nil_append, List.mem_cons, List.not_mem_nil, or_false] at hx
    rcases hx with rfl | rfl | rfl | rfl | rfl | rfl
    · decide
    · decide
    · exact a.1
    · exact b.1
    · exact c.1
    · exact d.1
  · obtain ⟨_, a92, a39, a34⟩ := a
    obtain ⟨_, b92, b39, b34⟩ := b
    obtain ⟨_, c92, c39, c34⟩ := c
    obtain ⟨_, d92, d39, d34⟩ := d
    simp [jsU4, hex4Upper, jsQuotesEscapedGo, a92, a39, a34, b92, b39, b34, c92, c39, c34, d92, d39, d34]

theorem tok_runeEsc (r : Nat) : TokOk (jsRuneEsc r) := by
  unfold jsRuneEsc
  split
  · exact tok_append (tok_u4 _) (tok_u4 _)
  · exact tok_u4 _

theorem tok_asciiEsc (c : UInt8) : TokOk (jsAsciiEsc2 c) := by
  unfold jsAsciiEsc2
  split
  · exact ⟨by decide, fun rest => by simp [jsQuotesEscapedGo]⟩
  · split
    · exact ⟨by decide, fun rest => by simp [jsQuotesEscapedGo]⟩
    · split
      · exact ⟨by decide, fun rest => by simp [jsQuotesEscapedGo]⟩
      · exact tok_u4 _

theorem tok_raw_ascii (c : UInt8) (h : jsIsSpecial c = false) : TokOk [c] := by
  simp only [jsIsSpecial, Bool.or_eq_false_iff, beq_eq_false_iff_ne, ne_eq, decide_eq_false_iff_not] at h
  obtain ⟨⟨⟨⟨⟨⟨⟨⟨h92, h39⟩, h34⟩, h60⟩, h62⟩, h38⟩, h61⟩, h32⟩, h80⟩ := h
  refine ⟨?_, fun rest => ?_⟩
  · intro b hb
    simp only [List.mem_cons, List.not_mem_nil, or_false] at hb
    subst hb
    simp only [jsByteSafe, Bool.and_eq_true, decide_eq_true_eq, bne_iff_ne, ne_eq]
    refine ⟨⟨⟨⟨?_, h60⟩, h62⟩, h38⟩, h61⟩
    simp only [UInt8.lt_iff_toNat_lt, UInt8.le_iff_toNat_le] at h32 ⊢; simp at h32 ⊢; omega
  · simp [jsQuotesEscapedGo, h92, h39, h34]

/-- raw bytes ≥ 0x80 -/
theorem tok_high (l : Bytes) (h : ∀ b ∈ l, 128 ≤ b.toNat) : TokOk l := by
  induction l with
  | nil => exact ⟨by simp, fun rest => rfl⟩
  | cons a l ih =>
    have ha := h a (by simp)
    have hl := ih (fun b hb => h b (by simp [hb]))
    have n92 : a ≠ 92 := by rintro rfl; simp at ha
    have n39 : a ≠ 39 := by rintro rfl; simp at ha
    have n34 : a ≠ 34 := by rintro rfl; simp at ha
    refine ⟨fun b hb => ?_, fun rest => ?_⟩
    · rcases List.mem_cons.1 hb with rfl | hb
      · have n60 : b ≠ 60 := by rintro rfl; simp at ha
        have n62 : b ≠ 62 := by rintro rfl; simp at ha
        have n38 : b ≠ 38 := by rintro rfl; simp at ha
        have n61 : b ≠ 61 := by rintro rfl; simp at ha
        simp only [jsByteSafe, Bool.and_eq_true, decide_eq_true_eq, bne_iff_ne, ne_eq]
        refine ⟨⟨⟨⟨?_, n60⟩, n62⟩, n38⟩, n61⟩
        simp only [UInt8.le_iff_toNat_le]; simp; omega
      · exact hl.1 b hb
    · simp [jsQuotesEscapedGo, n92, n39, n34, hl.2]

theorem bytes_safe (p : Nat → Bool) : ∀ (s : Bytes) (k : Nat), TokOk (jsEscapeFixedGo p k s) := by
  intro s
  induction s with
  | nil => intro k; cases k <;> exact ⟨by simp [jsEscapeFixedGo], fun rest => by simp [jsEscapeFixedGo]⟩
  | cons c r ih =>
    intro k
    cases k with
    | succ k => simpa [jsEscapeFixedGo] using ih k
    | zero =>
      unfold jsEscapeFixedGo
      cases hs : jsIsSpecial c
      · simp only [Bool.not_false, if_true]
        exact tok_append (X := [c]) (tok_raw_ascii c hs) (ih 0)
      · simp only [Bool.not_true, Bool.false_eq_true, if_false]
        by_cases hlt : c < 0x80
        · simp only [hlt, if_true]
          exact tok_append (tok_asciiEsc c) (ih 0)
        · simp only [hlt, if_false]
          refine tok_append ?_ (ih _)
          split
          · exact tok_u4 _
          · split
            · obtain ⟨_, h1, hcont⟩ := decodeRune_high c r hlt
              have : (c :: r).take (decodeRune (c :: r)).2 = c :: r.take ((decodeRune (c :: r)).2 - 1) := by
                obtain ⟨n, hn⟩ : ∃ n, (decodeRune (c :: r)).2 = n + 1 := ⟨(decodeRune (c :: r)).2 - 1, by omega⟩
                rw [hn]; simp
              rw [this]
              apply tok_high
              intro b hb
              rcases List.mem_cons.1 hb with rfl | hb
              · simp only [UInt8.lt_iff_toNat_lt] at hlt; simp at hlt; omega
              · have := (isCont_iff b).1 (List.all_eq_true.1 hcont b hb); omega
            · exact tok_runeEsc _

theorem isLineSep_ne (b : UInt8) (X : Bytes) (h : b ≠ 0xE2) : isLineSep (b :: X) = false := by
  match X with
  | [] => simp [isLineSep]
  | [x] => simp [isLineSep]
  | x :: y :: _ => simp [isLineSep, h]

theorem noLineSep_append (l X : Bytes) (h : ∀ b ∈ l, b ≠ 0xE2) : noLineSep (l ++ X) = noLineSep X := by
  induction l with
  | nil => rfl
  | cons a l ih =>
    have ha := h a (by simp)
    simp only [List.cons_append, noLineSep, isLineSep_ne a _ ha, Bool.not_false, Bool.true_and]
    exact ih (fun b hb => h b (by simp [hb]))

theorem hexUpper_ne_E2 : ∀ n : Fin 16, hexUpper n.val ≠ 0xE2 := by decide

theorem noE2_u4 (u : Nat) : ∀ b ∈ jsU4 u, b ≠ 0xE2 := by
  intro x hx
  simp only [jsU4, hex4Upper, List.cons_append, List.nil_append, List.mem_cons, List.not_mem_nil, or_false] at hx
  rcases hx with rfl | rfl | rfl | rfl | rfl | rfl
  · decide
  · decide
  · exact hexUpper_ne_E2 ⟨u / 4096 % 16, by omega⟩
  · exact hexUpper_ne_E2 ⟨u / 256 % 16, by omega⟩
  · exact hexUpper_ne_E2 ⟨u / 16 % 16, by omega⟩
  · exact hexUpper_ne_E2 ⟨u % 16, by omega⟩

theorem noE2_runeEsc (r : Nat) : ∀ b ∈ jsRuneEsc r, b ≠ 0xE2 := by
  unfold jsRuneEsc
  split
  · intro b hb
    rcases List.mem_append.1 hb with h | h <;> exact noE2_u4 _ b h
  · exact noE2_u4 _

theorem noE2_asciiEsc (c : UInt8) : ∀ b ∈ jsAsciiEsc2 c, b ≠ 0xE2 := by
  unfold jsAsciiEsc2
  split
  · decide
  · split
    · decide
    · split
      · decide
      · exact noE2_u4 _

theorem cont_ne_E2 (b : UInt8) (h : isCont b = true) : b ≠ 0xE2 := by
  rintro rfl; simp [isCont] at h

theorem lineSep_safe (p : Nat → Bool) : ∀ (s : Bytes) (k : Nat), noLineSep (jsEscapeFixedGo p k s) = true := by
  intro s
  induction s with
  | nil => intro k; cases k <;> simp [jsEscapeFixedGo, noLineSep]
  | cons c r ih =>
    intro k
    cases k with
    | succ k => simpa [jsEscapeFixedGo] using ih k
    | zero =>
      unfold jsEscapeFixedGo
      cases hs : jsIsSpecial c
      · simp only [Bool.not_false, if_true]
        have hc : c ≠ 0xE2 := by rintro rfl; simp [jsIsSpecial] at hs
        simp [noLineSep, isLineSep_ne c _ hc, ih 0]
      · simp only [Bool.not_true, Bool.false_eq_true, if_false]
        by_cases hlt : c < 0x80
        · simp only [hlt, if_true]
          rw [noLineSep_append _ _ (noE2_asciiEsc c)]; exact ih 0
        · simp only [hlt, if_false]
          split
          · rw [noLineSep_append _ _ (noE2_u4 _)]; exact ih _
          · split
            · rename_i hne hraw
              obtain ⟨_, h1, hcont⟩ := decodeRune_high c r hlt
              have htk : (c :: r).take (decodeRune (c :: r)).2 = c :: r.take ((decodeRune (c :: r)).2 - 1) := by
                obtain ⟨n, hn⟩ : ∃ n, (decodeRune (c :: r)).2 = n + 1 := ⟨(decodeRune (c :: r)).2 - 1, by omega⟩
                rw [hn]; simp
              have htail : ∀ b ∈ r.take ((decodeRune (c :: r)).2 - 1), b ≠ 0xE2 :=
                fun b hb => cont_ne_E2 b (List.all_eq_true.1 hcont b hb)
              rw [htk]
              simp only [List.cons_append, noLineSep]
              rw [noLineSep_append _ _ htail, ih _, Bool.and_true]
              by_cases hE2 : c = 0xE2
              · -- the rune starts with E2: it is a complete three-byte rune other than U+2028/9
                subst hE2
                simp only [Bool.and_eq_true, bne_iff_ne, ne_eq] at hraw
                match r, hne, hraw with
                | [], hne, _ => simp [decodeRune, runeError] at hne
                | [_], hne, _ => simp [decodeRune, runeError] at hne
                | b1 :: b2 :: t, hne, hraw =>
                  by_cases hacc : (accept3 0xE2 b1 && isCont b2) = true
                  · have hd : decodeRune (0xE2 :: b1 :: b2 :: t) = (8192 + (b1.toNat % 64) * 64 + b2.toNat % 64, 3) := by
                      simp [decodeRune, hacc]
                    rw [hd] at hraw ⊢
                    simp only [Nat.add_one_sub_one, List.take_succ_cons, List.take_zero, List.cons_append, List.nil_append]
                    simp only [isLineSep, List.take_succ_cons, List.take_zero, Bool.not_eq_true', Bool.or_eq_false_iff,
                      beq_eq_false_iff_ne, ne_eq, List.cons.injEq, true_and, and_true, not_and]
                    constructor
                    · rintro rfl rfl; exact hraw.1.1 (by decide)
                    · rintro rfl rfl; exact hraw.1.2 (by decide)
                  · have hd : decodeRune (0xE2 :: b1 :: b2 :: t) = (runeError, 1) := by
                      simp [decodeRune, hacc]
                    rw [hd] at hne; simp at hne
              · simp [isLineSep_ne c _ hE2]
            · rw [noLineSep_append _ _ (noE2_runeEsc _)]; exact ih _

end SoyVerif.Lemmas.JsEscapeB
