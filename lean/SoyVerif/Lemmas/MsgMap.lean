/-
  Go maps as association lists: `mapSet` on a fresh key appends, on an existing key
  rewrites in place; building a map from entries with distinct keys yields those entries;
  lookups in a map with distinct keys do not depend on the order of the entries.
-/
import SoyVerif.Model.Msg

namespace SoyVerif.Model.Msg

variable {κ ν : Type} [BEq κ] [LawfulBEq κ]

theorem mapSet_fresh {m : List (κ × ν)} {k : κ} {v : ν} (h : k ∉ m.map Prod.fst) :
    mapSet m k v = m ++ [(k, v)] := by
  unfold mapSet
  have : m.any (fun e => e.1 == k) = false := by
    rw [List.any_eq_false]
    intro x hx hk
    apply h
    have : x.1 = k := by simpa using hk
    exact this ▸ List.mem_map_of_mem hx
  simp [this]

/-- `m[k] = v` for a key that is present (keys distinct): the entry is rewritten in place. -/
theorem mapSet_present {l₁ l₂ : List (κ × ν)} {k : κ} {v₀ v : ν}
    (h₁ : k ∉ l₁.map Prod.fst) (h₂ : k ∉ l₂.map Prod.fst) :
    mapSet (l₁ ++ (k, v₀) :: l₂) k v = l₁ ++ (k, v) :: l₂ := by
  unfold mapSet
  have hany : (l₁ ++ (k, v₀) :: l₂).any (fun e => e.1 == k) = true := by simp
  have id_on : ∀ l : List (κ × ν), k ∉ l.map Prod.fst →
      l.map (fun e => if e.1 == k then (k, v) else e) = l := by
    intro l hl
    induction l with
    | nil => rfl
    | cons a l ih =>
      simp only [List.map_cons, List.mem_cons, not_or] at hl
      have hne : (a.1 == k) = false := by
        simp only [beq_eq_false_iff_ne, ne_eq]
        exact fun e => hl.1 e.symm
      simp [hne, ih hl.2]
  simp only [hany, if_true, List.map_append, List.map_cons, beq_self_eq_true, id_on l₁ h₁, id_on l₂ h₂]

/-- split a map at a key found by `lookup` -/
theorem lookup_split {m : List (κ × ν)} {k : κ} {v : ν} (h : m.lookup k = some v) :
    ∃ l₁ l₂, m = l₁ ++ (k, v) :: l₂ ∧ k ∉ l₁.map Prod.fst := by
  induction m with
  | nil => simp at h
  | cons a m ih =>
    obtain ⟨a1, a2⟩ := a
    rw [List.lookup_cons] at h
    by_cases hk : k = a1
    · subst hk
      simp at h
      exact ⟨[], m, by simp [h], by simp⟩
    · have : (k == a1) = false := by simpa using hk
      simp only [this] at h
      obtain ⟨l₁, l₂, e, hn⟩ := ih h
      refine ⟨(a1, a2) :: l₁, l₂, by simp [e], ?_⟩
      simp only [List.map_cons, List.mem_cons, not_or]
      exact ⟨hk, hn⟩

theorem lookup_none_of_not_mem {m : List (κ × ν)} {k : κ} (h : k ∉ m.map Prod.fst) :
    m.lookup k = none := by
  rw [List.lookup_eq_none_iff]
  intro p hp
  simp only [bne_iff_ne, ne_eq]
  intro hk
  exact h (hk ▸ List.mem_map_of_mem hp)

theorem not_mem_of_lookup_none {m : List (κ × ν)} {k : κ} (h : m.lookup k = none) :
    k ∉ m.map Prod.fst := by
  rw [List.lookup_eq_none_iff] at h
  intro hk
  obtain ⟨p, hp, rfl⟩ := List.mem_map.mp hk
  have := h p hp
  simp at this

theorem lookup_eq_some_iff {l : List (κ × ν)} (nd : (l.map Prod.fst).Nodup) {k : κ} {v : ν} :
    l.lookup k = some v ↔ (k, v) ∈ l := by
  induction l with
  | nil => simp
  | cons a l ih =>
    obtain ⟨a1, a2⟩ := a
    simp only [List.map_cons, List.nodup_cons] at nd
    rw [List.lookup_cons]
    by_cases hk : k = a1
    · subst hk
      simp only [beq_self_eq_true, Option.some.injEq, List.mem_cons, Prod.mk.injEq, true_and]
      constructor
      · intro e; exact Or.inl e.symm
      · rintro (e | hm)
        · exact e.symm
        · exact absurd (List.mem_map_of_mem (f := Prod.fst) hm) nd.1
    · have hb : (k == a1) = false := by simpa using hk
      simp only [hb, ih nd.2, List.mem_cons, Prod.mk.injEq, hk, false_and, false_or]

/-- With distinct keys the lookup does not depend on the order of the entries. -/
theorem lookup_perm {l l' : List (κ × ν)} (h : l.Perm l') (nd : (l.map Prod.fst).Nodup) (k : κ) :
    l.lookup k = l'.lookup k := by
  have nd' : (l'.map Prod.fst).Nodup := (h.map Prod.fst).nodup_iff.mp nd
  apply Option.ext
  intro v
  rw [lookup_eq_some_iff nd, lookup_eq_some_iff nd', h.mem_iff]

theorem lookup_append_left_of_not_mem {l₁ l₂ : List (κ × ν)} {k : κ} (h : k ∉ l₂.map Prod.fst) :
    (l₁ ++ l₂).lookup k = l₁.lookup k := by
  rw [List.lookup_append, lookup_none_of_not_mem h]
  simp

/-- Filling a map with entries whose keys are new and pairwise distinct appends them. -/
theorem foldl_mapSet_fresh {ε : Type} (f : ε → κ × ν) :
    ∀ (es : List ε) (m : List (κ × ν)),
      (m.map Prod.fst ++ es.map (fun e => (f e).1)).Nodup →
      es.foldl (fun m e => mapSet m (f e).1 (f e).2) m = m ++ es.map f
  | [], m, _ => by simp
  | e :: es, m, nd => by
    have hk : (f e).1 ∉ m.map Prod.fst := by
      intro hm
      have := (List.nodup_append.mp nd).2.2 _ hm (f e).1 (by simp)
      exact this rfl
    simp only [List.foldl_cons, mapSet_fresh hk]
    rw [foldl_mapSet_fresh f es (m ++ [f e])]
    · simp
    · simpa [List.append_assoc] using nd

/-- Step 4: setting fields through a map with distinct keys = one lookup per field. -/
theorem foldl_set_getElem? {ν : Type} :
    ∀ (es : List (Nat × ν)) (init : List ν) (i : Nat), (es.map Prod.fst).Nodup →
      (es.foldl (fun a e => a.set e.1 e.2) init)[i]? = (init[i]?).map (fun x => (es.lookup i).getD x)
  | [], init, i, _ => by simp
  | (k, v) :: es, init, i, nd => by
    simp only [List.map_cons, List.nodup_cons] at nd
    simp only [List.foldl_cons]
    rw [foldl_set_getElem? es (init.set k v) i nd.2, List.getElem?_set, List.lookup_cons]
    by_cases hik : k = i
    · subst hik
      have : es.lookup k = none := lookup_none_of_not_mem nd.1
      simp only [this, beq_self_eq_true, if_true]
      by_cases hl : k < init.length
      · simp [hl]
      · simp [hl]
    · have hb : (i == k) = false := by simpa using fun e => hik e.symm
      simp [hik, hb]

end SoyVerif.Model.Msg
