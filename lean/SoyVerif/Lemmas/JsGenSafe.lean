/-
  Every piece the generator writes for a well-named tree is well-shaped (the induction behind
  Props/C14.splices_safe and one_function_per_template).
-/
import SoyVerif.Lemmas.JsGenSpec
import SoyVerif.Lemmas.SUnfold

namespace SoyVerif.Lemmas.JsGenSafe
open SoyVerif SoyVerif.Model SoyVerif.Model.JsGen SoyVerif.Lemmas.JsGenSpec

/-! ## what a piece written inside a template body may be -/

/-- body level: no function header, no comment -/
def POk : Piece → Prop
  | .fixed _ => True
  | .escaped _ => True
  | .ident b => IsIdent b
  | .qname b => QChars b
  | .es6name b => QChars b
  | .int _ => True
  | .float _ => True
  | .header _ _ => False
  | .comment _ => False

def CalledOk (fc : List (Bytes × List Piece)) : Prop := ∀ kv ∈ fc, AllP POk kv.2

def Inv (s : St) : Prop := ScopeOk s.scope ∧ CalledOk s.funcsCalled

/-- the invariant, with the current value of `bufferName` named -/
def J (b : Bytes) (s : St) : Prop := Inv s ∧ s.bufferName = b

abbrev S {α : Type} (b b' : Bytes) (m : M α) (Q : α → Prop) : Prop := Spec POk (J b) (J b') m Q
abbrev SU (b : Bytes) (m : M Unit) : Prop := Spec POk (J b) (J b) m (fun _ => True)

theorem assocSet_ok : ∀ (fc : List (Bytes × List Piece)) (k : Bytes) (v : List Piece),
    CalledOk fc → AllP POk v → CalledOk (assocSet fc k v)
  | [], k, v, _, hv => by
    unfold assocSet
    intro kv hkv
    simp only [List.mem_singleton] at hkv
    subst hkv
    exact hv
  | (k', v') :: r, k, v, hf, hv => by
    unfold assocSet
    split
    · intro kv hkv
      rcases List.mem_cons.mp hkv with rfl | h
      · exact hv
      · exact hf kv (by simp [h])
    · intro kv hkv
      rcases List.mem_cons.mp hkv with rfl | h
      · exact hf _ (by simp)
      · exact assocSet_ok r k v (fun x hx => hf x (by simp [hx])) hv kv h

/-! ## primitives -/

section
variable {b : Bytes}

theorem s_fx (t : Bytes) : SU b (fx t) := Spec.emit (P := POk) trivial
theorem s_nl : SU b nl := s_fx _
theorem s_emit {p : Piece} (h : POk p) : SU b (emit p) := Spec.emit h
theorem s_emits {ps : List Piece} (h : AllP POk ps) : SU b (emits ps) := Spec.emits h

theorem s_indentP : SU b indentP := by
  intro s a ps s' hI hh
  simp only [indentP, Except.ok.injEq, Prod.mk.injEq] at hh
  obtain ⟨_, rfl, rfl⟩ := hh
  exact ⟨AllP.single POk trivial, hI, trivial⟩

theorem s_atNode (t : NodeTag) : SU b (atNode t) := Spec.modify (fun _ h => h)
theorem s_atOther : SU b atOther := s_atNode _
theorem s_incIndent : SU b incIndent := Spec.modify (fun _ h => h)
theorem s_decIndent : SU b decIndent := Spec.modify (fun _ h => h)
theorem s_pushScope : SU b pushScope := Spec.modify (fun _ h => ⟨⟨push_ok h.1.1, h.1.2⟩, h.2⟩)
theorem s_popScope : SU b popScope := Spec.modify (fun _ h => ⟨⟨pop_ok h.1.1, h.1.2⟩, h.2⟩)

theorem s_getBuf : S b b getBuf (· = b) := by
  intro s a ps s' hI hh
  simp only [getBuf, Except.ok.injEq, Prod.mk.injEq] at hh
  obtain ⟨rfl, rfl, rfl⟩ := hh
  exact ⟨AllP.nil POk, hI, hI.2⟩

theorem s_setBuf (b' : Bytes) : S b b' (setBuf b') (fun _ => True) :=
  Spec.modify (fun _ h => ⟨h.1, rfl⟩)

theorem s_getScope : S b b getScope ScopeOk := by
  intro s a ps s' hI hh
  simp only [getScope, Except.ok.injEq, Prod.mk.injEq] at hh
  obtain ⟨rfl, rfl, rfl⟩ := hh
  exact ⟨AllP.nil POk, hI, hI.1.1⟩

theorem s_setScope {sc : Scope} (h : ScopeOk sc) : SU b (setScope sc) :=
  Spec.modify (fun _ hI => ⟨⟨h, hI.1.2⟩, hI.2⟩)

theorem s_addCalled {k : Bytes} {v : List Piece} (h : AllP POk v) : SU b (addCalled k v) :=
  Spec.modify (fun _ hI => ⟨⟨hI.1.1, assocSet_ok _ k v hI.1.2 h⟩, hI.2⟩)

theorem s_addInFile (k : Bytes) : SU b (addInFile k) := Spec.modify (fun _ h => h)

theorem s_getSt : S b b getSt (J b) := Spec.getSt

theorem s_block {m : M Unit} (h : SU b m) : S b b (block m) (AllP POk) := by
  intro s a ps s' hI hh
  unfold block at hh
  cases h1 : m s with
  | error e => simp [h1] at hh
  | ok r =>
    obtain ⟨u, qs, s1⟩ := r
    simp only [h1, Except.ok.injEq, Prod.mk.injEq] at hh
    obtain ⟨rfl, rfl, rfl⟩ := hh
    have ⟨p1, j1, _⟩ := h _ _ _ _ hI h1
    exact ⟨AllP.nil POk, ⟨⟨hI.1.1, j1.1.2⟩, hI.2⟩, p1⟩

theorem s_fail {α : Type} {Q : α → Prop} {b' : Bytes} : S b b' (fail : M α) Q := Spec.fail
theorem s_pure : SU b (pure ()) := Spec.pure trivial

end

/-- one step of a `do` block -/
macro "mstep" : tactic => `(tactic| first
  | exact s_fx _
  | exact s_nl
  | exact s_indentP
  | exact s_atOther
  | exact s_atNode _
  | exact s_incIndent
  | exact s_decIndent
  | exact s_pushScope
  | exact s_popScope
  | exact s_pure
  | exact s_fail
  | exact s_emit trivial
  | exact s_addInFile _
  | assumption
  | apply Spec.seq
  | apply Spec.whenM)

macro "msteps" : tactic => `(tactic| repeat mstep)

/-! ## literal values -/

theorem assocGet_mem {β : Type} : ∀ (ws : List (Bytes × β)) (k : Bytes) (w : β), assocGet? ws k = some w → ∃ k', (k', w) ∈ ws
  | [], _, _, h => by simp [assocGet?] at h
  | (k', v') :: r, k, w, h => by
    unfold assocGet? at h
    split at h
    · simp only [Option.some.injEq] at h
      subst h
      exact ⟨k', by simp⟩
    · obtain ⟨k'', hk⟩ := assocGet_mem r k w h
      exact ⟨k'', by simp [hk]⟩

theorem s_orFail_assoc {b : Bytes} {ws : List (Bytes × M Unit)} (hw : ∀ kw ∈ ws, SU b kw.2) (k : Bytes) :
    SU b (orFail (assocGet? ws k)) := by
  cases h : assocGet? ws k with
  | none => exact s_fail
  | some w =>
    obtain ⟨k', hk'⟩ := assocGet_mem ws k w h
    exact hw (k', w) hk'

theorem s_orFail_idx {b : Bytes} {ws : List (M Unit)} (hw : ∀ w ∈ ws, SU b w) (i : Nat) :
    SU b (orFail ws[i]?) := by
  cases h : ws[i]? with
  | none => exact s_fail
  | some w => exact hw w (List.mem_of_getElem? h)

theorem s_walkKeys {b : Bytes} (ws : List (Bytes × M Unit)) (hw : ∀ kw ∈ ws, SU b kw.2) :
    ∀ (ks : List Bytes) (first : Bool), SU b (walkKeys ws ks first)
  | [], _ => by unfold walkKeys; exact s_pure
  | k :: r, first => by
    unfold walkKeys
    have ih := s_walkKeys ws hw r false
    have hget := s_orFail_assoc hw k
    msteps

section
variable (sk : List Bytes → List Bytes)

mutual
  theorem s_walkValue (b : Bytes) : ∀ v : Value, SU b (walkValue sk v)
    | .undefined => by unfold walkValue; exact s_fail
    | .null => by unfold walkValue; exact s_fx _
    | .bool _ => by unfold walkValue; exact s_fx _
    | .int _ => by unfold walkValue; exact s_emit trivial
    | .float _ => by unfold walkValue; exact s_emit trivial
    | .str _ => by unfold walkValue; msteps
    | .list _ xs => by
      unfold walkValue
      have := s_walkValues b xs true
      msteps
    | .map _ kvs => by
      unfold walkValue
      have := s_walkKeys (b := b) (valueWalkers sk kvs) (s_valueWalkers b kvs) (sk (kvs.map (·.1))) true
      msteps
  theorem s_walkValues (b : Bytes) : ∀ (xs : List Value) (first : Bool), SU b (walkValues sk xs first)
    | [], _ => by unfold walkValues; exact s_pure
    | v :: r, first => by
      unfold walkValues
      have := s_walkValue b v
      have := s_walkValues b r false
      msteps
  theorem s_valueWalkers (b : Bytes) : ∀ (kvs : List (Bytes × Value)), ∀ kw ∈ valueWalkers sk kvs, SU b kw.2
    | [] => by unfold valueWalkers; intro kw h; cases h
    | (k, v) :: r => by
      unfold valueWalkers
      intro kw h
      rcases List.mem_cons.mp h with rfl | h
      · exact s_walkValue b v
      · exact s_valueWalkers b r kw h
end

end

/-! ## well-named trees: what the lexer guarantees about the names in an expression -/

mutual
  def ExprWN : Expr → Prop
    | .dataRef _ key acc => IsIdent key ∧ AccessListWN acc
    | .func _ _ args => ExprListWN args
    | .list _ items => ExprListWN items
    | .map _ items => MapItemsWN items
    | .not _ a => ExprWN a
    | .neg _ a => ExprWN a
    | .bin _ _ a c => ExprWN a ∧ ExprWN c
    | .tern _ c a d => ExprWN c ∧ ExprWN a ∧ ExprWN d
    | .null _ => True
    | .bool _ _ => True
    | .int _ _ => True
    | .float _ _ => True
    | .str _ _ _ => True
    | .global _ _ => True
  def ExprListWN : ExprList → Prop
    | .nil => True
    | .cons e r => ExprWN e ∧ ExprListWN r
  def MapItemsWN : MapItems → Prop
    | .nil => True
    | .cons _ e r => ExprWN e ∧ MapItemsWN r
  def AccessWN : Access → Prop
    | .key _ _ k => IsIdent k
    | .index _ _ _ => True
    | .expr _ _ e => ExprWN e
  def AccessListWN : AccessList → Prop
    | .nil => True
    | .cons a r => AccessWN a ∧ AccessListWN r
end

theorem allP_tableImport (n : Bytes) : AllP POk (tableImport n) := by
  intro p hp
  simp only [tableImport, List.mem_cons, List.mem_nil_iff, or_false] at hp
  rcases hp with rfl | rfl | rfl | rfl | rfl <;> trivial

theorem allP_callImport {n : Bytes} (h : QChars n) : AllP POk (callImport n) := by
  intro p hp
  simp only [callImport, List.mem_cons, List.mem_nil_iff, or_false] at hp
  rcases hp with rfl | rfl | rfl | rfl | rfl
  · trivial
  · exact h
  · trivial
  · exact h
  · trivial

theorem pok_identOrEmpty {sc : Scope} (h : ScopeOk sc) (k : Bytes) : POk (identOrEmpty (sc.lookup k)) := by
  cases hl : sc.lookup k with
  | none => trivial
  | some g => exact lookup_ok h hl

theorem loopFrame_mem : ∀ (st : List Frame) (v : Bytes) (f : Frame), Scope.loopFrame st v = some f → f ∈ st
  | [], _, _, h => by simp [Scope.loopFrame] at h
  | g :: r, v, f, h => by
    unfold Scope.loopFrame at h
    split at h
    · simp only [Option.some.injEq] at h; subst h; simp
    · exact List.mem_cons_of_mem _ (loopFrame_mem r v f h)

theorem pok_frameGet {f : Frame} (hf : FrameOk f) (k : Bytes) : POk (identOrEmpty (frameGet? f k)) := by
  cases hl : frameGet? f k with
  | none => trivial
  | some g => exact (frameGet_ok f k g hf hl).1

/-- the last-iteration test is generator text around identifiers of the scope -/
theorem pok_looplast {sc : Scope} (h : ScopeOk sc) (v : Bytes) : AllP POk (looplast sc v) := by
  unfold looplast
  cases hf : Scope.loopFrame sc.stack v with
  | none => intro p hp; cases hp
  | some f =>
    have hfo : FrameOk f := h f (loopFrame_mem sc.stack v f hf)
    simp only
    cases hs : frameGet? f (Scope.kStep ++ v) with
    | some step =>
      intro p hp
      simp only [List.mem_cons, List.mem_nil_iff, or_false] at hp
      rcases hp with rfl | rfl | rfl | rfl | rfl | rfl | rfl
      · trivial
      · exact pok_frameGet hfo _
      · trivial
      · exact (frameGet_ok f _ step hfo hs).1
      · trivial
      · exact pok_frameGet hfo _
      · trivial
    | none =>
      intro p hp
      simp only [List.mem_cons, List.mem_nil_iff, or_false] at hp
      rcases hp with rfl | rfl | rfl | rfl | rfl
      · trivial
      · exact pok_frameGet hfo _
      · trivial
      · exact pok_frameGet hfo _
      · trivial

theorem s_applyParts {b : Bytes} {ws : List (M Unit)} (hw : ∀ w ∈ ws, SU b w) :
    ∀ parts : List Gen.JsFnPart, SU b (applyParts ws parts)
  | [] => by unfold applyParts; exact s_pure
  | .text t :: r => by
    unfold applyParts
    have := s_applyParts hw r
    msteps
  | .arg i :: r => by
    unfold applyParts
    have := s_applyParts hw r
    have := s_orFail_idx hw i
    msteps

theorem s_applyFn {b : Bytes} {ws : List (M Unit)} (hw : ∀ w ∈ ws, SU b w) (x : Option (Option (List Gen.JsFnPart))) :
    SU b (applyFn ws x) := by
  unfold applyFn
  split
  · exact s_applyParts hw _
  · exact s_fail

section
variable (sk : List Bytes → List Bytes) (o : Options)

theorem s_nullSafePrefix {b : Bytes} (ns : Bool) {expr : List Piece} (he : AllP POk expr) :
    SU b (whenM ns (do fx b!"("; emits expr; fx b!" == null) ? null : ")) := by
  have := s_emits (b := b) he
  msteps

mutual
  theorem s_walkExpr (b : Bytes) : ∀ e : Expr, ExprWN e → SU b (walkExpr sk o e)
    | .null _, _ => by unfold walkExpr; msteps
    | .bool _ _, _ => by unfold walkExpr; msteps
    | .int _ _, _ => by unfold walkExpr; msteps
    | .float _ _, _ => by unfold walkExpr; msteps
    | .str _ _ _, _ => by unfold walkExpr; msteps
    | .global _ name, _ => by
      unfold walkExpr
      refine Spec.seq s_atOther ?_
      split
      · exact s_walkValue sk b _
      · exact s_fail
    | .list _ items, h => by
      unfold walkExpr
      have := s_walkItems b items true (by simpa [ExprWN] using h)
      msteps
    | .map _ items, h => by
      unfold walkExpr
      have := s_walkKeys (b := b) (mapWalkers sk o items) (s_mapWalkers b items (by simpa [ExprWN] using h)) (sk (mapKeys items)) true
      msteps
    | .func _ name args, h => by
      unfold walkExpr
      refine Spec.seq s_atOther ?_
      split
      · rename_i f _
        have := s_applyFn (b := b) (s_argWalkers b args (by simpa [ExprWN] using h)) f.emit[args.length]?
        have := s_addCalled (b := b) (k := name) (allP_tableImport f.fnName)
        msteps
      · split
        · refine Spec.bind s_getScope ?_
          intro sc hsc
          have := s_emit (b := b) (pok_identOrEmpty hsc (Scope.kIndex ++ loopVarOf args))
          msteps
        · split
          · refine Spec.bind s_getScope ?_
            intro sc hsc
            exact s_emits (pok_looplast hsc (loopVarOf args))
          · split
            · refine Spec.bind s_getScope ?_
              intro sc hsc
              exact s_emit (pok_identOrEmpty hsc (Scope.kIndex ++ loopVarOf args))
            · exact s_fail
    | .dataRef _ key acc, h => by
      unfold walkExpr
      simp only [ExprWN] at h
      refine Spec.seq s_atOther ?_
      refine Spec.bind s_getScope ?_
      intro sc hsc
      have hv : SU b (visitAccess sk o acc (if key == b!"ij" then [.fixed b!"opt_ijData"]
          else match sc.lookup key with
            | some g => [.ident g]
            | none => [.fixed b!"opt_data.", .ident key])) := by
        apply s_visitAccess b acc h.2
        split
        · exact AllP.single POk trivial
        · split
          · rename_i g hg
            exact AllP.single POk (lookup_ok hsc hg)
          · exact AllP.cons POk trivial (AllP.single POk h.1)
      msteps
    | .not _ a, h => by
      unfold walkExpr
      have := s_walkExpr b a (by simpa [ExprWN] using h)
      msteps
    | .neg _ a, h => by
      unfold walkExpr
      have := s_walkExpr b a (by simpa [ExprWN] using h)
      msteps
    | .bin op _ a c, h => by
      unfold walkExpr
      simp only [ExprWN] at h
      have := s_walkExpr b a h.1
      have := s_walkExpr b c h.2
      split <;> msteps
    | .tern _ c a d, h => by
      unfold walkExpr
      simp only [ExprWN] at h
      have := s_walkExpr b c h.1
      have := s_walkExpr b a h.2.1
      have := s_walkExpr b d h.2.2
      msteps
  theorem s_walkItems (b : Bytes) : ∀ (l : ExprList) (first : Bool), ExprListWN l → SU b (walkItems sk o l first)
    | .nil, _, _ => by unfold walkItems; exact s_pure
    | .cons e r, first, h => by
      unfold walkItems
      simp only [ExprListWN] at h
      have := s_walkExpr b e h.1
      have := s_walkItems b r false h.2
      msteps
  theorem s_argWalkers (b : Bytes) : ∀ (l : ExprList), ExprListWN l → ∀ w ∈ argWalkers sk o l, SU b w
    | .nil, _ => by unfold argWalkers; intro w hw; cases hw
    | .cons e r, h => by
      unfold argWalkers
      simp only [ExprListWN] at h
      intro w hw
      rcases List.mem_cons.mp hw with rfl | hw
      · exact s_walkExpr b e h.1
      · exact s_argWalkers b r h.2 w hw
  theorem s_mapWalkers (b : Bytes) : ∀ (l : MapItems), MapItemsWN l → ∀ kw ∈ mapWalkers sk o l, SU b kw.2
    | .nil, _ => by unfold mapWalkers; intro w hw; cases hw
    | .cons k e r, h => by
      unfold mapWalkers
      simp only [MapItemsWN] at h
      intro w hw
      rcases List.mem_cons.mp hw with rfl | hw
      · exact s_walkExpr b e h.1
      · exact s_mapWalkers b r h.2 w hw
  theorem s_visitAccess (b : Bytes) : ∀ (acc : AccessList), AccessListWN acc → ∀ {expr : List Piece}, AllP POk expr →
      SU b (visitAccess sk o acc expr)
    | .nil, _, expr, he => by unfold visitAccess; exact s_emits he
    | .cons a r, h, expr, he => by
      unfold visitAccess
      simp only [AccessListWN] at h
      have hp := fun ns => s_nullSafePrefix (b := b) ns he
      split
      · refine Spec.seq (hp _) ?_
        exact s_visitAccess b r h.2 (AllP.append POk he (AllP.cons POk trivial (AllP.cons POk trivial (AllP.single POk trivial))))
      · refine Spec.seq (hp _) ?_
        simp only [AccessWN] at h
        exact s_visitAccess b r h.2 (AllP.append POk he (AllP.cons POk trivial (AllP.single POk h.1)))
      · refine Spec.seq (hp _) ?_
        simp only [AccessWN] at h
        refine Spec.bind (s_block (s_walkExpr b _ h.1)) ?_
        intro ps hps
        exact s_visitAccess b r h.2 (AllP.append POk (AllP.append POk (AllP.append POk he (AllP.single POk trivial)) hps) (AllP.single POk trivial))
end

end

/-! ## well-named trees: commands (file-level nodes do not occur inside bodies) -/

def DirsWN (dirs : List Directive) : Prop := ∀ d ∈ dirs, ∀ a ∈ d.args, ExprWN a
def OptExprWN : Option Expr → Prop
  | some e => ExprWN e
  | none => True

mutual
  def CmdWN : Cmd → Prop
    | .rawText _ _ => True
    | .print _ arg dirs => ExprWN arg ∧ DirsWN dirs
    | .msg _ _ _ _ _ body => PartsWN body
    | .css _ e _ => OptExprWN e
    | .debugger _ => True
    | .log _ body => BlockWN body
    | .ifc _ conds => CondsWN conds
    | .forc _ v list body ie => IsIdent v ∧ ExprWN list ∧ BlockWN body ∧
        (match ie with | some blk => BlockWN blk | none => True)
    | .switch _ value cases => ExprWN value ∧ CasesWN cases
    | .call _ name _ data params => QChars name ∧ OptExprWN data ∧ ParamsWN params
    | .letValue _ name e => IsIdent name ∧ ExprWN e
    | .letContent _ name body => IsIdent name ∧ BlockWN body
    | .headerParam _ _ _ _ _ _ => True
    | .namespace _ _ _ => False
    | .template _ _ _ _ _ => False
    | .soyDoc _ _ => False
  def BlockWN : Block → Prop
    | .mk _ cmds => CmdsWN cmds
  def CmdsWN : CmdList → Prop
    | .nil => True
    | .cons c r => CmdWN c ∧ CmdsWN r
  def CondsWN : CondList → Prop
    | .nil => True
    | .cons _ cond body rest => OptExprWN cond ∧ BlockWN body ∧ CondsWN rest
  def CasesWN : CaseList → Prop
    | .nil => True
    | .cons _ values body rest => (∀ v ∈ values, ExprWN v) ∧ BlockWN body ∧ CasesWN rest
  def ParamsWN : ParamList → Prop
    | .nil => True
    | .value _ key e rest => IsIdent key ∧ ExprWN e ∧ ParamsWN rest
    | .content _ key body rest => IsIdent key ∧ BlockWN body ∧ ParamsWN rest
  def PartsWN : MsgParts → Prop
    | .nil => True
    | .text _ _ r => PartsWN r
    | .ph _ _ body r => PhBodyWN body ∧ PartsWN r
    | .plural _ _ value cases _ dflt r => ExprWN value ∧ PluralCasesWN cases ∧ PartsWN dflt ∧ PartsWN r
  def PhBodyWN : MsgPhBody → Prop
    | .htmlTag _ _ => True
    | .cmd c => CmdWN c
  def PluralCasesWN : PluralCases → Prop
    | .nil => True
    | .cons _ _ _ body rest => PartsWN body ∧ PluralCasesWN rest
end

theorem s_writeRawText {b : Bytes} (hb : IsIdent b) (t : Bytes) : SU b (writeRawText t) := by
  unfold writeRawText
  refine Spec.seq s_indentP ?_
  refine Spec.bind s_getBuf ?_
  intro x hx
  subst hx
  have := s_emit (b := x) (p := .ident x) hb
  msteps

theorem collectDirs_sub : ∀ (dirs : List Directive) (c : Bool) (kept : List Directive),
    collectDirs dirs = some (c, kept) → ∀ d ∈ kept, d ∈ dirs
  | [], c, kept, h => by
    simp only [collectDirs, Option.some.injEq, Prod.mk.injEq] at h
    obtain ⟨_, rfl⟩ := h
    intro d hd; cases hd
  | d0 :: r, c, kept, h => by
    unfold collectDirs at h
    split at h
    · rename_i e c' kept' he hr
      simp only [Option.some.injEq, Prod.mk.injEq] at h
      obtain ⟨_, rfl⟩ := h
      intro d hd
      split at hd
      · exact List.mem_cons_of_mem _ (collectDirs_sub r c' kept' hr d hd)
      · rcases List.mem_cons.mp hd with rfl | hd
        · exact List.mem_cons_self
        · exact List.mem_cons_of_mem _ (collectDirs_sub r c' kept' hr d hd)
    · cases h

theorem withInputEscapes_mem : ∀ (kept : List Directive) (d : Directive),
    d ∈ withInputEscapes kept → d.args = [] ∨ d ∈ kept
  | [], d, h => by cases h
  | d0 :: r, d, h => by
    unfold withInputEscapes at h
    split at h
    · rcases List.mem_cons.mp h with rfl | h
      · exact Or.inl rfl
      · rcases List.mem_cons.mp h with rfl | h
        · exact Or.inr List.mem_cons_self
        · rcases withInputEscapes_mem r d h with h | h
          · exact Or.inl h
          · exact Or.inr (List.mem_cons_of_mem _ h)
    · rcases List.mem_cons.mp h with rfl | h
      · exact Or.inr List.mem_cons_self
      · rcases withInputEscapes_mem r d h with h | h
        · exact Or.inl h
        · exact Or.inr (List.mem_cons_of_mem _ h)

theorem printDirs_mem {ae : Autoescape} {c : Bool} {kept : List Directive} {d : Directive}
    (h : d ∈ printDirs ae c kept) : d.args = [] ∨ d ∈ kept := by
  unfold printDirs at h
  by_cases hc : ((if c then Autoescape.off else ae) != .off) = true
  · rw [if_pos hc] at h
    rcases List.mem_append.mp h with h | h
    · exact withInputEscapes_mem kept d h
    · rw [List.mem_singleton] at h; subst h; exact Or.inl rfl
  · rw [if_neg hc] at h
    exact withInputEscapes_mem kept d h

theorem findPh_mem {b : Bytes} (name : Bytes) : ∀ (phs : List (Nat × Bytes × M Unit)) (best : Option (Nat × M Unit)),
    (∀ e ∈ phs, SU b e.2.2) → (∀ x, best = some x → SU b x.2) → ∀ w, findPh name phs best = some w → SU b w
  | [], best, _, hb, w, h => by
    unfold findPh at h
    cases best with
    | none => simp at h
    | some x =>
      simp only [Option.map_some, Option.some.injEq] at h
      subst h
      exact hb x rfl
  | (d, n, w0) :: r, best, hp, hb, w, h => by
    unfold findPh at h
    have hr : ∀ e ∈ r, SU b e.2.2 := fun e he => hp e (by simp [he])
    have hw0 : SU b w0 := hp (d, n, w0) (by simp)
    split at h
    · split at h
      · split at h
        · exact findPh_mem name r _ hr (by intro x hx; cases hx; exact hw0) w h
        · exact findPh_mem name r _ hr hb w h
      · exact findPh_mem name r _ hr (by intro x hx; cases hx; exact hw0) w h
    · exact findPh_mem name r best hr hb w h

theorem plTable_wn : ∀ (body : MsgParts), PartsWN body → ∀ kv ∈ plTable body, ExprWN kv.2
  | .nil, _ => by unfold plTable; intro kv h; cases h
  | .text _ _ r, h => by unfold plTable; sunfoldh h PartsWN; exact plTable_wn r h
  | .ph _ _ _ r, h => by unfold plTable; sunfoldh h PartsWN; exact plTable_wn r h.2
  | .plural _ vn v _ _ _ r, h => by
    unfold plTable
    sunfoldh h PartsWN
    intro kv hkv
    rcases List.mem_cons.mp hkv with rfl | hkv
    · exact h.1
    · exact plTable_wn r h.2.2.2 kv hkv

theorem assocGet_mem' {β : Type} (ws : List (Bytes × β)) (k : Bytes) (w : β) (h : assocGet? ws k = some w) :
    ∃ k', (k', w) ∈ ws := assocGet_mem ws k w h

section
variable (sk : List Bytes → List Bytes) (o : Options)

theorem s_closeDirective {b : Bytes} (d : Directive) (h : ∀ a ∈ d.args, ExprWN a) : SU b (closeDirective sk o d) := by
  unfold closeDirective
  have h1 : SU b (seqM (d.args.map fun a => do fx b!","; walkExpr sk o a)) := by
    apply Spec.seqM
    intro m hm
    obtain ⟨a, ha, rfl⟩ := List.mem_map.mp hm
    have := s_walkExpr sk o b a (h a ha)
    msteps
  msteps

theorem s_visitPrint {b : Bytes} (hb : IsIdent b) (arg : Expr) (dirs : List Directive) (ha : ExprWN arg) (hd : DirsWN dirs) :
    SU b (visitPrint sk o arg dirs) := by
  unfold visitPrint
  refine Spec.bind s_getSt ?_
  intro s hs
  split
  · exact s_fail
  · rename_i cancel kept hc
    have hk : ∀ d ∈ kept, ∀ a ∈ d.args, ExprWN a := fun d hdk => hd d (collectDirs_sub dirs cancel kept hc d hdk)
    have h1 : SU b (whenM (isEs6 o) (seqM (kept.map fun d => addCalled d.name (tableImport (directiveJsName d.name))))) := by
      apply Spec.whenM
      apply Spec.seqM
      intro m hm
      obtain ⟨d, _, rfl⟩ := List.mem_map.mp hm
      exact s_addCalled (allP_tableImport _)
    have h2 : SU b (emit (.ident s.bufferName)) := s_emit (by rw [hs.2]; exact hb)
    have h3 := s_walkExpr sk o b arg ha
    have hds : ∀ (ds : List Directive), (∀ d ∈ ds, ∀ a ∈ d.args, ExprWN a) →
        SU b (seqM (ds.reverse.map fun d => do fx (directiveJsName d.name); fx b!"(")) ∧
        SU b (seqM (ds.map (closeDirective sk o))) := by
      intro ds hds
      constructor
      · apply Spec.seqM
        intro m hm
        obtain ⟨d, _, rfl⟩ := List.mem_map.mp hm
        msteps
      · apply Spec.seqM
        intro m hm
        obtain ⟨d, hdm, rfl⟩ := List.mem_map.mp hm
        exact s_closeDirective sk o d (hds d hdm)
    have ⟨h4, h5⟩ := hds (printDirs s.autoescape cancel kept) (by
      intro d hdm
      rcases printDirs_mem hdm with h | h
      · intro a ha'; rw [h] at ha'; cases ha'
      · exact hk d h)
    msteps

/-- evalMsgParts, given the walkers of the placeholders and the plural values -/
theorem s_evalMsg {b : Bytes} (hb : IsIdent b) (phs : List (Nat × Bytes × M Unit)) (pls : List (Bytes × Expr))
    (hp : ∀ e ∈ phs, SU b e.2.2) (hv : ∀ kv ∈ pls, ExprWN kv.2) :
    (∀ parts : MParts, SU b (evalMsgParts sk o phs pls parts)) ∧
    (∀ (cases : MCases) (i : Nat), SU b (evalCases sk o phs pls cases i)) := by
  have hph : ∀ name, SU b (orFail (findPh name phs none)) := by
    intro name
    cases h : findPh name phs none with
    | none => exact s_fail
    | some w => exact findPh_mem name phs none hp (by intro x hx; cases hx) w h
  have key : ∀ n : Nat,
      (∀ parts : MParts, sizeOf parts < n → SU b (evalMsgParts sk o phs pls parts)) ∧
      (∀ (cases : MCases) (i : Nat), sizeOf cases < n → SU b (evalCases sk o phs pls cases i)) := by
    intro n
    induction n with
    | zero => exact ⟨fun _ h => absurd h (Nat.not_lt_zero _), fun _ _ h => absurd h (Nat.not_lt_zero _)⟩
    | succ n ih =>
      constructor
      · intro parts hsz
        cases parts with
        | nil => unfold evalMsgParts; exact s_pure
        | cons p r =>
          unfold evalMsgParts
          have hr := ih.1 r (by simp only [MParts.cons.sizeOf_spec] at hsz; omega)
          refine Spec.seq (Q := fun _ => True) ?_ hr
          cases p with
          | raw t => exact s_writeRawText hb t
          | ph name => exact hph name
          | plural vn cases =>
            dsimp only
            split
            · exact s_fail
            · rename_i v hv'
              obtain ⟨k', hk'⟩ := assocGet_mem pls vn v hv'
              have h1 := s_walkExpr sk o b v (hv (k', v) hk')
              have h2 := ih.2 cases 0 (by simp only [MParts.cons.sizeOf_spec, MPart.plural.sizeOf_spec] at hsz; omega)
              msteps
      · intro cases i hsz
        cases cases with
        | nil => unfold evalCases; exact s_pure
        | cons parts rest =>
          unfold evalCases
          have h1 := ih.1 parts (by simp only [MCases.cons.sizeOf_spec] at hsz; omega)
          have h2 := ih.2 rest (i + 1) (by simp only [MCases.cons.sizeOf_spec] at hsz; omega)
          msteps
  exact ⟨fun parts => (key (sizeOf parts + 1)).1 parts (Nat.lt_succ_self _),
         fun cases i => (key (sizeOf cases + 1)).2 cases i (Nat.lt_succ_self _)⟩

theorem isRangeCall_wn {list : Expr} {args : ExprList} (h : isRangeCall list = some args) (hw : ExprWN list) :
    ExprListWN args := by
  cases list with
  | func p name a =>
    simp only [isRangeCall] at h
    split at h
    · simp only [Option.some.injEq] at h
      subst h
      simpa [ExprWN] using hw
    · cases h
  | _ => simp [isRangeCall] at h

theorem rangeIncr_wn : ∀ (args : ExprList), ExprListWN args → ExprWN (rangeIncr args)
  | .nil, _ => by simp [rangeIncr, litInt, ExprWN]
  | .cons _ .nil, _ => by simp [rangeIncr, litInt, ExprWN]
  | .cons _ (.cons _ .nil), _ => by simp [rangeIncr, litInt, ExprWN]
  | .cons _ (.cons _ (.cons c .nil)), h => by
    simp only [ExprListWN] at h
    simpa [rangeIncr] using h.2.2.1
  | .cons _ (.cons _ (.cons _ (.cons _ _))), _ => by simp [rangeIncr, litInt, ExprWN]

theorem rangeInit_wn : ∀ (args : ExprList), ExprListWN args → ExprWN (rangeInit args)
  | .nil, _ => by simp [rangeInit, litInt, ExprWN]
  | .cons _ .nil, _ => by simp [rangeInit, litInt, ExprWN]
  | .cons a (.cons _ .nil), h => by
    simp only [ExprListWN] at h
    simpa [rangeInit] using h.1
  | .cons a (.cons _ (.cons c .nil)), h => by
    simp only [ExprListWN] at h
    simpa [rangeInit] using h.1
  | .cons _ (.cons _ (.cons _ (.cons _ _))), _ => by simp [rangeInit, litInt, ExprWN]

theorem rangeLimit_wn : ∀ (args : ExprList), ExprListWN args → ∀ l, rangeLimit args = some l → ExprWN l
  | .nil, _, l, hl => by simp [rangeLimit] at hl
  | .cons a .nil, h, l, hl => by
    simp only [ExprListWN] at h
    simp only [rangeLimit, Option.some.injEq] at hl
    subst hl
    exact h.1
  | .cons _ (.cons c .nil), h, l, hl => by
    simp only [ExprListWN] at h
    simp only [rangeLimit, Option.some.injEq] at hl
    subst hl
    exact h.2.1
  | .cons _ (.cons c (.cons _ .nil)), h, l, hl => by
    simp only [ExprListWN] at h
    simp only [rangeLimit, Option.some.injEq] at hl
    subst hl
    exact h.2.1
  | .cons _ (.cons _ (.cons _ (.cons _ _))), _, l, hl => by simp [rangeLimit] at hl

theorem isIdent_underscore {b : Bytes} (h : IsIdent b) : IsIdent (b ++ b!"_") := h.append (by decide)

/-! ### one step lemma per node kind: the induction hypotheses are assumptions

   (`IH m` = "m is fine for every buffer name"; the recursion itself is the thin mutual block at
   the end — keeping tactic proofs out of the structurally recursive definitions.) -/

abbrev IH (m : M Unit) : Prop := ∀ b : Bytes, IsIdent b → SU b m

theorem rawText_step {b : Bytes} (hb : IsIdent b) (p : Nat) (t : Bytes) : SU b (walkCmd sk o (.rawText p t)) := by
  sunfold walkCmd
  exact Spec.seq s_atOther (s_writeRawText hb t)

theorem print_step {b : Bytes} (hb : IsIdent b) (p : Nat) (arg : Expr) (dirs : List Directive)
    (ha : ExprWN arg) (hd : DirsWN dirs) : SU b (walkCmd sk o (.print p arg dirs)) := by
  sunfold walkCmd
  exact Spec.seq s_atOther (s_visitPrint sk o hb arg dirs ha hd)

theorem msg_step {b : Bytes} (hb : IsIdent b) (p id : Nat) (m d : Bytes) (bp : Nat) (body : MsgParts)
    (hbody : PartsWN body) (ih : SU b (visitMsgNode sk o body))
    (iht : ∀ e ∈ phTable sk o body 0, SU b e.2.2) : SU b (walkCmd sk o (.msg p id m d bp body)) := by
  sunfold walkCmd
  have hm : SU b (match o.messages with
      | none => visitMsgNode sk o body
      | some bundle =>
        match lookupMsg bundle id with
        | none => visitMsgNode sk o body
        | some parts => evalMsgParts sk o (phTable sk o body 0) (plTable body) parts) := by
    split
    · exact ih
    · split
      · exact ih
      · exact (s_evalMsg sk o hb _ _ iht (plTable_wn body hbody)).1 _
  msteps

theorem css_step {b : Bytes} (hb : IsIdent b) (p : Nat) (e : Option Expr) (suffix : Bytes) (h : OptExprWN e) :
    SU b (walkCmd sk o (.css p e suffix)) := by
  sunfold walkCmd
  have h1 : SU b (match (generalizing := false) e with
      | some e => do
        indentP
        let b ← getBuf
        emit (.ident b); fx b!" += "; walkExpr sk o e; fx b!" + '-';"; nl
      | none => pure ()) := by
    cases e with
    | none => exact s_pure
    | some e' =>
      refine Spec.seq s_indentP ?_
      refine Spec.bind s_getBuf ?_
      intro x hx
      subst hx
      have := s_emit (b := x) (p := .ident x) hb
      have := s_walkExpr sk o x e' h
      msteps
  have h2 := s_writeRawText hb suffix
  msteps

theorem debugger_step {b : Bytes} (p : Nat) : SU b (walkCmd sk o (.debugger p)) := by
  sunfold walkCmd; msteps

theorem log_step {b : Bytes} (hb : IsIdent b) (p : Nat) (body : Block) (ih : IH (walkBlock sk o body)) :
    SU b (walkCmd sk o (.log p body)) := by
  sunfold walkCmd
  refine Spec.seq s_atOther ?_
  refine Spec.bind s_getBuf ?_
  intro x hx
  subst hx
  have hb' := isIdent_underscore hb
  refine Spec.seq (s_setBuf (x ++ b!"_")) ?_
  have e1 := s_emit (b := x ++ b!"_") (p := .ident (x ++ b!"_")) hb'
  refine Spec.seq s_indentP ?_
  refine Spec.seq (s_fx _) ?_
  refine Spec.seq e1 ?_
  refine Spec.seq (s_fx _) ?_
  refine Spec.seq s_nl ?_
  refine Spec.seq (ih _ hb') ?_
  refine Spec.bind s_getBuf ?_
  intro y hy
  subst hy
  refine Spec.seq s_indentP ?_
  refine Spec.seq (s_fx _) ?_
  refine Spec.seq e1 ?_
  refine Spec.seq (s_fx _) ?_
  refine Spec.seq s_nl ?_
  rw [List.dropLast_concat]
  exact s_setBuf x

theorem ifc_step {b : Bytes} (p : Nat) (conds : CondList) (ih : SU b (visitConds sk o conds true)) :
    SU b (walkCmd sk o (.ifc p conds)) := by
  sunfold walkCmd; msteps

set_option hygiene false in
/-- the part of the `for` / `foreach` proof that does not depend on `{ifempty}` -/
macro "forc_common" : tactic => `(tactic| (
  refine Spec.seq s_atOther ?_
  split
  · rename_i args hargs
    have ha := isRangeCall_wn hargs hl
    dsimp only
    refine Spec.bind (J := J b) (Q := AllP POk) ?_ ?_
    · split
      · rename_i l hlim
        exact s_block (s_walkExpr sk o b l (rangeLimit_wn args ha l hlim))
      · exact s_fail
    intro limitJs hlimit
    refine Spec.bind (s_block (s_walkExpr sk o b _ (rangeInit_wn args ha))) ?_
    intro initJs hinit
    refine Spec.bind (s_block (s_walkExpr sk o b _ (rangeIncr_wn args ha))) ?_
    intro incrJs hincr
    refine Spec.bind s_getScope ?_
    intro sc hsc
    have ⟨i1, i2, i3, i4, i5⟩ := pushForRange_ok hsc hv
    have := s_setScope (b := b) i5
    have e1 := s_emit (b := b) (p := .ident (sc.pushForRange v).1.1) i1
    have e2 := s_emit (b := b) (p := .ident (sc.pushForRange v).1.2.1) i2
    have e3 := s_emit (b := b) (p := .ident (sc.pushForRange v).1.2.2.1) i3
    have e4 := s_emit (b := b) (p := .ident (sc.pushForRange v).1.2.2.2) i4
    have := s_emits (b := b) hlimit
    have := s_emits (b := b) hinit
    have := s_emits (b := b) hincr
    have := hbody
    msteps
  · refine Spec.bind (s_block (s_walkExpr sk o b list hl)) ?_
    intro listJs hlist
    refine Spec.bind s_getScope ?_
    intro sc hsc
    have ⟨i1, i2, i3, i4, i5⟩ := pushForEach_ok hsc hv
    dsimp only
    have := s_setScope (b := b) i5
    have e1 := s_emit (b := b) (p := .ident (sc.pushForEach v).1.1) i1
    have e2 := s_emit (b := b) (p := .ident (sc.pushForEach v).1.2.1) i2
    have e3 := s_emit (b := b) (p := .ident (sc.pushForEach v).1.2.2.1) i3
    have e4 := s_emit (b := b) (p := .ident (sc.pushForEach v).1.2.2.2) i4
    have := s_emits (b := b) hlist
    have := hbody
    have := hie
    msteps))

set_option maxHeartbeats 1000000 in
theorem forc_step_none (b : Bytes) (p : Nat) (v : Bytes) (list : Expr) (body : Block)
    (hv : IsIdent v) (hl : ExprWN list) (hbody : SU b (walkBody sk o body)) :
    SU b (walkCmd sk o (.forc p v list body none)) := by
  sunfold walkCmd
  mred
  have hie : SU b (pure ()) := s_pure
  forc_common

set_option maxHeartbeats 1000000 in
theorem forc_step_some (b : Bytes) (p : Nat) (v : Bytes) (list : Expr) (body ie : Block)
    (hv : IsIdent v) (hl : ExprWN list) (hbody : SU b (walkBody sk o body)) (hie : SU b (walkBlock sk o ie)) :
    SU b (walkCmd sk o (.forc p v list body (some ie))) := by
  sunfold walkCmd
  mred
  forc_common

theorem switch_step {b : Bytes} (p : Nat) (value : Expr) (cases : CaseList) (hv : ExprWN value)
    (ih : SU b (visitCases sk o cases)) : SU b (walkCmd sk o (.switch p value cases)) := by
  sunfold walkCmd
  have := s_walkExpr sk o b value hv
  msteps

set_option hygiene false in
macro "call_common" : tactic => `(tactic| (
  refine Spec.seq s_atOther ?_
  have hdata : S b b (match (generalizing := false) data with
      | some e => block (walkExpr sk o e)
      | none => pure (if allData then [Piece.fixed b!"opt_data"] else [Piece.fixed b!"{}"])) (AllP POk) := by
    cases data with
    | some e => exact s_block (s_walkExpr sk o b e hd)
    | none =>
      refine Spec.pure ?_
      split <;> exact AllP.single POk trivial
  refine Spec.bind hdata ?_
  intro d0 hd0
  refine Spec.bind (J := J b) (Q := AllP POk) (hde0 d0 hd0) ?_
  intro dataExpr hde
  refine Spec.bind s_getBuf ?_
  intro x hx
  subst hx
  have := s_emit (b := x) (p := .ident x) hb
  have : SU x (emit (if isEs6 o = true then Piece.es6name name else Piece.qname name)) := by
    split <;> exact s_emit hn
  have := s_emits (b := x) hde
  have := s_addCalled (b := x) (k := es6Identifier name) (allP_callImport hn)
  msteps))

theorem call_step_nil {b : Bytes} (hb : IsIdent b) (p : Nat) (name : Bytes) (allData : Bool) (data : Option Expr)
    (hn : QChars name) (hd : OptExprWN data) : SU b (walkCmd sk o (.call p name allData data .nil)) := by
  sunfold walkCmd
  mred
  have hde0 : ∀ d0 : List Piece, AllP POk d0 → S b b (pure d0 : M (List Piece)) (AllP POk) := fun d0 h => Spec.pure h
  call_common

theorem call_step_value {b : Bytes} (hb : IsIdent b) (p : Nat) (name : Bytes) (allData : Bool) (data : Option Expr)
    (pp : Nat) (pk : Bytes) (pe : Expr) (pr : ParamList) (hn : QChars name) (hd : OptExprWN data)
    (ihp : ∀ (first : Bool) (acc : List Piece), AllP POk acc →
      S b b (visitParams sk o (.value pp pk pe pr) first acc) (AllP POk)) :
    SU b (walkCmd sk o (.call p name allData data (.value pp pk pe pr))) := by
  sunfold walkCmd
  mred
  have hde0 : ∀ d0 : List Piece, AllP POk d0 → S b b (do
      let acc ← visitParams sk o (.value pp pk pe pr) true ([Piece.fixed b!"soy.$$augmentMap("] ++ d0 ++ [Piece.fixed b!", {"])
      pure (acc ++ [Piece.fixed b!"})"])) (AllP POk) := by
    intro d0 hd0
    refine Spec.bind (ihp true _ (AllP.append POk (AllP.append POk (AllP.single POk trivial) hd0) (AllP.single POk trivial))) ?_
    intro acc hacc
    exact Spec.pure (AllP.append POk hacc (AllP.single POk trivial))
  call_common

theorem call_step_content {b : Bytes} (hb : IsIdent b) (p : Nat) (name : Bytes) (allData : Bool) (data : Option Expr)
    (pp : Nat) (pk : Bytes) (pb : Block) (pr : ParamList) (hn : QChars name) (hd : OptExprWN data)
    (ihp : ∀ (first : Bool) (acc : List Piece), AllP POk acc →
      S b b (visitParams sk o (.content pp pk pb pr) first acc) (AllP POk)) :
    SU b (walkCmd sk o (.call p name allData data (.content pp pk pb pr))) := by
  sunfold walkCmd
  mred
  have hde0 : ∀ d0 : List Piece, AllP POk d0 → S b b (do
      let acc ← visitParams sk o (.content pp pk pb pr) true ([Piece.fixed b!"soy.$$augmentMap("] ++ d0 ++ [Piece.fixed b!", {"])
      pure (acc ++ [Piece.fixed b!"})"])) (AllP POk) := by
    intro d0 hd0
    refine Spec.bind (ihp true _ (AllP.append POk (AllP.append POk (AllP.single POk trivial) hd0) (AllP.single POk trivial))) ?_
    intro acc hacc
    exact Spec.pure (AllP.append POk hacc (AllP.single POk trivial))
  call_common

theorem letValue_step {b : Bytes} (p : Nat) (name : Bytes) (e : Expr) (hn : IsIdent name) (he : ExprWN e) :
    SU b (walkCmd sk o (.letValue p name e)) := by
  sunfold walkCmd
  refine Spec.seq s_atOther ?_
  refine Spec.bind (s_block (s_walkExpr sk o b e he)) ?_
  intro value hvalue
  refine Spec.bind s_getScope ?_
  intro sc hsc
  have ⟨i1, i2⟩ := makevar_ok hsc hn
  have := s_setScope (b := b) i2
  have := s_emit (b := b) (p := .ident (sc.makevar name).1) i1
  have := s_emits (b := b) hvalue
  msteps

theorem letContent_step {b : Bytes} (p : Nat) (name : Bytes) (body : Block) (hn : IsIdent name)
    (ih : IH (walkBlock sk o body)) : SU b (walkCmd sk o (.letContent p name body)) := by
  sunfold walkCmd
  refine Spec.seq s_atOther ?_
  refine Spec.bind s_getBuf ?_
  intro old hold
  subst hold
  refine Spec.bind s_getScope ?_
  intro sc hsc
  have ⟨i1, i2⟩ := genname_ok hsc hn
  refine Spec.seq (s_setScope i2) ?_
  refine Spec.seq (s_setBuf (sc.genname name).1) ?_
  have e1 := s_emit (b := (sc.genname name).1) (p := .ident (sc.genname name).1) i1
  refine Spec.seq s_indentP ?_
  refine Spec.seq (s_fx _) ?_
  refine Spec.seq e1 ?_
  refine Spec.seq (s_fx _) ?_
  refine Spec.seq s_nl ?_
  refine Spec.seq (ih _ i1) ?_
  refine Spec.bind s_getBuf ?_
  intro cur hcur
  subst hcur
  refine Spec.bind s_getScope ?_
  intro sc2 hsc2
  refine Spec.seq (s_setScope (bind_ok hsc2 i1 (nameFor_jsname name [] _))) ?_
  exact s_setBuf old

theorem headerParam_step {b : Bytes} (p : Nat) (opt : Bool) (n : Bytes) (tp : Nat) (t : Bytes) (d : Option Expr) :
    SU b (walkCmd sk o (.headerParam p opt n tp t d)) := by
  sunfold walkCmd
  exact Spec.seq s_atOther s_fail

theorem walkBlock_step {b : Bytes} (p : Nat) (cmds : CmdList) (ih : SU b (walkCmds sk o cmds)) :
    SU b (walkBlock sk o (.mk p cmds)) := by
  sunfold walkBlock; msteps

theorem walkBody_step {b : Bytes} (p : Nat) (cmds : CmdList) (ih : SU b (walkCmds sk o cmds)) :
    SU b (walkBody sk o (.mk p cmds)) := by
  sunfold walkBody; msteps

theorem walkCmds_nil {b : Bytes} : SU b (walkCmds sk o .nil) := by sunfold walkCmds; exact s_pure
theorem walkCmds_cons {b : Bytes} (c : Cmd) (r : CmdList) (h1 : SU b (walkCmd sk o c)) (h2 : SU b (walkCmds sk o r)) :
    SU b (walkCmds sk o (.cons c r)) := by
  sunfold walkCmds; msteps

theorem visitConds_nil {b : Bytes} (first : Bool) : SU b (visitConds sk o .nil first) := by
  sunfold visitConds; exact s_pure
theorem visitConds_cons {b : Bytes} (p : Nat) (cond : Option Expr) (body : Block) (rest : CondList) (first : Bool)
    (hc : OptExprWN cond) (h1 : SU b (walkBlock sk o body)) (h2 : SU b (visitConds sk o rest false)) :
    SU b (visitConds sk o (.cons p cond body rest) first) := by
  sunfold visitConds
  have h0 : SU b (match (generalizing := false) cond with
      | some c => do fx b!"if ("; walkExpr sk o c; fx b!") "
      | none => pure ()) := by
    cases cond with
    | none => exact s_pure
    | some c =>
      have := s_walkExpr sk o b c hc
      msteps
  msteps

theorem visitCases_nil {b : Bytes} : SU b (visitCases sk o .nil) := by sunfold visitCases; exact s_pure
theorem visitCases_cons {b : Bytes} (p : Nat) (values : List Expr) (body : Block) (rest : CaseList)
    (hv : ∀ v ∈ values, ExprWN v) (h1 : SU b (walkBlock sk o body)) (h2 : SU b (visitCases sk o rest)) :
    SU b (visitCases sk o (.cons p values body rest)) := by
  sunfold visitCases
  have h0 : SU b (seqM (values.map fun v => do indentP; fx b!"case "; walkExpr sk o v; fx b!":"; nl)) := by
    apply Spec.seqM
    intro m hm
    obtain ⟨v, hvm, rfl⟩ := List.mem_map.mp hm
    have := s_walkExpr sk o b v (hv v hvm)
    msteps
  msteps

theorem visitParams_nil {b : Bytes} (first : Bool) (acc : List Piece) (ha : AllP POk acc) :
    S b b (visitParams sk o .nil first acc) (AllP POk) := by
  sunfold visitParams; exact Spec.pure ha
theorem visitParams_value {b : Bytes} (p : Nat) (key : Bytes) (e : Expr) (rest : ParamList) (first : Bool)
    (acc : List Piece) (hk : IsIdent key) (he : ExprWN e) (ha : AllP POk acc)
    (ih : ∀ (first : Bool) (acc : List Piece), AllP POk acc → S b b (visitParams sk o rest first acc) (AllP POk)) :
    S b b (visitParams sk o (.value p key e rest) first acc) (AllP POk) := by
  sunfold visitParams
  refine Spec.bind (s_block (s_walkExpr sk o b e he)) ?_
  intro v hv
  apply ih
  refine AllP.append POk (AllP.append POk (AllP.append POk ha ?_) (AllP.cons POk hk (AllP.single POk trivial))) hv
  split
  · exact AllP.nil POk
  · exact AllP.single POk trivial
theorem visitParams_content {b : Bytes} (hb : IsIdent b) (p : Nat) (key : Bytes) (body : Block) (rest : ParamList)
    (first : Bool) (acc : List Piece) (hk : IsIdent key) (ha : AllP POk acc) (ihb : IH (walkBlock sk o body))
    (ih : ∀ (first : Bool) (acc : List Piece), AllP POk acc → S b b (visitParams sk o rest first acc) (AllP POk)) :
    S b b (visitParams sk o (.content p key body rest) first acc) (AllP POk) := by
  sunfold visitParams
  refine Spec.bind s_getBuf ?_
  intro old hold
  subst hold
  refine Spec.bind s_getScope ?_
  intro sc hsc
  have ⟨i1, i2⟩ := genname_ok hsc isIdent_param
  refine Spec.seq (s_setScope i2) ?_
  refine Spec.seq (s_setBuf (sc.genname b!"param").1) ?_
  have e1 := s_emit (b := (sc.genname b!"param").1) (p := .ident (sc.genname b!"param").1) i1
  refine Spec.seq s_indentP ?_
  refine Spec.seq (s_fx _) ?_
  refine Spec.seq e1 ?_
  refine Spec.seq (s_fx _) ?_
  refine Spec.seq s_nl ?_
  refine Spec.seq (ihb _ i1) ?_
  refine Spec.bind s_getBuf ?_
  intro cur hcur
  subst hcur
  refine Spec.seq (s_setBuf old) ?_
  apply ih
  refine AllP.append POk (AllP.append POk ha ?_) (AllP.cons POk hk (AllP.cons POk trivial (AllP.single POk i1)))
  split
  · exact AllP.nil POk
  · exact AllP.single POk trivial

theorem visitMsgNode_nil {b : Bytes} : SU b (visitMsgNode sk o .nil) := by sunfold visitMsgNode; exact s_pure
theorem visitMsgNode_text {b : Bytes} (hb : IsIdent b) (p : Nat) (t : Bytes) (r : MsgParts)
    (ih : SU b (visitMsgNode sk o r)) : SU b (visitMsgNode sk o (.text p t r)) := by
  sunfold visitMsgNode
  have := s_writeRawText hb t
  msteps
theorem visitMsgNode_ph {b : Bytes} (p : Nat) (n : Bytes) (body : MsgPhBody) (r : MsgParts)
    (h1 : SU b (walkPhBody sk o body)) (ih : SU b (visitMsgNode sk o r)) :
    SU b (visitMsgNode sk o (.ph p n body r)) := by
  sunfold visitMsgNode; msteps
theorem visitMsgNode_plural {b : Bytes} (p : Nat) (vn : Bytes) (value : Expr) (cases : PluralCases) (dp : Nat)
    (dflt r : MsgParts) (hv : ExprWN value) (h1 : SU b (walkPluralCases sk o cases))
    (h2 : SU b (visitMsgNode sk o dflt)) (ih : SU b (visitMsgNode sk o r)) :
    SU b (visitMsgNode sk o (.plural p vn value cases dp dflt r)) := by
  sunfold visitMsgNode
  have := s_walkExpr sk o b value hv
  msteps

theorem walkPluralCases_nil {b : Bytes} : SU b (walkPluralCases sk o .nil) := by
  sunfold walkPluralCases; exact s_pure
theorem walkPluralCases_cons {b : Bytes} (p : Nat) (v : Int) (bp : Nat) (body : MsgParts) (rest : PluralCases)
    (h1 : SU b (visitMsgNode sk o body)) (h2 : SU b (walkPluralCases sk o rest)) :
    SU b (walkPluralCases sk o (.cons p v bp body rest)) := by
  sunfold walkPluralCases; msteps

theorem walkPhBody_tag {b : Bytes} (hb : IsIdent b) (p : Nat) (t : Bytes) : SU b (walkPhBody sk o (.htmlTag p t)) := by
  sunfold walkPhBody
  exact Spec.seq s_atOther (s_writeRawText hb t)
theorem walkPhBody_cmd {b : Bytes} (c : Cmd) (h : SU b (walkCmd sk o c)) : SU b (walkPhBody sk o (.cmd c)) := by
  sunfold walkPhBody; exact h

theorem phTable_nil {b : Bytes} (d : Nat) : ∀ e ∈ phTable sk o .nil d, SU b e.2.2 := by
  sunfold phTable; intro e he; cases he
theorem phTable_text {b : Bytes} (p : Nat) (t : Bytes) (r : MsgParts) (d : Nat)
    (ih : ∀ e ∈ phTable sk o r d, SU b e.2.2) : ∀ e ∈ phTable sk o (.text p t r) d, SU b e.2.2 := by
  sunfold phTable; exact ih
theorem phTable_ph {b : Bytes} (p : Nat) (n : Bytes) (body : MsgPhBody) (r : MsgParts) (d : Nat)
    (h1 : SU b (walkPhBody sk o body)) (ih : ∀ e ∈ phTable sk o r d, SU b e.2.2) :
    ∀ e ∈ phTable sk o (.ph p n body r) d, SU b e.2.2 := by
  sunfold phTable
  intro e he
  rcases List.mem_cons.mp he with rfl | he
  · exact h1
  · exact ih e he
theorem phTable_plural {b : Bytes} (p : Nat) (vn : Bytes) (value : Expr) (cases : PluralCases) (dp : Nat)
    (dflt r : MsgParts) (d : Nat) (h1 : ∀ e ∈ phCases sk o cases (d + 3), SU b e.2.2)
    (h2 : ∀ e ∈ phTable sk o dflt (d + 2), SU b e.2.2) (ih : ∀ e ∈ phTable sk o r d, SU b e.2.2) :
    ∀ e ∈ phTable sk o (.plural p vn value cases dp dflt r) d, SU b e.2.2 := by
  sunfold phTable
  intro e he
  rcases List.mem_append.mp he with he | he
  · rcases List.mem_append.mp he with he | he
    · exact h1 e he
    · exact h2 e he
  · exact ih e he
theorem phCases_nil {b : Bytes} (d : Nat) : ∀ e ∈ phCases sk o .nil d, SU b e.2.2 := by
  sunfold phCases; intro e he; cases he
theorem phCases_cons {b : Bytes} (p : Nat) (v : Int) (bp : Nat) (body : MsgParts) (rest : PluralCases) (d : Nat)
    (h1 : ∀ e ∈ phTable sk o body d, SU b e.2.2) (h2 : ∀ e ∈ phCases sk o rest d, SU b e.2.2) :
    ∀ e ∈ phCases sk o (.cons p v bp body rest) d, SU b e.2.2 := by
  sunfold phCases
  intro e he
  rcases List.mem_append.mp he with he | he
  · exact h1 e he
  · exact h2 e he

/-! ### inversion of the well-namedness predicates (definitional) -/

theorem wn_print {p a d} : CmdWN (.print p a d) = (ExprWN a ∧ DirsWN d) := rfl
theorem wn_msg {p i m d bp body} : CmdWN (.msg p i m d bp body) = PartsWN body := rfl
theorem wn_css {p e s} : CmdWN (.css p e s) = OptExprWN e := rfl
theorem wn_log {p body} : CmdWN (.log p body) = BlockWN body := rfl
theorem wn_ifc {p c} : CmdWN (.ifc p c) = CondsWN c := rfl
theorem wn_forc_none {p v l body} : CmdWN (.forc p v l body none) = (IsIdent v ∧ ExprWN l ∧ BlockWN body ∧ True) := rfl
theorem wn_forc_some {p v l body ie} : CmdWN (.forc p v l body (some ie)) =
    (IsIdent v ∧ ExprWN l ∧ BlockWN body ∧ BlockWN ie) := rfl
theorem wn_switch {p v c} : CmdWN (.switch p v c) = (ExprWN v ∧ CasesWN c) := rfl
theorem wn_call {p n a d ps} : CmdWN (.call p n a d ps) = (QChars n ∧ OptExprWN d ∧ ParamsWN ps) := rfl
theorem wn_letValue {p n e} : CmdWN (.letValue p n e) = (IsIdent n ∧ ExprWN e) := rfl
theorem wn_letContent {p n b} : CmdWN (.letContent p n b) = (IsIdent n ∧ BlockWN b) := rfl
theorem wn_namespace {p n a} : CmdWN (.namespace p n a) = False := rfl
theorem wn_template {p n b a pr} : CmdWN (.template p n b a pr) = False := rfl
theorem wn_soyDoc {p ps} : CmdWN (.soyDoc p ps) = False := rfl
theorem wn_block {p c} : BlockWN (.mk p c) = CmdsWN c := rfl
theorem wn_cmds {c r} : CmdsWN (.cons c r) = (CmdWN c ∧ CmdsWN r) := rfl
theorem wn_conds {p c b r} : CondsWN (.cons p c b r) = (OptExprWN c ∧ BlockWN b ∧ CondsWN r) := rfl
theorem wn_cases {p vs b r} : CasesWN (.cons p vs b r) = ((∀ v ∈ vs, ExprWN v) ∧ BlockWN b ∧ CasesWN r) := rfl
theorem wn_pvalue {p k e r} : ParamsWN (.value p k e r) = (IsIdent k ∧ ExprWN e ∧ ParamsWN r) := rfl
theorem wn_pcontent {p k b r} : ParamsWN (.content p k b r) = (IsIdent k ∧ BlockWN b ∧ ParamsWN r) := rfl
theorem wn_text {p t r} : PartsWN (.text p t r) = PartsWN r := rfl
theorem wn_ph {p n b r} : PartsWN (.ph p n b r) = (PhBodyWN b ∧ PartsWN r) := rfl
theorem wn_plural {p vn v cs dp d r} : PartsWN (.plural p vn v cs dp d r) =
    (ExprWN v ∧ PluralCasesWN cs ∧ PartsWN d ∧ PartsWN r) := rfl
theorem wn_phcmd {c} : PhBodyWN (.cmd c) = CmdWN c := rfl
theorem wn_plcases {p v bp b r} : PluralCasesWN (.cons p v bp b r) = (PartsWN b ∧ PluralCasesWN r) := rfl

/-! ### the induction -/

mutual
  theorem s_walkCmd : ∀ c : Cmd, CmdWN c → IH (walkCmd sk o c)
    | .rawText p t, _ => fun _ hb => rawText_step sk o hb p t
    | .print p a d, h => fun _ hb => print_step sk o hb p a d (wn_print.mp h).1 (wn_print.mp h).2
    | .msg p i m d bp body, h => fun b hb =>
        msg_step sk o hb p i m d bp body (wn_msg.mp h) (s_visitMsgNode body (wn_msg.mp h) b hb)
          (s_phTable body 0 (wn_msg.mp h) b hb)
    | .css p e s, h => fun _ hb => css_step sk o hb p e s (wn_css.mp h)
    | .debugger p, _ => fun _ _ => debugger_step sk o p
    | .log p body, h => fun _ hb => log_step sk o hb p body (s_walkBlock body (wn_log.mp h))
    | .ifc p conds, h => fun b hb => ifc_step sk o p conds (s_visitConds conds true (wn_ifc.mp h) b hb)
    | .forc p v l body none, h => fun b hb =>
        forc_step_none sk o b p v l body (wn_forc_none.mp h).1 (wn_forc_none.mp h).2.1
          (s_walkBody body (wn_forc_none.mp h).2.2.1 b hb)
    | .forc p v l body (some ie), h => fun b hb =>
        forc_step_some sk o b p v l body ie (wn_forc_some.mp h).1 (wn_forc_some.mp h).2.1
          (s_walkBody body (wn_forc_some.mp h).2.2.1 b hb) (s_walkBlock ie (wn_forc_some.mp h).2.2.2 b hb)
    | .switch p v cs, h => fun b hb =>
        switch_step sk o p v cs (wn_switch.mp h).1 (s_visitCases cs (wn_switch.mp h).2 b hb)
    | .call p n a d .nil, h => fun _ hb => call_step_nil sk o hb p n a d (wn_call.mp h).1 (wn_call.mp h).2.1
    | .call p n a d (.value pp pk pe pr), h => fun b hb =>
        call_step_value sk o hb p n a d pp pk pe pr (wn_call.mp h).1 (wn_call.mp h).2.1
          (fun first acc ha => s_visitParams (.value pp pk pe pr) (wn_call.mp h).2.2 b hb first acc ha)
    | .call p n a d (.content pp pk pb pr), h => fun b hb =>
        call_step_content sk o hb p n a d pp pk pb pr (wn_call.mp h).1 (wn_call.mp h).2.1
          (fun first acc ha => s_visitParams (.content pp pk pb pr) (wn_call.mp h).2.2 b hb first acc ha)
    | .letValue p n e, h => fun _ _ => letValue_step sk o p n e (wn_letValue.mp h).1 (wn_letValue.mp h).2
    | .letContent p n body, h => fun _ _ =>
        letContent_step sk o p n body (wn_letContent.mp h).1 (s_walkBlock body (wn_letContent.mp h).2)
    | .headerParam p op n tp t d, _ => fun _ _ => headerParam_step sk o p op n tp t d
    | .namespace _ _ _, h => (wn_namespace.mp h).elim
    | .template _ _ _ _ _, h => (wn_template.mp h).elim
    | .soyDoc _ _, h => (wn_soyDoc.mp h).elim
  theorem s_walkBlock : ∀ blk : Block, BlockWN blk → IH (walkBlock sk o blk)
    | .mk p cmds, h => fun b hb => walkBlock_step sk o p cmds (s_walkCmds cmds (wn_block.mp h) b hb)
  theorem s_walkBody : ∀ blk : Block, BlockWN blk → IH (walkBody sk o blk)
    | .mk p cmds, h => fun b hb => walkBody_step sk o p cmds (s_walkCmds cmds (wn_block.mp h) b hb)
  theorem s_walkCmds : ∀ cs : CmdList, CmdsWN cs → IH (walkCmds sk o cs)
    | .nil, _ => fun _ _ => walkCmds_nil sk o
    | .cons c r, h => fun b hb =>
        walkCmds_cons sk o c r (s_walkCmd c (wn_cmds.mp h).1 b hb) (s_walkCmds r (wn_cmds.mp h).2 b hb)
  theorem s_visitConds : ∀ (cs : CondList) (first : Bool), CondsWN cs → IH (visitConds sk o cs first)
    | .nil, first, _ => fun _ _ => visitConds_nil sk o first
    | .cons p c body rest, first, h => fun b hb =>
        visitConds_cons sk o p c body rest first (wn_conds.mp h).1 (s_walkBlock body (wn_conds.mp h).2.1 b hb)
          (s_visitConds rest false (wn_conds.mp h).2.2 b hb)
  theorem s_visitCases : ∀ (cs : CaseList), CasesWN cs → IH (visitCases sk o cs)
    | .nil, _ => fun _ _ => visitCases_nil sk o
    | .cons p vs body rest, h => fun b hb =>
        visitCases_cons sk o p vs body rest (wn_cases.mp h).1 (s_walkBlock body (wn_cases.mp h).2.1 b hb)
          (s_visitCases rest (wn_cases.mp h).2.2 b hb)
  theorem s_visitParams : ∀ (ps : ParamList), ParamsWN ps → ∀ b : Bytes, IsIdent b → ∀ (first : Bool) (acc : List Piece),
      AllP POk acc → S b b (visitParams sk o ps first acc) (AllP POk)
    | .nil, _ => fun _ _ first acc ha => visitParams_nil sk o first acc ha
    | .value p k e rest, h => fun b hb first acc ha =>
        visitParams_value sk o p k e rest first acc (wn_pvalue.mp h).1 (wn_pvalue.mp h).2.1 ha
          (fun f a ha' => s_visitParams rest (wn_pvalue.mp h).2.2 b hb f a ha')
    | .content p k body rest, h => fun b hb first acc ha =>
        visitParams_content sk o hb p k body rest first acc (wn_pcontent.mp h).1 ha
          (s_walkBlock body (wn_pcontent.mp h).2.1)
          (fun f a ha' => s_visitParams rest (wn_pcontent.mp h).2.2 b hb f a ha')
  theorem s_visitMsgNode : ∀ (ps : MsgParts), PartsWN ps → IH (visitMsgNode sk o ps)
    | .nil, _ => fun _ _ => visitMsgNode_nil sk o
    | .text p t r, h => fun b hb => visitMsgNode_text sk o hb p t r (s_visitMsgNode r (wn_text.mp h) b hb)
    | .ph p n body r, h => fun b hb =>
        visitMsgNode_ph sk o p n body r (s_walkPhBody body (wn_ph.mp h).1 b hb) (s_visitMsgNode r (wn_ph.mp h).2 b hb)
    | .plural p vn v cs dp dflt r, h => fun b hb =>
        visitMsgNode_plural sk o p vn v cs dp dflt r (wn_plural.mp h).1
          (s_walkPluralCases cs (wn_plural.mp h).2.1 b hb) (s_visitMsgNode dflt (wn_plural.mp h).2.2.1 b hb)
          (s_visitMsgNode r (wn_plural.mp h).2.2.2 b hb)
  theorem s_walkPluralCases : ∀ (cs : PluralCases), PluralCasesWN cs → IH (walkPluralCases sk o cs)
    | .nil, _ => fun _ _ => walkPluralCases_nil sk o
    | .cons p v bp body rest, h => fun b hb =>
        walkPluralCases_cons sk o p v bp body rest (s_visitMsgNode body (wn_plcases.mp h).1 b hb)
          (s_walkPluralCases rest (wn_plcases.mp h).2 b hb)
  theorem s_walkPhBody : ∀ (pb : MsgPhBody), PhBodyWN pb → IH (walkPhBody sk o pb)
    | .htmlTag p t, _ => fun _ hb => walkPhBody_tag sk o hb p t
    | .cmd c, h => fun b hb => walkPhBody_cmd sk o c (s_walkCmd c (wn_phcmd.mp h) b hb)
  theorem s_phTable : ∀ (ps : MsgParts) (d : Nat), PartsWN ps → ∀ b : Bytes, IsIdent b →
      ∀ e ∈ phTable sk o ps d, SU b e.2.2
    | .nil, d, _ => fun _ _ => phTable_nil sk o d
    | .text p t r, d, h => fun b hb => phTable_text sk o p t r d (s_phTable r d (wn_text.mp h) b hb)
    | .ph p n body r, d, h => fun b hb =>
        phTable_ph sk o p n body r d (s_walkPhBody body (wn_ph.mp h).1 b hb) (s_phTable r d (wn_ph.mp h).2 b hb)
    | .plural p vn v cs dp dflt r, d, h => fun b hb =>
        phTable_plural sk o p vn v cs dp dflt r d (s_phCases cs (d + 3) (wn_plural.mp h).2.1 b hb)
          (s_phTable dflt (d + 2) (wn_plural.mp h).2.2.1 b hb) (s_phTable r d (wn_plural.mp h).2.2.2 b hb)
  theorem s_phCases : ∀ (cs : PluralCases) (d : Nat), PluralCasesWN cs → ∀ b : Bytes, IsIdent b →
      ∀ e ∈ phCases sk o cs d, SU b e.2.2
    | .nil, d, _ => fun _ _ => phCases_nil sk o d
    | .cons p v bp body rest, d, h => fun b hb =>
        phCases_cons sk o p v bp body rest d (s_phTable body d (wn_plcases.mp h).1 b hb)
          (s_phCases rest d (wn_plcases.mp h).2 b hb)
end

end

end SoyVerif.Lemmas.JsGenSafe
