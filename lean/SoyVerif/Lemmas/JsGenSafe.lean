/-
  Every piece the generator writes for a well-named tree is well-shaped (the induction behind
  Props/C14.splices_safe and one_function_per_template).
-/
import SoyVerif.Lemmas.JsGenSpec

namespace SoyVerif.Lemmas.JsGenSafe
open SoyVerif SoyVerif.Model SoyVerif.Model.JsGen SoyVerif.Lemmas.JsGenSpec

/-! ## what a piece written inside a template body may be -/

/-- body level: no function header, no comment -/
def POk : Piece → Prop
  | .fixed _ => True
  | .escaped _ => True
  | .ident b => IsIdent b
  | .qname b => QChars b
  | .es6name b => QChars b
  | .int _ => True
  | .float _ => True
  | .header _ _ => False
  | .comment _ => False

def CalledOk (fc : List (Bytes × List Piece)) : Prop := ∀ kv ∈ fc, AllP POk kv.2

def Inv (s : St) : Prop := ScopeOk s.scope ∧ CalledOk s.funcsCalled

/-- the invariant, with the current value of `bufferName` named -/
def J (b : Bytes) (s : St) : Prop := Inv s ∧ s.bufferName = b

abbrev S {α : Type} (b b' : Bytes) (m : M α) (Q : α → Prop) : Prop := Spec POk (J b) (J b') m Q
abbrev SU (b : Bytes) (m : M Unit) : Prop := Spec POk (J b) (J b) m (fun _ => True)

theorem assocSet_ok : ∀ (fc : List (Bytes × List Piece)) (k : Bytes) (v : List Piece),
    CalledOk fc → AllP POk v → CalledOk (assocSet fc k v)
  | [], k, v, _, hv => by
    unfold assocSet
    intro kv hkv
    simp only [List.mem_singleton] at hkv
    subst hkv
    exact hv
  | (k', v') :: r, k, v, hf, hv => by
    unfold assocSet
    split
    · intro kv hkv
      rcases List.mem_cons.mp hkv with rfl | h
      · exact hv
      · exact hf kv (by simp [h])
    · intro kv hkv
      rcases List.mem_cons.mp hkv with rfl | h
      · exact hf _ (by simp)
      · exact assocSet_ok r k v (fun x hx => hf x (by simp [hx])) hv kv h

/-! ## primitives -/

section
variable {b : Bytes}

theorem s_fx (t : Bytes) : SU b (fx t) := Spec.emit (P := POk) trivial
theorem s_nl : SU b nl := s_fx _
theorem s_emit {p : Piece} (h : POk p) : SU b (emit p) := Spec.emit h
theorem s_emits {ps : List Piece} (h : AllP POk ps) : SU b (emits ps) := Spec.emits h

theorem s_indentP : SU b indentP := by
  intro s a ps s' hI hh
  simp only [indentP, Except.ok.injEq, Prod.mk.injEq] at hh
  obtain ⟨_, rfl, rfl⟩ := hh
  exact ⟨AllP.single POk trivial, hI, trivial⟩

theorem s_atNode (t : NodeTag) : SU b (atNode t) := Spec.modify (fun _ h => h)
theorem s_atOther : SU b atOther := s_atNode _
theorem s_incIndent : SU b incIndent := Spec.modify (fun _ h => h)
theorem s_decIndent : SU b decIndent := Spec.modify (fun _ h => h)
theorem s_pushScope : SU b pushScope := Spec.modify (fun _ h => ⟨⟨push_ok h.1.1, h.1.2⟩, h.2⟩)
theorem s_popScope : SU b popScope := Spec.modify (fun _ h => ⟨⟨pop_ok h.1.1, h.1.2⟩, h.2⟩)

theorem s_getBuf : S b b getBuf (· = b) := by
  intro s a ps s' hI hh
  simp only [getBuf, Except.ok.injEq, Prod.mk.injEq] at hh
  obtain ⟨rfl, rfl, rfl⟩ := hh
  exact ⟨AllP.nil POk, hI, hI.2⟩

theorem s_setBuf (b' : Bytes) : S b b' (setBuf b') (fun _ => True) :=
  Spec.modify (fun _ h => ⟨h.1, rfl⟩)

theorem s_getScope : S b b getScope ScopeOk := by
  intro s a ps s' hI hh
  simp only [getScope, Except.ok.injEq, Prod.mk.injEq] at hh
  obtain ⟨rfl, rfl, rfl⟩ := hh
  exact ⟨AllP.nil POk, hI, hI.1.1⟩

theorem s_setScope {sc : Scope} (h : ScopeOk sc) : SU b (setScope sc) :=
  Spec.modify (fun _ hI => ⟨⟨h, hI.1.2⟩, hI.2⟩)

theorem s_addCalled {k : Bytes} {v : List Piece} (h : AllP POk v) : SU b (addCalled k v) :=
  Spec.modify (fun _ hI => ⟨⟨hI.1.1, assocSet_ok _ k v hI.1.2 h⟩, hI.2⟩)

theorem s_addInFile (k : Bytes) : SU b (addInFile k) := Spec.modify (fun _ h => h)

theorem s_getSt : S b b getSt (J b) := Spec.getSt

theorem s_block {m : M Unit} (h : SU b m) : S b b (block m) (AllP POk) := by
  intro s a ps s' hI hh
  unfold block at hh
  cases h1 : m s with
  | error e => simp [h1] at hh
  | ok r =>
    obtain ⟨u, qs, s1⟩ := r
    simp only [h1, Except.ok.injEq, Prod.mk.injEq] at hh
    obtain ⟨rfl, rfl, rfl⟩ := hh
    have ⟨p1, j1, _⟩ := h _ _ _ _ hI h1
    exact ⟨AllP.nil POk, ⟨⟨hI.1.1, j1.1.2⟩, hI.2⟩, p1⟩

theorem s_fail {α : Type} {Q : α → Prop} {b' : Bytes} : S b b' (fail : M α) Q := Spec.fail
theorem s_pure : SU b (pure ()) := Spec.pure trivial

end

/-- one step of a `do` block -/
macro "mstep" : tactic => `(tactic| first
  | exact s_fx _
  | exact s_nl
  | exact s_indentP
  | exact s_atOther
  | exact s_atNode _
  | exact s_incIndent
  | exact s_decIndent
  | exact s_pushScope
  | exact s_popScope
  | exact s_pure
  | exact s_fail
  | exact s_emit trivial
  | exact s_addInFile _
  | assumption
  | apply Spec.seq
  | apply Spec.whenM)

macro "msteps" : tactic => `(tactic| repeat mstep)

/-! ## literal values -/

theorem assocGet_mem {β : Type} : ∀ (ws : List (Bytes × β)) (k : Bytes) (w : β), assocGet? ws k = some w → ∃ k', (k', w) ∈ ws
  | [], _, _, h => by simp [assocGet?] at h
  | (k', v') :: r, k, w, h => by
    unfold assocGet? at h
    split at h
    · simp only [Option.some.injEq] at h
      subst h
      exact ⟨k', by simp⟩
    · obtain ⟨k'', hk⟩ := assocGet_mem r k w h
      exact ⟨k'', by simp [hk]⟩

theorem s_orFail_assoc {b : Bytes} {ws : List (Bytes × M Unit)} (hw : ∀ kw ∈ ws, SU b kw.2) (k : Bytes) :
    SU b (orFail (assocGet? ws k)) := by
  cases h : assocGet? ws k with
  | none => exact s_fail
  | some w =>
    obtain ⟨k', hk'⟩ := assocGet_mem ws k w h
    exact hw (k', w) hk'

theorem s_orFail_idx {b : Bytes} {ws : List (M Unit)} (hw : ∀ w ∈ ws, SU b w) (i : Nat) :
    SU b (orFail ws[i]?) := by
  cases h : ws[i]? with
  | none => exact s_fail
  | some w => exact hw w (List.mem_of_getElem? h)

theorem s_walkKeys {b : Bytes} (ws : List (Bytes × M Unit)) (hw : ∀ kw ∈ ws, SU b kw.2) :
    ∀ (ks : List Bytes) (first : Bool), SU b (walkKeys ws ks first)
  | [], _ => by unfold walkKeys; exact s_pure
  | k :: r, first => by
    unfold walkKeys
    have ih := s_walkKeys ws hw r false
    have hget := s_orFail_assoc hw k
    msteps

section
variable (sk : List Bytes → List Bytes)

mutual
  theorem s_walkValue (b : Bytes) : ∀ v : Value, SU b (walkValue sk v)
    | .undefined => by unfold walkValue; exact s_fail
    | .null => by unfold walkValue; exact s_fx _
    | .bool _ => by unfold walkValue; exact s_fx _
    | .int _ => by unfold walkValue; exact s_emit trivial
    | .float _ => by unfold walkValue; exact s_emit trivial
    | .str _ => by unfold walkValue; msteps
    | .list _ xs => by
      unfold walkValue
      have := s_walkValues b xs true
      msteps
    | .map _ kvs => by
      unfold walkValue
      have := s_walkKeys (b := b) (valueWalkers sk kvs) (s_valueWalkers b kvs) (sk (kvs.map (·.1))) true
      msteps
  theorem s_walkValues (b : Bytes) : ∀ (xs : List Value) (first : Bool), SU b (walkValues sk xs first)
    | [], _ => by unfold walkValues; exact s_pure
    | v :: r, first => by
      unfold walkValues
      have := s_walkValue b v
      have := s_walkValues b r false
      msteps
  theorem s_valueWalkers (b : Bytes) : ∀ (kvs : List (Bytes × Value)), ∀ kw ∈ valueWalkers sk kvs, SU b kw.2
    | [] => by unfold valueWalkers; intro kw h; cases h
    | (k, v) :: r => by
      unfold valueWalkers
      intro kw h
      rcases List.mem_cons.mp h with rfl | h
      · exact s_walkValue b v
      · exact s_valueWalkers b r kw h
end

end

/-! ## well-named trees: what the lexer guarantees about the names in an expression -/

mutual
  def ExprWN : Expr → Prop
    | .dataRef _ key acc => IsIdent key ∧ AccessListWN acc
    | .func _ _ args => ExprListWN args
    | .list _ items => ExprListWN items
    | .map _ items => MapItemsWN items
    | .not _ a => ExprWN a
    | .neg _ a => ExprWN a
    | .bin _ _ a c => ExprWN a ∧ ExprWN c
    | .tern _ c a d => ExprWN c ∧ ExprWN a ∧ ExprWN d
    | .null _ => True
    | .bool _ _ => True
    | .int _ _ => True
    | .float _ _ => True
    | .str _ _ _ => True
    | .global _ _ => True
  def ExprListWN : ExprList → Prop
    | .nil => True
    | .cons e r => ExprWN e ∧ ExprListWN r
  def MapItemsWN : MapItems → Prop
    | .nil => True
    | .cons _ e r => ExprWN e ∧ MapItemsWN r
  def AccessWN : Access → Prop
    | .key _ _ k => IsIdent k
    | .index _ _ _ => True
    | .expr _ _ e => ExprWN e
  def AccessListWN : AccessList → Prop
    | .nil => True
    | .cons a r => AccessWN a ∧ AccessListWN r
end

theorem allP_tableImport (n : Bytes) : AllP POk (tableImport n) := by
  intro p hp
  simp only [tableImport, List.mem_cons, List.mem_nil_iff, or_false] at hp
  rcases hp with rfl | rfl | rfl | rfl | rfl <;> trivial

theorem allP_callImport {n : Bytes} (h : QChars n) : AllP POk (callImport n) := by
  intro p hp
  simp only [callImport, List.mem_cons, List.mem_nil_iff, or_false] at hp
  rcases hp with rfl | rfl | rfl | rfl | rfl
  · trivial
  · exact h
  · trivial
  · exact h
  · trivial

theorem pok_identOrEmpty {sc : Scope} (h : ScopeOk sc) (k : Bytes) : POk (identOrEmpty (sc.lookup k)) := by
  cases hl : sc.lookup k with
  | none => trivial
  | some g => exact lookup_ok h hl

theorem s_applyParts {b : Bytes} {ws : List (M Unit)} (hw : ∀ w ∈ ws, SU b w) :
    ∀ parts : List Gen.JsFnPart, SU b (applyParts ws parts)
  | [] => by unfold applyParts; exact s_pure
  | .text t :: r => by
    unfold applyParts
    have := s_applyParts hw r
    msteps
  | .arg i :: r => by
    unfold applyParts
    have := s_applyParts hw r
    have := s_orFail_idx hw i
    msteps

theorem s_applyFn {b : Bytes} {ws : List (M Unit)} (hw : ∀ w ∈ ws, SU b w) (x : Option (Option (List Gen.JsFnPart))) :
    SU b (applyFn ws x) := by
  unfold applyFn
  split
  · exact s_applyParts hw _
  · exact s_fail

section
variable (sk : List Bytes → List Bytes) (o : Options)

theorem s_nullSafePrefix {b : Bytes} (ns : Bool) {expr : List Piece} (he : AllP POk expr) :
    SU b (whenM ns (do fx b!"("; emits expr; fx b!" == null) ? null : ")) := by
  have := s_emits (b := b) he
  msteps

mutual
  theorem s_walkExpr (b : Bytes) : ∀ e : Expr, ExprWN e → SU b (walkExpr sk o e)
    | .null _, _ => by unfold walkExpr; msteps
    | .bool _ _, _ => by unfold walkExpr; msteps
    | .int _ _, _ => by unfold walkExpr; msteps
    | .float _ _, _ => by unfold walkExpr; msteps
    | .str _ _ _, _ => by unfold walkExpr; msteps
    | .global _ name, _ => by
      unfold walkExpr
      refine Spec.seq s_atOther ?_
      split
      · exact s_walkValue sk b _
      · exact s_fail
    | .list _ items, h => by
      unfold walkExpr
      have := s_walkItems b items true (by simpa [ExprWN] using h)
      msteps
    | .map _ items, h => by
      unfold walkExpr
      have := s_walkKeys (b := b) (mapWalkers sk o items) (s_mapWalkers b items (by simpa [ExprWN] using h)) (sk (mapKeys items)) true
      msteps
    | .func _ name args, h => by
      unfold walkExpr
      refine Spec.seq s_atOther ?_
      split
      · rename_i f _
        have := s_applyFn (b := b) (s_argWalkers b args (by simpa [ExprWN] using h)) f.emit[args.length]?
        have := s_addCalled (b := b) (k := name) (allP_tableImport f.fnName)
        msteps
      · split
        · refine Spec.bind s_getScope ?_
          intro sc hsc
          have := s_emit (b := b) (pok_identOrEmpty hsc Scope.kIndex)
          msteps
        · split
          · refine Spec.bind s_getScope ?_
            intro sc hsc
            have h1 := s_emit (b := b) (pok_identOrEmpty hsc Scope.kIndex)
            have h2 := s_emit (b := b) (pok_identOrEmpty hsc Scope.kLimit)
            msteps
          · split
            · refine Spec.bind s_getScope ?_
              intro sc hsc
              exact s_emit (pok_identOrEmpty hsc Scope.kIndex)
            · exact s_fail
    | .dataRef _ key acc, h => by
      unfold walkExpr
      simp only [ExprWN] at h
      refine Spec.seq s_atOther ?_
      refine Spec.bind s_getScope ?_
      intro sc hsc
      apply s_visitAccess b acc h.2
      split
      · exact AllP.single POk trivial
      · split
        · rename_i g hg
          exact AllP.single POk (lookup_ok hsc hg)
        · exact AllP.cons POk trivial (AllP.single POk h.1)
    | .not _ a, h => by
      unfold walkExpr
      have := s_walkExpr b a (by simpa [ExprWN] using h)
      msteps
    | .neg _ a, h => by
      unfold walkExpr
      have := s_walkExpr b a (by simpa [ExprWN] using h)
      msteps
    | .bin op _ a c, h => by
      unfold walkExpr
      simp only [ExprWN] at h
      have := s_walkExpr b a h.1
      have := s_walkExpr b c h.2
      split <;> msteps
    | .tern _ c a d, h => by
      unfold walkExpr
      simp only [ExprWN] at h
      have := s_walkExpr b c h.1
      have := s_walkExpr b a h.2.1
      have := s_walkExpr b d h.2.2
      msteps
  theorem s_walkItems (b : Bytes) : ∀ (l : ExprList) (first : Bool), ExprListWN l → SU b (walkItems sk o l first)
    | .nil, _, _ => by unfold walkItems; exact s_pure
    | .cons e r, first, h => by
      unfold walkItems
      simp only [ExprListWN] at h
      have := s_walkExpr b e h.1
      have := s_walkItems b r false h.2
      msteps
  theorem s_argWalkers (b : Bytes) : ∀ (l : ExprList), ExprListWN l → ∀ w ∈ argWalkers sk o l, SU b w
    | .nil, _ => by unfold argWalkers; intro w hw; cases hw
    | .cons e r, h => by
      unfold argWalkers
      simp only [ExprListWN] at h
      intro w hw
      rcases List.mem_cons.mp hw with rfl | hw
      · exact s_walkExpr b e h.1
      · exact s_argWalkers b r h.2 w hw
  theorem s_mapWalkers (b : Bytes) : ∀ (l : MapItems), MapItemsWN l → ∀ kw ∈ mapWalkers sk o l, SU b kw.2
    | .nil, _ => by unfold mapWalkers; intro w hw; cases hw
    | .cons k e r, h => by
      unfold mapWalkers
      simp only [MapItemsWN] at h
      intro w hw
      rcases List.mem_cons.mp hw with rfl | hw
      · exact s_walkExpr b e h.1
      · exact s_mapWalkers b r h.2 w hw
  theorem s_visitAccess (b : Bytes) : ∀ (acc : AccessList), AccessListWN acc → ∀ {expr : List Piece}, AllP POk expr →
      SU b (visitAccess sk o acc expr)
    | .nil, _, expr, he => by unfold visitAccess; exact s_emits he
    | .cons a r, h, expr, he => by
      unfold visitAccess
      simp only [AccessListWN] at h
      have hp := fun ns => s_nullSafePrefix (b := b) ns he
      split
      · refine Spec.seq (hp _) ?_
        exact s_visitAccess b r h.2 (AllP.append POk he (AllP.cons POk trivial (AllP.cons POk trivial (AllP.single POk trivial))))
      · refine Spec.seq (hp _) ?_
        simp only [AccessWN] at h
        exact s_visitAccess b r h.2 (AllP.append POk he (AllP.cons POk trivial (AllP.single POk h.1)))
      · refine Spec.seq (hp _) ?_
        simp only [AccessWN] at h
        refine Spec.bind (s_block (s_walkExpr b _ h.1)) ?_
        intro ps hps
        exact s_visitAccess b r h.2 (AllP.append POk (AllP.append POk (AllP.append POk he (AllP.single POk trivial)) hps) (AllP.single POk trivial))
end

end

end SoyVerif.Lemmas.JsGenSafe
