/-
  A small Hoare logic for the generator monad `JsGen.M` (state + written pieces + failure):

    Spec P I J m Q   :   from a state satisfying I, if `m` succeeds then every piece it wrote
                         satisfies P, the final state satisfies J and the result satisfies Q.

  plus the facts about scope.go the proofs of Props/C14 need (generated names are identifiers).
-/
import SoyVerif.Model.JsGen

namespace SoyVerif.Lemmas.JsGenSpec
open SoyVerif SoyVerif.Model SoyVerif.Model.JsGen

/-! ## identifier shapes -/

/-- a byte that may occur in a JavaScript identifier: ASCII letter, digit, `_`, `$`, or a byte of
    a non-ASCII character -/
def identChar (c : UInt8) : Bool :=
  c == 95 || c == 36 || (48 ≤ c && c ≤ 57) || (65 ≤ c && c ≤ 90) || (97 ≤ c && c ≤ 122) || 128 ≤ c

/-- … that may start one (not an ASCII digit) -/
def startChar (c : UInt8) : Bool := identChar c && !(48 ≤ c && c ≤ 57)

/-- non-empty, identifier bytes only, does not start with an ASCII digit -/
def IsIdent (b : Bytes) : Prop := ∃ c r, b = c :: r ∧ startChar c = true ∧ ∀ x ∈ r, identChar x = true

/-- identifier bytes and dots -/
def QChars (b : Bytes) : Prop := ∀ c ∈ b, identChar c = true ∨ c = 46

theorem IsIdent.append {b t : Bytes} (h : IsIdent b) (ht : ∀ x ∈ t, identChar x = true) : IsIdent (b ++ t) := by
  obtain ⟨c, r, rfl, hc, hr⟩ := h
  refine ⟨c, r ++ t, rfl, hc, ?_⟩
  intro x hx
  rcases List.mem_append.mp hx with h | h
  · exact hr x h
  · exact ht x h

theorem IsIdent.chars {b : Bytes} (h : IsIdent b) : ∀ x ∈ b, identChar x = true := by
  obtain ⟨c, r, rfl, hc, hr⟩ := h
  intro x hx
  rcases List.mem_cons.mp hx with rfl | h
  · unfold startChar at hc
    simp only [Bool.and_eq_true] at hc
    exact hc.1
  · exact hr x h

theorem digit_identChar (n : Nat) (h : n < 10) : identChar (UInt8.ofNat (48 + n)) = true := by
  have : n = 0 ∨ n = 1 ∨ n = 2 ∨ n = 3 ∨ n = 4 ∨ n = 5 ∨ n = 6 ∨ n = 7 ∨ n = 8 ∨ n = 9 := by omega
  rcases this with rfl | rfl | rfl | rfl | rfl | rfl | rfl | rfl | rfl | rfl <;> decide

theorem natDigitsAux_chars : ∀ (fuel n : Nat) (acc : Bytes), (∀ x ∈ acc, identChar x = true) →
    ∀ x ∈ F64.natDigitsAux fuel n acc, identChar x = true
  | 0, _, acc, h => by unfold F64.natDigitsAux; exact h
  | fuel + 1, n, acc, h => by
    unfold F64.natDigitsAux
    split
    · rename_i hn
      intro x hx
      rcases List.mem_cons.mp hx with rfl | hx
      · exact digit_identChar n hn
      · exact h x hx
    · apply natDigitsAux_chars fuel
      intro x hx
      rcases List.mem_cons.mp hx with rfl | hx
      · exact digit_identChar (n % 10) (Nat.mod_lt _ (by decide))
      · exact h x hx

theorem natDigits_chars (n : Nat) : ∀ x ∈ F64.natDigits n, identChar x = true := by
  unfold F64.natDigits
  exact natDigitsAux_chars _ _ [] (by simp)

theorem jsname_ident {v : Bytes} (h : IsIdent v) {use : Bytes} (hu : ∀ x ∈ use, identChar x = true) (n : Nat) :
    IsIdent (Scope.jsname v use n) := by
  unfold Scope.jsname
  exact ((h.append (by decide : ∀ x ∈ ([36] : Bytes), identChar x = true)).append hu).append (natDigits_chars n)

theorem gen_ident {v : Bytes} (h : IsIdent v) (n : Nat) : IsIdent (Scope.gen v n) :=
  jsname_ident h (by simp) n

theorem isIdent_output : IsIdent b!"output" := ⟨111, _, rfl, by decide, by decide⟩
theorem isIdent_param : IsIdent b!"param" := ⟨112, _, rfl, by decide, by decide⟩

/-! ## piece predicate, state invariant -/

section
variable (P : Piece → Prop)

def AllP (ps : List Piece) : Prop := ∀ p ∈ ps, P p

theorem AllP.nil : AllP P [] := by intro p hp; cases hp
theorem AllP.append {a b : List Piece} (ha : AllP P a) (hb : AllP P b) : AllP P (a ++ b) := by
  intro p hp
  rcases List.mem_append.mp hp with h | h
  · exact ha p h
  · exact hb p h
theorem AllP.cons {p : Piece} {a : List Piece} (hp : P p) (ha : AllP P a) : AllP P (p :: a) := by
  intro q hq
  rcases List.mem_cons.mp hq with rfl | h
  · exact hp
  · exact ha q h
theorem AllP.single {p : Piece} (hp : P p) : AllP P [p] := AllP.cons P hp (AllP.nil P)

def Spec {α : Type} (I J : St → Prop) (m : M α) (Q : α → Prop) : Prop :=
  ∀ s a ps s', I s → m s = .ok (a, ps, s') → AllP P ps ∧ J s' ∧ Q a

variable {P}

theorem Spec.bind {α β : Type} {I J K : St → Prop} {m : M α} {k : α → M β} {Q : α → Prop} {R : β → Prop}
    (hm : Spec P I J m Q) (hk : ∀ a, Q a → Spec P J K (k a) R) : Spec P I K (m >>= k) R := by
  intro s b ps s' hI h
  simp only [Bind.bind, M.bind] at h
  cases h1 : m s with
  | error e => simp [h1] at h
  | ok r =>
    obtain ⟨a, ps1, s1⟩ := r
    simp only [h1] at h
    cases h2 : k a s1 with
    | error e => simp [h2] at h
    | ok r2 =>
      obtain ⟨b', qs, s2⟩ := r2
      simp only [h2, Except.ok.injEq, Prod.mk.injEq] at h
      obtain ⟨rfl, rfl, rfl⟩ := h
      have ⟨p1, j1, qa⟩ := hm _ _ _ _ hI h1
      have ⟨p2, k2, rb⟩ := hk a qa _ _ _ _ j1 h2
      exact ⟨AllP.append P p1 p2, k2, rb⟩

theorem Spec.seq {α β : Type} {I J K : St → Prop} {m : M α} {k : M β} {Q : α → Prop} {R : β → Prop}
    (hm : Spec P I J m Q) (hk : Spec P J K k R) : Spec P I K (m >>= fun _ => k) R :=
  Spec.bind hm (fun _ _ => hk)

theorem Spec.pure {α : Type} {I : St → Prop} {a : α} {Q : α → Prop} (h : Q a) : Spec P I I (Pure.pure a : M α) Q := by
  intro s b ps s' hI hh
  simp only [Pure.pure, M.pure, Except.ok.injEq, Prod.mk.injEq] at hh
  obtain ⟨rfl, rfl, rfl⟩ := hh
  exact ⟨AllP.nil P, hI, h⟩

theorem Spec.fail {α : Type} {I J : St → Prop} {Q : α → Prop} : Spec P I J (fail : M α) Q := by
  intro s b ps s' _ hh
  simp [JsGen.fail] at hh

theorem Spec.weaken {α : Type} {I I' J J' : St → Prop} {m : M α} {Q R : α → Prop} (h : Spec P I J m Q)
    (hi : ∀ s, I' s → I s) (hj : ∀ s, J s → J' s) (hq : ∀ a, Q a → R a) : Spec P I' J' m R := by
  intro s a ps s' hI hh
  have ⟨x, y, z⟩ := h _ _ _ _ (hi _ hI) hh
  exact ⟨x, hj _ y, hq _ z⟩

theorem Spec.post {α : Type} {I J : St → Prop} {m : M α} {Q R : α → Prop} (h : Spec P I J m Q)
    (hq : ∀ a, Q a → R a) : Spec P I J m R := h.weaken (fun _ x => x) (fun _ x => x) hq

theorem Spec.top {α : Type} {I J : St → Prop} {m : M α} {Q : α → Prop} (h : Spec P I J m Q) :
    Spec P I J m (fun _ => True) := h.post (fun _ _ => trivial)

theorem Spec.emits {I : St → Prop} {ps : List Piece} (h : AllP P ps) : Spec P I I (emits ps) (fun _ => True) := by
  intro s b qs s' hI hh
  simp only [JsGen.emits, Except.ok.injEq, Prod.mk.injEq] at hh
  obtain ⟨_, rfl, rfl⟩ := hh
  exact ⟨h, hI, trivial⟩

theorem Spec.emit {I : St → Prop} {p : Piece} (h : P p) : Spec P I I (emit p) (fun _ => True) :=
  Spec.emits (AllP.single P h)

theorem Spec.modify {I J : St → Prop} {f : St → St} (h : ∀ s, I s → J (f s)) :
    Spec P I J (JsGen.modify f) (fun _ => True) := by
  intro s b qs s' hI hh
  simp only [JsGen.modify, Except.ok.injEq, Prod.mk.injEq] at hh
  obtain ⟨_, rfl, rfl⟩ := hh
  exact ⟨AllP.nil P, h _ hI, trivial⟩

theorem Spec.getSt {I : St → Prop} : Spec P I I getSt I := by
  intro s b qs s' hI hh
  simp only [JsGen.getSt, Except.ok.injEq, Prod.mk.injEq] at hh
  obtain ⟨rfl, rfl, rfl⟩ := hh
  exact ⟨AllP.nil P, hI, hI⟩

theorem Spec.ite {α : Type} {I J : St → Prop} {c : Prop} [Decidable c] {m1 m2 : M α} {Q : α → Prop}
    (h1 : Spec P I J m1 Q) (h2 : Spec P I J m2 Q) : Spec P I J (if c then m1 else m2) Q := by
  split <;> assumption

theorem Spec.whenM {I : St → Prop} {c : Bool} {m : M Unit} (h : Spec P I I m (fun _ => True)) :
    Spec P I I (whenM c m) (fun _ => True) := by
  unfold JsGen.whenM
  split
  · exact h
  · exact Spec.pure trivial

theorem Spec.seqM {I : St → Prop} : ∀ {l : List (M Unit)}, (∀ m ∈ l, Spec P I I m (fun _ => True)) →
    Spec P I I (seqM l) (fun _ => True)
  | [], _ => by unfold JsGen.seqM; exact Spec.pure trivial
  | m :: r, h => by
    unfold JsGen.seqM
    exact Spec.seq (h m (by simp)) (Spec.seqM (fun x hx => h x (by simp [hx])))

end

/-! ## the invariant of the generator state -/

/-- `g` is a JavaScript name generated FOR the Soy name `k` (vacuous for the scope's internal keys,
    which contain "$" and are no Soy names) -/
def NameFor (k g : Bytes) : Prop := k.contains 36 = false → ∃ use m, g = Scope.jsname k use m

theorem nameFor_jsname (k use : Bytes) (m : Nat) : NameFor k (Scope.jsname k use m) := fun _ => ⟨use, m, rfl⟩

theorem nameFor_dollar {k g : Bytes} (h : k.contains 36 = true) : NameFor k g := by
  intro h'; rw [h] at h'; cases h'

/-- every binding of a frame holds an identifier, and one generated for the name it is bound to -/
def FrameOk (f : Frame) : Prop := ∀ kv ∈ f, IsIdent kv.2 ∧ NameFor kv.1 kv.2
def ScopeOk (sc : Scope) : Prop := ∀ f ∈ sc.stack, FrameOk f

/-- the generator's scope maps every Soy name to a name generated FOR IT (scope.go `jsname`) -/
def ScopeShape (sc : Scope) : Prop :=
  ∀ k g, k.contains 36 = false → sc.lookup k = some g → ∃ use m, g = Scope.jsname k use m

theorem frameSet_ok : ∀ (f : Frame) (k v : Bytes), FrameOk f → IsIdent v → NameFor k v → FrameOk (frameSet f k v)
  | [], k, v, _, hv, hn => by
    unfold frameSet
    intro kv hkv
    simp only [List.mem_singleton] at hkv
    subst hkv
    exact ⟨hv, hn⟩
  | (k', v') :: r, k, v, hf, hv, hn => by
    unfold frameSet
    split
    · intro kv hkv
      rcases List.mem_cons.mp hkv with rfl | h
      · exact ⟨hv, hn⟩
      · exact hf kv (by simp [h])
    · intro kv hkv
      rcases List.mem_cons.mp hkv with rfl | h
      · exact hf _ (by simp)
      · exact frameSet_ok r k v (fun x hx => hf x (by simp [hx])) hv hn kv h

theorem frameGet_ok : ∀ (f : Frame) (k v : Bytes), FrameOk f → frameGet? f k = some v → IsIdent v ∧ NameFor k v
  | [], _, _, _, h => by simp [frameGet?] at h
  | (k', v') :: r, k, v, hf, h => by
    unfold frameGet? at h
    split at h
    · rename_i hk
      have : k' = k := by simpa using hk
      subst this
      simp only [Option.some.injEq] at h
      subst h
      exact hf (k', v') (by simp)
    · exact frameGet_ok r k v (fun x hx => hf x (by simp [hx])) h

theorem frameOk_nil : FrameOk [] := by intro kv h; cases h

theorem lookupIn_ok : ∀ (st : List Frame) (k v : Bytes), (∀ f ∈ st, FrameOk f) → Scope.lookupIn st k = some v →
    IsIdent v ∧ NameFor k v
  | [], _, _, _, h => by simp [Scope.lookupIn] at h
  | f :: r, k, v, hs, h => by
    unfold Scope.lookupIn at h
    split at h
    · rename_i v' hv'
      simp only [Option.some.injEq] at h
      subst h
      exact frameGet_ok f k _ (hs f (by simp)) hv'
    · exact lookupIn_ok r k v (fun x hx => hs x (by simp [hx])) h

theorem lookup_ok {sc : Scope} {k v : Bytes} (h : ScopeOk sc) (hl : sc.lookup k = some v) : IsIdent v :=
  (lookupIn_ok sc.stack k v h hl).1

/-- the frame-wise invariant gives the lookup-wise one -/
theorem scopeOk_shape {sc : Scope} (h : ScopeOk sc) : ScopeShape sc :=
  fun k g hk hl => (lookupIn_ok sc.stack k g h hl).2 hk

theorem push_ok {sc : Scope} (h : ScopeOk sc) : ScopeOk sc.push := by
  intro f hf
  simp only [Scope.push, List.mem_cons] at hf
  rcases hf with rfl | hf
  · exact frameOk_nil
  · exact h f hf

theorem pop_ok {sc : Scope} (h : ScopeOk sc) : ScopeOk sc.pop := by
  intro f hf
  simp only [Scope.pop] at hf
  exact h f (List.mem_of_mem_tail hf)

theorem setTop_ok : ∀ (st : List Frame) (k v : Bytes), (∀ f ∈ st, FrameOk f) → IsIdent v → NameFor k v →
    ∀ f ∈ Scope.setTop st k v, FrameOk f
  | [], _, _, _, _, _ => by intro f hf; simp [Scope.setTop] at hf
  | g :: r, k, v, hs, hv, hn => by
    intro f hf
    simp only [Scope.setTop, List.mem_cons] at hf
    rcases hf with rfl | hf
    · exact frameSet_ok g k v (hs g (by simp)) hv hn
    · exact hs f (by simp [hf])

theorem makevar_ok {sc : Scope} {v : Bytes} (h : ScopeOk sc) (hv : IsIdent v) :
    IsIdent (sc.makevar v).1 ∧ ScopeOk (sc.makevar v).2 :=
  ⟨gen_ident hv _, setTop_ok sc.stack v _ h (gen_ident hv _) (nameFor_jsname v [] _)⟩

theorem genname_ok {sc : Scope} {v : Bytes} (h : ScopeOk sc) (hv : IsIdent v) :
    IsIdent (sc.genname v).1 ∧ ScopeOk (sc.genname v).2 :=
  ⟨gen_ident hv _, h⟩

theorem bind_ok {sc : Scope} {v g : Bytes} (h : ScopeOk sc) (hg : IsIdent g) (hn : NameFor v g) : ScopeOk (sc.bind v g) :=
  setTop_ok sc.stack v g h hg hn

theorem chars_Limit : ∀ x ∈ b!"Limit", identChar x = true := by decide
theorem chars_Index : ∀ x ∈ b!"Index", identChar x = true := by decide
theorem chars_List : ∀ x ∈ b!"List", identChar x = true := by decide

theorem kLimit_dollar (v : Bytes) : (Scope.kLimit ++ v).contains 36 = true := by simp [Scope.kLimit]
theorem kIndex_dollar (v : Bytes) : (Scope.kIndex ++ v).contains 36 = true := by simp [Scope.kIndex]

theorem chars_Step : ∀ x ∈ b!"Step", identChar x = true := by decide
theorem kStep_dollar (v : Bytes) : (Scope.kStep ++ v).contains 36 = true := by simp [Scope.kStep]
theorem kVar_dollar (v : Bytes) : (Scope.kVar ++ v).contains 36 = true := by simp [Scope.kVar]

theorem pushForRange_ok {sc : Scope} {v : Bytes} (h : ScopeOk sc) (hv : IsIdent v) :
    IsIdent (sc.pushForRange v).1.1 ∧ IsIdent (sc.pushForRange v).1.2.1 ∧ IsIdent (sc.pushForRange v).1.2.2.1 ∧
      IsIdent (sc.pushForRange v).1.2.2.2 ∧ ScopeOk (sc.pushForRange v).2 := by
  have h1 : IsIdent (Scope.jsname v [] (sc.n + 1)) := jsname_ident hv (by simp) _
  have h2 : IsIdent (Scope.jsname v b!"Limit" (sc.n + 1)) := jsname_ident hv chars_Limit _
  have h3 : IsIdent (Scope.jsname v b!"Step" (sc.n + 1)) := jsname_ident hv chars_Step _
  have h4 : IsIdent (Scope.jsname v b!"Index" (sc.n + 1)) := jsname_ident hv chars_Index _
  refine ⟨h1, h2, h3, h4, ?_⟩
  intro f hf
  simp only [Scope.pushForRange, List.mem_cons] at hf
  rcases hf with rfl | hf
  · exact frameSet_ok _ _ _ (frameSet_ok _ _ _ (frameSet_ok _ _ _ (frameSet_ok _ _ _ (frameSet_ok _ _ _ frameOk_nil h1
      (nameFor_jsname v [] _)) h2 (nameFor_dollar (kLimit_dollar v))) h3 (nameFor_dollar (kStep_dollar v))) h4
      (nameFor_dollar (kIndex_dollar v))) h1 (nameFor_dollar (kVar_dollar v))
  · exact h f hf

theorem pushForEach_ok {sc : Scope} {v : Bytes} (h : ScopeOk sc) (hv : IsIdent v) :
    IsIdent (sc.pushForEach v).1.1 ∧ IsIdent (sc.pushForEach v).1.2.1 ∧ IsIdent (sc.pushForEach v).1.2.2.1 ∧
      IsIdent (sc.pushForEach v).1.2.2.2 ∧ ScopeOk (sc.pushForEach v).2 := by
  have h1 : IsIdent (Scope.jsname v [] (sc.n + 1)) := jsname_ident hv (by simp) _
  have h2 : IsIdent (Scope.jsname v b!"Limit" (sc.n + 1)) := jsname_ident hv chars_Limit _
  have h3 : IsIdent (Scope.jsname v b!"Index" (sc.n + 1)) := jsname_ident hv chars_Index _
  have h4 : IsIdent (Scope.jsname v b!"List" (sc.n + 1)) := jsname_ident hv chars_List _
  refine ⟨h1, h4, h2, h3, ?_⟩
  intro f hf
  simp only [Scope.pushForEach, List.mem_cons] at hf
  rcases hf with rfl | hf
  · exact frameSet_ok _ _ _ (frameSet_ok _ _ _ (frameSet_ok _ _ _ frameOk_nil h1 (nameFor_jsname v [] _)) h2
      (nameFor_dollar (kLimit_dollar v))) h3 (nameFor_dollar (kIndex_dollar v))
  · exact h f hf

end SoyVerif.Lemmas.JsGenSpec
