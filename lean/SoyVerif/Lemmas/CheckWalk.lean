/-
  The checker's walk over commands: `checkCmd` / `checkBlock` / … succeed exactly on the
  constructs the specification calls well-scoped (`Spec.OkCmd` …), and then mark exactly their
  free reference occurrences (`Spec.refsCmd` …).  Mutual structural induction over the tree.
-/
import SoyVerif.Lemmas.CheckRefs

namespace SoyVerif.Lemmas.Check
open SoyVerif SoyVerif.Model SoyVerif.Model.Check SoyVerif.Spec

/-! ### more combinators -/

theorem Framed.of_exec_eq {m m' : C Unit} {P : Env → Prop} {T : Env → List Target} {D : List Spec.Binding}
    (h : Framed m' P T D) (he : ∀ st, exec m st = exec m' st) : Framed m P T D := by
  intro st st'
  rw [he, h st st']

/-- sequencing of two computations that declare nothing -/
theorem Framed.seq0 {a b : C Unit} {P Q : Env → Prop} {T U : Env → List Target}
    (ha : Framed a P T []) (hb : Framed b Q U []) :
    Framed (a >>= fun _ => b) (fun env => P env ∧ Q env) (fun env => T env ++ U env) [] :=
  (ha.seq hb).congr (fun env => by simp) (fun env => by simp)

/-- `inScope` in general -/
theorem Framed.scopeIn {m : C Unit} {P : Env → Prop} {T : Env → List Target} {D : List Spec.Binding}
    (h : Framed m P T D) :
    Framed (Check.inScope m)
      (fun env => P env ∧ AllUsed env.length D (T env))
      (fun env => (T env).filter (Target.below env.length)) [] := h.scope

/-- the body of a loop: the loop variable is in scope in the body only and need not be used -/
theorem Framed.loopBody {B : C Unit} {Q : Env → Prop} {U : Env → List Target} (v : Bytes)
    (hB : Framed B Q U []) :
    Framed (get >>= fun st => (Check.declare v false >>= fun _ => B) >>= fun _ => leaveScope st.vars.length)
      (fun env => Q (env ++ [{ name := v, isLet := false }]))
      (fun env => (U (env ++ [{ name := v, isLet := false }])).filter (Target.below env.length)) [] := by
  refine ((Framed.declare v false).seq hB).scope.congr (fun env => ?_) (fun env => by simp)
  have : AllUsed env.length [{ name := v, isLet := false }]
      (U (env ++ [{ name := v, isLet := false }])) := by
    intro j b hj hb
    cases j with
    | zero => simp at hj; subst hj; simp at hb
    | succ j => simp at hj
  simp [this]

/-- `{for}` / `{foreach}`: list, then the body under the loop variable, then `ifempty` -/
theorem Framed.forLoop {L B I : C Unit} {P Q R : Env → Prop} {T U W : Env → List Target} (v : Bytes)
    (hL : Framed L P T []) (hB : Framed B Q U []) (hI : Framed I R W []) :
    Framed (L >>= fun _ => get >>= fun st => Check.declare v false >>= fun _ => B >>= fun _ =>
        leaveScope st.vars.length >>= fun _ => I)
      (fun env => P env ∧ (Q (env ++ [{ name := v, isLet := false }]) ∧ R env))
      (fun env => T env ++ ((U (env ++ [{ name := v, isLet := false }])).filter (Target.below env.length)
        ++ W env)) [] := by
  refine (hL.seq0 ((Framed.loopBody v hB).seq0 hI)).of_exec_eq (fun st => ?_)
  simp only [exec_bind, exec_get_bind, Option.bind_assoc]

/-! ### command lists without the let-used rule -/

/-- the bindings a command list leaves behind -/
def decls : CmdList → List Spec.Binding
  | .nil => []
  | .cons c r => decl c ++ decls r

section
variable (reg : List Check.Template) (params : List Bytes)

/-- every command of the list is well-scoped in its environment -/
def cmdsOk (env : Env) : CmdList → Prop
  | .nil => True
  | .cons c r => OkCmd reg params env c ∧ cmdsOk (env ++ decl c) r

/-- R3 for a command list, as the checker sees it when it leaves the list -/
theorem OkCmds_iff : (cs : CmdList) → (env : Env) →
    (OkCmds reg params env cs
      ↔ cmdsOk reg params env cs ∧ AllUsed env.length (decls cs) (refsCmds reg params env cs))
  | .nil, env => by simp [OkCmds, cmdsOk, decls, AllUsed_nil]
  | .cons c r, env => by
    simp only [OkCmds, cmdsOk, decls, refsCmds, OkCmds_iff r (env ++ decl c), LetUsed]
    rw [AllUsed_append_left (refsCmd_below c env)]
    rcases decl_cases c with h | ⟨name, h⟩
    · simp [h, and_assoc]
    · simp only [h, ne_eq, List.cons_ne_self, not_false_eq_true, true_implies, List.length_append,
        List.length_cons, List.length_nil, List.singleton_append, AllUsed_cons]
      constructor
      · rintro ⟨h1, h2, h3, h4⟩
        exact ⟨⟨h1, h3⟩, h2, h4⟩
      · rintro ⟨⟨h1, h3⟩, h2, h4⟩
        exact ⟨h1, h2, h3, h4⟩

theorem paramKeys_eq : (ps : ParamList) → paramKeys ps = callKeys ps
  | .nil => rfl
  | .value _ k _ r => by simp [paramKeys, callKeys, paramKeys_eq r]
  | .content _ k _ r => by simp [paramKeys, callKeys, paramKeys_eq r]

end

/-! ### the walk -/

section
variable {reg : List Check.Template} {params : List Bytes}

theorem FramedKeys.keys {m : C Unit} {ks : List Bytes} {ls : List LoopOcc}
    (h : FramedKeys params m ks ls) :
    Framed m (fun env => ExprsOk params env ks ls) (fun env => refsKeys params env ks) [] := h

/-- a closed construct inside `inScope`: nothing it declares can be used -/
theorem Framed.scopeCmd {m : C Unit} {c : Cmd}
    (h : Framed m (fun env => OkCmd reg params env c) (fun env => refsCmd reg params env c) (decl c)) :
    Framed (Check.inScope m) (fun env => OkCmd reg params env c ∧ decl c = [])
      (fun env => refsCmd reg params env c) [] := by
  refine h.scopeIn.congr (fun env => ?_) (fun env => ((refsCmd_below c env).filter_eq).symm)
  rcases decl_cases c with hd | ⟨name, hd⟩
  · simp [hd, AllUsed_nil]
  · have : ¬ AllUsed env.length [{ name := name, isLet := true }] (refsCmd reg params env c) := by
      intro hu
      exact (refsCmd_below c env).not_mem (j := 0) (hu 0 { name := name, isLet := true } (by simp) rfl)
    simp [hd, this]

mutual
  theorem framed_cmd : (c : Cmd) →
      Framed (checkCmd reg params c) (fun env => OkCmd reg params env c)
        (fun env => refsCmd reg params env c) (decl c)
    | .rawText .. => by simpa only [checkCmd, OkCmd, refsCmd, decl] using Framed.pure
    | .debugger .. => by simpa only [checkCmd, OkCmd, refsCmd, decl] using Framed.pure
    | .namespace .. => by simpa only [checkCmd, OkCmd, refsCmd, decl] using Framed.pure
    | .soyDoc .. => by simpa only [checkCmd, OkCmd, refsCmd, decl] using Framed.pure
    | .headerParam .. => by simpa only [checkCmd, OkCmd, refsCmd, decl] using Framed.reject
    | .print _ a dirs => by
      simpa only [checkCmd, OkCmd, refsCmd, decl] using
        ((framed_expr a).seq (framed_dirs reg dirs)).inScope.keys
    | .msg _ _ _ _ _ body => by
      simpa only [checkCmd, OkCmd, refsCmd, decl] using (framed_parts body).inScope
    | .css _ e _ => by
      simpa only [checkCmd, OkCmd, refsCmd, decl] using (framed_optExpr e).inScope.keys
    | .log _ b => by
      simpa only [checkCmd, OkCmd, refsCmd, decl] using (framed_block b).inScope
    | .ifc _ conds => by
      simpa only [checkCmd, OkCmd, refsCmd, decl] using (framed_conds conds).inScope
    | .forc _ v l b (some b') => by
      simpa only [checkCmd, OkCmd, refsCmd, decl] using
        Framed.forLoop v (framed_expr l).keys (framed_block b) (framed_block b')
    | .forc _ v l b none => by
      simpa only [checkCmd, OkCmd, refsCmd, decl] using
        Framed.forLoop v (framed_expr l).keys (framed_block b) Framed.pure
    | .switch _ v cases => by
      simpa only [checkCmd, OkCmd, refsCmd, decl] using
        ((framed_expr v).keys.seq0 (framed_cases cases)).inScope
    | .call _ name allData d ps => by
      simp only [checkCmd, OkCmd, refsCmd, decl, paramKeys_eq]
      exact (Framed.checkCall reg params name allData d.isSome (callKeys ps)).seq0
        ((framed_optExpr d).keys.seq0 (framed_params ps)).inScope
    | .letValue _ name e => by
      simp only [checkCmd, OkCmd, refsCmd, decl]
      refine ((Framed.checkLet name).seqD
        ((framed_expr e).inScope.keys.seqD (Framed.declare name true) ?_) ?_).congr ?_ ?_
      · intro env t ht
        exact Target.below_mono (refsKeys_below t ht) (Nat.le_add_right _ _)
      · intro env t ht
        cases ht
      · intro env
        simp
      · intro env
        simp
    | .letContent _ name b => by
      simp only [checkCmd, OkCmd, refsCmd, decl]
      refine ((Framed.checkLet name).seqD
        ((framed_block b).inScope.seqD (Framed.declare name true) ?_) ?_).congr ?_ ?_
      · intro env t ht
        exact Target.below_mono (refsBlock_below env b t ht) (Nat.le_add_right _ _)
      · intro env t ht
        cases ht
      · intro env
        simp
      · intro env
        simp
    | .template _ _ b _ _ => by
      simpa only [checkCmd, OkCmd, refsCmd, decl] using (framed_block b).inScope
  theorem framed_block : (b : Block) →
      Framed (checkBlock reg params b) (fun env => OkBlock reg params env b)
        (fun env => refsBlock reg params env b) []
    | .mk _ cmds => by
      simp only [checkBlock, OkBlock, refsBlock]
      exact (framed_cmds cmds).scope.congr (fun env => OkCmds_iff reg params cmds env) (fun _ => rfl)
  theorem framed_cmds : (cs : CmdList) →
      Framed (checkCmds reg params cs) (fun env => cmdsOk reg params env cs)
        (fun env => refsCmds reg params env cs) (decls cs)
    | .nil => by simpa only [checkCmds, cmdsOk, refsCmds, decls] using Framed.pure
    | .cons c r => by
      simp only [checkCmds, cmdsOk, refsCmds, decls]
      refine (framed_cmd c).seqD (framed_cmds r) ?_
      intro env t ht
      exact Target.below_mono (refsCmd_below c env t ht) (Nat.le_add_right _ _)
  theorem framed_conds : (cs : CondList) →
      Framed (checkConds reg params cs) (fun env => OkConds reg params env cs)
        (fun env => refsConds reg params env cs) []
    | .nil => by simpa only [checkConds, OkConds, refsConds] using Framed.pure
    | .cons _ c b r => by
      simpa only [checkConds, OkConds, refsConds] using
        ((framed_optExpr c).keys.seq0 (framed_block b)).inScope.seq0 (framed_conds r)
  theorem framed_cases : (cs : CaseList) →
      Framed (checkCases reg params cs) (fun env => OkCases reg params env cs)
        (fun env => refsCases reg params env cs) []
    | .nil => by simpa only [checkCases, OkCases, refsCases] using Framed.pure
    | .cons _ vs b r => by
      simpa only [checkCases, OkCases, refsCases] using
        ((framed_block b).seq0 (framed_exprList vs).keys).inScope.seq0 (framed_cases r)
  theorem framed_params : (ps : ParamList) →
      Framed (checkParams reg params ps) (fun env => OkParams reg params env ps)
        (fun env => refsParams reg params env ps) []
    | .nil => by simpa only [checkParams, OkParams, refsParams] using Framed.pure
    | .value _ _ e r => by
      simpa only [checkParams, OkParams, refsParams] using
        (framed_expr e).inScope.keys.seq0 (framed_params r)
    | .content _ _ b r => by
      simpa only [checkParams, OkParams, refsParams] using
        (framed_block b).inScope.seq0 (framed_params r)
  theorem framed_parts : (ps : MsgParts) →
      Framed (checkParts reg params ps) (fun env => OkParts reg params env ps)
        (fun env => refsParts reg params env ps) []
    | .nil => by simpa only [checkParts, OkParts, refsParts] using Framed.pure
    | .text _ _ r => by simpa only [checkParts, OkParts, refsParts] using framed_parts r
    | .ph _ _ (.htmlTag ..) r => by
      simpa only [checkParts, OkParts, refsParts] using Framed.pure.inScope.seq0 (framed_parts r)
    | .ph _ _ (.cmd c) r => by
      simpa only [checkParts, OkParts, refsParts] using (framed_cmd c).scopeCmd.seq0 (framed_parts r)
    | .plural _ _ v cases _ d r => by
      simpa only [checkParts, OkParts, refsParts] using
        ((framed_expr v).keys.seq0 ((framed_plCases cases).seq0 (framed_parts d).inScope)).inScope.seq0
          (framed_parts r)
  theorem framed_plCases : (cs : PluralCases) →
      Framed (checkPlCases reg params cs) (fun env => OkPlCases reg params env cs)
        (fun env => refsPlCases reg params env cs) []
    | .nil => by simpa only [checkPlCases, OkPlCases, refsPlCases] using Framed.pure
    | .cons _ _ _ b r => by
      simpa only [checkPlCases, OkPlCases, refsPlCases] using
        (framed_parts b).inScope.inScope.seq0 (framed_plCases r)
end

end

end SoyVerif.Lemmas.Check
