/-
  Every state function of the lexer model returns (no PANIC), re-establishes the invariant
  `Good` and decreases the measure `phi` when it hands over to a next state.
-/
import SoyVerif.Lemmas.Lexer

namespace SoyVerif.Model.Lex
open SoyVerif SoyVerif.Model

/-- `lexNegative`, called by lexInsideTag (`l0`) right after reading '-' -/
theorem lexNegative_sat {n : Int} {l0 l : Lexer} (hn : l.len = n ∧ (l.mp : Int) ≤ n ∧ 0 ≤ l.tagStart ∧ l.tagStart ≤ n ∧ (l.bad = 0 ∧ l.cnt ≤ 2 * l.start ∧ l.tot ≤ l.start) ∧ l.tagBad = 0) (h0 : 0 ≤ l.start)
    (h1 : l.start ≤ l0.pos) (h2 : l.pos ≤ n) (hadv : l0.pos < l.pos) (hn0 : l0.pos < n) (hi0 : l.input = l0.input) :
    Sat (lexNegative l) (Post n .insideTag l0) := by
  unfold lexNegative
  split
  · apply Sat.bind
    apply peek_sat (by lx)
    intro p1 l1 hl1 hs1 hp1 hf1
    dsimp only
    apply Sat.bind
    split
    · apply Sat.bind
      apply peek_sat (by lx)
      intro p2 l2 hl2 hs2 hp2 hf2
      dsimp only
      apply Sat.ret
      dsimp only
      split
      · rename_i hnum
        have hnum := of_decide_eq_true hnum
        fin
      · apply Sat.bind
        em l3 hl3 hp3 hs3 hw3
        fin
    · apply Sat.ret
      dsimp only
      rw [if_neg (by simp)]
      apply Sat.bind
      em l3 hl3 hp3 hs3 hw3
      fin
  · apply Sat.bind
    em l3 hl3 hp3 hs3 hw3
    fin


theorem isSpaceEOL_nonneg {r : Int} (h : isSpaceEOL r = true) : 0 ≤ r := by
  simp only [isSpaceEOL, isSpace, isEndOfLine, Bool.or_eq_true, beq_iff_eq] at h
  omega

theorem isLetterOrUnderscore_nonneg {r : Int} (h : isLetterOrUnderscore r = true) : 65 ≤ r := by
  simp only [isLetterOrUnderscore, Bool.or_eq_true, Bool.and_eq_true, decide_eq_true_eq, beq_iff_eq] at h
  omega

theorem lexSymbol_sat {n : Int} {l0 l : Lexer} (hn : l.len = n ∧ (l.mp : Int) ≤ n ∧ 0 ≤ l.tagStart ∧ l.tagStart ≤ n ∧ (l.bad = 0 ∧ l.cnt ≤ 2 * l.start ∧ l.tot ≤ l.start) ∧ l.tagBad = 0) (h0 : 0 ≤ l.start)
    (h1 : l.start ≤ l0.pos) (h2 : l.pos ≤ n) (hadv : l0.pos < l.pos) (hi0 : l.input = l0.input) :
    Sat (lexSymbol l) (Post n .insideTag l0) := by
  unfold lexSymbol
  apply Sat.bind
  apply accept_sat (by lx) (by lx)
  intro b l1 hl1 hs1 hp1 hle1 _
  dsimp only
  apply Sat.bind
  apply sliceOf_sat (by lx) (by lx) (by lx)
  intro sym _
  split
  · first | exact errorf_sat (by lx) (by inq) | exact errorfAt_sat (by lx) (by inq) (by first | exact tag_err (by lx) (by lx) (Or.inl rfl) | exact tag_err (by lx) (by lx) (Or.inr rfl))
  · exact emitInside_sat (by lx) (by lx) (by lx) (by lx) (by lx) (by eok) (by inq)

/-- facts about the lexer handed to the later cases of lexInsideTag: `r` was read from `l0`;
    unless a case condition peeked (`r` = '/' or '='), `backup` returns to `l0.pos` -/
theorem lexInsideTagRest_sat {n : Int} {l0 l : Lexer} {r : Int} (hn : l.len = n ∧ (l.mp : Int) ≤ n ∧ 0 ≤ l.tagStart ∧ l.tagStart ≤ n ∧ (l.bad = 0 ∧ l.cnt ≤ 2 * l.start ∧ l.tot ≤ l.start) ∧ l.tagBad = 0) (h0 : 0 ≤ l.start)
    (h1 : l.start = l0.pos) (h2 : l.pos ≤ n)
    (hr : (r = -1 ∧ l.pos = l0.pos) ∨ (0 ≤ r ∧ l0.pos < l.pos ∧ (128 ≤ r ∨ r = 47 ∨ r = 61 ∨ l.pos = l0.pos + 1)))
    (hb : r = 47 ∨ r = 61 ∨ l.pos - l.width = l0.pos)
    (hc : 0 ≤ r → r < 128 → (byteAt l.input l0.pos.toNat : Int) = r) (hi0 : l.input = l0.input) :
    Sat (lexInsideTagRest r l) (Post n .insideTag l0) := by
  unfold lexInsideTagRest
  split
  · -- the opening quote has just been read: `lexString r` starts one byte after `l.start`
    rename_i hq
    apply Sat.ret
    apply Post.of (by lx) (by lx) (by lx) (by lx) (by lx) (by intro _ _; lx) (by intro _ _; lx) ?_ (by inq)
    simp only [Extra]
    refine ⟨by lx, ?_, hq⟩
    rw [h1]
    exact hc (by omega) (by omega)
  split
  · exact emitInside_sat (by lx) (by lx) (by lx) (by lx) (by lx) (by eok) (by inq)
  split
  · first | exact errorf_sat (by lx) (by inq) | exact errorfAt_sat (by lx) (by inq) (by first | exact tag_err (by lx) (by lx) (Or.inl rfl) | exact tag_err (by lx) (by lx) (Or.inr rfl))
  split
  · exact emitInside_sat (by lx) (by lx) (by lx) (by lx) (by lx) (by eok) (by inq)
  split
  · rename_i hl
    have := isLetterOrUnderscore_nonneg hl
    fin
  split
  · exact emitInside_sat (by lx) (by lx) (by lx) (by lx) (by lx) (by eok) (by inq)
  split
  · fin
  · first | exact errorf_sat (by lx) (by inq) | exact errorfAt_sat (by lx) (by inq) (by first | exact tag_err (by lx) (by lx) (Or.inl rfl) | exact tag_err (by lx) (by lx) (Or.inr rfl))

set_option maxHeartbeats 1000000 in
theorem lexInsideTagMid_sat {n : Int} {l0 l : Lexer} {r : Int} (hn : l.len = n ∧ (l.mp : Int) ≤ n ∧ 0 ≤ l.tagStart ∧ l.tagStart ≤ n ∧ (l.bad = 0 ∧ l.cnt ≤ 2 * l.start ∧ l.tot ≤ l.start) ∧ l.tagBad = 0) (h0 : 0 ≤ l.start)
    (h1 : l.start = l0.pos) (h2 : l.pos ≤ n)
    (hr : (r = -1 ∧ l.pos = l0.pos) ∨ (0 ≤ r ∧ l0.pos < l.pos ∧ (128 ≤ r ∨ r = 47 ∨ l.pos = l0.pos + 1)))
    (hb : r = 47 ∨ l.pos - l.width = l0.pos)
    (hc : 0 ≤ r → r < 128 → (byteAt l.input l0.pos.toNat : Int) = r) (hi0 : l.input = l0.input) :
    Sat (lexInsideTagMid r l) (Post n .insideTag l0) := by
  unfold lexInsideTagMid
  split
  · fin
  split
  · exact emitInside_sat (by lx) (by lx) (by lx) (by lx) (by lx) (by eok) (by inq)
  split
  · exact emitInside_sat (by lx) (by lx) (by lx) (by lx) (by lx) (by eok) (by inq)
  split
  · nx r2 l2 hl2 hs2 hf2
    split
    · fin
    split
    · exact emitInside_sat (by lx) (by lx) (by lx) (by lx) (by lx) (by eok) (by inq)
    split
    · exact emitInside_sat (by lx) (by lx) (by lx) (by lx) (by lx) (by eok) (by inq)
    · exact emitInside_sat (by lx) (by lx) (by lx) (by lx) (by lx) (by eok) (by inq)
  split
  · exact lexNegative_sat (by lx) (by lx) (by lx) (by lx) (by lx) (by lx) (by inq)
  split
  · fin
  split
  · fin
  split
  · exact emitInside_sat (by lx) (by lx) (by lx) (by lx) (by lx) (by eok) (by inq)
  split
  · exact lexSymbol_sat (by lx) (by lx) (by lx) (by lx) (by lx) (by inq)
  split
  · apply Sat.bind
    apply peek_sat (by lx)
    intro p l2 hl2 hs2 hp2 hf2
    dsimp only
    split
    · exact lexSymbol_sat (by lx) (by lx) (by lx) (by lx) (by lx) (by inq)
    · exact lexInsideTagRest_sat (by lx) (by lx) (by lx) (by lx) (by lx) (by lx) (by rw [hl2.2.2.2.2.2]; exact hc) (by inq)
  · exact lexInsideTagRest_sat (by lx) (by lx) (by lx) (by lx) (by lx) (by lx) hc (by inq)

theorem lexInsideTag_ok {n : Int} {l : Lexer} (hg : Good n l) (hx : Extra .insideTag l) :
    Sat (lexInsideTag l) (Post n .insideTag l) := by
  obtain ⟨hn, hs0, hsp, hpn⟩ := hg
  simp only [Extra] at hx
  unfold lexInsideTag
  apply Sat.bind; apply next_sat_c (by lx); intro r l1 hl1 hs1 hf1 hc1; unfold NextFacts at hf1; dsimp only
  split
  · rename_i hsp
    have := isSpaceEOL_nonneg hsp
    fin
  split
  · apply Sat.bind
    apply peek_sat (by lx)
    intro p l2 hl2 hs2 hp2 hf2
    dsimp only
    split
    · fin
    · exact lexInsideTagMid_sat (by lx) (by lx) (by lx) (by lx) (by lx) (by lx) (by rw [hl2.2.2.2.2.2, hl1.2.2.2.2.2]; exact hc1) (by inq)
  · exact lexInsideTagMid_sat (by lx) (by lx) (by lx) (by lx) (by lx) (by lx) (by rw [hl1.2.2.2.2.2]; exact hc1) (by inq)

end SoyVerif.Model.Lex
