/-
  Every state function of the lexer model returns (no PANIC), re-establishes the invariant
  `Good` and decreases the measure `phi` when it hands over to a next state.
-/
import SoyVerif.Lemmas.Lexer

namespace SoyVerif.Model.Lex
open SoyVerif SoyVerif.Model

/-- `lexNegative`, called by lexInsideTag (`l0`) right after reading '-' -/
theorem lexNegative_sat {n : Int} {l0 l : Lexer} (hn : l.len = n ∧ (l.mp : Int) ≤ n ∧ 0 ≤ l.tagStart ∧ l.tagStart ≤ n ∧ l.bad = 0) (h0 : 0 ≤ l.start)
    (h1 : l.start ≤ l0.pos) (h2 : l.pos ≤ n) (hadv : l0.pos < l.pos) (hn0 : l0.pos < n) :
    Sat (lexNegative l) (Post n .insideTag l0) := by
  unfold lexNegative
  split
  · apply Sat.bind
    apply peek_sat (by lx)
    intro p1 l1 hl1 hs1 hp1 hf1
    dsimp only
    apply Sat.bind
    split
    · apply Sat.bind
      apply peek_sat (by lx)
      intro p2 l2 hl2 hs2 hp2 hf2
      dsimp only
      apply Sat.ret
      dsimp only
      split
      · rename_i hnum
        have hnum := of_decide_eq_true hnum
        fin
      · apply Sat.bind
        em l3 hl3 hp3 hs3 hw3
        fin
    · apply Sat.ret
      dsimp only
      rw [if_neg (by simp)]
      apply Sat.bind
      em l3 hl3 hp3 hs3 hw3
      fin
  · apply Sat.bind
    em l3 hl3 hp3 hs3 hw3
    fin


theorem isSpaceEOL_nonneg {r : Int} (h : isSpaceEOL r = true) : 0 ≤ r := by
  simp only [isSpaceEOL, isSpace, isEndOfLine, Bool.or_eq_true, beq_iff_eq] at h
  omega

theorem isLetterOrUnderscore_nonneg {r : Int} (h : isLetterOrUnderscore r = true) : 65 ≤ r := by
  simp only [isLetterOrUnderscore, Bool.or_eq_true, Bool.and_eq_true, decide_eq_true_eq, beq_iff_eq] at h
  omega

theorem lexSymbol_sat {n : Int} {l0 l : Lexer} (hn : l.len = n ∧ (l.mp : Int) ≤ n ∧ 0 ≤ l.tagStart ∧ l.tagStart ≤ n ∧ l.bad = 0) (h0 : 0 ≤ l.start)
    (h1 : l.start ≤ l0.pos) (h2 : l.pos ≤ n) (hadv : l0.pos < l.pos) :
    Sat (lexSymbol l) (Post n .insideTag l0) := by
  unfold lexSymbol
  apply Sat.bind
  apply accept_sat (by lx) (by lx)
  intro b l1 hl1 hs1 hp1 hle1 _
  dsimp only
  apply Sat.bind
  apply sliceOf_sat (by lx) (by lx) (by lx)
  intro sym _
  split
  · first | exact errorf_sat (by lx) | exact errorfAt_sat (by lx)
  · exact emitInside_sat (by lx) (by lx) (by lx) (by lx) (by lx) (by eok)

/-- facts about the lexer handed to the later cases of lexInsideTag: `r` was read from `l0`;
    unless a case condition peeked (`r` = '/' or '='), `backup` returns to `l0.pos` -/
theorem lexInsideTagRest_sat {n : Int} {l0 l : Lexer} {r : Int} (hn : l.len = n ∧ (l.mp : Int) ≤ n ∧ 0 ≤ l.tagStart ∧ l.tagStart ≤ n ∧ l.bad = 0) (h0 : 0 ≤ l.start)
    (h1 : l.start ≤ l0.pos) (h2 : l.pos ≤ n)
    (hr : (r = -1 ∧ l.pos = l0.pos) ∨ (0 ≤ r ∧ l0.pos < l.pos))
    (hb : r = 47 ∨ r = 61 ∨ l.pos - l.width = l0.pos) :
    Sat (lexInsideTagRest r l) (Post n .insideTag l0) := by
  unfold lexInsideTagRest
  split
  · fin
  split
  · exact emitInside_sat (by lx) (by lx) (by lx) (by lx) (by lx) (by eok)
  split
  · first | exact errorf_sat (by lx) | exact errorfAt_sat (by lx)
  split
  · exact emitInside_sat (by lx) (by lx) (by lx) (by lx) (by lx) (by eok)
  split
  · rename_i hl
    have := isLetterOrUnderscore_nonneg hl
    fin
  split
  · exact emitInside_sat (by lx) (by lx) (by lx) (by lx) (by lx) (by eok)
  split
  · fin
  · first | exact errorf_sat (by lx) | exact errorfAt_sat (by lx)

set_option maxHeartbeats 1000000 in
theorem lexInsideTagMid_sat {n : Int} {l0 l : Lexer} {r : Int} (hn : l.len = n ∧ (l.mp : Int) ≤ n ∧ 0 ≤ l.tagStart ∧ l.tagStart ≤ n ∧ l.bad = 0) (h0 : 0 ≤ l.start)
    (h1 : l.start ≤ l0.pos) (h2 : l.pos ≤ n)
    (hr : (r = -1 ∧ l.pos = l0.pos) ∨ (0 ≤ r ∧ l0.pos < l.pos ∧ (128 ≤ r ∨ l.pos = l0.pos + 1)))
    (hb : r = 47 ∨ l.pos - l.width = l0.pos) :
    Sat (lexInsideTagMid r l) (Post n .insideTag l0) := by
  unfold lexInsideTagMid
  split
  · fin
  split
  · exact emitInside_sat (by lx) (by lx) (by lx) (by lx) (by lx) (by eok)
  split
  · exact emitInside_sat (by lx) (by lx) (by lx) (by lx) (by lx) (by eok)
  split
  · nx r2 l2 hl2 hs2 hf2
    split
    · fin
    split
    · exact emitInside_sat (by lx) (by lx) (by lx) (by lx) (by lx) (by eok)
    split
    · exact emitInside_sat (by lx) (by lx) (by lx) (by lx) (by lx) (by eok)
    · exact emitInside_sat (by lx) (by lx) (by lx) (by lx) (by lx) (by eok)
  split
  · exact lexNegative_sat (by lx) (by lx) (by lx) (by lx) (by lx) (by lx)
  split
  · fin
  split
  · fin
  split
  · exact emitInside_sat (by lx) (by lx) (by lx) (by lx) (by lx) (by eok)
  split
  · exact lexSymbol_sat (by lx) (by lx) (by lx) (by lx) (by lx)
  split
  · apply Sat.bind
    apply peek_sat (by lx)
    intro p l2 hl2 hs2 hp2 hf2
    dsimp only
    split
    · exact lexSymbol_sat (by lx) (by lx) (by lx) (by lx) (by lx)
    · exact lexInsideTagRest_sat (by lx) (by lx) (by lx) (by lx) (by lx) (by lx)
  · exact lexInsideTagRest_sat (by lx) (by lx) (by lx) (by lx) (by lx) (by lx)

theorem lexInsideTag_ok {n : Int} {l : Lexer} (hg : Good n l) :
    Sat (lexInsideTag l) (Post n .insideTag l) := by
  obtain ⟨hn, hs0, hsp, hpn⟩ := hg
  unfold lexInsideTag
  nx r l1 hl1 hs1 hf1
  split
  · rename_i hsp
    have := isSpaceEOL_nonneg hsp
    fin
  split
  · apply Sat.bind
    apply peek_sat (by lx)
    intro p l2 hl2 hs2 hp2 hf2
    dsimp only
    split
    · fin
    · exact lexInsideTagMid_sat (by lx) (by lx) (by lx) (by lx) (by lx) (by lx)
  · exact lexInsideTagMid_sat (by lx) (by lx) (by lx) (by lx) (by lx) (by lx)

end SoyVerif.Model.Lex
