/-
  Shapes of the trees the file parser builds, as far as its type assertions need them:
  `placeholderize(parent)` asserts `pc.Body.(*ast.ListNode)` and `child.Default.(*ast.ListNode)`,
  `parsePlural` asserts `node.Body.(ast.ParentNode)`.  `childrenOK ns` is what makes
  `placeholderize (.list p ns)` succeed.
-/
import SoyVerif.Model.FileParser

namespace SoyVerif.Lemmas.ParserSafe
open SoyVerif SoyVerif.Model SoyVerif.Model.FileParser

/-- a node that may become a child of a message body: a plural must be placeholderizable -/
def childOK : Node → Prop
  | .plural _ _ cases dflt => (phCases cases).isSome = true ∧ (placeholderize dflt).isSome = true
  | _ => True

def childrenOK : NodeList → Prop
  | .nil => True
  | .cons c r => childOK c ∧ childrenOK r

/-- an `*ast.ListNode` whose children are fine -/
def listOK : Node → Prop
  | .list _ ns => childrenOK ns
  | _ => False

/-- switch cases: `*ast.SwitchCaseNode`s whose bodies are lists -/
def casesOK : NodeList → Prop
  | .nil => True
  | .cons c r => (match c with | .switchCase _ _ b => listOK b | _ => False) ∧ casesOK r

/-- plural cases: `*ast.MsgPluralCaseNode`s whose bodies are lists -/
def pcasesOK : NodeList → Prop
  | .nil => True
  | .cons c r => (match c with | .pluralCase _ _ b => listOK b | _ => False) ∧ pcasesOK r

theorem childrenOK_nil : childrenOK .nil := trivial
theorem casesOK_nil : casesOK .nil := trivial
theorem pcasesOK_nil : pcasesOK .nil := trivial

theorem childrenOK_append : ∀ (n : Nat) (a b : NodeList), a.length = n →
    childrenOK a → childrenOK b → childrenOK (a.append b) := by
  intro n
  induction n with
  | zero =>
    intro a b hl ha hb
    cases a with
    | nil => simpa [NodeList.append] using hb
    | cons c r => simp [NodeList.length] at hl
  | succ k ih =>
    intro a b hl ha hb
    cases a with
    | nil => simpa [NodeList.append] using hb
    | cons c r =>
      simp only [NodeList.length] at hl
      simp only [NodeList.append, childrenOK] at ha ⊢
      exact ⟨ha.1, ih r b (by omega) ha.2 hb⟩

theorem casesOK_append : ∀ (n : Nat) (a b : NodeList), a.length = n →
    casesOK a → casesOK b → casesOK (a.append b) := by
  intro n
  induction n with
  | zero =>
    intro a b hl ha hb
    cases a with
    | nil => simpa [NodeList.append] using hb
    | cons c r => simp [NodeList.length] at hl
  | succ k ih =>
    intro a b hl ha hb
    cases a with
    | nil => simpa [NodeList.append] using hb
    | cons c r =>
      simp only [NodeList.length] at hl
      simp only [NodeList.append, casesOK] at ha ⊢
      exact ⟨ha.1, ih r b (by omega) ha.2 hb⟩

theorem pcasesOK_append : ∀ (n : Nat) (a b : NodeList), a.length = n →
    pcasesOK a → pcasesOK b → pcasesOK (a.append b) := by
  intro n
  induction n with
  | zero =>
    intro a b hl ha hb
    cases a with
    | nil => simpa [NodeList.append] using hb
    | cons c r => simp [NodeList.length] at hl
  | succ k ih =>
    intro a b hl ha hb
    cases a with
    | nil => simpa [NodeList.append] using hb
    | cons c r =>
      simp only [NodeList.length] at hl
      simp only [NodeList.append, pcasesOK] at ha ⊢
      exact ⟨ha.1, ih r b (by omega) ha.2 hb⟩

theorem phChildren_isSome : ∀ (n : Nat) (ns : NodeList), ns.length = n → childrenOK ns →
    (phChildren ns).isSome = true := by
  intro n
  induction n with
  | zero =>
    intro ns hl _
    cases ns with
    | nil => simp [phChildren]
    | cons c r => simp [NodeList.length] at hl
  | succ k ih =>
    intro ns hl h
    cases ns with
    | nil => simp [phChildren]
    | cons c r =>
      simp only [NodeList.length] at hl
      simp only [childrenOK] at h
      have hr := ih r (by omega) h.2
      obtain ⟨r', hr'⟩ := Option.isSome_iff_exists.mp hr
      unfold phChildren
      split
      · simp [hr']
      · have hc := h.1
        simp only [childOK] at hc
        obtain ⟨cs, hcs⟩ := Option.isSome_iff_exists.mp hc.1
        obtain ⟨d, hd⟩ := Option.isSome_iff_exists.mp hc.2
        simp [hcs, hd, hr']
      · simp [hr']

theorem placeholderize_isSome {n : Node} (h : listOK n) : (placeholderize n).isSome = true := by
  cases n <;> simp only [listOK] at h
  rename_i p ns
  unfold placeholderize
  obtain ⟨r, hr⟩ := Option.isSome_iff_exists.mp (phChildren_isSome _ ns rfl h)
  simp [hr]

theorem phCases_isSome : ∀ (n : Nat) (cs : NodeList), cs.length = n → pcasesOK cs →
    (phCases cs).isSome = true := by
  intro n
  induction n with
  | zero =>
    intro cs hl _
    cases cs with
    | nil => simp [phCases]
    | cons c r => simp [NodeList.length] at hl
  | succ k ih =>
    intro cs hl h
    cases cs with
    | nil => simp [phCases]
    | cons c r =>
      simp only [NodeList.length] at hl
      simp only [pcasesOK] at h
      have hr := ih r (by omega) h.2
      obtain ⟨r', hr'⟩ := Option.isSome_iff_exists.mp hr
      have hc := h.1
      split at hc
      · rename_i p v b
        obtain ⟨b', hb'⟩ := Option.isSome_iff_exists.mp (placeholderize_isSome hc)
        unfold phCases
        simp [hb', hr']
      · exact absurd hc (by simp)

end SoyVerif.Lemmas.ParserSafe
