/-
  `GoodRun` for the building blocks of the interpreter model: leaves, sequencing, evalPrint, walkBlock,
  renderBlock, the foreach loop and evalMsgParts.
-/
import SoyVerif.Lemmas.EvalFrame

namespace SoyVerif.Model.Eval
open SoyVerif SoyVerif.Model

theorem Good.leaf {W : Nat → Prop} {ctx : Scope} {st st' : St} {c : Cls} (hc : c ≠ .panic) (e : Ext W st st') :
    Good W ctx st ⟨c, ctx, st'⟩ := ⟨hc, fun _ => rfl, e⟩

theorem Good.errAt {W : Nat → Prop} {ctx ctx' : Scope} {st st' : St} (e : Ext W st st') :
    Good W ctx st ⟨.err, ctx', st'⟩ := ⟨fun h => by simp at h, fun h => by simp at h, e⟩

/-- a result that is not ok needs no scope equation -/
theorem Good.of_not_ok {W : Nat → Prop} {ctx ctx' : Scope} {st : St} {r : R} (h : Good W ctx' st r) (hn : r.cls ≠ .ok) :
    Good W ctx st r := ⟨h.np, fun e => absurd e hn, h.ext⟩

/-- continue after an intermediate state -/
theorem Good.after {W : Nat → Prop} {ctx : Scope} {st st1 : St} {r : R} (e : Ext W st st1) (h : Good W ctx st1 r) :
    Good W ctx st r := ⟨h.np, h.ctx_eq, e.trans h.ext (fun _ _ h => h)⟩

theorem Good.mono {W W' : Nat → Prop} {ctx : Scope} {st : St} {r : R} (h : Good W ctx st r) (hw : ∀ i, W i → W' i) :
    Good W' ctx st r := ⟨h.np, h.ctx_eq, h.ext.mono hw⟩

/-! ### evalPrint -/

theorem Ext.atNode (W : Nat → Prop) (st : St) (p : Nat) : Ext W st (atNode st p) := Ext.of_heap_eq rfl rfl

theorem Own.atNode {ctx : Scope} {st : St} (h : Own ctx st) (p : Nat) : Own ctx (atNode st p) :=
  h.ext (Ext.atNode (fun _ => False) st p)

/-- moving `s.node` first changes nothing the invariant speaks about -/
theorem GoodRun.at {run : Run} (h : GoodRun run) (ctx : Scope) (st : St) (p : Nat) (hown : Own ctx st) :
    Good (fun i => i = top ctx) ctx st (run ctx (atNode st p)) :=
  Good.after (Ext.atNode _ st p) (h ctx _ (hown.atNode p))

theorem evalPrintAt_good (g : GEnv) (esc : Bool) (pos : Nat) (arg : Expr) (dirs : List Directive) :
    GoodRun (evalPrintAt g esc pos arg dirs) := by
  intro ctx st _
  unfold evalPrintAt
  split
  · exact Good.leaf (by simp) (Ext.of_heap_eq rfl rfl)
  · rename_i st1 h; exact Good.leaf (by simp) (evalIn_ext _ h)
  · rename_i v st1 _ h
    have e1 := evalIn_ext (fun i => i = top ctx) h
    split
    · exact Good.leaf (by simp) (e1.trans (Ext.atNode _ _ _) (fun _ _ h => h))
    · rename_i r esc' st2 hd
      have e2 := e1.trans (runDirectives_ext (fun i => i = top ctx) _ _ _ _ _ _ _ hd) (fun _ _ h => h)
      split
      · exact Good.leaf (by simp) e2
      · refine Good.leaf (by simp) (e2.trans ?_ (fun _ _ h => h))
        split
        · exact Ext.of_heap_eq (writeAll_heap _ _).1 (writeAll_heap _ _).2
        · exact write_ext _ _ _

theorem evalPrint_good (g : GEnv) (esc : Bool) (pos : Nat) (arg : Expr) (dirs : List Directive) :
    GoodRun (evalPrint g esc pos arg dirs) := by
  intro ctx st hown
  unfold evalPrint
  exact Good.after (Ext.atNode _ st _) (evalPrintAt_good g esc pos arg dirs ctx _ (hown.atNode _))

/-! ### walkBlock / renderBlock -/

theorem pop_cons (f : SFrame) (r : Scope) : pop (f :: r) = some r := rfl

/-- a body that is Good under the pushed frame gives a block that leaves ALL existing cells alone -/
theorem walkBlockOf_good' {body : Run} (hb : GoodRun body) (ctx : Scope) (st : St) :
    Good (fun _ => False) ctx st (walkBlockOf body ctx st) := by
  unfold walkBlockOf
  obtain ⟨hctx1, hown1, hext1, _⟩ := push_spec ctx st
  have hg := hb (push ctx st).1 (push ctx st).2 hown1
  have htop : top (push ctx st).1 = st.heap.length := by rw [hctx1]; rfl
  -- relative to `st`, the pushed cell is new: nothing that existed is writable
  have hext : Ext (fun _ => False) st (body (push ctx st).1 (push ctx st).2).st :=
    (hext1 (fun _ => False)).trans hg.ext (fun i hi hw => by rw [htop] at hw; omega)
  simp only
  split
  · rename_i hok
    have hc := hg.ctx_eq hok
    rw [hc, hctx1, pop_cons]
    exact Good.leaf (by simp) hext
  · rename_i hnok
    exact ⟨hg.np, fun e => absurd e (by intro h; exact hnok h), hext⟩

theorem walkBlockOf_good {body : Run} (hb : GoodRun body) : GoodRun (walkBlockOf body) :=
  fun ctx st _ => (walkBlockOf_good' hb ctx st).mono (fun _ h => h.elim)

theorem renderBlockOf_good' {body : Run} (hb : GoodRun body) (ctx : Scope) (st : St) :
    Good (fun _ => False) ctx st (renderBlockOf body ctx st).1 ∧ (renderBlockOf body ctx st).1.st.out = st.out := by
  unfold renderBlockOf
  have h := walkBlockOf_good' hb ctx { st with out := [] }
  refine ⟨⟨h.np, h.ctx_eq, ?_⟩, by simp⟩
  have e0 : Ext (fun _ => False) st { st with out := [] } := Ext.of_heap_eq rfl rfl
  exact (e0.trans h.ext (fun _ _ h => h)).trans (Ext.of_heap_eq (by simp) (by simp)) (fun _ _ h => h)

/-- what `renderBlockOf` is in terms of the walk on the buffer (the node aside) -/
theorem renderBlockOf_facts (body : Run) (ctx : Scope) (st : St) :
    (renderBlockOf body ctx st).1.cls = (walkBlockOf body ctx { st with out := [] }).cls ∧
    (renderBlockOf body ctx st).1.ctx = (walkBlockOf body ctx { st with out := [] }).ctx ∧
    (renderBlockOf body ctx st).1.st.heap = (walkBlockOf body ctx { st with out := [] }).st.heap ∧
    (renderBlockOf body ctx st).1.st.out = st.out ∧
    (renderBlockOf body ctx st).2 = bufBytes (walkBlockOf body ctx { st with out := [] }).st.out := by
  simp [renderBlockOf]

/-! ### the foreach loop -/

theorem forLoop_good {body : Run} (hb : GoodRun body) (var : Bytes) (last : Int) :
    ∀ (xs : List Value) (i : Nat) (ctx : Scope) (st : St), Good (fun _ => False) ctx st (forLoop body var last xs i ctx st) := by
  intro xs
  induction xs with
  | nil => intro i ctx st; unfold forLoop; exact Good.leaf (by simp) (Ext.of_heap_eq rfl rfl)
  | cons x rest ih =>
    intro i ctx st
    unfold forLoop
    obtain ⟨hctx1, hown1, hext1, _⟩ := push_spec ctx st
    have htop : top (push ctx st).1 = st.heap.length := by rw [hctx1]; rfl
    -- everything below happens in cells that did not exist in `st`
    have fresh : ∀ {s' : St}, Ext (fun i => i = top (push ctx st).1) (push ctx st).2 s' → Ext (fun _ => False) st s' :=
      fun e => (hext1 (fun _ => False)).trans e (fun i hi hw => by rw [htop] at hw; omega)
    simp only
    split
    · exact absurd ‹_› (set_ne_none hown1)
    · rename_i st2 h2
      have e2 := set_ext hown1 h2
      have own2 := hown1.ext e2
      split
      · exact absurd ‹_› (set_ne_none own2)
      · rename_i st3 h3
        have e3 := e2.trans (set_ext own2 h3) (fun _ _ h => h)
        have own3 := hown1.ext e3
        split
        · exact absurd ‹_› (set_ne_none own3)
        · rename_i st4 h4
          have e4 := e3.trans (set_ext own3 h4) (fun _ _ h => h)
          have own4 := hown1.ext e4
          have hg := hb _ st4 own4
          have e5 := e4.trans hg.ext (fun _ _ h => h)
          split
          · rename_i hok
            rw [hg.ctx_eq hok, hctx1, pop_cons]
            exact Good.after (fresh e5) (ih _ _ _)
          · rename_i hnok
            exact ⟨hg.np, fun e => absurd e (by intro h; exact hnok h), fresh e5⟩

end SoyVerif.Model.Eval
