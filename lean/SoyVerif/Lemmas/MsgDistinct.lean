/-
  The names separate exactly the distinct placeholders: two queue nodes get the same name
  iff they have the same base name and the same source text.
-/
import SoyVerif.Lemmas.MsgNames

namespace SoyVerif.Model.Msg

theorem eq_of_nodup_map {α β : Type} (f : α → β) :
    ∀ {l : List α}, (l.map f).Nodup → ∀ {a b : α}, a ∈ l → b ∈ l → f a = f b → a = b
  | [], _, _, _, ha, _, _ => by simp at ha
  | x :: l, nd, a, b, ha, hb, hab => by
    simp only [List.map_cons, List.nodup_cons] at nd
    rcases List.mem_cons.mp ha with ha' | ha' <;> rcases List.mem_cons.mp hb with hb' | hb'
    · rw [ha', hb']
    · subst ha'; exact absurd (hab ▸ List.mem_map_of_mem hb') nd.1
    · subst hb'; exact absurd (hab ▸ List.mem_map_of_mem ha') nd.1
    · exact eq_of_nodup_map f nd.2 ha' hb' hab

/-- the name a node id ends up with -/
def nameOfId (s : Step1) (i : Nat) : Bytes := ((canonNodeToName s).lookup i).getD []

theorem canonNames_getD (n : Nat) (s : Step1) (i : Nat) (hi : i < n) :
    (canonNames n s).getD i [] = nameOfId s i := by
  simp [canonNames, nameOfId, List.getD_eq_getElem?_getD, hi]

section
variable {q : List QNode} {s : Step1} (inv : Inv1 q s) (nd : (q.map (·.id)).Nodup)
include inv nd

theorem keysNd : (repIds s.reps ++ s.equiv.map Prod.fst).Nodup := inv.ids.nodup_iff.mpr nd

/-- a representative's name is its entry in the canonical `nameToRepNodes` -/
theorem rep_name {e : Bytes × List QNode} {r : QNode} (he : e ∈ s.reps) (hr : r ∈ e.2) :
    (nameOfId s r.id, r.id) ∈ canonPairs s.reps := by
  have hmem : r.id ∈ repIds s.reps := mem_repIds he hr
  have hakeys : ((canonPairs s.reps).map swap).map Prod.fst = repIds s.reps := by
    rw [map_swap_fst, canonPairs, canonPairs_snd]
  have haNd : (((canonPairs s.reps).map swap).map Prod.fst).Nodup := by
    rw [hakeys]; exact (List.nodup_append.mp (keysNd inv nd)).1
  -- the lookup in the first part succeeds
  cases hl : ((canonPairs s.reps).map swap).lookup r.id with
  | none => exact absurd (hakeys ▸ hmem) (not_mem_of_lookup_none hl)
  | some v =>
    have hin : (r.id, v) ∈ (canonPairs s.reps).map swap := (lookup_eq_some_iff haNd).mp hl
    obtain ⟨p, hp, hpe⟩ := List.mem_map.mp hin
    have : nameOfId s r.id = v := by
      unfold nameOfId canonNodeToName
      simp only [List.lookup_append, hl, Option.some_or, Option.getD_some]
    rw [this]
    simp only [swap, Prod.mk.injEq] at hpe
    obtain ⟨h1, h2⟩ := hpe
    rw [← h1, ← h2]
    exact hp

/-- an equivalent node bears the name of its representative -/
theorem equiv_name {n r : Nat} (h : (n, r) ∈ s.equiv) : nameOfId s n = nameOfId s r := by
  have hk := keysNd inv nd
  have hcanonNd : ((canonNodeToName s).map Prod.fst).Nodup := by
    rw [canonNodeToName_keys]; exact hk
  have hr : r ∈ repIds s.reps := inv.rep _ h
  have hakeys : ((canonPairs s.reps).map swap).map Prod.fst = repIds s.reps := by
    rw [map_swap_fst, canonPairs, canonPairs_snd]
  -- the representative is found in the first part
  have hrl : (canonNodeToName s).lookup r = ((canonPairs s.reps).map swap).lookup r := by
    unfold canonNodeToName
    apply lookup_append_left_of_not_mem
    simp only [List.map_map]
    intro hm
    obtain ⟨e, he, hee⟩ := List.mem_map.mp hm
    simp only [Function.comp] at hee
    exact (List.nodup_append.mp hk).2.2 _ hr _ (List.mem_map_of_mem (f := Prod.fst) he) hee.symm
  have hnl : (canonNodeToName s).lookup n = some ((((canonPairs s.reps).map swap).lookup r).getD []) := by
    rw [lookup_eq_some_iff hcanonNd]
    unfold canonNodeToName
    apply List.mem_append_right
    exact List.mem_map.mpr ⟨(n, r), h, rfl⟩
  unfold nameOfId
  rw [hnl, hrl]
  rfl

/-- Two processed nodes get the same name iff they agree in base name and source text. -/
theorem nameOfId_eq_iff {n₁ n₂ : QNode} (h₁ : n₁ ∈ q) (h₂ : n₂ ∈ q) :
    nameOfId s n₁.id = nameOfId s n₂.id ↔ (n₁.base = n₂.base ∧ n₁.src = n₂.src) := by
  obtain ⟨e₁, he₁, r₁, hr₁, hb₁, hs₁, hc₁⟩ := inv.cover n₁ h₁
  obtain ⟨e₂, he₂, r₂, hr₂, hb₂, hs₂, hc₂⟩ := inv.cover n₂ h₂
  have hn₁ : nameOfId s n₁.id = nameOfId s r₁.id := by
    rcases hc₁ with hc | hc
    · rw [hc]
    · exact equiv_name inv nd hc
  have hn₂ : nameOfId s n₂.id = nameOfId s r₂.id := by
    rcases hc₂ with hc | hc
    · rw [hc]
    · exact equiv_name inv nd hc
  have hp₁ := rep_name inv nd he₁ hr₁
  have hp₂ := rep_name inv nd he₂ hr₂
  have hnamesNd := canonPairs_names_nodup s.reps inv.keys
  rw [hn₁, hn₂]
  constructor
  · intro heq
    -- same name ⇒ same representative
    have h1 := (lookup_eq_some_iff hnamesNd).mpr hp₁
    have h2 := (lookup_eq_some_iff hnamesNd).mpr hp₂
    rw [heq, h2] at h1
    have hid : r₂.id = r₁.id := by simpa using h1
    have hr : r₂ = r₁ := eq_of_nodup_map (·.id) nd (inv.base _ he₂ _ hr₂).2 (inv.base _ he₁ _ hr₁).2 hid
    subst hr
    exact ⟨hb₁.symm.trans hb₂, hs₁.symm.trans hs₂⟩
  · rintro ⟨hb, hs⟩
    -- same base name ⇒ same map entry; same source text ⇒ same representative
    have hk : e₁.1 = e₂.1 := by
      rw [← (inv.base _ he₁ _ hr₁).1, ← (inv.base _ he₂ _ hr₂).1, hb₁, hb₂, hb]
    have he : e₁ = e₂ := by
      have l1 : s.reps.lookup e₁.1 = some e₁.2 := (lookup_eq_some_iff inv.keys).mpr he₁
      have l2 : s.reps.lookup e₂.1 = some e₂.2 := (lookup_eq_some_iff inv.keys).mpr he₂
      rw [hk, l2] at l1
      have : e₂.2 = e₁.2 := by simpa using l1
      exact Prod.ext hk this.symm
    subst he
    have hr : r₁ = r₂ := eq_of_nodup_map (·.src) (inv.srcs _ he₁) hr₁ hr₂ (by rw [hs₁, hs₂, hs])
    rw [hr]

end

end SoyVerif.Model.Msg
