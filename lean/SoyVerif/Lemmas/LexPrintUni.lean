/-
  UTF-8 in the lexer's input: `next` at an arbitrary byte (`next_any`: the rune is ≥ 0x80 and its
  continuation bytes are ≥ 0x80 when the lead byte is), the valid sequence at the head of a byte list
  (`runeAt`, the arithmetic of `Lex.decodeRune` without the RuneError exits) and `next` over it
  (`next_rune`), runs of letters / digits / `_` in UTF-8 (`alnumBytes`) and `scanWhile isAlphaNumeric`
  over such a run (`scan_runes`) — identifiers may contain any Unicode letter or digit.
-/
import SoyVerif.Lemmas.LexPrintBase
import SoyVerif.Lemmas.Lexer

set_option linter.unusedSimpArgs false
set_option linter.unusedVariables false

namespace SoyVerif.Lemmas.LexPrint
open SoyVerif SoyVerif.Model SoyVerif.Model.Lex

variable {tg : Int}

/-- a lead byte ≥ 0x80 decodes to a rune ≥ 0x80 (RuneError included) whose continuation bytes
    are all ≥ 0x80 -/
theorem decode_hi (a : Array UInt8) (i : Nat) (h : 128 ≤ byteAt a i) :
    128 ≤ (decodeRune a i).1 ∧ ∀ j, 1 ≤ j → j < (decodeRune a i).2 → 128 ≤ byteAt a (i + j) := by
  have lo := acceptLo_spec (byteAt a i)
  have hi := acceptHi_le (byteAt a i)
  unfold decodeRune
  simp only [runeError]
  split
  · omega
  split
  · exact ⟨by simp, fun j h1 h2 => by simp at h2; omega⟩
  split
  · split
    · exact ⟨by simp, fun j h1 h2 => by simp at h2; omega⟩
    split
    · exact ⟨by simp, fun j h1 h2 => by simp at h2; omega⟩
    · refine ⟨by simp only; omega, fun j h1 h2 => ?_⟩
      simp only at h2
      have : j = 1 := by omega
      subst this; omega
  split
  · split
    · exact ⟨by simp, fun j h1 h2 => by simp at h2; omega⟩
    split
    · exact ⟨by simp, fun j h1 h2 => by simp at h2; omega⟩
    split
    · exact ⟨by simp, fun j h1 h2 => by simp at h2; omega⟩
    · refine ⟨?_, fun j h1 h2 => ?_⟩
      · simp only
        by_cases h224 : byteAt a i = 224
        · have := lo.2.1 h224; omega
        · omega
      · simp only at h2
        have : j = 1 ∨ j = 2 := by omega
        rcases this with rfl | rfl <;> omega
  split
  · split
    · exact ⟨by simp, fun j h1 h2 => by simp at h2; omega⟩
    split
    · exact ⟨by simp, fun j h1 h2 => by simp at h2; omega⟩
    split
    · exact ⟨by simp, fun j h1 h2 => by simp at h2; omega⟩
    split
    · exact ⟨by simp, fun j h1 h2 => by simp at h2; omega⟩
    · refine ⟨?_, fun j h1 h2 => ?_⟩
      · simp only
        by_cases h240 : byteAt a i = 240
        · have := lo.2.2 h240; omega
        · omega
      · simp only at h2
        have : j = 1 ∨ j = 2 ∨ j = 3 := by omega
        rcases this with rfl | rfl | rfl <;> omega
  · exact ⟨by simp, fun j h1 h2 => by simp at h2; omega⟩

theorem inpAt_getD {inp : Array UInt8} {p : Nat} {s : Bytes} (h : InpAt inp p s) (j : Nat) (hj : j < s.length) :
    inp.getD (p + j) 0 = s.getD j 0 := by
  obtain ⟨pre, rfl, rfl⟩ := h
  simp [List.getD_eq_getElem?_getD, List.getElem?_append_right]

/-- `next` at ANY byte: it consumes that byte and possibly continuation bytes (all ≥ 0x80); the rune
    is the byte itself if ASCII, and ≥ 0x80 otherwise -/
theorem next_any {inp : Array UInt8} {p : Nat} {b : UInt8} {s : Bytes} (h : InpAt inp p (b :: s)) (st w le its) :
    ∃ (r : Int) (c s' : Bytes), s = c ++ s' ∧ (∀ x ∈ c, 128 ≤ x.toNat) ∧
      (b.toNat < 128 → r = (b.toNat : Int) ∧ c = []) ∧ (128 ≤ b.toNat → 128 ≤ r) ∧
      (L tg inp p st w le its).next = some (r, L tg inp (p + (c.length + 1)) st ((c.length + 1 : Nat) : Int) le its) := by
  by_cases hb : b.toNat < 128
  · exact ⟨b.toNat, [], s, rfl, by simp, fun _ => ⟨rfl, rfl⟩, fun h' => by omega, next_L h hb st w le its⟩
  · have ⟨h1, h2⟩ := inpAt_get h
    have hlen := inpAt_len h
    have hba : byteAt inp p = b.toNat := by simp [byteAt, h2]
    have hd := decode_hi inp p (by omega)
    have hw := decodeRune_width inp p h1
    generalize hdr : decodeRune inp p = d at hd hw
    obtain ⟨r, k⟩ := d
    simp only at hd hw
    have hk : k - 1 ≤ s.length := by simp at hlen; omega
    refine ⟨r, s.take (k - 1), s.drop (k - 1), (List.take_append_drop _ _).symm, ?_, fun h' => absurd h' hb,
      fun _ => by omega, ?_⟩
    · intro x hx
      obtain ⟨j, hj, rfl⟩ := List.mem_iff_getElem.mp hx
      simp only [List.length_take] at hj
      have hj' : j < k - 1 := by omega
      have := hd.2 (j + 1) (by omega) (by omega)
      have hg := inpAt_getD h (j + 1) (by simp; omega)
      simp only [byteAt] at this
      rw [← Nat.add_assoc] at this
      rw [Nat.add_assoc, hg] at this
      simp only [List.getElem_take]
      simpa [List.getD_eq_getElem?_getD, List.getElem?_eq_getElem (show j < s.length by omega)] using this
    · have hkl : (s.take (k - 1)).length + 1 = k := by simp; omega
      rw [hkl]
      unfold Lexer.next L Lexer.len
      simp only [Int.toNat_natCast, hdr]
      rw [if_neg (by omega), if_neg (by omega)]
      simp

/-- the VALID UTF-8 sequence at the head of a byte list, with the arithmetic of `Lex.decodeRune`
    (= `utf8.DecodeRuneInString` where it does not return RuneError): (rune, width) -/
def runeAt : Bytes → Option (Nat × Nat)
  | [] => none
  | b0 :: rest =>
    let s0 := b0.toNat
    if s0 < 0x80 then some (s0, 1)
    else if s0 < 0xC2 then none
    else if s0 < 0xE0 then
      match rest with
      | b1 :: _ =>
        let s1 := b1.toNat
        if s1 < 0x80 ∨ 0xBF < s1 then none else some ((s0 % 32) * 64 + s1 % 64, 2)
      | _ => none
    else if s0 < 0xF0 then
      match rest with
      | b1 :: b2 :: _ =>
        let s1 := b1.toNat
        let s2 := b2.toNat
        if s1 < acceptLo s0 ∨ acceptHi s0 < s1 then none
        else if s2 < 0x80 ∨ 0xBF < s2 then none
        else some ((s0 % 16) * 4096 + (s1 % 64) * 64 + s2 % 64, 3)
      | _ => none
    else if s0 < 0xF5 then
      match rest with
      | b1 :: b2 :: b3 :: _ =>
        let s1 := b1.toNat
        let s2 := b2.toNat
        let s3 := b3.toNat
        if s1 < acceptLo s0 ∨ acceptHi s0 < s1 then none
        else if s2 < 0x80 ∨ 0xBF < s2 then none
        else if s3 < 0x80 ∨ 0xBF < s3 then none
        else some ((s0 % 8) * 262144 + (s1 % 64) * 4096 + (s2 % 64) * 64 + s3 % 64, 4)
      | _ => none
    else none

theorem byteAt_inp {inp : Array UInt8} {p : Nat} {s : Bytes} (h : InpAt inp p s) (j : Nat) (hj : j < s.length) :
    byteAt inp (p + j) = (s.getD j 0).toNat := by
  unfold byteAt; rw [inpAt_getD h j hj]

/-- `runeAt` is what `decodeRune` computes in place -/
theorem decode_runeAt {inp : Array UInt8} {p : Nat} {s : Bytes} {r w : Nat} (h : InpAt inp p s)
    (hr : runeAt s = some (r, w)) : decodeRune inp p = (r, w) ∧ 1 ≤ w ∧ w ≤ s.length := by
  have hlen := inpAt_len h
  cases s with
  | nil => simp [runeAt] at hr
  | cons b0 rest =>
    have h0 : byteAt inp p = b0.toNat := by simpa using byteAt_inp h 0 (by simp)
    unfold runeAt at hr
    unfold decodeRune
    simp only [h0]
    simp only at hr
    split at hr
    · rename_i c0
      simp only [Option.some.injEq, Prod.mk.injEq] at hr
      simp [c0, hr.1.symm, hr.2.symm]
    rename_i c0
    split at hr
    · exact absurd hr (by simp)
    rename_i c1
    simp only [c0, c1, if_false]
    split at hr
    · rename_i c2
      simp only [c2, if_true]
      split at hr
      · rename_i b1 t
        have h1 : byteAt inp (p + 1) = b1.toNat := by simpa using byteAt_inp h 1 (by simp)
        simp only [h1]
        split at hr
        · exact absurd hr (by simp)
        · rename_i c3
          simp only [Option.some.injEq, Prod.mk.injEq] at hr
          simp only [List.length_cons] at hlen
          rw [if_neg (by omega), if_neg c3]
          simp [hr.1.symm, hr.2.symm]
      · exact absurd hr (by simp)
    rename_i c2
    simp only [c2, if_false]
    split at hr
    · rename_i c3
      simp only [c3, if_true]
      split at hr
      · rename_i b1 b2 t
        have h1 : byteAt inp (p + 1) = b1.toNat := by simpa using byteAt_inp h 1 (by simp)
        have h2 : byteAt inp (p + 2) = b2.toNat := by simpa using byteAt_inp h 2 (by simp)
        simp only [h1, h2]
        split at hr
        · exact absurd hr (by simp)
        rename_i c4
        split at hr
        · exact absurd hr (by simp)
        rename_i c5
        simp only [Option.some.injEq, Prod.mk.injEq] at hr
        simp only [List.length_cons] at hlen
        rw [if_neg (by omega), if_neg c4, if_neg c5]
        simp [hr.1.symm, hr.2.symm]
      · exact absurd hr (by simp)
    rename_i c3
    simp only [c3, if_false]
    split at hr
    · rename_i c4
      simp only [c4, if_true]
      split at hr
      · rename_i b1 b2 b3 t
        have h1 : byteAt inp (p + 1) = b1.toNat := by simpa using byteAt_inp h 1 (by simp)
        have h2 : byteAt inp (p + 2) = b2.toNat := by simpa using byteAt_inp h 2 (by simp)
        have h3 : byteAt inp (p + 3) = b3.toNat := by simpa using byteAt_inp h 3 (by simp)
        simp only [h1, h2, h3]
        split at hr
        · exact absurd hr (by simp)
        rename_i c5
        split at hr
        · exact absurd hr (by simp)
        rename_i c6
        split at hr
        · exact absurd hr (by simp)
        rename_i c7
        simp only [Option.some.injEq, Prod.mk.injEq] at hr
        simp only [List.length_cons] at hlen
        rw [if_neg (by omega), if_neg c5, if_neg c6, if_neg c7]
        simp [hr.1.symm, hr.2.symm]
      · exact absurd hr (by simp)
    · exact absurd hr (by simp)

theorem runeAt_append {s : Bytes} {r w : Nat} (t : Bytes) (h : runeAt s = some (r, w)) : runeAt (s ++ t) = some (r, w) := by
  cases s with
  | nil => simp [runeAt] at h
  | cons b0 rest =>
    cases rest with
    | nil =>
      unfold runeAt at h ⊢
      simp only [List.cons_append, List.nil_append] at h ⊢
      split at h
      · rename_i c0; simp only [c0, if_true]; exact h
      rename_i c0
      split at h
      · exact absurd h (by simp)
      rename_i c1
      split at h
      · exact absurd h (by simp)
      split at h
      · exact absurd h (by simp)
      split at h
      · exact absurd h (by simp)
      · exact absurd h (by simp)
    | cons b1 rest =>
      cases rest with
      | nil =>
        unfold runeAt at h ⊢
        simp only [List.cons_append, List.nil_append] at h ⊢
        split at h
        · rename_i c0; simp only [c0, if_true]; exact h
        rename_i c0
        split at h
        · exact absurd h (by simp)
        rename_i c1
        split at h
        · rename_i c2; simp only [c0, c1, c2, if_true, if_false]; exact h
        rename_i c2
        split at h
        · exact absurd h (by simp)
        split at h
        · exact absurd h (by simp)
        · exact absurd h (by simp)
      | cons b2 rest =>
        cases rest with
        | nil =>
          unfold runeAt at h ⊢
          simp only [List.cons_append, List.nil_append] at h ⊢
          split at h
          · rename_i c0; simp only [c0, if_true]; exact h
          rename_i c0
          split at h
          · exact absurd h (by simp)
          rename_i c1
          split at h
          · rename_i c2; simp only [c0, c1, c2, if_true, if_false]; exact h
          rename_i c2
          split at h
          · rename_i c3; simp only [c0, c1, c2, c3, if_true, if_false]; exact h
          rename_i c3
          split at h
          · exact absurd h (by simp)
          · exact absurd h (by simp)
        | cons b3 rest =>
          unfold runeAt at h ⊢
          simp only [List.cons_append] at h ⊢
          exact h


/-- `next` over the valid rune at the head of the input -/
theorem next_rune {inp : Array UInt8} {p : Nat} {s : Bytes} {r w : Nat} (h : InpAt inp p s) (hr : runeAt s = some (r, w))
    (st w0 le its) :
    (L tg inp p st w0 le its).next = some ((r : Int), L tg inp (p + w) st (w : Int) le its) := by
  obtain ⟨hd, hw1, hw2⟩ := decode_runeAt h hr
  have hlen := inpAt_len h
  unfold Lexer.next L Lexer.len
  simp only [Int.toNat_natCast, hd]
  rw [if_neg (by omega), if_neg (by omega)]
  simp

theorem backup_Lw (inp p st le its) (w : Nat) : (L tg inp (p + w) st (w : Int) le its).backup = L tg inp p st (w : Int) le its := by
  unfold Lexer.backup L; simp

/-- letter / digit / underscore, decided on ASCII without the Unicode tables -/
def alnumR (r : Nat) : Bool :=
  if r < 128 then ((97 ≤ r && r ≤ 122) || (65 ≤ r && r ≤ 90) || r == 95 || (48 ≤ r && r ≤ 57)) else isAlphaNumeric (r : Int)

/-- letter or underscore (the first rune of a `$name`) -/
def letterR (r : Nat) : Bool :=
  if r < 128 then ((97 ≤ r && r ≤ 122) || (65 ≤ r && r ≤ 90) || r == 95) else isLetterU (r : Int)

/-- the bytes are valid UTF-8 and every rune is a letter, a digit or `_` (`isAlphaNumeric`);
    `fuel` bounds the number of runes -/
def alnumRunes : Nat → Bytes → Bool
  | _, [] => true
  | 0, _ :: _ => false
  | f + 1, b :: s =>
    match runeAt (b :: s) with
    | some (r, w) => alnumR r && alnumRunes f ((b :: s).drop w)
    | none => false

def alnumBytes (k : Bytes) : Bool := alnumRunes k.length k

theorem alnumRunes_ascii : ∀ (f : Nat) (k : Bytes), k.length ≤ f → (∀ b ∈ k, isIdChar b = true) → alnumRunes f k = true
  | _, [], _, _ => by simp [alnumRunes]
  | 0, b :: s, h, _ => by simp at h
  | f + 1, b :: s, h, hk => by
    have hb := isIdChar_nat (hk b (by simp))
    have hb128 : b.toNat < 128 := by omega
    have hr : runeAt (b :: s) = some (b.toNat, 1) := by simp [runeAt, hb128]
    simp only [alnumRunes, hr, List.drop_succ_cons, List.drop_zero, Bool.and_eq_true]
    refine ⟨?_, alnumRunes_ascii f s (by simp at h; omega) (fun c hc => hk c (by simp [hc]))⟩
    simp only [alnumR, hb128, if_true, Bool.or_eq_true, Bool.and_eq_true, decide_eq_true_eq, beq_iff_eq]
    omega

theorem alnumBytes_ascii {k : Bytes} (hk : ∀ b ∈ k, isIdChar b = true) : alnumBytes k = true :=
  alnumRunes_ascii k.length k (Nat.le_refl _) hk


theorem runeAt_width {s : Bytes} {r w : Nat} (h : runeAt s = some (r, w)) : 1 ≤ w ∧ w ≤ s.length :=
  (decode_runeAt (inpAt_zero s) h).2

theorem inpAt_drop {inp : Array UInt8} {p w : Nat} {k rest : Bytes} (h : InpAt inp p (k ++ rest)) (hw : w ≤ k.length) :
    InpAt inp (p + w) (k.drop w ++ rest) := by
  have : InpAt inp p (k.take w ++ (k.drop w ++ rest)) := by
    rw [← List.append_assoc, List.take_append_drop]; exact h
  have := inpAt_append this
  simpa [List.length_take, Nat.min_eq_left hw] using this

/-- `for isAlphaNumeric(l.next()) {}` over a run of letters / digits / `_` in UTF-8 -/
theorem scan_runes (hA : ∀ r : Nat, alnumR r = true → isAlphaNumeric (r : Int) = true) {inp : Array UInt8} :
    ∀ (f : Nat) (k : Bytes) {p : Nat} {rest : Bytes}, alnumRunes f k = true → InpAt inp p (k ++ rest) →
    AsciiHd rest → isAlphaNumeric (hdRune rest) = false →
    ∀ (st : Nat) (w : Int) (le : Item) (its : Array Item),
    scanWhile isAlphaNumeric isAlphaNumeric_eof (L tg inp p st w le its) =
      some (hdRune rest, L tg inp (p + k.length + hdW rest) st (hdW rest) le its)
  | _, [], p, rest, _, h, ha, hf, st, w, le, its => by
    rw [scanWhile_some (next_hd (by simpa using h) ha st w le its), if_neg (by simp [hf])]
    simp
  | 0, b :: s, p, rest, hk, _, _, _, _, _, _, _ => by simp [alnumRunes] at hk
  | f + 1, b :: s, p, rest, hk, h, ha, hf, st, w, le, its => by
    unfold alnumRunes at hk
    split at hk
    · rename_i r wd hr
      simp only [Bool.and_eq_true] at hk
      obtain ⟨hw1, hw2⟩ := runeAt_width hr
      have hn := next_rune (tg := tg) h (runeAt_append rest hr) st w le its
      rw [scanWhile_some hn, if_pos (hA r hk.1)]
      rw [scan_runes hA f ((b :: s).drop wd) hk.2 (inpAt_drop h hw2) ha hf]
      congr 3
      simp only [List.length_drop]
      omega
    · exact absurd hk (by simp)


theorem runeAt_ascii {c : UInt8} (t : Bytes) (h : c.toNat < 128) : runeAt (c :: t) = some (c.toNat, 1) := by
  simp [runeAt, h]

/-- a valid multi-byte sequence decodes to a rune ≥ 0x80 -/
theorem runeAt_hi {c : UInt8} {t : Bytes} {r w : Nat} (h : 128 ≤ c.toNat) (hr : runeAt (c :: t) = some (r, w)) : 128 ≤ r := by
  have hd := (decode_runeAt (inpAt_zero (c :: t)) hr).1
  have hb : byteAt (c :: t).toArray 0 = c.toNat := by simp [byteAt]
  have := (decode_hi (c :: t).toArray 0 (by omega)).1
  rw [hd] at this
  exact this

theorem alnumBytes_cons_rune {c : UInt8} {t : Bytes} (h : alnumBytes (c :: t) = true) :
    ∃ r w, runeAt (c :: t) = some (r, w) ∧ alnumR r = true := by
  unfold alnumBytes at h
  simp only [List.length_cons] at h
  unfold alnumRunes at h
  split at h
  · rename_i r w hr
    simp only [Bool.and_eq_true] at h
    exact ⟨r, w, hr, h.1⟩
  · exact absurd h (by simp)

end SoyVerif.Lemmas.LexPrint
