/-
  File level of the generator model: the header comment, the namespace declarations, one function
  per template, the import block.  `TSpec` is the body-level logic of Lemmas/JsGenSpec extended
  with an exact account of the function headers written.
-/
import SoyVerif.Lemmas.JsGenSafe
import SoyVerif.Spec.JsString

namespace SoyVerif.Lemmas.JsGenTop
open SoyVerif SoyVerif.Model SoyVerif.Model.JsGen SoyVerif.Lemmas.JsGenSpec SoyVerif.Lemmas.JsGenSafe

/-- no line terminator: the text stays inside a `//` comment -/
def CommentSafe (b : Bytes) : Prop := (∀ c ∈ b, c ≠ 10 ∧ c ≠ 13) ∧ SoyVerif.Spec.noLineSep b = true

/-! ### the file name as visitSoyFile writes it (soyjs 086971f) is comment-safe, whatever the name -/

namespace Comment
open SoyVerif.Spec (isLineSep noLineSep)

/-- utf8.EncodeRune on the code point itself -/
def encN (n : Nat) : Bytes :=
  if n < 0x80 then [UInt8.ofNat n]
  else if n < 0x800 then [UInt8.ofNat (0xC0 + n / 64), UInt8.ofNat (0x80 + n % 64)]
  else if n < 0x10000 then
    [UInt8.ofNat (0xE0 + n / 4096), UInt8.ofNat (0x80 + (n / 64) % 64), UInt8.ofNat (0x80 + n % 64)]
  else
    [UInt8.ofNat (0xF0 + n / 262144), UInt8.ofNat (0x80 + (n / 4096) % 64),
     UInt8.ofNat (0x80 + (n / 64) % 64), UInt8.ofNat (0x80 + n % 64)]

theorem encodeRune_eq (r : Int) : Utf8.encodeRune r = encN (if Utf8.validRune r then r.toNat else Utf8.runeError) := rfl

theorem ofNat_ne {k : Nat} {c : Nat} (hk : k < 256) (hc : k ≠ c) (hc2 : c < 256) : UInt8.ofNat k ≠ UInt8.ofNat c := by
  intro h
  have := congrArg UInt8.toNat h
  simp at this
  omega

theorem isLineSep_ne (b : UInt8) (X : Bytes) (h : b ≠ 0xE2) : isLineSep (b :: X) = false := by
  cases X with
  | nil => simp [isLineSep]
  | cons x X => cases X <;> simp [isLineSep, h]

theorem isLineSep_ne2 (a b c : UInt8) (X : Bytes) (h : b ≠ 0x80) : isLineSep (a :: b :: c :: X) = false := by
  simp [isLineSep, h]

theorem isLineSep_ne3 (a b c : UInt8) (X : Bytes) (h1 : c ≠ 0xA8) (h2 : c ≠ 0xA9) : isLineSep (a :: b :: c :: X) = false := by
  simp [isLineSep, h1, h2]

theorem noLineSep_cons {c : UInt8} (hc : c ≠ 0xE2) (r : Bytes) : noLineSep (c :: r) = noLineSep r := by
  simp [noLineSep, isLineSep_ne c r hc]

theorem encN_bytes (n : Nat) (hn : n < 0x110000) (h10 : n ≠ 10) (h13 : n ≠ 13) : ∀ c ∈ encN n, c ≠ 10 ∧ c ≠ 13 := by
  intro c hc
  unfold encN at hc
  split at hc
  · simp only [List.mem_singleton] at hc; subst hc
    exact ⟨ofNat_ne (c := 10) (by omega) h10 (by omega), ofNat_ne (c := 13) (by omega) h13 (by omega)⟩
  · split at hc
    · simp only [List.mem_cons, List.not_mem_nil, or_false] at hc
      rcases hc with rfl | rfl <;> exact ⟨ofNat_ne (c := 10) (by omega) (by omega) (by omega), ofNat_ne (c := 13) (by omega) (by omega) (by omega)⟩
    · split at hc
      · simp only [List.mem_cons, List.not_mem_nil, or_false] at hc
        rcases hc with rfl | rfl | rfl <;> exact ⟨ofNat_ne (c := 10) (by omega) (by omega) (by omega), ofNat_ne (c := 13) (by omega) (by omega) (by omega)⟩
      · simp only [List.mem_cons, List.not_mem_nil, or_false] at hc
        rcases hc with rfl | rfl | rfl | rfl <;> exact ⟨ofNat_ne (c := 10) (by omega) (by omega) (by omega), ofNat_ne (c := 13) (by omega) (by omega) (by omega)⟩

theorem encN_lineSep (n : Nat) (hn : n < 0x110000) (h1 : n ≠ 0x2028) (h2 : n ≠ 0x2029) (rest : Bytes) :
    noLineSep (encN n ++ rest) = noLineSep rest := by
  unfold encN
  split
  · exact noLineSep_cons (ofNat_ne (c := 0xE2) (by omega) (by omega) (by omega)) _
  · split
    · simp only [List.cons_append, List.nil_append]
      rw [noLineSep_cons (ofNat_ne (c := 0xE2) (by omega) (by omega) (by omega)), noLineSep_cons (ofNat_ne (c := 0xE2) (by omega) (by omega) (by omega))]
    · split
      · simp only [List.cons_append, List.nil_append]
        have hsep : isLineSep (UInt8.ofNat (0xE0 + n / 4096) :: UInt8.ofNat (0x80 + (n / 64) % 64) :: UInt8.ofNat (0x80 + n % 64) :: rest) = false := by
          by_cases he : n / 4096 = 2
          · by_cases h3 : (n / 64) % 64 = 0
            · have hne1 : UInt8.ofNat (0x80 + n % 64) ≠ 0xA8 := ofNat_ne (c := 0xA8) (by omega) (by omega) (by omega)
              have hne2 : UInt8.ofNat (0x80 + n % 64) ≠ 0xA9 := ofNat_ne (c := 0xA9) (by omega) (by omega) (by omega)
              exact isLineSep_ne3 _ _ _ _ hne1 hne2
            · have hne : UInt8.ofNat (0x80 + (n / 64) % 64) ≠ 0x80 := ofNat_ne (c := 0x80) (by omega) (by omega) (by omega)
              exact isLineSep_ne2 _ _ _ _ hne
          · exact isLineSep_ne _ _ (ofNat_ne (c := 0xE2) (by omega) (by omega) (by omega))
        rw [noLineSep, hsep, noLineSep_cons (ofNat_ne (c := 0xE2) (by omega) (by omega) (by omega)), noLineSep_cons (ofNat_ne (c := 0xE2) (by omega) (by omega) (by omega))]
        simp
      · simp only [List.cons_append, List.nil_append]
        rw [noLineSep_cons (ofNat_ne (c := 0xE2) (by omega) (by omega) (by omega)), noLineSep_cons (ofNat_ne (c := 0xE2) (by omega) (by omega) (by omega)),
          noLineSep_cons (ofNat_ne (c := 0xE2) (by omega) (by omega) (by omega)), noLineSep_cons (ofNat_ne (c := 0xE2) (by omega) (by omega) (by omega))]


theorem commentRune_ok (r : Nat) :
    commentRune r ≠ 10 ∧ commentRune r ≠ 13 ∧ commentRune r ≠ 0x2028 ∧ commentRune r ≠ 0x2029 := by
  unfold commentRune
  split
  · decide
  · rename_i h
    simp only [Bool.or_eq_true, beq_iff_eq, not_or] at h
    omega

theorem enc_safe (k : Nat) (h : k ≠ 10 ∧ k ≠ 13 ∧ k ≠ 0x2028 ∧ k ≠ 0x2029) :
    (∀ c ∈ Utf8.encodeRune k, c ≠ 10 ∧ c ≠ 13) ∧ ∀ rest, noLineSep (Utf8.encodeRune k ++ rest) = noLineSep rest := by
  rw [encodeRune_eq]
  have hn : (if Utf8.validRune (k : Int) then (k : Int).toNat else Utf8.runeError) < 0x110000 ∧
      ((if Utf8.validRune (k : Int) then (k : Int).toNat else Utf8.runeError) = k ∨
       (if Utf8.validRune (k : Int) then (k : Int).toNat else Utf8.runeError) = 0xFFFD) := by
    by_cases hv : Utf8.validRune (k : Int) = true
    · rw [if_pos hv]
      simp only [Utf8.validRune, Bool.or_eq_true, Bool.and_eq_true, decide_eq_true_eq] at hv
      omega
    · rw [if_neg hv]; exact ⟨by decide, Or.inr rfl⟩
  generalize (if Utf8.validRune (k : Int) then (k : Int).toNat else Utf8.runeError) = n at hn
  have h' : n ≠ 10 ∧ n ≠ 13 ∧ n ≠ 0x2028 ∧ n ≠ 0x2029 := by omega
  exact ⟨encN_bytes n hn.1 h'.1 h'.2.1, encN_lineSep n hn.1 h'.2.2.1 h'.2.2.2⟩

theorem flat_safe : ∀ L : List Nat, CommentSafe (L.flatMap fun r => Utf8.encodeRune (commentRune r))
  | [] => ⟨fun _ h => (nomatch h), rfl⟩
  | r :: L => by
    have ⟨h1, h2⟩ := enc_safe (commentRune r) (commentRune_ok r)
    have ih := flat_safe L
    simp only [List.flatMap_cons]
    refine ⟨fun c hc => ?_, ?_⟩
    · rcases List.mem_append.mp hc with hc | hc
      · exact h1 c hc
      · exact ih.1 c hc
    · rw [h2]; exact ih.2

end Comment

/-- `strings.Map` has replaced every line terminator: the header comment holds ANY file name -/
theorem commentName_safe (s : Bytes) : CommentSafe (commentName s) := Comment.flat_safe _

-- hostile names: LF, CR, U+2028, U+2029 become a space; a byte that is not UTF-8 becomes U+FFFD (as strings.Map writes it)
example : commentName b!"a\nb\r.soy" = b!"a b .soy" := by decide
example : commentName [97, 0xE2, 0x80, 0xA8, 98, 0xE2, 0x80, 0xA9, 0xC3, 0xA9] = [97, 32, 98, 32, 0xC3, 0xA9] := by decide
example : commentName [0xFF, 0xE2, 0x80, 10] = [0xEF, 0xBF, 0xBD, 0xEF, 0xBF, 0xBD, 0xEF, 0xBF, 0xBD, 32] := by decide
example : commentName b!"dir/f.soy" = b!"dir/f.soy" := by decide
example : ¬ CommentSafe b!"a\nb" := fun h => absurd rfl (h.1 10 (by decide)).1

/-- what a piece written anywhere in a file may be -/
def POkTop : Piece → Prop
  | .fixed _ => True
  | .escaped _ => True
  | .ident b => IsIdent b
  | .qname b => QChars b
  | .es6name b => QChars b
  | .int _ => True
  | .float _ => True
  | .header _ n => QChars n
  | .comment b => CommentSafe b

theorem pok_top {p : Piece} (h : POk p) : POkTop p := by
  cases p <;> first | exact h | exact h.elim

/-- the function headers among the pieces, in order: (ES6 form?, template name) -/
def hdrs : List Piece → List (Bool × Bytes)
  | [] => []
  | .header e n :: r => (e, n) :: hdrs r
  | _ :: r => hdrs r

theorem hdrs_append : ∀ (a b : List Piece), hdrs (a ++ b) = hdrs a ++ hdrs b
  | [], b => rfl
  | p :: r, b => by
    cases p <;> simp [hdrs, hdrs_append r b]

theorem hdrs_of_pok : ∀ (ps : List Piece), AllP POk ps → hdrs ps = []
  | [], _ => rfl
  | p :: r, h => by
    have hp : POk p := h p (by simp)
    have hr := hdrs_of_pok r (fun q hq => h q (by simp [hq]))
    cases p <;> first | simpa [hdrs] using hr | exact hp.elim

def TSpec {α : Type} (I J : St → Prop) (m : M α) (names : List (Bool × Bytes)) (Q : α → Prop) : Prop :=
  ∀ s a ps s', I s → m s = .ok (a, ps, s') → AllP POkTop ps ∧ hdrs ps = names ∧ J s' ∧ Q a

theorem TSpec.ofSpec {α : Type} {I J : St → Prop} {m : M α} {Q : α → Prop} (h : Spec POk I J m Q) :
    TSpec I J m [] Q := by
  intro s a ps s' hI hh
  have ⟨p, j, q⟩ := h _ _ _ _ hI hh
  exact ⟨fun x hx => pok_top (p x hx), hdrs_of_pok ps p, j, q⟩

theorem TSpec.bind {α β : Type} {I J K : St → Prop} {m : M α} {k : α → M β} {n1 n2 : List (Bool × Bytes)}
    {Q : α → Prop} {R : β → Prop}
    (hm : TSpec I J m n1 Q) (hk : ∀ a, Q a → TSpec J K (k a) n2 R) : TSpec I K (m >>= k) (n1 ++ n2) R := by
  intro s b ps s' hI h
  simp only [Bind.bind, M.bind] at h
  cases h1 : m s with
  | error e => simp [h1] at h
  | ok r =>
    obtain ⟨a, ps1, s1⟩ := r
    simp only [h1] at h
    cases h2 : k a s1 with
    | error e => simp [h2] at h
    | ok r2 =>
      obtain ⟨b', qs, s2⟩ := r2
      simp only [h2, Except.ok.injEq, Prod.mk.injEq] at h
      obtain ⟨rfl, rfl, rfl⟩ := h
      have ⟨p1, e1, j1, qa⟩ := hm _ _ _ _ hI h1
      have ⟨p2, e2, k2, rb⟩ := hk a qa _ _ _ _ j1 h2
      exact ⟨AllP.append POkTop p1 p2, by rw [hdrs_append, e1, e2], k2, rb⟩

theorem TSpec.seq {α β : Type} {I J K : St → Prop} {m : M α} {k : M β} {n1 n2 : List (Bool × Bytes)}
    {Q : α → Prop} {R : β → Prop}
    (hm : TSpec I J m n1 Q) (hk : TSpec J K k n2 R) : TSpec I K (m >>= fun _ => k) (n1 ++ n2) R :=
  TSpec.bind hm (fun _ _ => hk)

/-- a step that writes no header, followed by the rest -/
theorem TSpec.seq0 {α β : Type} {I J K : St → Prop} {m : M α} {k : M β} {n : List (Bool × Bytes)}
    {Q : α → Prop} {R : β → Prop}
    (hm : Spec POk I J m Q) (hk : TSpec J K k n R) : TSpec I K (m >>= fun _ => k) n R := by
  have := TSpec.seq (TSpec.ofSpec hm) hk
  simpa using this

theorem TSpec.names_eq {α : Type} {I J : St → Prop} {m : M α} {n n' : List (Bool × Bytes)} {Q : α → Prop}
    (h : TSpec I J m n Q) (e : n = n') : TSpec I J m n' Q := e ▸ h

theorem TSpec.emitTop {I : St → Prop} {p : Piece} (hp : POkTop p) : TSpec I I (emit p) (hdrs [p]) (fun _ => True) := by
  intro s a ps s' hI hh
  simp only [emit, emits, Except.ok.injEq, Prod.mk.injEq] at hh
  obtain ⟨_, rfl, rfl⟩ := hh
  exact ⟨AllP.single POkTop hp, rfl, hI, trivial⟩

section
variable (sk : List Bytes → List Bytes) (o : Options)

theorem qchars_take {name : Bytes} (h : QChars name) (i : Nat) : QChars (name.take i) :=
  fun c hc => h c (List.mem_of_mem_take hc)

theorem s_nsLoop (b : Bytes) {name : Bytes} (h : QChars name) : ∀ (fuel i : Nat), SU b (nsLoop name fuel i)
  | 0, _ => by unfold nsLoop; exact s_pure
  | fuel + 1, i => by
    unfold nsLoop
    split
    · dsimp only
      have ih := s_nsLoop b h fuel (match indexOfDot (name.drop (i + 1)) with | none => name.length | some j => j + (i + 1))
      have e := fun k => s_emit (b := b) (p := .qname (name.take k)) (qchars_take h k)
      have e1 := e (match indexOfDot (name.drop (i + 1)) with | none => name.length | some j => j + (i + 1))
      msteps
    · exact s_pure

/-- the namespace node: declarations only -/
theorem namespace_top (b : Bytes) (p : Nat) (name : Bytes) (ae : Autoescape) (h : QChars name) :
    SU b (walkCmd sk o (.namespace p name ae)) := by
  sunfold walkCmd
  have h1 : SU b (JsGen.modify fun s => { s with ns := name, autoescape := ae }) := Spec.modify (fun _ h => h)
  have := s_nsLoop b h (name.length + 1) 0
  msteps

theorem soyDoc_top (b : Bytes) (p : Nat) (params : List SoyDocParam) : SU b (walkCmd sk o (.soyDoc p params)) := by
  sunfold walkCmd
  exact s_atNode _

/-- a template node: exactly one header, its own; the state ends with `bufferName = "output"` -/
theorem template_top (b : Bytes) (p : Nat) (name : Bytes) (body : Block) (ae : Autoescape) (pr : Bool)
    (hn : QChars name) (hb : BlockWN body) :
    TSpec (J b) (J b!"output") (walkCmd sk o (.template p name body ae pr)) [(isEs6 o, name)] (fun _ => True) := by
  sunfold walkCmd
  refine TSpec.seq0 s_atOther ?_
  refine TSpec.names_eq (TSpec.bind (n1 := []) (n2 := [(isEs6 o, name)]) (TSpec.ofSpec s_getSt) ?_) (by simp)
  intro s hs
  dsimp only
  have hmod : ∀ (f : St → St), (∀ s, J b s → J b (f s)) → SU b (JsGen.modify f) := fun f hf => Spec.modify hf
  refine TSpec.seq0 (Spec.whenM (hmod _ (fun _ h => h))) ?_
  refine TSpec.seq0 s_indentP ?_
  refine TSpec.seq0 s_nl ?_
  refine TSpec.seq0 s_indentP ?_
  refine TSpec.names_eq (TSpec.seq (n2 := []) (TSpec.emitTop (p := .header (isEs6 o) name) hn) ?_) (by simp [hdrs])
  refine TSpec.ofSpec ?_
  have hout : SU b!"output" (walkBody sk o body) := s_walkBody sk o body hb _ isIdent_output
  have hset : S b b!"output" (setBuf b!"output") (fun _ => True) := s_setBuf _
  have hmod2 : SU b!"output" (JsGen.modify fun s' => { s' with autoescape := s.autoescape }) := Spec.modify (fun _ h => h)
  have hwhen : SU b (whenM (allOptional s.lastNode) (do indentP; fx b!"opt_data = opt_data || {};"; nl)) := by
    apply Spec.whenM
    msteps
  refine Spec.seq s_nl ?_
  refine Spec.seq (s_addInFile _) ?_
  refine Spec.seq s_incIndent ?_
  refine Spec.seq hwhen ?_
  refine Spec.seq s_indentP ?_
  refine Spec.seq (s_fx _) ?_
  refine Spec.seq s_nl ?_
  refine Spec.seq hset ?_
  msteps

/-- file-level well-namedness of a node: namespace, soydoc or template with dotted names and a
    well-named body -/
def TopWN : Cmd → Prop
  | .namespace _ name _ => QChars name
  | .template _ name body _ _ => QChars name ∧ BlockWN body
  | .soyDoc _ _ => True
  | _ => False

/-- the name of a template node -/
def templateName? : Cmd → Option Bytes
  | .template _ name _ _ _ => some name
  | _ => none

def templateNames (cmds : List Cmd) : List Bytes := cmds.filterMap templateName?

/-- the headers a file must contain: one per template node, in order, in the formatter's form -/
def expectedHdrs (o : Options) (cmds : List Cmd) : List (Bool × Bytes) := (templateNames cmds).map fun n => (isEs6 o, n)

/-- file level: the invariant without a named buffer -/
def TSpecI {α : Type} (m : M α) (names : List (Bool × Bytes)) : Prop :=
  ∀ s a ps s', JsGenSafe.Inv s → m s = .ok (a, ps, s') → AllP POkTop ps ∧ hdrs ps = names ∧ JsGenSafe.Inv s'

theorem TSpecI.of {α : Type} {m : M α} {names : List (Bool × Bytes)} {Q : α → Prop}
    (h : ∀ b0, ∃ b1, TSpec (J b0) (J b1) m names Q) : TSpecI m names := by
  intro s a ps s' hI hh
  obtain ⟨b1, hb1⟩ := h s.bufferName
  have ⟨x, y, z, _⟩ := hb1 _ _ _ _ ⟨hI, rfl⟩ hh
  exact ⟨x, y, z.1⟩

theorem top_cmd (c : Cmd) (h : TopWN c) : TSpecI (walkCmd sk o c) (expectedHdrs o [c]) := by
  cases c with
  | «namespace» p name ae =>
    exact TSpecI.of (fun b0 => ⟨b0, TSpec.ofSpec (namespace_top sk o b0 p name ae h)⟩)
  | soyDoc p params =>
    exact TSpecI.of (fun b0 => ⟨b0, TSpec.ofSpec (soyDoc_top sk o b0 p params)⟩)
  | template p name body ae pr =>
    exact TSpecI.of (fun b0 => ⟨_, template_top sk o b0 p name body ae pr h.1 h.2⟩)
  | _ => exact h.elim

theorem TSpecI.bind {α β : Type} {m : M α} {k : α → M β} {n1 n2 : List (Bool × Bytes)}
    (hm : TSpecI m n1) (hk : ∀ a, TSpecI (k a) n2) : TSpecI (m >>= k) (n1 ++ n2) := by
  intro s b ps s' hI h
  simp only [Bind.bind, M.bind] at h
  cases h1 : m s with
  | error e => simp [h1] at h
  | ok r =>
    obtain ⟨a, ps1, s1⟩ := r
    simp only [h1] at h
    cases h2 : k a s1 with
    | error e => simp [h2] at h
    | ok r2 =>
      obtain ⟨b', qs, s2⟩ := r2
      simp only [h2, Except.ok.injEq, Prod.mk.injEq] at h
      obtain ⟨rfl, rfl, rfl⟩ := h
      have ⟨p1, e1, j1⟩ := hm _ _ _ _ hI h1
      have ⟨p2, e2, k2⟩ := hk a _ _ _ _ j1 h2
      exact ⟨AllP.append POkTop p1 p2, by rw [hdrs_append, e1, e2], k2⟩

theorem expectedHdrs_cons (c : Cmd) (r : List Cmd) : expectedHdrs o (c :: r) = expectedHdrs o [c] ++ expectedHdrs o r := by
  unfold expectedHdrs templateNames
  cases h : templateName? c <;> simp [List.filterMap_cons, h]

theorem top_walkTop : ∀ (cmds : List Cmd), (∀ c ∈ cmds, TopWN c) → TSpecI (walkTop sk o cmds) (expectedHdrs o cmds)
  | [], _ => by
    unfold walkTop
    intro s a ps s' hI hh
    simp only [Pure.pure, M.pure, Except.ok.injEq, Prod.mk.injEq] at hh
    obtain ⟨_, rfl, rfl⟩ := hh
    exact ⟨AllP.nil POkTop, rfl, hI⟩
  | c :: r, h => by
    unfold walkTop
    rw [expectedHdrs_cons]
    exact TSpecI.bind (top_cmd sk o c (h c (by simp))) (fun _ => top_walkTop r (fun x hx => h x (by simp [hx])))

/-- a file the parser produces: file-level nodes only, dotted names.  (Nothing is asked of the file's name since
    soyjs 086971f: `commentName_safe`.) -/
def FileWN (f : SoyFile) : Prop := ∀ c ∈ f.body, TopWN c

theorem TSpecI.step {α β : Type} {m : M α} {k : M β} {n : List (Bool × Bytes)} {Q : α → Prop}
    (hm : ∀ b, Spec POk (J b) (J b) m Q) (hk : TSpecI k n) : TSpecI (m >>= fun _ => k) n := by
  have h1 : TSpecI m [] := TSpecI.of (fun b0 => ⟨b0, TSpec.ofSpec (hm b0)⟩)
  have := TSpecI.bind h1 (fun _ => hk)
  simpa using this

theorem TSpecI.stepTop {α β : Type} {m : M α} {k : M β} {n : List (Bool × Bytes)} {Q : α → Prop}
    (hm : ∀ b, TSpec (J b) (J b) m [] Q) (hk : TSpecI k n) : TSpecI (m >>= fun _ => k) n := by
  have h1 : TSpecI m [] := TSpecI.of (fun b0 => ⟨b0, hm b0⟩)
  have := TSpecI.bind h1 (fun _ => hk)
  simpa using this

theorem top_visitSoyFile (f : SoyFile) (h : FileWN f) : TSpecI (visitSoyFile sk o f) (expectedHdrs o f.body) := by
  unfold visitSoyFile
  refine TSpecI.step (fun _ => s_atOther) ?_
  refine TSpecI.step (fun _ => s_indentP) ?_
  refine TSpecI.step (fun _ => s_fx _) ?_
  refine TSpecI.stepTop (fun _ => TSpec.emitTop (p := .comment (commentName f.name)) (commentName_safe f.name)) ?_
  refine TSpecI.step (fun _ => s_fx _) ?_
  refine TSpecI.step (fun _ => s_nl) ?_
  refine TSpecI.step (fun _ => s_indentP) ?_
  refine TSpecI.step (fun _ => s_fx _) ?_
  refine TSpecI.step (fun _ => s_nl) ?_
  refine TSpecI.step (fun _ => s_indentP) ?_
  refine TSpecI.step (fun _ => s_nl) ?_
  exact top_walkTop sk o f.body h

end

end SoyVerif.Lemmas.JsGenTop
